#!/usr/bin/env python3
"""resolve a merge conflict in coq/_CoqProject by keeping both sides (lines are unique file names)"""
p='/verif/coq/_CoqProject'
s=open(p).read()
out=[]; seen=set()
for l in s.split('\n'):
    if l.startswith(('<<<<<<<','=======','>>>>>>>')): continue
    if l.strip() and l in seen: continue
    seen.add(l); out.append(l)
open(p,'w').write('\n'.join(out))
