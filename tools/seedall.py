#!/usr/bin/env python3
"""tools/seedall.py [-j N] [name ...] — self-test of the machinery: run every seeded change under seeded/ (or the named
ones) against the check of the property it breaks, on a scratch copy of /repo (never /repo itself), and report which are
caught (exit 1 + VIOLATION line).  Exits 0 iff every one is caught by its own property's check."""
import sys, os, json, subprocess, shutil, tempfile
from concurrent.futures import ThreadPoolExecutor
V = os.path.dirname(os.path.dirname(os.path.abspath(__file__)))
args = sys.argv[1:]; jobs = 4
if args[:1] == ["-j"]: jobs = int(args[1]); args = args[2:]
names = args or sorted(d for d in os.listdir(os.path.join(V, "seeded")) if os.path.isdir(os.path.join(V, "seeded", d)))

def one(name):
    sd = os.path.join(V, "seeded", name)
    meta = json.load(open(os.path.join(sd, "meta.json"))); pid = meta["breaks_property"]
    d = tempfile.mkdtemp(prefix="seedall_")
    try:
        for sub in ("src", "include", "test"): shutil.copytree(os.path.join("/repo", sub), os.path.join(d, sub))
        shutil.copy("/repo/CMakeLists.txt", d)
        r = subprocess.run(["patch", "-p1", "-s", "-d", d, "-i", os.path.join(sd, "patch.diff")], capture_output=True, text=True)
        if r.returncode != 0: return name, pid, "patch does not apply", ""
        ev = os.path.join(tempfile.mkdtemp(prefix="seedev_"))
        env = dict(os.environ, VERIF_REPO=d, VERIF_KEEP="60", VERIF_OUT=ev)
        r = subprocess.run([os.path.join(V, "check"), pid], cwd=V, env=env, capture_output=True, text=True)
        shutil.rmtree(ev, ignore_errors=True)
        vio = [l for l in r.stdout.splitlines() if l.startswith("VIOLATION")]
        why = [l for l in r.stderr.splitlines() if l.startswith("violation:")]
        return name, pid, ("caught" if r.returncode == 1 and vio else "MISSED (exit %d)" % r.returncode), (why[0][:150] if why else "")
    finally:
        shutil.rmtree(d, ignore_errors=True)

with ThreadPoolExecutor(jobs) as ex: res = list(ex.map(one, names))
bad = 0
for name, pid, st, why in res:
    print("%-34s %s %-18s %s" % (name, pid, st, why)); bad += st != "caught"
print("%d/%d caught by the check of their own property" % (len(res) - bad, len(res)))
sys.exit(1 if bad else 0)
