#!/usr/bin/env python3
"""tools/seedrun.py <patch.diff> <pid>[,<pid>...]
Apply a seeded change to /repo, run the given checks against it, undo the change straight afterwards
(git -C /repo checkout -- .) and restore the evidence files.  Prints one line per check."""
import sys, os, subprocess
patch, pids = sys.argv[1], sys.argv[2].split(",")
V = os.path.dirname(os.path.dirname(os.path.abspath(__file__)))
def sh(cmd, **kw): return subprocess.run(cmd, shell=True, stdout=subprocess.PIPE, stderr=subprocess.PIPE, **kw)
st = sh("git -C /repo status --porcelain --untracked-files=no").stdout.decode().strip()
if st: print("refusing: /repo has uncommitted changes:", st); sys.exit(2)
r = sh("git -C /repo apply --whitespace=nowarn %s" % patch)
if r.returncode != 0: print("patch does not apply:", r.stderr.decode()[:300]); sys.exit(2)
try:
    for pid in pids:
        r = sh("./check %s" % pid, cwd=V)
        out = r.stdout.decode().strip().split("\n")
        err = [l for l in r.stderr.decode().split("\n") if l.startswith("violation:")]
        print(pid, "exit", r.returncode, "|", out[-1][:160] if out else "", "|", (err[0][:170] if err else ""))
finally:
    sh("git -C /repo checkout -- .")
    sh("git checkout -- evidence/", cwd=V)
