#!/usr/bin/env python3
"""tools/collect_seed.py <seed dir> <name> <property> <caught_by csv> <needs...>  : store a confirmed seeded change under seeded/<name>/"""
import sys, os, shutil, json, subprocess
src, name, prop, caught = sys.argv[1:5]; needs = " ".join(sys.argv[5:])
V = os.path.dirname(os.path.dirname(os.path.abspath(__file__)))
d = os.path.join(V, "seeded", name); os.makedirs(d, exist_ok=True)
so = os.path.join(src, "seed_out")
for f in os.listdir(so):
    if f.startswith(("patch.diff", "demo.", "notes.md")): shutil.copy(os.path.join(so, f), d)
conf = subprocess.run([os.path.join(V, "tools", "confirm_seed.sh"), src], stdout=subprocess.PIPE).stdout.decode().strip().split("\n")[-1]
meta = {"breaks_property": prop, "needs_to_manifest": needs, "origin": "sub-agent given only the property text and a scratch worktree of /repo",
        "confirmed": conf, "what_was_run": ["tools/confirm_seed.sh %s  (build, repository test suite with the patch, demo with and without the patch)" % src,
                                              "tools/seedrun.py seeded/%s/patch.diff %s  (git -C /repo apply, ./check, git -C /repo checkout -- .)" % (name, caught)],
        "caught_by": caught.split(",") if caught else []}
json.dump(meta, open(os.path.join(d, "meta.json"), "w"), indent=1)
print(name, conf)
