#!/usr/bin/env python3
"""tools/seedcopy.py <patch.diff> <pid>[,<pid>...]  — like seedrun.py but on a scratch copy of /repo (VERIF_REPO), so that
/repo itself is not touched while other checks are running.  Evidence files are restored afterwards."""
import sys, os, shutil, subprocess, tempfile
patch, pids = sys.argv[1], sys.argv[2].split(",")
V = os.path.dirname(os.path.dirname(os.path.abspath(__file__)))
d = tempfile.mkdtemp(prefix="seedrepo_")
try:
    for sub in ("src", "include", "test"):
        shutil.copytree(os.path.join("/repo", sub), os.path.join(d, sub))
    shutil.copy("/repo/CMakeLists.txt", d)
    r = subprocess.run(["patch", "-p1", "-s", "-d", d, "-i", os.path.abspath(patch)], stdout=subprocess.PIPE, stderr=subprocess.STDOUT)
    if r.returncode != 0: print("patch does not apply:", r.stdout.decode()[:300]); sys.exit(2)
    env = dict(os.environ, VERIF_REPO=d)
    for pid in pids:
        # keep the evidence of the real tree: run with a private evidence copy
        ev = os.path.join(V, "evidence", pid + ".json"); bak = None
        if os.path.exists(ev): bak = open(ev).read()
        r = subprocess.run(["./check", pid], cwd=V, env=env, stdout=subprocess.PIPE, stderr=subprocess.PIPE)
        out = r.stdout.decode().strip().split("\n")
        err = [l for l in r.stderr.decode().split("\n") if l.startswith("violation:")]
        print(pid, "exit", r.returncode, "|", out[-1][:160] if out else "", "|", (err[0][:170] if err else ""))
        if bak is not None: open(ev, "w").write(bak)
finally:
    shutil.rmtree(d, ignore_errors=True)
