#!/bin/bash
# tools/confirm_seed.sh <seed worktree> : confirm a seeded change (patch applied in the worktree):
# library builds, the repository's suite passes with it, the demo fails with it and passes without it.
d="$1"; cd "$d" || exit 2
pf="$d/seed_out/patch.diff"
git -C "$d" diff --quiet -- src include && git -C "$d" apply "$pf"       # make sure the patch is applied
cmake -G Ninja -S "$d" -B "$d/_b" -DCMAKE_BUILD_TYPE=RelWithDebInfo -DURIPARSER_BUILD_DOCS=OFF -DGTest_DIR=/root/miniconda/lib/cmake/GTest >/dev/null 2>&1
cmake --build "$d/_b" 2>&1 | grep -i "warning\|error" | head -3
suite=$("$d/_b/testrunner" 2>&1 | tail -1)
demo=$(ls "$d"/seed_out/demo.c "$d"/seed_out/demo.cpp 2>/dev/null | head -1)
cc=gcc; std="-std=gnu99"; case "$demo" in *.cpp) cc=g++; std="";; esac
build() { $cc $std -g -fsanitize=address,undefined -fno-sanitize-recover=all -I"$d/include" -I"$d/_b" -I"$d/src" $1 "$demo" $( [ "$cc" = g++ ] && echo "-x c" ) "$d"/src/*.c -o "$d/_b/demo_bin" -lpthread 2>&1 | grep -i " error" | head -3; }
run() { ( cd "$d/seed_out" && ASAN_OPTIONS=detect_leaks=1 timeout 600 "$d/_b/demo_bin" >/dev/null 2>&1; echo $? ); }
build ""; with=$(run)
git -C "$d" apply -R "$pf"; build ""; without=$(run)
git -C "$d" apply "$pf"
echo "suite_with_patch='$suite' demo_with_patch_exit=$with demo_without_patch_exit=$without"
