#!/usr/bin/env python3
"""tools/mut.py <pid[,pid..]> <file> <old> <new> [count]  — run checks against a scratch copy of /repo with one textual change.
The copy lives under /tmp and is removed afterwards; /repo is never touched."""
import sys, os, shutil, subprocess, tempfile
pids, fn, old, new = sys.argv[1:5]
count = int(sys.argv[5]) if len(sys.argv) > 5 else 1
d = tempfile.mkdtemp(prefix="mutrepo_")
try:
    for sub in ("src", "include", "test"):
        shutil.copytree(os.path.join("/repo", sub), os.path.join(d, sub))
    shutil.copy("/repo/CMakeLists.txt", d)
    p = os.path.join(d, fn)
    s = open(p).read()
    if s.count(old) < 1:
        print("pattern not found"); sys.exit(2)
    s = s.replace(old, new, count)
    open(p, "w").write(s)
    env = dict(os.environ, VERIF_REPO=d)
    for pid in pids.split(","):
        r = subprocess.run(["./check", pid], cwd=os.path.dirname(os.path.dirname(os.path.abspath(__file__))), env=env,
                           stdout=subprocess.PIPE, stderr=subprocess.PIPE)
        out = r.stdout.decode().strip().split("\n")
        err = [l for l in r.stderr.decode().split("\n") if l.startswith("violation:")]
        print(pid, "exit", r.returncode, "|", out[-1] if out else "", "|", (err[0][:150] if err else ""))
finally:
    shutil.rmtree(d, ignore_errors=True)
