#!/bin/sh
# tools/suite.sh <repo dir> : configure+build the repository's own test suite in <repo dir>/_vbuild and run it
set -e
d="$1"
cmake -G Ninja -S "$d" -B "$d/_vbuild" -DCMAKE_BUILD_TYPE=RelWithDebInfo -DURIPARSER_BUILD_DOCS=OFF -DGTest_DIR=/root/miniconda/lib/cmake/GTest >/dev/null
cmake --build "$d/_vbuild" >/dev/null
"$d/_vbuild/testrunner" 2>&1 | tail -3
