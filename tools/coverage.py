#!/usr/bin/env python3
"""How much of /repo/src do the checks' generated inputs exercise?

Builds the plain char and wchar_t flavours of every driver with gcov instrumentation
(VERIF_COV=1, see gen/lib.py), runs the quick tier of every check, then merges the line and branch
counts of all instrumented builds and writes docs/COVERAGE.md (per file: lines executed, branches
taken at least once, and the source lines never executed).  This measures generator quality for the
correspondence check; it proves nothing.

  tools/coverage.py [C01 C02 ...]      (default: all twenty)
"""
import os, sys, subprocess, glob, re, json, shutil, collections
VERIF = os.path.dirname(os.path.dirname(os.path.abspath(__file__)))
REPO = os.environ.get("VERIF_REPO", "/repo")

def main():
    ids = sys.argv[1:] or ["C%02d" % i for i in range(1, 21)]
    import tempfile
    outdir = tempfile.mkdtemp(prefix="covout_")     # evidence and replays of the instrumented runs are not kept
    env = dict(os.environ, VERIF_COV="1", VERIF_OUT=outdir, VERIF_NO_SEARCH="1")
    impl = os.path.join(VERIF, "build", "impl")
    for d in glob.glob(os.path.join(impl, "*-cov")): shutil.rmtree(d)
    results = {}
    for pid in ids:
        p = subprocess.run([os.path.join(VERIF, "check"), pid], env=env, capture_output=True, text=True, cwd=VERIF)
        results[pid] = (p.stdout.strip().splitlines() or ["?"])[-1]
        if pid == "C20" and results[pid].startswith("VIOLATION"):
            results[pid] += "   (expected in this instrumented build only: the gcov counters are writable static data, which is what the symbol scan of C20 looks for)"
        print(results[pid], flush=True)
    lines = collections.defaultdict(dict)      # file -> line -> count
    branches = collections.defaultdict(dict)   # file -> (line, n) -> taken
    work = os.path.join(VERIF, "build", "gcov_work"); shutil.rmtree(work, ignore_errors=True); os.makedirs(work)
    for d in glob.glob(os.path.join(impl, "*-cov")):
        for od in glob.glob(os.path.join(d, "obj_*")):
            for gcda in glob.glob(os.path.join(od, "*.gcda")):
                subprocess.run(["gcov", "-b", "-c", "-o", od, gcda], cwd=work, capture_output=True, text=True)
                for g in glob.glob(os.path.join(work, "*.gcov")):
                    src = None; cur = None; bi = 0
                    for ln in open(g, errors="replace"):
                        m = re.match(r"\s*([^:]+):\s*(\d+):(.*)", ln)
                        if m and not ln.startswith(("branch", "call", "function")):
                            cnt, no, text = m.group(1).strip(), int(m.group(2)), m.group(3)
                            if no == 0:
                                if text.startswith("Source:"): src = os.path.basename(text[7:])
                                continue
                            cur = no; bi = 0
                            if cnt == "-": continue
                            c = 0 if cnt.startswith(("#", "=")) else int(cnt.rstrip("*"))
                            lines[src][no] = lines[src].get(no, 0) + c
                        elif ln.startswith("branch") and src:
                            t = 0 if ("never executed" in ln or "taken 0" in ln) else 1
                            k = (cur, bi); bi += 1
                            branches[src][k] = max(branches[src].get(k, 0), t)
                    os.remove(g)
    shutil.rmtree(work, ignore_errors=True)
    out = ["# Coverage of `/repo/src` by the checks' generated inputs", "",
           "Produced by `tools/coverage.py` (quick tier of: %s; plain char and wchar_t flavours, gcov)." % " ".join(ids),
           "A measure of generator quality for the correspondence check, nothing more.", "",
           "| file | lines executed | branch outcomes seen | lines never executed |", "|---|---|---|---|"]
    missing = []
    tot = [0, 0, 0, 0]
    for f in sorted(lines):
        if not f or not f.endswith(".c") or not os.path.exists(os.path.join(REPO, "src", f)): continue
        L = lines[f]; B = branches[f]
        ex = sum(1 for v in L.values() if v > 0); bt = sum(B.values())
        never = sorted(n for n, v in L.items() if v == 0)
        tot[0] += ex; tot[1] += len(L); tot[2] += bt; tot[3] += len(B)
        out.append("| %s | %d/%d (%.1f%%) | %d/%d (%.1f%%) | %d |" % (f, ex, len(L), 100.0 * ex / max(1, len(L)), bt, len(B), 100.0 * bt / max(1, len(B)), len(never)))
        if never:
            src = open(os.path.join(REPO, "src", f), errors="replace").read().splitlines()
            missing.append("### %s" % f); missing.append("```")
            for n in never: missing.append("%5d: %s" % (n, src[n - 1].rstrip() if n <= len(src) else ""))
            missing.append("```")
    out.append("| **total** | %d/%d (%.1f%%) | %d/%d (%.1f%%) | |" % (tot[0], tot[1], 100.0 * tot[0] / max(1, tot[1]), tot[2], tot[3], 100.0 * tot[2] / max(1, tot[3])))
    out += ["", "## Lines never executed", ""] + missing + ["", "## Check results of the instrumented run", ""] + ["* `%s`" % v for v in results.values()]
    open(os.path.join(VERIF, "docs", "COVERAGE.md"), "w").write("\n".join(out) + "\n")
    for d in glob.glob(os.path.join(impl, "*-cov")): shutil.rmtree(d)
    shutil.rmtree(outdir, ignore_errors=True)
    print("lines %d/%d, branch outcomes %d/%d -> docs/COVERAGE.md" % tuple(tot))

if __name__ == "__main__":
    main()
