#!/usr/bin/env python3
"""tools/mutcampaign.py [-j N] [-n MAX] [-s SEED] [file.c ...] — systematic self-test of the checks.

Generates one-token mutants of /repo/src/*.c (relational flips, && / ||, off-by-one constants, dropped case labels,
dropped simple assignments, TRUE/FALSE), each in a scratch copy of /repo under /tmp (never /repo itself).  A mutant that
does not compile or that the repository's own test suite kills is discarded; the others are exactly the "realistic changes
that compile and pass the tests".  Each of those is run against the quick tier of the checks that cover the mutated file,
stopping at the first check that reports a violation.  Survivors (no check fired) are listed for triage: they are either
equivalent mutants (behaviour unchanged, or changed only outside every property) or gaps in the machinery.

Writes build/mutcampaign.json and prints a summary.  This is testing of the machinery, not part of any proof."""
import sys, os, re, json, random, shutil, subprocess, tempfile, time
from concurrent.futures import ThreadPoolExecutor
V = os.path.dirname(os.path.dirname(os.path.abspath(__file__)))
REPO = "/repo"
CHECKS = {
    "UriParse.c": ["C01", "C02", "C03", "C04", "C14"], "UriParseBase.c": ["C01", "C02"], "UriIp4.c": ["C02", "C04"], "UriIp4Base.c": ["C02"],
    "UriRecompose.c": ["C05", "C04"], "UriResolve.c": ["C06", "C07", "C14", "C12"], "UriShorten.c": ["C10", "C07", "C14"],
    "UriNormalize.c": ["C08", "C09", "C12", "C14", "C13"], "UriNormalizeBase.c": ["C08"], "UriCommon.c": ["C06", "C08", "C09", "C11", "C14", "C10", "C07"],
    "UriCompare.c": ["C11"], "UriEscape.c": ["C16", "C17", "C18"], "UriQuery.c": ["C17", "C14", "C13"], "UriFile.c": ["C18"], "UriMemory.c": ["C15", "C13"],
}

def mutants_of(fn, text):
    """-> list of (line number, description, new text)"""
    out = []
    lines = text.split("\n")
    in_comment = False
    for i, ln in enumerate(lines):
        st = ln.strip()
        if in_comment:
            if "*/" in ln: in_comment = False
            continue
        if st.startswith("/*"):
            if "*/" not in st: in_comment = True
            continue
        if st.startswith(("#", "//", "*")) or not st: continue
        code = re.sub(r"/\*.*?\*/", lambda m: " " * len(m.group(0)), ln)
        def emit(desc, new_line):
            if new_line != ln: out.append((i + 1, desc, "\n".join(lines[:i] + [new_line] + lines[i + 1:])))
        for m in re.finditer(r"(?<![<>=!\-])(<=|>=|==|!=|<|>)(?![<>=])", code):
            op = m.group(1)
            if code[m.start() - 1:m.start()] == "-" and op == ">": continue          # ->
            for rep in {"<": ["<="], "<=": ["<"], ">": [">="], ">=": [">"], "==": ["!="], "!=": ["=="]}[op]:
                emit("%s -> %s" % (op, rep), ln[:m.start()] + rep + ln[m.end():])
        for m in re.finditer(r"&&|\|\|", code):
            rep = "||" if m.group(0) == "&&" else "&&"
            emit("%s -> %s" % (m.group(0), rep), ln[:m.start()] + rep + ln[m.end():])
        for m in re.finditer(r"(?<![\w.'])(\d+)(?![\w.'])", code):
            v = int(m.group(1))
            if v > 300 or "case" in code or "[" in code[:m.start()].split(";")[-1] and "]" in code[m.end():]: continue
            emit("%d -> %d" % (v, v + 1), ln[:m.start()] + str(v + 1) + ln[m.end():])
            if v > 0: emit("%d -> %d" % (v, v - 1), ln[:m.start()] + str(v - 1) + ln[m.end():])
        if re.match(r"\s*case\s+_UT\('.'\):\s*\\?$", code) or re.match(r"\s*case\s+_UT\('\\.'\):\s*\\?$", code):
            emit("case label dropped", "\\" if code.rstrip().endswith("\\") else "")
        if re.match(r"\s*[\w\->.\[\]\*\(\) ]+\s=\s[^=;]+;\s*$", code) and "const" not in code and not re.match(r"\s*(int|unsigned|UriBool|URI_CHAR|URI_TYPE|size_t|char|void)\b", code):
            emit("assignment dropped", re.match(r"\s*", ln).group(0) + ";")
        for a, b in (("URI_TRUE", "URI_FALSE"), ("URI_FALSE", "URI_TRUE")):
            for m in re.finditer(a, code):
                emit("%s -> %s" % (a, b), ln[:m.start()] + b + ln[m.end():])
    return out

def sh(cmd, cwd=None, env=None, timeout=900):
    try:
        p = subprocess.run(cmd, cwd=cwd, env=env, capture_output=True, text=True, timeout=timeout)
        return p.returncode, p.stdout + p.stderr
    except subprocess.TimeoutExpired:
        return 124, "timeout"

class Worker:
    def __init__(self, k):
        self.d = tempfile.mkdtemp(prefix="mutw%d_" % k)
        for sub in ("src", "include", "test", "cmake"):
            if os.path.isdir(os.path.join(REPO, sub)): shutil.copytree(os.path.join(REPO, sub), os.path.join(self.d, sub))
        for f in os.listdir(REPO):
            if os.path.isfile(os.path.join(REPO, f)): shutil.copy(os.path.join(REPO, f), self.d)
        self.b = os.path.join(self.d, "_b")
        rc, o = sh(["cmake", "-G", "Ninja", "-S", self.d, "-B", self.b, "-DCMAKE_BUILD_TYPE=Release", "-DURIPARSER_BUILD_DOCS=OFF",
                    "-DURIPARSER_BUILD_TOOLS=OFF", "-DGTest_DIR=/root/miniconda/lib/cmake/GTest"])
        rc, o = sh(["cmake", "--build", self.b])
        if rc != 0: raise RuntimeError("baseline build failed: " + o[-2000:])
        self.out = tempfile.mkdtemp(prefix="mutout%d_" % k)
    def run(self, fn, lineno, desc, newtext):
        p = os.path.join(self.d, "src", fn); orig = open(p).read()
        res = {"file": fn, "line": lineno, "mutation": desc, "source": orig.split("\n")[lineno - 1].strip()[:160]}
        try:
            open(p, "w").write(newtext)
            rc, o = sh(["cmake", "--build", self.b], timeout=600)
            if rc != 0: res["status"] = "does-not-compile"; return res
            rc, o = sh([os.path.join(self.b, "testrunner")], timeout=300)
            if rc != 0: res["status"] = "killed-by-repo-tests"; return res
            env = dict(os.environ, VERIF_REPO=self.d, VERIF_OUT=self.out, VERIF_KEEP="200")
            res["status"] = "SURVIVED"; res["checks_run"] = []
            for pid in CHECKS.get(fn, []):
                t0 = time.time()
                rc, o = sh([os.path.join(V, "check"), pid], cwd=V, env=env, timeout=1500)
                res["checks_run"].append(pid)
                if rc != 0:
                    why = [l for l in o.split("\n") if l.startswith("violation:")]
                    vio = [l for l in o.split("\n") if l.startswith("VIOLATION")]
                    res["status"] = "caught"; res["by"] = pid; res["what"] = (why[0][:200] if why else o[-200:])
                    res["no_failing_input"] = bool(vio and vio[0].endswith("no-failing-input-found"))
                    break
            return res
        finally:
            open(p, "w").write(orig)
    def close(self):
        shutil.rmtree(self.d, ignore_errors=True); shutil.rmtree(self.out, ignore_errors=True)

def main():
    args = sys.argv[1:]; jobs = 4; maxn = 200; seed = 1
    while args and args[0] in ("-j", "-n", "-s"):
        if args[0] == "-j": jobs = int(args[1])
        elif args[0] == "-n": maxn = int(args[1])
        else: seed = int(args[1])
        args = args[2:]
    files = args or sorted(CHECKS)
    allm = []
    for fn in files:
        t = open(os.path.join(REPO, "src", fn)).read()
        allm += [(fn,) + m for m in mutants_of(fn, t)]
    rng = random.Random(seed); rng.shuffle(allm)
    todo = allm[:maxn]
    print("%d candidate mutants in %d files; running %d" % (len(allm), len(files), len(todo)), flush=True)
    workers = [Worker(k) for k in range(jobs)]
    import queue
    q = queue.Queue()
    for w in workers: q.put(w)
    results = []
    def one(m):
        w = q.get()
        try:
            r = w.run(*m)
            print("%-18s %5d  %-22s %-22s %s" % (r["file"], r["line"], r["mutation"], r["status"] + ((" by " + r["by"]) if r.get("by") else ""), r["source"][:70]), flush=True)
            return r
        finally: q.put(w)
    with ThreadPoolExecutor(jobs) as ex: results = list(ex.map(one, todo))
    for w in workers: w.close()
    tally = {}
    for r in results: tally[r["status"]] = tally.get(r["status"], 0) + 1
    json.dump({"seed": seed, "candidates": len(allm), "results": results, "tally": tally}, open(os.path.join(V, "build", "mutcampaign.json"), "w"), indent=1)
    print(tally)
    for r in results:
        if r["status"] == "SURVIVED": print("SURVIVED %s:%d %s | %s" % (r["file"], r["line"], r["mutation"], r["source"]))

if __name__ == "__main__":
    main()
