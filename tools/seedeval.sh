#!/bin/bash
# tools/seedeval.sh <worktree name under /tmp/seed/wt> <pid>[,<pid>...] : confirm a seeded change, then run the given checks on a scratch copy
n="$1"; pids="$2"; d=/tmp/seed/wt/$n
echo "== $n"; /verif/tools/confirm_seed.sh "$d" 2>&1 | tail -1
/verif/tools/seedcopy.py "$d/seed_out/patch.diff" "$pids"
