(* C15 line-protocol driver around the extracted Model/Memory.v and Spec/AllocSpec.v
   (c15model.ml, copied as model.ml).  Same request lines and the same canonical result lines as
   harness/alloc.c; see the protocol description there.  Additional requests:
     spec <ops> <op results of the implementation joined by ';'>
        -> "spec ok slive=<ids> log=<ok|bad> llive=<ids>"  |  "spec reject <k> <client|allocator|harness> ..."
        replays the implementation's own answers through the specification acceptor
        (AllocSpec.first_reject / accepts) and its backend call log through Memory.log_live. *)
open Model
open Glue

(* ---- numbers --------------------------------------------------------------------- *)
let n16 = n_of_int 16
let n_of_hex (s : string) : n =
  let acc = ref N0 in
  String.iter (fun c ->
    let d = match c with
      | '0'..'9' -> Char.code c - 48
      | 'a'..'f' -> Char.code c - 87
      | 'A'..'F' -> Char.code c - 55
      | _ -> failwith ("bad hex " ^ s) in
    acc := N.add (N.mul !acc n16) (n_of_int d)) s;
  !acc

let hex_of_n (x : n) : string =
  match x with
  | N0 -> "0"
  | Npos p ->
    let rec bits p = match p with XH -> [1] | XO q -> 0 :: bits q | XI q -> 1 :: bits q in
    let rec nibbles l = match l with
      | [] -> []
      | a :: b :: c :: d :: r -> (a + 2*b + 4*c + 8*d) :: nibbles r
      | [a; b; c] -> [a + 2*b + 4*c]
      | [a; b] -> [a + 2*b]
      | [a] -> [a] in
    String.concat "" (List.rev_map (Printf.sprintf "%x") (nibbles (bits p)))

let int_of_z = function Z0 -> 0 | Zpos p -> int_of_pos p | Zneg p -> - (int_of_pos p)
let z_of_int i = if i = 0 then Z0 else if i > 0 then Zpos (pos_of_int i) else Zneg (pos_of_int (-i))
let two64 = n_of_hex "10000000000000000"
let junk = n_of_int 0xA5

let () =
  assert (hex_of_n (n_of_hex "fffffffffffffff8") = "fffffffffffffff8");
  assert (hex_of_n (n_of_hex "1008") = "1008");
  assert (int_of_n (n_of_hex "ff") = 255)

(* ---- printing ----------------------------------------------------------------------- *)
let fmt_ptr = function
  | Null -> "N"
  | Ptr (b, o) ->
    let o = int_of_z o in
    if o >= 0 then Printf.sprintf "B%s+%x" (hex_of_n b) o else Printf.sprintf "B%s-%x" (hex_of_n b) (-o)

let rle (l : int list) : string =
  match l with
  | [] -> "_"
  | _ ->
    let buf = Buffer.create 64 in
    let rec go first l = match l with
      | [] -> ()
      | x :: _ ->
        let rec cnt k l = match l with y :: r when y = x -> cnt (k + 1) r | _ -> (k, l) in
        let (k, rest) = cnt 0 l in
        if not first then Buffer.add_char buf '.';
        Buffer.add_string buf (Printf.sprintf "%02x*%x" x k);
        go false rest in
    go true l; Buffer.contents buf

let unrle (s : string) : n list =
  if s = "-" || s = "_" then []
  else List.concat_map (fun t ->
      match String.split_on_char '*' t with
      | [b; k] -> let b = n_of_int (int_of_string ("0x" ^ b)) in List.init (int_of_string ("0x" ^ k)) (fun _ -> b)
      | _ -> failwith "bad rle") (String.split_on_char '.' s)

let rec take k l = if k <= 0 then [] else match l with [] -> [] | x :: r -> x :: take (k - 1) r

let fmt_event = function
  | BMalloc (n, Null) -> "m" ^ hex_of_n n ^ ":N"
  | BMalloc (n, Ptr (b, _)) -> "m" ^ hex_of_n n ^ ":B" ^ hex_of_n b
  | BFree p -> "f" ^ fmt_ptr p

let errno_str = function None -> "0" | Some e -> string_of_int (int_of_n e)

(* ---- a history on the model -------------------------------------------------------------- *)
type tok = { kind : char; slot : int; args : n list }
let parse_tok (t : string) : tok =
  let kind = t.[0] in
  match String.split_on_char ':' (String.sub t 1 (String.length t - 1)) with
  | s :: args -> { kind; slot = int_of_string ("0x" ^ s); args = List.map n_of_hex args }
  | [] -> failwith "bad token"

let nslot = 6

(* requested total of a calloc/reallocarray: (total, overflow) *)
let product a b = let p = N.mul a b in if N.ltb p two64 then (p, false) else (N0, true)

let plan_of_failset (f : string) : bool list =
  if f = "-" then []
  else
    let idx = List.map (fun s -> int_of_string ("0x" ^ s)) (String.split_on_char '.' f) in
    let idx = List.filter (fun i -> i < 100000) idx in
    let m = List.fold_left max (-1) idx in
    List.init (m + 1) (fun i -> List.mem i idx)

let op_hist (f : string array) : string =
  let cap = n_of_hex f.(1) in
  let hard = n_of_hex "100000" in
  let cap = if N.ltb hard cap then hard else cap in
  let st = ref (init (plan_of_failset f.(2)) cap junk) in
  let slot = Array.make nslot (Null, N0) in
  let out = Buffer.create 256 in
  let toks = if f.(3) = "-" then [] else String.split_on_char ',' f.(3) in
  let first = ref true in
  let alloc_line st0 st1 (r : result) total =
    let ncalls = List.length (be_log st1) - List.length (be_log st0) in
    let calls = List.rev (take ncalls (be_log st1)) in
    let calls_s = if calls = [] then "_" else String.concat "." (List.map fmt_event calls) in
    let tail = match r.r_ptr with
      | Null -> "-/-"
      | Ptr (b, _) ->
        let hdr = match afind b (be_live st1) with
          | Some d when List.length d >= 8 -> hex_of_n (decode_le (take 8 d))
          | _ -> "?" in
        hdr ^ "/" ^ rle (List.map int_of_n (take (int_of_n total) r.r_data)) in
    Printf.sprintf "%s/e%s/%s/%s" (fmt_ptr r.r_ptr) (errno_str r.r_errno) calls_s tail in
  let void_line st0 st1 =
    let ncalls = List.length (be_log st1) - List.length (be_log st0) in
    let calls = List.rev (take ncalls (be_log st1)) in
    let calls_s = if calls = [] then "_" else String.concat "." (List.map fmt_event calls) in
    Printf.sprintf "-/e0/%s/-/-" calls_s in
  List.iter (fun t ->
    if not !first then Buffer.add_char out ';';
    first := false;
    let tk = parse_tok t in
    let s = tk.slot in
    let line =
      if s >= nslot then "skip"
      else
        let (p, size) = slot.(s) in
        match tk.kind, tk.args with
        | 'm', [a] ->
          if p <> Null then "skip"
          else begin
            let (st1, r) = step !st (OMalloc a) in
            let l = alloc_line !st st1 r a in
            st := st1; if r.r_ptr <> Null then slot.(s) <- (r.r_ptr, a); l
          end
        | 'c', [a; b] ->
          if p <> Null then "skip"
          else begin
            let (total, _) = product a b in
            let (st1, r) = step !st (OCalloc (a, b)) in
            let l = alloc_line !st st1 r total in
            st := st1; if r.r_ptr <> Null then slot.(s) <- (r.r_ptr, total); l
          end
        | 'r', [a] ->
          let (st1, r) = step !st (ORealloc (p, a)) in
          let l = alloc_line !st st1 r a in
          st := st1;
          if r.r_ptr <> Null then slot.(s) <- (r.r_ptr, a)
          else if p <> Null && a = N0 then slot.(s) <- (Null, N0);
          l
        | 'a', [a; b] ->
          let (total, ovf) = product a b in
          let (st1, r) = step !st (OReallocarray (p, a, b)) in
          let l = alloc_line !st st1 r total in
          st := st1;
          if r.r_ptr <> Null then slot.(s) <- (r.r_ptr, total)
          else if p <> Null && not ovf && total = N0 then slot.(s) <- (Null, N0);
          l
        | 'f', [] ->
          let (st1, _) = step !st (OFree p) in
          let l = void_line !st st1 in
          st := st1; slot.(s) <- (Null, N0); l
        | 's', [off; len; byte] ->
          if p = Null then "skip"
          else begin
            let sz = int_of_n size in
            let off = if N.ltb size off then sz else int_of_n off in
            let len = if N.ltb (n_of_int (sz - off)) len then sz - off else int_of_n len in
            let b = n_of_int (int_of_n byte land 0xff) in
            let (st1, _) = step !st (OStore (p, n_of_int off, List.init len (fun _ -> b))) in
            st := st1; "-/e0/_/-/-"
          end
        | 'l', [] ->
          if p = Null then "skip"
          else begin
            let (st1, r) = step !st (OLoad (p, N0, size)) in
            st := st1; "-/e0/_/-/" ^ rle (List.map int_of_n r.r_data)
          end
        | _ -> "skip" in
    Buffer.add_string out line) toks;
  if not !first then Buffer.add_char out ';';
  let live = List.sort compare (List.map (fun (k, _) -> int_of_n k) (be_live !st)) in
  let live_s = if live = [] then "_" else String.concat "." (List.map (Printf.sprintf "B%x") live) in
  Printf.sprintf "hist %send live=%s fault=%d guard=1" (Buffer.contents out) live_s
    (if be_fault !st then 1 else 0)

(* ---- the implementation's answers against the specification --------------------------------- *)
exception Reject of int * string

let parse_ret (s : string) : n option option =   (* None = not a pointer into a backend block *)
  if s = "N" then Some None
  else if String.length s > 1 && s.[0] = 'B' then
    match String.index_opt s '+' with
    | Some i -> Some (Some (n_of_hex (String.sub s 1 (i - 1))))
    | None -> None
  else None

let parse_event (t : string) : bevent =
  let stray = Ptr (n_of_hex "ffffffffffff", z_of_int 1) in
  let ptr_of s =
    if s = "N" then Null
    else if String.length s > 1 && s.[0] = 'B' then
      (match String.index_opt s '+', String.index_opt s '-' with
       | Some i, _ -> Ptr (n_of_hex (String.sub s 1 (i - 1)), z_of_int (int_of_string ("0x" ^ String.sub s (i + 1) (String.length s - i - 1))))
       | None, Some i -> Ptr (n_of_hex (String.sub s 1 (i - 1)), z_of_int (- (int_of_string ("0x" ^ String.sub s (i + 1) (String.length s - i - 1)))))
       | _ -> stray)
    else stray in
  if t.[0] = 'm' then
    (match String.split_on_char ':' (String.sub t 1 (String.length t - 1)) with
     | [sz; r] -> BMalloc (n_of_hex sz, (if r = "N" then Null else Ptr (n_of_hex (String.sub r 1 (String.length r - 1)), Z0)))
     | _ -> failwith "bad backend event")
  else BFree (ptr_of (String.sub t 1 (String.length t - 1)))

let ids_str l =
  let l = List.sort compare (List.map int_of_n l) in
  if l = [] then "_" else String.concat "." (List.map (Printf.sprintf "B%x") l)

let op_spec (f : string array) : string =
  let toks = if f.(1) = "-" then [] else String.split_on_char ',' f.(1) in
  let ress = if Array.length f < 3 || f.(2) = "-" then [] else String.split_on_char ';' f.(2) in
  if List.length toks <> List.length ress then "spec reject 0 harness result-count"
  else
    let slot = Array.make nslot (None, N0) in
    let events = ref [] and log = ref [] and evtok = ref [] in
    try
      List.iteri (fun k (t, rs) ->
        let tk = parse_tok t in
        let s = tk.slot in
        let agree_skip expected =
          if (rs = "skip") <> expected then raise (Reject (k + 1, "harness skip-mismatch")) in
        if s >= nslot then agree_skip true
        else begin
          let (p, size) = slot.(s) in
          let fields = if rs = "skip" then [||] else Array.of_list (String.split_on_char '/' rs) in
          let get_res () =
            if Array.length fields <> 5 then raise (Reject (k + 1, "harness malformed " ^ rs));
            let e = int_of_string (String.sub fields.(1) 1 (String.length fields.(1) - 1)) in
            if fields.(2) <> "_" then
              List.iter (fun c -> log := parse_event c :: !log) (String.split_on_char '.' fields.(2));
            let ptr = if fields.(0) = "-" then Some None else parse_ret fields.(0) in
            (match ptr with
             | None -> raise (Reject (k + 1, "allocator stray-pointer " ^ fields.(0)))
             | Some sp -> { sr_ptr = sp; sr_errno = (if e = 0 then None else Some (n_of_int e)); sr_data = unrle fields.(4) }) in
          match tk.kind, tk.args with
          | 'm', [a] ->
            agree_skip (p <> None);
            if p = None then begin
              let r = get_res () in
              events := (SMalloc a, r) :: !events; evtok := k :: !evtok;
              if r.sr_ptr <> None then slot.(s) <- (r.sr_ptr, a)
            end
          | 'c', [a; b] ->
            agree_skip (p <> None);
            if p = None then begin
              let (total, _) = product a b in
              let r = get_res () in
              events := (SCalloc (a, b), r) :: !events; evtok := k :: !evtok;
              if r.sr_ptr <> None then slot.(s) <- (r.sr_ptr, total)
            end
          | 'r', [a] ->
            agree_skip false;
            let r = get_res () in
            events := (SRealloc (p, a), r) :: !events; evtok := k :: !evtok;
            if r.sr_ptr <> None then slot.(s) <- (r.sr_ptr, a)
            else if p <> None && a = N0 then slot.(s) <- (None, N0)
          | 'a', [a; b] ->
            agree_skip false;
            let (total, ovf) = product a b in
            let r = get_res () in
            events := (SReallocarray (p, a, b), r) :: !events; evtok := k :: !evtok;
            if r.sr_ptr <> None then slot.(s) <- (r.sr_ptr, total)
            else if p <> None && not ovf && total = N0 then slot.(s) <- (None, N0)
          | 'f', [] ->
            agree_skip false;
            let r = get_res () in
            events := (SFree p, r) :: !events; evtok := k :: !evtok;
            slot.(s) <- (None, N0)
          | 's', [off; len; byte] ->
            agree_skip (p = None);
            if p <> None then begin
              let sz = int_of_n size in
              let off = if N.ltb size off then sz else int_of_n off in
              let len = if N.ltb (n_of_int (sz - off)) len then sz - off else int_of_n len in
              let b = n_of_int (int_of_n byte land 0xff) in
              let r = get_res () in
              events := (SStore (p, n_of_int off, List.init len (fun _ -> b)), r) :: !events; evtok := k :: !evtok
            end
          | 'l', [] ->
            agree_skip (p = None);
            if p <> None then begin
              let r = get_res () in
              events := (SLoad (p, N0, size), r) :: !events; evtok := k :: !evtok
            end
          | _ -> agree_skip true
        end) (List.combine toks ress);
      let evs = List.rev !events in
      let (k, client) = first_reject [] evs N0 in
      if k <> N0 then
        (* report the position of the offending call among the tokens of the history, from 1 *)
        Printf.sprintf "spec reject %d %s" (List.nth (List.rev !evtok) (int_of_n k - 1) + 1) (if client then "client" else "allocator")
      else
        let slive = match accepts [] evs with Some s -> ids_str (List.map Stdlib.fst s) | None -> "?" in
        (match log_live !log with
         | Some l -> Printf.sprintf "spec ok slive=%s log=ok llive=%s" slive (ids_str l)
         | None -> Printf.sprintf "spec ok slive=%s log=bad llive=?" slive)
    with Reject (k, why) -> Printf.sprintf "spec reject %d %s" k why

let op_cmm (f : string array) : string =
  let b i = f.(i) <> "0" in
  Printf.sprintf "cmm %d" (int_of_n (complete_memory_manager (b 1) (b 2) (b 3) (b 4)))

let dispatch (f : string array) : string =
  match f.(0) with
  | "hist" -> op_hist f
  | "spec" -> op_spec f
  | "cmm" -> op_cmm f
  | op -> "?unknown-op " ^ op

let () = main_loop dispatch
