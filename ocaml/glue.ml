(* Glue shared by the OCaml drivers: conversions between OCaml ints/strings and the
   extracted inductive numbers (nat, positive, N), field parsing and printing, main loop.
   Part of the trusted base of the correspondence check. *)
open Model

(* ---- number glue ---------------------------------------------------------- *)
let rec pos_of_int (i : int) : positive =
  if i <= 1 then XH
  else if i land 1 = 0 then XO (pos_of_int (i lsr 1))
  else XI (pos_of_int (i lsr 1))
let n_of_int (i : int) : n = if i <= 0 then N0 else Npos (pos_of_int i)
let rec int_of_pos (p : positive) : int =
  match p with XH -> 1 | XO q -> 2 * int_of_pos q | XI q -> 2 * int_of_pos q + 1
let int_of_n (x : n) : int = match x with N0 -> 0 | Npos p -> int_of_pos p
let rec nat_of_int (i : int) : nat = if i <= 0 then O else S (nat_of_int (i - 1))
let int_of_nat (x : nat) : int =
  let rec go acc = function O -> acc | S k -> go (acc + 1) k in go 0 x

let int_of_z (x : z) : int = match x with Z0 -> 0 | Zpos p -> int_of_pos p | Zneg p -> - (int_of_pos p)
let z_of_int (i : int) : z = if i = 0 then Z0 else if i > 0 then Zpos (pos_of_int i) else Zneg (pos_of_int (-i))

(* ---- field glue ------------------------------------------------------------- *)
let text_of_field (f : string) : n list option =
  if f = "-" then None
  else if f = "_" then Some []
  else Some (List.map (fun h -> n_of_int (int_of_string ("0x" ^ h))) (String.split_on_char '.' f))
let text_of_field_nn f = match text_of_field f with None -> [] | Some l -> l
let field_of_text (l : n list) : string =
  match l with
  | [] -> "_"
  | _ -> String.concat "." (List.map (fun c -> Printf.sprintf "%x" (int_of_n c)) l)
let field_of_otext = function None -> "-" | Some l -> field_of_text l
let bool_of_field f = f <> "0"

let brk_of_int = function 0 -> BrToLf | 1 -> BrToCrlf | 2 -> BrToCr | _ -> BrDontTouch
let sbrk_of_int = function 0 -> ToLf | 1 -> ToCrlf | 2 -> ToCr | _ -> DontTouch

(* self-test of the glue *)
let () =
  List.iter (fun i -> assert (int_of_n (n_of_int i) = i)) [0; 1; 2; 3; 9; 10; 37; 255; 256; 65535; 1114111];
  assert (field_of_text (text_of_field_nn "61.2f.c8") = "61.2f.c8")


(* main loop: one request per line, one result line per request *)
let main_loop (dispatch : string array -> string) =
  try
    while true do
      let line = input_line stdin in
      let f = Array.of_list (List.filter (fun s -> s <> "") (String.split_on_char ' ' line)) in
      if Array.length f = 0 then print_newline ()
      else begin
        (try print_string (dispatch f) with e -> print_string ("?exception " ^ Printexc.to_string e));
        print_newline ()
      end
    done
  with End_of_file -> ()
