(* Line-protocol driver around the query / filename models and the specification functions
   extracted from Coq (qfmodel.ml, copied as model.ml).  Same request lines and the same
   canonical result lines as harness/qf.c; plus spec_* operations used as oracles. *)
open Model
open Glue

(* ---- Z glue ------------------------------------------------------------------ *)
let z_of_int (i : int) : z =
  if i = 0 then Z0 else if i > 0 then Zpos (pos_of_int i) else Zneg (pos_of_int (- i))
let int_of_z = function Z0 -> 0 | Zpos p -> int_of_pos p | Zneg p -> - (int_of_pos p)
let () = List.iter (fun i -> assert (int_of_z (z_of_int i) = i)) [0; 1; -1; -9; 2147483647; -2147483648; 715827881]

let canary = n_of_int 0x5A

(* items start at field index [i]: n pairs of (key, value) *)
let items_of f i n : (n list * n list option) list =
  List.init n (fun j -> (text_of_field_nn f.(i + 2 * j), text_of_field f.(i + 2 * j + 1)))
let put_items (l : (n list * n list option) list) : string =
  String.concat "" (List.map (fun (k, v) -> " " ^ field_of_text k ^ " " ^ field_of_otext v) l)

(* ---- query operations ---------------------------------------------------------- *)
let flags f ex i = if ex then (bool_of_field f.(i), bool_of_field f.(i + 1)) else (true, true)

let op_creq f =
  let ex = bool_of_field f.(1) in
  let (stp, nb) = flags f ex 2 in
  let n = int_of_string f.(4) in
  match chars_required stp nb (items_of f 5 n) with
  | ZErr c -> Printf.sprintf "creq %d -" (int_of_n c)
  | ZOk r -> Printf.sprintf "creq 0 %d" (int_of_z r)

let rec take k = function [] -> [] | x :: r -> if k = 0 then [] else x :: take (k - 1) r

let op_compose f =
  let ex = bool_of_field f.(1) in
  let (stp, nb) = flags f ex 2 in
  let cap = int_of_string f.(4) and n = int_of_string f.(5) in
  let cells = max cap 0 in
  let buf0 = List.init cells (fun _ -> canary) in
  let finish rc written log =
    let buf = apply_log buf0 log in
    (* stores outside the buffer are dropped by apply_log; report them *)
    let outside = List.exists (fun (i, _) -> int_of_nat i >= cells) log in
    let hi = ref 0 in
    List.iteri (fun i c -> if c <> canary then hi := i + 1) buf;
    Printf.sprintf "compose %d %s %d %s %d" rc written !hi (field_of_text (take !hi buf)) (if outside then 0 else 1) in
  match compose_ex false stp nb (z_of_int cap) (items_of f 6 n) with
  | CErr (c, _, log) -> finish (int_of_n c) "-" log
  | COk (_, w, log) -> finish 0 (string_of_int (int_of_z w)) log

let calloc_max = z_of_int (1 lsl 40)

let op_cmalloc f =
  let ex = bool_of_field f.(1) in
  let (stp, nb) = flags f ex 2 in
  let n = int_of_string f.(5) in
  match compose_malloc calloc_max stp nb (items_of f 6 n) with
  | MErr c -> Printf.sprintf "cmalloc %d - out=0" (int_of_n c)
  | MOk t -> Printf.sprintf "cmalloc 0 %s out=0" (field_of_text t)

let op_dissect f =
  let ex = bool_of_field f.(1) in
  let pts = if ex then bool_of_field f.(2) else true in
  let bc = if ex then int_of_string f.(3) else 3 in
  match dissect pts (brk_of_int bc) (text_of_field_nn f.(5)) with
  | DErr c -> Printf.sprintf "dissect %d -777 0 out=0" (int_of_n c)
  | DOk (l, cnt) -> Printf.sprintf "dissect 0 %d %d%s out=0" (int_of_z cnt) (List.length l) (put_items l)

(* bigreq <stp> <nb> then groups <N> <klen> <vlen|-1>: the list as lengths *)
let big_lens f i : (z * z option) list =
  let g = (Array.length f - i) / 3 in
  List.concat (List.init g (fun j ->
    let nn = int_of_string f.(i + 3 * j) and kl = int_of_string f.(i + 3 * j + 1) and vl = int_of_string f.(i + 3 * j + 2) in
    let it = (z_of_int kl, if vl < 0 then None else Some (z_of_int vl)) in
    List.init nn (fun _ -> it)))

let op_bigreq f =
  let nb = bool_of_field f.(2) in
  match chars_required_len nb (big_lens f 3) with
  | ZErr c -> Printf.sprintf "bigreq %d -" (int_of_n c)
  | ZOk r -> Printf.sprintf "bigreq 0 %d" (int_of_z r)

(* ---- filename operations ------------------------------------------------------- *)
let op_fn2uri f =
  let unx = bool_of_field f.(1) in
  Printf.sprintf "fn2uri 0 %s 1" (field_of_text (filename_to_uri_string unx (text_of_field_nn f.(2))))

let op_uri2fn f =
  let unx = bool_of_field f.(1) in
  Printf.sprintf "uri2fn 0 %s 1" (field_of_text (uri_string_to_filename unx (text_of_field_nn f.(3))))

(* ---- specification oracles ------------------------------------------------------ *)
let b2s b = if b then "1" else "0"
let op_spec_qlegal f = b2s (query_legal (text_of_field_nn f.(1)))
let op_spec_dissect f =
  let l = dissect_spec (bool_of_field f.(1)) (sbrk_of_int (int_of_string f.(2))) (text_of_field_nn f.(3)) in
  Printf.sprintf "%d%s" (List.length l) (put_items l)
let op_spec_expect f =
  let nb = bool_of_field f.(1) and n = int_of_string f.(2) in
  let l = roundtrip_expect nb (items_of f 3 n) in
  Printf.sprintf "%d%s" (List.length l) (put_items l)
(* spec_total <nb> then groups <N> <klen> <vlen|-1> -> <every item passes the per-item guard?> <total_size>
   (the vocabulary of the C17 size theorems, evaluated on a list given by its lengths) *)
let op_spec_total f =
  let nb = bool_of_field f.(1) in
  let ls = big_lens f 2 in
  Printf.sprintf "%s %d" (b2s (no_item_too_large nb ls)) (int_of_z (total_size nb ls))
let op_spec_uriref f = b2s (uri_reference_shape (text_of_field_nn f.(1)))
(* spec_form <unix> <filename> <uri string> -> has the documented form for the class of the name *)
let op_spec_form f = b2s (uri_form (bool_of_field f.(1)) (text_of_field_nn f.(2)) (text_of_field_nn f.(3)))
(* spec_class <text> -> unix_absolute drive unc relative *)
let op_spec_class f =
  let t = text_of_field_nn f.(1) in
  String.concat " " (List.map b2s [unix_absolute t; win_drive_absolute t; win_unc t; win_relative t])
(* spec_sizes <unix> <filename> -> documented URI-string size for the class of the name *)
let op_spec_urisize f =
  let t = text_of_field_nn f.(2) in
  string_of_int (int_of_nat (if bool_of_field f.(1) then unix_uri_size t else win_uri_size (win_absolute t) t))
(* extents of the model: characters stored into the caller's buffer *)
let op_extent_f2u f = string_of_int (int_of_nat (f2u_extent (bool_of_field f.(1)) (text_of_field_nn f.(2))))
let op_extent_u2f f = string_of_int (int_of_nat (u2f_extent (bool_of_field f.(1)) (text_of_field_nn f.(2))))

let dispatch (f : string array) : string =
  match f.(0) with
  | "creq" -> op_creq f
  | "compose" -> op_compose f
  | "cmalloc" -> op_cmalloc f
  | "dissect" -> op_dissect f
  | "bigreq" -> op_bigreq f
  | "fn2uri" -> op_fn2uri f
  | "uri2fn" -> op_uri2fn f
  | "spec_qlegal" -> op_spec_qlegal f
  | "spec_dissect" -> op_spec_dissect f
  | "spec_expect" -> op_spec_expect f
  | "spec_total" -> op_spec_total f
  | "spec_uriref" -> op_spec_uriref f
  | "spec_form" -> op_spec_form f
  | "spec_class" -> op_spec_class f
  | "spec_urisize" -> op_spec_urisize f
  | "extent_f2u" -> op_extent_f2u f
  | "extent_u2f" -> op_extent_u2f f
  | op -> "?unknown-op " ^ op

let () = main_loop dispatch
