(* Line-protocol driver around the model and specification functions extracted from Coq
   (model.ml).  Same request lines and the same canonical result lines as harness/drv.c. *)
open Model
open Glue

(* ---- operations --------------------------------------------------------------- *)
let op_esc f =
  let l = text_of_field_nn f.(1) in
  let stp = bool_of_field f.(2) and nb = bool_of_field f.(3) in
  let out = escape stp nb l in
  Printf.sprintf "esc %d %s 1" (List.length out) (field_of_text out)

let op_unesc f =
  let l = text_of_field_nn f.(1) in
  let mode = int_of_string f.(4) in
  let pts = if mode = 0 then false else bool_of_field f.(2) in
  let bc = if mode = 0 then 3 else int_of_string f.(3) in
  let out = unescape pts (brk_of_int bc) l in
  Printf.sprintf "unesc %d %s 1" (List.length out) (field_of_text out)

(* the cursor-level model on the buffer  text ++ [0] : prints the same line plus the largest index written *)
let op_unesc_inplace f =
  let l = text_of_field_nn f.(1) in
  let pts = bool_of_field f.(2) and bc = int_of_string f.(3) in
  match unescape_inplace pts (brk_of_int bc) (l @ [N0]) with
  | None -> "unesc_inplace fuel"
  | Some ((buf, ret), log) ->
    let ret = int_of_nat ret in
    let rec take k = function [] -> [] | x :: r -> if k = 0 then [] else x :: take (k - 1) r in
    let maxw = List.fold_left (fun m i -> max m (int_of_nat i)) (-1) log in
    Printf.sprintf "unesc %d %s 1 maxwrite=%d buflen=%d" ret (field_of_text (take ret buf)) maxw (List.length buf)

(* spec oracles *)
let op_spec_unesc f =
  let l = text_of_field_nn f.(1) in
  let mode = int_of_string f.(4) in
  let pts = if mode = 0 then false else bool_of_field f.(2) in
  let bc = if mode = 0 then 3 else int_of_string f.(3) in
  let out = unescape_spec pts (sbrk_of_int bc) l in
  Printf.sprintf "unesc %d %s 1" (List.length out) (field_of_text out)

let op_spec_escform f =
  (* escform <plus_allowed> <text> -> 1/0 *)
  let pa = bool_of_field f.(1) in
  if escaped_form pa (text_of_field_nn f.(2)) then "1" else "0"

let op_spec_crlf f = field_of_text (crlf (text_of_field_nn f.(1)))

(* ---- URI values ------------------------------------------------------------------ *)
let field_of_bytes = function None -> "-" | Some l -> field_of_text l
let string_of_uri (u : uri) : string =
  let segs = u.pathSegs in
  String.concat " " ([ "U"; field_of_otext u.scheme; field_of_otext u.userInfo; field_of_otext u.hostText;
    field_of_bytes u.ip4; field_of_bytes u.ip6; field_of_otext u.ipFuture; field_of_otext u.portText;
    (if u.absolutePath then "1" else "0"); (if u.owner then "1" else "0");
    string_of_int (List.length segs) ] @ List.map field_of_text segs
    @ [ field_of_otext u.query; field_of_otext u.fragment; "ok" ])

let prov_of_uri (u : uri) : string =
  let cls = function None -> "-" | Some [] -> "e" | Some _ -> "i" in
  String.concat "" (List.map cls [u.scheme; u.userInfo; u.hostText; u.ipFuture; u.portText; u.query; u.fragment])
  ^ "/" ^ String.concat "" (List.map (fun s -> if s = [] then "e" else "i") u.pathSegs)

exception Arg_parse_error of int
(* reads one URI argument starting at f.(!pos) *)
let read_uri (f : string array) (pos : int ref) : uri =
  let next () = let x = f.(!pos) in incr pos; x in
  match next () with
  | "P" ->
    (match parse (text_of_field_nn (next ())) with
     | POk u -> u
     | PSyntax _ -> raise (Arg_parse_error 1))
  | "S" ->   (* a view [off, off+len) of a text; the C driver shares one buffer between such views, the model has values *)
    let t = text_of_field_nn (next ()) in
    let off = int_of_string (next ()) in let len = int_of_string (next ()) in
    let rec drop n l = if n <= 0 then l else (match l with [] -> [] | _ :: r -> drop (n - 1) r) in
    let rec take n l = if n <= 0 then [] else (match l with [] -> [] | x :: r -> x :: take (n - 1) r) in
    (match parse (take len (drop off t)) with
     | POk u -> u
     | PSyntax _ -> raise (Arg_parse_error 1))
  | _ ->
    let scheme = text_of_field (next ()) in
    let userInfo = text_of_field (next ()) in
    let hostText = text_of_field (next ()) in
    let ip4 = text_of_field (next ()) in
    let ip6 = text_of_field (next ()) in
    let ipFuture = text_of_field (next ()) in
    let portText = text_of_field (next ()) in
    let abs = bool_of_field (next ()) in
    let n = int_of_string (next ()) in
    let segs = List.init n (fun _ -> text_of_field_nn (next ())) in
    let query = text_of_field (next ()) in
    let fragment = text_of_field (next ()) in
    { scheme; userInfo; hostText; ip4; ip6; ipFuture; portText; pathSegs = segs; query; fragment;
      absolutePath = abs; owner = false }

let string_of_trace (evs : event list) : string =
  match evs with
  | [] -> "-"
  | _ -> String.concat "" (List.map (function
      | EvMalloc (sz, ok) -> Printf.sprintf "m%d%s," (int_of_n sz) (if ok then "" else "!")
      | EvCalloc (sz, ok) -> Printf.sprintf "c%d%s," (int_of_n sz) (if ok then "" else "!")
      | EvFree sz -> Printf.sprintf "f%d," (int_of_n sz)
      | EvBadFree -> "f?,") evs)

let plan_of f i =
  if Array.length f > i then
    let k = int_of_string f.(i) in
    let from = Array.length f > i + 1 && f.(i + 1) <> "0" in
    if k = 0 then NoFault else if from then FailFrom (nat_of_int k) else FailOnce (nat_of_int k)
  else NoFault

(* every field of a memory-tier URI as the C driver prints it *)
let string_of_muri (m : muri) : string = string_of_uri (erase m)
let prov_of_muri (m : muri) : string =
  let cls (t : mtext) = match t.t_val with None -> "-" | Some [] -> "e" | Some _ -> (match t.t_blk with Some _ -> "h" | None -> "i") in
  String.concat "" (List.map cls [m.m_scheme; m.m_userInfo;
     (match m.m_ipFuture.t_val with Some _ -> { t_val = m.m_hostText.t_val; t_blk = m.m_ipFuture.t_blk } | None -> m.m_hostText);
     m.m_ipFuture; m.m_portText; m.m_query; m.m_fragment])
  ^ "/" ^ String.concat "" (List.map (fun s -> if s.sg_text = [] then "e" else (match s.sg_blk with Some _ -> "h" | None -> "i")) m.m_segs)

(* parse with a fault plan: memory tier *)
let op_parse_m f =
  let l = text_of_field_nn f.(1) in
  let st0 = ms_init (plan_of f 3) in
  let (r, st) = parse_m l st0 in
  let reqs = int_of_nat st.ms_requests in
  (* the caller's clean-up: uriFreeUriMembersMm twice *)
  let (body, st) = match r with
    | MOk m ->
      let s = Printf.sprintf "parse 0 -1 %s prov=%s" (string_of_muri m) (prov_of_muri m) in
      let (m1, st1) = free_members m st in let (_, st2) = free_members m1 st1 in (s, st2)
    | MSyntax pos -> (Printf.sprintf "parse 1 %d E" (int_of_nat pos), st)
    | MMalloc -> ("parse 3 null E", st) in
  Printf.sprintf "%s live=%d badfree=%d req=%d trace=%s" body (int_of_nat (live_count st)) (int_of_nat (bad_frees st)) reqs (string_of_trace (trace_of st))

let op_parse f =
  if Array.length f > 3 then op_parse_m f else
  let l = text_of_field_nn f.(1) in
  let entry = int_of_string f.(2) in
  let r = if entry = 1 || entry = 2 || entry = 4 || entry = 6 then parse_cstr l else parse l in
  let tailer = if entry = 5 || entry = 8 then " live=0 badfree=0" else "" in
  match r with
  | POk u -> Printf.sprintf "parse 0 -1 %s prov=%s%s" (string_of_uri u) (prov_of_uri u) tailer
  | PSyntax pos -> if entry >= 6 then Printf.sprintf "parse 1 nullarg E%s" tailer     (* entries 6..8: the caller passes no errorPos *)
                   else Printf.sprintf "parse 1 %d E%s" (int_of_nat pos) tailer

(* ---- conformance suite derived from the model's control automaton -------------------
   Breadth-first search over the control states reachable from CStart (one representative
   character per atom), giving each state its shortest access string and a shortest accepting
   completion.  The characters put after the access strings are [suite_chars] (Base/SuiteChars.v:
   one per atom plus 'A'; Proofs/SwitchRefine.v shows that they enter every case group of every
   character switch of the parser, as translated from the C source).  The suite is  access(s) . c . w  for every reachable state s, every character c
   of the chosen alphabet and w in {empty, completion of the target}. *)
let suite (mode : int) : string =
  let tbl : (ctrl, int list) Hashtbl.t = Hashtbl.create 4096 in
  let order = ref [] in
  let q = Queue.create () in
  Hashtbl.add tbl CStart []; Queue.add CStart q;
  let atoms = all_atoms in
  while not (Queue.is_empty q) do
    let c = Queue.pop q in
    order := c :: !order;
    let acc = Hashtbl.find tbl c in
    List.iter (fun a ->
      match snd (ptrans c a) with
      | Go c' -> if not (Hashtbl.mem tbl c') then begin
                   Hashtbl.add tbl c' (int_of_n (atom_rep a) :: acc); Queue.add c' q end
      | Stop _ -> ()) atoms
  done;
  let states = List.rev !order in
  (* shortest accepting completion: backward fixpoint *)
  let comp : (ctrl, int list) Hashtbl.t = Hashtbl.create 4096 in
  List.iter (fun c -> match snd (pfinish c) with Acc -> Hashtbl.replace comp c [] | StopEnd -> ()) states;
  let changed = ref true in
  while !changed do
    changed := false;
    List.iter (fun c ->
      List.iter (fun a ->
        match snd (ptrans c a) with
        | Go c' ->
          (match Hashtbl.find_opt comp c' with
           | Some w ->
             let cand = int_of_n (atom_rep a) :: w in
             (match Hashtbl.find_opt comp c with
              | Some old when List.length old <= List.length cand -> ()
              | _ -> Hashtbl.replace comp c cand; changed := true)
           | None -> ())
        | Stop _ -> ()) atoms) states
  done;
  let chars =
    if mode = 0 then List.map int_of_n suite_chars     (* one per atom, plus what Base/SuiteChars.v adds ('A') *)
    else if mode = 2 then
      (* wide-only aliases: after every access string, each class representative shifted by 256 and by 65536: a code point that
         no rule admits but that looks like a valid character once truncated to 8 or 16 bits; followed by the completion the
         valid character would have had *)
      List.concat_map (fun r -> let c = int_of_n r in [c + 256; c + 65536]) suite_chars
    else List.init 128 (fun i -> i) @ [128; 200; 255] in
  let base_of ch = if mode = 2 then (if ch >= 65536 then ch - 65536 else ch - 256) else ch in
  let buf = Buffer.create (1 lsl 20) in
  let emit l = Buffer.add_string buf (match l with [] -> "_" | _ -> String.concat "." (List.map (Printf.sprintf "%x") l)); Buffer.add_char buf ';' in
  Buffer.add_string buf (Printf.sprintf "states=%d;" (List.length states));
  List.iter (fun c ->
    let acc = List.rev (Hashtbl.find tbl c) in
    emit acc;
    (match Hashtbl.find_opt comp c with Some w -> emit (acc @ w) | None -> ());
    List.iter (fun ch ->
      let s1 = acc @ [ch] in
      emit s1;
      match snd (ptrans c (atom_of (n_of_int (base_of ch)))) with
      | Go c' -> (match Hashtbl.find_opt comp c' with Some w when w <> [] -> emit (s1 @ w) | _ -> ())
      | Stop _ -> ()) chars) states;
  Buffer.contents buf

(* two-step suite: access(s) . c . r . w for every state s, every ASCII character c (and 128, 200, 255) that the model lets
   pass, every class representative r, and w the completion of the state reached (if any).  A character that the code puts
   into a different class than the model does can lead to a state that differs only in what it accepts NEXT (the
   hex-letter flag of an IPv6 group, a pending look-ahead): the one-step suite cannot see that.  Every [stride]-th string,
   starting at [phase]. *)
let suite2 (stride : int) (phase : int) : string =
  let tbl : (ctrl, int list) Hashtbl.t = Hashtbl.create 4096 in
  let order = ref [] in
  let q = Queue.create () in
  Hashtbl.add tbl CStart []; Queue.add CStart q;
  let atoms = all_atoms in
  while not (Queue.is_empty q) do
    let c = Queue.pop q in
    order := c :: !order;
    let acc = Hashtbl.find tbl c in
    List.iter (fun a ->
      match snd (ptrans c a) with
      | Go c' -> if not (Hashtbl.mem tbl c') then begin Hashtbl.add tbl c' (int_of_n (atom_rep a) :: acc); Queue.add c' q end
      | Stop _ -> ()) atoms
  done;
  let states = List.rev !order in
  let comp : (ctrl, int list) Hashtbl.t = Hashtbl.create 4096 in
  List.iter (fun c -> match snd (pfinish c) with Acc -> Hashtbl.replace comp c [] | StopEnd -> ()) states;
  let changed = ref true in
  while !changed do
    changed := false;
    List.iter (fun c ->
      List.iter (fun a ->
        match snd (ptrans c a) with
        | Go c' ->
          (match Hashtbl.find_opt comp c' with
           | Some w ->
             let cand = int_of_n (atom_rep a) :: w in
             (match Hashtbl.find_opt comp c with
              | Some old when List.length old <= List.length cand -> ()
              | _ -> Hashtbl.replace comp c cand; changed := true)
           | None -> ())
        | Stop _ -> ()) atoms) states
  done;
  (* stride 0: every state outside the IPv6 scanner x every class representative x every class representative, all of them
     (the rule functions of the C parser other than uriParseIPv6address2 are few: their pairs of consecutive cases fit a quick run) *)
  let outside_v6 c = match c with CV6 _ | CV6Colon _ | CV6CC _ -> false | _ -> true in
  let three = if stride < 0 then - stride else 0 in
  let states = if stride <= 0 then List.filter outside_v6 states else states in
  let chars = if stride = 0 then List.map int_of_n suite_chars else List.init 128 (fun i -> i) @ [128; 200; 255] in
  let stride = if stride = 0 then 1 else stride in
  let phase = if stride = 1 then 0 else phase in
  let buf = Buffer.create (1 lsl 20) in
  let emit l = Buffer.add_string buf (String.concat "." (List.map (Printf.sprintf "%x") l)); Buffer.add_char buf ';' in
  let n = ref 0 in
  if three > 0 then begin
    (* three consecutive class representatives after the access string of every state outside the IPv6 scanner: a state is then
       also entered through every one of its predecessors, not only along its shortest access string (the C parser has several
       functions / call sites where the model has one state); every [three]-th string, by phase *)
    let reps = List.map int_of_n suite_chars in
    List.iter (fun c ->
      let acc = List.rev (Hashtbl.find tbl c) in
      List.iter (fun r1 ->
        match snd (ptrans c (atom_of (n_of_int r1))) with
        | Stop _ -> ()
        | Go c1 ->
          List.iter (fun r2 ->
            match snd (ptrans c1 (atom_of (n_of_int r2))) with
            | Stop _ -> ()
            | Go c2 ->
              List.iter (fun r3 ->
                incr n;
                if !n mod three = phase then begin
                  let s3 = acc @ [r1; r2; r3] in
                  match snd (ptrans c2 (atom_of (n_of_int r3))) with
                  | Go c3 -> (match Hashtbl.find_opt comp c3 with Some w -> emit (s3 @ w) | None -> emit s3)
                  | Stop _ -> emit s3
                end) reps) reps) reps) states;
    Buffer.contents buf
  end else begin
  List.iter (fun c ->
    let acc = List.rev (Hashtbl.find tbl c) in
    List.iter (fun ch ->
      match snd (ptrans c (atom_of (n_of_int ch))) with
      | Stop _ -> ()
      | Go c1 ->
        List.iter (fun rn ->
          let a = atom_of rn in
          incr n;
          if !n mod stride = phase then begin
            let r = int_of_n rn in
            let s2 = acc @ [ch; r] in
            emit s2;
            (match snd (ptrans c1 a) with
             | Go c2 -> (match Hashtbl.find_opt comp c2 with Some w when w <> [] -> emit (s2 @ w) | _ -> ())
             | Stop _ -> ())
          end) suite_chars) chars) states;
  Buffer.contents buf
  end

(* ---- RFC 3986 oracle: membership and first dead character (memoised derivatives) ------- *)
let spec_uri f =
  let l = text_of_field_nn f.(1) in
  let ok = matchb uRI_reference l in
  let fd = int_of_nat (first_dead uRI_reference l) in
  let eok = if Array.length f > 2 && f.(2) <> "-1" && f.(2) <> "null"
            then (if errpos_ok uRI_reference l (nat_of_int (int_of_string f.(2))) then 1 else 0) else -1 in
  Printf.sprintf "%d %d %d" (if ok then 1 else 0) fd eok

let op_spec_split f =
  let l = text_of_field_nn f.(1) in
  let u = split_spec l in
  Printf.sprintf "parse 0 -1 %s prov=%s" (string_of_uri u) (prov_of_uri u)

(* tostring <cap|req> <cwnull> <URI> *)
let op_tostring f =
  let pos = ref 3 in
  match (try Some (read_uri f pos) with Arg_parse_error _ -> None) with
  | None -> "tostring parse-error 1"
  | Some u ->
    let req = int_of_z (chars_required u) in
    let head = Printf.sprintf "tostring 0 %d" req in
    if f.(1) = "req" then head ^ " "
    else begin
      let cap = int_of_string f.(1) in
      let cwnull = bool_of_field f.(2) in
      match to_string u (z_of_int cap) with
      | TsOk (t, cw, _) ->
        Printf.sprintf "%s 0 %s %s 1" head (if cwnull then "-" else string_of_int (int_of_z cw)) (field_of_text t)
      | TsTooLong (nul, _) ->
        Printf.sprintf "%s 4 %s %s 1" head (if cwnull then "-" else "0") (if cap >= 1 then "_" else "-")
    end

let prov_owned (u : uri) : string =
  let cls = function None -> "-" | Some [] -> "e" | Some _ -> (if u.owner then "h" else "i") in
  String.concat "" (List.map cls [u.scheme; u.userInfo; u.hostText; u.ipFuture; u.portText; u.query; u.fragment])
  ^ "/" ^ String.concat "" (List.map (fun s -> if s = [] then "e" else (if u.owner then "h" else "i")) u.pathSegs)

let text_tag (u : uri) = " T=" ^ field_of_text (to_text u)

let op_addbase f =
  let compat = bool_of_field f.(1) in
  let pos = ref 2 in
  match (try let r = read_uri f pos in let b = read_uri f pos in Some (r, b) with Arg_parse_error _ -> None) with
  | None -> "addbase parse-error"
  | Some (rel, base) ->
    let (rc, d) = add_base compat rel base in
    let rc = int_of_n rc in
    if rc = 0 then Printf.sprintf "addbase 0 %s%s ro=1 live=0 bad=0" (string_of_uri d) (text_tag d)
    else Printf.sprintf "addbase %d E ro=1 live=0 bad=0" rc

let op_removebase f =
  let dr = bool_of_field f.(1) in
  let pos = ref 2 in
  match (try let r = read_uri f pos in let b = read_uri f pos in Some (r, b) with Arg_parse_error _ -> None) with
  | None -> "removebase parse-error"
  | Some (src, base) ->
    let (rc, d) = remove_base dr src base in
    let rc = int_of_n rc in
    if rc = 0 then Printf.sprintf "removebase 0 %s%s ro=1 live=0 bad=0" (string_of_uri d) (text_tag d)
    else Printf.sprintf "removebase %d E ro=1 live=0 bad=0" rc

let op_normalize f =
  let mask = int_of_string f.(1) in
  let owned = bool_of_field f.(2) in
  let pos = ref 3 in
  match (try Some (read_uri f pos) with Arg_parse_error _ -> None) with
  | None -> "normalize parse-error"
  | Some u ->
    let u = if owned then make_owner u else u in
    let before = int_of_n (mask_required u) in
    let v = normalize (n_of_int mask) u in
    Printf.sprintf "normalize 0 %d %s%s %d prov=%s ro=1 live=0 bad=0" before (string_of_uri v) (text_tag v)
      (int_of_n (mask_required v)) (prov_owned v)

let op_makeowner f =
  let pos = ref 1 in
  match (try Some (read_uri f pos) with Arg_parse_error _ -> None) with
  | None -> "makeowner parse-error"
  | Some u ->
    let v = make_owner u in
    Printf.sprintf "makeowner 0 %s%s prov=%s again%s live=0 bad=0" (string_of_uri v) (text_tag v) (prov_owned v) (text_tag v)

let op_equals f =
  let pos = ref 1 in
  let rd () = if f.(!pos) = "N" then (incr pos; None) else Some (read_uri f pos) in
  match (try let a = rd () in let b = rd () in Some (a, b) with Arg_parse_error _ -> None) with
  | None -> "equals parse-error"
  | Some (a, b) -> Printf.sprintf "equals %d 1 1" (if equals_uri a b then 1 else 0)

let op_spec_canon f = field_of_text (canon_ip6 (text_of_field_nn f.(1)))
let op_spec_resolve f =
  let strict = bool_of_field f.(1) in
  let b = text_of_field_nn f.(2) and r = text_of_field_nn f.(3) in
  Printf.sprintf "%s %d" (match resolve_text strict b r with Some t -> field_of_text (canon_ip6 t) | None -> "-")
    (if resolve_corner strict b r then 1 else 0)
let op_spec_normal f = field_of_text (normal_text (text_of_field_nn f.(1)))

(* histories: same mini-language as harness/drv_uri.inc:op_hist *)
let op_hist f =
  let nslot = 8 in
  let slot : uri option array = Array.make nslot None in
  let buf = Buffer.create 256 in
  Buffer.add_string buf "hist";
  let show rc k =
    (match rc, slot.(k) with
     | 0, Some u -> Buffer.add_string buf (Printf.sprintf "0 %s%s M=%d" (string_of_uri u) (text_tag u) (int_of_n (mask_required u)))
     | rc, _ -> Buffer.add_string buf (Printf.sprintf "%d E" rc)) in
  for fi = 1 to Array.length f - 1 do
    let st = f.(fi) in
    let op = st.[0] and k = Char.code st.[1] - Char.code '0' in
    let arg = if String.length st > 2 && st.[2] = '=' then String.sub st 3 (String.length st - 3) else "" in
    Buffer.add_string buf " | ";
    if k < 0 || k >= nslot then Buffer.add_string buf "badslot"
    else begin match op with
      | 'p' ->
        (match parse (text_of_field_nn arg) with
         | POk u -> slot.(k) <- Some u; show 0 k
         | PSyntax _ -> slot.(k) <- None; show 1 k)
      | 'v' ->   (* v<k>=<off>,<len>,<text>: parse a view of a text; the C driver keeps ONE buffer per distinct text of the request *)
        (match String.split_on_char ',' arg with
         | [off; len; t] ->
           let off = int_of_string off and len = int_of_string len in
           let rec drop n l = if n <= 0 then l else (match l with [] -> [] | _ :: r -> drop (n - 1) r) in
           let rec take n l = if n <= 0 then [] else (match l with [] -> [] | x :: r -> x :: take (n - 1) r) in
           (match parse (take len (drop off (text_of_field_nn t))) with
            | POk u -> slot.(k) <- Some u; show 0 k
            | PSyntax _ -> slot.(k) <- None; show 1 k)
         | _ -> Buffer.add_string buf "badop")
      | 'a' | 'r' ->
        (match List.map int_of_string (String.split_on_char ',' arg) with
         | [i; j; o] when i >= 0 && j >= 0 && i < nslot && j < nslot && k <> i && k <> j
                          && slot.(i) <> None && slot.(j) <> None ->
           let x = (match slot.(i) with Some x -> x | None -> assert false)
           and y = (match slot.(j) with Some y -> y | None -> assert false) in
           let (rc, d) = if op = 'a' then add_base (o <> 0) x y else remove_base (o <> 0) x y in
           let rc = int_of_n rc in
           if rc = 0 then (slot.(k) <- Some (make_owner d); show 0 k) else (slot.(k) <- None; show rc k)
         | _ -> Buffer.add_string buf "skip")
      | 'n' ->
        (match slot.(k) with
         | Some u -> slot.(k) <- Some (normalize (n_of_int (int_of_string arg)) u); show 0 k
         | None -> Buffer.add_string buf "skip")
      | 'o' ->
        (match slot.(k) with
         | Some u -> slot.(k) <- Some (make_owner u); show 0 k
         | None -> Buffer.add_string buf "skip")
      | 'e' ->
        let i = int_of_string arg in
        if i < 0 || i >= nslot || slot.(k) = None || slot.(i) = None then Buffer.add_string buf "skip"
        else Buffer.add_string buf (Printf.sprintf "eq=%d" (if equals_uri slot.(k) slot.(i) then 1 else 0))
      | 'f' -> slot.(k) <- None; Buffer.add_string buf "freed"
      | _ -> Buffer.add_string buf "badop"
    end
  done;
  Buffer.add_string buf " | end live=0 bad=0";
  Buffer.contents buf

(* ================= memory tier ====================================================== *)
let csize_of () = n_of_int (match Sys.getenv_opt "DRV_CSIZE" with Some "4" -> 4 | _ -> 1)

let with_plan (st : mstate) (p : fault_plan) : mstate =
  { st with ms_requests = O; ms_plan = p }

(* a URI argument in the memory tier; allocations in the order harness/drv_uri.inc:read_uri makes them *)
let read_muri (f : string array) (pos : int ref) (st : mstate) : muri * mstate =
  let next () = let x = f.(!pos) in incr pos; x in
  match next () with
  | "P" ->
    (match parse_m (text_of_field_nn (next ())) st with
     | (MOk m, st') -> (m, st')
     | (_, _) -> raise (Arg_parse_error 1))
  | _ ->
    let bt o = { t_val = o; t_blk = None } in
    let scheme = text_of_field (next ()) in
    let userInfo = text_of_field (next ()) in
    let hostText = text_of_field (next ()) in
    let ip4 = text_of_field (next ()) in
    let ip6 = text_of_field (next ()) in
    let st = ref st in
    let al calloc sz = (match alloc calloc sz !st with (Some id, s') -> st := s'; id | (None, s') -> st := s'; O) in
    let m_ip4 = (match ip4 with Some v -> Some (v, al false iP4_SIZE) | None -> None) in
    let m_ip6 = (match ip6 with Some v -> Some (v, al false iP6_SIZE) | None -> None) in
    let ipFuture = text_of_field (next ()) in
    let portText = text_of_field (next ()) in
    let abs = bool_of_field (next ()) in
    let n = int_of_string (next ()) in
    let segs = List.init n (fun _ -> let t = text_of_field_nn (next ()) in { sg_text = t; sg_blk = None; sg_node = al true sEG_SIZE }) in
    let query = text_of_field (next ()) in
    let fragment = text_of_field (next ()) in
    ({ m_scheme = bt scheme; m_userInfo = bt userInfo; m_hostText = bt hostText; m_ip4; m_ip6; m_ipFuture = bt ipFuture;
       m_portText = bt portText; m_segs = segs; m_query = bt query; m_fragment = bt fragment; m_abs = abs; m_owner = false }, !st)

let free2 m st = let (m1, s1) = free_members m st in let (_, s2) = free_members m1 s1 in s2
let rec drop k l = if k <= 0 then l else (match l with [] -> [] | _ :: r -> drop (k - 1) r)
(* events of the operation only: those after the first n0 *)
let fault_tail f i reqs st n0 =
  if Array.length f > i then Printf.sprintf " req=%d trace=%s" reqs (string_of_trace (drop n0 (trace_of st))) else ""

let op_addbase_m f =
  let compat = bool_of_field f.(1) in
  let pos = ref 2 in
  match (try let (r, s1) = read_muri f pos (ms_init NoFault) in let (b, s2) = read_muri f pos s1 in Some (r, b, s2) with Arg_parse_error _ -> None) with
  | None -> "addbase parse-error"
  | Some (rel, base, st) ->
    let before = int_of_nat (live_count st) in
    let st = with_plan st (plan_of f !pos) in
    let n0 = List.length st.ms_trace in
    let ((rc, d), st) = add_base_m compat rel base st in
    let reqs = int_of_nat st.ms_requests in
    let tail = fault_tail f !pos reqs st n0 in
    let st = with_plan st NoFault in
    let rc = int_of_n rc in
    let pure = (let (prc, pd) = add_base compat (erase rel) (erase base) in if int_of_n prc = 0 then Some pd else None) in
    let chk = if Array.length f <= !pos && (match pure with Some pd -> rc <> 0 || erase d <> pd | None -> rc = 0) then " !erasure-mismatch" else "" in
    let body = if rc = 0 then Printf.sprintf "addbase 0 %s%s" (string_of_muri d) (text_tag (erase d)) else Printf.sprintf "addbase %d E" rc in
    let st = free2 d st in
    Printf.sprintf "%s ro=1 live=%d bad=%d%s%s" body (int_of_nat (live_count st) - before) (int_of_nat (bad_frees st)) tail chk

let op_removebase_m f =
  let dr = bool_of_field f.(1) in
  let pos = ref 2 in
  match (try let (r, s1) = read_muri f pos (ms_init NoFault) in let (b, s2) = read_muri f pos s1 in Some (r, b, s2) with Arg_parse_error _ -> None) with
  | None -> "removebase parse-error"
  | Some (src, base, st) ->
    let before = int_of_nat (live_count st) in
    let st = with_plan st (plan_of f !pos) in
    let n0 = List.length st.ms_trace in
    let ((rc, d), st) = remove_base_m dr src base st in
    let reqs = int_of_nat st.ms_requests in
    let tail = fault_tail f !pos reqs st n0 in
    let st = with_plan st NoFault in
    let rc = int_of_n rc in
    let body = if rc = 0 then Printf.sprintf "removebase 0 %s%s" (string_of_muri d) (text_tag (erase d)) else Printf.sprintf "removebase %d E" rc in
    let st = free2 d st in
    Printf.sprintf "%s ro=1 live=%d bad=%d%s" body (int_of_nat (live_count st) - before) (int_of_nat (bad_frees st)) tail

let op_normalize_m f =
  let mask = int_of_string f.(1) in
  let owned = bool_of_field f.(2) in
  let pos = ref 3 in
  match (try Some (read_muri f pos (ms_init NoFault)) with Arg_parse_error _ -> None) with
  | None -> "normalize parse-error"
  | Some (u, st) ->
    let (u, st) = if owned then (let ((_, u'), st') = make_owner_m (csize_of ()) u st in (u', st')) else (u, st) in
    let before = int_of_n (mask_required (erase u)) in
    let st = with_plan st (plan_of f !pos) in
    let n0 = List.length st.ms_trace in
    let ((rc, v), st) = normalize_m (csize_of ()) (n_of_int mask) u st in
    let reqs = int_of_nat st.ms_requests in
    let tail = fault_tail f !pos reqs st n0 in
    let st = with_plan st NoFault in
    let rc = int_of_n rc in
    let body = if rc = 0 then Printf.sprintf "normalize 0 %d %s%s %d prov=%s in=1%s" before (string_of_muri v) (text_tag (erase v)) (int_of_n (mask_required (erase v))) (prov_of_muri v)
                                   (if mask <> 0 then " again" ^ text_tag (erase v) else "")
               else Printf.sprintf "normalize %d %d E in=1" rc before in
    let st = free2 v st in
    Printf.sprintf "%s ro=1 live=%d bad=%d%s" body (int_of_nat (live_count st)) (int_of_nat (bad_frees st)) tail

let op_makeowner_m f =
  let pos = ref 1 in
  match (try Some (read_muri f pos (ms_init NoFault)) with Arg_parse_error _ -> None) with
  | None -> "makeowner parse-error"
  | Some (u, st) ->
    let st = with_plan st (plan_of f !pos) in
    let n0 = List.length st.ms_trace in
    let ((rc, v), st) = make_owner_m (csize_of ()) u st in
    let reqs = int_of_nat st.ms_requests in
    let tail = fault_tail f !pos reqs st n0 in
    let st = with_plan st NoFault in
    let rc = int_of_n rc in
    let body = if rc = 0 then Printf.sprintf "makeowner 0 %s%s prov=%s in=1 again%s" (string_of_muri v) (text_tag (erase v)) (prov_of_muri v) (text_tag (erase v))
               else Printf.sprintf "makeowner %d E" rc in
    let st = free2 v st in
    Printf.sprintf "%s live=%d bad=%d%s" body (int_of_nat (live_count st)) (int_of_nat (bad_frees st)) tail

let dispatch (f : string array) : string =
  match f.(0) with
  | "esc" -> op_esc f
  | "unesc" -> op_unesc f
  | "unesc_inplace" -> op_unesc_inplace f
  | "spec_unesc" -> op_spec_unesc f
  | "spec_escform" -> op_spec_escform f
  | "spec_crlf" -> op_spec_crlf f
  | "parse" -> op_parse f
  | "spec_split" -> op_spec_split f
  | "tostring" -> op_tostring f
  | "addbase" -> op_addbase_m f
  | "removebase" -> op_removebase_m f
  | "normalize" -> op_normalize_m f
  | "makeowner" -> op_makeowner_m f
  | "addbase_pure" -> op_addbase f
  | "removebase_pure" -> op_removebase f
  | "normalize_pure" -> op_normalize f
  | "makeowner_pure" -> op_makeowner f
  | "equals" -> op_equals f
  | "spec_canon" -> op_spec_canon f
  | "spec_resolve" -> op_spec_resolve f
  | "spec_normal" -> op_spec_normal f
  | "shape_c06" -> string_of_int (int_of_n (c06_shape (text_of_field_nn f.(1)) (text_of_field_nn f.(2))))
  | "hist" -> op_hist f
  | "shape_c08" -> string_of_int (int_of_n (c08_shape (text_of_field_nn f.(1)) (text_of_field_nn f.(2)) (text_of_field_nn f.(3))))
  | "ref_kind" -> (let ((a, b), c) = ref_kind (text_of_field_nn f.(1)) in Printf.sprintf "%d %d %d" (int_of_n a) (int_of_n b) (int_of_n c))
  | "shape_c10" ->
    (match parse (text_of_field_nn f.(2)), parse (text_of_field_nn f.(3)) with
     | POk s, POk b -> string_of_int (int_of_n (c10_class (bool_of_field f.(1)) s b))
     | _, _ -> "0")
  | "suite" -> suite (int_of_string f.(1))
  | "suite2" -> suite2 (int_of_string f.(1)) (int_of_string f.(2))
  | "spec_uri" -> spec_uri f
  | op -> "?unknown-op " ^ op

let () = main_loop dispatch
