(* Line-protocol driver around the model and specification functions extracted from Coq
   (model.ml).  Same request lines and the same canonical result lines as harness/drv.c. *)
open Model
open Glue

(* ---- operations --------------------------------------------------------------- *)
let op_esc f =
  let l = text_of_field_nn f.(1) in
  let stp = bool_of_field f.(2) and nb = bool_of_field f.(3) in
  let out = escape stp nb l in
  Printf.sprintf "esc %d %s 1" (List.length out) (field_of_text out)

let op_unesc f =
  let l = text_of_field_nn f.(1) in
  let mode = int_of_string f.(4) in
  let pts = if mode = 0 then false else bool_of_field f.(2) in
  let bc = if mode = 0 then 3 else int_of_string f.(3) in
  let out = unescape pts (brk_of_int bc) l in
  Printf.sprintf "unesc %d %s 1" (List.length out) (field_of_text out)

(* the cursor-level model on the buffer  text ++ [0] : prints the same line plus the largest index written *)
let op_unesc_inplace f =
  let l = text_of_field_nn f.(1) in
  let pts = bool_of_field f.(2) and bc = int_of_string f.(3) in
  match unescape_inplace pts (brk_of_int bc) (l @ [N0]) with
  | None -> "unesc_inplace fuel"
  | Some ((buf, ret), log) ->
    let ret = int_of_nat ret in
    let rec take k = function [] -> [] | x :: r -> if k = 0 then [] else x :: take (k - 1) r in
    let maxw = List.fold_left (fun m i -> max m (int_of_nat i)) (-1) log in
    Printf.sprintf "unesc %d %s 1 maxwrite=%d buflen=%d" ret (field_of_text (take ret buf)) maxw (List.length buf)

(* spec oracles *)
let op_spec_unesc f =
  let l = text_of_field_nn f.(1) in
  let mode = int_of_string f.(4) in
  let pts = if mode = 0 then false else bool_of_field f.(2) in
  let bc = if mode = 0 then 3 else int_of_string f.(3) in
  let out = unescape_spec pts (sbrk_of_int bc) l in
  Printf.sprintf "unesc %d %s 1" (List.length out) (field_of_text out)

let op_spec_escform f =
  (* escform <plus_allowed> <text> -> 1/0 *)
  let pa = bool_of_field f.(1) in
  if escaped_form pa (text_of_field_nn f.(2)) then "1" else "0"

let op_spec_crlf f = field_of_text (crlf (text_of_field_nn f.(1)))

let dispatch (f : string array) : string =
  match f.(0) with
  | "esc" -> op_esc f
  | "unesc" -> op_unesc f
  | "unesc_inplace" -> op_unesc_inplace f
  | "spec_unesc" -> op_spec_unesc f
  | "spec_escform" -> op_spec_escform f
  | "spec_crlf" -> op_spec_crlf f
  | op -> "?unknown-op " ^ op

let () = main_loop dispatch
