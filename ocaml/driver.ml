(* Line-protocol driver around the model and specification functions extracted from Coq
   (model.ml).  Same request lines and the same canonical result lines as harness/drv.c. *)
open Model
open Glue

(* ---- operations --------------------------------------------------------------- *)
let op_esc f =
  let l = text_of_field_nn f.(1) in
  let stp = bool_of_field f.(2) and nb = bool_of_field f.(3) in
  let out = escape stp nb l in
  Printf.sprintf "esc %d %s 1" (List.length out) (field_of_text out)

let op_unesc f =
  let l = text_of_field_nn f.(1) in
  let mode = int_of_string f.(4) in
  let pts = if mode = 0 then false else bool_of_field f.(2) in
  let bc = if mode = 0 then 3 else int_of_string f.(3) in
  let out = unescape pts (brk_of_int bc) l in
  Printf.sprintf "unesc %d %s 1" (List.length out) (field_of_text out)

(* the cursor-level model on the buffer  text ++ [0] : prints the same line plus the largest index written *)
let op_unesc_inplace f =
  let l = text_of_field_nn f.(1) in
  let pts = bool_of_field f.(2) and bc = int_of_string f.(3) in
  match unescape_inplace pts (brk_of_int bc) (l @ [N0]) with
  | None -> "unesc_inplace fuel"
  | Some ((buf, ret), log) ->
    let ret = int_of_nat ret in
    let rec take k = function [] -> [] | x :: r -> if k = 0 then [] else x :: take (k - 1) r in
    let maxw = List.fold_left (fun m i -> max m (int_of_nat i)) (-1) log in
    Printf.sprintf "unesc %d %s 1 maxwrite=%d buflen=%d" ret (field_of_text (take ret buf)) maxw (List.length buf)

(* spec oracles *)
let op_spec_unesc f =
  let l = text_of_field_nn f.(1) in
  let mode = int_of_string f.(4) in
  let pts = if mode = 0 then false else bool_of_field f.(2) in
  let bc = if mode = 0 then 3 else int_of_string f.(3) in
  let out = unescape_spec pts (sbrk_of_int bc) l in
  Printf.sprintf "unesc %d %s 1" (List.length out) (field_of_text out)

let op_spec_escform f =
  (* escform <plus_allowed> <text> -> 1/0 *)
  let pa = bool_of_field f.(1) in
  if escaped_form pa (text_of_field_nn f.(2)) then "1" else "0"

let op_spec_crlf f = field_of_text (crlf (text_of_field_nn f.(1)))

(* ---- URI values ------------------------------------------------------------------ *)
let field_of_bytes = function None -> "-" | Some l -> field_of_text l
let string_of_uri (u : uri) : string =
  let segs = u.pathSegs in
  String.concat " " ([ "U"; field_of_otext u.scheme; field_of_otext u.userInfo; field_of_otext u.hostText;
    field_of_bytes u.ip4; field_of_bytes u.ip6; field_of_otext u.ipFuture; field_of_otext u.portText;
    (if u.absolutePath then "1" else "0"); (if u.owner then "1" else "0");
    string_of_int (List.length segs) ] @ List.map field_of_text segs
    @ [ field_of_otext u.query; field_of_otext u.fragment; "ok" ])

let prov_of_uri (u : uri) : string =
  let cls = function None -> "-" | Some [] -> "e" | Some _ -> "i" in
  String.concat "" (List.map cls [u.scheme; u.userInfo; u.hostText; u.ipFuture; u.portText; u.query; u.fragment])
  ^ "/" ^ String.concat "" (List.map (fun s -> if s = [] then "e" else "i") u.pathSegs)

exception Arg_parse_error of int
(* reads one URI argument starting at f.(!pos) *)
let read_uri (f : string array) (pos : int ref) : uri =
  let next () = let x = f.(!pos) in incr pos; x in
  match next () with
  | "P" ->
    (match parse (text_of_field_nn (next ())) with
     | POk u -> u
     | PSyntax _ -> raise (Arg_parse_error 1))
  | _ ->
    let scheme = text_of_field (next ()) in
    let userInfo = text_of_field (next ()) in
    let hostText = text_of_field (next ()) in
    let ip4 = text_of_field (next ()) in
    let ip6 = text_of_field (next ()) in
    let ipFuture = text_of_field (next ()) in
    let portText = text_of_field (next ()) in
    let abs = bool_of_field (next ()) in
    let n = int_of_string (next ()) in
    let segs = List.init n (fun _ -> text_of_field_nn (next ())) in
    let query = text_of_field (next ()) in
    let fragment = text_of_field (next ()) in
    { scheme; userInfo; hostText; ip4; ip6; ipFuture; portText; pathSegs = segs; query; fragment;
      absolutePath = abs; owner = false }

let op_parse f =
  let l = text_of_field_nn f.(1) in
  let entry = int_of_string f.(2) in
  let r = if entry = 1 || entry = 2 || entry = 4 then parse_cstr l else parse l in
  let tailer = if entry = 5 then " live=0 badfree=0" else "" in
  match r with
  | POk u -> Printf.sprintf "parse 0 -1 %s prov=%s%s" (string_of_uri u) (prov_of_uri u) tailer
  | PSyntax pos -> Printf.sprintf "parse 1 %d E%s" (int_of_nat pos) tailer

(* ---- conformance suite derived from the model's control automaton -------------------
   Breadth-first search over the control states reachable from CStart (one representative
   character per atom), giving each state its shortest access string and a shortest accepting
   completion.  The suite is  access(s) . c . w  for every reachable state s, every character c
   of the chosen alphabet and w in {empty, completion of the target}. *)
let suite (mode : int) : string =
  let tbl : (ctrl, int list) Hashtbl.t = Hashtbl.create 4096 in
  let order = ref [] in
  let q = Queue.create () in
  Hashtbl.add tbl CStart []; Queue.add CStart q;
  let atoms = all_atoms in
  while not (Queue.is_empty q) do
    let c = Queue.pop q in
    order := c :: !order;
    let acc = Hashtbl.find tbl c in
    List.iter (fun a ->
      match snd (ptrans c a) with
      | Go c' -> if not (Hashtbl.mem tbl c') then begin
                   Hashtbl.add tbl c' (int_of_n (atom_rep a) :: acc); Queue.add c' q end
      | Stop _ -> ()) atoms
  done;
  let states = List.rev !order in
  (* shortest accepting completion: backward fixpoint *)
  let comp : (ctrl, int list) Hashtbl.t = Hashtbl.create 4096 in
  List.iter (fun c -> match snd (pfinish c) with Acc -> Hashtbl.replace comp c [] | StopEnd -> ()) states;
  let changed = ref true in
  while !changed do
    changed := false;
    List.iter (fun c ->
      List.iter (fun a ->
        match snd (ptrans c a) with
        | Go c' ->
          (match Hashtbl.find_opt comp c' with
           | Some w ->
             let cand = int_of_n (atom_rep a) :: w in
             (match Hashtbl.find_opt comp c with
              | Some old when List.length old <= List.length cand -> ()
              | _ -> Hashtbl.replace comp c cand; changed := true)
           | None -> ())
        | Stop _ -> ()) atoms) states
  done;
  let chars =
    if mode = 0 then List.map (fun a -> int_of_n (atom_rep a)) atoms
    else List.init 128 (fun i -> i) @ [128; 200; 255] in
  let buf = Buffer.create (1 lsl 20) in
  let emit l = Buffer.add_string buf (match l with [] -> "_" | _ -> String.concat "." (List.map (Printf.sprintf "%x") l)); Buffer.add_char buf ';' in
  Buffer.add_string buf (Printf.sprintf "states=%d;" (List.length states));
  List.iter (fun c ->
    let acc = List.rev (Hashtbl.find tbl c) in
    emit acc;
    (match Hashtbl.find_opt comp c with Some w -> emit (acc @ w) | None -> ());
    List.iter (fun ch ->
      let s1 = acc @ [ch] in
      emit s1;
      match snd (ptrans c (atom_of (n_of_int ch))) with
      | Go c' -> (match Hashtbl.find_opt comp c' with Some w when w <> [] -> emit (s1 @ w) | _ -> ())
      | Stop _ -> ()) chars) states;
  Buffer.contents buf

(* ---- RFC 3986 oracle: membership and first dead character (memoised derivatives) ------- *)
let spec_uri f =
  let l = text_of_field_nn f.(1) in
  let ok = matchb uRI_reference l in
  let fd = int_of_nat (first_dead uRI_reference l) in
  let eok = if Array.length f > 2 && f.(2) <> "-1" && f.(2) <> "null"
            then (if errpos_ok uRI_reference l (nat_of_int (int_of_string f.(2))) then 1 else 0) else -1 in
  Printf.sprintf "%d %d %d" (if ok then 1 else 0) fd eok

let op_spec_split f =
  let l = text_of_field_nn f.(1) in
  let u = split_spec l in
  Printf.sprintf "parse 0 -1 %s prov=%s" (string_of_uri u) (prov_of_uri u)

(* tostring <cap|req> <cwnull> <URI> *)
let op_tostring f =
  let pos = ref 3 in
  match (try Some (read_uri f pos) with Arg_parse_error _ -> None) with
  | None -> "tostring parse-error 1"
  | Some u ->
    let req = int_of_z (chars_required u) in
    let head = Printf.sprintf "tostring 0 %d" req in
    if f.(1) = "req" then head ^ " "
    else begin
      let cap = int_of_string f.(1) in
      let cwnull = bool_of_field f.(2) in
      match to_string u (z_of_int cap) with
      | TsOk (t, cw, _) ->
        Printf.sprintf "%s 0 %s %s 1" head (if cwnull then "-" else string_of_int (int_of_z cw)) (field_of_text t)
      | TsTooLong (nul, _) ->
        Printf.sprintf "%s 4 %s %s 1" head (if cwnull then "-" else "0") (if cap >= 1 then "_" else "-")
    end

let prov_owned (u : uri) : string =
  let cls = function None -> "-" | Some [] -> "e" | Some _ -> (if u.owner then "h" else "i") in
  String.concat "" (List.map cls [u.scheme; u.userInfo; u.hostText; u.ipFuture; u.portText; u.query; u.fragment])
  ^ "/" ^ String.concat "" (List.map (fun s -> if s = [] then "e" else (if u.owner then "h" else "i")) u.pathSegs)

let text_tag (u : uri) = " T=" ^ field_of_text (to_text u)

let op_addbase f =
  let compat = bool_of_field f.(1) in
  let pos = ref 2 in
  match (try let r = read_uri f pos in let b = read_uri f pos in Some (r, b) with Arg_parse_error _ -> None) with
  | None -> "addbase parse-error"
  | Some (rel, base) ->
    let (rc, d) = add_base compat rel base in
    let rc = int_of_n rc in
    if rc = 0 then Printf.sprintf "addbase 0 %s%s ro=1 live=0 bad=0" (string_of_uri d) (text_tag d)
    else Printf.sprintf "addbase %d E ro=1 live=0 bad=0" rc

let op_removebase f =
  let dr = bool_of_field f.(1) in
  let pos = ref 2 in
  match (try let r = read_uri f pos in let b = read_uri f pos in Some (r, b) with Arg_parse_error _ -> None) with
  | None -> "removebase parse-error"
  | Some (src, base) ->
    let (rc, d) = remove_base dr src base in
    let rc = int_of_n rc in
    if rc = 0 then Printf.sprintf "removebase 0 %s%s ro=1 live=0 bad=0" (string_of_uri d) (text_tag d)
    else Printf.sprintf "removebase %d E ro=1 live=0 bad=0" rc

let op_normalize f =
  let mask = int_of_string f.(1) in
  let owned = bool_of_field f.(2) in
  let pos = ref 3 in
  match (try Some (read_uri f pos) with Arg_parse_error _ -> None) with
  | None -> "normalize parse-error"
  | Some u ->
    let u = if owned then make_owner u else u in
    let before = int_of_n (mask_required u) in
    let v = normalize (n_of_int mask) u in
    Printf.sprintf "normalize 0 %d %s%s %d prov=%s ro=1 live=0 bad=0" before (string_of_uri v) (text_tag v)
      (int_of_n (mask_required v)) (prov_owned v)

let op_makeowner f =
  let pos = ref 1 in
  match (try Some (read_uri f pos) with Arg_parse_error _ -> None) with
  | None -> "makeowner parse-error"
  | Some u ->
    let v = make_owner u in
    Printf.sprintf "makeowner 0 %s%s prov=%s again%s live=0 bad=0" (string_of_uri v) (text_tag v) (prov_owned v) (text_tag v)

let op_equals f =
  let pos = ref 1 in
  let rd () = if f.(!pos) = "N" then (incr pos; None) else Some (read_uri f pos) in
  match (try let a = rd () in let b = rd () in Some (a, b) with Arg_parse_error _ -> None) with
  | None -> "equals parse-error"
  | Some (a, b) -> Printf.sprintf "equals %d 1 1" (if equals_uri a b then 1 else 0)

let op_spec_canon f = field_of_text (canon_ip6 (text_of_field_nn f.(1)))
let op_spec_resolve f =
  let strict = bool_of_field f.(1) in
  let b = text_of_field_nn f.(2) and r = text_of_field_nn f.(3) in
  Printf.sprintf "%s %d" (match resolve_text strict b r with Some t -> field_of_text (canon_ip6 t) | None -> "-")
    (if resolve_corner strict b r then 1 else 0)
let op_spec_normal f = field_of_text (normal_text (text_of_field_nn f.(1)))

(* histories: same mini-language as harness/drv_uri.inc:op_hist *)
let op_hist f =
  let nslot = 8 in
  let slot : uri option array = Array.make nslot None in
  let buf = Buffer.create 256 in
  Buffer.add_string buf "hist";
  let show rc k =
    (match rc, slot.(k) with
     | 0, Some u -> Buffer.add_string buf (Printf.sprintf "0 %s%s M=%d" (string_of_uri u) (text_tag u) (int_of_n (mask_required u)))
     | rc, _ -> Buffer.add_string buf (Printf.sprintf "%d E" rc)) in
  for fi = 1 to Array.length f - 1 do
    let st = f.(fi) in
    let op = st.[0] and k = Char.code st.[1] - Char.code '0' in
    let arg = if String.length st > 2 && st.[2] = '=' then String.sub st 3 (String.length st - 3) else "" in
    Buffer.add_string buf " | ";
    if k < 0 || k >= nslot then Buffer.add_string buf "badslot"
    else begin match op with
      | 'p' ->
        (match parse (text_of_field_nn arg) with
         | POk u -> slot.(k) <- Some u; show 0 k
         | PSyntax _ -> slot.(k) <- None; show 1 k)
      | 'a' | 'r' ->
        (match List.map int_of_string (String.split_on_char ',' arg) with
         | [i; j; o] when i >= 0 && j >= 0 && i < nslot && j < nslot && k <> i && k <> j
                          && slot.(i) <> None && slot.(j) <> None ->
           let x = (match slot.(i) with Some x -> x | None -> assert false)
           and y = (match slot.(j) with Some y -> y | None -> assert false) in
           let (rc, d) = if op = 'a' then add_base (o <> 0) x y else remove_base (o <> 0) x y in
           let rc = int_of_n rc in
           if rc = 0 then (slot.(k) <- Some (make_owner d); show 0 k) else (slot.(k) <- None; show rc k)
         | _ -> Buffer.add_string buf "skip")
      | 'n' ->
        (match slot.(k) with
         | Some u -> slot.(k) <- Some (normalize (n_of_int (int_of_string arg)) u); show 0 k
         | None -> Buffer.add_string buf "skip")
      | 'o' ->
        (match slot.(k) with
         | Some u -> slot.(k) <- Some (make_owner u); show 0 k
         | None -> Buffer.add_string buf "skip")
      | 'e' ->
        let i = int_of_string arg in
        if i < 0 || i >= nslot || slot.(k) = None || slot.(i) = None then Buffer.add_string buf "skip"
        else Buffer.add_string buf (Printf.sprintf "eq=%d" (if equals_uri slot.(k) slot.(i) then 1 else 0))
      | 'f' -> slot.(k) <- None; Buffer.add_string buf "freed"
      | _ -> Buffer.add_string buf "badop"
    end
  done;
  Buffer.add_string buf " | end live=0 bad=0";
  Buffer.contents buf

let dispatch (f : string array) : string =
  match f.(0) with
  | "esc" -> op_esc f
  | "unesc" -> op_unesc f
  | "unesc_inplace" -> op_unesc_inplace f
  | "spec_unesc" -> op_spec_unesc f
  | "spec_escform" -> op_spec_escform f
  | "spec_crlf" -> op_spec_crlf f
  | "parse" -> op_parse f
  | "spec_split" -> op_spec_split f
  | "tostring" -> op_tostring f
  | "addbase" -> op_addbase f
  | "removebase" -> op_removebase f
  | "normalize" -> op_normalize f
  | "makeowner" -> op_makeowner f
  | "equals" -> op_equals f
  | "spec_canon" -> op_spec_canon f
  | "spec_resolve" -> op_spec_resolve f
  | "spec_normal" -> op_spec_normal f
  | "shape_c06" -> string_of_int (int_of_n (c06_shape (text_of_field_nn f.(1)) (text_of_field_nn f.(2))))
  | "hist" -> op_hist f
  | "shape_c08" -> string_of_int (int_of_n (c08_shape (text_of_field_nn f.(1)) (text_of_field_nn f.(2)) (text_of_field_nn f.(3))))
  | "ref_kind" -> (let ((a, b), c) = ref_kind (text_of_field_nn f.(1)) in Printf.sprintf "%d %d %d" (int_of_n a) (int_of_n b) (int_of_n c))
  | "shape_c10" ->
    (match parse (text_of_field_nn f.(2)), parse (text_of_field_nn f.(3)) with
     | POk s, POk b -> string_of_int (int_of_n (c10_class (bool_of_field f.(1)) s b))
     | _, _ -> "0")
  | "suite" -> suite (int_of_string f.(1))
  | "spec_uri" -> spec_uri f
  | op -> "?unknown-op " ^ op

let () = main_loop dispatch
