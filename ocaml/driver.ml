(* Line-protocol driver around the model and specification functions extracted from Coq
   (model.ml).  Same request lines and the same canonical result lines as harness/drv.c.
   Glue only: conversions between OCaml ints/strings and the extracted inductive
   numbers, field parsing and printing. *)
open Model

(* ---- number glue ---------------------------------------------------------- *)
let rec pos_of_int (i : int) : positive =
  if i <= 1 then XH
  else if i land 1 = 0 then XO (pos_of_int (i lsr 1))
  else XI (pos_of_int (i lsr 1))
let n_of_int (i : int) : n = if i <= 0 then N0 else Npos (pos_of_int i)
let rec int_of_pos (p : positive) : int =
  match p with XH -> 1 | XO q -> 2 * int_of_pos q | XI q -> 2 * int_of_pos q + 1
let int_of_n (x : n) : int = match x with N0 -> 0 | Npos p -> int_of_pos p
let rec nat_of_int (i : int) : nat = if i <= 0 then O else S (nat_of_int (i - 1))
let int_of_nat (x : nat) : int =
  let rec go acc = function O -> acc | S k -> go (acc + 1) k in go 0 x

(* ---- field glue ------------------------------------------------------------- *)
let text_of_field (f : string) : n list option =
  if f = "-" then None
  else if f = "_" then Some []
  else Some (List.map (fun h -> n_of_int (int_of_string ("0x" ^ h))) (String.split_on_char '.' f))
let text_of_field_nn f = match text_of_field f with None -> [] | Some l -> l
let field_of_text (l : n list) : string =
  match l with
  | [] -> "_"
  | _ -> String.concat "." (List.map (fun c -> Printf.sprintf "%x" (int_of_n c)) l)
let field_of_otext = function None -> "-" | Some l -> field_of_text l
let bool_of_field f = f <> "0"

let brk_of_int = function 0 -> BrToLf | 1 -> BrToCrlf | 2 -> BrToCr | _ -> BrDontTouch
let sbrk_of_int = function 0 -> ToLf | 1 -> ToCrlf | 2 -> ToCr | _ -> DontTouch

(* self-test of the glue *)
let () =
  List.iter (fun i -> assert (int_of_n (n_of_int i) = i)) [0; 1; 2; 3; 9; 10; 37; 255; 256; 65535; 1114111];
  assert (field_of_text (text_of_field_nn "61.2f.c8") = "61.2f.c8")

(* ---- operations --------------------------------------------------------------- *)
let op_esc f =
  let l = text_of_field_nn f.(1) in
  let stp = bool_of_field f.(2) and nb = bool_of_field f.(3) in
  let out = escape stp nb l in
  Printf.sprintf "esc %d %s 1" (List.length out) (field_of_text out)

let op_unesc f =
  let l = text_of_field_nn f.(1) in
  let mode = int_of_string f.(4) in
  let pts = if mode = 0 then false else bool_of_field f.(2) in
  let bc = if mode = 0 then 3 else int_of_string f.(3) in
  let out = unescape pts (brk_of_int bc) l in
  Printf.sprintf "unesc %d %s 1" (List.length out) (field_of_text out)

(* the cursor-level model on the buffer  text ++ [0] : prints the same line plus the largest index written *)
let op_unesc_inplace f =
  let l = text_of_field_nn f.(1) in
  let pts = bool_of_field f.(2) and bc = int_of_string f.(3) in
  match unescape_inplace pts (brk_of_int bc) (l @ [N0]) with
  | None -> "unesc_inplace fuel"
  | Some ((buf, ret), log) ->
    let ret = int_of_nat ret in
    let rec take k = function [] -> [] | x :: r -> if k = 0 then [] else x :: take (k - 1) r in
    let maxw = List.fold_left (fun m i -> max m (int_of_nat i)) (-1) log in
    Printf.sprintf "unesc %d %s 1 maxwrite=%d buflen=%d" ret (field_of_text (take ret buf)) maxw (List.length buf)

(* spec oracles *)
let op_spec_unesc f =
  let l = text_of_field_nn f.(1) in
  let mode = int_of_string f.(4) in
  let pts = if mode = 0 then false else bool_of_field f.(2) in
  let bc = if mode = 0 then 3 else int_of_string f.(3) in
  let out = unescape_spec pts (sbrk_of_int bc) l in
  Printf.sprintf "unesc %d %s 1" (List.length out) (field_of_text out)

let op_spec_escform f =
  (* escform <plus_allowed> <text> -> 1/0 *)
  let pa = bool_of_field f.(1) in
  if escaped_form pa (text_of_field_nn f.(2)) then "1" else "0"

let op_spec_crlf f = field_of_text (crlf (text_of_field_nn f.(1)))

let dispatch (f : string array) : string =
  match f.(0) with
  | "esc" -> op_esc f
  | "unesc" -> op_unesc f
  | "unesc_inplace" -> op_unesc_inplace f
  | "spec_unesc" -> op_spec_unesc f
  | "spec_escform" -> op_spec_escform f
  | "spec_crlf" -> op_spec_crlf f
  | op -> "?unknown-op " ^ op

let () =
  try
    while true do
      let line = input_line stdin in
      let f = Array.of_list (List.filter (fun s -> s <> "") (String.split_on_char ' ' line)) in
      if Array.length f = 0 then print_newline ()
      else begin
        (try print_string (dispatch f) with e -> print_string ("?exception " ^ Printexc.to_string e));
        print_newline ()
      end
    done
  with End_of_file -> ()
