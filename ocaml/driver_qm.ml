(* Line-protocol driver around the memory tier of the query functions (Model/QueryM.v, extracted as
   qmmodel.ml and copied as model.ml).  Same request lines and the same canonical result lines as
   harness/drv_query.inc:
     qdissect  <pts> <bc> <text> [<failAt> <failFrom>]
     qdissectx <pts> <bc> <text> [<failAt> <failFrom>]        (after a failure the caller also frees *dest)
     qcompose  <stp> <nb> <n> k1 v1 ... kn vn [<failAt> <failFrom>]
     qchain    <pts> <bc> <stp> <nb> <text> [<failAt> <failFrom>]
   DRV_CSIZE = 1 | 4 selects sizeof(URI_CHAR). *)
open Model
open Glue

let csize_of () = n_of_int (match Sys.getenv_opt "DRV_CSIZE" with Some "4" -> 4 | _ -> 1)

let string_of_trace (evs : event list) : string =
  match evs with
  | [] -> "-"
  | _ -> String.concat "" (List.map (function
      | EvMalloc (sz, ok) -> Printf.sprintf "m%d%s," (int_of_n sz) (if ok then "" else "!")
      | EvCalloc (sz, ok) -> Printf.sprintf "c%d%s," (int_of_n sz) (if ok then "" else "!")
      | EvFree sz -> Printf.sprintf "f%d," (int_of_n sz)
      | EvBadFree -> "f?,") evs)

let plan_of f i =
  if Array.length f > i then
    let k = int_of_string f.(i) in
    let from = Array.length f > i + 1 && f.(i + 1) <> "0" in
    if k = 0 then NoFault else if from then FailFrom (nat_of_int k) else FailOnce (nat_of_int k)
  else NoFault

let rec drop k l = if k <= 0 then l else (match l with [] -> [] | _ :: r -> drop (k - 1) r)
let live st = int_of_nat (live_count st)
let bad st = int_of_nat (bad_frees st)
(* the events after the first n0 *)
let trace_from st n0 = string_of_trace (drop n0 (trace_of st))
let nevents st = List.length st.ms_trace

let put_items (l : (n list * n list option) list) : string =
  String.concat "" (List.map (fun (k, v) -> " " ^ field_of_text k ^ " " ^ field_of_otext v) l)
let items_of f i n : (n list * n list option) list =
  List.init n (fun j -> (text_of_field_nn f.(i + 2 * j), text_of_field f.(i + 2 * j + 1)))

(* the failure plan stops being in force when the call has returned (the C driver clears it) *)
let no_plan (st : mstate) : mstate = { st with ms_plan = NoFault }

let op_qdissect cautious f =
  let name = f.(0) in
  let pts = bool_of_field f.(1) and bc = brk_of_int (int_of_string f.(2)) in
  let t = text_of_field_nn f.(3) in
  let st0 = ms_init (plan_of f 4) in
  let (r, st) = dissect_m (csize_of ()) pts bc t st0 in
  let reqs = int_of_nat st.ms_requests in
  let tr = trace_from st 0 in
  let n1 = nevents st in
  let live1 = live st in
  let st = no_plan st in
  (* without faults the memory tier must return what the pure tier returns *)
  let chk = if plan_of f 4 = NoFault && erase_d r <> dissect pts bc t then " !erasure-mismatch" else "" in
  let (body, st) = match r with
    | DMOk (items, cnt) ->
      let l = erase_q items in
      (Printf.sprintf "%s 0 %d dest=%d %d%s" name (int_of_z cnt) (if items = [] then 0 else 1) (List.length l) (put_items l),
       free_query_list_m items st)
    | DMMalloc d ->
      (Printf.sprintf "%s 3 0 dest=%d 0" name (if d = [] then 0 else 1),
       if cautious then free_query_list_m d st else st) in
  Printf.sprintf "%s ro=1 live1=%d live=%d bad=%d req=%d trace=%s ftrace=%s%s" body live1 (live st) (bad st) reqs tr (trace_from st n1) chk

let calloc_max = z_of_int (1 lsl 40)

let op_qcompose f =
  let stp = bool_of_field f.(1) and nb = bool_of_field f.(2) in
  let n = int_of_string f.(3) in
  let l = items_of f 4 n in
  let pi = 4 + 2 * n in
  let st0 = ms_init (plan_of f pi) in
  let (r, st) = compose_m (csize_of ()) stp nb l st0 in
  let reqs = int_of_nat st.ms_requests in
  let tr = trace_from st 0 in
  let n1 = nevents st in
  let live1 = live st in
  let st = no_plan st in
  let chk = if plan_of f pi = NoFault && erase_c r <> compose_malloc calloc_max stp nb l then " !erasure-mismatch" else "" in
  let body = match r with
    | CMOk (out, _) -> Printf.sprintf "qcompose 0 %s dest=1" (field_of_text out)
    | CMErr c -> Printf.sprintf "qcompose %d - dest=0" (int_of_n c) in
  let st = free_string_m r st in
  Printf.sprintf "%s ro=1 live1=%d live=%d bad=%d req=%d trace=%s ftrace=%s%s" body live1 (live st) (bad st) reqs tr (trace_from st n1) chk

(* dissect, compose the list, free the string, free the list; one plan over both calls *)
let op_qchain f =
  let pts = bool_of_field f.(1) and bc = brk_of_int (int_of_string f.(2)) in
  let stp = bool_of_field f.(3) and nb = bool_of_field f.(4) in
  let t = text_of_field_nn f.(5) in
  let st0 = ms_init (plan_of f 6) in
  let (r, st) = dissect_m (csize_of ()) pts bc t st0 in
  let (body, st, reqs) = match r with
    | DMMalloc _ -> ("qchain 3 0 - -", st, int_of_nat st.ms_requests)
    | DMOk (items, cnt) ->
      let (c, st) = compose_m (csize_of ()) stp nb (erase_q items) st in
      let reqs = int_of_nat st.ms_requests in
      let st = no_plan st in
      let b = (match c with
          | CMOk (out, _) -> Printf.sprintf "qchain 0 %d 0 %s" (int_of_z cnt) (field_of_text out)
          | CMErr code -> Printf.sprintf "qchain 0 %d %d -" (int_of_z cnt) (int_of_n code)) in
      let st = free_string_m c st in
      (b, free_query_list_m items st, reqs) in
  Printf.sprintf "%s live=%d bad=%d req=%d trace=%s" body (live st) (bad st) reqs (trace_from st 0)

let dispatch (f : string array) : string =
  match f.(0) with
  | "qdissect" -> op_qdissect false f
  | "qdissectx" -> op_qdissect true f
  | "qcompose" -> op_qcompose f
  | "qchain" -> op_qchain f
  | op -> "?unknown-op " ^ op

let () = main_loop dispatch
