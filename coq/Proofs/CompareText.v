(* Lemmas for C11, text clause: "for URIs the library produced, two URIs compare equal exactly when
   their recomposed texts are identical".

   Part 1 (parsed objects, no further hypothesis).  If [to_text A = to_text B], parsing the common
   text gives [canon_host A] and [canon_host B] (C04), so these are one object; [canon_host] changes
   only the host text of an IPv6 host, which the comparison never looks at (it compares the sixteen
   bytes), so the keys of Proofs/CompareProofs.v are the same.  The other direction is
   [equal_to_text] with the parser fact [parse_wf_equality].

   Part 2 (objects satisfying [produced_wf], the invariant of C07).  Reading the text back
   ([produced_reread]) preserves the *meaning* ([same_meaning], Spec/Reread.v), which is coarser
   than component identity in exactly three places, each a boolean on the object below:
     [rootless_leading_empty]   host-less, not absolutePath, first segment empty and another one
                                after it: the path text begins with "/" and is read back as an
                                absolute path (known finding D6);
     [lone_empty_hostless]      (Spec/NormalWf.v) host-less, the path is one empty segment: it is
                                written like no segment at all (the shapes of the repaired D6a/D6b);
     [ip4_name]                 a registered name whose text is a dotted quad: written like the
                                IPv4 address, which carries four octets that the comparison sees
                                (normalizing "//%31.2.3.4" produces one).
   Outside these the text determines every component the comparison looks at
   ([same_text_identical_produced]), and the exclusion is exact: an object with one of the three
   shapes is not equal to the object parsed from its own text ([not_faithful_unequal_reread],
   [text_faithful_exact]).  "equal => same text" holds for every [produced_wf] object.

   Part 3: the same for the objects reachable by a history of library calls (Model/History.v), through
   [history_all_produced_wf].

   Part 4: no object reachable by a history has the second shape ([history_no_lone_empty], no side
   condition): every operation either ends with uriFixEmptyTrailSegment where it rebuilds the path
   (parser, uriAddBaseUri, uriNormalizeSyntax with the path bit, and -- since the repair of the
   domain-root branch -- uriRemoveBaseUri) or copies the path and host of an operand.  For reachable
   objects the exclusion is therefore two shapes, and exactly these two ([reachable_faithful_exact]). *)
From Coq Require Import ZArith Lia List Bool.
From UP Require Import Base.Chars Base.Regex Model.Uri Model.Common Model.Compare Model.Parse Model.Recompose
  Spec.Identity Spec.NormalWf Spec.Split Spec.Unparse Spec.Reread
  Proofs.CompareProofs Proofs.ParseWf Proofs.ParseSplit Proofs.ParseAssemble
  Proofs.RereadWfb Proofs.RereadProofs Proofs.ParsedProduced.
From UP Require Import Model.History Proofs.RereadAll.
From UP Require Spec.Rfc3986.
From UP Require Model.Resolve Model.Shorten Model.Normalize Proofs.ResolveProofs Proofs.ShortenProofs Proofs.RereadResolve.
Import ListNotations.
Local Open Scope N_scope.

(* ================================================================ 1. parsed objects *)

(* the comparison does not see the host text of an IPv6 host *)
Lemma ukey_canon_host u : ukey (canon_host u) = ukey u.
Proof.
  unfold canon_host. destruct (ip6 u) as [b|] eqn:E6; [|reflexivity].
  unfold ukey, hkey, has_ip_data, set_hostText.
  cbn [scheme userInfo hostText ip4 ip6 ipFuture portText pathSegs query fragment absolutePath owner].
  rewrite E6. cbn [is_some]. rewrite !orb_true_r. reflexivity.
Qed.

Lemma equals_canon_host a b :
  equals_uri (Some (canon_host a)) (Some (canon_host b)) = equals_uri (Some a) (Some b).
Proof.
  destruct (equals_uri (Some a) (Some b)) eqn:E.
  - apply equals_uri_key. apply equals_uri_key in E. cbn [okey option_map] in *.
    rewrite !ukey_canon_host. exact E.
  - destruct (equals_uri (Some (canon_host a)) (Some (canon_host b))) eqn:E'; [|reflexivity].
    apply equals_uri_key in E'. cbn [okey option_map] in E'. rewrite !ukey_canon_host in E'.
    rewrite <- E. symmetry. apply equals_uri_key. exact E'.
Qed.

Theorem same_text_equal_parsed a b A B : parse a = POk A -> parse b = POk B ->
  to_text A = to_text B -> equals_uri (Some A) (Some B) = true.
Proof.
  intros HA HB T.
  pose proof (parse_reparse_full a A HA) as RA. pose proof (parse_reparse_full b B HB) as RB.
  rewrite T, RB in RA. injection RA as RA.
  rewrite <- equals_canon_host, RA. apply equals_uri_refl.
Qed.

Theorem equal_iff_same_text_parsed a b A B : parse a = POk A -> parse b = POk B ->
  (equals_uri (Some A) (Some B) = true <-> to_text A = to_text B).
Proof.
  intros HA HB. split.
  - apply equal_to_text; [exact (parse_wf_equality a A HA) | exact (parse_wf_equality b B HB)].
  - exact (same_text_equal_parsed a b A B HA HB).
Qed.

(* in terms of the input texts: equal exactly when the inputs are the same up to the spelling of an
   IPv6 literal *)
Corollary equal_iff_same_canon_input a b A B : parse a = POk A -> parse b = POk B ->
  (equals_uri (Some A) (Some B) = true <-> Spec.Recompose.canon_ip6 a = Spec.Recompose.canon_ip6 b).
Proof.
  intros HA HB. rewrite (equal_iff_same_text_parsed a b A B HA HB).
  rewrite (parse_to_text_full a A HA), (parse_to_text_full b B HB). tauto.
Qed.

(* ================================================================ 2. objects satisfying produced_wf *)

(* ---------------------------------------------------------------- the three places where the
   meaning read back is coarser than the components *)
Definition rootless_leading_empty (u : uri) : bool :=
  negb (is_some (hostText u)) && negb (absolutePath u)
  && match pathSegs u with [] :: _ :: _ => true | _ => false end.

Definition ip4_name (u : uri) : bool :=
  match hostText u, ip4 u, ip6 u, ipFuture u with
  | Some h, None, None, None => matchb Rfc3986.IPv4address h
  | _, _, _, _ => false
  end.

(* none of the three *)
Definition text_faithful (u : uri) : bool :=
  negb (rootless_leading_empty u) && negb (lone_empty_hostless u) && negb (ip4_name u).

Lemma text_faithful_split u : text_faithful u = true ->
  rootless_leading_empty u = false /\ lone_empty_hostless u = false /\ ip4_name u = false.
Proof.
  unfold text_faithful. rewrite !andb_true_iff, !negb_true_iff. tauto.
Qed.

(* ---------------------------------------------------------------- NUL-freeness of what the
   comparison looks at *)
Lemma text_ok_nul_free cls t : cls 0 = false -> text_ok cls t -> nul_free t.
Proof. intros H0 [Hc _]. exact (class_nul_free cls t H0 Hc). Qed.

Lemma future_nul_free h : matchb Rfc3986.IPvFuture h = true -> nul_free h.
Proof.
  intros H. apply matchb_spec in H. apply matches_chars in H.
  exact (class_nul_free _ h eq_refl H).
Qed.

(* equal keys are identical components when one side satisfies produced_wf (the host text of an
   IPv6 / IPv4 host may be anything: it is not compared) *)
Lemma ukey_identical_produced a b : produced_wf a -> ukey a = ukey b -> components_identical a b.
Proof.
  intros (Hs & Hu & Hh & Hpo & Hg & Hq & Hf & _ & _) K. unfold ukey in K.
  injection K as Ks Ka Ku E4 E6 EF EH Kp Kpath Kq Kf.
  assert (opt_nul_free (ipFuture a)) as NF.
  { unfold host_ok in Hh. destruct (ipFuture a) as [f|] eqn:Efu; [|exact I]. cbn [opt_nul_free].
    destruct (hostText a) as [h|]; [|destruct Hh as (_ & _ & Hh); discriminate Hh].
    destruct Hh as [_ Hh]. destruct (ip4 a), (ip6 a); try contradiction.
    destruct Hh as [-> Hm]. exact (future_nul_free h Hm). }
  constructor; try assumption.
  - apply rkey_inj_l; [|exact Ks]. destruct (scheme a) as [s|]; [|exact I].
    exact (class_nul_free _ _ eq_refl (proj2 (scheme_ok_class _ Hs))).
  - apply rkey_inj_l; [|exact Ku]. destruct (userInfo a) as [t|]; [|exact I].
    exact (text_ok_nul_free _ t eq_refl Hu).
  - apply rkey_inj_l; assumption.
  - intros Ia Ib. unfold hkey in EH. rewrite Ia, Ib in EH. injection EH as EH.
    apply rkey_inj_l; [|exact EH]. unfold has_ip_data in Ia. unfold host_ok in Hh.
    destruct (hostText a) as [h|]; [|exact I]. cbn [opt_nul_free]. destruct Hh as [_ Hh].
    destruct (ip4 a); [discriminate Ia|]. destruct (ip6 a); [discriminate Ia|].
    destruct (ipFuture a); [discriminate Ia|]. exact (text_ok_nul_free _ h eq_refl Hh).
  - apply rkey_inj_l; [|exact Kp]. destruct (portText a) as [t|]; [|exact I].
    exact (class_nul_free _ t eq_refl Hpo).
  - apply map_tkey_inj_l; [|exact Kpath]. eapply Forall_impl; [|exact Hg].
    intros s Hsg. exact (text_ok_nul_free _ s eq_refl Hsg).
  - apply rkey_inj_l; [|exact Kq]. destruct (query a) as [t|]; [|exact I].
    exact (text_ok_nul_free _ t eq_refl Hq).
  - apply rkey_inj_l; [|exact Kf]. destruct (fragment a) as [t|]; [|exact I].
    exact (text_ok_nul_free _ t eq_refl Hf).
Qed.

Theorem equal_iff_identical_produced a b : produced_wf a ->
  (equals_uri (Some a) (Some b) = true <-> components_identical a b).
Proof.
  intros W. split.
  - intros E. cbn [equals_uri] in E. apply equals_uri_nn_key in E. exact (ukey_identical_produced a b W E).
  - apply identical_equals.
Qed.

(* equal => same text: no exception *)
Theorem equal_same_text_produced a b : produced_wf a ->
  equals_uri (Some a) (Some b) = true -> to_text a = to_text b.
Proof. intros W E. apply identical_to_text. apply (equal_iff_identical_produced a b W). exact E. Qed.

(* ---------------------------------------------------------------- the path text determines flag
   and segments *)
Lemma slashed_nil_iff r : slashed r = [] -> r = [].
Proof. destruct r as [|x r]; [reflexivity|]. unfold slashed. cbn [map concat app]. intros H. discriminate H. Qed.

Lemma join_slash_inj l1 : forall l2, l1 <> [] -> l2 <> [] ->
  Forall (text_ok is_pchar) l1 -> Forall (text_ok is_pchar) l2 ->
  join_slash l1 = join_slash l2 -> l1 = l2.
Proof.
  induction l1 as [|s r IH]; intros [|s' r'] N1 N2 F1 F2 J; try congruence.
  inversion F1 as [|? ? Hs Fr]; subst. inversion F2 as [|? ? Hs' Fr']; subst.
  pose proof (first_segment s r Hs) as P. pose proof (first_segment s' r' Hs') as P'.
  rewrite J, P' in P. injection P as <- Sl. f_equal.
  destruct r as [|x r].
  - symmetry. apply slashed_nil_iff. exact Sl.
  - destruct r' as [|x' r'].
    + symmetry in Sl. apply slashed_nil_iff in Sl. discriminate Sl.
    + rewrite !slashed_join in Sl by discriminate. injection Sl as Sl.
      apply IH; [discriminate | discriminate | assumption | assumption | symmetry; exact Sl].
Qed.

(* host-less with an empty first segment *)
Definition first_empty_hostless (u : uri) : bool :=
  negb (is_some (hostText u)) && match pathSegs u with [] :: _ => true | _ => false end.

Lemma first_empty_hostless_cases u : host_ok u -> path_unambiguous u ->
  rootless_leading_empty u = false -> lone_empty_hostless u = false -> first_empty_hostless u = false.
Proof.
  intros Hh Hp R L. unfold first_empty_hostless, rootless_leading_empty, lone_empty_hostless in *.
  rewrite (host_set_ok u Hh) in L. unfold path_unambiguous, path_text in Hp.
  destruct (hostText u) as [h|]; [reflexivity|]. cbn [is_some negb andb] in *.
  destruct (pathSegs u) as [|[|c s] r]; try reflexivity.
  destruct r as [|x r]; [discriminate L|].
  destruct (absolutePath u); [|discriminate R].
  destruct Hp as [Hp _]. cbn in Hp. discriminate Hp.
Qed.

Lemma path_text_inj u v : produced_wf u -> produced_wf v ->
  first_empty_hostless u = false -> first_empty_hostless v = false ->
  is_some (hostText u) = is_some (hostText v) ->
  path_text u = path_text v -> absolutePath u = absolutePath v /\ pathSegs u = pathSegs v.
Proof.
  intros (_ & _ & Hhu & _ & Hgu & _) (_ & _ & Hhv & _ & Hgv & _) Fu Fv Eh P.
  rewrite !path_text_join in P.
  destruct (text_segs_ok u Hgu) as [Nu Tu]. destruct (text_segs_ok v Hgv) as [Nv Tv].
  apply (join_slash_inj _ _ Nu Nv Tu Tv) in P. clear Nu Nv Tu Tv Hgu Hgv.
  unfold text_segs, first_empty_hostless, host_ok in *.
  destruct (hostText u) as [hu|], (hostText v) as [hv|]; try discriminate Eh; cbn [is_some negb andb orb] in *.
  - destruct Hhu as [Au _], Hhv as [Av _]. rewrite Au, Av in *. cbn [orb] in P. split; [reflexivity|].
    destruct (pathSegs u) as [|s r], (pathSegs v) as [|s' r']; cbn [negb app] in P; try reflexivity.
    + injection P as P. discriminate P.
    + injection P as P. discriminate P.
    + congruence.
  - destruct (absolutePath u), (absolutePath v); cbn [orb app] in P;
      destruct (pathSegs u) as [|[|c s] r], (pathSegs v) as [|[|c' s'] r']; try discriminate Fu; try discriminate Fv;
      try discriminate P; try (split; reflexivity); try (injection P as P; discriminate P).
    + split; [reflexivity | congruence].
    + split; [reflexivity | exact P].
Qed.

(* ---------------------------------------------------------------- the host meaning determines
   the host data *)
Lemma host_of_inj u v : host_ok u -> host_ok v -> ip4_name u = false -> ip4_name v = false ->
  host_of u = host_of v ->
  is_some (hostText u) = is_some (hostText v)
  /\ ip4 u = ip4 v /\ ip6 u = ip6 v /\ ipFuture u = ipFuture v
  /\ (has_ip_data u = false -> has_ip_data v = false -> hostText u = hostText v).
Proof.
  unfold host_ok, ip4_name, host_of, has_ip_data. intros Hu Hv Nu Nv E.
  destruct (hostText u) as [hu|], (hostText v) as [hv|].
  - destruct Hu as [_ Hu], Hv as [_ Hv].
    destruct (ip4 u) as [ou|], (ip6 u) as [bu|], (ipFuture u) as [fu|]; try contradiction;
      destruct (ip4 v) as [ov|], (ip6 v) as [bv|], (ipFuture v) as [fv|]; try contradiction;
      cbn [is_some] in *; try discriminate E.
    + injection E as <-. destruct Hu as [_ ->], Hv as [_ ->].
      repeat split; try reflexivity; try (intros; discriminate).
    + injection E as <-. destruct Hu as [Hu _]. rewrite Hu in Nv. discriminate Nv.
    + injection E as <-. repeat split; try reflexivity; try (intros; discriminate).
    + injection E as <-. destruct Hu as [-> _], Hv as [-> _].
      repeat split; try reflexivity.
    + injection E as <-. destruct Hv as [Hv _]. rewrite Hv in Nu. discriminate Nu.
    + injection E as <-. repeat split; reflexivity.
  - destruct (ip6 u); discriminate E.
  - destruct (ip6 v); discriminate E.
  - destruct Hu as (-> & -> & ->), Hv as (-> & -> & ->). repeat split; reflexivity.
Qed.

(* ---------------------------------------------------------------- same text => identical *)
Theorem same_text_identical_produced u v : produced_wf u -> produced_wf v ->
  text_faithful u = true -> text_faithful v = true ->
  to_text u = to_text v -> components_identical u v.
Proof.
  intros Wu Wv Fu Fv T.
  destruct (text_faithful_split u Fu) as (Ru & Lu & Iu). destruct (text_faithful_split v Fv) as (Rv & Lv & Iv).
  destruct (produced_reread u Wu) as (w & Pw & Mu). destruct (produced_reread v Wv) as (w' & Pw' & Mv).
  rewrite T, Pw' in Pw. injection Pw as ->.
  destruct Mu as (Es & Eu & Eh & Ep & Epath & Eq & Ef). destruct Mv as (Es' & Eu' & Eh' & Ep' & Epath' & Eq' & Ef').
  pose proof Wu as (_ & _ & Hhu & _ & _ & _ & _ & Hpu & _). pose proof Wv as (_ & _ & Hhv & _ & _ & _ & _ & Hpv & _).
  destruct (host_of_inj u v Hhu Hhv Iu Iv (eq_trans Eh (eq_sym Eh'))) as (S & E4 & E6 & EF & EH).
  destruct (path_text_inj u v Wu Wv (first_empty_hostless_cases u Hhu Hpu Ru Lu)
              (first_empty_hostless_cases v Hhv Hpv Rv Lv) S (eq_trans Epath (eq_sym Epath'))) as [Ea Eg].
  constructor; try assumption; congruence.
Qed.

Theorem equal_iff_same_text_produced u v : produced_wf u -> produced_wf v ->
  text_faithful u = true -> text_faithful v = true ->
  (equals_uri (Some u) (Some v) = true <-> to_text u = to_text v).
Proof.
  intros Wu Wv Fu Fv. split.
  - exact (equal_same_text_produced u v Wu).
  - intros T. apply identical_equals. exact (same_text_identical_produced u v Wu Wv Fu Fv T).
Qed.

(* parsed objects are text faithful, so the theorem above covers part 1 *)
Lemma parsed_text_faithful s u : parse s = POk u -> text_faithful u = true.
Proof.
  intros H. destruct (parse_wf s u H) as (_ & _ & Hp & _).
  pose proof (parsed_host_ok s u H) as Hh.
  unfold text_faithful, rootless_leading_empty, lone_empty_hostless, ip4_name.
  rewrite (host_set_ok u Hh). unfold path_ok in Hp.
  destruct (hostText u) as [h|] eqn:Eh; cbn [is_some negb andb].
  - destruct (parse_host_kind s u h H Eh)
      as [(_ & E4 & [(_ & E6 & EF & _)|(_ & E6 & EF)])|(_ & E6 & EF & [(_ & E4)|(M & _ & E4)])];
      rewrite ?E4, ?E6, ?EF; try reflexivity.
    destruct (matchb Rfc3986.IPv4address h) eqn:Em; [|reflexivity].
    exfalso. apply M. apply matchb_spec. exact Em.
  - destruct (absolutePath u), (pathSegs u) as [|[|c r] [|x l]]; try reflexivity;
      destruct Hp as [Hp _]; exfalso; apply Hp; reflexivity.
Qed.

(* ---------------------------------------------------------------- the three exceptions are exact:
   an object that is not text faithful differs from the object read back from its own text *)

(* the text is a function of the meaning *)
Lemma host_wr_meaning u v : host_ok u -> host_ok v -> host_of u = host_of v ->
  match hostText u, hostText v with
  | Some h, Some h' => host_wr u h = host_wr v h'
  | None, None => True
  | _, _ => False
  end.
Proof.
  unfold host_ok, host_of, host_wr, host_written, is_lit. intros Hu Hv E.
  destruct (hostText u) as [hu|], (hostText v) as [hv|].
  - destruct Hu as [_ Hu], Hv as [_ Hv].
    destruct (ip4 u) as [ou|], (ip6 u) as [bu|], (ipFuture u) as [fu|]; try contradiction;
      destruct (ip4 v) as [ov|], (ip6 v) as [bv|], (ipFuture v) as [fv|]; try contradiction;
      cbn [is_some orb] in *; try discriminate E; injection E as <-; reflexivity.
  - destruct (ip6 u); discriminate E.
  - destruct (ip6 v); discriminate E.
  - exact I.
Qed.

Lemma same_meaning_to_text u v : host_ok u -> host_ok v -> same_meaning u v -> to_text u = to_text v.
Proof.
  intros Hu Hv (Es & Eu & Eh & Ep & Epath & Eq & Ef).
  rewrite (to_text_parts u Hu), (to_text_parts v Hv), Es, Epath, Eq, Ef. f_equal. f_equal.
  pose proof (host_wr_meaning u v Hu Hv Eh) as W. unfold auth_text.
  destruct (hostText u) as [h|], (hostText v) as [h'|]; try contradiction; [|reflexivity].
  rewrite Eu, Ep, W. reflexivity.
Qed.

Lemma identical_text_faithful u w : host_ok u -> host_ok w -> components_identical u w ->
  text_faithful u = text_faithful w.
Proof.
  intros Hu Hw [_ _ E4 E6 EF EH _ Ea Eg _ _].
  unfold text_faithful, rootless_leading_empty, lone_empty_hostless, ip4_name.
  rewrite (host_set_ok u Hu), (host_set_ok w Hw), <- Ea, <- Eg, <- E4, <- E6, <- EF.
  unfold host_ok, has_ip_data in *. rewrite <- E4, <- E6, <- EF in *.
  destruct (ip4 u) as [o|], (ip6 u) as [b|], (ipFuture u) as [f|]; cbn [is_some orb] in *;
    try (rewrite (EH eq_refl eq_refl); reflexivity);
    (destruct (hostText u) as [h|]; [|destruct Hu as (Hu1 & Hu2 & Hu3); discriminate]);
    (destruct (hostText w) as [h'|]; [|destruct Hw as (Hw1 & Hw2 & Hw3); discriminate]); reflexivity.
Qed.

Theorem not_faithful_unequal_reread u : produced_wf u -> text_faithful u = false ->
  exists w, parse (to_text u) = POk w /\ to_text w = to_text u /\ equals_uri (Some u) (Some w) = false.
Proof.
  intros W F. destruct (produced_reread u W) as (w & Pw & M). exists w.
  pose proof W as (_ & _ & Hu & _). pose proof (parsed_host_ok _ w Pw) as Hw.
  split; [exact Pw|]. split; [symmetry; exact (same_meaning_to_text u w Hu Hw M)|].
  destruct (equals_uri (Some u) (Some w)) eqn:E; [|reflexivity]. exfalso.
  apply (equal_iff_identical_produced u w W) in E.
  rewrite (identical_text_faithful u w Hu Hw E), (parsed_text_faithful _ w Pw) in F. discriminate F.
Qed.

(* for an object satisfying produced_wf: text faithful exactly when it is equal to every parsed
   object that has its text *)
Theorem text_faithful_exact u : produced_wf u ->
  (text_faithful u = true <->
   forall s v, parse s = POk v -> to_text v = to_text u -> equals_uri (Some u) (Some v) = true).
Proof.
  intros W. split.
  - intros F s v P T.
    apply (equal_iff_same_text_produced u v W (parsed_produced_wf s v P) F (parsed_text_faithful s v P)).
    symmetry. exact T.
  - intros H. destruct (text_faithful u) eqn:F; [reflexivity|]. exfalso.
    destruct (not_faithful_unequal_reread u W F) as (w & Pw & Tw & E).
    rewrite (H _ w Pw Tw) in E. discriminate E.
Qed.

(* ================================================================ 3. objects reachable through the library
   (histories of parse / resolve / create-reference / normalize / make-owner steps, Model/History.v;
   the side condition on normalization steps is the one of C07: outside the defect shape D7b) *)
Theorem equal_same_text_reachable ops i u v :
  normalize_steps_ok norm_outside_findings empty_store ops -> run empty_store ops i = Some u ->
  equals_uri (Some u) (Some v) = true -> to_text u = to_text v.
Proof. intros Hok Hu. exact (equal_same_text_produced u v (history_all_produced_wf ops Hok i u Hu)). Qed.

Theorem equal_iff_same_text_reachable ops ops' i j u v :
  normalize_steps_ok norm_outside_findings empty_store ops -> run empty_store ops i = Some u ->
  normalize_steps_ok norm_outside_findings empty_store ops' -> run empty_store ops' j = Some v ->
  text_faithful u = true -> text_faithful v = true ->
  (equals_uri (Some u) (Some v) = true <-> to_text u = to_text v).
Proof.
  intros Hok Hu Hok' Hv. apply equal_iff_same_text_produced.
  - exact (history_all_produced_wf ops Hok i u Hu).
  - exact (history_all_produced_wf ops' Hok' j v Hv).
Qed.

(* ================================================================ 4. reachable objects have no lone empty
   segment, so only two shapes are excluded for them *)
Section NoLoneEmpty.
  Import Model.Resolve Model.Shorten Model.Normalize.

  Lemma lone_set_owner o u : lone_empty_hostless (set_owner o u) = lone_empty_hostless u. Proof. reflexivity. Qed.
  Lemma lone_set_fragment f u : lone_empty_hostless (set_fragment f u) = lone_empty_hostless u. Proof. reflexivity. Qed.
  Lemma lone_set_query f u : lone_empty_hostless (set_query f u) = lone_empty_hostless u. Proof. reflexivity. Qed.
  Lemma lone_set_userInfo f u : lone_empty_hostless (set_userInfo f u) = lone_empty_hostless u. Proof. reflexivity. Qed.

  (* uriAddBaseUriExMm ends with uriFixEmptyTrailSegment: never, whatever the operands *)
  Lemma add_base_no_lone_empty compat rel base : lone_empty_hostless (snd (add_base compat rel base)) = false.
  Proof.
    unfold add_base, add_base_impl. destruct (scheme base); [|reflexivity]. cbv zeta. cbn [snd].
    rewrite lone_set_fragment. apply ShortenProofs.lone_fixtrail.
  Qed.

  (* uriNormalizeSyntaxExMm: the path step ends with uriFixEmptyTrailSegment, the others keep host and path *)
  Lemma normalize_no_lone_empty mask u : lone_empty_hostless u = false -> lone_empty_hostless (normalize mask u) = false.
  Proof.
    intros H. unfold normalize. destruct (mask =? 0); [exact H|]. cbv zeta. rewrite lone_set_owner.
    destruct (bit mask M_FRAGMENT); rewrite ?lone_set_fragment;
      (destruct (bit mask M_QUERY); rewrite ?lone_set_query);
      (destruct (bit mask M_PATH); [apply ShortenProofs.lone_fixtrail|]);
      (destruct (bit mask M_USER_INFO); rewrite ?lone_set_userInfo);
      destruct u as [sc ui ht i4 i6 ifu po ps qu fr ab ow];
      destruct (bit mask M_SCHEME), (bit mask M_HOST);
      cbn [scheme userInfo hostText ip4 ip6 ipFuture set_scheme];
      try exact H;
      destruct ifu as [f|]; try reflexivity; destruct ht as [h|], i4 as [o4|], i6 as [o6|]; first [exact H|reflexivity].
  Qed.

  Lemma make_owner_no_lone_empty u : lone_empty_hostless (make_owner u) = lone_empty_hostless u.
  Proof. reflexivity. Qed.

  Definition all_not_lone (st : store) : Prop := forall i u, st i = Some u -> lone_empty_hostless u = false.

  Lemma all_not_lone_put st i o : all_not_lone st -> (forall u, o = Some u -> lone_empty_hostless u = false) ->
    all_not_lone (put st i o).
  Proof.
    intros Hst Ho j u Hj. unfold put in Hj. destruct (Nat.eqb j i); [apply Ho; exact Hj|apply (Hst j); exact Hj].
  Qed.

  Lemma step_not_lone st op : all_not_lone st -> all_not_lone (run_step st op).
  Proof.
    intros Hst. destruct op as [i s|d r b compat|d s b dr|i mask|i|i]; cbn [run_step].
    - apply all_not_lone_put; [exact Hst|]. intros u Hu. destruct (parse s) as [u'|pos] eqn:Ep; [|discriminate Hu].
      injection Hu as Hu. subst u'. exact (proj1 (proj2 (text_faithful_split u (parsed_text_faithful s u Ep)))).
    - destruct (st r) as [ur|]; [|exact Hst]. destruct (st b) as [ub|]; [|exact Hst].
      apply all_not_lone_put; [exact Hst|]. intros u Hu. apply RereadResolve.on_success_inv in Hu.
      pose proof (add_base_no_lone_empty compat ur ub) as K. rewrite Hu in K. exact K.
    - destruct (st s) as [us|] eqn:Es; [|exact Hst]. destruct (st b) as [ub|]; [|exact Hst].
      apply all_not_lone_put; [exact Hst|]. intros u Hu. apply RereadResolve.on_success_inv in Hu.
      pose proof (ShortenProofs.remove_base_no_lone_empty dr us ub (Hst s us Es)) as K. rewrite Hu in K. exact K.
    - destruct (st i) as [u0|] eqn:Ei; [|exact Hst].
      apply all_not_lone_put; [exact Hst|]. intros u Hu. injection Hu as Hu. subst u.
      apply normalize_no_lone_empty. exact (Hst i u0 Ei).
    - destruct (st i) as [u0|] eqn:Ei; [|exact Hst].
      apply all_not_lone_put; [exact Hst|]. intros u Hu. injection Hu as Hu. subst u.
      rewrite make_owner_no_lone_empty. exact (Hst i u0 Ei).
    - apply all_not_lone_put; [exact Hst|]. intros u Hu. discriminate Hu.
  Qed.

  Lemma run_not_lone ops : forall st, all_not_lone st -> all_not_lone (run st ops).
  Proof.
    induction ops as [|op r IH]; intros st Hst; [exact Hst|].
    unfold run. cbn [fold_left]. apply IH. apply step_not_lone. exact Hst.
  Qed.
End NoLoneEmpty.

(* every object in the store after any history of parse, resolve, create-reference, normalize,
   make-owner and free steps: never host-less with the single empty segment as path.  No side
   condition on the history *)
Theorem history_no_lone_empty ops i u : run empty_store ops i = Some u -> lone_empty_hostless u = false.
Proof.
  intros Hu. apply (run_not_lone ops empty_store) with (i := i); [|exact Hu]. intros j v Hj. discriminate Hj.
Qed.

(* the two shapes left for reachable objects *)
Definition text_faithful_reachable (u : uri) : bool := negb (rootless_leading_empty u) && negb (ip4_name u).

Lemma reachable_text_faithful ops i u : run empty_store ops i = Some u ->
  text_faithful u = text_faithful_reachable u.
Proof.
  intros Hu. unfold text_faithful, text_faithful_reachable. rewrite (history_no_lone_empty ops i u Hu).
  cbn [negb]. rewrite andb_true_r. reflexivity.
Qed.

Theorem equal_iff_same_text_reachable_two ops ops' i j u v :
  normalize_steps_ok norm_outside_findings empty_store ops -> run empty_store ops i = Some u ->
  normalize_steps_ok norm_outside_findings empty_store ops' -> run empty_store ops' j = Some v ->
  text_faithful_reachable u = true -> text_faithful_reachable v = true ->
  (equals_uri (Some u) (Some v) = true <-> to_text u = to_text v).
Proof.
  intros Hok Hu Hok' Hv Fu Fv. apply (equal_iff_same_text_reachable ops ops' i j u v Hok Hu Hok' Hv).
  - rewrite (reachable_text_faithful ops i u Hu). exact Fu.
  - rewrite (reachable_text_faithful ops' j v Hv). exact Fv.
Qed.

(* ... and exactly these two: a reachable object is equal to every parsed object with its text iff it has
   neither shape *)
Theorem reachable_faithful_exact ops i u :
  normalize_steps_ok norm_outside_findings empty_store ops -> run empty_store ops i = Some u ->
  (text_faithful_reachable u = true <->
   forall s v, parse s = POk v -> to_text v = to_text u -> equals_uri (Some u) (Some v) = true).
Proof.
  intros Hok Hu. rewrite <- (reachable_text_faithful ops i u Hu).
  exact (text_faithful_exact u (history_all_produced_wf ops Hok i u Hu)).
Qed.
