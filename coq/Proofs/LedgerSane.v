(* [sane] (no present-but-empty scheme or IPvFuture text) is kept by uriMakeOwnerMm and uriNormalizeSyntaxExMm,
   whatever they return, so that the ledger theorems chain over arbitrary histories. *)
From Coq Require Import List NArith Bool Arith Lia.
From UP Require Import Base.Chars Model.Uri Model.Common Model.Compare Model.Resolve Model.Shorten Model.Normalize Model.Mem Model.ParseM Model.OpsM
  Proofs.LedgerProofs Proofs.LedgerOps Proofs.LedgerNormalize Proofs.LedgerTheorems Proofs.LedgerTransparent.
Import ListNotations.

Definition ne_or_none (o : option text) : bool := match o with Some [] => false | _ => true end.
(* m' is at least as sane as m *)
Definition keeps (m m' : muri) : Prop :=
  (ne_or_none (t_val (m_scheme m)) = true -> ne_or_none (t_val (m_scheme m')) = true)
  /\ (ne_or_none (t_val (m_ipFuture m)) = true -> ne_or_none (t_val (m_ipFuture m')) = true).

Lemma sane_iff m : sane m <-> (ne_or_none (t_val (m_scheme m)) = true /\ ne_or_none (t_val (m_ipFuture m)) = true).
Proof.
  unfold sane, ne_or_none. destruct (t_val (m_scheme m)) as [[|? ?]|], (t_val (m_ipFuture m)) as [[|? ?]|];
    split; intros [a b]; split; try reflexivity; try discriminate; try (exfalso; apply a; reflexivity); try (exfalso; apply b; reflexivity).
Qed.
Lemma keeps_sane m m' : keeps m m' -> sane m -> sane m'.
Proof. rewrite !sane_iff. intros [a b] [c d]. auto. Qed.
Lemma keeps_refl m : keeps m m.
Proof. split; auto. Qed.
Lemma keeps_trans m1 m2 m3 : keeps m1 m2 -> keeps m2 m3 -> keeps m1 m3.
Proof. intros [a b] [c d]. split; auto. Qed.
Lemma keeps_same m m' : t_val (m_scheme m') = t_val (m_scheme m) -> t_val (m_ipFuture m') = t_val (m_ipFuture m) -> keeps m m'.
Proof. intros a b. split; rewrite ?a, ?b; auto. Qed.

Ltac msimpl ::=
  cbn [m_scheme m_userInfo m_hostText m_ip4 m_ip6 m_ipFuture m_portText m_segs m_query m_fragment m_abs m_owner
       set_m_scheme set_m_userInfo set_m_hostText set_m_ip4 set_m_ip6 set_m_ipFuture set_m_portText
       set_m_segs set_m_query set_m_fragment set_m_abs set_m_owner] in *.

Section WithCsize.
Variable csize : N.

Lemma dup_text_val t s t' s' : dup_text csize t s = (Some t', s') -> t_val t' = t_val t.
Proof.
  unfold dup_text. destruct (t_val t) as [[|c r]|] eqn:E; try (intros H; injection H as <- _; exact E).
  destruct (alloc false _ s) as [[id|] s1]; [|discriminate]. intros H; injection H as <- _. reflexivity.
Qed.
Lemma range_owner_val done b t s t' d' s' : range_owner csize done b t s = (Some (t', d'), s') -> t_val t' = t_val t.
Proof.
  unfold range_owner. destruct (negb (N.land done b =? 0)%N); [intros H; injection H as <- _ _; reflexivity|].
  destruct (t_val t) as [[|c r]|] eqn:E; try (intros H; injection H as <- _ _; exact E).
  destruct (dup_text csize t s) as [[t1|] s1] eqn:ED; [|discriminate]. intros H; injection H as <- _ _.
  rewrite (dup_text_val _ _ _ _ ED). exact E.
Qed.

Lemma host_step_vals m done s : match host_step_of csize m done s with
  | (Some (m', _), _) => t_val (m_scheme m') = t_val (m_scheme m) /\ t_val (m_ipFuture m') = t_val (m_ipFuture m)
  | (None, _) => True end.
Proof.
  unfold host_step_of. destruct (bitb done B_HOST); [auto|]. destruct (t_val (m_ipFuture m)) eqn:EF.
  - destruct (range_owner csize done B_HOST (m_ipFuture m) s) as [[[t' d']|] s1] eqn:ER; [|exact I].
    msimpl. split; [reflexivity|]. rewrite (range_owner_val _ _ _ _ _ _ _ ER). exact EF.
  - destruct (t_val (m_hostText m)); [|rewrite EF; auto].
    destruct (range_owner csize done B_HOST (m_hostText m) s) as [[[t' d']|] s1]; [|exact I]. msimpl. rewrite EF. auto.
Qed.
Lemma path_step_vals m done s : match path_step_of csize m done s with
  | (Some (m', _), _) => t_val (m_scheme m') = t_val (m_scheme m) /\ t_val (m_ipFuture m') = t_val (m_ipFuture m)
  | (None, _) => True end.
Proof.
  unfold path_step_of. destruct (bitb done B_PATH); [auto|].
  destruct (own_segs csize [] (m_segs m) s) as [[segs|] s1]; [|exact I]. msimpl. auto.
Qed.

Lemma make_owner_engine_vals m done s : let m' := snd (fst (fst (make_owner_engine csize m done s))) in
  t_val (m_scheme m') = t_val (m_scheme m) /\ t_val (m_ipFuture m') = t_val (m_ipFuture m).
Proof.
  cbv zeta. rewrite make_owner_engine_eq.
  destruct (range_owner csize done B_SCHEME (m_scheme m) s) as [[[t1 d1]|] s1] eqn:E1; [|cbn [fst snd]; auto]. cbv zeta.
  pose proof (range_owner_val _ _ _ _ _ _ _ E1) as V1.
  destruct (range_owner csize d1 B_USER _ s1) as [[[t2 d2]|] s2]; [|cbn [fst snd]; msimpl; auto].
  destruct (range_owner csize d2 B_QUERY _ s2) as [[[t3 d3]|] s3]; [|cbn [fst snd]; msimpl; auto].
  destruct (range_owner csize d3 B_FRAG _ s3) as [[[t4 d4]|] s4]; [|cbn [fst snd]; msimpl; auto].
  match goal with |- context [host_step_of csize ?mm d4 s4] => pose proof (host_step_vals mm d4 s4) as H5;
    destruct (host_step_of csize mm d4 s4) as [[[m5 d5]|] s5]; [|cbn [fst snd]; msimpl; auto] end.
  pose proof (path_step_vals m5 d5 s5) as H6. destruct (path_step_of csize m5 d5 s5) as [[[m6 d6]|] s6].
  - destruct (dup_text csize (m_portText m6) s6) as [[t7|] s7]; cbn [fst snd]; msimpl; destruct H5 as [a b], H6 as [c d]; msimpl; split; congruence.
  - cbn [fst snd]. msimpl. destruct H5 as [a b]. msimpl. split; congruence.
Qed.

Lemma prevent_leakage_keeps m done s : keeps m (fst (prevent_leakage m done s)).
Proof.
  rewrite prevent_leakage_stages.
  assert (K1 : forall b ms, keeps (fst ms) (fst (pl_scheme b ms))) by (intros [|] [m' s']; split; cbn; auto).
  assert (K2 : forall b ms, keeps (fst ms) (fst (pl_user b ms))) by (intros [|] [m' s']; apply keeps_same; reflexivity).
  assert (K3 : forall b ms, keeps (fst ms) (fst (pl_host b ms))).
  { intros [|] [m' s']; [|apply keeps_refl]. unfold pl_host. destruct (t_val (m_ipFuture m')) eqn:EF.
    - split; cbn; auto.
    - destruct (t_val (m_hostText m')); [|apply keeps_refl]. cbn [fst]. apply keeps_same; reflexivity. }
  assert (K4 : forall b ms, keeps (fst ms) (fst (pl_path b ms))) by (intros [|] [m' s']; apply keeps_same; reflexivity).
  assert (K5 : forall b ms, keeps (fst ms) (fst (pl_query b ms))) by (intros [|] [m' s']; apply keeps_same; reflexivity).
  assert (K6 : forall b ms, keeps (fst ms) (fst (pl_frag b ms))) by (intros [|] [m' s']; apply keeps_same; reflexivity).
  eapply keeps_trans; [|apply K6]. eapply keeps_trans; [|apply K5]. eapply keeps_trans; [|apply K4].
  eapply keeps_trans; [|apply K3]. eapply keeps_trans; [|apply K2]. apply (K1 _ (m, s)).
Qed.

Theorem make_owner_m_keeps m s : keeps m (snd (fst (make_owner_m csize m s))).
Proof.
  unfold make_owner_m. destruct (m_owner m); [apply keeps_refl|].
  pose proof (make_owner_engine_vals m 0%N s) as V. cbv zeta in V.
  destruct (make_owner_engine csize m 0 s) as [[[[|] m'] d'] s1]; cbn [fst snd] in *.
  - apply keeps_same; msimpl; apply V.
  - pose proof (prevent_leakage_keeps m' d' s1) as K. destruct (prevent_leakage m' d' s1) as [m'' s2]. cbn [fst snd] in *.
    eapply keeps_trans; [|exact K]. apply keeps_same; apply V.
Qed.

Lemma ne_lowercase x : ne_or_none (Some (lowercase x)) = ne_or_none (Some x).
Proof. destruct x; reflexivity. Qed.

Lemma norm_text_keeps o t s t' s' : norm_text csize o lowercase t s = (Some t', s') ->
  ne_or_none (t_val t) = true -> ne_or_none (t_val t') = true.
Proof.
  unfold norm_text. destruct (t_val t) as [x|] eqn:E; [|intros H; injection H as <- _; rewrite E; auto].
  destruct o; [intros H; injection H as <- _; cbn [t_val]; rewrite ne_lowercase; auto|].
  destruct x as [|c r]; [intros H; injection H as <- _; rewrite E; auto|].
  destruct (alloc false _ s) as [[id|] s1]; [|discriminate]. intros H; injection H as <- _. reflexivity.
Qed.

Lemma n_scheme_keeps mask o m done s : match n_scheme csize mask o m done s with
  | (Some (m', _), _) => keeps m m' | (None, _) => True end.
Proof.
  unfold n_scheme. destruct (bit mask M_SCHEME && is_some (t_val (m_scheme m))); [|apply keeps_refl].
  destruct (norm_text csize o lowercase (m_scheme m) s) as [[t'|] s1] eqn:EN; [|exact I].
  split; msimpl; [exact (norm_text_keeps _ _ _ _ _ EN)|auto].
Qed.
Lemma n_host_keeps mask o m done s : match n_host csize mask o m done s with
  | (Some (m', _), _) => keeps m m' | (None, _) => True end.
Proof.
  unfold n_host. destruct (bit mask M_HOST); [|apply keeps_refl]. destruct (t_val (m_ipFuture m)) eqn:EF.
  - destruct (norm_text csize o lowercase (m_ipFuture m) s) as [[t'|] s1] eqn:EN; [|exact I].
    split; msimpl; [auto|]. exact (norm_text_keeps _ _ _ _ _ EN).
  - destruct (t_val (m_hostText m)); [|apply keeps_refl]. destruct (m_ip4 m); [apply keeps_refl|]. destruct (m_ip6 m); [apply keeps_refl|].
    destruct (norm_text csize o _ (m_hostText m) s) as [[t'|] s1]; [|exact I]. apply keeps_same; reflexivity.
Qed.
Lemma n_user_keeps mask o m done s : match n_user csize mask o m done s with
  | (Some (m', _), _) => keeps m m' | (None, _) => True end.
Proof.
  unfold n_user. destruct (bit mask M_USER_INFO && is_some (t_val (m_userInfo m))); [|apply keeps_refl].
  destruct (norm_text csize o fix_pct (m_userInfo m) s) as [[t'|] s1]; [|exact I]. apply keeps_same; reflexivity.
Qed.
Lemma n_query_keeps mask o m done s : match n_query csize mask o m done s with
  | (Some (m', _), _) => keeps m m' | (None, _) => True end.
Proof.
  unfold n_query. destruct (bit mask M_QUERY && is_some (t_val (m_query m))); [|apply keeps_refl].
  destruct (norm_text csize o fix_pct (m_query m) s) as [[t'|] s1]; [|exact I]. apply keeps_same; reflexivity.
Qed.
Lemma n_frag_keeps mask o m done s : match n_frag csize mask o m done s with
  | (Some (m', _), _) => keeps m m' | (None, _) => True end.
Proof.
  unfold n_frag. destruct (bit mask M_FRAGMENT && is_some (t_val (m_fragment m))); [|apply keeps_refl].
  destruct (norm_text csize o fix_pct (m_fragment m) s) as [[t'|] s1]; [|exact I]. apply keeps_same; reflexivity.
Qed.

Lemma rds_vals relative owned m s : let m' := snd (fst (remove_dot_segments_m relative owned m s)) in
  m_scheme m' = m_scheme m /\ m_ipFuture m' = m_ipFuture m.
Proof.
  cbv zeta. unfold remove_dot_segments_m. destruct (m_segs m); [auto|].
  destruct (rds_walk_m _ _ _ _ _ _ s) as [[ok segs] s1]. auto.
Qed.
Lemma fet_vals m s : let m' := fst (fix_empty_trail_m m s) in m_scheme m' = m_scheme m /\ m_ipFuture m' = m_ipFuture m.
Proof.
  cbv zeta. unfold fix_empty_trail_m. destruct (negb (m_host_set m)); [|auto].
  destruct (m_segs m) as [|sg [|? ?]]; auto. destruct (sg_text sg); auto.
Qed.

Lemma fao_vals m s : let m' := snd (fst (fix_ambiguity_owned_m csize m s)) in m_scheme m' = m_scheme m /\ m_ipFuture m' = m_ipFuture m.
Proof.
  cbv zeta. unfold fix_ambiguity_owned_m. destruct (match m_abs m with true => _ | false => _ end); [|auto].
  destruct (alloc false SEG_SIZE s) as [[id|] s1]; [|auto].
  destruct (alloc false _ s1) as [[b|] s2]; auto.
Qed.

Lemma n_path_keeps mask o m done s : match n_path csize mask o m done s with
  | (Some (m', _), _, _, _) => keeps m m' | (None, mf, _, _) => keeps m mf end.
Proof.
  unfold n_path. destruct (bit mask M_PATH); [|apply keeps_refl]. cbv zeta.
  set (relative := negb (is_some (t_val (m_scheme m))) && negb (m_abs m) && negb (m_host_set m)). clearbody relative.
  assert (Tail : forall m1 (done1 : N) owned s1, m_scheme m1 = m_scheme m -> m_ipFuture m1 = m_ipFuture m ->
            match (let '(ok, m2, s2) := remove_dot_segments_m relative owned m1 s1 in
                   if ok then
                     let '(ok', m2', s2') := fix_ambiguity_owned_m csize m2 s2 in
                     if ok' then let '(m3, s3) := fix_empty_trail_m m2' s2' in (Some (m3, done1), m3, done1, s3)
                     else (@None (muri * N), m2', done1, s2')
                   else (@None (muri * N), m2, done1, s2)) with
            | (Some (m', _), _, _, _) => keeps m m' | (None, mf, _, _) => keeps m mf end).
  { intros m1 done1 owned s1 e1 e2. pose proof (rds_vals relative owned m1 s1) as V. cbv zeta in V.
    destruct (remove_dot_segments_m relative owned m1 s1) as [[[|] m2] s2]; cbn [fst snd] in V.
    - pose proof (fao_vals m2 s2) as Va. cbv zeta in Va.
      destruct (fix_ambiguity_owned_m csize m2 s2) as [[[|] m2'] s2']; cbn [fst snd] in Va.
      + pose proof (fet_vals m2' s2') as V2. cbv zeta in V2. destruct (fix_empty_trail_m m2' s2') as [m3 s3]. cbn [fst] in V2.
        destruct V as [a b], Va as [a' b'], V2 as [c d]. apply keeps_same; congruence.
      + destruct V as [a b], Va as [a' b']. apply keeps_same; congruence.
    - destruct V as [a b]. apply keeps_same; congruence. }
  destruct o; [apply Tail; reflexivity|].
  destruct (norm_segs_malloc csize [] (m_segs m) s) as [[[|] segs] s1]; [apply Tail; reflexivity|]. apply keeps_same; reflexivity.
Qed.

Theorem normalize_m_keeps mask m s : keeps m (snd (fst (normalize_m csize mask m s))).
Proof.
  rewrite normalize_m_eq. destruct (mask =? 0)%N; [apply keeps_refl|]. cbv zeta. set (o := m_owner m). clearbody o.
  assert (F : forall m0 mf df sf, keeps m0 mf -> keeps m0 (snd (fst (n_fail mf df sf)))).
  { intros m0 mf df sf K. unfold n_fail. pose proof (prevent_leakage_keeps mf df sf) as K2.
    destruct (prevent_leakage mf df sf) as [m' s']. cbn [fst snd] in *. eapply keeps_trans; eauto. }
  pose proof (n_scheme_keeps mask o m 0%N s) as K1. destruct (n_scheme csize mask o m 0 s) as [[[m1 d1]|] s1]; [|apply F; apply keeps_refl].
  pose proof (n_host_keeps mask o m1 d1 s1) as K2. destruct (n_host csize mask o m1 d1 s1) as [[[m2 d2]|] s2]; [|apply F; exact K1].
  pose proof (keeps_trans _ _ _ K1 K2) as K12.
  pose proof (n_user_keeps mask o m2 d2 s2) as K3. destruct (n_user csize mask o m2 d2 s2) as [[[m3 d3]|] s3]; [|apply F; exact K12].
  pose proof (keeps_trans _ _ _ K12 K3) as K13.
  pose proof (n_path_keeps mask o m3 d3 s3) as K4. destruct (n_path csize mask o m3 d3 s3) as [[[[[m4 d4]|] mf4] df4] s4];
    [|apply F; eapply keeps_trans; eauto].
  pose proof (keeps_trans _ _ _ K13 K4) as K14.
  pose proof (n_query_keeps mask o m4 d4 s4) as K5. destruct (n_query csize mask o m4 d4 s4) as [[[m5 d5]|] s5]; [|apply F; exact K14].
  pose proof (keeps_trans _ _ _ K14 K5) as K15.
  pose proof (n_frag_keeps mask o m5 d5 s5) as K6. destruct (n_frag csize mask o m5 d5 s5) as [[[m6 d6]|] s6]; [|apply F; exact K15].
  pose proof (keeps_trans _ _ _ K15 K6) as K16.
  destruct o; [exact K16|].
  pose proof (make_owner_engine_vals m6 d6 s6) as V. cbv zeta in V.
  destruct (make_owner_engine csize m6 d6 s6) as [[[[|] m7] d7] s7]; cbn [fst snd] in *.
  - eapply keeps_trans; [exact K16|]. apply keeps_same; msimpl; apply V.
  - apply F. eapply keeps_trans; [exact K16|]. apply keeps_same; apply V.
Qed.

Theorem normalize_m_sane mask m s : sane m -> sane (snd (fst (normalize_m csize mask m s))).
Proof. apply keeps_sane. apply normalize_m_keeps. Qed.
Theorem make_owner_m_sane m s : sane m -> sane (snd (fst (make_owner_m csize m s))).
Proof. apply keeps_sane. apply make_owner_m_keeps. Qed.

End WithCsize.

(* ---------------------------------------------------------------- destinations of uriAddBaseUri / uriRemoveBaseUri *)
(* scheme and IPvFuture text of the destination are absent or borrowed from one of the two arguments *)
Definition okv (a b v : option text) : Prop := v = None \/ v = a \/ v = b.
Definition from2 (x y d : muri) : Prop :=
  okv (t_val (m_scheme x)) (t_val (m_scheme y)) (t_val (m_scheme d))
  /\ okv (t_val (m_ipFuture x)) (t_val (m_ipFuture y)) (t_val (m_ipFuture d)).

Lemma from2_sane x y d : sane x -> sane y -> from2 x y d -> sane d.
Proof.
  unfold sane, from2, okv. intros [a b] [c e] [[H|[H|H]] [G|[G|G]]]; rewrite H, G; split; auto; discriminate.
Qed.
Lemma from2_same x y d d' : m_scheme d' = m_scheme d -> m_ipFuture d' = m_ipFuture d -> from2 x y d -> from2 x y d'.
Proof. unfold from2. intros -> ->. auto. Qed.
Lemma from2_empty x y : from2 x y muri_empty.
Proof. split; left; reflexivity. Qed.

Lemma copy_path_m_sf d src s : let d' := snd (fst (copy_path_m d src s)) in m_scheme d' = m_scheme d /\ m_ipFuture d' = m_ipFuture d.
Proof. cbv zeta. unfold copy_path_m. destruct (copy_segs [] (m_segs src) s) as [[[|] segs] s1]; cbn [fst snd]; auto. Qed.
Lemma fix_ambiguity_m_sf d s : let d' := snd (fst (fix_ambiguity_m d s)) in m_scheme d' = m_scheme d /\ m_ipFuture d' = m_ipFuture d.
Proof.
  cbv zeta. unfold fix_ambiguity_m. destruct (match m_abs d with true => _ | false => _ end); [|auto].
  destruct (alloc false SEG_SIZE s) as [[id|] s1]; cbn [fst snd]; auto.
Qed.
Lemma merge_path_m_sf d rel s : let d' := snd (fst (merge_path_m d rel s)) in m_scheme d' = m_scheme d /\ m_ipFuture d' = m_ipFuture d.
Proof.
  cbv zeta. unfold merge_path_m. destruct (m_segs rel); [auto|]. destruct (m_segs d).
  - destruct (alloc false SEG_SIZE s) as [[id|] s1]; [|auto]. destruct (copy_segs [] _ s1) as [[ok more] s2]. auto.
  - destruct (copy_segs [] _ s) as [[ok more] s2]. auto.
Qed.
Lemma resolve_abs_flag_m_sf d s : match fst (resolve_abs_flag_m d s) with
  | Some d' => m_scheme d' = m_scheme d /\ m_ipFuture d' = m_ipFuture d | None => True end.
Proof.
  unfold resolve_abs_flag_m. destruct (m_host_set d && m_abs d); [|cbn; auto]. destruct (m_segs d); [|cbn; auto].
  destruct (alloc false SEG_SIZE s) as [[id|] s1]; cbn; auto.
Qed.
Lemma copy_authority_m_from d src s : let d' := snd (fst (copy_authority_m d src s)) in
  m_scheme d' = m_scheme d
  /\ (t_val (m_ipFuture d') = None \/ t_val (m_ipFuture d') = t_val (m_ipFuture src) \/ m_ipFuture d' = m_ipFuture d).
Proof.
  cbv zeta. unfold copy_authority_m. destruct (m_ip4 src) as [[v b]|].
  - destruct (alloc false IP4_SIZE s) as [[id|] s1]; cbn [fst snd]; msimpl; auto.
  - destruct (m_ip6 src) as [[v b]|].
    + destruct (alloc false IP6_SIZE s) as [[id|] s1]; cbn [fst snd]; msimpl; auto.
    + cbn [fst snd]. msimpl. auto.
Qed.

Lemma from2_copy_authority x y d src s : (src = x \/ src = y) -> from2 x y d -> from2 x y (snd (fst (copy_authority_m d src s))).
Proof.
  intros Hs [a b]. pose proof (copy_authority_m_from d src s) as [e f]. cbv zeta in *. split; [rewrite e; exact a|].
  destruct f as [f|[f|f]]; [left; exact f| |rewrite f; exact b].
  rewrite f. destruct Hs as [->| ->]; [right; left|right; right]; reflexivity.
Qed.

Lemma ab_finish_from x y rel d s : from2 x y d -> from2 x y (snd (fst (ab_finish rel d s))).
Proof.
  intros F. unfold ab_finish. pose proof (fet_vals d s) as V. cbv zeta in V. destruct (fix_empty_trail_m d s) as [d1 s1].
  cbn [fst snd] in *. destruct V as [a b]. apply (from2_same x y d); msimpl; auto.
Qed.

Lemma from2_scheme x y d t : (t = m_scheme x \/ t = m_scheme y) -> from2 x y d -> from2 x y (set_m_scheme (borrow t) d).
Proof. intros H [a b]. split; msimpl; [|exact b]. cbn [borrow t_val]. destruct H as [->| ->]; [right; left|right; right]; reflexivity. Qed.
Lemma from2_query x y d t : from2 x y d -> from2 x y (set_m_query t d).
Proof. intros [a b]. split; msimpl; assumption. Qed.

Lemma ab_tail_from rel base d s : from2 rel base d -> from2 rel base (snd (fst (ab_tail rel base d s))).
Proof.
  intros F. unfold ab_tail. pose proof (rds_vals false (m_owner d) d s) as V3. cbv zeta in V3.
  destruct (remove_dot_segments_m false (m_owner d) d s) as [[[|] d3] s3]; cbn [negb fst snd] in *; cbv beta iota;
    [|apply (from2_same _ _ d); tauto].
  pose proof (fix_ambiguity_m_sf d3 s3) as V4. cbv zeta in V4.
  destruct (fix_ambiguity_m d3 s3) as [[[|] d4] s4]; cbn [negb fst snd] in *; cbv beta iota.
  - apply ab_finish_from. apply from2_scheme; [auto|]. apply from2_query. apply (from2_same _ _ d); [| |exact F]; destruct V3, V4; congruence.
  - apply (from2_same _ _ d); [| |exact F]; destruct V3, V4; congruence.
Qed.
Lemma ab_abs_from rel base d s : from2 rel base d -> from2 rel base (snd (fst (ab_abs rel base d s))).
Proof.
  intros F. unfold ab_abs. pose proof (copy_path_m_sf d rel s) as V2. cbv zeta in V2.
  destruct (copy_path_m d rel s) as [[[|] d2] s2]; cbn [negb fst snd] in *; cbv beta iota; [|apply (from2_same _ _ d); tauto].
  pose proof (resolve_abs_flag_m_sf d2 s2) as V2b. destruct (resolve_abs_flag_m d2 s2) as [[d2b|] s2b]; cbn [fst snd] in *.
  - apply ab_tail_from. apply (from2_same _ _ d); [| |exact F]; destruct V2, V2b; congruence.
  - apply (from2_same _ _ d); tauto.
Qed.
Lemma ab_merge_from rel base d s : from2 rel base d -> from2 rel base (snd (fst (ab_merge rel base d s))).
Proof.
  intros F. unfold ab_merge. pose proof (copy_path_m_sf d base s) as V2. cbv zeta in V2.
  destruct (copy_path_m d base s) as [[[|] d2] s2]; cbn [negb fst snd] in *; cbv beta iota; [|apply (from2_same _ _ d); tauto].
  pose proof (merge_path_m_sf d2 rel s2) as V2b. cbv zeta in V2b.
  destruct (merge_path_m d2 rel s2) as [[[|] d2b] s2b]; cbn [negb fst snd] in *; cbv beta iota.
  - apply ab_tail_from. apply (from2_same _ _ d); [| |exact F]; destruct V2, V2b; congruence.
  - apply (from2_same _ _ d); [| |exact F]; destruct V2, V2b; congruence.
Qed.
Lemma ab_take_from rel base src d s : (src = rel \/ src = base) -> from2 rel base d -> from2 rel base (snd (fst (ab_take rel src d s))).
Proof.
  intros Hs F. unfold ab_take. pose proof (from2_copy_authority rel base d src s Hs F) as F1.
  destruct (copy_authority_m d src s) as [[[|] d1] s1]; cbn [negb fst snd] in *; cbv beta iota; [|exact F1].
  pose proof (copy_path_m_sf d1 src s1) as V2. cbv zeta in V2.
  destruct (copy_path_m d1 src s1) as [[[|] d2] s2]; cbn [negb fst snd] in *; cbv beta iota; [|apply (from2_same _ _ d1); tauto].
  pose proof (rds_vals false (m_owner d2) d2 s2) as V3. cbv zeta in V3.
  destruct (remove_dot_segments_m false (m_owner d2) d2 s2) as [[[|] d3] s3]; cbn [negb fst snd] in *; cbv beta iota;
    [|apply (from2_same _ _ d1); [| |exact F1]; destruct V2, V3; congruence].
  pose proof (fix_ambiguity_m_sf d3 s3) as V4. cbv zeta in V4.
  destruct (fix_ambiguity_m d3 s3) as [[[|] d4] s4]; cbn [negb fst snd] in *; cbv beta iota.
  - apply ab_finish_from. apply from2_query. apply (from2_same _ _ d1); [| |exact F1]; destruct V2, V3, V4; congruence.
  - apply (from2_same _ _ d1); [| |exact F1]; destruct V2, V3, V4; congruence.
Qed.

Lemma add_base_impl_m_from compat rel base s : from2 rel base (snd (fst (add_base_impl_m compat rel base s))).
Proof.
  rewrite add_base_impl_m_eq. destruct (t_val (m_scheme base)) as [tb|]; [|apply from2_empty].
  destruct (is_some (t_val (m_scheme rel)) && negb (compat && range_eqb (Some tb) (t_val (m_scheme rel)))).
  - match goal with |- context [ab_take rel rel ?d s] => pose proof (ab_take_from rel base rel d s (or_introl eq_refl)) as K;
      destruct (ab_take rel rel d s) as [[? ?] ?] end. cbn [fst snd] in *. apply K. apply from2_scheme; [auto|apply from2_empty].
  - destruct (m_host_set rel).
    + pose proof (from2_copy_authority rel base muri_empty rel s (or_introl eq_refl) (from2_empty _ _)) as F1.
      destruct (copy_authority_m muri_empty rel s) as [[[|] d1] s1]; cbn [negb fst snd] in *; cbv beta iota; [|exact F1].
      pose proof (copy_path_m_sf d1 rel s1) as V2. cbv zeta in V2.
      destruct (copy_path_m d1 rel s1) as [[[|] d2] s2]; cbn [negb fst snd] in *; cbv beta iota; [|apply (from2_same _ _ d1); tauto].
      pose proof (rds_vals false (m_owner d2) d2 s2) as V3. cbv zeta in V3.
      destruct (remove_dot_segments_m false (m_owner d2) d2 s2) as [[[|] d3] s3]; cbn [negb fst snd] in *; cbv beta iota;
        [|apply (from2_same _ _ d1); [| |exact F1]; destruct V2, V3; congruence].
      apply ab_finish_from. apply from2_scheme; [auto|]. apply from2_query.
      apply (from2_same _ _ d1); [| |exact F1]; destruct V2, V3; congruence.
    + pose proof (from2_copy_authority rel base muri_empty base s (or_intror eq_refl) (from2_empty _ _)) as F1.
      destruct (copy_authority_m muri_empty base s) as [[[|] d1] s1]; cbn [negb fst snd] in *; cbv beta iota; [|exact F1].
      destruct (m_segs rel) as [|r1 rr]; destruct (m_abs rel).
      * apply ab_abs_from; exact F1.
      * pose proof (copy_path_m_sf d1 base s1) as V2. cbv zeta in V2.
        destruct (copy_path_m d1 base s1) as [[[|] d2] s2]; cbn [negb fst snd] in *; cbv beta iota; [|apply (from2_same _ _ d1); tauto].
        apply ab_finish_from. apply from2_scheme; [auto|]. apply from2_query. apply (from2_same _ _ d1); tauto.
      * apply ab_abs_from; exact F1.
      * apply ab_merge_from; exact F1.
Qed.

Lemma free_members_from x y d s : from2 x y d -> from2 x y (fst (free_members d s)).
Proof.
  intros [a b]. unfold free_members. cbn [fst]. destruct (m_owner d); split; msimpl; try (left; reflexivity); assumption.
Qed.

Theorem add_base_m_sane compat rel base s : sane rel -> sane base -> sane (snd (fst (add_base_m compat rel base s))).
Proof.
  intros Sr Sb. apply (from2_sane rel base); auto. unfold add_base_m.
  pose proof (add_base_impl_m_from compat rel base s) as F. destruct (add_base_impl_m compat rel base s) as [[rc d] s1].
  cbn [fst snd] in F. destruct (rc =? 0)%N; [exact F|].
  pose proof (free_members_from rel base d s1 F) as F2. destruct (free_members d s1) as [d' s2]. exact F2.
Qed.

Lemma remove_base_impl_m_from dr src base s : from2 src base (snd (fst (remove_base_impl_m dr src base s))).
Proof.
  unfold remove_base_impl_m. cbv zeta.
  destruct (t_val (m_scheme base)) as [tb|]; [|apply from2_empty].
  destruct (t_val (m_scheme src)) as [ts|]; [|apply from2_empty].
  assert (Copy : forall d, from2 src base d -> from2 src base (snd (fst (
           let '(ok, d, s) := copy_authority_m d src s in
           if negb ok then (URI_ERROR_MALLOC, d, s) else
           let '(ok, d, s) := copy_path_m d src s in
           if negb ok then (URI_ERROR_MALLOC, d, s)
           else (URI_SUCCESS, set_m_fragment (borrow (m_fragment src)) (set_m_query (borrow (m_query src)) d), s))))).
  { intros d F. pose proof (from2_copy_authority src base d src s (or_introl eq_refl) F) as F1.
    destruct (copy_authority_m d src s) as [[[|] d1] s1]; cbn [negb fst snd] in *; cbv beta iota; [|exact F1].
    pose proof (copy_path_m_sf d1 src s1) as V2. cbv zeta in V2.
    destruct (copy_path_m d1 src s1) as [[[|] d2] s2]; cbn [negb fst snd] in *; cbv beta iota; apply (from2_same _ _ d1); msimpl; tauto. }
  destruct (negb (range_eqb (scheme (erase src)) (scheme (erase base)))).
  { apply Copy. apply from2_scheme; [auto|apply from2_empty]. }
  destruct (negb (equals_authority (erase src) (erase base))).
  { destruct (negb (is_host_set (erase src)) && is_host_set (erase base)); apply Copy; [apply from2_scheme; [auto|]|]; apply from2_empty. }
  destruct dr.
  - pose proof (copy_path_m_sf muri_empty src s) as V2. cbv zeta in V2.
    destruct (copy_path_m muri_empty src s) as [[[|] d2] s2]; cbn [negb fst snd] in *; cbv beta iota;
      [|apply (from2_same _ _ muri_empty); [tauto|tauto|apply from2_empty]].
    pose proof (fet_vals (set_m_abs true d2) s2) as V3. cbv zeta in V3.
    destruct (fix_empty_trail_m (set_m_abs true d2) s2) as [d3 s3]; cbn [fst snd] in *.
    pose proof (fix_ambiguity_m_sf d3 s3) as V4. cbv zeta in V4.
    destruct (fix_ambiguity_m d3 s3) as [[[|] d4] s4]; cbn [negb fst snd] in *; cbv beta iota;
      apply (from2_same _ _ muri_empty); msimpl; try apply from2_empty; destruct V2, V3, V4; msimpl; congruence.
  - destruct (skip_common (pathSegs (erase src)) (pathSegs (erase base))) as [s' b'].
    destruct (append_segs [] _ s) as [[[|] segs] s1]; cbn [fst snd]; apply (from2_same _ _ muri_empty); msimpl; try reflexivity; apply from2_empty.
Qed.

Theorem remove_base_m_sane dr src base s : sane src -> sane base -> sane (snd (fst (remove_base_m dr src base s))).
Proof.
  intros Sr Sb. apply (from2_sane src base); auto. unfold remove_base_m.
  pose proof (remove_base_impl_m_from dr src base s) as F. destruct (remove_base_impl_m dr src base s) as [[rc d] s1].
  cbn [fst snd] in F. destruct (rc =? 0)%N; [exact F|].
  pose proof (free_members_from src base d s1 F) as F2. destruct (free_members d s1) as [d' s2]. exact F2.
Qed.

Theorem free_members_sane m s : sane m -> sane (fst (free_members m s)).
Proof.
  intros [a b]. unfold free_members. cbn [fst]. destruct (m_owner m); split; msimpl; try discriminate; assumption.
Qed.
