(* The allocation ledger of the memory tier of the query functions (Model/QueryM.v):
   uriDissectQueryMallocExMm, uriFreeQueryListMm, uriComposeQueryMallocExMm, for every text / list,
   every well-formed ledger state, every fault plan and unbounded sizes; the erasure of the memory
   tier to the pure tier (Model/Query.v); histories that mix URI objects, query lists and strings.
   Method and vocabulary as in Proofs/LedgerProofs.v ([cnt], [L], [wf], [ext], [rel]),
   Proofs/LedgerTransparent.v ([np], [mono], [clean], [TR]) and Proofs/LedgerRefused.v ([OKP]). *)
From Coq Require Import List NArith ZArith Bool Arith Lia Permutation.
From UP Require Import Base.Chars Model.Uri Model.Escape Model.Query Model.Mem Model.ParseM Model.OpsM Model.QueryM
  Proofs.LedgerProofs Proofs.LedgerOps Proofs.LedgerBase Proofs.LedgerNormalize Proofs.LedgerTheorems
  Proofs.LedgerTransparent Proofs.LedgerRefused Proofs.LedgerSane Proofs.LedgerHistory Proofs.QueryProofs.
Import ListNotations.

(* ================================================================ blocks of a list *)
Lemma mqlist_blocks_app a b : mqlist_blocks (a ++ b) = mqlist_blocks a ++ mqlist_blocks b.
Proof. apply flat_map_app. Qed.
Lemma mqlist_blocks_cons it l : mqlist_blocks (it :: l) = mqitem_blocks it ++ mqlist_blocks l.
Proof. reflexivity. Qed.
Lemma cnt_mqlist_blocks_rev l x : cnt (mqlist_blocks (rev l)) x = cnt (mqlist_blocks l) x.
Proof.
  induction l as [|a l IH]; [reflexivity|].
  cbn [rev]. rewrite mqlist_blocks_app, cnt_app, IH, !mqlist_blocks_cons. cbn [mqlist_blocks flat_map].
  rewrite app_nil_r, cnt_app. lia.
Qed.
Lemma mqitem_blocks_cnt it x :
  cnt (mqitem_blocks it) x
  = cnt [qi_node it] x + cnt [qi_kblk it] x + cnt (match qi_val it with Some (_, b) => [b] | None => [] end) x.
Proof. unfold mqitem_blocks. cnt_norm. lia. Qed.

(* ================================================================ uriFreeQueryListMm *)
Lemma free_qitem_rel it s : wf s -> (forall x, cnt (mqitem_blocks it) x <= L s x) ->
  rel s (free_qitem s it) (mqitem_blocks it).
Proof.
  intros W H. unfold free_qitem.
  assert (H' : forall x, cnt [qi_node it] x + cnt [qi_kblk it] x
                         + cnt (match qi_val it with Some (_, b) => [b] | None => [] end) x <= L s x).
  { intros x. rewrite <- mqitem_blocks_cnt. apply H. }
  assert (R1 : rel s (free_blk (qi_kblk it) s) [qi_kblk it]).
  { apply rel_free; [exact W|]. specialize (H' (qi_kblk it)). rewrite cnt_self in H'. lia. }
  set (s1 := free_blk (qi_kblk it) s) in *.
  set (vb := match qi_val it with Some (_, b) => [b] | None => [] end) in *.
  assert (R2 : rel s1 (match qi_val it with Some (_, b) => free_blk b s1 | None => s1 end) vb).
  { drel R1 W1 E1 Q1 N1 H1. subst vb. destruct (qi_val it) as [[v b]|]; [|apply rel_refl; exact W1].
    apply rel_free; [exact W1|]. specialize (H' b). specialize (H1 b). rewrite cnt_self in H'. lia. }
  set (s2 := match qi_val it with Some (_, b) => free_blk b s1 | None => s1 end) in *.
  pose proof (rel_trans _ _ _ _ _ R1 R2) as R12.
  assert (R3 : rel s2 (free_blk (qi_node it) s2) [qi_node it]).
  { drel R12 W2 E2 Q2 N2 H2. apply rel_free; [exact W2|]. specialize (H' (qi_node it)). specialize (H2 (qi_node it)).
    rewrite cnt_app in H2. rewrite cnt_self in H'. lia. }
  eapply rel_perm; [|eapply rel_trans; [exact R12|exact R3]].
  intros x. rewrite mqitem_blocks_cnt, !cnt_app. fold vb. lia.
Qed.

Lemma free_query_list_m_rel l : forall s, wf s -> (forall x, cnt (mqlist_blocks l) x <= L s x) ->
  rel s (free_query_list_m l s) (mqlist_blocks l).
Proof.
  unfold free_query_list_m. induction l as [|it r IH]; intros s W H; cbn [fold_left].
  - apply rel_refl; exact W.
  - assert (R1 : rel s (free_qitem s it) (mqitem_blocks it)).
    { apply free_qitem_rel; [exact W|]. intros x. specialize (H x). rewrite mqlist_blocks_cons, cnt_app in H. lia. }
    eapply rel_perm; [|eapply rel_trans; [exact R1|apply IH]].
    + intros x. rewrite mqlist_blocks_cons. reflexivity.
    + apply R1.
    + destruct R1 as (_ & _ & _ & _ & R1). intros x. specialize (H x). specialize (R1 x).
      rewrite mqlist_blocks_cons, cnt_app in H. lia.
Qed.

(* the public form: uriFreeQueryListMm releases exactly the blocks of the list, each of them live; no
   request, no bad release *)
Theorem free_query_list_m_releases l s : wf s -> NoDup (mqlist_blocks l) -> incl (mqlist_blocks l) (live_ids s) ->
  let s' := free_query_list_m l s in
  wf s' /\ Permutation (live_ids s) (mqlist_blocks l ++ live_ids s') /\ bad_frees s' = bad_frees s
  /\ ms_requests s' = ms_requests s /\ ms_plan s' = ms_plan s /\ ms_next s' = ms_next s.
Proof.
  intros W ND IN. cbv zeta.
  assert (H : forall x, cnt (mqlist_blocks l) x <= L s x).
  { intros x. apply cnt_NoDup with (x := x) in ND. destruct (cnt (mqlist_blocks l) x) as [|[|k]] eqn:E; [lia| |lia].
    assert (In x (mqlist_blocks l)) as I by (apply cnt_In; lia). apply IN in I. apply cnt_In in I. unfold L. lia. }
  destruct (free_query_list_m_rel l s W H) as (W' & E' & Q' & N' & H').
  split; [exact W'|]. split; [|split; [apply E'|split; [exact Q'|split; [apply E'|exact N']]]].
  apply cnt_Permutation. intros x. rewrite cnt_app. specialize (H' x). unfold L in H'. lia.
Qed.

(* ================================================================ uriAppendQueryItem *)
Section WithCsize.
Variable csize : N.

Lemma append_item_m_spec pts bc kfn kr vr s : wf s ->
  match append_item_m csize pts bc kfn kr vr s with
  | (AFail, s') => wf s' /\ ext s s' /\ (forall x, L s' x = L s x) /\ fails_between s s'
  | (ASkip, s') => s' = s
  | (AItem it, s') => wf s' /\ ext s s' /\ (forall x, L s' x = cnt (mqitem_blocks it) x + L s x)
  end.
Proof.
  intros W. unfold append_item_m. destruct kfn; [reflexivity|].
  assert (Main :
    match
      match alloc false QL_SIZE s with
      | (None, s1) => (AFail, s1)
      | (Some node, s1) =>
        match alloc false ((nlen kr + 1) * csize) s1 with
        | (None, s2) => (AFail, free_blk node s2)
        | (Some kb, s2) =>
          match vr with
          | None => (AItem {| qi_key := cstr (unescape pts bc (rev kr)); qi_kblk := kb; qi_val := None; qi_node := node |}, s2)
          | Some v =>
            match alloc false ((nlen v + 1) * csize) s2 with
            | (None, s3) => (AFail, free_blk node (free_blk kb s3))
            | (Some vb, s3) =>
              (AItem {| qi_key := cstr (unescape pts bc (rev kr)); qi_kblk := kb;
                        qi_val := Some (cstr (unescape pts bc (rev v)), vb); qi_node := node |}, s3)
            end
          end
        end
      end
    with
    | (AFail, s') => wf s' /\ ext s s' /\ (forall x, L s' x = L s x) /\ fails_between s s'
    | (ASkip, s') => s' = s
    | (AItem it, s') => wf s' /\ ext s s' /\ (forall x, L s' x = cnt (mqitem_blocks it) x + L s x)
    end).
  { destruct (alloc false QL_SIZE s) as [[node|] s1] eqn:A1.
    2:{ destruct (alloc_none _ _ _ _ W A1) as (W1 & E1 & H1 & _). split; [exact W1|]. split; [exact E1|]. split; [exact H1|].
        eapply alloc_none_fails; eauto. }
    destruct (alloc_some _ _ _ _ _ W A1) as (W1 & E1 & H1 & _).
    destruct (alloc false ((nlen kr + 1) * csize) s1) as [[kb|] s2] eqn:A2.
    2:{ destruct (alloc_none _ _ _ _ W1 A2) as (W2 & E2 & H2 & _).
        pose proof (alloc_none_fails _ _ _ _ W1 A2) as F2.
        assert (Ln : 1 <= L s2 node) by (rewrite H2, H1, cnt_self; lia).
        destruct (free_blk_ok node s2 W2 Ln) as (W3 & E3 & _ & _ & H3).
        split; [exact W3|]. split; [eapply ext_trans; [exact E1|eapply ext_trans; eauto]|]. split; [pwl|].
        eapply fails_left; [eapply ext_trans; eauto|exact E3|]. eapply fails_right; eauto. }
    destruct (alloc_some _ _ _ _ _ W1 A2) as (W2 & E2 & H2 & _).
    destruct vr as [v|].
    2:{ split; [exact W2|]. split; [eapply ext_trans; eauto|]. intros x. rewrite mqitem_blocks_cnt. cbn [qi_node qi_kblk qi_val]. pw x. lia. }
    destruct (alloc false ((nlen v + 1) * csize) s2) as [[vb|] s3] eqn:A3.
    2:{ destruct (alloc_none _ _ _ _ W2 A3) as (W3 & E3 & H3 & _).
        pose proof (alloc_none_fails _ _ _ _ W2 A3) as F3.
        assert (Lk : 1 <= L s3 kb) by (rewrite H3, H2, cnt_self; lia).
        destruct (free_blk_ok kb s3 W3 Lk) as (W4 & E4 & _ & _ & H4).
        assert (Ln : 1 <= L (free_blk kb s3) node).
        { pose proof (H4 node) as a. pose proof (H3 node) as b. pose proof (H2 node) as c. pose proof (H1 node) as d.
          pose proof (proj1 W2 node) as e. rewrite cnt_self in d. lia. }
        destruct (free_blk_ok node _ W4 Ln) as (W5 & E5 & _ & _ & H5).
        assert (E03 : ext s s3) by (eapply ext_trans; [exact E1|eapply ext_trans; eauto]).
        assert (E35 : ext s3 (free_blk node (free_blk kb s3))) by (eapply ext_trans; eauto).
        split; [exact W5|]. split; [eapply ext_trans; eauto|]. split; [pwl|].
        eapply fails_left; [exact E03|exact E35|]. eapply fails_right; [eapply ext_trans; [exact E1|exact E2]|exact E3|exact F3]. }
    destruct (alloc_some _ _ _ _ _ W2 A3) as (W3 & E3 & H3 & _).
    split; [exact W3|]. split; [eapply ext_trans; [exact E1|eapply ext_trans; eauto]|].
    intros x. rewrite mqitem_blocks_cnt. cbn [qi_node qi_kblk qi_val]. pw x. lia. }
  destruct kr as [|c kr']; [destruct vr as [v|]; [exact Main|reflexivity]|exact Main].
Qed.

(* ================================================================ uriDissectQueryMallocExMm *)
(* the exit after uriAppendQueryItem returned URI_FALSE: the list built so far is released *)
Lemma fail_exit_spec acc s0 s : wf s -> ext s0 s -> fails_between s0 s -> (forall x, cnt (mqlist_blocks acc) x <= L s x) ->
  match fail_exit acc s with
  | (DMMalloc d, s') => wf s' /\ ext s0 s' /\ (forall x, L s' x + cnt (mqlist_blocks acc) x = L s x) /\ fails_between s0 s'
                        /\ d = rev acc /\ (forall x, 1 <= cnt (mqlist_blocks d) x -> L s' x = 0)
  | (DMOk _ _, _) => False
  end.
Proof.
  intros W E F H. unfold fail_exit.
  assert (H' : forall x, cnt (mqlist_blocks (rev acc)) x <= L s x) by (intros x; rewrite cnt_mqlist_blocks_rev; apply H).
  destruct (free_query_list_m_rel (rev acc) s W H') as (W' & E' & Q' & N' & R').
  split; [exact W'|]. split; [eapply ext_trans; eauto|]. split; [intros x; rewrite <- (cnt_mqlist_blocks_rev acc x); apply R'|].
  split; [eapply fails_left; eauto|]. split; [reflexivity|].
  intros x Hx. specialize (R' x). pose proof (proj1 W x). lia.
Qed.

Lemma dissect_walk_m_spec pts bc : forall l kfn kr vr acc cnt0 s, wf s -> (forall x, cnt (mqlist_blocks acc) x <= L s x) ->
  match dissect_walk_m csize pts bc l kfn kr vr acc cnt0 s with
  | (DMOk items n, s') =>
    wf s' /\ ext s s' /\ (forall x, L s' x + cnt (mqlist_blocks acc) x = cnt (mqlist_blocks items) x + L s x)
    /\ (n = cnt0 + Z.of_nat (length items) - Z.of_nat (length acc))%Z
  | (DMMalloc d, s') =>
    wf s' /\ ext s s' /\ (forall x, L s' x + cnt (mqlist_blocks acc) x = L s x) /\ fails_between s s'
    /\ (forall x, 1 <= cnt (mqlist_blocks d) x -> L s' x = 0) /\ length acc <= length d
  end.
Proof.
  induction l as [|c r IH]; intros kfn kr vr acc cnt0 s W H; cbn [dissect_walk_m].
  - pose proof (append_item_m_spec pts bc kfn kr vr s W) as A.
    destruct (append_item_m csize pts bc kfn kr vr s) as [[| |it] s1].
    + destruct A as (W1 & E1 & H1 & F1).
      assert (Hh : forall x, cnt (mqlist_blocks acc) x <= L s1 x) by (intros x; rewrite H1; apply H).
      pose proof (fail_exit_spec acc s s1 W1 E1 F1 Hh) as X. destruct (fail_exit acc s1) as [[|d] s']; [contradiction|].
      destruct X as (W' & E' & R' & F' & -> & Z'). split; [exact W'|]. split; [exact E'|]. split; [pwl|]. split; [exact F'|].
      split; [exact Z'|rewrite rev_length; lia].
    + subst s1. split; [exact W|]. split; [apply ext_refl|]. split; [intros x; rewrite cnt_mqlist_blocks_rev; lia|]. rewrite rev_length. lia.
    + destruct A as (W1 & E1 & H1). split; [exact W1|]. split; [exact E1|]. split.
      * intros x. rewrite cnt_mqlist_blocks_rev, mqlist_blocks_cons, cnt_app. pw x. lia.
      * rewrite rev_length. cbn [length]. lia.
  - destruct (c =? 38)%N.
    + pose proof (append_item_m_spec pts bc kfn kr vr s W) as A.
      destruct (append_item_m csize pts bc kfn kr vr s) as [[| |it] s1].
      * destruct A as (W1 & E1 & H1 & F1).
        assert (Hh : forall x, cnt (mqlist_blocks acc) x <= L s1 x) by (intros x; rewrite H1; apply H).
        pose proof (fail_exit_spec acc s s1 W1 E1 F1 Hh) as X. destruct (fail_exit acc s1) as [[|d] s']; [contradiction|].
        destruct X as (W' & E' & R' & F' & -> & Z'). split; [exact W'|]. split; [exact E'|]. split; [pwl|]. split; [exact F'|].
        split; [exact Z'|rewrite rev_length; lia].
      * subst s1. apply IH; assumption.
      * destruct A as (W1 & E1 & H1).
        assert (Hh : forall x, cnt (mqlist_blocks (it :: acc)) x <= L s1 x).
        { intros x. rewrite mqlist_blocks_cons, cnt_app, H1. specialize (H x). lia. }
        specialize (IH (match r with [] => true | _ => false end) [] None (it :: acc) (cnt0 + 1)%Z s1 W1 Hh).
        destruct (dissect_walk_m csize pts bc r _ [] None (it :: acc) (cnt0 + 1)%Z s1) as [[items n|d] s'].
        -- destruct IH as (W' & E' & R' & C'). split; [exact W'|]. split; [eapply ext_trans; eauto|]. split.
           ++ intros x. specialize (R' x). rewrite mqlist_blocks_cons, cnt_app in R'. specialize (H1 x). lia.
           ++ cbn [length] in C'. lia.
        -- destruct IH as (W' & E' & R' & F' & Z' & Ln). split; [exact W'|]. split; [eapply ext_trans; eauto|]. split.
           ++ intros x. specialize (R' x). rewrite mqlist_blocks_cons, cnt_app in R'. specialize (H1 x). lia.
           ++ split; [eapply fails_right; eauto|]. split; [exact Z'|cbn [length] in Ln; lia].
    + destruct (c =? 61)%N; destruct vr; apply IH; assumption.
Qed.

(* ---- the public forms *)
Definition is_oom (r : dmres) : bool := match r with DMMalloc _ => true | DMOk _ _ => false end.

Theorem dissect_m_balanced pts bc t s0 : wf s0 ->
  match dissect_m csize pts bc t s0 with
  | (DMOk items n, s') =>
    wf s' /\ ext s0 s' /\ Permutation (live_ids s') (mqlist_blocks items ++ live_ids s0)
    /\ NoDup (mqlist_blocks items) /\ n = Z.of_nat (length items)
  | (DMMalloc d, s') =>
    wf s' /\ ext s0 s' /\ Permutation (live_ids s') (live_ids s0) /\ fails_between s0 s'
    /\ (forall b, In b (mqlist_blocks d) -> ~ In b (live_ids s'))
  end.
Proof.
  intros W. unfold dissect_m.
  assert (H0 : forall x, cnt (mqlist_blocks []) x <= L s0 x) by (intros x; cbn; lia).
  pose proof (dissect_walk_m_spec pts bc t false [] None [] 0%Z s0 W H0) as R.
  destruct (dissect_walk_m csize pts bc t false [] None [] 0%Z s0) as [[items n|d] s'].
  - destruct R as (W' & E' & R' & C'). split; [exact W'|]. split; [exact E'|]. split; [|split].
    + apply cnt_Permutation. intros x. rewrite cnt_app. specialize (R' x). cbn [mqlist_blocks flat_map] in R'. rewrite cnt_nil in R'. unfold L in R'. lia.
    + apply cnt_NoDup. intros x. specialize (R' x). cbn [mqlist_blocks flat_map] in R'. rewrite cnt_nil in R'. pose proof (proj1 W' x). lia.
    + cbn [length] in C'. lia.
  - destruct R as (W' & E' & R' & F' & Z' & _). split; [exact W'|]. split; [exact E'|]. split; [|split; [exact F'|]].
    + apply cnt_Permutation. intros x. specialize (R' x). cbn [mqlist_blocks flat_map] in R'. rewrite cnt_nil in R'. unfold L in R'. lia.
    + intros b Hb Hl. apply cnt_In in Hb. apply cnt_In in Hl. specialize (Z' b Hb). unfold L in Z'. lia.
Qed.

(* dissect, then the matching release: the ledger is back to what it was *)
Theorem dissect_m_release pts bc t s0 items n s1 : wf s0 -> dissect_m csize pts bc t s0 = (DMOk items n, s1) ->
  let s2 := free_query_list_m items s1 in
  wf s2 /\ Permutation (live_ids s2) (live_ids s0) /\ bad_frees s2 = bad_frees s0
  /\ ms_requests s2 = ms_requests s1 /\ ms_plan s2 = ms_plan s0.
Proof.
  intros W E. cbv zeta. pose proof (dissect_m_balanced pts bc t s0 W) as R. rewrite E in R.
  destruct R as (W1 & E1 & P1 & ND & _).
  assert (IN : incl (mqlist_blocks items) (live_ids s1)).
  { intros b Hb. apply (Permutation_in b (Permutation_sym P1)). apply in_or_app. left. exact Hb. }
  destruct (free_query_list_m_releases items s1 W1 ND IN) as (W2 & P2 & B2 & Q2 & PL2 & _).
  split; [exact W2|]. split; [|split; [rewrite B2; apply E1|split; [exact Q2|rewrite PL2; apply E1]]].
  apply (Permutation_app_inv_l (mqlist_blocks items)). rewrite <- P2. exact P1.
Qed.

(* out-of-memory is returned only if a request was refused; then the ledger is as before the call, with no
   bad release; never under NoFault *)
Theorem dissect_m_oom pts bc t s0 : wf s0 ->
  match dissect_m csize pts bc t s0 with
  | (DMMalloc d, s') => fails_between s0 s' /\ Permutation (live_ids s') (live_ids s0) /\ bad_frees s' = bad_frees s0
  | (DMOk _ _, s') => bad_frees s' = bad_frees s0
  end /\ (ms_plan s0 = NoFault -> is_oom (fst (dissect_m csize pts bc t s0)) = false).
Proof.
  intros W. pose proof (dissect_m_balanced pts bc t s0 W) as R.
  destruct (dissect_m csize pts bc t s0) as [[items n|d] s']; cbn [fst is_oom].
  - destruct R as (_ & E' & _). split; [apply E'|reflexivity].
  - destruct R as (_ & E' & P' & F' & _). split; [split; [exact F'|split; [exact P'|apply E']]|].
    intros NP. destruct F' as (k & _ & Hk). rewrite NP in Hk. discriminate.
Qed.

(* ---- the stale *dest: releasing the list a failed call left in *dest releases nothing but dead blocks *)
Lemma free_blk_dead id s : L s id = 0 -> ms_live (free_blk id s) = ms_live s /\ bad_frees (free_blk id s) = S (bad_frees s).
Proof.
  intros H. split; [|apply free_blk_bad; exact H].
  unfold free_blk. pose proof (remove_blk_spec id (ms_live s)) as R.
  destruct (remove_blk id (ms_live s)) as [[sz l']|]; [|reflexivity].
  specialize (R id). rewrite cnt_self in R. unfold L, live_ids in H. lia.
Qed.

Lemma free_dead_list l : forall s, (forall x, 1 <= cnt (mqlist_blocks l) x -> L s x = 0) ->
  ms_live (free_query_list_m l s) = ms_live s /\ bad_frees (free_query_list_m l s) = bad_frees s + length (mqlist_blocks l).
Proof.
  unfold free_query_list_m. induction l as [|it r IH]; intros s H; cbn [fold_left]; [cbn; split; [reflexivity|lia]|].
  assert (Hi : forall x, 1 <= cnt (mqitem_blocks it) x -> L s x = 0).
  { intros x Hx. apply H. rewrite mqlist_blocks_cons, cnt_app. lia. }
  assert (Lsame : forall s1 s2 x, ms_live s1 = ms_live s2 -> L s1 x = L s2 x) by (intros s1 s2 x Q; unfold L, live_ids; rewrite Q; reflexivity).
  assert (S1 : ms_live (free_qitem s it) = ms_live s /\ bad_frees (free_qitem s it) = bad_frees s + length (mqitem_blocks it)).
  { unfold free_qitem, mqitem_blocks.
    assert (Hk : L s (qi_kblk it) = 0) by (apply Hi; rewrite mqitem_blocks_cnt, cnt_self; lia).
    destruct (free_blk_dead _ _ Hk) as [a1 b1]. set (s1 := free_blk (qi_kblk it) s) in *.
    assert (Hn : L s (qi_node it) = 0) by (apply Hi; rewrite mqitem_blocks_cnt, cnt_self; lia).
    destruct (qi_val it) as [[v b]|] eqn:EV.
    - assert (Hv : L s1 b = 0). { rewrite (Lsame s1 s b a1). apply Hi. rewrite mqitem_blocks_cnt, EV, cnt_self. lia. }
      destruct (free_blk_dead _ _ Hv) as [a2 b2]. set (s2 := free_blk b s1) in *.
      assert (Hn2 : L s2 (qi_node it) = 0) by (rewrite (Lsame s2 s _ (eq_trans a2 a1)); exact Hn).
      destruct (free_blk_dead _ _ Hn2) as [a3 b3]. split; [congruence|]. cbn [length]. lia.
    - assert (Hn1 : L s1 (qi_node it) = 0) by (rewrite (Lsame s1 s _ a1); exact Hn).
      destruct (free_blk_dead _ _ Hn1) as [a3 b3]. split; [congruence|]. cbn [length]. lia. }
  destruct S1 as [a b].
  destruct (IH (free_qitem s it)) as [c d].
  { intros x Hx. rewrite (Lsame _ s x a). apply H. rewrite mqlist_blocks_cons, cnt_app. lia. }
  split; [congruence|]. rewrite d, b, mqlist_blocks_cons, app_length. lia.
Qed.

Theorem dissect_m_stale_dest pts bc t s0 d s1 : wf s0 -> dissect_m csize pts bc t s0 = (DMMalloc d, s1) ->
  ms_live (free_query_list_m d s1) = ms_live s1
  /\ bad_frees (free_query_list_m d s1) = bad_frees s0 + length (mqlist_blocks d).
Proof.
  intros W E. pose proof (dissect_m_balanced pts bc t s0 W) as R. rewrite E in R. destruct R as (_ & E1 & _ & _ & Z).
  destruct (free_dead_list d s1) as [a b].
  { intros x Hx. apply cnt_In in Hx. specialize (Z x Hx). destruct (L s1 x) eqn:EL; [reflexivity|]. exfalso. apply Z. apply cnt_In. unfold L in EL. lia. }
  split; [exact a|]. rewrite b. f_equal. apply E1.
Qed.

(* ================================================================ fault transparency, refused => reported *)
Lemma ro_free_qitem it : releases_only (fun s => free_qitem s it).
Proof.
  unfold free_qitem.
  apply (ro_comp (fun s => match qi_val it with Some (_, b) => free_blk b (free_blk (qi_kblk it) s) | None => free_blk (qi_kblk it) s end)
                 (free_blk (qi_node it))); [|apply ro_free_blk].
  destruct (qi_val it) as [[v b]|]; [|apply ro_free_blk].
  apply (ro_comp (free_blk (qi_kblk it)) (free_blk b)); apply ro_free_blk.
Qed.
Lemma ro_free_query_list l : releases_only (free_query_list_m l).
Proof. unfold free_query_list_m. apply (ro_fold free_qitem). intros it. apply ro_free_qitem. Qed.

Definition not_afail (r : ares) : bool := match r with AFail => false | _ => true end.

Lemma append_item_m_TR pts bc kfn kr vr : TR (append_item_m csize pts bc kfn kr vr).
Proof.
  intros s.
  assert (Triv : forall r : ares, mono s (snd (r, s)) /\ (clean s (snd (r, s)) -> (r, np s) = (fst (r, s), np (snd (r, s)))))
    by (intros; split; [apply mono_refl|reflexivity]).
  unfold append_item_m. destruct kfn; [apply Triv|].
  assert (Main : forall (f : mstate -> ares * mstate),
    f = (fun s =>
      match alloc false QL_SIZE s with
      | (None, s1) => (AFail, s1)
      | (Some node, s1) =>
        match alloc false ((nlen kr + 1) * csize) s1 with
        | (None, s2) => (AFail, free_blk node s2)
        | (Some kb, s2) =>
          match vr with
          | None => (AItem {| qi_key := cstr (unescape pts bc (rev kr)); qi_kblk := kb; qi_val := None; qi_node := node |}, s2)
          | Some v =>
            match alloc false ((nlen v + 1) * csize) s2 with
            | (None, s3) => (AFail, free_blk node (free_blk kb s3))
            | (Some vb, s3) =>
              (AItem {| qi_key := cstr (unescape pts bc (rev kr)); qi_kblk := kb;
                        qi_val := Some (cstr (unescape pts bc (rev v)), vb); qi_node := node |}, s3)
            end
          end
        end
      end) -> mono s (snd (f s)) /\ (clean s (snd (f s)) -> f (np s) = (fst (f s), np (snd (f s))))).
  { intros f ->.
    destruct (TR_alloc false QL_SIZE s) as [M1 T1]. destruct (alloc false QL_SIZE s) as [[node|] s1]; cbn [fst snd] in *.
    2:{ split; [exact M1|]. intros C. rewrite (T1 C). reflexivity. }
    destruct (TR_alloc false ((nlen kr + 1) * csize) s1) as [M2 T2].
    destruct (alloc false ((nlen kr + 1) * csize) s1) as [[kb|] s2]; cbn [fst snd] in *.
    2:{ pose proof (ro_mono _ s2 (ro_free_blk node)) as M3. split; [mo|]. intros C.
        rewrite T1 by cl. rewrite T2 by cl. rewrite (ro_np _ _ (ro_free_blk node)). reflexivity. }
    destruct vr as [v|].
    2:{ split; [mo|]. intros C. rewrite T1 by cl. rewrite T2 by cl. reflexivity. }
    destruct (TR_alloc false ((nlen v + 1) * csize) s2) as [M3 T3].
    destruct (alloc false ((nlen v + 1) * csize) s2) as [[vb|] s3]; cbn [fst snd] in *.
    2:{ pose proof (ro_mono _ s3 (ro_free_blk kb)) as M4. pose proof (ro_mono _ (free_blk kb s3) (ro_free_blk node)) as M5.
        split; [mo|]. intros C. rewrite T1 by cl. rewrite T2 by cl. rewrite T3 by cl.
        rewrite (ro_np _ _ (ro_free_blk kb)), (ro_np _ _ (ro_free_blk node)). reflexivity. }
    split; [mo|]. intros C. rewrite T1 by cl. rewrite T2 by cl. rewrite T3 by cl. reflexivity. }
  destruct kr as [|c kr']; [destruct vr as [v|]; [|apply Triv]|]; apply (Main _ eq_refl).
Qed.

Lemma append_item_m_OK pts bc kfn kr vr : OKP not_afail (append_item_m csize pts bc kfn kr vr).
Proof.
  intros s. unfold append_item_m. destruct kfn; [intros _; apply clean_refl|].
  assert (Main : forall (f : mstate -> ares * mstate),
    f = (fun s =>
      match alloc false QL_SIZE s with
      | (None, s1) => (AFail, s1)
      | (Some node, s1) =>
        match alloc false ((nlen kr + 1) * csize) s1 with
        | (None, s2) => (AFail, free_blk node s2)
        | (Some kb, s2) =>
          match vr with
          | None => (AItem {| qi_key := cstr (unescape pts bc (rev kr)); qi_kblk := kb; qi_val := None; qi_node := node |}, s2)
          | Some v =>
            match alloc false ((nlen v + 1) * csize) s2 with
            | (None, s3) => (AFail, free_blk node (free_blk kb s3))
            | (Some vb, s3) =>
              (AItem {| qi_key := cstr (unescape pts bc (rev kr)); qi_kblk := kb;
                        qi_val := Some (cstr (unescape pts bc (rev v)), vb); qi_node := node |}, s3)
            end
          end
        end
      end) -> not_afail (fst (f s)) = true -> clean s (snd (f s))).
  { intros f ->.
    pose proof (alloc_OK false QL_SIZE s) as K1. destruct (TR_alloc false QL_SIZE s) as [M1 _].
    destruct (alloc false QL_SIZE s) as [[node|] s1]; cbn [fst snd is_some] in *; [|discriminate].
    pose proof (alloc_OK false ((nlen kr + 1) * csize) s1) as K2. destruct (TR_alloc false ((nlen kr + 1) * csize) s1) as [M2 _].
    destruct (alloc false ((nlen kr + 1) * csize) s1) as [[kb|] s2]; cbn [fst snd is_some] in *; [|discriminate].
    destruct vr as [v|].
    2:{ intros _. apply (clean_trans s s1 s2 M1 (K1 eq_refl) (K2 eq_refl)). }
    pose proof (alloc_OK false ((nlen v + 1) * csize) s2) as K3.
    destruct (alloc false ((nlen v + 1) * csize) s2) as [[vb|] s3]; cbn [fst snd is_some] in *; [|discriminate].
    intros _. apply (clean_trans s s1 s3 M1 (K1 eq_refl)). apply (clean_trans s1 s2 s3 M2 (K2 eq_refl) (K3 eq_refl)). }
  destruct kr as [|c kr']; [destruct vr as [v|]; [|intros _; apply clean_refl]|]; apply (Main _ eq_refl).
Qed.

Lemma fail_exit_TR acc : TR (fail_exit acc).
Proof.
  intros s. unfold fail_exit. cbn [fst snd]. split; [apply (ro_mono _ _ (ro_free_query_list (rev acc)))|].
  intros _. rewrite (ro_np _ _ (ro_free_query_list (rev acc))). reflexivity.
Qed.

Lemma dissect_walk_m_TR pts bc : forall l kfn kr vr acc cnt0, TR (dissect_walk_m csize pts bc l kfn kr vr acc cnt0).
Proof.
  induction l as [|c r IH]; intros kfn kr vr acc cnt0 s; cbn [dissect_walk_m].
  - destruct (append_item_m_TR pts bc kfn kr vr s) as [M1 T1].
    destruct (append_item_m csize pts bc kfn kr vr s) as [[| |it] s1]; cbn [fst snd] in *.
    + destruct (fail_exit_TR acc s1) as [M2 T2]. split; [mo|]. intros C. rewrite T1 by cl. apply T2. cl.
    + split; [exact M1|]. intros C. rewrite (T1 C). reflexivity.
    + split; [exact M1|]. intros C. rewrite (T1 C). reflexivity.
  - destruct (c =? 38)%N.
    + destruct (append_item_m_TR pts bc kfn kr vr s) as [M1 T1].
      destruct (append_item_m csize pts bc kfn kr vr s) as [[| |it] s1]; cbn [fst snd] in *.
      * destruct (fail_exit_TR acc s1) as [M2 T2]. split; [mo|]. intros C. rewrite T1 by cl. apply T2. cl.
      * destruct (IH (match r with [] => true | _ => false end) [] None acc cnt0 s1) as [M2 T2].
        split; [mo|]. intros C. rewrite T1 by cl. apply T2. cl.
      * destruct (IH (match r with [] => true | _ => false end) [] None (it :: acc) (cnt0 + 1)%Z s1) as [M2 T2].
        split; [mo|]. intros C. rewrite T1 by cl. apply T2. cl.
    + destruct (c =? 61)%N; destruct vr; apply IH.
Qed.

Lemma dissect_walk_m_OK pts bc : forall l kfn kr vr acc cnt0,
  OKP (fun r => negb (is_oom r)) (dissect_walk_m csize pts bc l kfn kr vr acc cnt0).
Proof.
  induction l as [|c r IH]; intros kfn kr vr acc cnt0 s; cbn [dissect_walk_m].
  - pose proof (append_item_m_OK pts bc kfn kr vr s) as K.
    destruct (append_item_m csize pts bc kfn kr vr s) as [[| |it] s1]; cbn [fst snd not_afail] in *.
    + unfold fail_exit. cbn [fst is_oom negb]. discriminate.
    + intros _. apply K. reflexivity.
    + intros _. apply K. reflexivity.
  - destruct (c =? 38)%N.
    + pose proof (append_item_m_OK pts bc kfn kr vr s) as K. destruct (append_item_m_TR pts bc kfn kr vr s) as [M1 _].
      destruct (append_item_m csize pts bc kfn kr vr s) as [[| |it] s1]; cbn [fst snd not_afail] in *.
      * unfold fail_exit. cbn [fst is_oom negb]. discriminate.
      * intros G. apply (clean_trans s s1 _ M1 (K eq_refl)). apply IH. exact G.
      * intros G. apply (clean_trans s s1 _ M1 (K eq_refl)). apply IH. exact G.
    + destruct (c =? 61)%N; destruct vr; apply IH.
Qed.

(* a refused request is always reported *)
Theorem dissect_m_refused_is_oom pts bc t s :
  fails_between s (snd (dissect_m csize pts bc t s)) -> is_oom (fst (dissect_m csize pts bc t s)) = true.
Proof.
  intros F. destruct (is_oom (fst (dissect_m csize pts bc t s))) eqn:E; [reflexivity|exfalso].
  apply (proj1 (clean_iff_no_fail s (snd (dissect_m csize pts bc t s)))); [|exact F].
  apply (dissect_walk_m_OK pts bc t false [] None [] 0%Z s). unfold dissect_m in E. rewrite E. reflexivity.
Qed.

Theorem dissect_m_fault_transparent pts bc t s : ~ fails_between s (snd (dissect_m csize pts bc t s)) ->
  dissect_m csize pts bc t (np s) = (fst (dissect_m csize pts bc t s), np (snd (dissect_m csize pts bc t s))).
Proof. apply (TR_public (fun s => dissect_m csize pts bc t s)). unfold dissect_m. apply dissect_walk_m_TR. Qed.

Theorem free_query_list_m_plan_independent l s :
  free_query_list_m l (np s) = np (free_query_list_m l s) /\ ms_requests (free_query_list_m l s) = ms_requests s
  /\ ms_plan (free_query_list_m l s) = ms_plan s.
Proof. destruct (ro_free_query_list l s) as (a & b & c). auto. Qed.

(* ================================================================ uriComposeQueryMallocExMm *)
Lemma alloc_live c sz s id s' : alloc c sz s = (Some id, s') -> ms_live s' = (id, sz) :: ms_live s.
Proof.
  unfold alloc. destruct (plan_fails (ms_plan s) (S (ms_requests s))); [discriminate|]. intros H. injection H as <- <-. reflexivity.
Qed.

Lemma chars_required_range stp nb l r : chars_required stp nb l = ZOk r -> (0 <= r <= INT_MAX)%Z.
Proof. intros H. unfold chars_required in H. destruct (chars_required_len_ok nb _ r (map_item_len_ok l) H) as (_ & _ & a). exact a. Qed.

Definition is_cm_oom (r : cmres) : bool := match r with CMErr c => (c =? URI_ERROR_MALLOC)%N | CMOk _ _ => false end.

(* success: exactly one new block, the string, of (chars required + 1) characters; the text is the pure tier's and
   fits.  Any error: the ledger is as before.  Out-of-memory is returned when a request was refused -- and, without
   any request, when the required size is exactly INT_MAX *)
Theorem compose_m_balanced stp nb l s0 : wf s0 ->
  match compose_m csize stp nb l s0 with
  | (CMOk out b, s') =>
    wf s' /\ ext s0 s' /\ Permutation (live_ids s') (b :: live_ids s0) /\ ~ In b (live_ids s0)
    /\ exists r, chars_required stp nb l = ZOk r /\ (0 <= r < INT_MAX)%Z
         /\ In (b, (Z.to_N (r + 1) * csize)%N) (ms_live s') /\ out = query_text stp nb l /\ (Z.of_nat (length out) <= r)%Z
  | (CMErr c, s') =>
    wf s' /\ ext s0 s' /\ Permutation (live_ids s') (live_ids s0)
    /\ (c = URI_ERROR_MALLOC -> fails_between s0 s' \/ (chars_required stp nb l = ZOk INT_MAX /\ s' = s0))
    /\ (c <> URI_ERROR_MALLOC -> s' = s0 /\ chars_required stp nb l = ZErr c)
  end.
Proof.
  intros W. unfold compose_m. destruct (chars_required stp nb l) as [c|r] eqn:ER.
  { split; [exact W|]. split; [apply ext_refl|]. split; [reflexivity|]. split; [intros ->|intros _; auto].
    exfalso. unfold chars_required in ER. destruct l as [|it l']; [discriminate|].
    rewrite chars_required_len_no_wrap in ER by (apply map_item_len_ok || discriminate).
    destruct (_ && _) in ER; discriminate. }
  pose proof (chars_required_range _ _ _ _ ER) as Rg.
  destruct (r =? INT_MAX)%Z eqn:EI.
  { split; [exact W|]. split; [apply ext_refl|]. split; [reflexivity|]. split; [|intros X; contradiction].
    intros _. right. split; [|reflexivity]. f_equal. lia. }
  assert (Rs : (0 <= r < INT_MAX)%Z) by lia.
  rewrite Z.mod_small by (unfold INT_MAX in *; lia).
  destruct (alloc true (Z.to_N (r + 1) * csize) s0) as [[id|] s1] eqn:A1.
  2:{ destruct (alloc_none _ _ _ _ W A1) as (W1 & E1 & H1 & _). split; [exact W1|]. split; [exact E1|]. split.
      - apply cnt_Permutation. intros x. apply H1.
      - split; [intros _; left; eapply alloc_none_fails; eauto|intros X; contradiction]. }
  destruct (alloc_some _ _ _ _ _ W A1) as (W1 & E1 & H1 & Z1 & _).
  destruct (chars_required_sufficient stp nb l r ER (r + 1)%Z ltac:(lia)) as (lg & EC & Len). rewrite EC.
  split; [exact W1|]. split; [exact E1|]. split; [|split].
  - apply cnt_Permutation. intros x. rewrite cnt_cons. apply H1.
  - intros I. apply cnt_In in I. unfold L in Z1. lia.
  - exists r. split; [reflexivity|]. split; [exact Rs|]. split; [rewrite (alloc_live _ _ _ _ _ A1); left; reflexivity|]. split; [reflexivity|exact Len].
Qed.

(* compose, then the caller frees the string: the ledger is back to what it was, whatever the call returned *)
Theorem compose_m_release stp nb l s0 : wf s0 ->
  let '(r, s1) := compose_m csize stp nb l s0 in
  let s2 := free_string_m r s1 in
  wf s2 /\ Permutation (live_ids s2) (live_ids s0) /\ bad_frees s2 = bad_frees s0 /\ ms_requests s2 = ms_requests s1
  /\ ms_plan s2 = ms_plan s0.
Proof.
  intros W. pose proof (compose_m_balanced stp nb l s0 W) as R. destruct (compose_m csize stp nb l s0) as [[c|out b] s1]; cbv zeta; cbn [free_string_m].
  - destruct R as (W1 & E1 & P1 & _). split; [exact W1|]. split; [exact P1|]. split; [apply E1|]. split; [reflexivity|apply E1].
  - destruct R as (W1 & E1 & P1 & _).
    assert (Lb : 1 <= L s1 b). { apply cnt_Permutation with (x := b) in P1. rewrite cnt_cons, cnt_self in P1. unfold L. lia. }
    destruct (free_blk_ok b s1 W1 Lb) as (W2 & E2 & Q2 & _ & H2).
    split; [exact W2|]. split; [|split; [rewrite (ext_bad _ _ E2); apply E1|split; [exact Q2|rewrite (ext_plan _ _ E2); apply E1]]].
    apply cnt_Permutation. intros x. apply cnt_Permutation with (x := x) in P1. rewrite cnt_cons in P1. specialize (H2 x). unfold L in H2. lia.
Qed.

Lemma compose_m_TR stp nb l : TR (compose_m csize stp nb l).
Proof.
  intros s. unfold compose_m.
  assert (Triv : forall r : cmres, mono s (snd (r, s)) /\ (clean s (snd (r, s)) -> (r, np s) = (fst (r, s), np (snd (r, s)))))
    by (intros; split; [apply mono_refl|reflexivity]).
  destruct (chars_required stp nb l) as [c|r]; [apply Triv|]. destruct (r =? INT_MAX)%Z; [apply Triv|].
  set (sz := (Z.to_N ((r + 1) mod 18446744073709551616) * csize)%N).
  destruct (TR_alloc true sz s) as [M1 T1]. destruct (alloc true sz s) as [[id|] s1]; cbn [fst snd] in *.
  2:{ split; [exact M1|]. intros C. rewrite (T1 C). reflexivity. }
  destruct (compose_ex false stp nb (r + 1)%Z l) as [c o lg|o w lg]; cbn [fst snd].
  - pose proof (ro_mono _ s1 (ro_free_blk id)) as M2. split; [mo|]. intros C. rewrite T1 by cl. rewrite (ro_np _ _ (ro_free_blk id)). reflexivity.
  - split; [exact M1|]. intros C. rewrite (T1 C). reflexivity.
Qed.

Lemma compose_m_OK stp nb l : OKP (fun r => negb (is_cm_oom r)) (compose_m csize stp nb l).
Proof.
  intros s. unfold compose_m. destruct (chars_required stp nb l) as [c|r]; [intros _; apply clean_refl|].
  destruct (r =? INT_MAX)%Z; [intros _; apply clean_refl|].
  set (sz := (Z.to_N ((r + 1) mod 18446744073709551616) * csize)%N).
  pose proof (alloc_OK true sz s) as K. destruct (alloc true sz s) as [[id|] s1]; cbn [fst snd is_some] in *.
  2:{ cbn [is_cm_oom]. rewrite N.eqb_refl. discriminate. }
  destruct (compose_ex false stp nb (r + 1)%Z l) as [c o lg|o w lg]; cbn [fst snd]; intros _.
  - apply (clean_ro_after _ _ _ (ro_free_blk id)). apply K. reflexivity.
  - apply K. reflexivity.
Qed.

Theorem compose_m_refused_is_oom stp nb l s :
  fails_between s (snd (compose_m csize stp nb l s)) -> fst (compose_m csize stp nb l s) = CMErr URI_ERROR_MALLOC.
Proof.
  intros F. destruct (is_cm_oom (fst (compose_m csize stp nb l s))) eqn:E.
  - destruct (fst (compose_m csize stp nb l s)) as [c|o b]; [|discriminate]. cbn [is_cm_oom] in E. apply N.eqb_eq in E. congruence.
  - exfalso. apply (proj1 (clean_iff_no_fail s (snd (compose_m csize stp nb l s)))); [|exact F].
    apply (compose_m_OK stp nb l s). rewrite E. reflexivity.
Qed.

Theorem compose_m_fault_transparent stp nb l s : ~ fails_between s (snd (compose_m csize stp nb l s)) ->
  compose_m csize stp nb l (np s) = (fst (compose_m csize stp nb l s), np (snd (compose_m csize stp nb l s))).
Proof. apply (TR_public (fun s => compose_m csize stp nb l s)). apply compose_m_TR. Qed.

(* under NoFault: out-of-memory exactly for a required size of INT_MAX *)
Theorem compose_m_nofault_oom stp nb l s : wf s -> ms_plan s = NoFault ->
  (fst (compose_m csize stp nb l s) = CMErr URI_ERROR_MALLOC <-> chars_required stp nb l = ZOk INT_MAX).
Proof.
  intros W NP. pose proof (compose_m_balanced stp nb l s W) as R. split.
  - intros E. destruct (compose_m csize stp nb l s) as [[c|o b] s']; cbn [fst] in E; [|discriminate]. injection E as ->.
    destruct R as (_ & _ & _ & X & _). destruct (X eq_refl) as [(k & _ & Hk)|[Y _]]; [rewrite NP in Hk; discriminate|exact Y].
  - intros E. unfold compose_m. rewrite E. rewrite Z.eqb_refl. reflexivity.
Qed.

(* ================================================================ erasure: the memory tier returns the pure tier's values *)
Lemma erase_q_rev l : erase_q (rev l) = rev (erase_q l).
Proof. apply map_rev. Qed.

Lemma append_item_m_erases pts bc kfn kr vr acc cnt0 s :
  match fst (append_item_m csize pts bc kfn kr vr s) with
  | AFail => True
  | ASkip => append_item pts bc kfn kr vr acc cnt0 = (acc, cnt0)
  | AItem it => append_item pts bc kfn kr vr acc cnt0 = (erase_qi it :: acc, (cnt0 + 1)%Z)
  end.
Proof.
  unfold append_item_m, append_item. destruct kfn; [reflexivity|].
  destruct kr as [|c kr'], vr as [v|]; try reflexivity;
  repeat match goal with
         | |- context [alloc false ?sz ?st] => destruct (alloc false sz st) as [[?|] ?]; [|exact I]
         end; reflexivity.
Qed.

Lemma dissect_walk_m_erases pts bc : forall l kfn kr vr acc cnt0 s items n s',
  dissect_walk_m csize pts bc l kfn kr vr acc cnt0 s = (DMOk items n, s') ->
  dissect_walk pts bc l kfn kr vr (erase_q acc) cnt0 = (erase_q items, n).
Proof.
  induction l as [|c r IH]; intros kfn kr vr acc cnt0 s items n s' E; cbn [dissect_walk_m dissect_walk] in *.
  - pose proof (append_item_m_erases pts bc kfn kr vr (erase_q acc) cnt0 s) as A.
    destruct (append_item_m csize pts bc kfn kr vr s) as [[| |it] s1]; cbn [fst] in A.
    + unfold fail_exit in E. discriminate.
    + injection E as <- <- <-. rewrite A, erase_q_rev. reflexivity.
    + injection E as <- <- <-. rewrite A. change (rev acc ++ [it]) with (rev (it :: acc)). rewrite erase_q_rev. reflexivity.
  - destruct (c =? 38)%N.
    + pose proof (append_item_m_erases pts bc kfn kr vr (erase_q acc) cnt0 s) as A.
      destruct (append_item_m csize pts bc kfn kr vr s) as [[| |it] s1]; cbn [fst] in A.
      * unfold fail_exit in E. discriminate.
      * rewrite A. eapply IH; eauto.
      * rewrite A. apply (IH _ _ _ (it :: acc) _ _ _ _ _ E).
    + destruct (c =? 61)%N; destruct vr; eapply IH; eauto.
Qed.

Theorem dissect_m_erases pts bc t s items n s' :
  dissect_m csize pts bc t s = (DMOk items n, s') -> dissect pts bc t = DOk (erase_q items) n.
Proof.
  intros E. unfold dissect_m in E. apply dissect_walk_m_erases in E. unfold dissect. cbn [erase_q map] in E. rewrite E. reflexivity.
Qed.

(* when no request is refused (in particular under NoFault) the erased result is the pure tier's *)
Theorem dissect_m_erasure pts bc t s :
  ~ fails_between s (snd (dissect_m csize pts bc t s)) -> wf s -> erase_d (fst (dissect_m csize pts bc t s)) = dissect pts bc t.
Proof.
  intros NF W. pose proof (dissect_m_balanced pts bc t s W) as R.
  destruct (dissect_m csize pts bc t s) as [[items n|d] s'] eqn:E; cbn [fst snd erase_d] in *.
  - symmetry. eapply dissect_m_erases; eauto.
  - exfalso. apply NF. apply R.
Qed.

Theorem compose_m_erasure stp nb l s cm : (INT_MAX <= cm)%Z ->
  ~ fails_between s (snd (compose_m csize stp nb l s)) -> wf s ->
  erase_c (fst (compose_m csize stp nb l s)) = compose_malloc cm stp nb l.
Proof.
  intros Hcm NF W. unfold compose_m, compose_malloc in *. destruct (chars_required stp nb l) as [c|r] eqn:ER; [reflexivity|].
  pose proof (chars_required_range _ _ _ _ ER) as Rg.
  destruct (r =? INT_MAX)%Z eqn:EI; [reflexivity|].
  rewrite Z.mod_small in * by (unfold INT_MAX in *; lia).
  replace (r + 1 >? cm)%Z with false by lia.
  destruct (alloc true (Z.to_N (r + 1) * csize) s) as [[id|] s1] eqn:A1.
  - destruct (compose_ex false stp nb (r + 1)%Z l); reflexivity.
  - exfalso. apply NF. cbn [snd]. eapply alloc_none_fails; eauto.
Qed.

End WithCsize.

(* ================================================================ the two deviations, with witnesses *)
(* "a=b&c", the fifth request (the key copy of the second item) refused: the call returns out-of-memory with an empty
   ledger, but *dest still names the released first node; a caller that hands it to uriFreeQueryListMm releases three
   blocks a second time *)
Theorem dissect_m_oom_dest_null_refuted :
  exists pts bc t p, match dissect_m 1 pts bc t (ms_init p) with
                     | (DMMalloc d, s') => d <> [] /\ ms_live s' = [] /\ bad_frees s' = 0 /\ bad_frees (free_query_list_m d s') = 3
                     | _ => False
                     end.
Proof.
  exists true, BrDontTouch, [97; 61; 98; 38; 99]%N, (FailOnce 5). vm_compute. repeat split. discriminate.
Qed.

(* one item, key of 715827881 characters, value of one: the required size is exactly INT_MAX and the call reports
   out-of-memory without having asked the manager for anything, under any plan *)
Theorem compose_m_oom_without_request_refuted :
  exists l, chars_required false false l = ZOk INT_MAX
            /\ forall csize s, compose_m csize false false l s = (CMErr URI_ERROR_MALLOC, s).
Proof.
  exists [(repeat 97%N (Z.to_nat 715827881), Some [97%N])].
  assert (E : chars_required false false [(repeat 97%N (Z.to_nat 715827881), Some [97%N])] = ZOk INT_MAX).
  { unfold chars_required. cbn [map]. unfold item_len. cbn [fst snd option_map]. rewrite repeat_length, Z2Nat.id by lia. cbn [length]. vm_compute. reflexivity. }
  split; [exact E|]. intros csize s. unfold compose_m. rewrite E. reflexivity.
Qed.

(* ================================================================ histories over URI objects, query lists and strings *)
(* A store with three kinds of things the caller holds: URI objects (as in Proofs/LedgerHistory.v), query lists, and
   composed strings ([None]: already released).  One ledger, any fault plan.  The caller is the documented one:
   after a failed dissect *dest is not used; a list / string is released once (the slot is then empty, a further
   release of that slot is uriFreeQueryListMm(NULL) / nothing). *)
Inductive qhop :=
| QUri (op : hop)                                        (* any step of Proofs/LedgerHistory.v on the URI objects *)
| QDissect (pts : bool) (bc : break_conv) (t : text)     (* a new list when the call succeeds *)
| QCompose (stp nb : bool) (i : nat)                     (* a new string from list i when the call succeeds *)
| QFreeList (i : nat)                                    (* uriFreeQueryListMm on list i *)
| QFreeString (i : nat).                                 (* the caller frees string i through the manager *)

Definition qstate := (list muri * list mqlist * list (option nat) * mstate)%type.
Definition q_uris (st : qstate) : list muri := fst (fst (fst st)).
Definition q_lists (st : qstate) : list mqlist := snd (fst (fst st)).
Definition q_strs (st : qstate) : list (option nat) := snd (fst st).
Definition q_mem (st : qstate) : mstate := snd st.

Section History.
Variable csize : N.

Definition qstep (st : qstate) (op : qhop) : qstate :=
  let '(uris, lists, strs, s) := st in
  match op with
  | QUri h => let (uris', s') := hstep csize (uris, s) h in (uris', lists, strs, s')
  | QDissect pts bc t =>
    match dissect_m csize pts bc t s with
    | (DMOk items _, s') => (uris, lists ++ [items], strs, s')
    | (DMMalloc _, s') => (uris, lists, strs, s')
    end
  | QCompose stp nb i =>
    match nth_error lists i with
    | Some l => match compose_m csize stp nb (erase_q l) s with
                | (CMOk _ b, s') => (uris, lists, strs ++ [Some b], s')
                | (CMErr _, s') => (uris, lists, strs, s')
                end
    | None => st
    end
  | QFreeList i =>
    match nth_error lists i with
    | Some l => (uris, upd lists i [], strs, free_query_list_m l s)
    | None => st
    end
  | QFreeString i =>
    match nth_error strs i with
    | Some (Some b) => (uris, lists, upd strs i None, free_blk b s)
    | _ => st
    end
  end.

Definition qrun (ops : list qhop) (st : qstate) : qstate := fold_left qstep ops st.

Definition list_blocks (lists : list mqlist) : list nat := flat_map mqlist_blocks lists.
Definition str_blocks (strs : list (option nat)) : list nat := flat_map blk_list strs.

(* the ledger holds exactly the blocks of the URI objects, of the lists and of the strings *)
Definition qbalanced (st : qstate) : Prop :=
  wf (q_mem st) /\ Forall (fun m => consistent m /\ sane m) (q_uris st)
  /\ forall x, L (q_mem st) x = cnt (all_blocks (q_uris st)) x + cnt (list_blocks (q_lists st)) x + cnt (str_blocks (q_strs st)) x.

(* ---- the steps of Proofs/LedgerHistory.v with other holders of blocks around ([F]: what they hold) *)
Definition balancedF (F : nat -> nat) (objs : list muri) (s : mstate) : Prop :=
  wf s /\ Forall (fun m => consistent m /\ sane m) objs /\ forall x, L s x = cnt (all_blocks objs) x + F x.

Lemma balancedF_owns F objs s i m : balancedF F objs s -> nth_error objs i = Some m -> owns m s /\ sane m.
Proof.
  intros (W & Fa & B) H. destruct (nth_Forall _ _ _ _ Fa H) as [C Sn]. split; [|exact Sn]. split; [exact C|].
  intros x. rewrite (B x). pose proof (nth_blocks _ _ _ x H). lia.
Qed.

Lemma hstep_framed F objs s op : balancedF F objs s ->
  let st' := hstep csize (objs, s) op in
  balancedF F (fst st') (snd st') /\ bad_frees (snd st') = bad_frees s.
Proof.
  intros Bal. pose proof Bal as (W & Fa & B). cbv zeta. destruct op as [t|i mask|i|compat i j|dr i j|i]; cbn [hstep].
  - (* parse *)
    pose proof (parse_m_no_residue t s W) as R. destruct (parse_m t s) as [[m|pos|] s'] eqn:EP; cbn [fst snd].
    + destruct R as (W' & E' & O' & _ & P'). split; [|apply E'].
      split; [exact W'|]. split.
      * apply Forall_app. split; [exact Fa|]. constructor; [|constructor]. split; [apply O'|exact (parse_m_sane _ _ _ _ EP)].
      * intros x. apply cnt_Permutation with (x := x) in P'. rewrite all_blocks_app, !cnt_app in *. unfold all_blocks at 2. cbn [flat_map].
        rewrite app_nil_r. specialize (B x). unfold L in *. lia.
    + destruct R as (W' & E' & P'). split; [|apply E']. split; [exact W'|]. split; [exact Fa|].
      intros x. apply cnt_Permutation with (x := x) in P'. unfold L in *. rewrite P'. apply B.
    + destruct R as (W' & E' & P' & _). split; [|apply E']. split; [exact W'|]. split; [exact Fa|].
      intros x. apply cnt_Permutation with (x := x) in P'. unfold L in *. rewrite P'. apply B.
  - (* normalize *)
    destruct (nth_error objs i) as [m|] eqn:EN; [|cbn [fst snd]; auto].
    destruct (balancedF_owns _ _ _ _ _ Bal EN) as [O Sn].
    pose proof (normalize_m_spec csize mask m s W O (fun _ => Sn)) as R. pose proof (normalize_m_sane csize mask m s Sn) as Sn'.
    destruct (normalize_m csize mask m s) as [[rc m'] s']. cbn [fst snd] in *. destruct R as (W' & E' & C' & A' & _).
    split; [|apply E'].
    split; [exact W'|]. split; [apply upd_Forall; [exact Fa|split; assumption]|].
    intros x. pose proof (upd_blocks objs i m m' x EN). specialize (A' x). specialize (B x). lia.
  - (* make owner *)
    destruct (nth_error objs i) as [m|] eqn:EN; [|cbn [fst snd]; auto].
    destruct (balancedF_owns _ _ _ _ _ Bal EN) as [O Sn].
    pose proof (make_owner_m_spec csize m s W O) as R. pose proof (make_owner_m_sane csize m s Sn) as Sn'.
    destruct (make_owner_m csize m s) as [[rc m'] s']. cbn [fst snd] in *. destruct R as (W' & E' & C' & A' & _).
    split; [|apply E'].
    split; [exact W'|]. split; [apply upd_Forall; [exact Fa|split; assumption]|].
    intros x. pose proof (upd_blocks objs i m m' x EN). specialize (A' x). specialize (B x). lia.
  - (* add base *)
    destruct (nth_error objs i) as [r|] eqn:EI; [|cbn [fst snd]; auto]. destruct (nth_error objs j) as [b|] eqn:EJ; [|cbn [fst snd]; auto].
    destruct (balancedF_owns _ _ _ _ _ Bal EI) as [_ Sr]. destruct (balancedF_owns _ _ _ _ _ Bal EJ) as [_ Sb].
    pose proof (add_base_m_spec compat r b s W) as R. pose proof (add_base_m_sane compat r b s Sr Sb) as Sd.
    destruct (add_base_m compat r b s) as [[rc d] s']. cbn [fst snd] in *. destruct R as (W' & E' & C' & _ & O' & _).
    split; [|apply E']. split; [exact W'|]. split.
    + apply Forall_app. split; [exact Fa|]. constructor; [split; assumption|constructor].
    + intros x. rewrite all_blocks_app, cnt_app. unfold all_blocks at 2. cbn [flat_map]. rewrite app_nil_r. rewrite (O' x), (B x). lia.
  - (* remove base *)
    destruct (nth_error objs i) as [r|] eqn:EI; [|cbn [fst snd]; auto]. destruct (nth_error objs j) as [b|] eqn:EJ; [|cbn [fst snd]; auto].
    destruct (balancedF_owns _ _ _ _ _ Bal EI) as [_ Sr]. destruct (balancedF_owns _ _ _ _ _ Bal EJ) as [_ Sb].
    pose proof (remove_base_m_spec dr r b s W) as R. pose proof (remove_base_m_sane dr r b s Sr Sb) as Sd.
    destruct (remove_base_m dr r b s) as [[rc d] s']. cbn [fst snd] in *. destruct R as (W' & E' & C' & _ & O' & _).
    split; [|apply E']. split; [exact W'|]. split.
    + apply Forall_app. split; [exact Fa|]. constructor; [split; assumption|constructor].
    + intros x. rewrite all_blocks_app, cnt_app. unfold all_blocks at 2. cbn [flat_map]. rewrite app_nil_r. rewrite (O' x), (B x). lia.
  - (* free members *)
    destruct (nth_error objs i) as [m|] eqn:EN; [|cbn [fst snd]; auto].
    destruct (balancedF_owns _ _ _ _ _ Bal EN) as [O Sn].
    pose proof (free_members_sane m s Sn) as Sn'.
    destruct (free_members m s) as [m' s'] eqn:EF. cbn [fst snd] in *.
    destruct (free_members_rel m s m' s' W O EF) as (Rl & Eb & C' & _ & _). drel Rl W' E' Q' N' H'.
    split; [|apply E'].
    split; [exact W'|]. split; [apply upd_Forall; [exact Fa|split; assumption]|].
    intros x. pose proof (upd_blocks objs i m m' x EN) as U. rewrite Eb, cnt_nil in U. specialize (H' x). specialize (B x). lia.
Qed.

(* ---- slots *)
Lemma upd_flat {A} (f : A -> list nat) (l : list A) : forall i a a' x, nth_error l i = Some a ->
  cnt (flat_map f (upd l i a')) x + cnt (f a) x = cnt (flat_map f l) x + cnt (f a') x.
Proof.
  induction l as [|b r IH]; intros [|i] a a' x H; cbn in H; try discriminate.
  - injection H as ->. cbn [upd flat_map]. rewrite !cnt_app. lia.
  - cbn [upd flat_map]. rewrite !cnt_app. specialize (IH i a a' x H). lia.
Qed.
Lemma nth_flat {A} (f : A -> list nat) (l : list A) : forall i a x, nth_error l i = Some a -> cnt (f a) x <= cnt (flat_map f l) x.
Proof.
  induction l as [|b r IH]; intros [|i] a x H; cbn in H; try discriminate; cbn [flat_map]; rewrite cnt_app.
  - injection H as ->. lia.
  - specialize (IH i a x H). lia.
Qed.
Lemma upd_same {A} (l : list A) : forall i a, nth_error l i = Some a -> upd l i a = l.
Proof. induction l as [|b r IH]; intros [|i] a H; cbn in *; try discriminate; [injection H as ->; reflexivity|f_equal; auto]. Qed.

(* one step keeps the invariant and releases nothing that is not live *)
Theorem qstep_balanced st op : qbalanced st -> qbalanced (qstep st op) /\ bad_frees (q_mem (qstep st op)) = bad_frees (q_mem st).
Proof.
  destruct st as [[[uris lists] strs] s]. unfold qbalanced, q_mem, q_uris, q_lists, q_strs. cbn [fst snd].
  intros (W & Fa & B). destruct op as [h|pts bc t|stp nb i|i|i]; cbn [qstep].
  - (* a URI step *)
    pose proof (hstep_framed (fun x => cnt (list_blocks lists) x + cnt (str_blocks strs) x) uris s h) as R.
    destruct (hstep csize (uris, s) h) as [uris' s']. cbn [fst snd] in *.
    destruct R as ((W' & Fa' & B') & Bf'). { split; [exact W|]. split; [exact Fa|]. intros x. rewrite (B x). lia. }
    split; [|exact Bf']. split; [exact W'|]. split; [exact Fa'|]. intros x. rewrite (B' x). lia.
  - (* dissect *)
    pose proof (dissect_m_balanced csize pts bc t s W) as R.
    destruct (dissect_m csize pts bc t s) as [[items n|d] s']; cbn [fst snd].
    + destruct R as (W' & E' & P' & _). split; [|apply E']. split; [exact W'|]. split; [exact Fa|].
      intros x. apply cnt_Permutation with (x := x) in P'. rewrite cnt_app in P'. unfold list_blocks. rewrite flat_map_app, cnt_app. cbn [flat_map].
      rewrite app_nil_r. specialize (B x). unfold L, list_blocks in *. lia.
    + destruct R as (W' & E' & P' & _). split; [|apply E']. split; [exact W'|]. split; [exact Fa|].
      intros x. apply cnt_Permutation with (x := x) in P'. specialize (B x). unfold L in *. lia.
  - (* compose *)
    destruct (nth_error lists i) as [l|]; [|cbn [fst snd]; auto].
    pose proof (compose_m_balanced csize stp nb (erase_q l) s W) as R.
    destruct (compose_m csize stp nb (erase_q l) s) as [[c|out b] s']; cbn [fst snd].
    + destruct R as (W' & E' & P' & _). split; [|apply E']. split; [exact W'|]. split; [exact Fa|].
      intros x. apply cnt_Permutation with (x := x) in P'. specialize (B x). unfold L in *. lia.
    + destruct R as (W' & E' & P' & _). split; [|apply E']. split; [exact W'|]. split; [exact Fa|].
      intros x. apply cnt_Permutation with (x := x) in P'. rewrite cnt_cons in P'. unfold str_blocks. rewrite flat_map_app, cnt_app. cbn [flat_map blk_list].
      rewrite app_nil_r. specialize (B x). unfold L, str_blocks in *. lia.
  - (* free list *)
    destruct (nth_error lists i) as [l|] eqn:EN; [|cbn [fst snd]; auto]. cbn [fst snd].
    assert (H : forall x, cnt (mqlist_blocks l) x <= L s x).
    { intros x. rewrite (B x). pose proof (nth_flat mqlist_blocks lists i l x EN). unfold list_blocks. lia. }
    destruct (free_query_list_m_rel l s W H) as (W' & E' & _ & _ & H').
    split; [|apply E']. split; [exact W'|]. split; [exact Fa|].
    intros x. pose proof (upd_flat mqlist_blocks lists i l [] x EN) as U. cbn [mqlist_blocks flat_map] in U. rewrite cnt_nil in U.
    specialize (H' x). specialize (B x). unfold list_blocks in *. lia.
  - (* free string *)
    destruct (nth_error strs i) as [[b|]|] eqn:EN; try (cbn [fst snd]; auto). cbn [fst snd].
    assert (Lb : 1 <= L s b).
    { rewrite (B b). pose proof (nth_flat blk_list strs i (Some b) b EN) as X. cbn [blk_list] in X. rewrite cnt_self in X. unfold str_blocks. lia. }
    destruct (free_blk_ok b s W Lb) as (W' & E' & _ & _ & H').
    split; [|apply E']. split; [exact W'|]. split; [exact Fa|].
    intros x. pose proof (upd_flat blk_list strs i (Some b) None x EN) as U. cbn [blk_list] in U. rewrite cnt_nil in U.
    specialize (H' x). specialize (B x). unfold str_blocks in *. lia.
Qed.

Definition q_init (p : fault_plan) : qstate := ([], [], [], ms_init p).

Lemma qrun_balanced ops : forall st, qbalanced st -> qbalanced (qrun ops st) /\ bad_frees (q_mem (qrun ops st)) = bad_frees (q_mem st).
Proof.
  unfold qrun. induction ops as [|op r IH]; intros st Bal; cbn [fold_left]; [auto|].
  destruct (qstep_balanced st op Bal) as [B' Bf']. destruct (IH _ B') as [B'' Bf'']. split; [exact B''|congruence].
Qed.

(* any history from the empty store and the empty ledger, under any plan *)
Theorem qhistory_balanced p ops : qbalanced (qrun ops (q_init p)) /\ bad_frees (q_mem (qrun ops (q_init p))) = 0.
Proof.
  apply qrun_balanced. split; [apply wf_init|]. split; [constructor|]. intros x. reflexivity.
Qed.

Lemma qbalanced_meaning st : qbalanced st <->
  (wf (q_mem st) /\ Forall (fun m => consistent m /\ sane m) (q_uris st)
   /\ Permutation (live_ids (q_mem st))
        (flat_map muri_blocks (q_uris st) ++ flat_map mqlist_blocks (q_lists st) ++ flat_map blk_list (q_strs st))).
Proof.
  unfold qbalanced, all_blocks, list_blocks, str_blocks. rewrite cnt_Permutation. unfold L.
  split; intros (a & b & c); (split; [exact a|split; [exact b|]]); intros x; specialize (c x); rewrite !cnt_app in *; lia.
Qed.

(* ---- releasing everything the store holds *)
Definition qfree_all (nu nl ns : nat) : list qhop :=
  map (fun i => QUri (HFree i)) (seq 0 nu) ++ map QFreeList (seq 0 nl) ++ map QFreeString (seq 0 ns).

Lemma phase {A} (P : A -> Prop) (get : qstate -> list A) (OP : nat -> qhop) :
  (forall st i a, qbalanced st -> nth_error (get st) i = Some a -> exists a', P a' /\ get (qstep st (OP i)) = upd (get st) i a') ->
  forall k a st, qbalanced st -> a + k = length (get st) -> Forall P (firstn a (get st)) ->
    Forall P (get (qrun (map OP (seq a k)) st)).
Proof.
  intros Hop. induction k as [|k IH]; intros a st Bal Hlen Fe.
  - cbn [seq map qrun fold_left]. replace a with (length (get st)) in Fe by lia. rewrite firstn_all in Fe. exact Fe.
  - cbn [seq map]. unfold qrun. cbn [fold_left].
    destruct (nth_error (get st) a) as [x|] eqn:EN; [|apply nth_error_None in EN; lia].
    destruct (Hop st a x Bal EN) as (a' & Pa' & Eg).
    apply (IH (S a) (qstep st (OP a))).
    + apply qstep_balanced. exact Bal.
    + rewrite Eg, upd_length. lia.
    + rewrite Eg. eapply firstn_upd_Forall; eauto.
Qed.

Lemma phase_keeps {B} (get2 : qstate -> B) (OP : nat -> qhop) :
  (forall st i, get2 (qstep st (OP i)) = get2 st) -> forall l st, get2 (qrun (map OP l) st) = get2 st.
Proof.
  intros H. unfold qrun. induction l as [|i r IH]; intros st; cbn [map fold_left]; [reflexivity|]. rewrite IH. apply H.
Qed.

Lemma flat_map_nil {A} (f : A -> list nat) (l : list A) : Forall (fun a => f a = []) l -> flat_map f l = [].
Proof. induction 1 as [|a r Ha _ IH]; [reflexivity|]. cbn [flat_map]. rewrite Ha, IH. reflexivity. Qed.

Lemma op_free_uri st i m : qbalanced st -> nth_error (q_uris st) i = Some m ->
  exists m', muri_blocks m' = [] /\ q_uris (qstep st (QUri (HFree i))) = upd (q_uris st) i m'.
Proof.
  destruct st as [[[uris lists] strs] s]. unfold qbalanced, q_mem, q_uris, q_lists, q_strs. cbn [fst snd].
  intros (W & Fa & B) EN. cbn [qstep hstep]. rewrite EN.
  assert (O : owns m s).
  { destruct (nth_Forall _ _ _ _ Fa EN) as [C _]. split; [exact C|]. intros x. rewrite (B x). pose proof (nth_blocks _ _ _ x EN). lia. }
  destruct (free_members m s) as [m' s'] eqn:EF. destruct (free_members_rel m s m' s' W O EF) as (_ & Eb & _).
  exists m'. split; [exact Eb|reflexivity].
Qed.
Lemma op_free_list st i l : qbalanced st -> nth_error (q_lists st) i = Some l ->
  exists l', l' = [] /\ q_lists (qstep st (QFreeList i)) = upd (q_lists st) i l'.
Proof.
  destruct st as [[[uris lists] strs] s]. unfold q_lists. cbn [fst snd]. intros _ EN. cbn [qstep]. rewrite EN. exists []. auto.
Qed.
Lemma op_free_string st i o : qbalanced st -> nth_error (q_strs st) i = Some o ->
  exists o', o' = None /\ q_strs (qstep st (QFreeString i)) = upd (q_strs st) i o'.
Proof.
  destruct st as [[[uris lists] strs] s]. unfold q_strs. cbn [fst snd]. intros _ EN. cbn [qstep]. rewrite EN. exists None. split; [reflexivity|].
  destruct o as [b|]; cbn [fst snd]; [reflexivity|]. symmetry. apply upd_same. exact EN.
Qed.

Lemma keep_uri_step st i : q_lists (qstep st (QUri (HFree i))) = q_lists st /\ q_strs (qstep st (QUri (HFree i))) = q_strs st.
Proof. destruct st as [[[uris lists] strs] s]. cbn [qstep]. destruct (hstep csize (uris, s) (HFree i)). auto. Qed.
Lemma keep_list_step st i : q_uris (qstep st (QFreeList i)) = q_uris st /\ q_strs (qstep st (QFreeList i)) = q_strs st.
Proof. destruct st as [[[uris lists] strs] s]. cbn [qstep]. destruct (nth_error lists i); auto. Qed.
Lemma keep_string_step st i : q_uris (qstep st (QFreeString i)) = q_uris st /\ q_lists (qstep st (QFreeString i)) = q_lists st.
Proof. destruct st as [[[uris lists] strs] s]. cbn [qstep]. destruct (nth_error strs i) as [[b|]|]; auto. Qed.

Theorem qhistory_then_release_leaves_nothing p ops :
  let st := qrun ops (q_init p) in
  let st' := qrun (qfree_all (length (q_uris st)) (length (q_lists st)) (length (q_strs st))) st in
  ms_live (q_mem st') = [] /\ bad_frees (q_mem st') = 0.
Proof.
  cbv zeta. destruct (qhistory_balanced p ops) as [Bal Bf]. set (st := qrun ops (q_init p)) in *. clearbody st.
  unfold qfree_all, qrun. rewrite !fold_left_app. fold (qrun (map (fun i => QUri (HFree i)) (seq 0 (length (q_uris st)))) st).
  set (st1 := qrun (map (fun i => QUri (HFree i)) (seq 0 (length (q_uris st)))) st).
  fold (qrun (map QFreeList (seq 0 (length (q_lists st)))) st1). set (st2 := qrun (map QFreeList (seq 0 (length (q_lists st)))) st1).
  fold (qrun (map QFreeString (seq 0 (length (q_strs st)))) st2). set (st3 := qrun (map QFreeString (seq 0 (length (q_strs st)))) st2).
  (* phase 1 *)
  assert (U1 : Forall (fun m => muri_blocks m = []) (q_uris st1)).
  { apply (phase (fun m => muri_blocks m = []) q_uris (fun i => QUri (HFree i))); [intros; eapply op_free_uri; eauto|exact Bal|lia|constructor]. }
  assert (L1 : q_lists st1 = q_lists st) by (apply (phase_keeps q_lists (fun i => QUri (HFree i))); intros; apply keep_uri_step).
  assert (S1 : q_strs st1 = q_strs st) by (apply (phase_keeps q_strs (fun i => QUri (HFree i))); intros; apply keep_uri_step).
  destruct (qrun_balanced (map (fun i => QUri (HFree i)) (seq 0 (length (q_uris st)))) st Bal) as [Bal1 Bf1]. fold st1 in Bal1, Bf1.
  (* phase 2 *)
  assert (L2 : Forall (fun l => l = []) (q_lists st2)).
  { apply (phase (fun l => l = []) q_lists QFreeList); [intros; eapply op_free_list; eauto|exact Bal1|rewrite L1; reflexivity|constructor]. }
  assert (U2 : q_uris st2 = q_uris st1) by (apply (phase_keeps q_uris QFreeList); intros; apply keep_list_step).
  assert (S2 : q_strs st2 = q_strs st1) by (apply (phase_keeps q_strs QFreeList); intros; apply keep_list_step).
  destruct (qrun_balanced (map QFreeList (seq 0 (length (q_lists st)))) st1 Bal1) as [Bal2 Bf2]. fold st2 in Bal2, Bf2.
  (* phase 3 *)
  assert (S3 : Forall (fun o => o = None) (q_strs st3)).
  { apply (phase (fun o => o = None) q_strs QFreeString); [intros; eapply op_free_string; eauto|exact Bal2|rewrite S2, S1; reflexivity|constructor]. }
  assert (U3 : q_uris st3 = q_uris st2) by (apply (phase_keeps q_uris QFreeString); intros; apply keep_string_step).
  assert (L3 : q_lists st3 = q_lists st2) by (apply (phase_keeps q_lists QFreeString); intros; apply keep_string_step).
  destruct (qrun_balanced (map QFreeString (seq 0 (length (q_strs st)))) st2 Bal2) as [Bal3 Bf3]. fold st3 in Bal3, Bf3.
  split; [|congruence].
  destruct Bal3 as (_ & _ & B3). apply perm_nil_live. apply cnt_Permutation. intros x. specialize (B3 x).
  rewrite U3, U2, L3 in B3. unfold all_blocks, list_blocks, str_blocks in B3.
  rewrite (flat_map_nil muri_blocks _ U1) in B3.
  rewrite (flat_map_nil mqlist_blocks (q_lists st2)) in B3.
  2:{ eapply Forall_impl; [|exact L2]. intros l ->. reflexivity. }
  rewrite (flat_map_nil blk_list (q_strs st3)) in B3.
  2:{ eapply Forall_impl; [|exact S3]. intros o ->. reflexivity. }
  unfold L in B3. rewrite B3. reflexivity.
Qed.

(* one concrete shape, spelled out: dissect a text, compose the list, free the string, free the list -- whatever the
   two calls return, under any plan, nothing is outstanding and nothing was released twice *)
Theorem history_dissect_compose_free p pts bc stp nb t :
  match dissect_m csize pts bc t (ms_init p) with
  | (DMOk items n, s1) =>
    let '(r, s2) := compose_m csize stp nb (erase_q items) s1 in
    let s3 := free_string_m r s2 in
    let s4 := free_query_list_m items s3 in
    ms_live s4 = [] /\ bad_frees s4 = 0
  | (DMMalloc _, s1) => ms_live s1 = [] /\ bad_frees s1 = 0
  end.
Proof.
  pose proof (dissect_m_balanced csize pts bc t (ms_init p) (wf_init p)) as R.
  destruct (dissect_m csize pts bc t (ms_init p)) as [[items n|d] s1] eqn:ED.
  - destruct R as (W1 & E1 & P1 & ND & _). cbn [ms_init live_ids ms_live map] in P1. rewrite app_nil_r in P1.
    pose proof (compose_m_release csize stp nb (erase_q items) s1 W1) as R2.
    destruct (compose_m csize stp nb (erase_q items) s1) as [r s2]. cbv zeta in *. destruct R2 as (W3 & P3 & B3 & _).
    assert (IN : incl (mqlist_blocks items) (live_ids (free_string_m r s2))).
    { intros b Hb. apply (Permutation_in b (Permutation_sym P3)). apply (Permutation_in b (Permutation_sym P1)). exact Hb. }
    destruct (free_query_list_m_releases items _ W3 ND IN) as (W4 & P4 & B4 & _). cbv zeta in *.
    split; [|rewrite B4, B3; apply E1].
    apply perm_nil_live. apply (Permutation_app_inv_l (mqlist_blocks items)). rewrite app_nil_r, <- P4, P3. exact P1.
  - destruct R as (_ & E1 & P1 & _). split; [apply perm_nil_live; exact P1|apply E1].
Qed.
End History.

Lemma is_oom_meaning r : is_oom r = true <-> exists d, r = DMMalloc d.
Proof.
  destruct r as [items n|d]; cbn [is_oom]; split.
  - discriminate.
  - intros (d & H). discriminate.
  - intros _. eexists. reflexivity.
  - reflexivity.
Qed.
