(* C01 by reflection: a bisimulation between the control automaton of Model/Parse.v and the
   Brzozowski derivatives of the RFC 3986 grammar, computed by an untrusted exploration and
   verified by a boolean checker whose soundness is proved here once and for all words. *)
From Coq Require Import List NArith Bool Lia Arith.
From UP Require Import Base.Chars Base.Regex Base.Atoms Model.Uri Model.Ip4 Model.Parse Spec.Rfc3986 Spec.ErrPos.
Import ListNotations.

Scheme Equality for atom.
Scheme Equality for oct.
Scheme Equality for segk.
Scheme Equality for qfk.
Scheme Equality for pret.
Scheme Equality for ctrl.

(* ---------------------------------------------------------------- atom-level mirror of Spec/ErrPos.v *)
Definition is_lb (a : atom) : bool := match a with A_lb => true | _ => false end.
Definition is_rb (a : atom) : bool := match a with A_rb => true | _ => false end.

Fixpoint close_from_a (w : list atom) (i : nat) : nat :=
  match w with
  | [] => i
  | a :: w' => if is_rb a then i else close_from_a w' (S i)
  end.
Definition track_a (t : option nat) (a : atom) (i : nat) : option nat :=
  if is_lb a then Some i else if is_rb a then None else t.
Fixpoint err_window_a (r : re) (t : option nat) (i : nat) (w : list atom) : nat * nat :=
  match w with
  | [] => (i, i)
  | a :: w' =>
    let r' := deriv_a a r in
    if is_empty r' then
      match t with None => (i, i) | Some lb => (lb, close_from_a w i) end
    else err_window_a r' (track_a t a i) (S i) w'
  end.

Local Open Scope N_scope.
Lemma atom_is_lb c : is_lb (atom_of c) = (c =? 91).
Proof.
  destruct (c =? 91) eqn:E; [apply N.eqb_eq in E; subst; reflexivity|].
  unfold atom_of, in_range.
  repeat match goal with |- context [if ?b then _ else _] =>
    let E' := fresh "E" in destruct b eqn:E'; [try reflexivity; exfalso; lia|] end.
  reflexivity.
Qed.
Lemma atom_is_rb c : is_rb (atom_of c) = (c =? 93).
Proof.
  destruct (c =? 93) eqn:E; [apply N.eqb_eq in E; subst; reflexivity|].
  unfold atom_of, in_range.
  repeat match goal with |- context [if ?b then _ else _] =>
    let E' := fresh "E" in destruct b eqn:E'; [try reflexivity; exfalso; lia|] end.
  reflexivity.
Qed.
Local Close Scope N_scope.

Lemma close_from_atoms w : forall i, close_from w i = close_from_a (map atom_of w) i.
Proof.
  induction w as [|c w IH]; intros i; cbn [close_from close_from_a map]; [reflexivity|].
  rewrite atom_is_rb. destruct (N.eqb c 93); [reflexivity|apply IH].
Qed.

Lemma err_window_atoms w : forall r t i, re_sat r = true ->
  err_window r t i w = err_window_a r t i (map atom_of w).
Proof.
  induction w as [|c w IH]; intros r t i H; [reflexivity|].
  cbn [err_window err_window_a map]. unfold deriv_a. rewrite <- (deriv_atom c r H).
  destruct (is_empty (deriv c r)).
  - destruct t; [|reflexivity]. f_equal. apply (close_from_atoms (c :: w)).
  - unfold track, track_a. rewrite atom_is_lb, atom_is_rb. apply IH. apply re_sat_deriv. exact H.
Qed.

(* ---------------------------------------------------------------- facts about dead derivatives *)
Lemma empty_not_nullable r : is_empty r = true -> nullable r = false.
Proof.
  intros H. destruct (nullable r) eqn:E; [|reflexivity].
  apply nullable_spec in E. exfalso. eapply is_empty_true; eauto.
Qed.

Lemma empty_deriv c r : is_empty r = true -> is_empty (deriv c r) = true.
Proof.
  intros H. destruct (is_empty (deriv c r)) eqn:E; [reflexivity|].
  apply is_empty_false in E. destruct E as [s Hs]. apply deriv_spec in Hs.
  exfalso. eapply is_empty_true; eauto.
Qed.

Lemma empty_derivs_a w : forall r, is_empty r = true -> nullable (derivs_a r w) = false.
Proof.
  induction w as [|a w IH]; intros r H; cbn [derivs_a]; [apply empty_not_nullable; exact H|].
  apply IH. apply empty_deriv. exact H.
Qed.

(* ---------------------------------------------------------------- the checker *)
(* control states inside a bracketed literal *)
Definition lit_state (c : ctrl) : bool :=
  match c with
  | CIpLit | CFutV | CFutHex | CFutLoop1 | CFutLoop | CV6 _ _ _ _ _ | CV6Colon _ _ | CV6CC _ => true
  | _ => false
  end.
(* a lower bound on the number of characters read since the '[' *)
Definition lbound (c : ctrl) : nat :=
  match c with
  | CV6 _ _ _ o _ => oct_count o
  | CV6Colon _ _ => 1
  | CV6CC _ => 2
  | _ => 0
  end.

Definition pair_eqb (p q : ctrl * re) : bool := ctrl_beq (fst p) (fst q) && re_eqb (snd p) (snd q).
Definition in_pairs (p : ctrl * re) (R : list (ctrl * re)) : bool := existsb (pair_eqb p) R.
Definition in_ctrls (c : ctrl) (Z : list ctrl) : bool := existsb (ctrl_beq c) Z.

Lemma in_pairs_In p R : in_pairs p R = true -> In p R.
Proof.
  unfold in_pairs. rewrite existsb_exists. intros [q [Hq E]]. unfold pair_eqb in E.
  apply andb_true_iff in E. destruct E as [E1 E2].
  apply internal_ctrl_dec_bl in E1. apply re_eqb_eq in E2. destruct p, q; cbn in *; subst. exact Hq.
Qed.
Lemma in_ctrls_In c Z : in_ctrls c Z = true -> In c Z.
Proof.
  unfold in_ctrls. rewrite existsb_exists. intros [q [Hq E]]. apply internal_ctrl_dec_bl in E. subst. exact Hq.
Qed.

Section Checker.
Variable R : list (ctrl * re).     (* live pairs *)
Variable Z : list ctrl.            (* control states reachable after the derivative has died *)

Definition fin_acc (c : ctrl) : bool := match snd (pfinish c) with Acc => true | StopEnd => false end.

Definition check_live_step (c : ctrl) (r : re) (a : atom) : bool :=
  let r' := deriv_a a r in
  match snd (ptrans c a) with
  | Go c' =>
    if is_empty r' then
      lit_state c && negb (is_lb a) && negb (is_rb a) && in_ctrls c' Z && Nat.leb (lbound c') (S (lbound c))
    else
      in_pairs (c', r') R
      && Bool.eqb (lit_state c') (if is_lb a then true else if is_rb a then false else lit_state c)
      && (if is_lb a then Nat.eqb (lbound c') 0 else Nat.leb (lbound c') (S (lbound c)))
  | Stop off =>
    is_empty r' && (if lit_state c then Nat.leb off (lbound c) else Nat.eqb off 0)
  end.

Definition check_live (p : ctrl * re) : bool :=
  let (c, r) := p in
  negb (is_empty r) && Bool.eqb (fin_acc c) (nullable r) && forallb (check_live_step c r) all_atoms.

Definition check_zombie_step (c : ctrl) (a : atom) : bool :=
  match snd (ptrans c a) with
  | Go c' => negb (is_rb a) && in_ctrls c' Z && Nat.leb (lbound c') (S (lbound c))
  | Stop off => Nat.leb off (lbound c)
  end.
Definition check_zombie (c : ctrl) : bool :=
  lit_state c && negb (fin_acc c) && forallb (check_zombie_step c) all_atoms.

Definition check_all : bool := forallb check_live R && forallb check_zombie Z.

Hypothesis OK : check_all = true.

Lemma live_ok p : In p R -> check_live p = true.
Proof. intros H. unfold check_all in OK. apply andb_true_iff in OK. destruct OK as [H1 _].
  rewrite forallb_forall in H1. auto. Qed.
Lemma zombie_ok c : In c Z -> check_zombie c = true.
Proof. intros H. unfold check_all in OK. apply andb_true_iff in OK. destruct OK as [_ H2].
  rewrite forallb_forall in H2. auto. Qed.

Lemma close_from_a_ge w : forall i, i <= close_from_a w i.
Proof. induction w as [|a w IH]; intros i; cbn [close_from_a]; [lia|]. destruct (is_rb a); [lia|]. specialize (IH (S i)). lia. Qed.

(* once the derivative has died: the run ends with a syntax error inside the literal *)
Lemma zombie_run w : forall c i lb, In c Z -> lb + 1 + lbound c <= i ->
  exists e, crun c i w = CErr e /\ lb <= e /\ e <= close_from_a w i.
Proof.
  induction w as [|a w IH]; intros c i lb Hc Hb.
  - pose proof (zombie_ok _ Hc) as K. unfold check_zombie in K.
    apply andb_true_iff in K. destruct K as [K _]. apply andb_true_iff in K. destruct K as [_ K].
    unfold fin_acc in K. cbn [crun]. destruct (snd (pfinish c)); [discriminate|].
    exists i. cbn [close_from_a]. repeat split; lia.
  - pose proof (zombie_ok _ Hc) as K. unfold check_zombie in K.
    apply andb_true_iff in K. destruct K as [_ K]. rewrite forallb_forall in K.
    specialize (K a (all_atoms_complete a)). unfold check_zombie_step in K.
    cbn [crun close_from_a]. destruct (snd (ptrans c a)) as [c'|off].
    + apply andb_true_iff in K. destruct K as [K K3]. apply andb_true_iff in K. destruct K as [K1 K2].
      apply negb_true_iff in K1. rewrite K1. apply in_ctrls_In in K2. apply Nat.leb_le in K3.
      destruct (IH c' (S i) lb K2) as [e [E1 [E2 E3]]]; [lia|]. exists e. auto.
    + apply Nat.leb_le in K. exists (i - off). split; [reflexivity|]. split; [lia|].
      destruct (is_rb a); [lia|]. pose proof (close_from_a_ge w (S i)). lia.
Qed.

(* while the derivative is alive *)
Lemma live_run w : forall c r i t, In (c, r) R ->
  (lit_state c = true <-> t <> None) ->
  (forall lb, t = Some lb -> lb + 1 + lbound c <= i) ->
  match crun c i w with
  | CAcc => nullable (derivs_a r w) = true
  | CErr e => nullable (derivs_a r w) = false /\
              fst (err_window_a r t i w) <= e /\ e <= snd (err_window_a r t i w)
  end.
Proof.
  induction w as [|a w IH]; intros c r i t Hin Hlit Hb.
  - pose proof (live_ok _ Hin) as K. cbn [check_live] in K.
    apply andb_true_iff in K. destruct K as [K _]. apply andb_true_iff in K. destruct K as [_ K].
    apply Bool.eqb_prop in K. unfold fin_acc in K. cbn [crun derivs_a err_window_a fst snd].
    destruct (snd (pfinish c)); [auto|]. split; [auto|lia].
  - pose proof (live_ok _ Hin) as K. cbn [check_live] in K.
    apply andb_true_iff in K. destruct K as [_ K]. rewrite forallb_forall in K.
    specialize (K a (all_atoms_complete a)). unfold check_live_step in K.
    cbn [crun derivs_a err_window_a]. cbv zeta in K.
    destruct (snd (ptrans c a)) as [c'|off].
    + destruct (is_empty (deriv_a a r)) eqn:Em.
      * (* the derivative dies here, control goes on inside the literal *)
        apply andb_true_iff in K. destruct K as [K K5]. apply andb_true_iff in K. destruct K as [K K4].
        apply andb_true_iff in K. destruct K as [K K3]. apply andb_true_iff in K. destruct K as [K1 K2].
        apply negb_true_iff in K2, K3. apply in_ctrls_In in K4. apply Nat.leb_le in K5.
        destruct t as [lb|]; [|exfalso; apply Hlit in K1; congruence].
        destruct (zombie_run w c' (S i) lb K4) as [e [E1 [E2 E3]]]; [specialize (Hb lb eq_refl); lia|].
        rewrite E1. split; [apply empty_derivs_a; exact Em|].
        cbn [fst snd close_from_a]. rewrite K3. auto.
      * apply andb_true_iff in K. destruct K as [K K3]. apply andb_true_iff in K. destruct K as [K1 K2].
        apply in_pairs_In in K1. apply Bool.eqb_prop in K2.
        apply IH; [exact K1| |].
        -- unfold track_a. rewrite K2. destruct (is_lb a); [split; [discriminate|reflexivity]|].
           destruct (is_rb a); [split; [discriminate|congruence]|exact Hlit].
        -- intros lb Hl. unfold track_a in Hl. destruct (is_lb a).
           ++ inversion Hl; subst. apply Nat.eqb_eq in K3. lia.
           ++ apply Nat.leb_le in K3. destruct (is_rb a); [discriminate|]. specialize (Hb lb Hl). lia.
    + apply andb_true_iff in K. destruct K as [K1 K2]. rewrite K1.
      split; [apply empty_derivs_a; exact K1|].
      destruct t as [lb|].
      * assert (lit_state c = true) as L by (apply Hlit; discriminate). rewrite L in K2.
        apply Nat.leb_le in K2. specialize (Hb lb eq_refl). cbn [fst snd].
        pose proof (close_from_a_ge (a :: w) i). lia.
      * assert (lit_state c = false) as L.
        { destruct (lit_state c) eqn:L; [|reflexivity]. exfalso. destruct Hlit as [H1 _]. apply H1; reflexivity. }
        rewrite L in K2. apply Nat.eqb_eq in K2. subst off. cbn [fst snd]. lia.
Qed.

End Checker.

(* ---------------------------------------------------------------- exploration (untrusted) *)
Fixpoint explore (fuel : nat) (todo : list (ctrl * re)) (R : list (ctrl * re)) (Z : list ctrl)
  : list (ctrl * re) * list ctrl * list ctrl (* zombie todo *) :=
  match fuel with
  | O => (R, Z, [])
  | S k =>
    match todo with
    | [] => (R, Z, [])
    | (c, r) :: rest =>
      if in_pairs (c, r) R then explore k rest R Z
      else
        let step := fun (acc : list (ctrl * re) * list ctrl) (a : atom) =>
          match snd (ptrans c a) with
          | Go c' => let r' := deriv_a a r in
                     if is_empty r' then (fst acc, c' :: snd acc) else ((c', r') :: fst acc, snd acc)
          | Stop _ => acc
          end in
        let '(newp, newz) := fold_left step all_atoms ([], []) in
        let '(R', Z', _) := explore k (newp ++ rest) ((c, r) :: R) (newz ++ Z) in
        (R', Z', [])
    end
  end.

Fixpoint explore_z (fuel : nat) (todo : list ctrl) (Z : list ctrl) : list ctrl :=
  match fuel with
  | O => Z
  | S k =>
    match todo with
    | [] => Z
    | c :: rest =>
      if in_ctrls c Z then explore_z k rest Z
      else
        let news := fold_left (fun acc a => match snd (ptrans c a) with Go c' => c' :: acc | Stop _ => acc end)
                              all_atoms [] in
        explore_z k (news ++ rest) (c :: Z)
    end
  end.

Definition the_exploration := explore 100000 [(CStart, URI_reference)] [] [].
Definition the_R : list (ctrl * re) := Eval vm_compute in fst (fst the_exploration).
Definition the_Z : list ctrl := Eval vm_compute in explore_z 100000 (snd (fst the_exploration)) [].

Lemma the_check : check_all the_R the_Z = true.
Proof. vm_compute. reflexivity. Qed.

Lemma start_in_R : In (CStart, URI_reference) the_R.
Proof. apply in_pairs_In. vm_compute. reflexivity. Qed.

Lemma grammar_saturated : re_sat URI_reference = true.
Proof. vm_compute. reflexivity. Qed.

(* ---------------------------------------------------------------- model run = control run *)
Lemma prun_crun s : forall c d i,
  match prun c d i s with
  | POk _ => crun c i (map atom_of s) = CAcc
  | PSyntax e => crun c i (map atom_of s) = CErr e
  end.
Proof.
  induction s as [|ch s IH]; intros c d i; cbn [prun crun map].
  - destruct (pfinish c) as [acts f]. cbn [snd]. destruct f; reflexivity.
  - destruct (ptrans c (atom_of ch)) as [acts nx]. cbn [snd]. destruct nx as [c'|off]; [apply IH|reflexivity].
Qed.

(* ---------------------------------------------------------------- the theorems *)
Theorem parse_accepts_iff s : (exists u, parse s = POk u) <-> matches URI_reference s.
Proof.
  rewrite <- matchb_spec. unfold matchb. rewrite (derivs_atoms s _ grammar_saturated).
  pose proof (prun_crun s CStart pdata_init 0) as P. fold (parse s) in P.
  pose proof (live_run the_R the_Z the_check (map atom_of s) CStart URI_reference 0 None start_in_R) as L.
  assert (lit_state CStart = true <-> @None nat <> None) as A by (cbn; split; [discriminate|congruence]).
  specialize (L A). assert (forall lb : nat, @None nat = Some lb -> lb + 1 + lbound CStart <= 0) as B by discriminate.
  specialize (L B). destruct (parse s) as [u|e].
  - rewrite P in L. split; [intros _; exact L|intros _; eauto].
  - rewrite P in L. destruct L as [L _]. split; [intros [u Hu]; discriminate|congruence].
Qed.

Theorem parse_error_position s e : parse s = PSyntax e ->
  errpos_ok URI_reference s e = true /\ e <= length s.
Proof.
  intros H. unfold errpos_ok. rewrite (err_window_atoms s _ None 0 grammar_saturated).
  pose proof (prun_crun s CStart pdata_init 0) as P. fold (parse s) in P. rewrite H in P.
  pose proof (live_run the_R the_Z the_check (map atom_of s) CStart URI_reference 0 None start_in_R) as L.
  assert (lit_state CStart = true <-> @None nat <> None) as A by (cbn; split; [discriminate|congruence]).
  specialize (L A). assert (forall lb : nat, @None nat = Some lb -> lb + 1 + lbound CStart <= 0) as B by discriminate.
  specialize (L B). rewrite P in L. destruct L as [_ [L1 L2]].
  destruct (err_window_a URI_reference None 0 (map atom_of s)) as [lo hi] eqn:W. cbn [fst snd] in *.
  split.
  - apply andb_true_iff. split; apply Nat.leb_le; assumption.
  - (* the error position never exceeds the length: a control run stops at an index <= |s| *)
    clear - P.
    assert (forall w c i e, crun c i w = CErr e -> e <= i + length w) as G.
    { induction w as [|a w IH]; intros c i e0 Hc; cbn [crun] in Hc.
      - destruct (snd (pfinish c)); [discriminate|]. inversion Hc; subst. cbn; lia.
      - destruct (snd (ptrans c a)) as [c'|off].
        + apply IH in Hc. cbn [length]. lia.
        + inversion Hc; subst. cbn [length]. lia. }
    apply G in P. rewrite map_length in P. lia.
Qed.

(* outside brackets the admissible window is the single position first_dead *)
Lemma parse_error_position_exact (s : text) (e : nat) :
  (forall c, In c s -> c <> 91%N) -> parse s = PSyntax e -> e = first_dead URI_reference s.
Proof.
  intros Hnb H. destruct (parse_error_position s e H) as [Hok _].
  unfold errpos_ok in Hok. rewrite (err_window_no_literal URI_reference s 0 Hnb) in Hok.
  apply Bool.andb_true_iff in Hok. destruct Hok as [H1 H2].
  apply PeanoNat.Nat.leb_le in H1. apply PeanoNat.Nat.leb_le in H2. unfold first_dead.
  apply PeanoNat.Nat.le_antisymm; assumption.
Qed.
