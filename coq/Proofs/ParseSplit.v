(* Property C02, part 3: the parsed object is the one the Appendix-B style splitter of Spec/Split.v
   assigns to the text.  Proved from the two facts of parts 1 and 2 alone: the text is
   [unparse u] and [u] is well formed; nothing here looks at the parser again. *)
From Coq Require Import List NArith Bool Lia Arith.
From UP Require Spec.Rfc3986.
From UP Require Import Base.Chars Base.Regex Base.Atoms Model.Uri Model.Ip4 Model.Parse
  Spec.Split Spec.NormalWf Spec.Unparse
  Proofs.ParseData Proofs.ParseWfStep Proofs.ParseWf.
Import ListNotations.
Local Open Scope N_scope.

(* ---------------------------------------------------------------- span_until and split_on *)
(* no character of the text is a stop *)
Definition avoid (stops : list N) (t : text) : Prop := forallb (fun c => negb (mem c stops)) t = true.
(* the text is empty or begins with a stop *)
Definition stops_at (stops : list N) (r : text) : Prop :=
  match r with [] => True | c :: _ => mem c stops = true end.

Lemma span_app stops a : forall r, avoid stops a -> stops_at stops r -> span_until stops (a ++ r) = (a, r).
Proof.
  unfold avoid. induction a as [|c a IH]; intros r Ha Hr.
  - cbn [app]. destruct r as [|x r]; [reflexivity|]. cbn [span_until]. cbn [stops_at] in Hr. rewrite Hr. reflexivity.
  - cbn [forallb] in Ha. apply andb_true_iff in Ha. destruct Ha as [Hc Ha].
    cbn [app span_until]. apply negb_true_iff in Hc. rewrite Hc. rewrite (IH r Ha Hr). reflexivity.
Qed.

Lemma span_all stops a : avoid stops a -> span_until stops a = (a, []).
Proof. intros H. rewrite <- (app_nil_r a) at 1. apply span_app; [exact H|exact I]. Qed.

Lemma class_avoid cls stops t :
  forallb (fun k => negb (cls k)) stops = true -> forallb cls t = true -> avoid stops t.
Proof.
  intros Hs. apply forallb_mono. intros c Hc. destruct (mem c stops) eqn:E; [|reflexivity].
  apply mem_In in E. rewrite forallb_forall in Hs. specialize (Hs c E). rewrite Hc in Hs. discriminate Hs.
Qed.

Lemma avoid_app stops a b : avoid stops a -> avoid stops b -> avoid stops (a ++ b).
Proof. unfold avoid. intros Ha Hb. rewrite forallb_app, Ha, Hb. reflexivity. Qed.

Lemma avoid_sub stops stops' t : (forall c, mem c stops' = true -> mem c stops = true) -> avoid stops t -> avoid stops' t.
Proof.
  intros H. apply forallb_mono. intros c Hc. destruct (mem c stops') eqn:E; [|reflexivity].
  rewrite (H c E) in Hc. discriminate Hc.
Qed.

Lemma avoid_notin stops t c : avoid stops t -> mem c stops = true -> ~ In c t.
Proof.
  intros Ha Hc Hi. unfold avoid in Ha. rewrite forallb_forall in Ha. specialize (Ha c Hi).
  rewrite Hc in Ha. discriminate Ha.
Qed.

Lemma mem_false_notin c t : ~ In c t -> mem c t = false.
Proof. intros H. destruct (mem c t) eqn:E; [|reflexivity]. apply mem_In in E. contradiction. Qed.

(* split_on *)
Lemma split_on_nonnil sep s : split_on sep s <> [].
Proof.
  induction s as [|c r IH]; cbn [split_on]; [discriminate|].
  destruct (c =? sep); [discriminate|]. destruct (split_on sep r); discriminate.
Qed.

Lemma split_on_one sep s : ~ In sep s -> split_on sep s = [s].
Proof.
  induction s as [|c r IH]; intros H; [reflexivity|].
  cbn [split_on]. destruct (c =? sep) eqn:E.
  - apply N.eqb_eq in E. subst. exfalso. apply H. left. reflexivity.
  - rewrite IH; [reflexivity|]. intros Hi. apply H. right. exact Hi.
Qed.

Lemma split_on_app sep s r : ~ In sep s -> split_on sep (s ++ sep :: r) = s :: split_on sep r.
Proof.
  induction s as [|c s IH]; intros H.
  - cbn [app split_on]. rewrite N.eqb_refl. reflexivity.
  - cbn [app split_on]. destruct (c =? sep) eqn:E.
    + apply N.eqb_eq in E. subst. exfalso. apply H. left. reflexivity.
    + rewrite IH; [reflexivity|]. intros Hi. apply H. right. exact Hi.
Qed.

Lemma split_on_join segs : segs <> [] -> Forall (fun s => ~ In 47 s) segs ->
  split_on 47 (join_slash segs) = segs.
Proof.
  induction segs as [|s r IH]; intros Hn Hf; [contradiction|].
  inversion Hf as [|? ? Hs Hr]; subst. cbn [join_slash]. destruct r as [|s2 r2].
  - apply split_on_one. exact Hs.
  - cbn [app]. rewrite split_on_app by exact Hs. rewrite IH; [reflexivity|discriminate|exact Hr].
Qed.

(* ---------------------------------------------------------------- the splitter in stages *)
Definition sp_scheme (s : text) : option text * text :=
  let (pfx, rest0) := span_until [58; 47; 63; 35] s in
  match strip_char 58 rest0 with
  | Some r => if is_scheme_text pfx then (Some pfx, r) else (None, s)
  | None => (None, s)
  end.

Definition sp_auth (rest1 : text) : option text * text :=
  match strip_char 47 rest1 with
  | Some r1 =>
    match strip_char 47 r1 with
    | Some r => let (a, r') := span_until [47; 63; 35] r in (Some a, r')
    | None => (None, rest1)
    end
  | None => (None, rest1)
  end.

Definition sp_query (rest3 : text) : option text * text :=
  match strip_char 63 rest3 with
  | Some r => let (q, r') := span_until [35] r in (Some q, r')
  | None => (None, rest3)
  end.

Definition sp_path (auth : option text) (path : text) : bool * list text :=
  match path with
  | [] => (false, [])
  | _ =>
    match strip_char 47 path with
    | Some p =>
      match auth with
      | Some _ => (false, split_on 47 p)
      | None => (true, match p with [] => [] | _ => split_on 47 p end)
      end
    | None => (false, split_on 47 path)
    end
  end.

Definition sp_build (sch auth : option text) (abs : bool) (segs : list text) (qry frag : option text) : uri :=
  match auth with
  | None =>
    mkUri sch None None None None None None segs qry frag abs false
  | Some a =>
    let '(ui, h, lit, port) := split_authority a in
    if lit then
      if head_is 118 h || head_is 86 h
      then mkUri sch ui (Some h) None None (Some h) port segs qry frag abs false
      else mkUri sch ui (Some h) None (Some (ip6_value h)) None port segs qry frag abs false
    else
      mkUri sch ui (Some h) (if matchb Rfc3986.IPv4address h then Some (ip4_value h) else None) None None port
            segs qry frag abs false
  end.

Lemma split_spec_stages s :
  split_spec s =
  let (sch, rest1) := sp_scheme s in
  let (auth, rest2) := sp_auth rest1 in
  let (path, rest3) := span_until [63; 35] rest2 in
  let (qry, rest4) := sp_query rest3 in
  let frag := strip_char 35 rest4 in
  let (abs, segs) := sp_path auth path in
  sp_build sch auth abs segs qry frag.
Proof.
  unfold split_spec, sp_scheme, sp_auth, sp_query, sp_path, sp_build.
  destruct (span_until [58; 47; 63; 35] s) as [pfx rest0].
  destruct (strip_char 58 rest0) as [r|]; [destruct (is_scheme_text pfx)|].
  all: repeat match goal with |- context [strip_char 47 ?x] => destruct (strip_char 47 x) end.
  all: repeat match goal with |- context [span_until [47; 63; 35] ?x] => destruct (span_until [47; 63; 35] x) end.
  all: match goal with |- context [span_until [63; 35] ?x] => destruct (span_until [63; 35] x) as [path rest3] end.
  all: destruct (strip_char 63 rest3) as [rq|].
  all: try destruct (span_until [35] rq) as [q rq'].
  all: reflexivity.
Qed.

(* ---------------------------------------------------------------- each stage on a concatenation *)
Lemma strip_char_cons c r : strip_char c (c :: r) = Some r.
Proof. cbn [strip_char]. rewrite N.eqb_refl. reflexivity. Qed.

Lemma strip_char_stops c stops r : mem c stops = false -> stops_at stops r -> strip_char c r = None.
Proof.
  intros Hc Hr. destruct r as [|x r]; [reflexivity|]. cbn [strip_char]. cbn [stops_at] in Hr.
  destruct (x =? c) eqn:E; [|reflexivity]. apply N.eqb_eq in E. subst. rewrite Hc in Hr. discriminate Hr.
Qed.

(* "?" query "#" fragment *)
Definition qf_part (qu fr : option text) : text := opt_pre [63] qu ++ opt_pre [35] fr.

Lemma qf_stops qu fr : stops_at [63; 35] (qf_part qu fr).
Proof. destruct qu, fr; cbn; auto. Qed.
Lemma qf_stops3 qu fr : stops_at [47; 63; 35] (qf_part qu fr).
Proof. destruct qu, fr; cbn; auto. Qed.
Lemma qf_stops4 qu fr : stops_at [58; 47; 63; 35] (qf_part qu fr).
Proof. destruct qu, fr; cbn; auto. Qed.

Lemma sp_query_qf qu fr : opt_ok (avoid [35]) qu ->
  sp_query (qf_part qu fr) = (qu, opt_pre [35] fr) /\ strip_char 35 (opt_pre [35] fr) = fr.
Proof.
  intros Hq. split.
  - unfold sp_query, qf_part. destruct qu as [q|]; cbn [opt_pre opt_ok] in *.
    + cbn [app]. rewrite strip_char_cons. rewrite span_app; [reflexivity|exact Hq|].
      destruct fr; cbn; auto.
    + cbn [app]. destruct fr; reflexivity.
  - destruct fr; reflexivity.
Qed.

Lemma sp_auth_some A R : avoid [47; 63; 35] A -> stops_at [47; 63; 35] R ->
  sp_auth ([47; 47] ++ A ++ R) = (Some A, R).
Proof.
  intros HA HR. unfold sp_auth. cbn [app]. rewrite !strip_char_cons. rewrite span_app by assumption. reflexivity.
Qed.

(* the text does not begin with "//" *)
Definition no_dslash_start (R : text) : Prop := head_is 47 R && head_is 47 (tl R) = false.

Lemma sp_auth_none R : no_dslash_start R -> sp_auth R = (None, R).
Proof.
  unfold no_dslash_start, sp_auth. destruct R as [|a [|b R]]; cbn [head_is tl strip_char]; try reflexivity.
  - destruct (a =? 47); reflexivity.
  - destruct (a =? 47); [|reflexivity]. cbn [andb strip_char]. intros ->. reflexivity.
Qed.

(* scheme *)
Lemma mem_alpha c : mem c Rfc3986.ALPHA = is_alpha c.
Proof.
  rewrite (sat_ok Rfc3986.ALPHA eq_refl c), br_alpha. destruct (atom_of c); reflexivity.
Qed.
Lemma mem_schemechar c : mem c (Rfc3986.ALPHA ++ Rfc3986.DIGIT ++ [43; 45; 46]) = is_scheme_char c.
Proof.
  rewrite (sat_ok (Rfc3986.ALPHA ++ Rfc3986.DIGIT ++ [43; 45; 46]) eq_refl c), br_scheme. destruct (atom_of c); reflexivity.
Qed.

Lemma star_chr l t : forallb (fun c => mem c l) t = true -> matches (Star (Chr l)) t.
Proof.
  induction t as [|c t IH]; intros H; [constructor|].
  cbn [forallb] in H. apply andb_true_iff in H. destruct H as [H1 H2].
  change (c :: t) with ([c] ++ t). constructor; [constructor; apply mem_In; exact H1|exact (IH H2)].
Qed.

Lemma scheme_ok_matches sc : scheme_ok sc -> is_scheme_text sc = true.
Proof.
  destruct sc as [|c r]; [intros []|]. intros [H1 H2]. unfold is_scheme_text. apply matchb_spec.
  unfold Rfc3986.scheme. change (c :: r) with ([c] ++ r). constructor.
  - constructor. apply mem_In. rewrite mem_alpha. exact H1.
  - apply star_chr. revert H2. apply forallb_mono. intros x Hx. rewrite mem_schemechar. exact Hx.
Qed.

Lemma sp_scheme_some sc R : scheme_ok sc -> sp_scheme (sc ++ [58] ++ R) = (Some sc, R).
Proof.
  intros H. unfold sp_scheme. rewrite span_app.
  - cbn [app]. rewrite strip_char_cons. rewrite (scheme_ok_matches _ H). reflexivity.
  - destruct (scheme_ok_class _ H) as [_ Hc]. revert Hc. apply class_avoid. vm_compute. reflexivity.
  - cbn. reflexivity.
Qed.

Lemma sp_scheme_none a r : avoid [58; 47; 63; 35] a -> stops_at [47; 63; 35] r -> sp_scheme (a ++ r) = (None, a ++ r).
Proof.
  intros Ha Hr. unfold sp_scheme. rewrite span_app.
  - rewrite (strip_char_stops 58 [47; 63; 35] r eq_refl Hr). reflexivity.
  - exact Ha.
  - destruct r as [|x r]; [exact I|]. cbn [stops_at] in *. cbn [mem] in *. rewrite Hr. apply orb_true_r.
Qed.

(* path *)
Definition slashed (ps : list text) : text := concat (map (fun s => 47 :: s) ps).

Lemma join_slash_cons s r : join_slash (s :: r) = s ++ slashed r.
Proof.
  revert s. induction r as [|s2 r IH]; intros s.
  - cbn. rewrite app_nil_r. reflexivity.
  - change (join_slash (s :: s2 :: r)) with (s ++ [47] ++ join_slash (s2 :: r)). rewrite IH. reflexivity.
Qed.

Lemma slashed_join ps : ps <> [] -> slashed ps = 47 :: join_slash ps.
Proof. destruct ps as [|s r]; [contradiction|]. intros _. rewrite join_slash_cons. reflexivity. Qed.

Lemma avoid_slashed stops ps : mem 47 stops = false -> Forall (avoid stops) ps -> avoid stops (slashed ps).
Proof.
  intros H47. induction 1 as [|s r Hs Hr IH]; [reflexivity|].
  unfold slashed. cbn [map concat]. change (avoid stops ((47 :: s) ++ slashed r)).
  apply avoid_app; [|exact IH]. unfold avoid. cbn [forallb]. rewrite H47. exact Hs.
Qed.

Lemma slashed_stops ps R : stops_at [47; 63; 35] R -> stops_at [47; 63; 35] (slashed ps ++ R).
Proof. destruct ps; [intros H; exact H|intros _; reflexivity]. Qed.

Lemma sp_path_auth a ps : Forall (fun s => ~ In 47 s) ps -> sp_path (Some a) (slashed ps) = (false, ps).
Proof.
  intros Hf. destruct ps as [|s r]; [reflexivity|].
  rewrite slashed_join by discriminate. unfold sp_path. rewrite strip_char_cons.
  rewrite split_on_join; [reflexivity|discriminate|exact Hf].
Qed.

Lemma sp_path_abs ps : Forall (fun s => ~ In 47 s) ps -> match ps with [] :: _ => False | _ => True end ->
  sp_path None ([47] ++ join_slash ps) = (true, ps).
Proof.
  intros Hf Hne. cbn [app]. unfold sp_path. rewrite strip_char_cons.
  destruct ps as [|[|c s] r]; [reflexivity|contradiction|].
  rewrite split_on_join; [|discriminate|exact Hf]. rewrite join_slash_cons. reflexivity.
Qed.

Lemma sp_path_rel ps : Forall (fun s => ~ In 47 s) ps -> match ps with [] :: _ => False | _ => True end ->
  sp_path None (join_slash ps) = (false, ps).
Proof.
  intros Hf Hne. destruct ps as [|[|c s] r]; [reflexivity|contradiction|].
  assert (c <> 47) as Hc.
  { inversion Hf as [|? ? H1 _]; subst. intros ->. apply H1. left. reflexivity. }
  rewrite <- (split_on_join ((c :: s) :: r)) at 2; [|discriminate|exact Hf].
  rewrite join_slash_cons. cbn [app]. unfold sp_path. cbn [strip_char].
  apply N.eqb_neq in Hc. rewrite Hc. reflexivity.
Qed.

(* authority *)
Lemma mem_mid c a b : mem c (a ++ c :: b) = true.
Proof. apply mem_In. apply in_or_app. right. left. reflexivity. Qed.

Lemma strip_char_avoid c h R : avoid [c] h -> stops_at [58] R -> c <> 58 -> strip_char c (h ++ R) = None.
Proof.
  intros Hh HR Hc. destruct h as [|x h].
  - cbn [app]. apply (strip_char_stops c [58] R); [|exact HR]. cbn [mem]. apply N.eqb_neq in Hc. rewrite Hc. reflexivity.
  - cbn [app strip_char]. unfold avoid in Hh. cbn [forallb mem] in Hh. apply andb_true_iff in Hh. destruct Hh as [Hx _].
    rewrite orb_false_r in Hx. apply negb_true_iff in Hx. rewrite Hx. reflexivity.
Qed.

Lemma port_strip po : strip_char 58 (opt_pre [58] po) = po.
Proof. destruct po; reflexivity. Qed.
Lemma port_stops po : stops_at [58] (opt_pre [58] po).
Proof. destruct po; cbn; auto. Qed.

Lemma split_authority_parts ui h (lit : bool) po :
  opt_ok (avoid [64]) ui -> ~ In 64 h -> opt_ok (fun p => ~ In 64 p) po ->
  (if lit then avoid [93] h else avoid [58] h /\ avoid [91] h) ->
  split_authority (opt_post ui [64] ++ (if lit then [91] ++ h ++ [93] else h) ++ opt_pre [58] po)
  = (ui, h, lit, po).
Proof.
  intros Hui Hh Hpo Hl. unfold split_authority.
  set (rest := (if lit then [91] ++ h ++ [93] else h) ++ opt_pre [58] po).
  assert (mem 64 rest = false) as Hrest.
  { apply mem_false_notin. unfold rest. intros Hi. apply in_app_or in Hi. destruct Hi as [Hi|Hi].
    - destruct lit; [|exact (Hh Hi)]. cbn [app] in Hi. destruct Hi as [Hi|Hi]; [discriminate Hi|].
      apply in_app_or in Hi. destruct Hi as [Hi|[Hi|[]]]; [exact (Hh Hi)|discriminate Hi].
    - destruct po as [p|]; [|exact Hi]. cbn [opt_pre app opt_ok] in *. destruct Hi as [Hi|Hi]; [discriminate Hi|exact (Hpo Hi)]. }
  assert ((if mem 64 (opt_post ui [64] ++ rest)
           then let (u0, r) := span_until [64] (opt_post ui [64] ++ rest) in (Some u0, tl r)
           else (None, opt_post ui [64] ++ rest)) = (ui, rest)) as E.
  { destruct ui as [t|]; cbn [opt_post opt_ok] in *.
    - rewrite <- app_assoc. cbn [app]. rewrite mem_mid. rewrite span_app; [reflexivity|exact Hui|reflexivity].
    - cbn [app]. rewrite Hrest. reflexivity. }
  rewrite E. unfold rest. destruct lit.
  - cbn [app]. rewrite strip_char_cons. rewrite <- app_assoc. cbn [app].
    rewrite span_app; [|exact Hl|reflexivity]. cbn [tl]. rewrite port_strip. reflexivity.
  - destruct Hl as [H58 H91]. rewrite (strip_char_avoid 91 h _ H91 (port_stops po)) by discriminate.
    rewrite span_app; [|exact H58|exact (port_stops po)]. rewrite port_strip. reflexivity.
Qed.

(* ---------------------------------------------------------------- assembling *)
(* [u] with the address fields as Spec/Split.v computes them from the host text *)
Definition spec_addr (u : uri) : uri :=
  mkUri (scheme u) (userInfo u) (hostText u)
    (match hostText u with
     | Some h => if is_lit u then None else if matchb Rfc3986.IPv4address h then Some (ip4_value h) else None
     | None => None
     end)
    (match hostText u, ip6 u with Some h, Some _ => Some (ip6_value h) | _, _ => None end)
    (ipFuture u) (portText u) (pathSegs u) (query u) (fragment u) (absolutePath u) (owner u).

Lemma sp_scheme_opt sc R : opt_ok scheme_ok sc ->
  (sc = None -> exists a r, R = a ++ r /\ avoid [58; 47; 63; 35] a /\ stops_at [47; 63; 35] r) ->
  sp_scheme (opt_post sc [58] ++ R) = (sc, R).
Proof.
  intros Hs Hn. destruct sc as [s|]; cbn [opt_post opt_ok] in *.
  - rewrite <- app_assoc. apply sp_scheme_some. exact Hs.
  - cbn [app]. destruct (Hn eq_refl) as (a & r & -> & Ha & Hr). apply sp_scheme_none; assumption.
Qed.

Lemma segs_avoid stops ps : forallb (fun k => negb (is_pchar k)) stops = true ->
  Forall (text_ok is_pchar) ps -> Forall (avoid stops) ps.
Proof.
  intros Hs Hf. eapply Forall_impl; [|exact Hf]. intros s [Hc _]. exact (class_avoid _ _ _ Hs Hc).
Qed.

Lemma segs_noslash ps : Forall (text_ok is_pchar) ps -> Forall (fun s => ~ In 47 s) ps.
Proof.
  intros Hf. eapply Forall_impl; [|exact Hf]. intros s [Hc _].
  apply (avoid_notin [47] s 47); [|reflexivity]. revert Hc. apply class_avoid. reflexivity.
Qed.

Lemma avoid_opt_post stops o d : opt_ok (avoid stops) o -> avoid stops d -> avoid stops (opt_post o d).
Proof. destruct o; cbn [opt_post opt_ok]; intros H1 H2; [apply avoid_app; assumption|reflexivity]. Qed.
Lemma avoid_opt_pre stops o d : opt_ok (avoid stops) o -> avoid stops d -> avoid stops (opt_pre d o).
Proof. destruct o; cbn [opt_pre opt_ok]; intros H1 H2; [apply avoid_app; assumption|reflexivity]. Qed.
Lemma opt_ok_impl (P Q : text -> Prop) o : (forall t, P t -> Q t) -> opt_ok P o -> opt_ok Q o.
Proof. destruct o; cbn [opt_ok]; auto. Qed.

Theorem split_unparse f4 f6 u : parsed_wf f4 f6 u -> split_spec (unparse u) = spec_addr u.
Proof.
  destruct u as [sc ui ht i4 i6 fu po ps qu fr ab ow].
  unfold parsed_wf, chars_ok, flags_ok, path_ok, auth_ok, spec_addr, unparse, scheme_part, authority_part,
    path_part, host_part, is_lit.
  cbn [scheme userInfo hostText ip4 ip6 ipFuture portText pathSegs query fragment absolutePath owner].
  intros ((Hsc & Hui & Hh & Hpo & Hps & Hqu & Hfr) & (How & Hfl) & Hpa & Hau).
  subst ow. rewrite split_spec_stages.
  pose proof (segs_noslash _ Hps) as Hns.
  pose proof (segs_avoid [63; 35] _ eq_refl Hps) as Hps2.
  assert (opt_ok (avoid [35]) qu) as Hq35.
  { revert Hqu. apply opt_ok_impl. intros t [Hc _]. revert Hc. apply class_avoid. reflexivity. }
  destruct (sp_query_qf qu fr Hq35) as [Eq Ef].
  fold (qf_part qu fr).
  destruct ht as [h|]; cbn [is_some].
  - (* with an authority *)
    destruct Hfl as [-> Hfl].
    set (lit := is_some i6 || is_some fu).
    match goal with |- context [([47; 47] ++ ?X) ++ _] => set (A := X) end.
    change (concat (map (fun s : text => 47 :: s) ps)) with (slashed ps).
    assert (opt_post sc [58] ++ ([47; 47] ++ A) ++ slashed ps ++ qf_part qu fr
            = opt_post sc [58] ++ [47; 47] ++ A ++ slashed ps ++ qf_part qu fr) as E0
      by (rewrite <- !app_assoc; reflexivity).
    rewrite E0. clear E0.
    rewrite sp_scheme_opt; [|exact Hsc|].
    2:{ intros _. exists [], ([47; 47] ++ A ++ slashed ps ++ qf_part qu fr). repeat split; reflexivity. }
    cbv beta iota.
    assert (opt_ok (avoid [47; 63; 35; 64]) ui) as Hui'.
    { revert Hui. apply opt_ok_impl. intros t [Hc _]. revert Hc. apply class_avoid. reflexivity. }
    assert (opt_ok (avoid [47; 63; 35; 64]) po) as Hpo'.
    { revert Hpo. apply opt_ok_impl. intros t Hc. revert Hc. apply class_avoid. reflexivity. }
    assert (avoid [47; 63; 35; 64] h /\ (if lit then avoid [93] h else avoid [58] h /\ avoid [91] h)) as [Hh' Hl].
    { unfold lit. destruct (is_some i6); cbn [orb].
      - split; revert Hh; apply class_avoid; reflexivity.
      - destruct (is_some fu).
        + split; revert Hh; apply class_avoid; reflexivity.
        + destruct Hh as [Hh _]. repeat split; revert Hh; apply class_avoid; reflexivity. }
    assert (forall t, avoid [47; 63; 35; 64] t -> avoid [47; 63; 35] t) as Hsub.
    { intros t. apply avoid_sub. intros c. cbn [mem]. intros H. rewrite !orb_true_iff in *. tauto. }
    assert (avoid [47; 63; 35] A) as HA.
    { unfold A. apply avoid_app; [apply avoid_opt_post; [revert Hui'; apply opt_ok_impl; exact Hsub|reflexivity]|].
      apply avoid_app; [|apply avoid_opt_pre; [revert Hpo'; apply opt_ok_impl; exact Hsub|reflexivity]].
      destruct lit; [|exact (Hsub _ Hh')]. apply avoid_app; [reflexivity|]. apply avoid_app; [exact (Hsub _ Hh')|reflexivity]. }
    rewrite sp_auth_some; [|exact HA|apply slashed_stops; apply qf_stops3]. cbv beta iota.
    rewrite span_app; [|apply avoid_slashed; [reflexivity|exact Hps2]|apply qf_stops]. cbv beta iota.
    rewrite Eq. cbv beta iota zeta. rewrite Ef. rewrite sp_path_auth by exact Hns. cbv beta iota.
    unfold sp_build, A. rewrite split_authority_parts.
    + unfold lit. destruct i6 as [b|], fu as [f|]; cbn [is_some orb] in *; try contradiction.
      * destruct Hfl as (-> & _ & Hv & _). unfold v_start in Hv. rewrite Hv. reflexivity.
      * destruct Hfl as (-> & -> & Hv). unfold v_start in Hv. rewrite Hv. reflexivity.
      * reflexivity.
    + revert Hui'. apply opt_ok_impl. intros t. apply avoid_sub. intros c. cbn [mem]. intros H. rewrite !orb_true_iff in *. tauto.
    + apply (avoid_notin _ _ 64 Hh'). reflexivity.
    + revert Hpo'. apply opt_ok_impl. intros t Ht. apply (avoid_notin _ _ 64 Ht). reflexivity.
    + exact Hl.
  - (* without *)
    destruct Hfl as (-> & -> & ->). destruct Hau as [-> ->]. cbn [app].
    assert (match ps with [] :: _ => False | _ => True end) as Hne.
    { destruct ps as [|[|c s] r]; auto. destruct Hpa as [Hpa _]. apply Hpa. reflexivity. }
    pose proof (segs_avoid [47; 63; 35] _ eq_refl Hps) as Hps3.
    assert (forall c s r, ps = (c :: s) :: r -> c <> 47) as Hc47.
    { intros c s r ->. inversion Hns as [|? ? H1 _]; subst. intros ->. apply H1. left. reflexivity. }
    assert (forall qu fr, head_is 47 (qf_part qu fr) = false) as Hqf47 by (intros [?|] [?|]; reflexivity).
    set (P := (if ab then [47] else []) ++ join_slash ps).
    assert (avoid [63; 35] P) as HP.
    { unfold P. apply avoid_app; [destruct ab; reflexivity|].
      destruct ps as [|s r]; [reflexivity|]. rewrite join_slash_cons.
      inversion Hps2; subst. apply avoid_app; [assumption|]. apply avoid_slashed; [reflexivity|assumption]. }
    assert (no_dslash_start (P ++ qf_part qu fr)) as Hnd.
    { unfold no_dslash_start, P. destruct ab; cbn [app head_is tl].
      - change (47 =? 47) with true. cbn [andb]. destruct ps as [|[|c s] r]; [apply Hqf47|contradiction|].
        rewrite join_slash_cons. cbn [app head_is]. apply N.eqb_neq. exact (Hc47 c s r eq_refl).
      - destruct ps as [|[|c s] r]; [|contradiction|].
        + cbn [join_slash app]. rewrite Hqf47. reflexivity.
        + rewrite join_slash_cons. cbn [app head_is]. pose proof (Hc47 c s r eq_refl) as Hc.
          apply N.eqb_neq in Hc. rewrite Hc. reflexivity. }
    rewrite sp_scheme_opt; [|exact Hsc|].
    2:{ intros ->. unfold P. destruct ab.
        - exists [], (([47] ++ join_slash ps) ++ qf_part qu fr). repeat split; reflexivity.
        - cbn [app]. destruct ps as [|s r].
          + exists [], (qf_part qu fr). split; [reflexivity|]. split; [reflexivity|apply qf_stops3].
          + exists s, (slashed r ++ qf_part qu fr). rewrite join_slash_cons, <- app_assoc.
            split; [reflexivity|]. split; [|apply slashed_stops; apply qf_stops3].
            destruct Hpa as [_ Hpa]. specialize (Hpa eq_refl eq_refl).
            inversion Hps3 as [|? ? H1 _]; subst. unfold avoid in *. rewrite forallb_forall in *.
            intros c Hc. specialize (H1 c Hc). cbn [mem] in *.
            destruct (c =? 58) eqn:E; [apply N.eqb_eq in E; subst; contradiction|exact H1]. }
    cbv beta iota. rewrite sp_auth_none by exact Hnd. cbv beta iota.
    rewrite span_app; [|exact HP|apply qf_stops]. cbv beta iota.
    rewrite Eq. cbv beta iota zeta. rewrite Ef.
    unfold P. destruct ab.
    + rewrite sp_path_abs by assumption. reflexivity.
    + cbn [app]. rewrite sp_path_rel by assumption. reflexivity.
Qed.

(* ---------------------------------------------------------------- the parser against the splitter *)
Theorem parse_split s u : parse s = POk u -> split_spec s = spec_addr u.
Proof.
  intros H. rewrite <- (parse_unparse s u H). apply (split_unparse parse_ip4 ip6_bytes). exact (parse_wf s u H).
Qed.

(* component by component: every component that is not address data *)
Corollary parse_split_components s u : parse s = POk u ->
  scheme u = scheme (split_spec s) /\ userInfo u = userInfo (split_spec s)
  /\ hostText u = hostText (split_spec s) /\ portText u = portText (split_spec s)
  /\ pathSegs u = pathSegs (split_spec s) /\ absolutePath u = absolutePath (split_spec s)
  /\ query u = query (split_spec s) /\ fragment u = fragment (split_spec s)
  /\ ipFuture u = ipFuture (split_spec s)
  /\ is_some (ip6 u) = is_some (ip6 (split_spec s))
  /\ (is_lit u = true -> ip4 u = None /\ ip4 (split_spec s) = None).
Proof.
  intros H. rewrite (parse_split s u H). destruct (parse_wf s u H) as (_ & (_ & Hf) & _ & _).
  destruct u as [sc ui ht i4 i6 fu po ps qu fr ab ow]. unfold spec_addr, is_lit.
  cbn [scheme userInfo hostText ip4 ip6 ipFuture portText pathSegs query fragment absolutePath owner] in *.
  repeat split.
  - destruct ht as [h|]; [destruct i6; reflexivity|]. destruct Hf as (_ & -> & _). reflexivity.
  - destruct ht as [h|]; [|destruct Hf as (_ & -> & ->); discriminate H0].
    destruct Hf as [_ Hf]. destruct i6, fu; try contradiction; try discriminate H0; destruct Hf as [-> _]; reflexivity.
  - destruct ht as [h|]; [|reflexivity]. rewrite H0. reflexivity.
Qed.

(* The two statements about address values that complete the picture (they are about Model/Ip4.v and
   the IPv6 scanner of Model/Parse.v alone and are proved elsewhere); with them the parsed object IS
   the splitter's. *)
Theorem parse_split_given_addr s u :
  parse s = POk u ->
  (forall h, hostText u = Some h -> is_lit u = false ->
     parse_ip4 h = if matchb Rfc3986.IPv4address h then Some (ip4_value h) else None) ->
  (forall h, hostText u = Some h -> ip6 u <> None -> ip6_bytes h = ip6_value h) ->
  u = split_spec s.
Proof.
  intros H H4 H6. rewrite (parse_split s u H). destruct (parse_wf s u H) as (_ & (Ho & Hf) & _ & _).
  destruct u as [sc ui ht i4 i6 fu po ps qu fr ab ow]. unfold spec_addr, is_lit in *.
  cbn [scheme userInfo hostText ip4 ip6 ipFuture portText pathSegs query fragment absolutePath owner] in *.
  destruct ht as [h|].
  - destruct Hf as [_ Hf]. destruct i6 as [b|], fu as [f|]; cbn [is_some orb] in *; try contradiction.
    + destruct Hf as (-> & -> & _). rewrite (H6 h eq_refl) by discriminate. reflexivity.
    + destruct Hf as (-> & _). reflexivity.
    + rewrite Hf. rewrite (H4 h eq_refl eq_refl). reflexivity.
  - destruct Hf as (-> & -> & ->). reflexivity.
Qed.

(* the same with the two facts stated for all inputs *)
Theorem parse_is_split :
  forall (Hip4 : forall h, parse_ip4 h = if matchb Rfc3986.IPv4address h then Some (ip4_value h) else None)
         (Hip6 : forall s u h, parse s = POk u -> hostText u = Some h -> ip6 u <> None -> ip6_bytes h = ip6_value h),
  forall s u, parse s = POk u -> u = split_spec s.
Proof.
  intros Hip4 Hip6 s u H. apply (parse_split_given_addr s u H).
  - intros h _ _. apply Hip4.
  - intros h Eh E6. exact (Hip6 s u h H Eh E6).
Qed.
