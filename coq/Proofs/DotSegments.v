(* The segment-stack walk of uriRemoveDotSegmentsEx (Model/Common.v, rds_walk) in absolute mode
   against the literal string loop of RFC 3986 section 5.2.4 (Spec/Resolve.v, rds_loop).

   Main results
     rds_walk_rfc           rooted_text (rds_walk false h a [] segs) = remove_dot_segments (path_text_rooted segs)
     rds_walk_rfc_rootless  join_text (rds_walk false h a [] segs) = rds_keep_kind (join_text segs)
     rds_walk_nodots        no "." / ".." segment is left
     rds_walk_fixed / rds_walk_idempotent
     merge_text             removelast bsegs ++ rsegs  against  Spec.Resolve.merge on texts *)
From Coq Require Import List NArith Bool Lia.
From UP Require Import Base.Chars Model.Uri Model.Common Model.Recompose Spec.Resolve.
Import ListNotations.
Local Open Scope N_scope.

(* ---------------------------------------------------------------- texts of segment lists *)
Definition noslash (s : text) : bool := forallb (fun c => negb (c =? 47)) s.

(* "/" in front of every segment: the text of a rooted path (with at least one segment) *)
Definition path_text_rooted (segs : list text) : text := concat (map (fun s => 47 :: s) segs).
(* a rooted path without any segment is the text "/" *)
Definition rooted_text (segs : list text) : text :=
  match segs with [] => [47] | _ => path_text_rooted segs end.
(* segments separated by "/": exactly what Model/Recompose.v prints for the segment list *)
Definition join_text (segs : list text) : text := concat (path_pieces segs).

Definition nodot (s : text) : bool := negb (seg_dot s) && negb (seg_dotdot s).

Lemma ptr_cons w r : path_text_rooted (w :: r) = 47 :: w ++ path_text_rooted r.
Proof. reflexivity. Qed.

Lemma ptr_app a b : path_text_rooted (a ++ b) = path_text_rooted a ++ path_text_rooted b.
Proof. unfold path_text_rooted. rewrite map_app, concat_app. reflexivity. Qed.

Lemma ptr_snoc a w : path_text_rooted (a ++ [w]) = path_text_rooted a ++ 47 :: w.
Proof. rewrite ptr_app. rewrite ptr_cons. cbn [path_text_rooted map concat]. rewrite app_nil_r. reflexivity. Qed.

Lemma join_rooted segs : segs <> [] -> 47 :: join_text segs = path_text_rooted segs.
Proof.
  unfold join_text. induction segs as [|s r IH]; intros H; [congruence|].
  destruct r as [|s2 r2].
  - cbn. rewrite app_nil_r. reflexivity.
  - rewrite ptr_cons. rewrite <- IH by discriminate.
    cbn [path_pieces concat app]. reflexivity.
Qed.

Lemma join_tl_rooted segs : join_text segs = tl (rooted_text segs).
Proof.
  destruct segs as [|s r]; [reflexivity|].
  unfold rooted_text. rewrite <- join_rooted by discriminate. reflexivity.
Qed.

(* a text that is empty or begins with "/" *)
Definition rest_ok (r : text) : Prop := r = [] \/ exists r', r = 47 :: r'.

Lemma ptr_rest_ok segs : rest_ok (path_text_rooted segs).
Proof. destruct segs as [|s r]; [left; reflexivity|right; rewrite ptr_cons; eexists; reflexivity]. Qed.

Lemma noslash_cons c w : noslash (c :: w) = true -> c <> 47 /\ noslash w = true.
Proof.
  unfold noslash. cbn [forallb]. intros H. apply andb_true_iff in H. destruct H as [H1 H2].
  split; [|exact H2]. apply negb_true_iff in H1. apply N.eqb_neq in H1. exact H1.
Qed.

Lemma forallb_rev {A} (f : A -> bool) l : forallb f (rev l) = forallb f l.
Proof.
  induction l as [|x l IH]; [reflexivity|].
  cbn [rev forallb]. rewrite forallb_app. cbn [forallb]. rewrite IH. rewrite andb_true_r. apply andb_comm.
Qed.

Lemma forallb_tl {A} (f : A -> bool) l : forallb f l = true -> forallb f (tl l) = true.
Proof. destruct l as [|x l]; [intros; reflexivity|]. cbn [forallb tl]. intros H. apply andb_true_iff in H. apply H. Qed.

(* ---------------------------------------------------------------- the segment tests *)
Lemma seg_dot_true w : seg_dot w = true -> w = [46].
Proof.
  unfold seg_dot. destruct w as [|c [|d r]]; try discriminate.
  - destruct c as [|p]; try discriminate.
    repeat (destruct p as [p|p|]; try discriminate). reflexivity.
  - destruct c as [|p]; try discriminate.
    repeat (destruct p as [p|p|]; try discriminate).
Qed.

Lemma seg_dotdot_true w : seg_dotdot w = true -> w = [46; 46].
Proof.
  unfold seg_dotdot. destruct w as [|c [|d [|e r]]]; try discriminate.
  - destruct c as [|p]; try discriminate.
    repeat (destruct p as [p|p|]; try discriminate).
  - destruct c as [|p]; try discriminate.
    repeat (destruct p as [p|p|]; try discriminate).
    destruct d as [|q]; try discriminate.
    repeat (destruct q as [q|q|]; try discriminate). reflexivity.
  - destruct c as [|p]; try discriminate.
    repeat (destruct p as [p|p|]; try discriminate).
    destruct d as [|q]; try discriminate.
    repeat (destruct q as [q|q|]; try discriminate).
Qed.

Lemma seg_dot_false w : seg_dot w = false -> w <> [46].
Proof. intros H E. subst w. discriminate H. Qed.
Lemma seg_dotdot_false w : seg_dotdot w = false -> w <> [46; 46].
Proof. intros H E. subst w. discriminate H. Qed.

(* rds_walk in absolute mode, one segment: ".." pops the stack, whatever its depth *)
Lemma walk_false_cons host abs kept w nxt :
  rds_walk false host abs kept (w :: nxt) =
  if seg_dot w then
    match nxt with
    | _ :: _ => rds_walk false host abs kept nxt
    | [] => match kept with [] => if host then [[]] else [] | _ => rev ([] :: kept) end
    end
  else if seg_dotdot w then
    match nxt with
    | _ :: _ => rds_walk false host abs (tl kept) nxt
    | [] => match tl kept with [] => if abs then [] else [[]] | t => rev ([] :: t) end
    end
  else rds_walk false host abs (w :: kept) nxt.
Proof.
  cbn [rds_walk andb]. destruct (seg_dot w); [reflexivity|].
  destruct (seg_dotdot w); [|reflexivity].
  destruct kept as [|p [|pp kk]]; destruct nxt; reflexivity.
Qed.

(* ---------------------------------------------------------------- the string loop, step by step *)
Lemma starts_with_true p : forall s, starts_with p s = true -> exists t, s = p ++ t.
Proof.
  induction p as [|x p IH]; intros s H.
  - exists s. reflexivity.
  - destruct s as [|y s]; [discriminate|]. cbn [starts_with] in H.
    apply andb_true_iff in H. destruct H as [H1 H2]. apply N.eqb_eq in H1. subst y.
    destruct (IH _ H2) as [t E]. exists t. rewrite E. reflexivity.
Qed.

Lemma text_eqb_true a : forall b, text_eqb a b = true -> a = b.
Proof.
  induction a as [|x a IH]; intros b H; destruct b as [|y b]; try discriminate; [reflexivity|].
  cbn [text_eqb] in H. apply andb_true_iff in H. destruct H as [H1 H2]. apply N.eqb_eq in H1. subst y.
  rewrite (IH _ H2). reflexivity.
Qed.

Lemma text_eqb_refl a : text_eqb a a = true.
Proof. induction a as [|x a IH]; [reflexivity|]. cbn [text_eqb]. rewrite N.eqb_refl, IH. reflexivity. Qed.

Lemma take_seg_app w : forall rest, noslash w = true -> rest_ok rest -> take_seg (w ++ rest) false = (w, rest).
Proof.
  induction w as [|c w IH]; intros rest Hw Hr.
  - destruct Hr as [Hr|[r' Hr]]; subst rest; reflexivity.
  - apply noslash_cons in Hw. destruct Hw as [Hc Hw].
    cbn [app take_seg]. apply N.eqb_neq in Hc. rewrite Hc. cbn [andb].
    rewrite (IH rest Hw Hr). reflexivity.
Qed.

Lemma take_seg_first w rest : noslash w = true -> rest_ok rest ->
  take_seg (47 :: w ++ rest) true = (47 :: w, rest).
Proof.
  intros Hw Hr. cbn [take_seg negb]. rewrite andb_false_r. rewrite (take_seg_app w rest Hw Hr). reflexivity.
Qed.

(* the input "/w" ++ rest with w an ordinary segment: none of the tests A-D applies *)
Section Tests.
  Variables (w rest : text).
  Hypothesis (Hw : noslash w = true) (Hr : rest_ok rest).

  Lemma rest_not_46 t : rest <> 46 :: t.
  Proof. destruct Hr as [E|[r' E]]; rewrite E; discriminate. Qed.

  Lemma testB1 : w <> [46] -> starts_with [47; 46; 47] (47 :: w ++ rest) = false.
  Proof.
    intros Hd. apply not_true_is_false. intros E. apply starts_with_true in E. destruct E as [t E].
    injection E as E. destruct w as [|c [|d w']].
    - cbn [app] in E. exact (rest_not_46 _ E).
    - injection E as E1 E2. subst c. apply Hd. reflexivity.
    - injection E as E1 E2 E3. apply noslash_cons in Hw. destruct Hw as [_ Hw'].
      apply noslash_cons in Hw'. destruct Hw' as [Hd' _]. congruence.
  Qed.

  Lemma testB2 : w <> [46] -> text_eqb (47 :: w ++ rest) [47; 46] = false.
  Proof.
    intros Hd. apply not_true_is_false. intros E. apply text_eqb_true in E.
    injection E as E. destruct w as [|c [|d w']].
    - cbn [app] in E. exact (rest_not_46 _ E).
    - injection E as E1 E2. subst c. apply Hd. reflexivity.
    - discriminate E.
  Qed.

  Lemma testC1 : w <> [46; 46] -> starts_with [47; 46; 46; 47] (47 :: w ++ rest) = false.
  Proof.
    intros Hd. apply not_true_is_false. intros E. apply starts_with_true in E. destruct E as [t E].
    injection E as E. destruct w as [|c [|d [|e w']]].
    - cbn [app] in E. exact (rest_not_46 _ E).
    - injection E as E1 E2. exact (rest_not_46 _ E2).
    - injection E as E1 E2 E3. subst c d. apply Hd. reflexivity.
    - injection E as E1 E2 E3 E4. apply noslash_cons in Hw. destruct Hw as [_ Hw'].
      apply noslash_cons in Hw'. destruct Hw' as [_ Hw''].
      apply noslash_cons in Hw''. destruct Hw'' as [He _]. congruence.
  Qed.

  Lemma testC2 : w <> [46; 46] -> text_eqb (47 :: w ++ rest) [47; 46; 46] = false.
  Proof.
    intros Hd. apply not_true_is_false. intros E. apply text_eqb_true in E.
    injection E as E. destruct w as [|c [|d [|e w']]].
    - cbn [app] in E. exact (rest_not_46 _ E).
    - injection E as E1 E2. exact (rest_not_46 _ E2).
    - injection E as E1 E2 E3. subst c d. apply Hd. reflexivity.
    - discriminate E.
  Qed.

  (* step E *)
  Lemma step_normal k out : w <> [46] -> w <> [46; 46] ->
    rds_loop (S k) (47 :: w ++ rest) out = rds_loop k rest (rev w ++ 47 :: out).
  Proof.
    intros H1 H2. cbn [rds_loop].
    change (starts_with [46; 46; 47] (47 :: w ++ rest)) with false.
    change (starts_with [46; 47] (47 :: w ++ rest)) with false.
    change (text_eqb (47 :: w ++ rest) [46]) with false.
    change (text_eqb (47 :: w ++ rest) [46; 46]) with false.
    rewrite (testB1 H1), (testB2 H1), (testC1 H2), (testC2 H2). cbn [orb].
    rewrite (take_seg_first w rest Hw Hr).
    cbn [rev]. rewrite <- app_assoc. reflexivity.
  Qed.
End Tests.

Lemma step_dot_mid k x out : rds_loop (S k) (47 :: 46 :: 47 :: x) out = rds_loop k (47 :: x) out.
Proof. reflexivity. Qed.

Lemma step_dotdot_mid k x out :
  rds_loop (S k) (47 :: 46 :: 46 :: 47 :: x) out = rds_loop k (47 :: x) (drop_last_seg_rev out).
Proof. reflexivity. Qed.

Lemma loop_nil k out : rds_loop k [] out = rev out.
Proof. destruct k; reflexivity. Qed.

Lemma step_dot_end k out : rds_loop (S (S k)) [47; 46] out = rev out ++ [47].
Proof. change (rds_loop (S (S k)) [47; 46] out) with (rds_loop k [] (47 :: out)). apply loop_nil. Qed.

Lemma step_dotdot_end k out : rds_loop (S (S k)) [47; 46; 46] out = rev (drop_last_seg_rev out) ++ [47].
Proof.
  change (rds_loop (S (S k)) [47; 46; 46] out) with (rds_loop k [] (47 :: drop_last_seg_rev out)).
  apply loop_nil.
Qed.

(* popping the output buffer = popping the stack *)
Lemma drop_last_noslash q x : noslash q = true -> drop_last_seg_rev (q ++ 47 :: x) = x.
Proof.
  induction q as [|c q IH]; intros H; [reflexivity|].
  apply noslash_cons in H. destruct H as [Hc Hq]. apply N.eqb_neq in Hc.
  cbn [app drop_last_seg_rev]. rewrite Hc. exact (IH Hq).
Qed.

Lemma noslash_rev q : noslash (rev q) = noslash q.
Proof. apply forallb_rev. Qed.

Lemma drop_last_stack kept : forallb noslash kept = true ->
  drop_last_seg_rev (rev (path_text_rooted (rev kept))) = rev (path_text_rooted (rev (tl kept))).
Proof.
  destruct kept as [|p kk]; intros H; [reflexivity|].
  cbn [forallb] in H. apply andb_true_iff in H. destruct H as [Hp _].
  cbn [rev tl]. rewrite ptr_snoc. rewrite rev_app_distr. cbn [rev]. rewrite <- app_assoc. cbn [app].
  apply drop_last_noslash. rewrite noslash_rev. exact Hp.
Qed.

(* ---------------------------------------------------------------- the invariant *)
(* The stack [kept] (most recent first) is the output buffer: out = path_text_rooted (rev kept).
   Any fuel above the length of the remaining input is enough. *)
Lemma walk_loop host abs : forall rest kept k,
  rest <> [] -> forallb noslash rest = true -> forallb noslash kept = true ->
  (length (path_text_rooted rest) < k)%nat ->
  rooted_text (rds_walk false host abs kept rest)
  = rds_loop k (path_text_rooted rest) (rev (path_text_rooted (rev kept))).
Proof.
  induction rest as [|w nxt IH]; intros kept k Hne Hrest Hkept Hk; [congruence|].
  cbn [forallb] in Hrest. apply andb_true_iff in Hrest. destruct Hrest as [Hw Hnxt].
  rewrite walk_false_cons. rewrite ptr_cons in Hk |- *.
  destruct k as [|k]; [inversion Hk|].
  cbn [length] in Hk. rewrite app_length in Hk.
  destruct (seg_dot w) eqn:Ed.
  { apply seg_dot_true in Ed. subst w. cbn [app length] in Hk |- *.
    destruct nxt as [|n1 nxt'].
    - destruct k as [|k]; [cbn in Hk; lia|]. cbn [path_text_rooted map concat]. rewrite step_dot_end.
      destruct kept as [|p kk].
      + destruct host; reflexivity.
      + change (rev ([] :: p :: kk)) with (rev (p :: kk) ++ [[]]).
        rewrite rev_involutive.
        assert (rev (p :: kk) ++ [[]] <> []) as Hn by (intros E; apply app_eq_nil in E; destruct E; discriminate).
        unfold rooted_text. destruct (rev (p :: kk) ++ [[]]) eqn:E; [congruence|]. rewrite <- E.
        rewrite ptr_snoc. reflexivity.
    - rewrite ptr_cons. rewrite step_dot_mid. rewrite <- ptr_cons.
      apply IH; [discriminate|exact Hnxt|exact Hkept|]. rewrite ptr_cons in Hk |- *. cbn [length] in Hk |- *. lia. }
  destruct (seg_dotdot w) eqn:Edd.
  { apply seg_dotdot_true in Edd. subst w. cbn [app length] in Hk |- *.
    destruct nxt as [|n1 nxt'].
    - destruct k as [|k]; [cbn in Hk; lia|]. cbn [path_text_rooted map concat]. rewrite step_dotdot_end.
      rewrite (drop_last_stack kept Hkept). rewrite rev_involutive.
      destruct (tl kept) as [|p kk].
      + destruct abs; reflexivity.
      + change (rev ([] :: p :: kk)) with (rev (p :: kk) ++ [[]]).
        unfold rooted_text. destruct (rev (p :: kk) ++ [[]]) eqn:E;
          [apply app_eq_nil in E; destruct E; discriminate|]. rewrite <- E.
        rewrite ptr_snoc. reflexivity.
    - rewrite ptr_cons. rewrite step_dotdot_mid. rewrite <- ptr_cons.
      rewrite (drop_last_stack kept Hkept).
      apply IH; [discriminate|exact Hnxt|apply forallb_tl; exact Hkept|].
      rewrite ptr_cons in Hk |- *. cbn [length] in Hk |- *. lia. }
  apply seg_dot_false in Ed. apply seg_dotdot_false in Edd.
  rewrite (step_normal w (path_text_rooted nxt) Hw (ptr_rest_ok nxt) k _ Ed Edd).
  assert (rev w ++ 47 :: rev (path_text_rooted (rev kept)) = rev (path_text_rooted (rev (w :: kept)))) as Eout.
  { cbn [rev]. rewrite ptr_snoc. rewrite rev_app_distr. cbn [rev]. rewrite <- app_assoc. reflexivity. }
  rewrite Eout.
  destruct nxt as [|n1 nxt'].
  - cbn [rds_walk path_text_rooted map concat]. rewrite loop_nil. rewrite rev_involutive.
    unfold rooted_text. destruct (rev (w :: kept)) eqn:E; [|reflexivity].
    cbn [rev] in E. apply app_eq_nil in E. destruct E; discriminate.
  - apply IH; [discriminate|exact Hnxt| |lia].
    cbn [forallb]. rewrite Hw, Hkept. reflexivity.
Qed.

(* THE KEY LEMMA: the absolute-mode walk is RFC 3986 5.2.4 on the rooted text; the result [] (which the
   model produces for a host-less path whose segments all cancel) and the result [[]] both stand for "/" *)
Theorem rds_walk_rfc host abs segs : segs <> [] -> forallb noslash segs = true ->
  rooted_text (rds_walk false host abs [] segs) = Spec.Resolve.remove_dot_segments (path_text_rooted segs).
Proof.
  intros Hne Hs. unfold Spec.Resolve.remove_dot_segments.
  rewrite (walk_loop host abs segs [] (S (length (path_text_rooted segs))) Hne Hs eq_refl (le_n _)).
  reflexivity.
Qed.

(* more fuel does not change the result, on rooted path texts *)
Lemma rds_loop_fuel segs k : segs <> [] -> forallb noslash segs = true ->
  (length (path_text_rooted segs) < k)%nat ->
  rds_loop k (path_text_rooted segs) [] = Spec.Resolve.remove_dot_segments (path_text_rooted segs).
Proof.
  intros Hne Hs Hk. rewrite <- (rds_walk_rfc false false segs Hne Hs).
  rewrite (walk_loop false false segs [] k Hne Hs eq_refl Hk). reflexivity.
Qed.

(* rootless variant: a path whose text does not begin with "/" is cleaned as if rooted and the root
   taken off again (Spec.Resolve.rds_keep_kind) *)
Theorem rds_walk_rfc_rootless host abs segs : segs <> [] -> forallb noslash segs = true ->
  head_is 47 (join_text segs) = false ->
  join_text (rds_walk false host abs [] segs) = rds_keep_kind (join_text segs).
Proof.
  intros Hne Hs Hh. rewrite join_tl_rooted. rewrite (rds_walk_rfc host abs segs Hne Hs).
  unfold rds_keep_kind. rewrite Hh. rewrite (join_rooted segs Hne).
  destruct (join_text segs) eqn:E; [|reflexivity].
  (* the text is empty: the only segment is empty *)
  rewrite <- (join_rooted segs Hne). rewrite E. reflexivity.
Qed.

(* rooted variant in the same vocabulary *)
Theorem rds_walk_rfc_keep_kind host abs segs : segs <> [] -> forallb noslash segs = true ->
  rooted_text (rds_walk false host abs [] segs) = rds_keep_kind (path_text_rooted segs).
Proof.
  intros Hne Hs. rewrite (rds_walk_rfc host abs segs Hne Hs).
  destruct segs as [|s r]; [congruence|]. reflexivity.
Qed.

(* ---------------------------------------------------------------- no dot segments remain *)
Lemma walk_nodots host abs : forall rest kept, forallb nodot kept = true ->
  forallb nodot (rds_walk false host abs kept rest) = true.
Proof.
  induction rest as [|w nxt IH]; intros kept Hk.
  - cbn [rds_walk]. rewrite forallb_rev. exact Hk.
  - rewrite walk_false_cons. destruct (seg_dot w) eqn:Ed.
    { destruct nxt as [|n1 nxt']; [|apply IH; exact Hk].
      destruct kept as [|p kk]; [destruct host; reflexivity|].
      rewrite forallb_rev. cbn [forallb] in Hk |- *. rewrite Hk. reflexivity. }
    destruct (seg_dotdot w) eqn:Edd.
    { destruct nxt as [|n1 nxt']; [|apply IH; apply forallb_tl; exact Hk].
      pose proof (forallb_tl _ _ Hk) as Ht.
      destruct (tl kept) as [|p kk]; [destruct abs; reflexivity|].
      rewrite forallb_rev. cbn [forallb] in Ht |- *. rewrite Ht. reflexivity. }
    apply IH. cbn [forallb]. unfold nodot at 1. rewrite Ed, Edd, Hk. reflexivity.
Qed.

Theorem rds_walk_nodots host abs segs : forallb nodot (rds_walk false host abs [] segs) = true.
Proof. apply walk_nodots. reflexivity. Qed.

Theorem rds_walk_nodots_Forall host abs segs :
  Forall (fun s => s <> [46] /\ s <> [46; 46]) (rds_walk false host abs [] segs).
Proof.
  apply Forall_forall. intros s Hin.
  pose proof (rds_walk_nodots host abs segs) as H. rewrite forallb_forall in H.
  specialize (H s Hin). unfold nodot in H. apply andb_true_iff in H. destruct H as [H1 H2].
  apply negb_true_iff in H1. apply negb_true_iff in H2.
  split; [exact (seg_dot_false s H1)|exact (seg_dotdot_false s H2)].
Qed.

Lemma walk_fixed host abs : forall rest kept, forallb nodot rest = true ->
  rds_walk false host abs kept rest = rev kept ++ rest.
Proof.
  induction rest as [|w nxt IH]; intros kept H.
  - cbn [rds_walk]. rewrite app_nil_r. reflexivity.
  - cbn [forallb] in H. apply andb_true_iff in H. destruct H as [Hw Hn].
    unfold nodot in Hw. apply andb_true_iff in Hw. destruct Hw as [H1 H2].
    apply negb_true_iff in H1. apply negb_true_iff in H2.
    rewrite walk_false_cons, H1, H2. rewrite (IH (w :: kept) Hn). cbn [rev]. rewrite <- app_assoc. reflexivity.
Qed.

Theorem rds_walk_fixed host abs segs : forallb nodot segs = true -> rds_walk false host abs [] segs = segs.
Proof. intros H. exact (walk_fixed host abs segs [] H). Qed.

Theorem rds_walk_idempotent host abs segs :
  rds_walk false host abs [] (rds_walk false host abs [] segs) = rds_walk false host abs [] segs.
Proof. apply rds_walk_fixed. apply rds_walk_nodots. Qed.

Theorem remove_dot_segments_absolute_idempotent u :
  remove_dot_segments_absolute (remove_dot_segments_absolute u) = remove_dot_segments_absolute u.
Proof.
  unfold remove_dot_segments_absolute, Common.remove_dot_segments.
  destruct u as [sc ui ht i4 i6 ifu po ps qu fr ab ow].
  destruct ps as [|s r]; [reflexivity|].
  unfold set_pathSegs, is_host_set; cbn [pathSegs hostText ip4 ip6 ipFuture absolutePath scheme userInfo portText query fragment owner].
  set (h := is_some ht || is_some i4 || is_some i6 || is_some ifu).
  destruct (rds_walk false h ab [] (s :: r)) as [|s' r'] eqn:E; [reflexivity|].
  rewrite <- E. rewrite rds_walk_idempotent. reflexivity.
Qed.

(* the walk never empties the path of a URI with a host and without the absolute-path flag *)
Lemma walk_nonempty_host : forall rest kept, rest <> [] -> rds_walk false true false kept rest <> [].
Proof.
  induction rest as [|w nxt IH]; intros kept Hne; [congruence|].
  rewrite walk_false_cons.
  assert (forall (l : list text) x, rev (x :: l) <> []) as Hrev
    by (intros l x E; cbn [rev] in E; apply app_eq_nil in E; destruct E; discriminate).
  destruct (seg_dot w).
  { destruct nxt as [|n1 nxt']; [|apply IH; discriminate].
    destruct kept; [discriminate|apply Hrev]. }
  destruct (seg_dotdot w).
  { destruct nxt as [|n1 nxt']; [|apply IH; discriminate].
    destruct (tl kept); [discriminate|apply Hrev]. }
  destruct nxt as [|n1 nxt']; [cbn [rds_walk]; apply Hrev|apply IH; discriminate].
Qed.

(* ---------------------------------------------------------------- merge (RFC 3986 5.2.3) *)
(* the text of a path as Model/Recompose.v prints it *)
Definition path_text_of (abs host : bool) (segs : list text) : text :=
  (if abs || (negb (match segs with [] => true | _ => false end) && host) then [47] else [])
  ++ join_text segs.

Lemma up_to_last_slash_noslash q x :
  noslash q = true -> up_to_last_slash_rev (q ++ 47 :: x) = 47 :: x.
Proof.
  induction q as [|c q IH]; intros H; [reflexivity|].
  apply noslash_cons in H. destruct H as [Hc Hq]. apply N.eqb_neq in Hc.
  cbn [app up_to_last_slash_rev]. rewrite Hc. exact (IH Hq).
Qed.

Lemma up_to_last_slash_none q : noslash q = true -> up_to_last_slash_rev q = [].
Proof.
  induction q as [|c q IH]; intros H; [reflexivity|].
  apply noslash_cons in H. destruct H as [Hc Hq]. apply N.eqb_neq in Hc.
  cbn [up_to_last_slash_rev]. rewrite Hc. exact (IH Hq).
Qed.

Lemma removelast_snoc {A} (l : list A) x : removelast (l ++ [x]) = l.
Proof. apply removelast_last. Qed.

(* the text of a non-empty rooted segment list up to and including its last "/" *)
Lemma rooted_up_to_last segs : segs <> [] -> forallb noslash segs = true ->
  rev (up_to_last_slash_rev (rev (path_text_rooted segs))) = path_text_rooted (removelast segs) ++ [47].
Proof.
  intros Hne Hs. destruct (exists_last Hne) as [l [x E]]. subst segs.
  rewrite removelast_snoc. rewrite ptr_snoc. rewrite rev_app_distr. cbn [rev]. rewrite <- app_assoc. cbn [app].
  rewrite forallb_app in Hs. apply andb_true_iff in Hs. destruct Hs as [_ Hx]. cbn [forallb] in Hx.
  rewrite andb_true_r in Hx.
  rewrite up_to_last_slash_noslash by (rewrite noslash_rev; exact Hx).
  cbn [rev]. rewrite rev_involutive. reflexivity.
Qed.

Lemma ptr_nil_iff segs : path_text_rooted segs = [] -> segs = [].
Proof. destruct segs; [reflexivity|rewrite ptr_cons; discriminate]. Qed.

(* uriMergePath on segment lists is RFC 3986 5.2.3 on texts *)
Theorem merge_text abs host bsegs rsegs : rsegs <> [] -> forallb noslash bsegs = true ->
  path_text_of abs host (removelast bsegs ++ rsegs)
  = merge host (path_text_of abs host bsegs) (join_text rsegs).
Proof.
  intros Hr Hb.
  assert (removelast bsegs ++ rsegs <> []) as Hm
    by (intros E; apply app_eq_nil in E; destruct E; congruence).
  unfold path_text_of at 1.
  replace (match removelast bsegs ++ rsegs with [] => true | _ :: _ => false end) with false
    by (destruct (removelast bsegs ++ rsegs); [congruence|reflexivity]).
  cbn [negb andb].
  destruct bsegs as [|b bs].
  - (* the base has no segment *)
    cbn [removelast app]. unfold path_text_of, merge. cbn [join_text path_pieces concat negb andb app].
    destruct abs, host; reflexivity.
  - assert (b :: bs <> []) as Hbne by discriminate.
    unfold path_text_of at 1. cbn [negb andb].
    destruct (abs || host) eqn:Erooted.
    + (* rooted base path with segments *)
      replace (abs || (true && host)) with true by (cbn [andb]; symmetry; exact Erooted).
      cbn [app]. rewrite (join_rooted (b :: bs) Hbne). unfold merge.
      rewrite ptr_cons at 1. rewrite andb_false_r.
      rewrite (rooted_up_to_last (b :: bs) Hbne Hb).
      rewrite (join_rooted _ Hm). rewrite ptr_app. rewrite <- (join_rooted rsegs Hr).
      rewrite <- app_assoc. reflexivity.
    + (* rootless base path *)
      apply orb_false_iff in Erooted. destruct Erooted; subst abs host.
      cbn [orb andb app]. unfold merge. cbn [andb].
      destruct (exists_last Hbne) as [l [x E]]. rewrite E. rewrite removelast_snoc.
      rewrite E in Hb. rewrite forallb_app in Hb. apply andb_true_iff in Hb. destruct Hb as [Hl Hx].
      cbn [forallb] in Hx. rewrite andb_true_r in Hx.
      destruct l as [|l1 ls].
      * cbn [app join_text path_pieces concat]. rewrite app_nil_r.
        rewrite up_to_last_slash_none by (rewrite noslash_rev; exact Hx). reflexivity.
      * assert ((l1 :: ls) ++ [x] <> []) as H1 by discriminate.
        assert ((l1 :: ls) ++ rsegs <> []) as H2 by discriminate.
        match goal with |- ?a = ?b => cut (47 :: a = 47 :: b); [intros Hc; injection Hc; trivial|] end.
        rewrite (join_rooted _ H2). rewrite ptr_app. rewrite <- (join_rooted rsegs Hr).
        (* the rooted text and the joined text have the same part up to the last slash when there are
           at least two segments *)
        assert (47 :: rev (up_to_last_slash_rev (rev (join_text ((l1 :: ls) ++ [x]))))
                = rev (up_to_last_slash_rev (rev (path_text_rooted ((l1 :: ls) ++ [x]))))) as Eq.
        { rewrite <- (join_rooted _ H1).
          assert (exists y, join_text ((l1 :: ls) ++ [x]) = y ++ 47 :: x) as [y Ey].
          { exists (tl (path_text_rooted (l1 :: ls))).
            match goal with |- ?a = ?b => cut (47 :: a = 47 :: b); [intros Hc; injection Hc; trivial|] end.
            rewrite (join_rooted _ H1). rewrite ptr_snoc. rewrite ptr_cons. reflexivity. }
          rewrite Ey. cbn [rev]. rewrite !rev_app_distr. cbn [rev]. rewrite <- !app_assoc. cbn [app].
          rewrite !up_to_last_slash_noslash by (rewrite noslash_rev; exact Hx).
          cbn [rev]. rewrite !rev_app_distr. cbn [rev app]. rewrite !rev_involutive. cbn [app]. reflexivity. }
        rewrite app_comm_cons. rewrite Eq.
        assert (forallb noslash ((l1 :: ls) ++ [x]) = true) as Hall
          by (rewrite forallb_app, Hl; cbn [forallb]; rewrite Hx; reflexivity).
        rewrite (rooted_up_to_last _ H1 Hall). rewrite removelast_snoc.
        rewrite <- app_assoc. reflexivity.
Qed.
