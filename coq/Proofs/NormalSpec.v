(* Sanity theorems about the SPECIFICATION of syntax-based normalization (Spec/Normal.v, RFC 3986 6.2.2):
   it is idempotent.  Nothing here is about the model except where lemmas about the model's engine are
   transported (fix_pct = pct_norm false, rds_walk = remove_dot_segments on the segment view).

     1. components   pct_norm_idem, lower_idem, rds_idem, rds_keep_kind_idem, rel_path_normal_idem
     2. auth_normal_idem, path_normal_idem (the three kinds of path), guarded_path_idem (with Normal.guard_path)
     3. the text     normal_text_idem_non_relative (through the model, Props/C08all.v), normal_text_idem *)
From Coq Require Import List NArith Bool Lia ZifyBool ZifyN Arith.
From UP Require Import Base.Chars Model.Uri Model.Common Model.Normalize Spec.NormalWf Spec.Split
  Spec.Resolve Spec.Normal
  Proofs.NormalizeProofs Proofs.NormalizeLink Proofs.DotSegments Proofs.NormalizeText Proofs.RelNormalize.
Import ListNotations.
Local Open Scope N_scope.

(* ================================================================ 1. components *)
(* ---- percent-encodings, case ---- *)
Lemma pct_norm_false_wf t : pct_wf t = true -> pct_wf (pct_norm false t) = true.
Proof. intros H. rewrite <- fix_pct_spec by exact H. apply fix_pct_wf. exact H. Qed.

Lemma pct_norm_true_wf t : pct_wf t = true -> pct_wf (pct_norm true t) = true.
Proof. intros H. rewrite <- host_norm_spec by exact H. apply (host_norm_fixed t H). Qed.

Lemma pct_norm_wf lc t : pct_wf t = true -> pct_wf (pct_norm lc t) = true.
Proof. destruct lc; [apply pct_norm_true_wf|apply pct_norm_false_wf]. Qed.

Theorem pct_norm_idem lc t : pct_wf t = true -> pct_norm lc (pct_norm lc t) = pct_norm lc t.
Proof.
  intros H. destruct lc.
  - rewrite <- (host_norm_spec t H). destruct (host_norm_fixed t H) as (Hwf & Hfix & Hlep). cbv zeta in *.
    rewrite <- (host_norm_spec _ Hwf). rewrite Hfix, Hlep. reflexivity.
  - rewrite <- (fix_pct_spec t H). rewrite <- (fix_pct_spec _ (fix_pct_wf t H)). apply fix_pct_idem. exact H.
Qed.

Theorem lower_idem t : map lower (map lower t) = map lower t.
Proof. rewrite map_map. apply map_ext. intros c. apply lower_lower. Qed.

(* ---- split / join ---- *)
Lemma split_nonnil p : split_on 47 p <> [].
Proof.
  induction p as [|c r IH]; cbn [split_on]; [discriminate|].
  destruct (c =? 47); [discriminate|]. destruct (split_on 47 r); discriminate.
Qed.

Lemma split_no_slash p : Forall no_slash (split_on 47 p).
Proof.
  induction p as [|c r IH]; cbn [split_on]; [repeat constructor|].
  destruct (c =? 47) eqn:E; [constructor; [constructor|exact IH]|].
  apply N.eqb_neq in E. destruct (split_on 47 r) as [|x xs]; [repeat constructor; exact E|].
  inversion IH as [|? ? Hx Hxs]; subst. constructor; [constructor; assumption|assumption].
Qed.

Lemma join_split p : join_slash (split_on 47 p) = p.
Proof.
  induction p as [|c r IH]; [reflexivity|]. cbn [split_on]. destruct (c =? 47) eqn:E.
  - apply N.eqb_eq in E. subst c. rewrite join_cons_nil by apply split_nonnil. rewrite IH. reflexivity.
  - destruct (split_on 47 r) as [|x xs] eqn:Es; [exfalso; exact (split_nonnil r Es)|].
    rewrite <- IH. destruct xs; reflexivity.
Qed.

Lemma split_rooted p : split_on 47 (47 :: p) = [] :: split_on 47 p.
Proof. reflexivity. Qed.

(* ---- dot segments on the segment view ---- *)
Definition nodots (W : list text) : Prop := forallb nodot W = true.

(* remove_dot_segments on a rooted text = the walk of the absolute mode on the segments behind the root *)
Definition awalk (S : list text) : list text := rds_walk false true false [] S.

Lemma awalk_nonnil S : S <> [] -> awalk S <> [].
Proof. intros H. apply rds_walk_nonempty. right. exact H. Qed.

Lemma awalk_Forall (P : text -> Prop) S : P [] -> Forall P S -> Forall P (awalk S).
Proof. intros H0 H. apply rds_walk_Forall; [exact H0|constructor|exact H]. Qed.

Lemma awalk_nodots S : nodots (awalk S).
Proof. apply rds_walk_nodots. Qed.

Lemma awalk_fixed S : nodots S -> awalk S = S.
Proof. apply rds_walk_fixed. Qed.

Lemma rds_segs S : S <> [] -> Forall no_slash S ->
  remove_dot_segments (47 :: join_slash S) = 47 :: join_slash (awalk S).
Proof. intros Hne Hns. symmetry. exact (rds_link_holds true false S Hne Hns). Qed.

Theorem rds_idem p : head_is 47 p = true ->
  remove_dot_segments (remove_dot_segments p) = remove_dot_segments p.
Proof.
  destruct p as [|c r]; [discriminate|]. cbn [head_is]. intros E. apply N.eqb_eq in E. subst c.
  rewrite <- (join_split r).
  rewrite (rds_segs _ (split_nonnil r) (split_no_slash r)).
  rewrite (rds_segs _ (awalk_nonnil _ (split_nonnil r)) (awalk_Forall _ _ (Forall_nil _) (split_no_slash r))).
  rewrite (awalk_fixed _ (awalk_nodots _)). reflexivity.
Qed.

Lemma rds_rooted p : head_is 47 p = true -> head_is 47 (remove_dot_segments p) = true.
Proof.
  destruct p as [|c r]; [discriminate|]. cbn [head_is]. intros E. apply N.eqb_eq in E. subst c.
  rewrite <- (join_split r). rewrite (rds_segs _ (split_nonnil r) (split_no_slash r)). reflexivity.
Qed.

(* rds_keep_kind of a rootless text: the same walk, the root taken off again *)
Lemma rkk_segs S : S <> [] -> Forall no_slash S -> join_slash S <> [] -> head_is 47 (join_slash S) = false ->
  rds_keep_kind (join_slash S) = join_slash (awalk S).
Proof.
  intros Hne Hns Hn Hh. unfold rds_keep_kind. rewrite Hh.
  destruct (join_slash S) eqn:E; [congruence|]. rewrite <- E. rewrite (rds_segs S Hne Hns). reflexivity.
Qed.

(* a text of segments without dot segments is a fixed point, whatever it begins with *)
Lemma rkk_fixed W : Forall no_slash W -> nodots W -> rds_keep_kind (join_slash W) = join_slash W.
Proof.
  intros Hns Hnd. destruct W as [|w0 W1]; [reflexivity|].
  destruct (join_slash (w0 :: W1)) as [|c r] eqn:E; [reflexivity|]. rewrite <- E.
  destruct (head_is 47 (join_slash (w0 :: W1))) eqn:Hh.
  - (* rooted: the first segment is empty and another one follows *)
    unfold rds_keep_kind. rewrite E. rewrite <- E. rewrite Hh.
    destruct w0 as [|x w0'].
    + destruct W1 as [|w1 W2]; [discriminate E|].
      assert (w1 :: W2 <> []) as Hne by discriminate.
      change (join_slash ([] :: w1 :: W2)) with (47 :: join_slash (w1 :: W2)). inversion Hns as [|? ? _ Hns1]; subst.
      rewrite (rds_segs _ Hne Hns1). rewrite awalk_fixed; [reflexivity|].
      unfold nodots in *. cbn [forallb] in Hnd. apply andb_true_iff in Hnd. apply Hnd.
    + exfalso. inversion Hns as [|? ? Hx _]; subst. destruct (no_slash_head _ _ Hx) as [Hx1 _].
      destruct (join_head x w0' W1) as [tl' Ej]. rewrite Ej in Hh. cbn [head_is] in Hh. congruence.
  - assert (w0 :: W1 <> []) as Hne by discriminate.
    assert (join_slash (w0 :: W1) <> []) as Hj by (rewrite E; discriminate).
    rewrite (rkk_segs _ Hne Hns Hj Hh). rewrite (awalk_fixed _ Hnd). reflexivity.
Qed.

Lemma nodots_tl W : nodots W -> nodots (tl W).
Proof. apply forallb_tl. Qed.

Theorem rds_keep_kind_idem p : rds_keep_kind (rds_keep_kind p) = rds_keep_kind p.
Proof.
  destruct p as [|c r] eqn:Ep; [reflexivity|]. rewrite <- Ep.
  assert (exists W, Forall no_slash W /\ nodots W /\ rds_keep_kind p = join_slash W) as (W & Hns & Hnd & E).
  { destruct (head_is 47 p) eqn:Hh.
    - subst p. cbn [head_is] in Hh. apply N.eqb_eq in Hh. subst c.
      exists ([] :: awalk (split_on 47 r)). split; [|split].
      + constructor; [constructor|]. apply awalk_Forall; [constructor|apply split_no_slash].
      + unfold nodots. cbn [forallb]. rewrite (awalk_nodots (split_on 47 r)). reflexivity.
      + rewrite (join_cons_nil _ (awalk_nonnil _ (split_nonnil r))).
        unfold rds_keep_kind. cbn [head_is]. rewrite N.eqb_refl.
        rewrite <- (join_split r) at 1. apply rds_segs; [apply split_nonnil|apply split_no_slash].
    - exists (awalk (split_on 47 p)). split; [|split].
      + apply awalk_Forall; [constructor|apply split_no_slash].
      + apply awalk_nodots.
      + rewrite <- (join_split p) at 1. apply rkk_segs.
        * apply split_nonnil.
        * apply split_no_slash.
        * rewrite join_split, Ep. discriminate.
        * rewrite join_split. exact Hh. }
  rewrite E. apply rkk_fixed; assumption.
Qed.

(* ---- the path of a relative-path reference ---- *)
(* the specification's stack (most recent first): no "." ; a ".." only on top of nothing but ".." *)
Fixpoint sk (st : list text) : bool :=
  match st with
  | [] => true
  | s :: r => if seg_dotdot s then forallb seg_dotdot r else negb (seg_dot s) && sk r
  end.

Lemma dotdot_not_dot s : seg_dotdot s = true -> seg_dot s = false.
Proof. intros H. apply seg_dotdot_true in H. subst s. reflexivity. Qed.

Lemma all_dotdot_sk r : forallb seg_dotdot r = true -> sk r = true.
Proof.
  induction r as [|s r IH]; [reflexivity|]. cbn [forallb sk]. intros H. apply andb_true_iff in H.
  destruct H as [Hs Hr]. rewrite Hs. exact Hr.
Qed.

Lemma sk_tl s r : sk (s :: r) = true -> sk r = true.
Proof.
  cbn [sk]. destruct (seg_dotdot s); [apply all_dotdot_sk|]. intros H. apply andb_true_iff in H. apply H.
Qed.

Lemma sk_step st w : sk st = true -> sk (spec_step st w) = true.
Proof.
  intros H. unfold spec_step. destruct (seg_dot w) eqn:Ed; [exact H|].
  destruct (seg_dotdot w) eqn:Edd.
  - destruct st as [|top st']; [cbn [sk forallb]; rewrite Edd; reflexivity|].
    destruct (seg_dotdot top) eqn:Et; [|exact (sk_tl _ _ H)].
    cbn [sk forallb] in *. rewrite Edd, Et in *. exact H.
  - cbn [sk]. rewrite Edd, Ed, H. reflexivity.
Qed.

Lemma sk_stack_rev : forall segs st, sk st = true -> sk (stack_rev st segs) = true.
Proof. induction segs as [|s r IH]; intros st H; [exact H|]. cbn [stack_rev]. apply IH. apply sk_step. exact H. Qed.

Lemma stack_rev_snoc : forall a st s, stack_rev st (a ++ [s]) = spec_step (stack_rev st a) s.
Proof. induction a as [|x a IH]; intros st s; [reflexivity|]. cbn [app stack_rev]. apply IH. Qed.

(* replaying a stack rebuilds it *)
Lemma stack_rev_replay st : sk st = true -> stack_rev [] (rev st) = st.
Proof.
  induction st as [|s r IH]; intros H; [reflexivity|].
  cbn [rev]. rewrite stack_rev_snoc. rewrite (IH (sk_tl _ _ H)).
  cbn [sk] in H. unfold spec_step. destruct (seg_dotdot s) eqn:Edd.
  - rewrite (dotdot_not_dot s Edd). destruct r as [|top r']; [reflexivity|].
    cbn [forallb] in H. apply andb_true_iff in H. destruct H as [Ht _]. rewrite Ht. reflexivity.
  - apply andb_true_iff in H. destruct H as [Hd _]. apply negb_true_iff in Hd. rewrite Hd. reflexivity.
Qed.

Lemma removelast_snoc' {A} (l : list A) x : removelast (l ++ [x]) = l.
Proof. apply removelast_last. Qed.

(* the segments of a normal form are a fixed point *)
Lemma rel_from_fixed k : k <> [] -> sk k = true -> rel_from [] (rev k) = rev k.
Proof.
  destruct k as [|x st]; [congruence|]. intros _ H. cbn [rev]. unfold rel_from. cbv zeta.
  rewrite removelast_snoc', last_last. rewrite (stack_rev_replay st (sk_tl _ _ H)).
  cbn [sk] in H. destruct (seg_dotdot x) eqn:Edd.
  - rewrite (dotdot_not_dot x Edd). destruct st as [|top st']; [reflexivity|].
    cbn [forallb] in H. apply andb_true_iff in H. destruct H as [Ht _]. rewrite Ht. reflexivity.
  - apply andb_true_iff in H. destruct H as [Hd _]. apply negb_true_iff in Hd. rewrite Hd. reflexivity.
Qed.

(* the segments of the normal form are such a stack, read from the bottom *)
Lemma rel_from_shape segs : exists k, k <> [] /\ sk k = true /\ rel_from [] segs = rev k.
Proof.
  unfold rel_from. cbv zeta.
  match goal with |- context [match ?X with [] => _ | _ => _ end] =>
    assert (sk X = true) as Hst by (exact (sk_stack_rev (removelast segs) [] eq_refl));
    revert Hst; destruct X as [|top st'']; intros Hst end.
  - destruct (seg_dot (last segs [])) eqn:Ed; [exists [[]]; repeat split; discriminate|].
    destruct (seg_dotdot (last segs [])) eqn:Edd.
    + exists [last segs []]. repeat split; [discriminate|]. cbn [sk forallb]. rewrite Edd. reflexivity.
    + exists [last segs []]. repeat split; [discriminate|]. cbn [sk]. rewrite Edd, Ed. reflexivity.
  - destruct (seg_dot (last segs [])) eqn:Ed.
    { exists ([] :: top :: st''). repeat split; [discriminate|]. exact Hst. }
    destruct (seg_dotdot (last segs [])) eqn:Edd.
    + destruct (seg_dotdot top) eqn:Et.
      * exists (last segs [] :: top :: st''). repeat split; [discriminate|].
        cbn [sk forallb] in *. rewrite Edd, Et in *. exact Hst.
      * exists ([] :: st''). repeat split; [discriminate|]. exact (sk_tl _ _ Hst).
    + exists (last segs [] :: top :: st''). repeat split; [discriminate|].
      change (sk (last segs [] :: top :: st'')) with
        (if seg_dotdot (last segs []) then forallb seg_dotdot (top :: st'')
         else negb (seg_dot (last segs [])) && sk (top :: st'')).
      rewrite Edd, Ed, Hst. reflexivity.
Qed.

Theorem rel_from_idem segs : rel_from [] (rel_from [] segs) = rel_from [] segs.
Proof. destruct (rel_from_shape segs) as (k & Hk & Hsk & E). rewrite E. apply rel_from_fixed; assumption. Qed.

(* every segment of the normal form is a segment of the input, or empty *)
Lemma spec_step_Forall (P : text -> Prop) st w : Forall P st -> P w -> Forall P (spec_step st w).
Proof.
  intros Hst Hw. unfold spec_step. destruct (seg_dot w); [exact Hst|].
  destruct (seg_dotdot w); [|constructor; assumption].
  destruct st as [|top st']; [constructor; assumption|].
  destruct (seg_dotdot top); [constructor; assumption|]. inversion Hst; assumption.
Qed.

Lemma stack_rev_Forall (P : text -> Prop) : forall segs st, Forall P st -> Forall P segs -> Forall P (stack_rev st segs).
Proof.
  induction segs as [|s r IH]; intros st Hst Hs; [exact Hst|]. inversion Hs; subst.
  cbn [stack_rev]. apply IH; [apply spec_step_Forall|]; assumption.
Qed.

Lemma Forall_rev' {A} (P : A -> Prop) l : Forall P l -> Forall P (rev l).
Proof. intros H. apply Forall_forall. intros x Hx. apply in_rev in Hx. rewrite Forall_forall in H. auto. Qed.

Lemma Forall_removelast {A} (P : A -> Prop) l : Forall P l -> Forall P (removelast l).
Proof.
  induction l as [|x l IH]; intros H; [constructor|]. inversion H; subst.
  cbn [removelast]. destruct l; [constructor|]. constructor; [assumption|apply IH; assumption].
Qed.

Lemma Forall_last {A} (P : A -> Prop) l d : P d -> Forall P l -> P (last l d).
Proof.
  intros Hd. induction l as [|x l IH]; intros H; [exact Hd|]. inversion H; subst.
  cbn [last]. destruct l; [assumption|apply IH; assumption].
Qed.

Lemma rel_from_Forall (P : text -> Prop) segs : P [] -> Forall P segs -> Forall P (rel_from [] segs).
Proof.
  intros H0 Hs. unfold rel_from. cbv zeta.
  pose proof (Forall_last P segs [] H0 Hs) as Hl.
  match goal with |- context [match ?X with [] => _ | _ => _ end] =>
    assert (Forall P X) as Hst
      by (exact (stack_rev_Forall P (removelast segs) [] (Forall_nil _) (Forall_removelast P segs Hs)));
    revert Hst; generalize X; intros st Hst end.
  destruct (seg_dot _); [apply Forall_rev'; constructor; assumption|].
  destruct (seg_dotdot _); [|apply Forall_rev'; constructor; assumption].
  destruct st as [|top st'']; [constructor; [assumption|constructor]|].
  destruct (seg_dotdot top); apply Forall_rev'; [constructor; assumption|].
  inversion Hst; subst. constructor; assumption.
Qed.

Lemma rel_from_nonnil segs : rel_from [] segs <> [].
Proof.
  destruct (rel_from_shape segs) as (k & Hk & _ & E). rewrite E. destruct k as [|x k]; [congruence|].
  cbn [rev]. intros H. apply app_eq_nil in H. destruct H; discriminate.
Qed.

Lemma no_slash_dot : no_slash [46].
Proof. constructor; [discriminate|constructor]. Qed.

(* the text written for the segments T of a normal form, and the segments read from it *)
Lemma spec_text_split T : T <> [] -> Forall no_slash T ->
  spec_text T <> [] /\ head_is 47 (spec_text T) = false /\
  (split_on 47 (spec_text T) = [[46]; []] /\ T = [[]]
   \/ split_on 47 (spec_text T) = @cons text [46] T /\ spec_text T = 46 :: 47 :: join_slash T
   \/ split_on 47 (spec_text T) = T /\ spec_text T = join_slash T).
Proof.
  intros Hne Hns. destruct T as [|first T']; [congruence|].
  destruct first as [|c f'].
  - destruct T' as [|t1 T''].
    + repeat split; [discriminate|]. left. split; reflexivity.
    + unfold spec_text. cbn [is_nil orb]. repeat split; [discriminate|]. right; left. split; [|reflexivity].
      change (46 :: 47 :: join_slash ([] :: t1 :: T'')) with (join_slash ([46] :: [] :: t1 :: T'')).
      apply split_join; [discriminate|]. constructor; [exact no_slash_dot|exact Hns].
  - unfold spec_text. cbn [is_nil]. rewrite orb_false_r. destruct (Common.has_colon (c :: f')).
    + repeat split; [discriminate|]. right; left. split; [|reflexivity].
      change (46 :: 47 :: join_slash ((c :: f') :: T')) with (join_slash ([46] :: (c :: f') :: T')).
      apply split_join; [discriminate|]. constructor; [exact no_slash_dot|exact Hns].
    + inversion Hns as [|? ? Hc _]; subst. destruct (no_slash_head _ _ Hc) as [Hc1 _].
      destruct (join_head c f' T') as [tl' Ej]. rewrite Ej. cbn [head_is]. rewrite Hc1.
      repeat split; [discriminate|]. right; right. rewrite <- Ej. split; [|reflexivity].
      apply split_join; [discriminate|exact Hns].
Qed.

Lemma rel_from_dot_front T : T <> [] -> rel_from [] (@cons text [46] T) = rel_from [] T.
Proof. intros H. rewrite (rel_from_cons [] [46] T H). reflexivity. Qed.

(* UNCONDITIONAL: every text *)
Theorem rel_path_normal_idem p : rel_path_normal (rel_path_normal p) = rel_path_normal p.
Proof.
  destruct p as [|c r] eqn:Ep; [reflexivity|]. rewrite <- Ep.
  assert (p <> []) as Hp by (rewrite Ep; discriminate).
  rewrite (rel_path_normal_text p Hp).
  set (T := rel_from [] (split_on 47 p)).
  assert (T <> []) as HT by apply rel_from_nonnil.
  assert (Forall no_slash T) as Hns by (apply rel_from_Forall; [constructor|apply split_no_slash]).
  assert (rel_from [] T = T) as Hfix by apply rel_from_idem.
  destruct (spec_text_split T HT Hns) as (Hnn & _ & [[Es ET]|[[Es Et]|[Es Et]]]).
  - rewrite ET. reflexivity.
  - rewrite (rel_path_normal_text _ Hnn). rewrite Es. rewrite (rel_from_dot_front T HT), Hfix. reflexivity.
  - rewrite (rel_path_normal_text _ Hnn). rewrite Es, Hfix. reflexivity.
Qed.

(* ================================================================ 2. path_normal *)
Local Notation pn := (pct_norm false).
(* a segment as path_normal leaves it: no '/', percent-encodings normalized *)
Definition pseg (s : text) : Prop := no_slash s /\ pn s = s.

Lemma pseg_nil : pseg [].
Proof. split; [constructor|reflexivity]. Qed.
Lemma pseg_dot : pseg [46].
Proof. split; [exact no_slash_dot|reflexivity]. Qed.

Lemma pseg_no_slash W : Forall pseg W -> Forall no_slash W.
Proof. apply Forall_impl. intros s H. apply H. Qed.

(* the segments of the percent-normalized path text *)
Lemma pn_segs p : forallb pct_wf (split_on 47 p) = true ->
  map pn (split_on 47 p) <> [] /\ Forall pseg (map pn (split_on 47 p)).
Proof.
  intros Hwf. split.
  - pose proof (split_nonnil p) as H. destruct (split_on 47 p); [congruence|discriminate].
  - apply Forall_forall. intros x Hx. apply in_map_iff in Hx. destruct Hx as (s & <- & Hs).
    rewrite forallb_forall in Hwf. pose proof (Hwf s Hs) as Hw.
    pose proof (split_no_slash p) as Hns. rewrite Forall_forall in Hns.
    split; [|apply pct_norm_idem; exact Hw].
    rewrite <- (fix_pct_spec s Hw). apply fix_pct_no_slash; [exact Hw|exact (Hns s Hs)].
Qed.

(* such a text is left alone by the percent-encoding step *)
Lemma pn_join_fixed W : W <> [] -> Forall pseg W ->
  join_slash (map pn (split_on 47 (join_slash W))) = join_slash W.
Proof.
  intros Hne H. rewrite (split_join W Hne (pseg_no_slash W H)). f_equal.
  rewrite <- (map_id W) at 2. apply map_ext_in. intros s Hs. rewrite Forall_forall in H. apply (H s Hs).
Qed.

(* path_normal in one line: dot segments by rds_keep_kind unless the reference is a relative-path reference *)
Lemma path_normal_alt hs ha p :
  path_normal hs ha p =
  let p' := join_slash (map pn (split_on 47 p)) in
  if hs || ha || head_is 47 p' then rds_keep_kind p' else rel_path_normal p'.
Proof.
  unfold path_normal. cbv zeta. destruct (join_slash (map pn (split_on 47 p))) as [|c r] eqn:E.
  - destruct (hs || ha); reflexivity.
  - unfold rds_keep_kind. destruct (head_is 47 (c :: r)); [rewrite orb_true_r; reflexivity|].
    rewrite orb_false_r. reflexivity.
Qed.

(* what rds_keep_kind leaves, on segments *)
Lemma rkk_shape S : S <> [] -> Forall pseg S ->
  exists W, W <> [] /\ Forall pseg W /\ nodots W /\ rds_keep_kind (join_slash S) = join_slash W.
Proof.
  intros Hne HS. pose proof (pseg_no_slash S HS) as Hns.
  destruct (join_slash S) as [|c r] eqn:Ej.
  { exists [[]]. repeat split; [discriminate|constructor; [exact pseg_nil|constructor]]. }
  destruct (head_is 47 (join_slash S)) eqn:Hh.
  - (* rooted: the first segment is empty and another follows *)
    destruct S as [|[|x s0] S1]; [congruence| |].
    + destruct S1 as [|s1 S2]; [discriminate Ej|]. inversion HS as [|? ? _ HS1]; subst.
      assert (s1 :: S2 <> []) as Hne1 by discriminate.
      exists ([] :: awalk (s1 :: S2)). split; [discriminate|]. split; [|split].
      * constructor; [exact pseg_nil|]. apply awalk_Forall; [exact pseg_nil|exact HS1].
      * unfold nodots. cbn [forallb]. rewrite (awalk_nodots (s1 :: S2)). reflexivity.
      * rewrite <- Ej. change (join_slash ([] :: s1 :: S2)) with (47 :: join_slash (s1 :: S2)).
        rewrite (join_cons_nil _ (awalk_nonnil _ Hne1)). unfold rds_keep_kind. cbn [head_is]. rewrite N.eqb_refl.
        apply rds_segs; [exact Hne1|exact (pseg_no_slash _ HS1)].
    + exfalso. inversion Hns as [|? ? Hx _]; subst. destruct (no_slash_head _ _ Hx) as [Hx1 _].
      destruct (join_head x s0 S1) as [tl' E]. rewrite E in Hh. cbn [head_is] in Hh. congruence.
  - exists (awalk S). split; [exact (awalk_nonnil S Hne)|]. split; [|split].
    + apply awalk_Forall; [exact pseg_nil|exact HS].
    + apply awalk_nodots.
    + rewrite <- Ej. apply rkk_segs; [exact Hne|exact Hns|rewrite Ej; discriminate|exact Hh].
Qed.

(* what rel_path_normal leaves *)
Lemma rpn_shape S : S <> [] -> Forall pseg S -> join_slash S <> [] ->
  exists W, W <> [] /\ Forall pseg W /\ rel_path_normal (join_slash S) = join_slash W
            /\ join_slash W <> [] /\ head_is 47 (join_slash W) = false.
Proof.
  intros Hne HS Hj. rewrite (rel_path_normal_text _ Hj). rewrite (split_join S Hne (pseg_no_slash S HS)).
  set (T := rel_from [] S).
  assert (T <> []) as HT by apply rel_from_nonnil.
  assert (Forall pseg T) as HP by (apply rel_from_Forall; [exact pseg_nil|exact HS]).
  destruct (spec_text_split T HT (pseg_no_slash T HP)) as (Hnn & Hh & [[Es ET]|[[Es Et]|[Es Et]]]).
  - exists [[46]; []]. rewrite ET. repeat split; try discriminate.
    constructor; [exact pseg_dot|constructor; [exact pseg_nil|constructor]].
  - exists (@cons text [46] T). rewrite (join_dot_front T HT), <- Et. repeat split; try assumption; try discriminate.
    constructor; [exact pseg_dot|exact HP].
  - exists T. rewrite <- Et. repeat split; assumption.
Qed.

(* percent-encodings well formed in every segment: what the parser guarantees (uri_pct_wf) *)
Theorem path_normal_idem hs ha p : forallb pct_wf (split_on 47 p) = true ->
  path_normal hs ha (path_normal hs ha p) = path_normal hs ha p.
Proof.
  intros Hwf. destruct (pn_segs p Hwf) as [Hne HS].
  rewrite (path_normal_alt hs ha p). cbv zeta. set (S := map pn (split_on 47 p)) in *.
  destruct (hs || ha || head_is 47 (join_slash S)) eqn:Ef.
  - destruct (rkk_shape S Hne HS) as (W & HWne & HW & Hnd & E). rewrite E.
    rewrite path_normal_alt. cbv zeta. rewrite (pn_join_fixed W HWne HW).
    assert (hs || ha || head_is 47 (join_slash W) = true) as Ef2.
    { destruct (hs || ha); [reflexivity|]. cbn [orb] in *. rewrite <- E.
      unfold rds_keep_kind. destruct (join_slash S) eqn:Ej; [discriminate Ef|]. rewrite <- Ej in *. rewrite Ef.
      apply rds_rooted. exact Ef. }
    rewrite Ef2. apply rkk_fixed; [exact (pseg_no_slash W HW)|exact Hnd].
  - destruct (join_slash S) as [|c r] eqn:Ej; [reflexivity|]. rewrite <- Ej in *.
    assert (join_slash S <> []) as Hj by (rewrite Ej; discriminate).
    destruct (rpn_shape S Hne HS Hj) as (W & HWne & HW & E & HjW & HhW). rewrite E.
    rewrite path_normal_alt. cbv zeta. rewrite (pn_join_fixed W HWne HW).
    apply orb_false_elim in Ef. destruct Ef as [Ef _]. rewrite Ef, HhW. cbn [orb].
    rewrite <- E. apply rel_path_normal_idem.
Qed.

(* ================================================================ 2b. auth_normal *)
(* normalization writes no delimiter: a character that is not unreserved and not '%' appears in the result
   only where it stood in the text *)
Lemma norm_char_unres (lc : bool) (v k : N) : is_unreserved k = false -> is_unreserved v = true ->
  (if lc then lower v else v) <> k.
Proof. destruct lc; arith. Qed.

Lemma norm_char_hex (v k : N) : is_unreserved k = false -> v < 16 -> upper_hex v <> k.
Proof. arith. Qed.

Lemma norm_char_other (lc : bool) (c k : N) : is_unreserved k = false -> c <> k -> (if lc then lower c else c) <> k.
Proof. destruct lc; arith. Qed.

Lemma pct_norm_notin lc k t : is_unreserved k = false -> k <> 37 -> pct_wf t = true ->
  ~ In k t -> ~ In k (pct_norm lc t).
Proof.
  intros Hk Hk37 Hwf. wf_induction t Hwf; intros Hn.
  - exact Hn.
  - rewrite pct_norm_other by exact Hc. intros [E|Hi].
    + apply (norm_char_other lc c k Hk); [|exact E]. intros Eck. apply Hn. left. exact Eck.
    + apply IH; [|exact Hi]. intros H. apply Hn. right. exact H.
  - assert (~ In k r) as Hnr by (intros H; apply Hn; right; right; right; exact H).
    rewrite pct_norm_triplet by assumption. cbv zeta.
    destruct (is_unreserved (16 * hexdig_to_int a + hexdig_to_int b)) eqn:Eu.
    + intros [E|Hi]; [exact (norm_char_unres lc _ k Hk Eu E)|exact (IH Hnr Hi)].
    + intros [E|[E|[E|Hi]]]; [congruence| | |exact (IH Hnr Hi)].
      * exact (norm_char_hex _ k Hk (hexdig_lt16 a Ha) E).
      * exact (norm_char_hex _ k Hk (hexdig_lt16 b Hb) E).
Qed.

Lemma notin_avoidb k t : ~ In k t -> avoidb [k] t = true.
Proof.
  intros H. unfold avoidb. apply forallb_forall. intros c Hc. apply negb_true_iff. cbn [Regex.mem].
  rewrite orb_false_r. apply N.eqb_neq. intros Eck. subst c. exact (H Hc).
Qed.

Lemma pct_norm_avoidb lc k t : is_unreserved k = false -> k <> 37 -> pct_wf t = true ->
  avoidb [k] t = true -> avoidb [k] (pct_norm lc t) = true.
Proof. intros Hk H37 Hwf H. apply notin_avoidb. apply pct_norm_notin; try assumption. apply avoidb_notin. exact H. Qed.

Lemma lower_avoidb k t : is_unreserved k = false -> avoidb [k] t = true -> avoidb [k] (map lower t) = true.
Proof.
  intros Hk H. apply notin_avoidb. intros Hi. apply in_map_iff in Hi. destruct Hi as (c & E & Hc).
  apply (norm_char_other true c k Hk); [|exact E]. intros Eck. subst c. exact (avoidb_notin _ _ H Hc).
Qed.

Lemma v_start_lower h : Unparse.v_start h = true -> Unparse.v_start (map lower h) = true.
Proof.
  unfold Unparse.v_start. destruct h as [|c r]; [discriminate|]. cbn [map head_is]. intros H.
  apply orb_true_iff in H. destruct H as [H|H]; apply N.eqb_eq in H; subst c; reflexivity.
Qed.

(* the authority text in its parts; the hypotheses are those of Proofs/NormalizeText.v (auth_wfb: no part
   contains a delimiter that ends it) and well-formed percent-encodings in user info and registered name:
   every parsed authority meets them *)
Theorem auth_normal_idem ui h (lit : bool) po :
  opt_avoidb [64] ui = true -> avoidb [64] h = true -> opt_avoidb [64] po = true ->
  (if lit then avoidb [93] h = true else avoidb [58] h = true /\ avoidb [91] h = true) ->
  opt_pct_wf ui = true -> (lit = false -> pct_wf h = true) ->
  let a := Unparse.opt_post ui [64] ++ (if lit then [91] ++ h ++ [93] else h) ++ Unparse.opt_pre [58] po in
  auth_normal (auth_normal a) = auth_normal a.
Proof.
  intros Hui Hh Hpo Hl Wui Wh. cbv zeta.
  rewrite (auth_normal_parts ui h lit po Hui Hh Hpo Hl).
  set (ui' := match ui with Some u => Some (pct_norm false u) | None => None end).
  set (h' := if lit then (if Unparse.v_start h then map lower h else h) else pct_norm true h).
  assert ((match ui with Some u => pct_norm false u ++ [64] | None => [] end)
          ++ (if lit then 91 :: (if Unparse.v_start h then map lower h else h) ++ [93] else pct_norm true h)
          ++ (match po with Some p => 58 :: p | None => [] end)
          = Unparse.opt_post ui' [64] ++ (if lit then [91] ++ h' ++ [93] else h') ++ Unparse.opt_pre [58] po) as E.
  { unfold ui', h'. destruct ui, lit, po; reflexivity. }
  rewrite E.
  assert (opt_avoidb [64] ui' = true) as Hui'.
  { unfold ui'. destruct ui as [u|]; [|reflexivity]. cbn [opt_avoidb opt_pct_wf] in *.
    apply pct_norm_avoidb; [reflexivity|discriminate|exact Wui|exact Hui]. }
  assert (avoidb [64] h' = true) as Hh'.
  { unfold h'. destruct lit.
    - destruct (Unparse.v_start h); [apply lower_avoidb; [reflexivity|exact Hh]|exact Hh].
    - apply pct_norm_avoidb; [reflexivity|discriminate|exact (Wh eq_refl)|exact Hh]. }
  assert (if lit then avoidb [93] h' = true else avoidb [58] h' = true /\ avoidb [91] h' = true) as Hl'.
  { unfold h'. destruct lit.
    - destruct (Unparse.v_start h); [apply lower_avoidb; [reflexivity|exact Hl]|exact Hl].
    - destruct Hl as [H58 H91].
      split; (apply pct_norm_avoidb; [reflexivity|discriminate|exact (Wh eq_refl)|assumption]). }
  rewrite (auth_normal_parts ui' h' lit po Hui' Hh' Hpo Hl').
  f_equal; [|f_equal].
  - unfold ui'. destruct ui as [u|]; [|reflexivity]. cbn [opt_pct_wf] in Wui. rewrite (pct_norm_idem false u Wui). reflexivity.
  - unfold h'. destruct lit.
    + destruct (Unparse.v_start h) eqn:Ev; [|rewrite Ev; reflexivity].
      rewrite (v_start_lower h Ev), lower_idem. reflexivity.
    + rewrite (pct_norm_idem true h (Wh eq_refl)). reflexivity.
Qed.

(* ================================================================ 3. the text *)
(* _partial: idempotence of [normal_text] reduced to the two facts about the five components g of the normal
   form that remain to be proved for every parsed text: the text written for g is read back as g (the purpose
   of Normal.guard_path), and g is a fixed point of the component-wise normalization with its guard.  (The
   second follows from pct_norm_idem, lower_idem, auth_normal_idem, path_normal_idem and a case analysis of
   the guard; the first needs the delimiter facts of Proofs/NormalizeText.v section 4 for g.) *)
Theorem normal_text_idem_partial s :
  let f := five_of_text s in
  let g := guard_normal f (five_normal f) in
  five_of_text (recompose g) = g -> guard_normal g (five_normal g) = g ->
  normal_text (normal_text s) = normal_text s.
Proof. cbv zeta. intros Hread Hfix. unfold normal_text. cbv zeta. rewrite Hread, Hfix. reflexivity. Qed.

(* the path with its guard, as five_normal and guard_normal apply them.  _partial: behind an authority only
   (there the guard does nothing); without an authority the case analysis of the guard ("/." in front of "//",
   "./" in front of "//" or "/") is not done here *)
Definition guarded_path (hs ha : bool) (p : text) : text :=
  guard_path (is_rootless p) ha (path_normal hs ha p).

Theorem guarded_path_idem_partial hs p : forallb pct_wf (split_on 47 p) = true ->
  guarded_path hs true (guarded_path hs true p) = guarded_path hs true p.
Proof. intros H. unfold guarded_path, guard_path. apply path_normal_idem. exact H. Qed.
