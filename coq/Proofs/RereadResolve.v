(* C07, resolution and reference creation: uriAddBaseUriExMm (Model/Resolve.v, add_base) and
   uriRemoveBaseUriMm (Model/Shorten.v, remove_base) keep [produced_wf] (Spec/Reread.v), and so does
   every finite history of parse / resolve / create-reference / normalize / make-owner steps.

   Contents
     1. [produced_wf] as a boolean                                   (produced_wfb, produced_wfb_iff)
     2. path texts of host-less objects; what uriFixAmbiguity buys   (fixamb_nodslash, first_segment)
     3. objects assembled from copied components                     (build, build_wf)
     4. resolution                                                   (add_base_build, add_base_produced_wf)
     5. reference creation                                           (remove_base_produced_wf)
     6. histories                                                    (run, history_ok, history_produced_wf) *)
From Coq Require Import List NArith ZArith Bool Lia.
From UP Require Import Base.Chars Model.Uri Model.Common Model.Compare Model.Resolve Model.Shorten
  Model.Parse Model.Normalize Model.History Spec.NormalWf Spec.Resolve Spec.Split
  Proofs.DotSegments Proofs.ResolveProofs Proofs.ShortenProofs Spec.Unparse Spec.Reread.
From UP Require Base.Regex Spec.Rfc3986.
Import ListNotations.
Local Open Scope N_scope.

(* ---------------------------------------------------------------- 1. produced_wf as a boolean *)
Definition opt_okb (p : text -> bool) (o : option text) : bool :=
  match o with Some t => p t | None => true end.
Definition scheme_okb (s : text) : bool :=
  match s with c :: r => is_alpha c && forallb is_scheme_char r | [] => false end.
Definition text_okb (cls : N -> bool) (t : text) : bool := forallb cls t && pct_wf t.
Definition host_okb (u : uri) : bool :=
  match hostText u with
  | None => negb (is_some (ip4 u)) && negb (is_some (ip6 u)) && negb (is_some (ipFuture u))
  | Some h =>
    negb (absolutePath u) &&
    match ip4 u, ip6 u, ipFuture u with
    | None, None, None => text_okb is_regname_char h
    | Some o, None, None => Regex.matchb Rfc3986.IPv4address h && text_eqb o (ip4_value h)
    | None, Some b, None => Nat.eqb (length b) 16 && forallb (fun x => x <=? 255) b
    | None, None, Some f => text_eqb f h && Regex.matchb Rfc3986.IPvFuture h
    | _, _, _ => false
    end
  end.
Definition path_unambiguousb (u : uri) : bool :=
  match hostText u with
  | Some _ => true
  | None =>
    negb (head_is 47 (Reread.path_text u) && head_is 47 (tl (Reread.path_text u)))
    && (is_some (scheme u)
        || negb (existsb (fun c => c =? 58) (fst (span_until [47] (Reread.path_text u)))))
  end.
Definition auth_okb (u : uri) : bool :=
  match hostText u with
  | None => negb (is_some (userInfo u)) && negb (is_some (portText u))
  | Some _ => true
  end.
Definition produced_wfb (u : uri) : bool :=
  opt_okb scheme_okb (scheme u) && opt_okb (text_okb is_userinfo_char) (userInfo u) && host_okb u
  && opt_okb (forallb is_digit) (portText u) && forallb (text_okb is_pchar) (pathSegs u)
  && opt_okb (text_okb is_qf_char) (query u) && opt_okb (text_okb is_qf_char) (fragment u)
  && path_unambiguousb u && auth_okb u.

Lemma text_okb_iff cls t : text_okb cls t = true <-> text_ok cls t.
Proof. unfold text_okb, text_ok. apply andb_true_iff. Qed.

Lemma opt_okb_iff (P : text -> Prop) (p : text -> bool) o :
  (forall t, p t = true <-> P t) -> (opt_okb p o = true <-> opt_ok P o).
Proof. intros H. destruct o as [t|]; cbn [opt_okb opt_ok]; [apply H|tauto]. Qed.

Lemma scheme_okb_iff s : scheme_okb s = true <-> scheme_ok s.
Proof.
  destruct s as [|c r]; cbn [scheme_okb scheme_ok]; [split; [discriminate|tauto]|apply andb_true_iff].
Qed.

Lemma Forall_text_ok cls l : forallb (text_okb cls) l = true <-> Forall (text_ok cls) l.
Proof.
  rewrite forallb_forall, Forall_forall.
  split; intros H x Hx; apply text_okb_iff; apply H; exact Hx.
Qed.

Lemma text_eqb_iff a b : text_eqb a b = true <-> a = b.
Proof. split; [apply text_eqb_true|intros E; subst b; apply text_eqb_refl]. Qed.

Lemma Forall_le255 b : forallb (fun x => x <=? 255) b = true <-> Forall (fun x => x <= 255) b.
Proof.
  rewrite forallb_forall, Forall_forall.
  split; intros H x Hx; [apply N.leb_le|apply N.leb_le]; apply H; exact Hx.
Qed.

Lemma no_colon_iff l : existsb (fun c => c =? 58) l = false <-> ~ In 58 l.
Proof.
  split.
  - intros H Hin. assert (existsb (fun c => c =? 58) l = true) as E.
    { apply existsb_exists. exists 58. split; [exact Hin|reflexivity]. }
    congruence.
  - intros H. apply not_true_is_false. intros E. apply existsb_exists in E.
    destruct E as [x [Hx Ex]]. apply N.eqb_eq in Ex. subst x. exact (H Hx).
Qed.

Lemma host_okb_iff u : host_okb u = true <-> host_ok u.
Proof.
  unfold host_okb, host_ok. destruct (hostText u) as [h|].
  - rewrite andb_true_iff, negb_true_iff.
    destruct (ip4 u) as [o|], (ip6 u) as [b|], (ipFuture u) as [f|];
      try (split; [intros [_ H]; discriminate H|intros [_ H]; destruct H]).
    + rewrite andb_true_iff, text_eqb_iff. tauto.
    + rewrite andb_true_iff, Nat.eqb_eq, Forall_le255. tauto.
    + rewrite andb_true_iff, text_eqb_iff. tauto.
    + rewrite text_okb_iff. tauto.
  - destruct (ip4 u), (ip6 u), (ipFuture u); cbn [is_some negb andb];
      (split; [intros H; try discriminate H; auto
              |intros (HA & HB & HC); try discriminate HA; try discriminate HB; try discriminate HC; reflexivity]).
Qed.

Lemma path_unambiguousb_iff u : path_unambiguousb u = true <-> path_unambiguous u.
Proof.
  unfold path_unambiguousb, path_unambiguous. destruct (hostText u); [tauto|].
  rewrite andb_true_iff, negb_true_iff. apply and_iff_compat_l.
  destruct (scheme u) as [s|]; cbn [is_some orb].
  - split; [intros _ H; discriminate H|reflexivity].
  - rewrite negb_true_iff, no_colon_iff. split; [intros H _; exact H|intros H; apply H; reflexivity].
Qed.

Lemma auth_okb_iff u : auth_okb u = true <-> auth_ok u.
Proof.
  unfold auth_okb, auth_ok. destruct (hostText u); [tauto|].
  destruct (userInfo u), (portText u); cbn [is_some negb andb];
    (split; [intros H; try discriminate H; auto|intros [HA HB]; try discriminate HA; try discriminate HB; reflexivity]).
Qed.

Theorem produced_wfb_iff u : produced_wfb u = true <-> produced_wf u.
Proof.
  unfold produced_wfb, produced_wf. rewrite !andb_true_iff.
  rewrite (opt_okb_iff scheme_ok scheme_okb _ scheme_okb_iff).
  rewrite !(opt_okb_iff (text_ok is_userinfo_char) _ _ (text_okb_iff is_userinfo_char)).
  rewrite !(opt_okb_iff (text_ok is_qf_char) _ _ (text_okb_iff is_qf_char)).
  rewrite (opt_okb_iff digits_ok (forallb is_digit) (portText u) (fun t => iff_refl _)).
  rewrite host_okb_iff, Forall_text_ok, path_unambiguousb_iff, auth_okb_iff. tauto.
Qed.

(* ---------------------------------------------------------------- 2. host-less path texts *)
(* the path text of an object without host: "/" iff the flag is set, then the segments *)
Definition ptext (a : bool) (segs : list text) : text := (if a then [47] else []) ++ join_slash segs.

Lemma path_text_hostless u : hostText u = None -> Reread.path_text u = ptext (absolutePath u) (pathSegs u).
Proof. intros Hh. unfold Reread.path_text, ptext. rewrite Hh. cbn [is_some andb]. rewrite orb_false_r. reflexivity. Qed.

(* the text does not begin with "//" *)
Definition nodslash (t : text) : Prop := (head_is 47 t && head_is 47 (tl t)) = false.
(* the text up to its first "/" has no ":" *)
Definition nocolon1 (t : text) : Prop := ~ In 58 (fst (span_until [47] t)).

Definition pc := text_ok is_pchar.

Lemma pc_nil : pc []. Proof. split; reflexivity. Qed.
Lemma pc_dot : pc [46]. Proof. split; reflexivity. Qed.
Lemma pc_dotdot : pc [46; 46]. Proof. split; reflexivity. Qed.

Lemma pc_head c x : pc (c :: x) -> (c =? 47) = false.
Proof.
  intros [Hc _]. cbn [forallb] in Hc. apply andb_true_iff in Hc. destruct Hc as [Hc _].
  destruct (c =? 47) eqn:E; [|reflexivity]. apply N.eqb_eq in E. subst c. discriminate Hc.
Qed.

Lemma pc_noslash x : pc x -> Forall (fun c => (c =? 47) = false) x.
Proof.
  intros [Hc _]. induction x as [|c x IH]; [constructor|].
  cbn [forallb] in Hc. apply andb_true_iff in Hc. destruct Hc as [Hc Hx].
  constructor; [|apply IH; exact Hx].
  destruct (c =? 47) eqn:E; [|reflexivity]. apply N.eqb_eq in E. subst c. discriminate Hc.
Qed.

Lemma join_slash_cons2 s t r : join_slash (s :: t :: r) = s ++ 47 :: join_slash (t :: r).
Proof. reflexivity. Qed.

Lemma join_slash_head c x r : exists rest, join_slash (@cons text (c :: x) r) = c :: rest.
Proof. destruct r as [|t r]; [exists x; reflexivity|]. rewrite join_slash_cons2. exists (x ++ 47 :: join_slash (t :: r)). reflexivity. Qed.

(* uriFixAmbiguity on a host-less object: whatever the segments were, the text does not begin "//" *)
Lemma fixamb_nodslash a segs : Forall pc segs -> nodslash (ptext a (fixamb_p false a segs)).
Proof.
  intros Hs. unfold nodslash, ptext.
  destruct segs as [|[|c x] r].
  - destruct a; reflexivity.
  - destruct r as [|[|c2 x2] r2].
    + destruct a; reflexivity.
    + destruct a; reflexivity.
    + inversion Hs as [|s0 l0 _ Hr]; subst. inversion Hr as [|s1 l1 Hx2 _]; subst.
      destruct a; [reflexivity|]. cbn [fixamb_p app]. rewrite join_slash_cons2. cbn [app head_is tl].
      destruct (join_slash_head c2 x2 r2) as [rest E]. rewrite E. cbn [head_is].
      rewrite (pc_head _ _ Hx2). reflexivity.
  - inversion Hs as [|s0 l0 Hx _]; subst.
    assert (fixamb_p false a (@cons text (c :: x) r) = @cons text (c :: x) r) as Ef by (destruct a, r as [|[|? ?] ?]; reflexivity).
    rewrite Ef. destruct (join_slash_head c x r) as [rest E]. rewrite E.
    destruct a; cbn [app head_is tl]; rewrite (pc_head _ _ Hx); [apply andb_false_r|reflexivity].
Qed.

(* uriFixEmptyTrailSegment does not change the text *)
Lemma fixtrail_ptext a segs : ptext a (fixtrail_p false segs) = ptext a segs.
Proof. destruct segs as [|[|c x] [|y r]]; reflexivity. Qed.

(* the first segment of a rootless text *)
Lemma span_seg x : pc x -> forall rest, fst (span_until [47] (x ++ 47 :: rest)) = x.
Proof.
  intros Hx rest. pose proof (pc_noslash x Hx) as Hn. clear Hx.
  induction x as [|c x IH].
  - reflexivity.
  - inversion Hn as [|c0 x0 Hc Hn']; subst.
    cbn [app span_until Regex.mem]. rewrite Hc. cbn [orb].
    specialize (IH Hn'). destruct (span_until [47] (x ++ 47 :: rest)) as [p q]. cbn [fst] in *. rewrite IH. reflexivity.
Qed.

Lemma span_seg_end x : pc x -> fst (span_until [47] x) = x.
Proof.
  intros Hx. pose proof (pc_noslash x Hx) as Hn. clear Hx.
  induction x as [|c x IH]; [reflexivity|].
  inversion Hn as [|c0 x0 Hc Hn']; subst.
  cbn [span_until Regex.mem]. rewrite Hc. cbn [orb].
  specialize (IH Hn'). destruct (span_until [47] x) as [p q]. cbn [fst] in *. rewrite IH. reflexivity.
Qed.

Lemma first_segment x r : pc x -> fst (span_until [47] (join_slash (x :: r))) = x.
Proof.
  intros Hx. destruct r as [|t r]; [apply span_seg_end; exact Hx|].
  rewrite join_slash_cons2. apply span_seg. exact Hx.
Qed.

Lemma nocolon1_abs segs : nocolon1 (ptext true segs).
Proof. unfold nocolon1, ptext. cbn [app span_until Regex.mem]. rewrite N.eqb_refl. cbn [orb fst]. intros H. destruct H. Qed.

Lemma has_colon_false x : has_colon x = false -> ~ In 58 x.
Proof. apply no_colon_iff. Qed.

(* character classes through the path operations *)
Lemma pc_rds h a segs : Forall pc segs -> Forall pc (rds_p h a segs).
Proof.
  intros Hs. unfold rds_p. destruct segs as [|s r]; [constructor|].
  apply Forall_text_ok. apply walk_forallb; [reflexivity|reflexivity|apply Forall_text_ok; exact Hs].
Qed.

Lemma pc_fixamb h a segs : Forall pc segs -> Forall pc (fixamb_p h a segs).
Proof.
  intros Hs. unfold fixamb_p.
  destruct a, segs as [|[|c x] [|[|c2 x2] r]]; try exact Hs; try (constructor; [exact pc_dot|exact Hs]).
  destruct h; [exact Hs|constructor; [exact pc_dot|exact Hs]].
Qed.

Lemma pc_fixtrail h segs : Forall pc segs -> Forall pc (fixtrail_p h segs).
Proof.
  intros Hs. unfold fixtrail_p. destruct (negb h); [|exact Hs].
  destruct segs as [|[|c x] [|y r]]; try exact Hs. constructor.
Qed.

Lemma Forall_removelast {A} (P : A -> Prop) l : Forall P l -> Forall P (removelast l).
Proof.
  induction l as [|x l IH]; intros H; [constructor|].
  inversion H as [|x0 l0 Hx Hl]; subst. cbn [removelast]. destruct l as [|y l]; [constructor|].
  constructor; [exact Hx|apply IH; exact Hl].
Qed.

(* ---------------------------------------------------------------- 3. objects assembled from copies *)
(* scheme [sc], the authority members of [src], the given path, query and fragment *)
Definition build (sc : option text) (src : uri) (abs : bool) (segs : list text) (q f : option text) : uri :=
  set_fragment f (set_query q (set_absolutePath abs (set_pathSegs segs
    (copy_authority (set_scheme sc empty_uri) src)))).

Lemma host_ok_is_host_set u : host_ok u -> is_host_set u = is_some (hostText u).
Proof.
  unfold host_ok, is_host_set. destruct (hostText u); [reflexivity|].
  intros (H4 & H6 & Hf). rewrite H4, H6, Hf. reflexivity.
Qed.

Lemma build_wf sc src abs segs q f :
  produced_wf src ->
  opt_ok scheme_ok sc -> opt_ok (text_ok is_qf_char) q -> opt_ok (text_ok is_qf_char) f ->
  Forall pc segs ->
  (hostText src <> None -> abs = false) ->
  (hostText src = None -> nodslash (ptext abs segs) /\ (sc = None -> nocolon1 (ptext abs segs))) ->
  produced_wf (build sc src abs segs q f).
Proof.
  intros Hsrc Hsc Hq Hf Hsegs Habs Hpath.
  destruct Hsrc as (_ & Hui & Hho & Hpo & _ & _ & _ & _ & Hau).
  unfold produced_wf, host_ok, path_unambiguous, auth_ok, Reread.path_text, build in *.
  destruct src as [sc0 ui ht i4 i6 ifu po ps qu fr ab ow].
  usimpl. cbn [scheme userInfo hostText ip4 ip6 ipFuture portText pathSegs query fragment absolutePath] in *.
  destruct ht as [h|].
  - specialize (Habs ltac:(discriminate)).
    destruct Hho as [_ Hk].
    destruct i4, i6, ifu; try contradiction; repeat split; try assumption; apply Hk.
  - destruct Hho as (H4 & H6 & H7). subst i4 i6 ifu.
    destruct (Hpath eq_refl) as [Hd Hc]. unfold ptext, nodslash, nocolon1 in Hd, Hc.
    cbn [is_some andb]. rewrite orb_false_r.
    repeat split; try assumption; apply Hau.
Qed.

(* the path clauses of an object that satisfies produced_wf, in the form build_wf wants *)
Lemma path_facts u : produced_wf u ->
  Forall pc (pathSegs u)
  /\ (hostText u <> None -> absolutePath u = false)
  /\ (hostText u = None -> nodslash (ptext (absolutePath u) (pathSegs u))
                          /\ (scheme u = None -> nocolon1 (ptext (absolutePath u) (pathSegs u)))).
Proof.
  intros (_ & _ & Hho & _ & Hps & _ & _ & Hpu & _). split; [exact Hps|]. split.
  - intros Hh. unfold host_ok in Hho. destruct (hostText u); [apply Hho|congruence].
  - intros Hh. unfold path_unambiguous in Hpu. rewrite Hh in Hpu. rewrite (path_text_hostless u Hh) in Hpu. exact Hpu.
Qed.

(* ---------------------------------------------------------------- 4. resolution *)
(* the result of uriAddBaseUriExMm, branch by branch, as an assembly of copied components *)
Definition add_base_result (compat : bool) (rel base : uri) (sb : text) : uri :=
  let hr := is_host_set rel in let ar := absolutePath rel in
  let hb := is_host_set base in let ab := absolutePath base in
  if keeps_scheme compat (Some sb) rel then
    build (scheme rel) rel ar (fixtrail_p hr (fixamb_p hr ar (rds_p hr ar (pathSegs rel)))) (query rel) (fragment rel)
  else if hr then
    build (Some sb) rel ar (fixtrail_p hr (rds_p hr ar (pathSegs rel))) (query rel) (fragment rel)
  else
    match pathSegs rel, ar with
    | [], false =>
      build (Some sb) base ab (fixtrail_p hb (pathSegs base))
            (match query rel with Some q => Some q | None => query base end) (fragment rel)
    | _, true =>
      let a' := negb hb in
      let segs' := if hb then match pathSegs rel with [] => [[]] | _ => pathSegs rel end else pathSegs rel in
      build (Some sb) base a' (fixtrail_p hb (fixamb_p hb a' (rds_p hb a' segs'))) (query rel) (fragment rel)
    | _, false =>
      build (Some sb) base ab
            (fixtrail_p hb (fixamb_p hb ab (rds_p hb ab (removelast (pathSegs base) ++ pathSegs rel))))
            (query rel) (fragment rel)
    end.

Lemma add_base_build compat rel base sb : scheme base = Some sb ->
  add_base compat rel base = (URI_SUCCESS, add_base_result compat rel base sb).
Proof.
  intros Hsb. unfold add_base, add_base_impl, add_base_result. rewrite Hsb. cbv zeta.
  fold (keeps_scheme compat (Some sb) rel).
  destruct (keeps_scheme compat (Some sb) rel).
  { f_equal. rewrite rds_nf, fixamb_nf, fixtrail_nf. autorewrite with uri_db. usimpl.
    destruct rel as [sc1 ui1 ht1 i41 i61 if1 po1 ps1 qu1 fr1 ab1 ow1]; reflexivity. }
  destruct (is_host_set rel) eqn:Ehr.
  { f_equal. rewrite rds_nf, fixtrail_nf. autorewrite with uri_db. usimpl. rewrite Ehr.
    destruct rel as [sc1 ui1 ht1 i41 i61 if1 po1 ps1 qu1 fr1 ab1 ow1]; reflexivity. }
  destruct (absolutePath rel) eqn:Ear.
  - destruct (pathSegs rel) as [|r1 rs] eqn:Er;
      (f_equal; rewrite resabs_nf; autorewrite with uri_db; usimpl; rewrite ?Er, Ear, andb_true_r;
       destruct (is_host_set base) eqn:Ehb;
       rewrite rds_nf, fixamb_nf, fixtrail_nf; autorewrite with uri_db; usimpl; rewrite ?Ehb, ?Ear, ?Er;
       destruct rel as [sc1 ui1 ht1 i41 i61 if1 po1 ps1 qu1 fr1 ab1 ow1], base as [sc2 ui2 ht2 i42 i62 if2 po2 ps2 qu2 fr2 ab2 ow2];
       cbn [absolutePath] in Ear; subst ab1; reflexivity).
  - destruct (pathSegs rel) as [|r1 rs] eqn:Er.
    + f_equal. rewrite fixtrail_nf. autorewrite with uri_db. usimpl. destruct rel as [sc1 ui1 ht1 i41 i61 if1 po1 ps1 qu1 fr1 ab1 ow1], base as [sc2 ui2 ht2 i42 i62 if2 po2 ps2 qu2 fr2 ab2 ow2]; reflexivity.
    + f_equal. rewrite merge_nf. usimpl. rewrite Er.
      rewrite rds_nf, fixamb_nf, fixtrail_nf. autorewrite with uri_db. usimpl. destruct rel as [sc1 ui1 ht1 i41 i61 if1 po1 ps1 qu1 fr1 ab1 ow1], base as [sc2 ui2 ht2 i42 i62 if2 po2 ps2 qu2 fr2 ab2 ow2]; reflexivity.
Qed.

Lemma hostless_not_set u : host_ok u -> hostText u = None -> is_host_set u = false.
Proof. intros Hh Hn. rewrite (host_ok_is_host_set u Hh), Hn. reflexivity. Qed.

Lemma host_set_some u : host_ok u -> hostText u <> None -> is_host_set u = true.
Proof. intros Hh Hn. rewrite (host_ok_is_host_set u Hh). destruct (hostText u); [reflexivity|congruence]. Qed.

Lemma keeps_scheme_some compat sb rel : keeps_scheme compat sb rel = true -> scheme rel <> None.
Proof. unfold keeps_scheme. destruct (scheme rel); [discriminate|]. cbn [is_some andb]. discriminate. Qed.

(* R1: resolution keeps produced_wf *)
Theorem add_base_produced_wf compat rel base d :
  produced_wf rel -> produced_wf base -> add_base compat rel base = (URI_SUCCESS, d) -> produced_wf d.
Proof.
  intros Hrel Hbase Hadd.
  destruct (scheme base) as [sb|] eqn:Hsb.
  2:{ rewrite (add_base_rel_base compat rel base Hsb) in Hadd. discriminate Hadd. }
  rewrite (add_base_build compat rel base sb Hsb) in Hadd. injection Hadd as Hd. subst d.
  pose proof Hrel as (Hsc_r & _ & Hho_r & _ & _ & Hq_r & Hf_r & _ & _).
  pose proof Hbase as (Hsc_b & _ & Hho_b & _ & _ & Hq_b & _ & _ & _).
  destruct (path_facts rel Hrel) as (Hps_r & Habs_r & Hpath_r).
  destruct (path_facts base Hbase) as (Hps_b & Habs_b & Hpath_b).
  assert (opt_ok scheme_ok (Some sb)) as Hsb_ok by (rewrite <- Hsb; exact Hsc_b).
  unfold add_base_result.
  destruct (keeps_scheme compat (Some sb) rel) eqn:Hk.
  { (* the reference keeps its own scheme *)
    apply build_wf; try assumption.
    - apply pc_fixtrail, pc_fixamb, pc_rds. exact Hps_r.
    - intros Hh. rewrite (hostless_not_set rel Hho_r Hh). rewrite fixtrail_ptext. split.
      + apply fixamb_nodslash. apply pc_rds. exact Hps_r.
      + intros Hn. destruct (keeps_scheme_some _ _ _ Hk Hn). }
  destruct (is_host_set rel) eqn:Ehr.
  { (* the reference has an authority *)
    apply build_wf; try assumption.
    - apply pc_fixtrail, pc_rds. exact Hps_r.
    - intros Hh. rewrite (hostless_not_set rel Hho_r Hh) in Ehr. discriminate Ehr. }
  destruct (absolutePath rel) eqn:Ear.
  - (* absolute-path reference: the flag gives way to the base's host *)
    assert (Forall pc (if is_host_set base
                       then match pathSegs rel with [] => [[]] | _ :: _ => pathSegs rel end
                       else pathSegs rel)) as Hsegs.
    { destruct (is_host_set base); [|exact Hps_r].
      destruct (pathSegs rel); [constructor; [exact pc_nil|constructor]|exact Hps_r]. }
    assert (produced_wf (build (Some sb) base (negb (is_host_set base))
              (fixtrail_p (is_host_set base) (fixamb_p (is_host_set base) (negb (is_host_set base))
                 (rds_p (is_host_set base) (negb (is_host_set base))
                    (if is_host_set base
                     then match pathSegs rel with [] => [[]] | _ :: _ => pathSegs rel end
                     else pathSegs rel)))) (query rel) (fragment rel))) as Hgoal.
    { apply build_wf; try assumption.
      - apply pc_fixtrail, pc_fixamb, pc_rds. exact Hsegs.
      - intros Hh. rewrite (host_set_some base Hho_b Hh). reflexivity.
      - intros Hh. rewrite (hostless_not_set base Hho_b Hh) in *. cbn [negb]. rewrite fixtrail_ptext. split.
        + apply fixamb_nodslash. apply pc_rds. exact Hsegs.
        + intros Hn. discriminate Hn. }
    destruct (pathSegs rel); exact Hgoal.
  - destruct (pathSegs rel) as [|r1 rs] eqn:Er.
    + (* empty path: the base's path *)
      apply build_wf; try assumption.
      * destruct (query rel); [exact Hq_r|exact Hq_b].
      * apply pc_fixtrail. exact Hps_b.
      * intros Hh. rewrite (hostless_not_set base Hho_b Hh). rewrite fixtrail_ptext. split.
        -- apply (Hpath_b Hh).
        -- intros Hn. discriminate Hn.
    + (* merge *)
      apply build_wf; try assumption.
      * apply pc_fixtrail, pc_fixamb, pc_rds. apply Forall_app. split; [apply Forall_removelast; exact Hps_b|].
        exact Hps_r.
      * intros Hh. rewrite (hostless_not_set base Hho_b Hh). rewrite fixtrail_ptext. split.
        -- apply fixamb_nodslash. apply pc_rds. apply Forall_app. split; [apply Forall_removelast; exact Hps_b|].
           exact Hps_r.
        -- intros Hn. discriminate Hn.
Qed.

(* ---------------------------------------------------------------- 5. reference creation *)
Lemma empty_uri_wf : produced_wf empty_uri.
Proof. apply produced_wfb_iff. reflexivity. Qed.

(* a rootless path whose first segment is non-empty and has no ":" reads back as a path *)
Lemma rootless_ok x r : pc x -> x <> [] -> has_colon x = false ->
  nodslash (ptext false (@cons text x r)) /\ nocolon1 (ptext false (@cons text x r)).
Proof.
  intros Hx Hne Hc. unfold ptext, nodslash, nocolon1. cbn [app]. split.
  - destruct x as [|c x']; [congruence|].
    destruct (join_slash_head c x' r) as [rest E]. rewrite E. cbn [head_is].
    rewrite (pc_head _ _ Hx). reflexivity.
  - rewrite (first_segment x r Hx). apply has_colon_false. exact Hc.
Qed.

Lemma pc_parents b : Forall pc (parents b).
Proof. rewrite parents_repeat. apply Forall_forall. intros x Hx. apply repeat_spec in Hx. subst x. exact pc_dotdot. Qed.

Lemma pc_rest_segments naked s : Forall pc s -> Forall pc (rest_segments naked s).
Proof.
  intros Hs. unfold rest_segments. destruct s as [|x s']; [constructor|].
  destruct (naked && (has_colon x || match x with [] => true | _ :: _ => false end)); cbn [app];
    [constructor; [exact pc_dot|exact Hs]|exact Hs].
Qed.

Lemma pc_skip_common s b s' b' : Forall pc s -> skip_common s b = (s', b') -> Forall pc s'.
Proof.
  intros Hs Hsk. destruct (skip_common_split s b s' b' Hsk) as (c & cb & Es & _ & _).
  subst s. apply Forall_app in Hs. apply Hs.
Qed.

(* [26/50]-[36/50]: ".." segments, or else the remaining source segments behind a "." guard *)
Lemma walk_reference_ok b s : Forall pc s ->
  let segs := parents b ++ rest_segments (match parents b with [] => true | _ => false end) s in
  nodslash (ptext false segs) /\ nocolon1 (ptext false segs).
Proof.
  intros Hs segs. subst segs. destruct (parents b) as [|u ups] eqn:Eu.
  - cbn [app]. unfold rest_segments. destruct s as [|x s']; [split; [reflexivity|intros H; destruct H]|].
    cbn [andb]. destruct (has_colon x) eqn:Ec; cbn [orb app].
    + apply rootless_ok; [exact pc_dot|discriminate|reflexivity].
    + destruct x as [|c x'].
      * apply rootless_ok; [exact pc_dot|discriminate|reflexivity].
      * cbn [app]. inversion Hs as [|x0 l0 Hx _]; subst. apply rootless_ok; [exact Hx|discriminate|exact Ec].
  - pose proof (pc_parents b) as Hp. rewrite Eu in Hp. inversion Hp as [|x0 l0 Hu _]; subst.
    assert (u = [46; 46]) as E.
    { pose proof (parents_repeat b) as Hr. rewrite Eu in Hr.
      destruct (length (removelast b)); cbn [repeat] in Hr; [discriminate Hr|]. injection Hr as Hu' _. exact Hu'. }
    subst u. cbn [app]. apply rootless_ok; [exact pc_dotdot|discriminate|reflexivity].
Qed.

(* R2: reference creation keeps produced_wf *)
Theorem remove_base_produced_wf dr src base d :
  produced_wf src -> produced_wf base -> remove_base dr src base = (URI_SUCCESS, d) -> produced_wf d.
Proof.
  intros Hsrc Hbase Hrem.
  destruct (scheme base) as [sb|] eqn:Hsb.
  2:{ rewrite (remove_base_rel_base dr src base Hsb) in Hrem. discriminate Hrem. }
  destruct (scheme src) as [ss|] eqn:Hss.
  2:{ rewrite (remove_base_rel_source dr src base) in Hrem; [discriminate Hrem|congruence|exact Hss]. }
  rewrite (remove_base_nf dr src base) in Hrem; [|congruence|congruence].
  injection Hrem as Hd. subst d.
  pose proof Hsrc as (Hsc_s & _ & Hho_s & _ & _ & Hq_s & Hf_s & _ & Hau_s).
  pose proof Hbase as (_ & _ & Hho_b & _ & _ & _ & _ & _ & Hau_b).
  destruct (path_facts src Hsrc) as (Hps_s & Habs_s & Hpath_s).
  unfold rb_body.
  destruct (negb (range_eqb (scheme src) (scheme base))).
  { (* other scheme: the source as it is *)
    assert (set_fragment (fragment src) (set_query (query src)
              (copy_path (copy_authority (set_scheme (scheme src) empty_uri) src) src))
            = build (scheme src) src (absolutePath src) (pathSegs src) (query src) (fragment src)) as E
      by (destruct src as [sc1 ui1 ht1 i41 i61 if1 po1 ps1 qu1 fr1 ab1 ow1]; reflexivity).
    rewrite E. apply build_wf; try assumption. }
  destruct (negb (equals_authority src base)) eqn:Eauth.
  { (* other authority: the source from its authority on; the scheme stays when only the base has one *)
    set (sc := if negb (is_host_set src) && is_host_set base then scheme src else None).
    assert (set_fragment (fragment src) (set_query (query src)
              (copy_path (copy_authority
                 (if negb (is_host_set src) && is_host_set base then set_scheme (scheme src) empty_uri else empty_uri)
                 src) src))
            = build sc src (absolutePath src) (pathSegs src) (query src) (fragment src)) as E.
    { subst sc. destruct (negb (is_host_set src) && is_host_set base);
        destruct src as [sc1 ui1 ht1 i41 i61 if1 po1 ps1 qu1 fr1 ab1 ow1]; reflexivity. }
    rewrite E. apply build_wf; try assumption.
    - subst sc. destruct (negb (is_host_set src) && is_host_set base); [exact Hsc_s|exact I].
    - intros Hh. split; [apply (Hpath_s Hh)|]. intros Hn. exfalso.
      subst sc. rewrite (hostless_not_set src Hho_s Hh) in Hn. cbn [negb andb] in Hn.
      destruct (is_host_set base) eqn:Ehb; [congruence|].
      apply negb_true_iff in Eauth.
      rewrite hostless_equal_authority in Eauth; [discriminate Eauth| | | | | |]; try assumption.
      + apply hostless_not_set; assumption.
      + unfold auth_ok in Hau_s. rewrite Hh in Hau_s. destruct Hau_s as [Hu _]. rewrite Hu. reflexivity.
      + unfold auth_ok in Hau_s. rewrite Hh in Hau_s. destruct Hau_s as [_ Hp]. rewrite Hp. reflexivity.
      + assert (hostText base = None) as Hhb.
        { rewrite (host_ok_is_host_set base Hho_b) in Ehb. destruct (hostText base); [discriminate Ehb|reflexivity]. }
        unfold auth_ok in Hau_b. rewrite Hhb in Hau_b. destruct Hau_b as [Hu _]. rewrite Hu. reflexivity.
      + assert (hostText base = None) as Hhb.
        { rewrite (host_ok_is_host_set base Hho_b) in Ehb. destruct (hostText base); [discriminate Ehb|reflexivity]. }
        unfold auth_ok in Hau_b. rewrite Hhb in Hau_b. destruct Hau_b as [_ Hp]. rewrite Hp. reflexivity. }
  destruct dr.
  { (* domain-root mode: the source path made absolute, the lone empty segment dropped *)
    assert (set_fragment (fragment src) (set_query (query src)
              (fix_ambiguity (fix_empty_trail_segment (set_absolutePath true (copy_path empty_uri src)))))
            = build None empty_uri true (fixamb_p false true (fixtrail_p false (pathSegs src))) (query src) (fragment src)) as E
      by (rewrite fixamb_nf, fixtrail_nf; destruct src as [sc1 ui1 ht1 i41 i61 if1 po1 ps1 qu1 fr1 ab1 ow1]; reflexivity).
    rewrite E. apply build_wf; try assumption; try exact I.
    - exact empty_uri_wf.
    - apply pc_fixamb, pc_fixtrail. exact Hps_s.
    - intros Hh. destruct Hh. reflexivity.
    - intros _. split; [apply fixamb_nodslash, pc_fixtrail; exact Hps_s|]. intros _. apply nocolon1_abs. }
  (* the walk *)
  destruct (skip_common (pathSegs src) (pathSegs base)) as [s b] eqn:Esk.
  pose proof (pc_skip_common _ _ _ _ Hps_s Esk) as Hs.
  assert (set_fragment (fragment src) (set_query (query src)
            (set_pathSegs (parents b ++ rest_segments (match parents b with [] => true | _ :: _ => false end) s) empty_uri))
          = build None empty_uri false
              (parents b ++ rest_segments (match parents b with [] => true | _ :: _ => false end) s)
              (query src) (fragment src)) as E by reflexivity.
  rewrite E. apply build_wf; try assumption; try exact I.
  - exact empty_uri_wf.
  - apply Forall_app. split; [apply pc_parents|apply pc_rest_segments; exact Hs].
  - intros Hh. destruct Hh. reflexivity.
  - intros _. destruct (walk_reference_ok b s Hs) as [H1 H2]. split; [exact H1|intros _; exact H2].
Qed.

(* ---------------------------------------------------------------- 6. histories *)
Section Histories.
  (* what the other parts of C07 establish: parsing produces [produced_wf] objects; normalization keeps
     the condition where [norm_ok] holds (everywhere but on the known defect shapes); so does make-owner *)
  Variable norm_ok : N -> uri -> Prop.
  Hypothesis parse_wf : forall s u, parse s = POk u -> produced_wf u.
  Hypothesis normalize_wf : forall mask u, produced_wf u -> norm_ok mask u -> produced_wf (normalize mask u).
  Hypothesis make_owner_wf : forall u, produced_wf u -> produced_wf (make_owner u).

  Definition all_wf (st : store) : Prop := forall i u, st i = Some u -> produced_wf u.

  Lemma all_wf_put st i o : all_wf st -> (forall u, o = Some u -> produced_wf u) -> all_wf (put st i o).
  Proof.
    intros Hst Ho j u Hj. unfold put in Hj. destruct (Nat.eqb j i); [apply Ho; exact Hj|apply (Hst j); exact Hj].
  Qed.

  Lemma on_success_inv r u : on_success r = Some u -> r = (URI_SUCCESS, u).
  Proof.
    unfold on_success. destruct r as [rc x]. cbn [fst snd].
    destruct (rc =? URI_SUCCESS) eqn:E; [|discriminate]. apply N.eqb_eq in E. intros H. injection H as Hx. subst. reflexivity.
  Qed.

  Lemma step_wf st op : all_wf st ->
    match op with
    | SNormalize i mask => match st i with Some u => norm_ok mask u | None => True end
    | _ => True
    end ->
    all_wf (run_step st op).
  Proof.
    intros Hst Hok. destruct op as [i s|d r b compat|d s b dr|i mask|i|i]; cbn [run_step].
    - apply all_wf_put; [exact Hst|]. intros u Hu. destruct (parse s) as [u'|pos] eqn:Ep; [|discriminate Hu].
      injection Hu as Hu. subst u'. apply (parse_wf s). exact Ep.
    - destruct (st r) as [ur|] eqn:Er; [|exact Hst]. destruct (st b) as [ub|] eqn:Eb; [|exact Hst].
      apply all_wf_put; [exact Hst|]. intros u Hu. apply on_success_inv in Hu.
      apply (add_base_produced_wf compat ur ub u); [apply (Hst r); exact Er|apply (Hst b); exact Eb|exact Hu].
    - destruct (st s) as [us|] eqn:Es; [|exact Hst]. destruct (st b) as [ub|] eqn:Eb; [|exact Hst].
      apply all_wf_put; [exact Hst|]. intros u Hu. apply on_success_inv in Hu.
      apply (remove_base_produced_wf dr us ub u); [apply (Hst s); exact Es|apply (Hst b); exact Eb|exact Hu].
    - destruct (st i) as [u0|] eqn:Ei; [|exact Hst].
      apply all_wf_put; [exact Hst|]. intros u Hu. injection Hu as Hu. subst u.
      apply normalize_wf; [apply (Hst i); exact Ei|exact Hok].
    - destruct (st i) as [u0|] eqn:Ei; [|exact Hst].
      apply all_wf_put; [exact Hst|]. intros u Hu. injection Hu as Hu. subst u.
      apply make_owner_wf. apply (Hst i). exact Ei.
    - apply all_wf_put; [exact Hst|]. intros u Hu. discriminate Hu.
  Qed.

  Lemma run_wf ops : forall st, all_wf st -> normalize_steps_ok norm_ok st ops -> all_wf (run st ops).
  Proof.
    induction ops as [|op r IH]; intros st Hst Hok; [exact Hst|].
    cbn [normalize_steps_ok] in Hok. destruct Hok as [Hop Hr].
    unfold run. cbn [fold_left]. apply IH; [apply step_wf; assumption|exact Hr].
  Qed.

  Theorem history_produced_wf_section ops i u :
    normalize_steps_ok norm_ok empty_store ops -> run empty_store ops i = Some u -> produced_wf u.
  Proof.
    intros Hok Hi. apply (run_wf ops empty_store) with (i := i); [|exact Hok|exact Hi].
    intros j v Hj. discriminate Hj.
  Qed.
End Histories.

(* R3: every object in the store after any finite history of parse, resolve, create-reference, normalize,
   make-owner and free steps from the empty store satisfies produced_wf -- given that parsing produces such
   objects and that normalization (where [norm_ok] admits it) and make-owner keep the condition *)
Theorem history_produced_wf (norm_ok : N -> uri -> Prop) :
  (forall s u, parse s = POk u -> produced_wf u) ->
  (forall mask u, produced_wf u -> norm_ok mask u -> produced_wf (normalize mask u)) ->
  (forall u, produced_wf u -> produced_wf (make_owner u)) ->
  forall ops, normalize_steps_ok norm_ok empty_store ops ->
  forall i u, run empty_store ops i = Some u -> produced_wf u.
Proof.
  intros Hp Hn Hm ops Hok i u Hi. exact (history_produced_wf_section norm_ok Hp Hn Hm ops i u Hok Hi).
Qed.

(* for Examples: the object the parser builds for a text (the empty object when it does not parse) *)
Definition parsed (t : text) : uri := match parse t with POk u => u | PSyntax _ => empty_uri end.
