(* C09: normalization commutes with resolution -- proofs. *)
From UP Require Import Base.Chars Model.Uri.
