(* C09: normalization (Model/Normalize.v) against resolution (Model/Resolve.v):
   normalizing a reference first does not change what it resolves to, and normalization keeps
   the kind of a reference.

   Main results
     scheme_authority_kept   normalize never adds or removes a scheme or a host
     commute                 N (resolve (N R) B) = N (resolve R B), all components, for every R outside the
                             two relative-path-reference shapes kf_cancels (D7a) and kf_dot_eaten (D7e)
     kind_kept               path kind / reads-back kind of a reference without scheme and authority
   and a refutation witness for every carve-out. *)
From Coq Require Import List NArith ZArith Bool Lia String Ascii.
From UP Require Import Base.Chars Model.Uri Model.Common Model.Resolve Model.Normalize Model.Parse
  Model.Recompose Spec.NormalWf Spec.Resolve Proofs.DotSegments Proofs.ResolveProofs Proofs.NormalizeProofs.
Import ListNotations.
Local Open Scope N_scope.

(* ================================================================ definitions used in the statements *)
Definition is_nil {A} (l : list A) : bool := match l with [] => true | _ => false end.

(* no percent-encoded dot segment: the percent-encoding engine turns no other segment into "." or ".." *)
Definition no_pct_dot_seg (s : text) : bool :=
  Bool.eqb (seg_dot (fix_pct s)) (seg_dot s) && Bool.eqb (seg_dotdot (fix_pct s)) (seg_dotdot s).
Definition no_pct_dot (u : uri) : bool := forallb no_pct_dot_seg (pathSegs u).

(* D7a: a relative-path reference with a non-empty path whose normal form has the empty path *)
Definition kf_cancels (u : uri) : bool :=
  relative_ref u && negb (is_nil (pathSegs u)) && is_nil (pathSegs (normalize 63 u)).

(* D7e: the walk of uriRemoveDotSegmentsEx in relative mode, followed only as far as needed to say whether a
   ".." ever cancels a kept "." (the dot kept in front of a first segment containing ':') as if it were a
   name.  Same recursion as Model.Common.rds_walk with relative = true. *)
Fixpoint eats_dot (kept rest : list text) : bool :=
  match rest with
  | [] => false
  | w :: nxt =>
    if seg_dot w then
      if is_nil kept && (match nxt with n1 :: _ => has_colon n1 | [] => false end)
      then eats_dot (w :: kept) nxt
      else eats_dot kept nxt
    else if seg_dotdot w then
      match kept with
      | [] => eats_dot (w :: kept) nxt
      | p :: kk => if seg_dotdot p then eats_dot (w :: kept) nxt
                   else seg_dot p || eats_dot kk nxt
      end
    else eats_dot (w :: kept) nxt
  end.
Definition kf_dot_eaten (u : uri) : bool :=
  relative_ref u && eats_dot [] (map fix_pct (pathSegs u)).

(* D7c / D7b: the normal form of a relative-path reference begins with an empty segment (followed by
   another) / with a segment containing ':' *)
Definition kf_exposes_empty (u : uri) : bool :=
  relative_ref u && match pathSegs (normalize 63 u) with [] :: _ :: _ => true | _ => false end.
Definition kf_exposes_colon (u : uri) : bool :=
  relative_ref u && match pathSegs (normalize 63 u) with s :: _ => has_colon s | [] => false end.

(* the kind of the recomposed path *)
Inductive pkind := PEmpty | PAbsolute | PRelative.
Definition path_kind (u : uri) : pkind :=
  match path_text u with
  | [] => PEmpty
  | c :: _ => if c =? 47 then PAbsolute else PRelative
  end.
(* what the recomposed text of a reference without scheme and authority reads back as: a first segment
   containing ':' in a rootless path is a scheme; a path text beginning with "//" is an authority *)
Definition reads_scheme (u : uri) : bool :=
  is_some (scheme u)
  || (negb (is_host_set u) && negb (absolutePath u)
      && match pathSegs u with s :: _ => has_colon s | [] => false end).
Definition reads_authority (u : uri) : bool :=
  is_host_set u || starts_with [47; 47] (path_text u).

(* ================================================================ 1. scheme and host are kept *)
Lemma scheme_authority_kept mask u :
  is_some (scheme (normalize mask u)) = is_some (scheme u)
  /\ is_host_set (normalize mask u) = is_host_set u.
Proof.
  destruct (N.eq_dec mask 0) as [E|E]; [subst mask; rewrite normalize_zero; auto|].
  rewrite normalize_fields by exact E. split.
  - cbn [scheme]. apply is_some_omap_if.
  - unfold is_host_set at 1. cbn [hostText ip4 ip6 ipFuture].
    destruct (bit mask M_HOST); [|reflexivity]. apply norm_host_is_some.
Qed.

(* ================================================================ 2. segment lists *)
(* two segments that the final normalization cannot tell apart and that every step in between treats alike *)
Definition srel (s t : text) : Prop :=
  fix_pct s = fix_pct t /\ seg_dot s = seg_dot t /\ seg_dotdot s = seg_dotdot t /\ is_nil s = is_nil t.

Lemma srel_refl s : srel s s.
Proof. repeat split. Qed.

Lemma srel_nil : srel [] [].
Proof. apply srel_refl. Qed.

Lemma Forall2_refl {A} (R : A -> A -> Prop) : (forall x, R x x) -> forall l, Forall2 R l l.
Proof. intros H l. induction l; constructor; auto. Qed.

Lemma Forall2_rev {A B} (R : A -> B -> Prop) l l' : Forall2 R l l' -> Forall2 R (rev l) (rev l').
Proof.
  induction 1 as [|x y l l' Hxy Hl IH]; [constructor|].
  cbn [rev]. apply Forall2_app; [exact IH|]. constructor; [exact Hxy|constructor].
Qed.

Lemma Forall2_tl {A B} (R : A -> B -> Prop) l l' : Forall2 R l l' -> Forall2 R (tl l) (tl l').
Proof. destruct 1; [constructor|assumption]. Qed.

Lemma srel_map l l' : Forall2 srel l l' -> map fix_pct l = map fix_pct l'.
Proof.
  induction 1 as [|x y l l' Hxy Hl IH]; [reflexivity|].
  cbn [map]. destruct Hxy as [Hf _]. rewrite Hf, IH. reflexivity.
Qed.

(* the absolute-mode walk on related lists gives related lists *)
Lemma walk_sim h a : forall r1 r2, Forall2 srel r1 r2 -> forall k1 k2, Forall2 srel k1 k2 ->
  Forall2 srel (rds_walk false h a k1 r1) (rds_walk false h a k2 r2).
Proof.
  induction 1 as [|w1 w2 n1 n2 Hw Hn IH]; intros k1 k2 Hk.
  - cbn [rds_walk]. apply Forall2_rev. exact Hk.
  - rewrite !walk_false_cons. destruct Hw as (Hf & Hd & Hdd & Hnil). rewrite Hd, Hdd.
    destruct (seg_dot w2) eqn:E2.
    { destruct Hn as [|x y n1' n2' Hxy Hn'].
      - destruct Hk as [|p q k1' k2' Hpq Hk']; [destruct h; repeat constructor; apply srel_nil|].
        apply (Forall2_rev srel ([] :: p :: k1') ([] :: q :: k2')).
        constructor; [apply srel_nil|]. constructor; assumption.
      - apply IH. exact Hk. }
    destruct (seg_dotdot w2) eqn:E3.
    { pose proof (Forall2_tl _ _ _ Hk) as Ht.
      destruct Hn as [|x y n1' n2' Hxy Hn'].
      - destruct Ht as [|p q k1' k2' Hpq Hk']; [destruct a; repeat constructor; apply srel_nil|].
        apply (Forall2_rev srel ([] :: p :: k1') ([] :: q :: k2')).
        constructor; [apply srel_nil|]. constructor; assumption.
      - apply IH. exact Ht. }
    apply IH. constructor; [|exact Hk]. unfold srel. rewrite Hd, Hdd, E2, E3. auto.
Qed.

Lemma rds_p_sim h a s1 s2 : Forall2 srel s1 s2 -> Forall2 srel (rds_p h a s1) (rds_p h a s2).
Proof.
  intros H. unfold rds_p. destruct H as [|x y l l' Hxy Hl]; [constructor|].
  apply walk_sim; [constructor; assumption|constructor].
Qed.

Lemma srel_nil_l t : srel [] t -> t = [].
Proof. intros (_ & _ & _ & H). destruct t; [reflexivity|discriminate H]. Qed.
Lemma srel_nil_r s : srel s [] -> s = [].
Proof. intros (_ & _ & _ & H). destruct s; [reflexivity|discriminate H]. Qed.
Lemma srel_cons_l c s t : srel (c :: s) t -> exists d t', t = d :: t'.
Proof. intros (_ & _ & _ & H). destruct t as [|d t']; [discriminate H|eauto]. Qed.

Lemma srel_dot_l : srel [46] [46].
Proof. apply srel_refl. Qed.

Ltac f2 :=
  repeat match goal with
         | |- Forall2 _ _ _ => first [assumption | constructor]
         | |- srel _ _ => first [assumption | apply srel_refl]
         end.

Lemma fixamb_sim h a s1 s2 : Forall2 srel s1 s2 -> Forall2 srel (fixamb_p h a s1) (fixamb_p h a s2).
Proof.
  intros H. destruct H as [|x y l l' Hxy Hl]; [destruct a; constructor|].
  destruct x as [|c x].
  - apply srel_nil_l in Hxy. subst y.
    destruct Hl as [|x2 y2 l2 l2' Hxy2 Hl2].
    + destruct a; f2.
    + destruct a.
      * cbn [fixamb_p]. f2.
      * destruct x2 as [|c2 x2].
        -- apply srel_nil_l in Hxy2. subst y2. cbn [fixamb_p]. destruct h; f2.
        -- pose proof Hxy2 as Hc. apply srel_cons_l in Hc. destruct Hc as (d & t' & E). subst y2.
           cbn [fixamb_p]. f2.
  - pose proof Hxy as Hc. apply srel_cons_l in Hc. destruct Hc as (d & t' & E). subst y.
    destruct a; cbn [fixamb_p]; f2.
Qed.

Lemma fixtrail_sim h s1 s2 : Forall2 srel s1 s2 -> Forall2 srel (fixtrail_p h s1) (fixtrail_p h s2).
Proof.
  intros H. unfold fixtrail_p. destruct (negb h); [|exact H].
  destruct H as [|x y l l' Hxy Hl]; [constructor|].
  destruct Hl as [|x2 y2 l2 l2' Hxy2 Hl2].
  - destruct x as [|c x].
    + apply srel_nil_l in Hxy. subst y. constructor.
    + pose proof Hxy as Hc. apply srel_cons_l in Hc. destruct Hc as (d & t' & E). subst y. f2.
  - destruct x as [|c x].
    + apply srel_nil_l in Hxy. subst y. f2.
    + pose proof Hxy as Hc. apply srel_cons_l in Hc. destruct Hc as (d & t' & E). subst y. f2.
Qed.

(* ---------------------------------------------------------------- dot-free lists *)
Lemma rds_p_nodots h a s : forallb nodot (rds_p h a s) = true.
Proof. unfold rds_p. destruct s; [reflexivity|apply rds_walk_nodots]. Qed.

Lemma rds_p_fixed h a s : forallb nodot s = true -> rds_p h a s = s.
Proof. intros H. unfold rds_p. destruct s; [reflexivity|apply rds_walk_fixed; exact H]. Qed.

Lemma fixtrail_nodots h s : forallb nodot s = true -> forallb nodot (fixtrail_p h s) = true.
Proof.
  intros H. unfold fixtrail_p. destruct (negb h); [|exact H].
  destruct s as [|[|c x] [|y r]]; exact H.
Qed.

(* a lone empty segment dropped before or after uriFixAmbiguity: the same *)
Lemma fixtrail_fixamb_fixtrail h a s :
  fixtrail_p h (fixamb_p h a (fixtrail_p h s)) = fixtrail_p h (fixamb_p h a s).
Proof.
  unfold fixtrail_p at 2. destruct (negb h) eqn:Eh; [|reflexivity].
  destruct s as [|[|c x] [|y r]]; try reflexivity.
  unfold fixtrail_p. rewrite Eh. destruct a; reflexivity.
Qed.

Lemma fixtrail_idem h s : fixtrail_p h (fixtrail_p h s) = fixtrail_p h s.
Proof.
  unfold fixtrail_p. destruct (negb h); [|reflexivity].
  destruct s as [|[|c x] [|y r]]; reflexivity.
Qed.

(* the "." that uriFixAmbiguity puts in front of a dot-free list is taken out again by the next walk *)
Lemma rds_p_guarded h a X : forallb nodot X = true -> X <> [] -> rds_p h a (@cons text [46] X) = X.
Proof.
  intros HX Hne. unfold rds_p. rewrite walk_false_cons. change (seg_dot [46]) with true. cbv iota.
  destruct X as [|x r]; [congruence|]. apply rds_walk_fixed. exact HX.
Qed.

Lemma fixamb_cases h a X : fixamb_p h a X = X \/ (fixamb_p h a X = [46] :: X /\ exists y r, X = [] :: y :: r).
Proof.
  unfold fixamb_p. destruct a, X as [|[|c x] [|[|d y] r]]; auto; try (right; split; [reflexivity|eauto]).
  destruct h; [left; reflexivity|right; split; [reflexivity|eauto]].
Qed.

(* normalizing a dot-free list up to the guard, walking it again and guarding it again changes nothing *)
Lemma guard_round h a X : forallb nodot X = true ->
  fixtrail_p h (fixamb_p h a (rds_p h a (fixtrail_p h (fixamb_p h a X)))) = fixtrail_p h (fixamb_p h a X).
Proof.
  intros HX. destruct (fixamb_cases h a X) as [E|(E & y & r & EX)].
  - rewrite E. rewrite rds_p_fixed by (apply fixtrail_nodots; exact HX). rewrite fixtrail_fixamb_fixtrail, E. reflexivity.
  - rewrite E. subst X.
    assert (forall Z : list text, fixtrail_p h (@cons text [46] ([] :: y :: Z)) = [46] :: [] :: y :: Z) as Ef
      by (intros Z; unfold fixtrail_p; destruct (negb h); reflexivity).
    rewrite Ef. rewrite rds_p_guarded by (exact HX || discriminate). rewrite E. apply Ef.
Qed.

(* ... and without the second guard (a reference with an authority): the walk's own output *)
Lemma guard_round_relhost h a X : forallb nodot X = true ->
  fixtrail_p h (rds_p h a (fixtrail_p h (fixamb_p h a X))) = fixtrail_p h X.
Proof.
  intros HX. destruct (fixamb_cases h a X) as [E|(E & y & r & EX)].
  - rewrite E. rewrite rds_p_fixed by (apply fixtrail_nodots; exact HX). apply fixtrail_idem.
  - rewrite E. subst X.
    assert (forall Z : list text, fixtrail_p h (@cons text [46] ([] :: y :: Z)) = [46] :: [] :: y :: Z) as Ef
      by (intros Z; unfold fixtrail_p; destruct (negb h); reflexivity).
    rewrite Ef. rewrite rds_p_guarded by (exact HX || discriminate). reflexivity.
Qed.

(* the host / absolute-path flags only decide between "no segment" and "one empty segment" *)
Definition triv (l : list text) : Prop := l = [] \/ l = [[]].

Lemma walk_flags h a h' a' : forall rest kept,
  rds_walk false h a kept rest = rds_walk false h' a' kept rest
  \/ (triv (rds_walk false h a kept rest) /\ triv (rds_walk false h' a' kept rest)).
Proof.
  induction rest as [|w nxt IH]; intros kept; [left; reflexivity|].
  rewrite !walk_false_cons. destruct (seg_dot w).
  { destruct nxt as [|n1 nxt']; [|apply IH].
    destruct kept as [|p kk]; [|left; reflexivity].
    right. unfold triv. destruct h, h'; auto. }
  destruct (seg_dotdot w).
  { destruct nxt as [|n1 nxt']; [|apply IH].
    destruct (tl kept) as [|p kk]; [|left; reflexivity].
    right. unfold triv. destruct a, a'; auto. }
  apply IH.
Qed.

(* equal, or both trivial where a lone empty segment is dropped anyway *)
Definition triv_eq (h : bool) (l1 l2 : list text) : Prop :=
  l1 = l2 \/ (h = false /\ triv l1 /\ triv l2).

Lemma triv_eq_refl h l : triv_eq h l l.
Proof. left. reflexivity. Qed.

Lemma triv_eq_final h a l1 l2 : triv_eq h l1 l2 ->
  fixtrail_p h (fixamb_p h a l1) = fixtrail_p h (fixamb_p h a l2).
Proof.
  intros [E|(Eh & [E1|E1] & [E2|E2])]; subst; try reflexivity; destruct a; reflexivity.
Qed.

(* ---------------------------------------------------------------- the absolute walk over a prefix *)
(* the stack after the segments [pre], none of which is the last one *)
Fixpoint absorb (K : list text) (pre : list text) : list text :=
  match pre with
  | [] => K
  | w :: r => absorb (if seg_dot w then K else if seg_dotdot w then tl K else w :: K) r
  end.

Lemma walk_app h a : forall pre K rest, rest <> [] ->
  rds_walk false h a K (pre ++ rest) = rds_walk false h a (absorb K pre) rest.
Proof.
  induction pre as [|w r IH]; intros K rest Hne; [reflexivity|].
  cbn [app absorb]. rewrite walk_false_cons.
  assert (exists x l, r ++ rest = x :: l) as (x & l & E).
  { destruct r as [|x l]; [destruct rest as [|x l]; [congruence|]|]; cbn [app]; eauto. }
  destruct (seg_dot w); [rewrite E, <- E; apply IH; exact Hne|].
  destruct (seg_dotdot w); [rewrite E, <- E; apply IH; exact Hne|].
  apply IH. exact Hne.
Qed.

Lemma absorb_app K p q : absorb K (p ++ q) = absorb (absorb K p) q.
Proof. revert K. induction p as [|w r IH]; intros K; [reflexivity|]. cbn [app absorb]. apply IH. Qed.

(* ---------------------------------------------------------------- the relative walk, then the absolute one *)
(* Cleaning a relative path with the relative rule and walking the result on top of a base path is the
   same as walking the path itself on top of the base path, unless a ".." cancelled a kept "." or the
   path cancelled completely.  [kr] is the stack of the relative walk, [K] the stack left by the base. *)
Lemma rel_then_abs h a : (h = true -> a = false) -> forall rest kr K,
  eats_dot kr rest = false ->
  rds_walk true false false kr rest <> [] -> rds_walk true false false kr rest <> [[]] ->
  triv_eq h (rds_walk false h a K (rds_walk true false false kr rest))
            (rds_walk false h a K (rev kr ++ rest)).
Proof.
  intros Hha. induction rest as [|w nxt IH]; intros kr K He Hn1 Hn2.
  { cbn [rds_walk]. rewrite app_nil_r. apply triv_eq_refl. }
  cbn [rds_walk eats_dot andb] in *.
  destruct (seg_dot w) eqn:Ed.
  { (* "." *)
    destruct (is_nil kr && match nxt with n1 :: _ => has_colon n1 | [] => false end) eqn:Ess.
    - (* kept as essential *)
      apply andb_prop in Ess. destruct Ess as [Ek Ec]. destruct kr as [|p kk]; [|discriminate Ek].
      rewrite Ec in *. exact (IH [w] K He Hn1 Hn2).
    - assert ((match kr with [] => true | _ => false end
               && match nxt with n1 :: _ => has_colon n1 | [] => false end) = false) as Ess' by exact Ess.
      rewrite Ess' in *.
      destruct nxt as [|n1 nxt'].
      + (* last *)
        destruct kr as [|p kk]; [congruence|].
        change (rev ([] :: p :: kk)) with (rev (p :: kk) ++ [[]]).
        rewrite !walk_app by discriminate. rewrite !walk_false_cons, Ed. cbn [seg_dot seg_dotdot rds_walk].
        destruct (absorb K (rev (p :: kk))) as [|q K'] eqn:EK; [|apply triv_eq_refl].
        destruct h; [apply triv_eq_refl|]. right. unfold triv. auto.
      + (* first or middle: skipped *)
        specialize (IH kr K He Hn1 Hn2).
        replace (rds_walk false h a K (rev kr ++ w :: n1 :: nxt'))
          with (rds_walk false h a K (rev kr ++ n1 :: nxt')); [exact IH|].
        rewrite !walk_app by discriminate.
        change (w :: n1 :: nxt') with ([w] ++ n1 :: nxt').
        rewrite (walk_app h a [w]) by discriminate. cbn [absorb]. rewrite Ed. reflexivity. }
  destruct (seg_dotdot w) eqn:Edd.
  { (* ".." *)
    destruct kr as [|p kk].
    - (* kept: nothing to go above *)
      exact (IH [w] K He Hn1 Hn2).
    - destruct (seg_dotdot p) eqn:Ep.
      + specialize (IH (w :: p :: kk) K He Hn1 Hn2).
        cbn [rev] in IH |- *. rewrite <- !app_assoc in IH. rewrite <- !app_assoc. exact IH.
      + (* cancels the name p *)
        apply orb_false_elim in He. destruct He as [Epd He].
        assert (forall rest', rest' <> [] ->
                  rds_walk false h a K (rev (p :: kk) ++ w :: rest')
                  = rds_walk false h a K (rev kk ++ rest')) as Hpop.
        { intros rest' Hr. cbn [rev]. rewrite <- app_assoc. cbn [app].
          rewrite !walk_app by (discriminate || exact Hr).
          change (p :: w :: rest') with ([p; w] ++ rest').
          rewrite (walk_app h a [p; w]) by exact Hr. cbn [absorb]. rewrite Epd, Ep, Ed, Edd. reflexivity. }
        destruct nxt as [|n1 nxt'].
        * (* last *)
          destruct kk as [|pp kk']; [congruence|].
          change (rev ([] :: pp :: kk')) with (rev (pp :: kk') ++ [[]]).
          change (rev (p :: pp :: kk') ++ [w]) with ((rev (pp :: kk') ++ [p]) ++ [w]).
          rewrite <- app_assoc. cbn [app].
          rewrite (walk_app h a (rev (pp :: kk')) K [[]]) by discriminate.
          rewrite (walk_app h a (rev (pp :: kk')) K [p; w]) by discriminate.
          rewrite !walk_false_cons. rewrite Epd, Ep, Ed, Edd. cbn [seg_dot seg_dotdot rds_walk tl].
          destruct (absorb K (rev (pp :: kk'))) as [|q K'] eqn:EK; [|apply triv_eq_refl].
          destruct a; [|apply triv_eq_refl].
          right. split; [destruct h; [discriminate (Hha eq_refl)|reflexivity]|]. unfold triv. auto.
        * assert (rds_walk true false false
                    match kk with [] => [] | pp :: kk' => pp :: kk' end (n1 :: nxt')
                  = rds_walk true false false kk (n1 :: nxt')) as Ekk by (destruct kk; reflexivity).
          destruct kk as [|pp kk'].
          -- specialize (IH [] K He Hn1 Hn2). rewrite Hpop by discriminate. exact IH.
          -- specialize (IH (pp :: kk') K He Hn1 Hn2). rewrite Hpop by discriminate. exact IH. }
  (* a name *)
  specialize (IH (w :: kr) K He Hn1 Hn2).
  cbn [rev] in IH. rewrite <- app_assoc in IH. exact IH.
Qed.

(* ================================================================ 3. the path, branch by branch of uriAddBaseUri *)
Lemma fix_pct_is_nil s : is_nil (fix_pct s) = is_nil s.
Proof.
  destruct s as [|c [|x [|y r]]]; try reflexivity.
  cbn [fix_pct]. destruct (c =? 37); [|reflexivity]. destruct (is_unreserved_code _); reflexivity.
Qed.

Lemma srel_fix s : pct_wf s = true -> no_pct_dot_seg s = true -> srel (fix_pct s) s.
Proof.
  intros Hw Hn. unfold no_pct_dot_seg in Hn. apply andb_prop in Hn. destruct Hn as [H1 H2].
  apply eqb_prop in H1. apply eqb_prop in H2.
  split; [apply fix_pct_idem; exact Hw|]. split; [exact H1|]. split; [exact H2|apply fix_pct_is_nil].
Qed.

Lemma srel_fix_list S : forallb pct_wf S = true -> forallb no_pct_dot_seg S = true ->
  Forall2 srel (map fix_pct S) S.
Proof.
  induction S as [|s r IH]; intros Hw Hn; [constructor|].
  cbn [forallb] in Hw, Hn. apply andb_prop in Hw. apply andb_prop in Hn.
  destruct Hw as [Hw1 Hw2]. destruct Hn as [Hn1 Hn2].
  cbn [map]. constructor; [apply srel_fix; assumption|apply IH; assumption].
Qed.

Lemma nso_abs h a S : norm_segs_of false h a S = fixtrail_p h (fixamb_p h a (rds_p h a (map fix_pct S))).
Proof. reflexivity. Qed.

Lemma nso_rel S : norm_segs_of true false false S
  = fixtrail_p false (fixamb_p false false
      (match map fix_pct S with [] => [] | _ => rds_walk true false false [] (map fix_pct S) end)).
Proof. reflexivity. Qed.

Lemma nso_ext rel h a S1 S2 : map fix_pct S1 = map fix_pct S2 -> norm_segs_of rel h a S1 = norm_segs_of rel h a S2.
Proof. intros E. unfold norm_segs_of. rewrite E. reflexivity. Qed.

(* uriAddBaseUri puts an empty segment into an empty path that follows an authority *)
Definition under_host (hb : bool) (X : list text) : list text :=
  if hb then match X with [] => [[]] | _ => X end else X.

Lemma under_host_sim hb X Y : Forall2 srel X Y -> Forall2 srel (under_host hb X) (under_host hb Y).
Proof. intros H. unfold under_host. destruct hb; [|exact H]. destruct H; f2. Qed.

Section Branches.
  Variable S : list text.
  Hypothesis (Hwf : forallb pct_wf S = true) (Hnpd : forallb no_pct_dot_seg S = true).

  (* the reference keeps its scheme *)
  Lemma path_keeps h a :
    map fix_pct (fixtrail_p h (fixamb_p h a (rds_p h a (norm_segs_of false h a S))))
    = map fix_pct (fixtrail_p h (fixamb_p h a (rds_p h a S))).
  Proof.
    pose proof (srel_fix_list S Hwf Hnpd) as Hrel.
    rewrite nso_abs.
    rewrite guard_round by apply rds_p_nodots.
    apply srel_map. apply fixtrail_sim. apply fixamb_sim. apply rds_p_sim. exact Hrel.
  Qed.

  (* the reference has an authority *)
  Lemma path_relhost h a :
    map fix_pct (fixtrail_p h (rds_p h a (norm_segs_of false h a S)))
    = map fix_pct (fixtrail_p h (rds_p h a S)).
  Proof.
    pose proof (srel_fix_list S Hwf Hnpd) as Hrel.
    rewrite nso_abs.
    rewrite guard_round_relhost by apply rds_p_nodots.
    apply srel_map. apply fixtrail_sim. apply rds_p_sim. exact Hrel.
  Qed.

  (* the reference has an absolute path *)
  Lemma path_abs hb :
    map fix_pct (fixtrail_p hb (fixamb_p hb (negb hb) (rds_p hb (negb hb)
                   (under_host hb (norm_segs_of false false true S)))))
    = map fix_pct (fixtrail_p hb (fixamb_p hb (negb hb) (rds_p hb (negb hb) (under_host hb S)))).
  Proof.
    pose proof (srel_fix_list S Hwf Hnpd) as Hrel.
    destruct hb; cbn [negb].
    - (* under the base's authority: the flags differ from those normalization used *)
      transitivity (map fix_pct (fixtrail_p true (fixamb_p true false (rds_p true false (under_host true (map fix_pct S)))))).
      2:{ apply srel_map. apply fixtrail_sim. apply fixamb_sim. apply rds_p_sim. apply under_host_sim. exact Hrel. }
      f_equal. f_equal. f_equal.
      rewrite nso_abs. clear Hrel. unfold under_host.
      destruct (map fix_pct S) as [|s0 r0]; [reflexivity|].
      change (rds_p false true (s0 :: r0)) with (rds_walk false false true [] (s0 :: r0)).
      change (rds_p true false (s0 :: r0)) with (rds_walk false true false [] (s0 :: r0)).
      set (X := rds_walk false false true [] (s0 :: r0)).
      set (Y := rds_walk false true false [] (s0 :: r0)).
      assert (Y <> []) as HY by (apply walk_nonempty_host; discriminate).
      assert (forallb nodot X = true) as HX by apply rds_walk_nodots.
      destruct (walk_flags false true true false (s0 :: r0) []) as [E|[[E1|E1] [E2|E2]]]; fold X Y in E || fold X Y in E1, E2.
      + rewrite <- E in *. unfold fixtrail_p. cbn [negb].
        destruct X as [|[|c x] [|y r]]; try congruence; try reflexivity; cbn [fixamb_p];
          (first [rewrite rds_p_guarded by (exact HX || discriminate)|rewrite rds_p_fixed by exact HX]; reflexivity).
      + congruence.
      + rewrite E1, E2. reflexivity.
      + congruence.
      + rewrite E1, E2. reflexivity.
    - exact (path_keeps false true).
  Qed.

  (* the relative-path reference: merged with the base path *)
  Lemma path_merge hb ab P : (hb = true -> ab = false) -> S <> [] ->
    norm_segs_of true false false S <> [] -> eats_dot [] (map fix_pct S) = false ->
    map fix_pct (fixtrail_p hb (fixamb_p hb ab (rds_p hb ab (P ++ norm_segs_of true false false S))))
    = map fix_pct (fixtrail_p hb (fixamb_p hb ab (rds_p hb ab (P ++ S)))).
  Proof.
    intros Hha HS HN He.
    pose proof (srel_fix_list S Hwf Hnpd) as Hrel.
    transitivity (map fix_pct (fixtrail_p hb (fixamb_p hb ab (rds_p hb ab (P ++ map fix_pct S))))).
    2:{ apply srel_map. apply fixtrail_sim. apply fixamb_sim. apply rds_p_sim.
        apply Forall2_app; [apply Forall2_refl; apply srel_refl|exact Hrel]. }
    f_equal. apply triv_eq_final. clear Hrel.
    rewrite nso_rel in HN |- *.
    assert (map fix_pct S <> []) as HF by (destruct S; [congruence|discriminate]).
    destruct (map fix_pct S) as [|s0 r0]; [congruence|].
    set (X := rds_walk true false false [] (s0 :: r0)) in *.
    assert (X <> [] /\ X <> [[]]) as [HX1 HX2].
    { split; intros E; rewrite E in HN; apply HN; reflexivity. }
    assert (forall Z, Z <> [[]] -> fixtrail_p false Z = Z) as EX.
    { intros Z HZ. unfold fixtrail_p. cbn [negb]. destruct Z as [|[|c x] [|y r]]; try reflexivity. congruence. }
    assert (forall Z, Z <> [] -> rds_p hb ab (P ++ Z) = rds_walk false hb ab (absorb [] P) Z) as Hp.
    { intros Z HZ. unfold rds_p. destruct (P ++ Z) eqn:E.
      - apply app_eq_nil in E. destruct E; congruence.
      - rewrite <- E. apply walk_app. exact HZ. }
    (* a guard segment in front of the cleaned reference is skipped by the walk over the merged path *)
    assert (rds_p hb ab (P ++ fixtrail_p false (fixamb_p false false X)) = rds_walk false hb ab (absorb [] P) X) as EG.
    { destruct (fixamb_cases false false X) as [E|(E & y & r & EX')].
      - rewrite E, (EX X HX2). apply Hp. exact HX1.
      - rewrite E. rewrite EX by discriminate. rewrite Hp by discriminate.
        rewrite walk_false_cons. change (seg_dot [46]) with true. cbv iota. rewrite EX'. reflexivity. }
    rewrite EG, (Hp (s0 :: r0)) by discriminate.
    exact (rel_then_abs hb ab Hha (s0 :: r0) [] (absorb [] P) He HX1 HX2).
  Qed.
End Branches.

(* ================================================================ 4. the result of uriAddBaseUri as a record *)
(* scheme, the authority as uriCopyAuthority copies it from [au], path, flag, query, fragment *)
Definition build (sc : option text) (au : uri) (segs : list text) (ab : bool) (q f : option text) : uri :=
  mkUri sc (userInfo au) (hostText au) (ip4 au)
        (match ip4 au with Some _ => None | None => ip6 au end)
        (match ip4 au, ip6 au with None, None => ipFuture au | _, _ => None end)
        (portText au) segs q f ab false.

Lemma host_build sc au segs ab q f : is_host_set (build sc au segs ab q f) = is_host_set au.
Proof. unfold build, is_host_set. cbn [hostText ip4 ip6 ipFuture]. destruct (hostText au), (ip4 au), (ip6 au), (ipFuture au); reflexivity. Qed.

Ltac urec :=
  cbv [scheme userInfo hostText ip4 ip6 ipFuture portText pathSegs query fragment absolutePath owner
       set_scheme set_userInfo set_hostText set_ip4 set_ip6 set_ipFuture set_portText set_pathSegs
       set_query set_fragment set_absolutePath copy_authority copy_path empty_uri].

Lemma add_base_build c R B sb : scheme B = Some sb ->
  snd (add_base c R B) =
  let hr := is_host_set R in let ar := absolutePath R in
  let hb := is_host_set B in let ab := absolutePath B in
  if keeps_scheme c (Some sb) R
  then build (scheme R) R (fixtrail_p hr (fixamb_p hr ar (rds_p hr ar (pathSegs R)))) ar (query R) (fragment R)
  else if hr
  then build (Some sb) R (fixtrail_p hr (rds_p hr ar (pathSegs R))) ar (query R) (fragment R)
  else if is_nil (pathSegs R) && negb ar
  then build (Some sb) B (fixtrail_p hb (pathSegs B)) ab
             (match query R with Some q => Some q | None => query B end) (fragment R)
  else if ar
  then build (Some sb) B (fixtrail_p hb (fixamb_p hb (negb hb) (rds_p hb (negb hb) (under_host hb (pathSegs R)))))
             (negb hb) (query R) (fragment R)
  else build (Some sb) B (fixtrail_p hb (fixamb_p hb ab (rds_p hb ab (removelast (pathSegs B) ++ pathSegs R))))
             ab (query R) (fragment R).
Proof.
  intros Hsb. cbv zeta. unfold add_base, add_base_impl. rewrite Hsb. cbv zeta.
  fold (keeps_scheme c (Some sb) R).
  destruct (keeps_scheme c (Some sb) R).
  { cbn [snd]. rewrite rds_nf, fixamb_nf, fixtrail_nf. autorewrite with uri_db. usimpl.
    unfold build. destruct R as [sc ui ht i4 i6 ifu po ps qu fr ab' ow]; urec; reflexivity. }
  destruct (is_host_set R) eqn:Hh.
  { cbn [snd]. rewrite rds_nf, fixtrail_nf. autorewrite with uri_db. usimpl. rewrite Hh.
    unfold build. destruct R as [sc ui ht i4 i6 ifu po ps qu fr ab' ow]; urec; reflexivity. }
  destruct (absolutePath R) eqn:Ha.
  { rewrite andb_false_r.
    assert (forall (Y : uri), match pathSegs R with [] => Y | _ :: _ => Y end = Y) as Em
      by (intros Y; destruct (pathSegs R); reflexivity).
    rewrite Em. cbn [snd]. rewrite resabs_nf. autorewrite with uri_db. usimpl. rewrite Ha, andb_true_r.
    destruct (is_host_set B) eqn:Hb.
    - rewrite rds_nf, fixamb_nf, fixtrail_nf. autorewrite with uri_db. usimpl. rewrite Hb.
      unfold build, under_host. destruct B as [sc ui ht i4 i6 ifu po ps qu fr ab' ow]; urec; reflexivity.
    - rewrite rds_nf, fixamb_nf, fixtrail_nf. autorewrite with uri_db. usimpl. rewrite Hb, Ha.
      unfold build, under_host, copy_path. rewrite Ha. destruct B as [sc ui ht i4 i6 ifu po ps qu fr ab' ow]; urec; reflexivity. }
  destruct (pathSegs R) as [|r1 rs] eqn:Ep.
  { cbn [is_nil andb negb snd]. rewrite fixtrail_nf. autorewrite with uri_db. usimpl.
    unfold build. destruct B as [sc ui ht i4 i6 ifu po ps qu fr ab' ow]; urec; reflexivity. }
  cbn [is_nil andb snd]. rewrite merge_nf. usimpl. rewrite Ep.
  rewrite rds_nf, fixamb_nf, fixtrail_nf. autorewrite with uri_db. usimpl.
  unfold build. destruct B as [sc ui ht i4 i6 ifu po ps qu fr ab' ow]; urec; reflexivity.
Qed.

(* ================================================================ 5. normalizing such a record *)
Lemma comps_full u :
  components (normalize 63 u) =
  (omap lowercase (scheme u), omap fix_pct (userInfo u), norm_host_text u, ip4 u, ip6 u,
   omap lowercase (ipFuture u), portText u, norm_segs u, absolutePath u,
   omap fix_pct (query u), omap fix_pct (fragment u)).
Proof. rewrite components_fields by discriminate. reflexivity. Qed.

(* what normalization makes of the authority copied from [au] *)
Definition auth_norm (au : uri) :=
  let v := build None au [] false None None in
  (omap fix_pct (userInfo v), norm_host_text v, ip4 v, ip6 v, omap lowercase (ipFuture v), portText v).

Lemma comps_build_eq sc sc' au au' segs segs' ab q q' f f' :
  omap lowercase sc = omap lowercase sc' -> is_some sc = true -> is_some sc' = true ->
  auth_norm au = auth_norm au' -> is_host_set au = is_host_set au' ->
  map fix_pct segs = map fix_pct segs' ->
  omap fix_pct q = omap fix_pct q' -> omap fix_pct f = omap fix_pct f' ->
  components (normalize 63 (build sc au segs ab q f)) = components (normalize 63 (build sc' au' segs' ab q' f')).
Proof.
  intros Hs Hs1 Hs2 Ha Hh Hp Hq Hf. rewrite !comps_full.
  unfold norm_segs, relative_ref. rewrite !host_build.
  change (scheme (build sc au segs ab q f)) with sc. change (scheme (build sc' au' segs' ab q' f')) with sc'.
  change (pathSegs (build sc au segs ab q f)) with segs. change (pathSegs (build sc' au' segs' ab q' f')) with segs'.
  change (absolutePath (build sc au segs ab q f)) with ab. change (absolutePath (build sc' au' segs' ab q' f')) with ab.
  change (query (build sc au segs ab q f)) with q. change (query (build sc' au' segs' ab q' f')) with q'.
  change (fragment (build sc au segs ab q f)) with f. change (fragment (build sc' au' segs' ab q' f')) with f'.
  rewrite Hs1, Hs2, Hs, Hq, Hf, <- Hh. cbn [negb andb].
  rewrite (nso_ext false (is_host_set au) ab segs segs' Hp).
  unfold auth_norm in Ha. cbv zeta in Ha.
  change (norm_host_text (build sc au segs ab q f)) with (norm_host_text (build None au [] false None None)).
  change (norm_host_text (build sc' au' segs' ab q' f')) with (norm_host_text (build None au' [] false None None)).
  change (userInfo (build sc au segs ab q f)) with (userInfo (build None au [] false None None)).
  change (userInfo (build sc' au' segs' ab q' f')) with (userInfo (build None au' [] false None None)).
  change (ip4 (build sc au segs ab q f)) with (ip4 (build None au [] false None None)).
  change (ip4 (build sc' au' segs' ab q' f')) with (ip4 (build None au' [] false None None)).
  change (ip6 (build sc au segs ab q f)) with (ip6 (build None au [] false None None)).
  change (ip6 (build sc' au' segs' ab q' f')) with (ip6 (build None au' [] false None None)).
  change (ipFuture (build sc au segs ab q f)) with (ipFuture (build None au [] false None None)).
  change (ipFuture (build sc' au' segs' ab q' f')) with (ipFuture (build None au' [] false None None)).
  change (portText (build sc au segs ab q f)) with (portText (build None au [] false None None)).
  change (portText (build sc' au' segs' ab q' f')) with (portText (build None au' [] false None None)).
  set (v := build None au [] false None None) in *. set (v' := build None au' [] false None None) in *.
  clearbody v v'. injection Ha as H1 H2 H3 H4 H5 H6. rewrite H1, H2, H3, H4, H5, H6. reflexivity.
Qed.

(* the fields of the normalized reference *)
Lemma normalized_fields u :
  let v := normalize 63 u in
  scheme v = omap lowercase (scheme u) /\ userInfo v = omap fix_pct (userInfo u)
  /\ hostText v = norm_host_text u /\ ip4 v = ip4 u /\ ip6 v = ip6 u
  /\ ipFuture v = omap lowercase (ipFuture u) /\ portText v = portText u
  /\ pathSegs v = norm_segs u /\ absolutePath v = absolutePath u
  /\ query v = omap fix_pct (query u) /\ fragment v = omap fix_pct (fragment u)
  /\ is_host_set v = is_host_set u.
Proof.
  cbv zeta. rewrite (normalize_fields 63 u) by discriminate.
  change (bit 63 M_SCHEME) with true. change (bit 63 M_USER_INFO) with true. change (bit 63 M_HOST) with true.
  change (bit 63 M_PATH) with true. change (bit 63 M_QUERY) with true. change (bit 63 M_FRAGMENT) with true.
  cbv iota. cbn [scheme userInfo hostText ip4 ip6 ipFuture portText pathSegs query fragment absolutePath].
  repeat (split; [reflexivity|]). unfold is_host_set at 1. cbn [hostText ip4 ip6 ipFuture]. apply norm_host_is_some.
Qed.

Lemma pct_wf_parts u : uri_pct_wf u = true ->
  opt_pct_wf (userInfo u) = true /\ (is_regname u = true -> opt_pct_wf (hostText u) = true)
  /\ forallb pct_wf (pathSegs u) = true /\ opt_pct_wf (query u) = true /\ opt_pct_wf (fragment u) = true.
Proof.
  unfold uri_pct_wf. intros H. apply andb_prop in H. destruct H as [H Hfr].
  apply andb_prop in H. destruct H as [H Hqu]. apply andb_prop in H. destruct H as [H Hps].
  apply andb_prop in H. destruct H as [Hui Hho].
  repeat split; try assumption. intros Hr. rewrite Hr in Hho. exact Hho.
Qed.

Lemma omap_fix_idem o : opt_pct_wf o = true -> omap fix_pct (omap fix_pct o) = omap fix_pct o.
Proof. destruct o as [t|]; [|reflexivity]. intros H. cbn [omap]. rewrite fix_pct_idem by exact H. reflexivity. Qed.

(* normalizing the reference first changes nothing in what normalization makes of the copied authority *)
Lemma auth_norm_normalize u : uri_pct_wf u = true -> one_kind u = true ->
  auth_norm (normalize 63 u) = auth_norm u.
Proof.
  intros Hwf Hone. destruct (pct_wf_parts u Hwf) as (Hui & Hho & _).
  destruct (normalized_fields u) as (_ & Eui & Eht & E4 & E6 & Efu & Epo & _).
  cbv zeta in *. unfold auth_norm, build. cbv zeta.
  cbn [userInfo hostText ip4 ip6 ipFuture portText].
  rewrite Eui, Eht, E4, E6, Efu, Epo. rewrite (omap_fix_idem _ Hui).
  unfold norm_host_text. cbn [userInfo hostText ip4 ip6 ipFuture portText].
  unfold one_kind in Hone. unfold is_regname in Hho.
  destruct (hostText u) as [t|], (ip4 u) as [x4|], (ip6 u) as [x6|], (ipFuture u) as [xf|];
    try discriminate Hone; cbn [omap]; rewrite ?lowercase_idem; try reflexivity.
  specialize (Hho eq_refl). cbn [opt_pct_wf] in Hho.
  destruct (host_norm_fixed t Hho) as (_ & F1 & F2). cbv zeta in F1, F2. rewrite F1, F2. reflexivity.
Qed.

(* ================================================================ 6. the commutation theorem *)
Lemma omap_lowercase_idem o : omap lowercase (omap lowercase o) = omap lowercase o.
Proof. destruct o as [t|]; [|reflexivity]. cbn [omap]. rewrite lowercase_idem. reflexivity. Qed.

Lemma is_some_omap {f : text -> text} o : is_some (omap f o) = is_some o.
Proof. destruct o; reflexivity. Qed.

Theorem commute c R B :
  (c = false \/ scheme R = None) ->
  uri_pct_wf R = true -> one_kind R = true -> no_pct_dot R = true ->
  (is_host_set B = true -> absolutePath B = false) ->
  kf_cancels R = false -> kf_dot_eaten R = false ->
  components (normalize 63 (snd (add_base c (normalize 63 R) B)))
  = components (normalize 63 (snd (add_base c R B))).
Proof.
  intros Hc Hwf Hone Hnpd HB Hkc Hke.
  destruct (scheme B) as [sb|] eqn:Esb; [|rewrite !add_base_rel_base by exact Esb; reflexivity].
  rewrite !(add_base_build c _ B sb Esb). cbv zeta.
  destruct (normalized_fields R) as (Esc & Eui & Eht & E4 & E6 & Efu & Epo & Eps & Eab & Equ & Efr & Ehs).
  cbv zeta in *.
  pose proof (auth_norm_normalize R Hwf Hone) as Han.
  destruct (pct_wf_parts R Hwf) as (Hui & _ & Hps & Hqu & Hfr).
  unfold no_pct_dot in Hnpd.
  set (R' := normalize 63 R) in *.
  assert (keeps_scheme c (Some sb) R' = keeps_scheme c (Some sb) R) as Ek.
  { unfold keeps_scheme. rewrite Esc. destruct Hc as [Hc|Hc]; [subst c|rewrite Hc; reflexivity].
    cbn [andb negb]. rewrite !andb_true_r. apply is_some_omap. }
  rewrite Ek, Ehs, Eab, Eps, Equ, Efr.
  unfold norm_segs.
  destruct (keeps_scheme c (Some sb) R) eqn:Hk.
  { (* the reference keeps its scheme *)
    assert (is_some (scheme R) = true) as Hs by (unfold keeps_scheme in Hk; apply andb_prop in Hk; apply Hk).
    assert (relative_ref R = false) as Hrel by (unfold relative_ref; rewrite Hs; reflexivity).
    rewrite Hrel.
    apply comps_build_eq; try assumption.
    - rewrite Esc. apply omap_lowercase_idem.
    - rewrite Esc, is_some_omap. exact Hs.
    - apply path_keeps; assumption.
    - apply omap_fix_idem; exact Hqu.
    - apply omap_fix_idem; exact Hfr. }
  destruct (is_host_set R) eqn:Hh.
  { (* the reference has an authority *)
    assert (relative_ref R = false) as Hrel by (unfold relative_ref; rewrite Hh, andb_false_r; reflexivity).
    rewrite Hrel.
    assert (is_host_set R' = is_host_set R) as Ehs' by (rewrite Ehs, Hh; reflexivity).
    apply comps_build_eq; try assumption; try reflexivity.
    - apply path_relhost; assumption.
    - apply omap_fix_idem; exact Hqu.
    - apply omap_fix_idem; exact Hfr. }
  destruct (absolutePath R) eqn:Ha.
  { (* absolute-path reference *)
    rewrite !andb_false_r.
    assert (relative_ref R = false) as Hrel by (unfold relative_ref; rewrite Ha, andb_false_r; reflexivity).
    rewrite Hrel.
    apply comps_build_eq; try reflexivity.
    - apply path_abs; assumption.
    - apply omap_fix_idem; exact Hqu.
    - apply omap_fix_idem; exact Hfr. }
  (* relative-path reference *)
  assert (scheme R = None) as Hsn.
  { destruct Hc as [Hc|Hc]; [subst c|exact Hc]. unfold keeps_scheme in Hk. cbn [andb negb] in Hk.
    rewrite andb_true_r in Hk. destruct (scheme R); [discriminate Hk|reflexivity]. }
  assert (relative_ref R = true) as Hrel by (unfold relative_ref; rewrite Hsn, Ha, Hh; reflexivity).
  rewrite Hrel. rewrite !andb_true_r.
  destruct (pathSegs R) as [|r1 rs] eqn:Ep.
  { (* empty path: the base's path *)
    cbn [is_nil]. change (norm_segs_of true false false []) with (@nil text). cbn [is_nil].
    apply comps_build_eq; try reflexivity.
    - destruct (query R) as [q|]; [|reflexivity]. cbn [omap]. cbn [opt_pct_wf] in Hqu.
      rewrite fix_pct_idem by exact Hqu. reflexivity.
    - apply omap_fix_idem; exact Hfr. }
  (* merge *)
  rewrite <- Ep in *. assert (pathSegs R <> []) as Hne by (rewrite Ep; discriminate).
  assert (norm_segs_of true false false (pathSegs R) <> []) as HN.
  { unfold kf_cancels in Hkc. rewrite Hrel in Hkc. fold R' in Hkc. rewrite Eps in Hkc.
    unfold norm_segs in Hkc. rewrite Hrel, Hh, Ha in Hkc.
    intros E. rewrite E in Hkc. rewrite Ep in Hkc. discriminate Hkc. }
  assert (is_nil (pathSegs R) = false) as E1 by (rewrite Ep; reflexivity).
  assert (is_nil (norm_segs_of true false false (pathSegs R)) = false) as E2
    by (destruct (norm_segs_of true false false (pathSegs R)); [congruence|reflexivity]).
  rewrite E1, E2.
  apply comps_build_eq; try reflexivity.
  - apply path_merge; try assumption.
    unfold kf_dot_eaten in Hke. rewrite Hrel in Hke. exact Hke.
  - apply omap_fix_idem; exact Hqu.
  - apply omap_fix_idem; exact Hfr.
Qed.

(* a reference with a scheme, an authority or an absolute path: no carve-out, nothing asked of the base *)
Theorem commute_not_relative c R B :
  (c = false \/ scheme R = None) ->
  uri_pct_wf R = true -> one_kind R = true -> no_pct_dot R = true ->
  relative_ref R = false ->
  components (normalize 63 (snd (add_base c (normalize 63 R) B)))
  = components (normalize 63 (snd (add_base c R B))).
Proof.
  intros Hc Hwf Hone Hnpd Hrel.
  destruct (scheme B) as [sb|] eqn:Esb; [|rewrite !add_base_rel_base by exact Esb; reflexivity].
  rewrite !(add_base_build c _ B sb Esb). cbv zeta.
  destruct (normalized_fields R) as (Esc & Eui & Eht & E4 & E6 & Efu & Epo & Eps & Eab & Equ & Efr & Ehs).
  cbv zeta in *.
  pose proof (auth_norm_normalize R Hwf Hone) as Han.
  destruct (pct_wf_parts R Hwf) as (Hui & _ & Hps & Hqu & Hfr).
  unfold no_pct_dot in Hnpd.
  set (R' := normalize 63 R) in *.
  assert (keeps_scheme c (Some sb) R' = keeps_scheme c (Some sb) R) as Ek.
  { unfold keeps_scheme. rewrite Esc. destruct Hc as [Hc|Hc]; [subst c|rewrite Hc; reflexivity].
    cbn [andb negb]. rewrite !andb_true_r. apply is_some_omap. }
  rewrite Ek, Ehs, Eab, Eps, Equ, Efr.
  unfold norm_segs. rewrite Hrel.
  destruct (keeps_scheme c (Some sb) R) eqn:Hk.
  { assert (is_some (scheme R) = true) as Hs by (unfold keeps_scheme in Hk; apply andb_prop in Hk; apply Hk).
    apply comps_build_eq; try assumption.
    - rewrite Esc. apply omap_lowercase_idem.
    - rewrite Esc, is_some_omap. exact Hs.
    - apply path_keeps; assumption.
    - apply omap_fix_idem; exact Hqu.
    - apply omap_fix_idem; exact Hfr. }
  destruct (is_host_set R) eqn:Hh.
  { assert (is_host_set R' = is_host_set R) as Ehs' by (rewrite Ehs, Hh; reflexivity).
    apply comps_build_eq; try assumption; try reflexivity.
    - apply path_relhost; assumption.
    - apply omap_fix_idem; exact Hqu.
    - apply omap_fix_idem; exact Hfr. }
  destruct (absolutePath R) eqn:Ha.
  { rewrite !andb_false_r.
    apply comps_build_eq; try reflexivity.
    - apply path_abs; assumption.
    - apply omap_fix_idem; exact Hqu.
    - apply omap_fix_idem; exact Hfr. }
  (* no scheme kept, no host, rootless: a relative-path reference after all *)
  exfalso.
  assert (scheme R = None) as Hsn.
  { destruct Hc as [Hc|Hc]; [subst c|exact Hc]. unfold keeps_scheme in Hk. cbn [andb negb] in Hk.
    rewrite andb_true_r in Hk. destruct (scheme R); [discriminate Hk|reflexivity]. }
  unfold relative_ref in Hrel. rewrite Hsn, Ha, Hh in Hrel. discriminate Hrel.
Qed.

(* ================================================================ 7. the carve-outs are needed: witnesses *)
Definition parsed (s : string) (u : uri) : Prop := parse (txt s) = POk u.

(* D7a: "a/.." against "s://h/x/y": the directory "s://h/x/" by resolution, the document "s://h/x/y" after
   normalization made the reference empty *)
Lemma commute_cancels_refuted :
  exists R B, parsed "a/.." R /\ parsed "s://h/x/y" B
    /\ uri_pct_wf R = true /\ one_kind R = true /\ no_pct_dot R = true /\ wf R = true /\ wf B = true
    /\ kf_cancels R = true /\ kf_dot_eaten R = false
    /\ to_text (normalize 63 (snd (add_base false (normalize 63 R) B))) = txt "s://h/x/y"
    /\ to_text (normalize 63 (snd (add_base false R B))) = txt "s://h/x/".
Proof. do 2 eexists. split; [vm_compute; reflexivity|]. split; [vm_compute; reflexivity|]. repeat split. Qed.

(* D7e: "./b:c/../../x" against "s:/a/b:c": "s:/x" by resolution, "s:/a/x" after normalization lost a ".." *)
Lemma commute_dot_eaten_refuted :
  exists R B, parsed "./b:c/../../x" R /\ parsed "s:/a/b:c" B
    /\ uri_pct_wf R = true /\ one_kind R = true /\ no_pct_dot R = true /\ wf R = true /\ wf B = true
    /\ kf_cancels R = false /\ kf_dot_eaten R = true
    /\ to_text (normalize 63 R) = txt "x"
    /\ to_text (normalize 63 (snd (add_base false (normalize 63 R) B))) = txt "s:/a/x"
    /\ to_text (normalize 63 (snd (add_base false R B))) = txt "s:/x".
Proof. do 2 eexists. split; [vm_compute; reflexivity|]. split; [vm_compute; reflexivity|]. repeat split. Qed.

(* D7d "./b:c/../x" (the stale dot) is not a carve-out: it is covered by the theorem *)
Lemma stale_dot_covered :
  exists R, parsed "./b:c/../x" R /\ to_text (normalize 63 R) = txt "./x"
    /\ uri_pct_wf R = true /\ one_kind R = true /\ no_pct_dot R = true
    /\ kf_cancels R = false /\ kf_dot_eaten R = false.
Proof. eexists. split; [vm_compute; reflexivity|]. repeat split. Qed.

(* a percent-encoded dot segment: "/a/%2e%2e/../b" *)
Lemma commute_pct_dot_refuted :
  exists R B, parsed "/a/%2e%2e/../b" R /\ parsed "s://h/x" B
    /\ uri_pct_wf R = true /\ one_kind R = true /\ no_pct_dot R = false /\ relative_ref R = false
    /\ to_text (normalize 63 (snd (add_base false (normalize 63 R) B))) = txt "s://h/b"
    /\ to_text (normalize 63 (snd (add_base false R B))) = txt "s://h/a/b".
Proof. do 2 eexists. split; [vm_compute; reflexivity|]. split; [vm_compute; reflexivity|]. repeat split. Qed.

(* URI_RESOLVE_IDENTICAL_SCHEME_COMPAT: a reference with the base's scheme is resolved as if it had none, but
   normalized as the absolute URI it is ("t:." is "t:"), and normalization can make the schemes identical *)
Lemma commute_compat_refuted :
  (exists R B, parsed "t:." R /\ parsed "t:/x/y" B
     /\ to_text (normalize 63 (snd (add_base true (normalize 63 R) B))) = txt "t:/x/y"
     /\ to_text (normalize 63 (snd (add_base true R B))) = txt "t:/x/")
  /\ (exists R B, parsed "T:a" R /\ parsed "t:/x/y" B
     /\ to_text (normalize 63 (snd (add_base true (normalize 63 R) B))) = txt "t:/x/a"
     /\ to_text (normalize 63 (snd (add_base true R B))) = txt "t:a").
Proof.
  split; do 2 eexists; (split; [vm_compute; reflexivity|]); (split; [vm_compute; reflexivity|]); split; reflexivity.
Qed.

(* the two conditions on objects that no parsed URI violates *)
Lemma commute_base_flag_refuted :       (* a base with a host and the absolute-path flag *)
  exists R B B0, parsed "../a/.." R /\ parsed "s://h/x" B0 /\ B = set_absolutePath true B0
    /\ uri_pct_wf R = true /\ one_kind R = true /\ no_pct_dot R = true
    /\ kf_cancels R = false /\ kf_dot_eaten R = false
    /\ components (normalize 63 (snd (add_base false (normalize 63 R) B)))
       <> components (normalize 63 (snd (add_base false R B))).
Proof.
  do 3 eexists. split; [vm_compute; reflexivity|]. split; [vm_compute; reflexivity|]. split; [reflexivity|].
  repeat (split; [reflexivity|]). vm_compute. discriminate.
Qed.

Lemma commute_two_host_kinds_refuted :  (* a reference with both an IPv4 value and an IPvFuture text *)
  exists R B, R = mkUri None None (Some [86]) (Some [1; 2; 3; 4]) None (Some [86]) None [] None None false false
    /\ parsed "s://h/x" B /\ uri_pct_wf R = true /\ one_kind R = false /\ no_pct_dot R = true
    /\ relative_ref R = false
    /\ components (normalize 63 (snd (add_base false (normalize 63 R) B)))
       <> components (normalize 63 (snd (add_base false R B))).
Proof.
  do 2 eexists. split; [reflexivity|]. split; [vm_compute; reflexivity|].
  repeat (split; [reflexivity|]). vm_compute. discriminate.
Qed.

(* ================================================================ 8. the kind of a reference is kept *)
(* a segment that does not begin with "/" *)
Definition head_ok (s : text) : bool := match s with c :: _ => negb (c =? 47) | [] => true end.

Lemma unreserved_not_slash v : is_unreserved_code v = true -> (v =? 47) = false.
Proof. arith. Qed.

Lemma head_ok_fix s : head_ok s = true -> head_ok (fix_pct s) = true.
Proof.
  destruct s as [|c [|x [|y r]]]; try (intros H; exact H).
  intros H. cbn [fix_pct]. destruct (c =? 37); [|exact H].
  destruct (is_unreserved_code _) eqn:Eu; [|reflexivity].
  cbn [head_ok]. rewrite (unreserved_not_slash _ Eu). reflexivity.
Qed.

Lemma noslash_head_ok s : noslash s = true -> head_ok s = true.
Proof.
  destruct s as [|c r]; [reflexivity|]. intros H. apply noslash_cons in H. destruct H as [Hc _].
  apply N.eqb_neq in Hc. cbn [head_ok]. rewrite Hc. reflexivity.
Qed.

(* whatever the mode, the walk only keeps segments it was given, or adds an empty one *)
Lemma walk_forallb_any (P : text -> bool) rel h a : P [] = true -> forall rest kept,
  forallb P kept = true -> forallb P rest = true -> forallb P (rds_walk rel h a kept rest) = true.
Proof.
  intros HP.
  assert (forall k x, forallb P k = true -> P x = true -> forallb P (rev (x :: k)) = true) as Hrev.
  { intros k x Hk Hx. rewrite forallb_rev. cbn [forallb]. rewrite Hx, Hk. reflexivity. }
  induction rest as [|w nxt IH]; intros kept Hk Hr.
  - cbn [rds_walk]. rewrite forallb_rev. exact Hk.
  - cbn [forallb] in Hr. apply andb_prop in Hr. destruct Hr as [Hw Hn]. cbn [rds_walk].
    assert (forallb P (w :: kept) = true) as Hpush by (cbn [forallb]; rewrite Hw, Hk; reflexivity).
    destruct (seg_dot w).
    { destruct (rel && _ && _); [apply IH; assumption|].
      destruct nxt as [|n1 n2]; [|apply IH; assumption].
      destruct kept as [|p k]; [destruct h; cbn [forallb]; rewrite ?HP; reflexivity|].
      apply Hrev; assumption. }
    destruct (seg_dotdot w).
    { destruct (rel && _); [apply IH; assumption|].
      destruct kept as [|p [|pp kk]].
      - destruct nxt as [|n1 n2]; [destruct a; cbn [forallb]; rewrite ?HP; reflexivity|apply IH; assumption].
      - destruct nxt as [|n1 n2]; [destruct a; cbn [forallb]; rewrite ?HP; reflexivity|apply IH; auto].
      - cbn [forallb] in Hk. apply andb_prop in Hk. destruct Hk as [_ Hk'].
        destruct nxt as [|n1 n2]; [apply Hrev; [exact Hk'|exact HP]|apply IH; assumption]. }
    apply IH; assumption.
Qed.

Lemma nso_forallb (P : text -> bool) rel h a S : P [] = true -> P [46] = true ->
  forallb P (map fix_pct S) = true -> forallb P (norm_segs_of rel h a S) = true.
Proof.
  intros HP HPd HS. unfold norm_segs_of. cbv zeta.
  assert (forallb P (match map fix_pct S with [] => [] | _ => rds_walk rel h a [] (map fix_pct S) end) = true) as Ho0.
  { destruct (map fix_pct S) as [|s0 r0] eqn:E; [reflexivity|]. apply walk_forallb_any; [exact HP|reflexivity|exact HS]. }
  assert (forall X, forallb P X = true -> forallb P (guard_segs h a X) = true) as Hg.
  { intros X HX. change (guard_segs h a X) with (fixamb_p h a X).
    destruct (fixamb_cases h a X) as [E|(E & _)]; rewrite E; [exact HX|]. cbn [forallb]. rewrite HPd, HX. reflexivity. }
  pose proof (Hg _ Ho0) as Ho.
  destruct (negb h); [|exact Ho].
  match goal with |- forallb P (match ?o with _ => _ end) = true => destruct o as [|[|? ?] [|? ?]] end;
    try exact Ho. reflexivity.
Qed.

Lemma nso_head_ok rel h a S : forallb noslash S = true -> forallb head_ok (norm_segs_of rel h a S) = true.
Proof.
  intros H. apply nso_forallb; [reflexivity|reflexivity|].
  rewrite forallb_forall in *. intros x Hx. apply in_map_iff in Hx. destruct Hx as (s & Es & Hs). subst x.
  apply head_ok_fix. apply noslash_head_ok. apply H. exact Hs.
Qed.

Lemma path_text_hostless u : is_host_set u = false ->
  path_text u = (if absolutePath u then [47] else []) ++ join_text (pathSegs u).
Proof. intros Hh. unfold path_text, path_text_of. rewrite Hh, andb_false_r, orb_false_r. reflexivity. Qed.

(* the normal form of a host-less absolute path never begins with an empty segment followed by another one:
   uriFixAmbiguity has put a "." in front (the repair of D14) *)
Lemma nso_abs_no_dslash rel S y r : norm_segs_of rel false true S <> [] :: y :: r.
Proof.
  unfold norm_segs_of. cbv zeta. cbn [negb].
  match goal with |- context [guard_segs false true ?X] => destruct X as [|[|c x] [|z l]] end; discriminate.
Qed.

(* For a reference with neither scheme nor authority, outside the three shapes: the recomposed path of the
   normal form is empty / absolute / relative as that of the reference, and the recomposed text reads back
   with neither a scheme nor an authority. *)
Theorem kind_kept R :
  scheme R = None -> is_host_set R = false -> wf R = true ->
  kf_cancels R = false -> kf_exposes_empty R = false -> kf_exposes_colon R = false ->
  path_kind (normalize 63 R) = path_kind R
  /\ reads_scheme (normalize 63 R) = false /\ reads_authority (normalize 63 R) = false.
Proof.
  intros Hs Hh Hwf Hkc Hke Hkco.
  destruct (normalized_fields R) as (Esc & _ & _ & _ & _ & _ & _ & Eps & Eab & _ & _ & Ehs). cbv zeta in *.
  unfold kf_cancels, kf_exposes_empty, kf_exposes_colon in *.
  set (NR := normalize 63 R) in *.
  rewrite Hs in Esc. cbn [omap] in Esc. rewrite Hh in Ehs.
  pose proof (wf_noslash R Hwf) as Hno.
  unfold path_kind, reads_scheme, reads_authority.
  rewrite (path_text_hostless NR Ehs), (path_text_hostless R Hh). rewrite Esc, Ehs, Eab. cbn [is_some orb negb andb].
  rewrite Eps in *. unfold norm_segs in *. rewrite Hh in *.
  destruct (absolutePath R) eqn:Ha.
  - (* absolute path *)
    cbn [app negb andb] in *. rewrite N.eqb_refl. split; [reflexivity|]. split; [reflexivity|].
    cbn [starts_with]. rewrite N.eqb_refl. cbn [andb].
    assert (relative_ref R = false) as Hrel by (unfold relative_ref; rewrite Ha, andb_false_r; reflexivity).
    rewrite Hrel in *.
    pose proof (nso_head_ok false false true (pathSegs R) Hno) as Hok.
    pose proof (norm_segs_of_not_lone false true (pathSegs R)) as Hlone.
    pose proof (nso_abs_no_dslash false (pathSegs R)) as Hnd.
    destruct (norm_segs_of false false true (pathSegs R)) as [|[|c s] [|y r]]; try reflexivity; try congruence.
    + exfalso. exact (Hnd y r eq_refl).
    + cbn [forallb head_ok] in Hok. apply andb_prop in Hok. destruct Hok as [Hc _].
      unfold join_text. cbn [path_pieces concat app starts_with]. apply negb_true_iff in Hc.
      rewrite N.eqb_sym, Hc. reflexivity.
    + cbn [forallb head_ok] in Hok. apply andb_prop in Hok. destruct Hok as [Hc _].
      unfold join_text. cbn [path_pieces concat app starts_with]. apply negb_true_iff in Hc.
      rewrite N.eqb_sym, Hc. reflexivity.
  - (* relative-path reference *)
    cbn [app negb andb] in *.
    assert (relative_ref R = true) as Hrel by (unfold relative_ref; rewrite Hs, Ha, Hh; reflexivity).
    rewrite Hrel in *. cbn [andb] in *.
    pose proof (nso_head_ok true false false (pathSegs R) Hno) as Hok.
    pose proof (norm_segs_of_not_lone true false (pathSegs R)) as Hlone.
    pose proof (wf_rootless_first R Hwf Hh Ha) as Hfirst.
    destruct (pathSegs R) as [|s0 r0] eqn:Ep.
    { change (norm_segs_of true false false []) with (@nil text). repeat split. }
    cbn [is_nil negb andb] in Hkc.
    destruct (norm_segs_of true false false (s0 :: r0)) as [|[|c s] r] eqn:EN.
    + discriminate Hkc.
    + destruct r as [|y r]; [exfalso; apply Hlone; reflexivity|discriminate Hke].
    + cbn [forallb head_ok] in Hok. apply andb_prop in Hok. destruct Hok as [Hc _]. apply negb_true_iff in Hc.
      destruct s0 as [|c0 s0']; [discriminate Hfirst|].
      cbn [forallb] in Hno. apply andb_prop in Hno. destruct Hno as [Hc0 _].
      apply noslash_cons in Hc0. destruct Hc0 as [Hc0 _]. apply N.eqb_neq in Hc0.
      assert (forall (x : N) (xs : text) (l : list text), exists t, join_text (@cons text (x :: xs) l) = x :: t) as Hj
        by (intros x xs l; unfold join_text; destruct l; cbn [path_pieces concat app]; eauto).
      destruct (Hj c s r) as (t & Et). destruct (Hj c0 s0' r0) as (t0 & Et0).
      rewrite Et, Et0, Hc, Hc0. cbn [starts_with]. rewrite N.eqb_sym, Hc. cbn [andb].
      split; [reflexivity|split; [exact Hkco|reflexivity]].
Qed.

(* a witness for each of the three shapes *)
Lemma kind_cancels_refuted :          (* D7a  "a/.." -> "" *)
  exists R, parsed "a/.." R /\ wf R = true /\ kf_cancels R = true
    /\ path_kind R = PRelative /\ path_kind (normalize 63 R) = PEmpty.
Proof. eexists. split; [vm_compute; reflexivity|]. repeat split. Qed.

Lemma kind_exposes_empty_refuted :    (* D7c  "a/..//b" -> "/b" *)
  exists R, parsed "a/..//b" R /\ wf R = true /\ kf_cancels R = false /\ kf_exposes_empty R = true
    /\ path_kind R = PRelative /\ path_kind (normalize 63 R) = PAbsolute
    /\ to_text (normalize 63 R) = txt "/b".
Proof. eexists. split; [vm_compute; reflexivity|]. repeat split. Qed.

Lemma kind_exposes_colon_refuted :    (* D7b  "a/../b:c" -> "b:c", read back as scheme "b" *)
  exists R v, parsed "a/../b:c" R /\ wf R = true /\ kf_exposes_colon R = true
    /\ reads_scheme R = false /\ reads_scheme (normalize 63 R) = true
    /\ parse (to_text (normalize 63 R)) = POk v /\ scheme R = None /\ scheme v = Some (txt "b").
Proof. do 2 eexists. split; [vm_compute; reflexivity|]. repeat split. Qed.

(* was D14: "/..//." gave "//", read back as an empty authority; repaired: "/.//", read back as it is *)
Lemma kind_abs_dslash_guarded :
  exists R v, parsed "/..//." R /\ wf R = true
    /\ kf_cancels R = false /\ kf_exposes_empty R = false /\ kf_exposes_colon R = false
    /\ to_text (normalize 63 R) = txt "/.//"
    /\ reads_authority R = false /\ reads_authority (normalize 63 R) = false
    /\ parse (to_text (normalize 63 R)) = POk v /\ is_host_set v = false
    /\ pathSegs v = pathSegs (normalize 63 R) /\ absolutePath v = true.
Proof. do 2 eexists. split; [vm_compute; reflexivity|]. repeat split. Qed.

(* ================================================================ 9. the two carve-outs are exact on a small scope *)
(* every relative-path reference with a path of at most four segments over {"", ".", "..", "a", "b:c"}, and
   "./b:c/../.." followed by at most two more: a reference in one of the two shapes fails to commute against
   one of three bases (one of them deep enough for every ".." to matter), every other one commutes
   against all three *)
Definition text_eq_dec : forall a b : text, {a = b} + {a <> b} := list_eq_dec N.eq_dec.
Definition otext_eq_dec : forall a b : option text, {a = b} + {a <> b}.
Proof. decide equality. apply text_eq_dec. Defined.
Definition comps_eqb (u v : uri) : bool :=
  (if otext_eq_dec (scheme u) (scheme v) then true else false)
  && (if otext_eq_dec (userInfo u) (userInfo v) then true else false)
  && (if otext_eq_dec (hostText u) (hostText v) then true else false)
  && (if otext_eq_dec (ip4 u) (ip4 v) then true else false)
  && (if otext_eq_dec (ip6 u) (ip6 v) then true else false)
  && (if otext_eq_dec (ipFuture u) (ipFuture v) then true else false)
  && (if otext_eq_dec (portText u) (portText v) then true else false)
  && (if list_eq_dec text_eq_dec (pathSegs u) (pathSegs v) then true else false)
  && Bool.eqb (absolutePath u) (absolutePath v)
  && (if otext_eq_dec (query u) (query v) then true else false)
  && (if otext_eq_dec (fragment u) (fragment v) then true else false).

Lemma comps_eqb_spec u v : comps_eqb u v = true <-> components u = components v.
Proof.
  unfold comps_eqb, components. split.
  - intros H. repeat (apply andb_prop in H; destruct H as [H ?]).
    repeat match goal with
           | X : (if ?d then true else false) = true |- _ => destruct d; [clear X|discriminate X]
           | X : Bool.eqb _ _ = true |- _ => apply eqb_prop in X
           end.
    congruence.
  - intros H. injection H as H1 H2 H3 H4 H5 H6 H7 H8 H9 H10 H11.
    rewrite H1, H2, H3, H4, H5, H6, H7, H8, H9, H10, H11. rewrite eqb_reflx.
    repeat match goal with |- context [if ?d then true else false] => destruct d; [|congruence] end.
    reflexivity.
Qed.

Definition commutes_b (R B : uri) : bool :=
  comps_eqb (normalize 63 (snd (add_base false (normalize 63 R) B))) (normalize 63 (snd (add_base false R B))).

Definition scope_alpha : list text := [[]; [46]; [46; 46]; [97]; [98; 58; 99]].
Fixpoint scope_paths (n : nat) : list (list text) :=
  match n with
  | O => [[]]
  | S k => [] :: flat_map (fun l => map (fun x => x :: l) scope_alpha) (scope_paths k)
  end.
Definition scope_ref (p : list text) : uri := mkUri None None None None None None None p None None false false.
Definition scope_refs : list uri :=
  filter (fun u => wf u && negb (lone_empty_hostless u))
    (map scope_ref (scope_paths 4 ++ map (fun t => [[46]; [98; 58; 99]; [46; 46]; [46; 46]] ++ t) (scope_paths 2))).
Definition scope_bases : list uri := [uri_of "s://h/x/y/z/w"; uri_of "s:/a/b:c"; uri_of "s:x/y/z"].

Lemma carveouts_exact_small_scope :
  forallb (fun R => if kf_cancels R || kf_dot_eaten R
                    then existsb (fun B => negb (commutes_b R B)) scope_bases
                    else forallb (fun B => commutes_b R B) scope_bases) scope_refs = true
  /\ existsb kf_cancels scope_refs = true /\ existsb kf_dot_eaten scope_refs = true
  /\ (600 <=? N.of_nat (length scope_refs)) = true.
Proof. vm_compute. repeat split. Qed.
