(* Proofs about the query model (C17). *)
From UP Require Import Base.Chars Model.Uri Model.Escape Model.Query Spec.PctSpec Spec.FormUrl
  Proofs.EscapeProofs Proofs.EscapeExtra.
From Coq Require Import ZArith ZifyBool ZifyN Lia.
Local Open Scope Z_scope.

(* =========================================================================== *)
(* 1. size arithmetic on lengths                                                  *)
(* =========================================================================== *)

(* the size the engine means to compute, in unbounded integers *)
Fixpoint total_loop (nb first : bool) (ls : list qlen) : Z :=
  match ls with
  | [] => 0
  | (kl, v) :: r =>
    (if first then 0 else 1) + worst_case nb * kl
    + match v with None => 0 | Some vl => 1 + worst_case nb * vl end
    + total_loop nb false r
  end.
Definition total_size (nb : bool) (ls : list qlen) : Z := total_loop nb true ls.

Definition lens_ok (ls : list qlen) : Prop :=
  Forall (fun it : qlen => 0 <= fst it /\ match snd it with None => True | Some n => 0 <= n end) ls.

Definition no_item_too_large (nb : bool) (ls : list qlen) : bool :=
  forallb (fun it : qlen => negb (item_too_large nb (fst it) (vlen_of (snd it)))) ls.

(* the shape of finding D10: every item passes the per-item guard but the sum exceeds INT_MAX *)
Definition sum_wraps (nb : bool) (ls : list qlen) : bool :=
  no_item_too_large nb ls && (total_size nb ls >? INT_MAX).

Lemma wrap32_small z : - 2147483648 <= z <= INT_MAX -> wrap32 z = z.
Proof. unfold wrap32, INT_MAX. intros H. rewrite Z.mod_small by lia. lia. Qed.

Lemma worst_case_pos nb : 0 < worst_case nb.
Proof. destruct nb; cbn; lia. Qed.

Lemma total_loop_nonneg nb : forall ls first, lens_ok ls -> 0 <= total_loop nb first ls.
Proof.
  induction ls as [|[kl v] r IH]; intros first H; [cbn; lia|].
  inversion H as [|? ? [Hk Hv] Hr]; subst. cbn [total_loop fst snd] in *.
  specialize (IH false Hr). pose proof (worst_case_pos nb).
  destruct v, first; nia.
Qed.

Lemma required_loop_exact nb : forall ls first acc,
  lens_ok ls -> no_item_too_large nb ls = true -> 0 <= acc ->
  acc + total_loop nb first ls <= INT_MAX ->
  required_loop nb first acc ls = ZOk (acc + total_loop nb first ls).
Proof.
  induction ls as [|[kl v] r IH]; intros first acc Hl Hn Hacc Hb.
  { cbn. f_equal. lia. }
  inversion Hl as [|? ? [Hk Hv] Hr]; subst. cbn [fst snd] in *.
  cbn [no_item_too_large forallb fst snd] in Hn. apply andb_prop in Hn. destruct Hn as [Hn1 Hn2].
  cbn [required_loop total_loop] in *.
  apply negb_true_iff in Hn1. rewrite Hn1.
  pose proof (total_loop_nonneg nb r false Hr) as Ht. pose proof (worst_case_pos nb) as Hw.
  set (add := (if first then 0 else 1) + worst_case nb * kl
              + match v with None => 0 | Some _ => 1 + worst_case nb * vlen_of v end).
  assert (add = (if first then 0 else 1) + worst_case nb * kl
              + match v with None => 0 | Some vl => 1 + worst_case nb * vl end) as Eadd
    by (unfold add; destruct v; reflexivity).
  assert (0 <= add) as Hadd0 by (rewrite Eadd; destruct v, first; nia).
  rewrite (wrap32_small add) by (unfold INT_MAX in *; lia).
  rewrite wrap32_small by (unfold INT_MAX in *; lia).
  rewrite IH; try assumption; try lia. f_equal. lia.
Qed.

Lemma required_loop_refuses nb : forall ls first acc,
  no_item_too_large nb ls = false -> required_loop nb first acc ls = ZErr URI_ERROR_OUTPUT_TOO_LARGE.
Proof.
  induction ls as [|[kl v] r IH]; intros first acc Hn; [discriminate|].
  cbn [no_item_too_large forallb fst snd] in Hn. cbn [required_loop].
  destruct (item_too_large nb kl (vlen_of v)); [reflexivity|].
  cbn [negb andb] in Hn. apply IH. exact Hn.
Qed.

Lemma required_loop_ok_items nb : forall ls first acc r,
  required_loop nb first acc ls = ZOk r -> no_item_too_large nb ls = true.
Proof.
  intros ls first acc r H. destruct (no_item_too_large nb ls) eqn:E; [reflexivity|].
  rewrite required_loop_refuses in H by assumption. discriminate.
Qed.

(* the figure is exact whenever the D10 shape is excluded, and an oversized item is refused *)
Theorem chars_required_len_no_wrap nb ls :
  ls <> [] -> lens_ok ls -> sum_wraps nb ls = false ->
  chars_required_len nb ls =
    if no_item_too_large nb ls then ZOk (total_size nb ls) else ZErr URI_ERROR_OUTPUT_TOO_LARGE.
Proof.
  intros Hne Hl Hs. unfold chars_required_len. destruct ls as [|it r]; [congruence|].
  unfold sum_wraps in Hs. destruct (no_item_too_large nb (it :: r)) eqn:En.
  - cbn [andb] in Hs. unfold total_size in *. rewrite required_loop_exact; try assumption; try lia.
    f_equal; lia.
  - apply required_loop_refuses. assumption.
Qed.

(* D10: with every item below the per-item limit the sum can still pass INT_MAX, and then the
   function reports success with a wrapped (here negative) figure. *)
Definition d10_witness : list qlen := [(715827881, Some 715827881)].

Theorem chars_required_no_wrap_refuted :
  exists nb ls, ls <> [] /\ lens_ok ls /\ sum_wraps nb ls = true /\ total_size nb ls > INT_MAX
                /\ chars_required_len nb ls = ZOk (-9).
Proof.
  exists false, d10_witness. split; [discriminate|]. split.
  { repeat constructor; cbn; lia. }
  split; [vm_compute; reflexivity|]. split; vm_compute; reflexivity.
Qed.
