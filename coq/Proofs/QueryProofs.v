(* Proofs about the query model (C17). *)
From UP Require Import Base.Chars Model.Uri Model.Escape Model.Query Spec.PctSpec Spec.FormUrl
  Proofs.EscapeProofs Proofs.EscapeExtra.
From Coq Require Import ZArith ZifyBool ZifyN Lia.
Local Open Scope Z_scope.

(* =========================================================================== *)
(* 1. size arithmetic on lengths                                                  *)
(* =========================================================================== *)

(* the size the engine means to compute, in unbounded integers *)
Fixpoint total_loop (nb first : bool) (ls : list qlen) : Z :=
  match ls with
  | [] => 0
  | (kl, v) :: r =>
    (if first then 0 else 1) + worst_case nb * kl
    + match v with None => 0 | Some vl => 1 + worst_case nb * vl end
    + total_loop nb false r
  end.
Definition total_size (nb : bool) (ls : list qlen) : Z := total_loop nb true ls.

Definition lens_ok (ls : list qlen) : Prop :=
  Forall (fun it : qlen => 0 <= fst it /\ match snd it with None => True | Some n => 0 <= n end) ls.

Definition no_item_too_large (nb : bool) (ls : list qlen) : bool :=
  forallb (fun it : qlen => negb (item_too_large nb (fst it) (vlen_of (snd it)))) ls.

Lemma wrap32_small z : - 2147483648 <= z <= INT_MAX -> wrap32 z = z.
Proof. unfold wrap32, INT_MAX. intros H. rewrite Z.mod_small by lia. lia. Qed.

Lemma worst_case_pos nb : 0 < worst_case nb.
Proof. destruct nb; cbn; lia. Qed.

Lemma total_loop_nonneg nb : forall ls first, lens_ok ls -> 0 <= total_loop nb first ls.
Proof.
  induction ls as [|[kl v] r IH]; intros first H; [cbn; lia|].
  inversion H as [|? ? [Hk Hv] Hr]; subst. cbn [total_loop fst snd] in *.
  specialize (IH false Hr). pose proof (worst_case_pos nb).
  destruct v, first; nia.
Qed.

(* an item that passes the per-item guard: 3x / 6x its lengths stays below INT_MAX *)
Lemma item_ok_bounds nb kl vl :
  0 <= kl -> 0 <= vl -> item_too_large nb kl vl = false ->
  0 <= worst_case nb * kl <= INT_MAX - 3 /\ 0 <= worst_case nb * vl <= INT_MAX - 3.
Proof.
  unfold item_too_large, INT_MAX. intros Hk Hv H. apply orb_false_iff in H. destruct H as [H1 H2].
  destruct nb; cbn [worst_case] in *.
  - change (2147483647 / 6) with 357913941 in *. lia.
  - change (2147483647 / 3) with 715827882 in *. lia.
Qed.

(* one turn of the chars-required loop: none of the int operations wraps, the two comparisons
   together say "the new total would pass INT_MAX" *)
Lemma required_step amp kr vpc acc :
  0 <= amp <= 1 -> 0 <= kr <= INT_MAX - 3 -> 0 <= vpc <= INT_MAX - 2 -> 0 <= acc <= INT_MAX ->
  ((kr >? int_sub (int_sub INT_MAX amp) vpc)
   || (acc >? int_sub (int_sub (int_sub INT_MAX amp) kr) vpc)) = (acc + (amp + kr + vpc) >? INT_MAX)
  /\ (acc + (amp + kr + vpc) <= INT_MAX ->
      int_add acc (int_add (int_add amp kr) vpc) = acc + (amp + kr + vpc)).
Proof.
  intros Ha Hk Hv Hacc. unfold int_sub, int_add.
  rewrite (wrap32_small (INT_MAX - amp)) by (unfold INT_MAX in *; lia).
  rewrite (wrap32_small (INT_MAX - amp - vpc)) by (unfold INT_MAX in *; lia).
  rewrite (wrap32_small (INT_MAX - amp - kr)) by (unfold INT_MAX in *; lia).
  rewrite (wrap32_small (INT_MAX - amp - kr - vpc)) by (unfold INT_MAX in *; lia).
  rewrite (wrap32_small (amp + kr)) by (unfold INT_MAX in *; lia).
  split.
  - destruct (kr >? INT_MAX - amp - vpc) eqn:E1; destruct (acc >? INT_MAX - amp - kr - vpc) eqn:E2;
      cbn [orb]; symmetry; lia.
  - intros Hfit. rewrite (wrap32_small (amp + kr + vpc)) by (unfold INT_MAX in *; lia).
    apply wrap32_small. unfold INT_MAX in *. lia.
Qed.

(* the chars-required loop, completely: the exact total if every item passes the per-item guard
   and the total does not exceed INT_MAX, otherwise the too-large code *)
Lemma required_loop_spec nb : forall ls first acc,
  lens_ok ls -> 0 <= acc <= INT_MAX ->
  required_loop nb first acc ls =
    if no_item_too_large nb ls && (acc + total_loop nb first ls <=? INT_MAX)
    then ZOk (acc + total_loop nb first ls) else ZErr URI_ERROR_OUTPUT_TOO_LARGE.
Proof.
  induction ls as [|[kl v] r IH]; intros first acc Hl Hacc.
  { cbn [required_loop total_loop no_item_too_large forallb andb].
    rewrite Z.add_0_r. destruct (acc <=? INT_MAX) eqn:E; [reflexivity|lia]. }
  inversion Hl as [|? ? [Hk Hv] Hr]; subst. cbn [fst snd] in Hk, Hv.
  cbn [no_item_too_large forallb fst snd required_loop total_loop].
  fold (no_item_too_large nb r).
  destruct (item_too_large nb kl (vlen_of v)) eqn:Etl; [reflexivity|]. cbn [negb andb].
  set (amp := if first then 0 else 1).
  set (kr := worst_case nb * kl) in *.
  set (vpc := match v with None => 0 | Some vl => 1 + worst_case nb * vl end).
  (* (the quantified induction hypothesis in the context makes lia diverge: instantiate it first) *)
  specialize (IH false (acc + (amp + kr + vpc)) Hr).
  pose proof (total_loop_nonneg nb r false Hr) as Ht. clear Hl Hr.
  assert (0 <= vlen_of v) as Hv0 by (destruct v; cbn [vlen_of]; lia).
  destruct (item_ok_bounds nb kl (vlen_of v) Hk Hv0 Etl) as [Bk Bv]. fold kr in Bk.
  (* valuePartChars: the addition 1 + valueRequiredChars does not wrap *)
  assert (match v with None => 0 | Some _ => int_add 1 (worst_case nb * vlen_of v) end = vpc) as ->.
  { unfold vpc. destruct v as [vl|]; [|reflexivity]. cbn [vlen_of] in *.
    unfold int_add. apply wrap32_small. unfold INT_MAX in *. lia. }
  assert (0 <= vpc <= INT_MAX - 2) as Bp.
  { unfold vpc. destruct v as [vl|]; cbn [vlen_of] in *; unfold INT_MAX in *; lia. }
  assert (0 <= amp <= 1) as Ba by (unfold amp; clear; destruct first; lia).
  clearbody amp kr vpc.
  destruct (required_step amp kr vpc acc Ba Bk Bp Hacc) as [Eg Eadd]. rewrite Eg.
  replace (acc + (amp + kr + vpc + total_loop nb false r))
    with (acc + (amp + kr + vpc) + total_loop nb false r) by ring.
  destruct (acc + (amp + kr + vpc) >? INT_MAX) eqn:Eover.
  - (* refused here: the total is above INT_MAX whatever follows *)
    destruct (acc + (amp + kr + vpc) + total_loop nb false r <=? INT_MAX) eqn:E; [lia|].
    rewrite andb_false_r. reflexivity.
  - rewrite Eadd by lia. apply IH. lia.
Qed.

(* uriComposeQueryCharsRequiredEx on lengths, for every non-empty list: the figure is the exact
   total and at most INT_MAX, or the call is refused with the too-large code; it is refused
   exactly when an item is beyond the per-item limit or the total is above INT_MAX *)
Theorem chars_required_len_no_wrap nb ls :
  ls <> [] -> lens_ok ls ->
  chars_required_len nb ls =
    if no_item_too_large nb ls && (total_size nb ls <=? INT_MAX)
    then ZOk (total_size nb ls) else ZErr URI_ERROR_OUTPUT_TOO_LARGE.
Proof.
  intros Hne Hl. unfold chars_required_len, total_size. destruct ls as [|it r]; [congruence|].
  rewrite required_loop_spec by (assumption || (unfold INT_MAX; lia)). reflexivity.
Qed.

Lemma chars_required_len_ok nb ls r :
  lens_ok ls -> chars_required_len nb ls = ZOk r ->
  no_item_too_large nb ls = true /\ r = total_size nb ls /\ 0 <= r <= INT_MAX.
Proof.
  intros Hl H. destruct ls as [|it ls']; [discriminate|].
  rewrite chars_required_len_no_wrap in H by (assumption || discriminate).
  pose proof (total_loop_nonneg nb _ true Hl) as Ht. fold (total_size nb (it :: ls')) in Ht.
  destruct (no_item_too_large nb (it :: ls')); [|discriminate]. cbn [andb] in H.
  destruct (total_size nb (it :: ls') <=? INT_MAX) eqn:E; [|discriminate].
  injection H as <-. repeat split; lia.
Qed.

(* the witness of the former finding D10 (one item, key = value = 715827881 characters,
   normalizeBreaks = false: every length passes the per-item guard, the total is 2^32 - 9; the
   unrepaired code answered success and -9) is refused *)
Definition d10_witness : list qlen := [(715827881, Some 715827881)].

Theorem former_wrap_witness_refused :
  lens_ok d10_witness /\ no_item_too_large false d10_witness = true
  /\ total_size false d10_witness = 4294967287
  /\ chars_required_len false d10_witness = ZErr URI_ERROR_OUTPUT_TOO_LARGE.
Proof.
  split. { repeat constructor; cbn; lia. }
  split; [vm_compute; reflexivity|]. split; vm_compute; reflexivity.
Qed.

(* =========================================================================== *)
(* 2. the composed text, the stores, the capacity                                 *)
(* =========================================================================== *)

(* the text the engine produces when nothing is refused *)
Fixpoint qtext (stp nb first : bool) (l : list qitem) : text :=
  match l with
  | [] => []
  | (k, v) :: r =>
    (if first then [] else [38%N]) ++ escape stp nb k
      ++ (match v with None => [] | Some t => 61%N :: escape stp nb t end)
      ++ qtext stp nb false r
  end.
Definition query_text (stp nb : bool) (l : list qitem) : text := qtext stp nb true l.

(* every store of the log has an index below [cap] *)
Definition log_below (cap : Z) (log : wlog) : Prop :=
  Forall (fun p : nat * N => Z.of_nat (fst p) < cap) log.

Lemma wr_cons w c t : wr w (c :: t) = (w, c) :: wr (S w) t.
Proof. reflexivity. Qed.

Lemma wr_below cap : forall t w, Z.of_nat w + Z.of_nat (length t) <= cap -> log_below cap (wr w t).
Proof.
  induction t as [|c t IH]; intros w H; [constructor|].
  rewrite wr_cons. cbn [length] in H. constructor; [cbn [fst]; lia|]. apply IH. lia.
Qed.

Lemma log_below_app cap a b : log_below cap a -> log_below cap b -> log_below cap (a ++ b).
Proof. intros Ha Hb. apply Forall_app. split; assumption. Qed.

Lemma escape_len_Z stp nb t : Z.of_nat (length (escape stp nb t)) <= worst_case nb * Z.of_nat (length t).
Proof. pose proof (escape_bound stp nb t) as H. destruct nb; cbn [worst_case]; lia. Qed.

Definition cres_inv (stp nb : bool) (maxc : Z) (first : bool) (out : text) (l : list qitem) (res : cres) : Prop :=
  match res with
  | COk out' w log' =>
    out' = out ++ qtext stp nb first l /\ w = Z.of_nat (length out') + 1
    /\ Z.of_nat (length out') <= maxc /\ log_below (maxc + 1) log'
    /\ no_item_too_large nb (map item_len l) = true
  | CErr c out' log' =>
    c = URI_ERROR_OUTPUT_TOO_LARGE /\ Z.of_nat (length out') <= maxc /\ log_below (maxc + 1) log'
    /\ exists s, out ++ qtext stp nb first l = out' ++ s
  end.

Lemma item_len_vlen k v :
  vlen_of (snd (item_len (k, v))) = match v with None => 0 | Some t => Z.of_nat (length t) end.
Proof. destruct v; reflexivity. Qed.

Lemma compose_loop_inv stp nb maxc : forall l first out log,
  Z.of_nat (length out) <= maxc -> log_below (maxc + 1) log ->
  cres_inv stp nb maxc first out l (compose_loop stp nb maxc first out log l).
Proof.
  induction l as [|[k v] r IH]; intros first out log Hout Hlog.
  { cbn [compose_loop cres_inv qtext map no_item_too_large forallb]. rewrite app_nil_r.
    repeat split; try lia. apply log_below_app; [assumption|]. apply wr_below. cbn [length]. lia. }
  cbn [compose_loop].
  set (kl := Z.of_nat (length k)).
  set (vl := match v with None => 0 | Some t => Z.of_nat (length t) end).
  destruct (item_too_large nb kl vl) eqn:Etl.
  { cbn [cres_inv]. repeat split; try assumption. eexists. reflexivity. }
  destruct (Z.of_nat (length out) + (if first then 0 else 1) + worst_case nb * kl >? maxc) eqn:Ek.
  { cbn [cres_inv]. repeat split; try assumption. eexists. reflexivity. }
  pose proof (escape_len_Z stp nb k) as Bk. fold kl in Bk. cbv zeta.
  match goal with |- context [ ?x ++ escape stp nb k ] => set (out1 := x) end.
  set (log1 := if first then log else log ++ wr (length out) [38%N]).
  assert (Z.of_nat (length out1) = Z.of_nat (length out) + (if first then 0 else 1)) as Lout1.
  { unfold out1. destruct first; [lia|]. rewrite app_length. cbn [length]. lia. }
  assert (log_below (maxc + 1) log1) as Hlog1.
  { unfold log1. destruct first; [assumption|]. apply log_below_app; [assumption|].
    apply wr_below. cbn [length]. pose proof (worst_case_pos nb). unfold kl in *. nia. }
  set (ek := escape stp nb k) in *.
  assert (Z.of_nat (length (out1 ++ ek)) <= maxc) as Lout2.
  { rewrite app_length. lia. }
  assert (log_below (maxc + 1) (log1 ++ wr (length out1) (ek ++ [0%N]))) as Hlog2.
  { apply log_below_app; [assumption|]. apply wr_below. rewrite app_length in *. cbn [length]. lia. }
  match goal with |- cres_inv _ _ _ _ _ ?L _ =>
  assert (out ++ qtext stp nb first L
          = (out1 ++ ek) ++ (match v with None => [] | Some t => 61%N :: escape stp nb t end) ++ qtext stp nb false r) as Etxt end.
  { cbn [qtext]. fold ek. unfold out1. destruct first; cbn [app]; rewrite <- ?app_assoc; reflexivity. }
  destruct v as [t|].
  - destruct (Z.of_nat (length (out1 ++ ek)) + 1 + worst_case nb * vl >? maxc) eqn:Ev.
    { cbn [cres_inv]. repeat split; try assumption. rewrite Etxt. eexists. reflexivity. }
    pose proof (escape_len_Z stp nb t) as Bt. fold vl in Bt.
    set (out3 := (out1 ++ ek) ++ [61%N]).
    assert (Z.of_nat (length out3) = Z.of_nat (length (out1 ++ ek)) + 1) as Lout3.
    { unfold out3. rewrite (app_length (out1 ++ ek)). cbn [length]. lia. }
    set (ev := escape stp nb t) in *.
    specialize (IH false (out3 ++ ev)
                   ((log1 ++ wr (length out1) (ek ++ [0%N])) ++ wr (length (out1 ++ ek)) [61%N]
                      ++ wr (length out3) (ev ++ [0%N]))).
    rewrite <- app_assoc.
    match type of IH with ?A -> ?B -> _ =>
      assert A as HA; [|assert B as HB; [|specialize (IH HA HB)]] end.
    { rewrite app_length. lia. }
    { apply log_below_app; [assumption|]. apply log_below_app.
      - apply wr_below. cbn [length]. pose proof (worst_case_pos nb). unfold vl in *. nia.
      - apply wr_below. rewrite app_length. cbn [length]. lia. }
    destruct (compose_loop stp nb maxc false (out3 ++ ev) _ r) as [c o lg|o w lg]; cbn [cres_inv] in *.
    + destruct IH as (Hc & Ho & Hlg & s & Es). repeat split; try assumption.
      exists s. rewrite Etxt. rewrite <- Es. unfold out3. rewrite <- !app_assoc. reflexivity.
    + destruct IH as (Ho & Hw & Hlen & Hlg & Hni). repeat split; try assumption.
      * rewrite Etxt, Ho. unfold out3. rewrite <- !app_assoc. reflexivity.
      * cbn [map no_item_too_large forallb]. rewrite item_len_vlen. cbn [item_len fst].
        fold kl. fold vl. rewrite Etl. exact Hni.
  - specialize (IH false (out1 ++ ek) (log1 ++ wr (length out1) (ek ++ [0%N])) Lout2 Hlog2).
    destruct (compose_loop stp nb maxc false (out1 ++ ek) _ r) as [c o lg|o w lg]; cbn [cres_inv] in *.
    + destruct IH as (Hc & Ho & Hlg & s & Es). repeat split; try assumption.
      exists s. rewrite Etxt. rewrite <- Es. cbn [app]. reflexivity.
    + destruct IH as (Ho & Hw & Hlen & Hlg & Hni). repeat split; try assumption.
      * rewrite Etxt, Ho. reflexivity.
      * cbn [map no_item_too_large forallb]. rewrite item_len_vlen. cbn [item_len fst].
        fold kl. fold vl. rewrite Etl. exact Hni.
Qed.

(* with room for the worst-case estimate of every item the engine does not refuse *)
Lemma compose_loop_succeeds stp nb maxc : forall l first out log,
  no_item_too_large nb (map item_len l) = true ->
  Z.of_nat (length out) + total_loop nb first (map item_len l) <= maxc ->
  exists o w lg, compose_loop stp nb maxc first out log l = COk o w lg.
Proof.
  induction l as [|[k v] r IH]; intros first out log Hn Hb.
  { cbn [compose_loop]. eauto. }
  cbn [map no_item_too_large forallb] in Hn. rewrite item_len_vlen in Hn. cbn [item_len fst] in Hn.
  apply andb_prop in Hn. destruct Hn as [Hn1 Hn2]. apply negb_true_iff in Hn1.
  cbn [compose_loop]. rewrite Hn1.
  cbn [map total_loop item_len fst snd option_map] in Hb.
  assert (lens_ok (map item_len r)) as Hlr.
  { apply Forall_forall. intros x Hx. apply in_map_iff in Hx. destruct Hx as [[k' v'] [<- _]].
    cbn. split; [lia|]. destruct v'; cbn; [lia|trivial]. }
  pose proof (total_loop_nonneg nb _ false Hlr) as Ht. pose proof (worst_case_pos nb) as Hw.
  pose proof (escape_len_Z stp nb k) as Bk.
  destruct (Z.of_nat (length out) + (if first then 0 else 1) + worst_case nb * Z.of_nat (length k) >? maxc) eqn:Ek.
  { exfalso. destruct v; cbn [option_map] in Hb; nia. }
  cbv zeta.
  match goal with |- context [ ?x ++ escape stp nb k ] => set (out1 := x) end.
  assert (Z.of_nat (length out1) = Z.of_nat (length out) + (if first then 0 else 1)) as Lout1.
  { unfold out1. destruct first; [lia|]. rewrite app_length. cbn [length]. lia. }
  destruct v as [t|]; cbn [option_map] in Hb.
  - pose proof (escape_len_Z stp nb t) as Bt.
    destruct (Z.of_nat (length (out1 ++ escape stp nb k)) + 1 + worst_case nb * Z.of_nat (length t) >? maxc) eqn:Ev.
    { exfalso. rewrite app_length in Ev. nia. }
    apply IH; [assumption|]. rewrite !app_length. cbn [length]. nia.
  - apply IH; [assumption|]. rewrite !app_length. nia.
Qed.

(* ---- uriComposeQueryEx ------------------------------------------------------------ *)
(* Whatever the capacity: every store has an index below maxChars; on success the text is
   the composed text, it fits with its terminator, and text length + 1 is reported; a refusal
   carries the too-large code (or the NULL code for a NULL argument). *)
Theorem compose_ex_fits dn stp nb cap l :
  match compose_ex dn stp nb cap l with
  | COk out w log =>
    out = query_text stp nb l /\ w = Z.of_nat (length out) + 1 /\ Z.of_nat (length out) + 1 <= cap
    /\ log_below cap log
  | CErr c out log =>
    log_below cap log /\ Z.of_nat (length out) <= Z.max 0 (cap - 1)
    /\ (exists s, query_text stp nb l = out ++ s)
    /\ (c = URI_ERROR_OUTPUT_TOO_LARGE \/ (c = URI_ERROR_NULL /\ (dn = true \/ l = [])))
  end.
Proof.
  unfold compose_ex. destruct l as [|it r].
  { split; [constructor|]. split; [cbn [length]; lia|]. split; [exists []; reflexivity|]. right. auto. }
  destruct dn.
  { split; [constructor|]. split; [cbn [length]; lia|]. split; [eexists; reflexivity|]. right. auto. }
  destruct (cap <? 1) eqn:Ec.
  { split; [constructor|]. split; [cbn [length]; lia|]. split; [eexists; reflexivity|]. left. reflexivity. }
  pose proof (compose_loop_inv stp nb (cap - 1) (it :: r) true [] []) as H.
  cbn [length] in H. specialize (H ltac:(lia) ltac:(constructor)).
  destruct (compose_loop stp nb (cap - 1) true [] [] (it :: r)) as [c o lg|o w lg]; cbn [cres_inv] in H.
  - destruct H as (Hc & Ho & Hlg & s & Es). replace (cap - 1 + 1) with cap in Hlg by lia.
    split; [assumption|]. split; [lia|]. split; [exists s; exact Es|]. left. exact Hc.
  - destruct H as (Ho & Hw & Hlen & Hlg & _). replace (cap - 1 + 1) with cap in Hlg by lia.
    repeat split; try assumption; try lia.
Qed.

Lemma map_item_len_ok l : lens_ok (map item_len l).
Proof.
  apply Forall_forall. intros x Hx. apply in_map_iff in Hx. destruct Hx as [[k' v'] [<- _]].
  cbn. split; [lia|]. destruct v'; cbn; [lia|trivial].
Qed.

(* the chars-required figure (+1 for the terminator) is always enough, and the text is no longer *)
Theorem chars_required_sufficient stp nb l r :
  chars_required stp nb l = ZOk r ->
  forall cap, r + 1 <= cap ->
  exists log, compose_ex false stp nb cap l
              = COk (query_text stp nb l) (Z.of_nat (length (query_text stp nb l)) + 1) log
  /\ Z.of_nat (length (query_text stp nb l)) <= r.
Proof.
  intros Hr cap Hcap. unfold chars_required in Hr.
  pose proof (map_item_len_ok l) as Hl.
  destruct (chars_required_len_ok nb _ r Hl Hr) as (Hn & Er & Hr0 & Hrmax).
  destruct l as [|it l']; [discriminate|]. unfold total_size in Er.
  destruct (compose_loop_succeeds stp nb (cap - 1) (it :: l') true [] [] Hn) as (o & w & lg & E).
  { cbn [length]. lia. }
  pose proof (compose_loop_inv stp nb r (it :: l') true [] []) as Hr_inv.
  destruct (compose_loop_succeeds stp nb r (it :: l') true [] [] Hn) as (o' & w' & lg' & E').
  { cbn [length]. lia. }
  cbn [length] in Hr_inv. specialize (Hr_inv ltac:(lia) ltac:(constructor)). rewrite E' in Hr_inv.
  cbn [cres_inv] in Hr_inv. destruct Hr_inv as (Ho' & _ & Hlen' & _).
  pose proof (compose_ex_fits false stp nb cap (it :: l')) as F.
  unfold compose_ex in *. destruct (cap <? 1) eqn:Ec; [lia|]. rewrite E in *.
  destruct F as (Fo & Fw & _ & _). subst o w. exists lg. split; [reflexivity|].
  cbn [app] in Ho'. unfold query_text. rewrite <- Ho'. exact Hlen'.
Qed.

(* =========================================================================== *)
(* 3. the composed text is a legal query                                          *)
(* =========================================================================== *)
Local Open Scope N_scope.

Lemma query_legal_app a b : query_legal a = true -> query_legal b = true -> query_legal (a ++ b) = true.
Proof.
  revert a. fix IH 1. intros a Ha Hb. destruct a as [|c r]; [exact Hb|].
  cbn [app query_legal] in *.
  destruct (c =? 37).
  - destruct r as [|x [|y r2]]; try discriminate. cbn [app].
    apply andb_prop in Ha. destruct Ha as [Ha1 Ha2]. rewrite Ha1. cbn [andb]. apply IH; assumption.
  - apply andb_prop in Ha. destruct Ha as [Ha1 Ha2]. rewrite Ha1. cbn [andb]. apply IH; assumption.
Qed.

Lemma upper_hexdig_hexdig c : is_upper_hexdig c = true -> is_hexdig c = true.
Proof. unfold is_upper_hexdig, is_hexdig. intros H. apply orb_true_iff in H. destruct H as [-> | ->]; [reflexivity|]. rewrite orb_true_r. reflexivity. Qed.

Lemma escaped_form_query_legal pa : forall l, escaped_form pa l = true -> query_legal l = true.
Proof.
  fix IH 1. intros l H. destruct l as [|c r]; [reflexivity|].
  cbn [escaped_form query_legal] in *.
  destruct (c =? 37) eqn:E.
  - destruct r as [|a [|b r2]]; try discriminate.
    apply andb_prop in H. destruct H as [H H3]. apply andb_prop in H. destruct H as [H1 H2].
    rewrite (upper_hexdig_hexdig _ H1), (upper_hexdig_hexdig _ H2). cbn [andb]. apply IH. exact H3.
  - apply andb_prop in H. destruct H as [H1 H2]. rewrite (IH _ H2). rewrite andb_true_r.
    clear IH H2. unfold is_query_plain, is_pchar_plain, is_subdelim. destruct pa; cbn [andb] in H1; lia.
Qed.

Lemma qtext_legal stp nb : forall l first, query_legal (qtext stp nb first l) = true.
Proof.
  induction l as [|[k v] r IH]; intros first; [reflexivity|].
  cbn [qtext]. apply query_legal_app; [destruct first; reflexivity|].
  apply query_legal_app; [apply (escaped_form_query_legal stp), escape_charset|].
  apply query_legal_app; [|apply IH].
  destruct v as [t|]; [|reflexivity].
  change (61 :: escape stp nb t) with ([61] ++ escape stp nb t).
  apply query_legal_app; [reflexivity|]. apply (escaped_form_query_legal stp), escape_charset.
Qed.

Theorem compose_query_legal dn stp nb cap l out w log :
  compose_ex dn stp nb cap l = COk out w log -> query_legal out = true.
Proof.
  intros H. pose proof (compose_ex_fits dn stp nb cap l) as F. rewrite H in F.
  destruct F as (-> & _). apply qtext_legal.
Qed.

(* =========================================================================== *)
(* 4. dissecting the composed text                                                *)
(* =========================================================================== *)
Definition no_amp_eq (s : text) : Prop := Forall (fun c => c <> 38 /\ c <> 61) s.

Lemma escape_no_amp_eq stp nb t : no_amp_eq (escape stp nb t).
Proof.
  apply Forall_forall. intros c Hc. apply escape_char_in in Hc. apply esc_char_not_special in Hc. tauto.
Qed.

Lemma walk_key pts bc : forall s rest kfn kr acc cnt, no_amp_eq s ->
  dissect_walk pts bc (s ++ rest) kfn kr None acc cnt
  = dissect_walk pts bc rest kfn (rev s ++ kr) None acc cnt.
Proof.
  induction s as [|c s IH]; intros rest kfn kr acc cnt H; [reflexivity|].
  inversion H as [|? ? [H1 H2] Hs]; subst. cbn [app dissect_walk].
  destruct (c =? 38) eqn:E1; [lia|]. destruct (c =? 61) eqn:E2; [lia|].
  rewrite IH by assumption. cbn [rev]. rewrite <- app_assoc. reflexivity.
Qed.

Lemma walk_val pts bc : forall s rest kfn kr vr acc cnt, no_amp_eq s ->
  dissect_walk pts bc (s ++ rest) kfn kr (Some vr) acc cnt
  = dissect_walk pts bc rest kfn kr (Some (rev s ++ vr)) acc cnt.
Proof.
  induction s as [|c s IH]; intros rest kfn kr vr acc cnt H; [reflexivity|].
  inversion H as [|? ? [H1 H2] Hs]; subst. cbn [app dissect_walk].
  destruct (c =? 38) eqn:E1; [lia|]. destruct (c =? 61) eqn:E2; [lia|].
  rewrite IH by assumption. cbn [rev]. rewrite <- app_assoc. reflexivity.
Qed.

Definition item_1_255 (it : qitem) : Prop :=
  all_1_255 (fst it) /\ match snd it with None => True | Some t => all_1_255 t end.
Definition items_1_255 (l : list qitem) : Prop := Forall item_1_255 l.

Section RoundTrip.
Variables stp nb pts : bool.
Hypothesis Hmatch : stp = true -> pts = true.

Definition vpart (v : option text) : text :=
  match v with None => [] | Some t => 61 :: escape stp nb t end.

Lemma qtext_cons first k v r :
  qtext stp nb first ((k, v) :: r)
  = (if first then [] else [38]) ++ escape stp nb k ++ vpart v ++ qtext stp nb false r.
Proof. reflexivity. Qed.

(* one item, read from a fresh state *)
Lemma walk_item k v rest kfn acc cnt :
  (kfn = true -> escape stp nb k ++ vpart v ++ rest = []) ->
  dissect_walk pts BrDontTouch (escape stp nb k ++ vpart v ++ rest) kfn [] None acc cnt
  = dissect_walk pts BrDontTouch rest kfn (rev (escape stp nb k))
      (option_map (fun t => rev (escape stp nb t)) v) acc cnt.
Proof.
  intros Hk. destruct kfn.
  - specialize (Hk eq_refl). apply app_eq_nil in Hk. destruct Hk as [E1 E2].
    apply app_eq_nil in E2. destruct E2 as [E2 E3]. rewrite E1, E2, E3.
    destruct v; [discriminate|]. reflexivity.
  - rewrite walk_key by apply escape_no_amp_eq. rewrite app_nil_r.
    destruct v as [t|]; cbn [vpart option_map app]; [|reflexivity].
    cbn [dissect_walk]. change (61 =? 38) with false. change (61 =? 61) with true. cbv iota.
    rewrite walk_val by apply escape_no_amp_eq. rewrite app_nil_r. reflexivity.
Qed.

Lemma decode_escape t : all_1_255 t ->
  cstr (unescape pts BrDontTouch (escape stp nb t)) = norm_text nb t.
Proof.
  intros H. rewrite unescape_escape by assumption. unfold cstr, norm_text.
  apply until_nul_id. apply all_1_255_nonzero. destruct nb; [apply crlf_from_1_255|]; assumption.
Qed.

(* the expected list, computed item by item *)
Fixpoint rt (l : list qitem) : list qitem :=
  match l with
  | [] => []
  | it :: r => (if nonvanishing it then [norm_item nb it] else []) ++ rt r
  end.

Lemma rt_eq l : rt l = roundtrip_expect nb l.
Proof.
  unfold roundtrip_expect. induction l as [|it r IH]; [reflexivity|].
  cbn [rt filter]. destruct (nonvanishing it); cbn [map app]; rewrite IH; reflexivity.
Qed.

Lemma append_item_item k v acc cnt : item_1_255 (k, v) ->
  append_item pts BrDontTouch false (rev (escape stp nb k))
              (option_map (fun t => rev (escape stp nb t)) v) acc cnt
  = (rev (rt [(k, v)]) ++ acc, (cnt + Z.of_nat (length (rt [(k, v)])))%Z).
Proof.
  intros [Hk Hv]. cbn [fst snd] in *. unfold append_item.
  destruct v as [t|]; cbn [option_map].
  - assert (rt [(k, Some t)] = [(norm_text nb k, Some (norm_text nb t))]) as ->.
    { destruct k; reflexivity. }
    destruct (rev (escape stp nb k)) eqn:Er.
    + rewrite <- Er. rewrite !rev_involutive. rewrite !decode_escape by assumption. reflexivity.
    + rewrite <- Er. rewrite !rev_involutive. rewrite !decode_escape by assumption. reflexivity.
  - destruct k as [|c k'].
    + change (escape stp nb []) with (@nil N). cbn [rev rt nonvanishing app length].
      f_equal. lia.
    + cbn [rt nonvanishing norm_item fst snd option_map rev app length].
      destruct (rev (escape stp nb (c :: k'))) eqn:Er.
      * exfalso. apply (f_equal (@rev N)) in Er. rewrite rev_involutive in Er. cbn [rev] in Er.
        apply escape_nil_iff in Er; [discriminate|]. apply all_1_255_nonzero. assumption.
      * rewrite <- Er. rewrite !rev_involutive. rewrite decode_escape by assumption. reflexivity.
Qed.

Lemma rt_cons it l : rt (it :: l) = rt [it] ++ rt l.
Proof. cbn [rt]. rewrite app_nil_r. reflexivity. Qed.

Lemma qtext_false_nil l : qtext stp nb false l = [] -> l = [].
Proof. destruct l as [|[k v] r]; [reflexivity|]. cbn [qtext app]. discriminate. Qed.

(* the items after the first one, read from the state left by the item before *)
Lemma walk_tail : forall l kr vr acc cnt, items_1_255 l ->
  dissect_walk pts BrDontTouch (qtext stp nb false l) false kr vr acc cnt
  = let '(acc', cnt') := append_item pts BrDontTouch false kr vr acc cnt in
    (rev acc' ++ rt l, (cnt' + Z.of_nat (length (rt l)))%Z).
Proof.
  induction l as [|[k v] l IH]; intros kr vr acc cnt Hall.
  { cbn [qtext dissect_walk]. destruct (append_item pts BrDontTouch false kr vr acc cnt) as [acc' cnt'].
    cbn [rt length]. rewrite app_nil_r. f_equal. lia. }
  inversion Hall as [|? ? Hit Hl]; subst.
  rewrite qtext_cons. cbn [app dissect_walk]. change (38 =? 38) with true. cbv iota.
  destruct (append_item pts BrDontTouch false kr vr acc cnt) as [acc' cnt'].
  destruct (escape stp nb k ++ vpart v ++ qtext stp nb false l) eqn:Et.
  - (* nothing follows the '&': keyFirst is NULL *)
    apply app_eq_nil in Et. destruct Et as [E1 E2]. apply app_eq_nil in E2. destruct E2 as [E2 E3].
    apply qtext_false_nil in E3. subst l.
    apply escape_nil_iff in E1; [|apply all_1_255_nonzero; apply Hit]. subst k.
    destruct v; [discriminate|]. cbn [dissect_walk append_item].
    cbn [rt nonvanishing app length]. rewrite app_nil_r. f_equal. lia.
  - rewrite <- Et. rewrite walk_item by discriminate. rewrite IH by assumption.
    rewrite append_item_item by assumption.
    rewrite (rt_cons (k, v) l). rewrite rev_app_distr, rev_involutive.
    rewrite <- app_assoc. rewrite app_length. f_equal. rewrite Nat2Z.inj_add, Z.add_assoc. reflexivity.
Qed.

Lemma dissect_query_text l : l <> [] -> items_1_255 l ->
  dissect pts BrDontTouch (query_text stp nb l)
  = DOk (roundtrip_expect nb l) (Z.of_nat (length (roundtrip_expect nb l))).
Proof.
  intros Hne Hall. rewrite <- rt_eq.
  destruct l as [|[k v] l]; [congruence|]. inversion Hall as [|? ? Hit Hl]; subst.
  unfold dissect, query_text. rewrite qtext_cons. cbn [app].
  rewrite walk_item by discriminate. rewrite walk_tail by assumption.
  rewrite append_item_item by assumption.
  rewrite (rt_cons (k, v) l). rewrite app_nil_r, rev_involutive. rewrite app_length.
  f_equal. rewrite Nat2Z.inj_add. reflexivity.
Qed.
End RoundTrip.

(* composing and dissecting with matching options gives the list back: items with an empty key
   and no value vanish, line breaks are CR LF if normalisation was requested *)
Theorem compose_dissect_roundtrip stp nb pts cap l out w log :
  (stp = true -> pts = true) -> items_1_255 l ->
  compose_ex false stp nb cap l = COk out w log ->
  dissect pts BrDontTouch out
  = DOk (roundtrip_expect nb l) (Z.of_nat (length (roundtrip_expect nb l))).
Proof.
  intros Hm Hall H. pose proof (compose_ex_fits false stp nb cap l) as F. rewrite H in F.
  destruct F as (-> & _). apply dissect_query_text; try assumption.
  intros ->. discriminate.
Qed.

(* =========================================================================== *)
(* 5. uriComposeQueryMallocExMm                                                   *)
(* =========================================================================== *)
Local Open Scope Z_scope.

(* the allocating variant, completely: it refuses exactly when the chars-required pass refuses
   (an oversized item, a total above INT_MAX), reports the allocation code for a total of exactly
   INT_MAX or when calloc does not grant total + 1 elements, and otherwise returns the composed
   text; the count handed to calloc is total + 1 <= INT_MAX, never a wrapped one *)
Theorem compose_malloc_no_wrap cm stp nb l :
  l <> [] ->
  compose_malloc cm stp nb l =
    if negb (no_item_too_large nb (map item_len l) && (total_size nb (map item_len l) <=? INT_MAX))
    then MErr URI_ERROR_OUTPUT_TOO_LARGE
    else if total_size nb (map item_len l) =? INT_MAX then MErr URI_ERROR_MALLOC
    else if total_size nb (map item_len l) + 1 >? cm then MErr URI_ERROR_MALLOC
    else MOk (query_text stp nb l).
Proof.
  intros Hne. unfold compose_malloc.
  pose proof (map_item_len_ok l) as Hl.
  assert (map item_len l <> []) as Hne' by (destruct l; [congruence|discriminate]).
  pose proof (chars_required_len_no_wrap nb _ Hne' Hl) as Hr.
  unfold chars_required at 1. rewrite Hr.
  destruct (no_item_too_large nb (map item_len l) && (total_size nb (map item_len l) <=? INT_MAX)) eqn:En;
    cbn [negb]; [|reflexivity].
  apply andb_prop in En. destruct En as [En Hmax].
  pose proof (total_loop_nonneg nb _ true Hl) as Ht. fold (total_size nb (map item_len l)) in Ht.
  remember (total_size nb (map item_len l)) as r eqn:Er.
  destruct (r =? INT_MAX) eqn:Ei; [reflexivity|].
  rewrite Z.mod_small by (unfold INT_MAX in *; lia).
  destruct (r + 1 >? cm) eqn:Ec; [reflexivity|].
  assert (chars_required stp nb l = ZOk r) as Hcr by exact Hr.
  destruct (chars_required_sufficient stp nb l r Hcr (r + 1) ltac:(lia)) as (lg & E & _).
  rewrite E. reflexivity.
Qed.

(* =========================================================================== *)
(* 6. the destination buffer after the stores                                     *)
(* =========================================================================== *)
Lemma apply_log_app buf a b : apply_log buf (a ++ b) = apply_log (apply_log buf a) b.
Proof. revert buf. induction a as [|[i c] a IH]; intros buf; [reflexivity|]. cbn [app apply_log]. apply IH. Qed.

Lemma bset_length : forall buf i v, length (bset buf i v) = length buf.
Proof. induction buf as [|x buf IH]; intros i v; [reflexivity|]. destruct i; cbn [bset length]; [reflexivity|]. now rewrite IH. Qed.

Lemma apply_log_length : forall log buf, length (apply_log buf log) = length buf.
Proof. induction log as [|[i c] log IH]; intros buf; [reflexivity|]. cbn [apply_log]. rewrite IH. apply bset_length. Qed.

(* storing t at index |p| of a buffer  p ++ q  with room for t *)
Lemma apply_wr : forall t p q, (length t <= length q)%nat ->
  apply_log (p ++ q) (wr (length p) t) = p ++ t ++ skipn (length t) q.
Proof.
  induction t as [|c t IH]; intros p q H; [reflexivity|].
  destruct q as [|x q]; [cbn [length] in H; lia|].
  rewrite wr_cons. cbn [apply_log].
  assert (bset (p ++ x :: q) (length p) c = (p ++ [c]) ++ q) as ->.
  { clear. induction p as [|y p IHp]; [reflexivity|]. cbn [app length bset]. now rewrite IHp. }
  replace (S (length p)) with (length (p ++ [c])) by (rewrite app_length; cbn [length]; lia).
  rewrite IH by (cbn [length] in H; lia). rewrite <- app_assoc. reflexivity.
Qed.

(* invariant: after the stores so far the buffer starts with [out] *)
Definition buf_has (n : nat) (out : text) (log : wlog) (buf : text) : Prop :=
  exists q, apply_log buf log = out ++ q /\ length (out ++ q) = n.

Lemma buf_has_wr n out log buf t : buf_has n out log buf -> (length out + length t <= n)%nat ->
  buf_has n (out ++ t) (log ++ wr (length out) t) buf.
Proof.
  intros (q & E & L) H. rewrite app_length in L.
  exists (skipn (length t) q). rewrite apply_log_app, E. rewrite apply_wr by lia.
  rewrite <- app_assoc. split; [reflexivity|]. rewrite !app_length, skipn_length. lia.
Qed.

(* a store sequence t ++ [0] leaves out ++ t in front (the terminator is beyond it) *)
Lemma buf_has_wr_term n out log buf t : buf_has n out log buf -> (length out + length t + 1 <= n)%nat ->
  buf_has n (out ++ t) (log ++ wr (length out) (t ++ [0%N])) buf.
Proof.
  intros Hb H. pose proof (buf_has_wr n out log buf (t ++ [0%N]) Hb) as W.
  rewrite app_length in W. cbn [length] in W. specialize (W ltac:(lia)).
  destruct W as (q & E & L). exists (0%N :: q). rewrite E. rewrite <- !app_assoc. cbn [app].
  split; [reflexivity|]. rewrite <- L. rewrite <- !app_assoc. reflexivity.
Qed.

Lemma compose_loop_buffer stp nb maxc n buf : forall l first out log,
  Z.of_nat n = maxc + 1 -> Z.of_nat (length out) <= maxc -> buf_has n out log buf ->
  match compose_loop stp nb maxc first out log l with
  | COk out' _ log' => buf_has n (out' ++ [0%N]) log' buf
  | CErr _ out' log' => buf_has n out' log' buf
  end.
Proof.
  induction l as [|[k v] r IH]; intros first out log Hn Hout Hb.
  { cbn [compose_loop]. apply buf_has_wr; [assumption|]. cbn [length]. lia. }
  cbn [compose_loop].
  destruct (item_too_large nb _ _); [assumption|].
  destruct (_ >? maxc) eqn:Ek; [assumption|]. cbv zeta.
  pose proof (escape_len_Z stp nb k) as Bk. pose proof (worst_case_pos nb) as Hw.
  match goal with |- context [ ?x ++ escape stp nb k ] => set (out1 := x) in * end.
  match goal with |- context [ ?x ++ wr (length out1) _ ] => set (log1 := x) in * end.
  assert (Z.of_nat (length out1) = Z.of_nat (length out) + (if first then 0 else 1)) as Lout1.
  { unfold out1. destruct first; [lia|]. rewrite app_length. cbn [length]. lia. }
  assert (buf_has n out1 log1 buf) as Hb1.
  { unfold out1, log1. destruct first; [assumption|]. apply buf_has_wr; [assumption|]. cbn [length]. nia. }
  assert (buf_has n (out1 ++ escape stp nb k) (log1 ++ wr (length out1) (escape stp nb k ++ [0%N])) buf) as Hb2.
  { apply buf_has_wr_term; [assumption|]. lia. }
  assert (Z.of_nat (length (out1 ++ escape stp nb k)) <= maxc) as Lout2 by (rewrite app_length; lia).
  destruct v as [t|].
  - destruct (Z.of_nat (length (out1 ++ escape stp nb k)) + 1 + _ >? maxc) eqn:Ev; [assumption|].
    pose proof (escape_len_Z stp nb t) as Bt.
    apply IH; [assumption| |].
    + rewrite !app_length in *. cbn [length]. lia.
    + apply buf_has_wr_term.
      * apply buf_has_wr; [assumption|]. cbn [length]. nia.
      * rewrite !app_length in *. cbn [length]. lia.
  - apply IH; assumption.
Qed.

(* on success the buffer holds the text and its terminator in cells 0 .. length, whatever it
   held before and however large (>= maxChars) it is *)
Theorem compose_ex_buffer stp nb cap l out w log buf :
  compose_ex false stp nb cap l = COk out w log -> Z.of_nat (length buf) = cap ->
  firstn (length out + 1) (apply_log buf log) = out ++ [0%N].
Proof.
  unfold compose_ex. destruct l as [|it r]; [discriminate|].
  destruct (cap <? 1) eqn:Ec; [discriminate|]. intros H Hlen.
  pose proof (compose_loop_buffer stp nb (cap - 1) (length buf) buf (it :: r) true [] []) as B.
  rewrite H in B. cbn [length] in B.
  destruct B as (q & E & L); [lia|lia| |].
  { exists buf. split; reflexivity. }
  rewrite E. replace (length out + 1)%nat with (length (out ++ [0%N])) by (rewrite app_length; reflexivity).
  rewrite firstn_app, Nat.sub_diag, firstn_all. cbn [firstn]. apply app_nil_r.
Qed.

(* =========================================================================== *)
(* 7. dissecting any text = cutting at '&', then at the first '='                  *)
(* =========================================================================== *)
Local Open Scope N_scope.

Section Splitting.
Variables (pts : bool) (bc : break_conv).
Let un (t : text) : text := cstr (unescape pts bc t).

(* the scan inside one piece (no '&') *)
Fixpoint consume (p : text) (kr : text) (vr : option text) : text * option text :=
  match p with
  | [] => (kr, vr)
  | c :: r =>
    if c =? 61 then
      match vr with None => consume r kr (Some []) | Some v => consume r kr (Some (c :: v)) end
    else
      match vr with None => consume r (c :: kr) None | Some v => consume r kr (Some (c :: v)) end
  end.

Definition state_item (s : text * option text) : list qitem :=
  match s with
  | ([], None) => []
  | (kr, vr) => [(un (rev kr), option_map (fun v => un (rev v)) vr)]
  end.

Lemma consume_some : forall p kr v, consume p kr (Some v) = (kr, Some (rev p ++ v)).
Proof.
  induction p as [|c p IH]; intros kr v; [reflexivity|]. cbn [consume rev].
  rewrite <- app_assoc. destruct (c =? 61); apply IH.
Qed.

Lemma consume_none : forall p kr,
  consume p kr None = let '(k, v) := cut_first 61 p in (rev k ++ kr, option_map (@rev N) v).
Proof.
  induction p as [|c p IH]; intros kr; [reflexivity|]. cbn [consume cut_first].
  destruct (c =? 61).
  - rewrite consume_some. rewrite app_nil_r. reflexivity.
  - rewrite IH. destruct (cut_first 61 p) as [k v]. cbn [rev]. rewrite <- app_assoc. reflexivity.
Qed.

Lemma cut_first_nil p : cut_first 61 p = ([], None) -> p = [].
Proof.
  destruct p as [|c p]; [reflexivity|]. cbn [cut_first]. destruct (c =? 61); [discriminate|].
  destruct (cut_first 61 p). discriminate.
Qed.

Lemma piece_item_state p : piece_item un p = state_item (consume p [] None).
Proof.
  rewrite consume_none. unfold piece_item. destruct p as [|c p]; [reflexivity|].
  destruct (cut_first 61 (c :: p)) as [k v] eqn:E. rewrite app_nil_r. unfold state_item.
  destruct (rev k) eqn:Ek.
  - apply (f_equal (@rev N)) in Ek. rewrite rev_involutive in Ek. cbn [rev] in Ek. subst k.
    destruct v as [v|]; cbn [option_map].
    + rewrite rev_involutive. reflexivity.
    + apply cut_first_nil in E. discriminate.
  - rewrite <- Ek. rewrite rev_involutive. f_equal. f_equal.
    destruct v as [v|]; cbn [option_map]; [rewrite rev_involutive|]; reflexivity.
Qed.

Lemma split_at_nonnil l : split_at 38 l <> [].
Proof. destruct l as [|c r]; [discriminate|]. cbn [split_at]. destruct (c =? 38); [discriminate|]. destruct (split_at 38 r); discriminate. Qed.

Lemma append_item_state kr vr acc cnt :
  append_item pts bc false kr vr acc cnt
  = (rev (state_item (kr, vr)) ++ acc, (cnt + Z.of_nat (length (state_item (kr, vr))))%Z).
Proof.
  unfold append_item, state_item. destruct kr; destruct vr; cbn [rev app length]; f_equal; lia.
Qed.

Lemma walk_split : forall l kfn kr vr acc cnt,
  (kfn = true -> l = [] /\ kr = [] /\ vr = None) ->
  dissect_walk pts bc l kfn kr vr acc cnt =
  match split_at 38 l with
  | [] => (rev acc, cnt)
  | p :: ps =>
    let its := state_item (consume p kr vr) ++ flat_map (piece_item un) ps in
    (rev acc ++ its, (cnt + Z.of_nat (length its))%Z)
  end.
Proof.
  induction l as [|c r IH]; intros kfn kr vr acc cnt Hk.
  { cbn [dissect_walk split_at consume flat_map]. cbv zeta. rewrite app_nil_r.
    destruct kfn.
    - destruct (Hk eq_refl) as (_ & -> & ->). cbn. rewrite app_nil_r. f_equal. lia.
    - rewrite append_item_state. rewrite rev_app_distr, rev_involutive. reflexivity. }
  assert (kfn = false) as -> by (destruct kfn; [destruct (Hk eq_refl) as [? _]; discriminate|reflexivity]).
  cbn [dissect_walk split_at].
  destruct (c =? 38) eqn:E38.
  - rewrite append_item_state. cbn [consume]. rewrite IH.
    + pose proof (split_at_nonnil r) as Hn. destruct (split_at 38 r) as [|p ps]; [congruence|].
      cbn [flat_map]. cbv zeta. rewrite piece_item_state.
      rewrite rev_app_distr, rev_involutive. rewrite <- !app_assoc. rewrite !app_length.
      f_equal. rewrite !Nat2Z.inj_add. rewrite !Z.add_assoc. reflexivity.
    + intros Hm. destruct r; [auto|discriminate].
  - pose proof (split_at_nonnil r) as Hn.
    destruct (split_at 38 r) as [|p ps]; [congruence|].
    cbn [consume].
    destruct (c =? 61); destruct vr as [v|]; rewrite IH by discriminate; reflexivity.
Qed.

Theorem dissect_splits l :
  dissect pts bc l
  = DOk (dissect_with un l) (Z.of_nat (length (dissect_with un l))).
Proof.
  unfold dissect, dissect_with. rewrite walk_split by discriminate.
  pose proof (split_at_nonnil l) as Hn. destruct (split_at 38 l) as [|p ps]; [congruence|].
  cbv zeta. cbn [flat_map rev app]. rewrite piece_item_state. reflexivity.
Qed.
End Splitting.
