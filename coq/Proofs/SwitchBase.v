(* Switch tables translated from the C sources (Generated/SwitchTables.v, regenerated from the tree on
   every check): the generic part.  The group of a code point in a table, the finite sweep (0..255, and
   256 standing for every wider code point: labels are checked to be below 256), a list of code points
   against a predicate of Base/Chars.v, refinement of a table by a class function.  No statement about
   the generated data here: those are in SwitchRefine.v (parser), SwitchEscape.v, SwitchQuery.v,
   SwitchUnreserved.v, so that a changed switch breaks the obligations of its own property only. *)
From Coq Require Import List NArith PeanoNat Bool Lia String ZifyBool ZifyN.
From UP Require Import Base.Chars Base.Regex Base.Atoms Generated.SwitchTables.
Import ListNotations.
Local Open Scope N_scope.

(* ---- the group of a code point --------------------------------------------------------------- *)
(* index of the listed group that contains c; None: the remaining (default) group *)
Fixpoint group_of (g : list (list N)) (c : N) : option nat :=
  match g with
  | [] => None
  | l :: r => if mem c l then Some O else option_map S (group_of r c)
  end.

Definition og_eqb (a b : option nat) : bool :=
  match a, b with
  | None, None => true
  | Some x, Some y => Nat.eqb x y
  | _, _ => false
  end.

Lemma og_eqb_eq a b : og_eqb a b = true <-> a = b.
Proof.
  destruct a as [x|], b as [y|]; cbn [og_eqb]; split; intros H; try discriminate; auto.
  - apply Nat.eqb_eq in H. subst. reflexivity.
  - inversion H. apply Nat.eqb_refl.
Qed.

Definition labels_small (g : list (list N)) : bool := forallb (forallb (fun c => c <? 256)) g.

Lemma mem_small l c : forallb (fun c => c <? 256) l = true -> 256 <= c -> mem c l = false.
Proof.
  induction l as [|x r IH]; intros H Hc; [reflexivity|].
  cbn [forallb] in H. apply andb_true_iff in H. destruct H as [Hx Hr].
  cbn [mem]. rewrite (IH Hr Hc). destruct (c =? x) eqn:E; [lia|reflexivity].
Qed.

Lemma group_of_big g c : labels_small g = true -> 256 <= c -> group_of g c = None.
Proof.
  induction g as [|l r IH]; intros H Hc; [reflexivity|].
  unfold labels_small in H. cbn [forallb] in H. apply andb_true_iff in H. destruct H as [Hl Hr].
  cbn [group_of]. rewrite (mem_small _ _ Hl Hc). rewrite (IH Hr Hc). reflexivity.
Qed.

(* the sweep: 0..255 and 256 for everything above *)
Definition sweep : list N := nrange 0 257.

Lemma In_sweep c : c <= 256 -> In c sweep.
Proof. intros H. apply In_nrange; lia. Qed.


(* ---- looking a table up by name --------------------------------------------------------------- *)
Definition table (name : string) : list (list N) :=
  match find (fun t => String.eqb (fst t) name) switch_tables with
  | Some t => snd t
  | None => []
  end.
Definition has_table (name : string) : bool := existsb (fun t => String.eqb (fst t) name) switch_tables.


(* ---- a list of code points against a predicate of Base/Chars.v -------------------------------- *)
Definition set_is (l : list N) (p : N -> bool) : bool :=
  forallb (fun c => c <? 256) l && forallb (fun c => Bool.eqb (mem c l) (p c)) sweep.

Lemma set_is_sound l p : (forall c, 256 <= c -> p c = false) -> set_is l p = true ->
  forall c, In c l <-> p c = true.
Proof.
  intros Hp H c. unfold set_is in H. apply andb_true_iff in H. destruct H as [Hs Hf].
  rewrite <- mem_In. rewrite forallb_forall in Hf.
  destruct (N.le_gt_cases c 256) as [Hc|Hc].
  - specialize (Hf c (In_sweep c Hc)). apply Bool.eqb_prop in Hf. rewrite Hf. tauto.
  - rewrite (mem_small l c Hs) by lia. rewrite (Hp c) by lia. tauto.
Qed.

(* the range tests of Chars.v are false above 255 (indeed above 126) *)
Lemma is_digit_big c : 256 <= c -> is_digit c = false.
Proof. unfold is_digit, in_range. lia. Qed.
Lemma is_alpha_big c : 256 <= c -> is_alpha c = false.
Proof. unfold is_alpha, is_upper, is_lower, in_range. lia. Qed.
Lemma is_hex_upper_big c : 256 <= c -> is_hex_upper c = false.
Proof. unfold is_hex_upper, in_range. lia. Qed.
Lemma is_hex_lower_big c : 256 <= c -> is_hex_lower c = false.
Proof. unfold is_hex_lower, in_range. lia. Qed.
Lemma is_hexdig_big c : 256 <= c -> is_hexdig c = false.
Proof. unfold is_hexdig, is_digit, is_hex_upper, is_hex_lower, in_range. lia. Qed.
Lemma is_unreserved_big c : 256 <= c -> is_unreserved c = false.
Proof. unfold is_unreserved, is_unres_mark, is_alpha, is_upper, is_lower, is_digit, in_range. lia. Qed.

(* the URI_SET_* macros of UriParse.c, expanded from their #define text, are the model's classes *)

(* ---- refinement by an arbitrary class function (for the files that do not use the atoms) ------- *)
(* characters of one class are in one group (quadratic sweep; used for a few small tables) *)
Definition refines_cls (cls : N -> N) (g : list (list N)) : bool :=
  let ps := map (fun c => (cls c, group_of g c)) sweep in          (* once per table *)
  labels_small g
  && forallb (fun p => forallb (fun q => implb (fst p =? fst q) (og_eqb (snd p) (snd q))) ps) ps.

Lemma refines_cls_sound cls g : (forall c, 256 <= c -> cls c = cls 256) -> refines_cls cls g = true ->
  forall c d : N, cls c = cls d -> group_of g c = group_of g d.
Proof.
  intros Hbig H. unfold refines_cls in H. cbv zeta in H. apply andb_true_iff in H. destruct H as [Hs Hf].
  rewrite forallb_forall in Hf.
  assert (Hclip : forall c, exists c', c' <= 256 /\ cls c' = cls c /\ group_of g c' = group_of g c).
  { intros c. destruct (N.le_gt_cases c 256) as [Hc|Hc].
    - exists c. auto.
    - exists 256. split; [lia|]. split; [symmetry; apply Hbig; lia|].
      rewrite (group_of_big g c Hs) by lia. apply group_of_big; [exact Hs|lia]. }
  assert (Hin : forall c', c' <= 256 -> In (cls c', group_of g c') (map (fun c => (cls c, group_of g c)) sweep)).
  { intros c' Hc'. apply in_map_iff. exists c'. split; [reflexivity|apply In_sweep; exact Hc']. }
  intros c d E.
  destruct (Hclip c) as [c' [Hc' [Ec Gc]]]. destruct (Hclip d) as [d' [Hd' [Ed Gd]]].
  rewrite <- Gc, <- Gd.
  specialize (Hf _ (Hin c' Hc')). rewrite forallb_forall in Hf.
  specialize (Hf _ (Hin d' Hd')). cbn [fst snd] in Hf.
  assert (Ecd : (cls c' =? cls d') = true) by (apply N.eqb_eq; congruence).
  rewrite Ecd in Hf. cbn [implb] in Hf. apply og_eqb_eq. exact Hf.
Qed.

(* the listed group that contains a given character *)
Definition group_with (g : list (list N)) (c : N) : list N :=
  match find (mem c) g with Some l => l | None => [] end.

