(* Property C07, the operation-independent half: an object that satisfies [produced_wf]
   (Spec/Reread.v) recomposes ([to_text], Model/Recompose.v) to a text that
     A1  is a valid URI reference                     [produced_text_valid]
     A2  splits (Spec/Split.v) into the same meaning   [produced_text_splits]
     A3  is parsed into the same meaning               [produced_reread]
   and the two ambiguity clauses of [produced_wf] are needed ([dslash_necessary], [colon_necessary]).

   Route: under [host_ok] the text is  scheme ":" ++ "//" authority ++ path_text ++ "?" query ++ "#" fragment
   with the host written canonically ([to_text_parts]).  A1 assembles a derivation of the regular
   expression URI_reference from derivations for the components; A2 runs the stages of the splitter
   (Proofs/ParseSplit.v) on that concatenation; the path is treated as a text: whatever the fields
   are, splitting [path_text u] gives segments and a flag whose path text is [path_text u] again. *)
From Coq Require Import List NArith Bool Lia Arith ZifyBool ZifyN.
From UP Require Spec.Rfc3986.
From UP Require Import Base.Chars Base.Regex Base.Atoms Model.Uri Model.Ip4 Model.Parse Model.Recompose
  Spec.Split Spec.NormalWf Spec.Unparse Spec.Recompose Spec.Reread
  Proofs.ParseData Proofs.ParseWfStep Proofs.ParseWf Proofs.ParseSplit Proofs.ParseRecompose Proofs.ParseAccept
  Proofs.Ip4Proofs Proofs.Ip6Proofs.
Import ListNotations.
Local Open Scope N_scope.

(* ================================================================ 1. building derivations *)
Lemma m_app a b s t : matches a s -> matches b t -> matches (Seq a b) (s ++ t).
Proof. apply MSeq. Qed.

Lemma m_ch c : matches (Rfc3986.ch c) [c].
Proof. constructor. left. reflexivity. Qed.

Lemma m_opt_none r : matches (Rfc3986.opt r) [].
Proof. apply MAltL. constructor. Qed.
Lemma m_opt_some r s : matches r s -> matches (Rfc3986.opt r) s.
Proof. apply MAltR. Qed.

(* a non-empty text of r* is a text of r r* *)
Lemma star_plus r t : matches (Star r) t -> t = [] \/ matches (Rfc3986.plus r) t.
Proof.
  intros H. remember (Star r) as R eqn:ER.
  induction H as [| | | | | |a s t' Hs _ Ht IHt]; try discriminate ER.
  - left. reflexivity.
  - inversion ER; subst a. destruct s as [|c s].
    + cbn [app]. exact (IHt eq_refl).
    + right. unfold Rfc3986.plus. apply MSeq; assumption.
Qed.

(* texts over a character class with well-formed percent-encodings, as r* *)
Lemma star_pct_n (r : re) (cls : N -> bool) :
  (forall c, cls c = true -> (c =? 37) = false -> matches r [c]) ->
  (forall a b, is_hexdig a = true -> is_hexdig b = true -> matches r [37; a; b]) ->
  forall n t, (length t <= n)%nat -> text_ok cls t -> matches (Star r) t.
Proof.
  intros Hc Hp. induction n as [|n IH]; intros t Hl [Hf Hw].
  - destruct t; [constructor|cbn [length] in Hl; lia].
  - destruct t as [|c t]; [constructor|].
    cbn [forallb] in Hf. apply andb_true_iff in Hf. destruct Hf as [Hcc Hf].
    cbn [pct_wf] in Hw. destruct (c =? 37) eqn:E.
    + apply N.eqb_eq in E. subst c. destruct t as [|a [|b t2]]; try discriminate Hw.
      apply andb_true_iff in Hw. destruct Hw as [Hw Hw2]. apply andb_true_iff in Hw. destruct Hw as [Ha Hb].
      cbn [forallb] in Hf. apply andb_true_iff in Hf. destruct Hf as [_ Hf].
      apply andb_true_iff in Hf. destruct Hf as [_ Hf].
      change (37 :: a :: b :: t2) with ([37; a; b] ++ t2). apply MStarS; [apply Hp; assumption|].
      apply IH; [cbn [length] in Hl; lia|split; assumption].
    + change (c :: t) with ([c] ++ t). apply MStarS; [apply Hc; assumption|].
      apply IH; [cbn [length] in Hl; lia|split; assumption].
Qed.

Lemma star_pct (r : re) (cls : N -> bool) t :
  (forall c, cls c = true -> (c =? 37) = false -> matches r [c]) ->
  (forall a b, is_hexdig a = true -> is_hexdig b = true -> matches r [37; a; b]) ->
  text_ok cls t -> matches (Star r) t.
Proof. intros Hc Hp. apply (star_pct_n r cls Hc Hp (length t)). lia. Qed.

(* the character sets of the grammar against the classes of Spec/Unparse.v *)
Lemma mem_hexdig c : mem c Rfc3986.HEXDIG = is_hexdig c.
Proof. rewrite (sat_ok Rfc3986.HEXDIG eq_refl c), br_hexdig. destruct (atom_of c); reflexivity. Qed.
Lemma mem_digit c : mem c Rfc3986.DIGIT = is_digit c.
Proof. rewrite (sat_ok Rfc3986.DIGIT eq_refl c), br_digit. destruct (atom_of c); reflexivity. Qed.
Lemma mem_regname c :
  mem c (Rfc3986.unreserved ++ Rfc3986.sub_delims) = is_regname_char c && negb (c =? 37).
Proof.
  rewrite (sat_ok (Rfc3986.unreserved ++ Rfc3986.sub_delims) eq_refl c), br_regname, br_pct.
  destruct (atom_of c); reflexivity.
Qed.
Lemma mem_userinfo c :
  mem c (Rfc3986.unreserved ++ Rfc3986.sub_delims ++ [58]) = is_userinfo_char c && negb (c =? 37).
Proof.
  rewrite (sat_ok (Rfc3986.unreserved ++ Rfc3986.sub_delims ++ [58]) eq_refl c), br_userinfo, br_pct.
  destruct (atom_of c); reflexivity.
Qed.
Lemma mem_pchar c :
  mem c (Rfc3986.unreserved ++ Rfc3986.sub_delims ++ [58; 64]) = is_pchar c && negb (c =? 37).
Proof.
  rewrite (sat_ok (Rfc3986.unreserved ++ Rfc3986.sub_delims ++ [58; 64]) eq_refl c), br_pchar, br_pct.
  destruct (atom_of c); reflexivity.
Qed.
Lemma mem_segnc c :
  mem c (Rfc3986.unreserved ++ Rfc3986.sub_delims ++ [64]) = is_segnc_char c && negb (c =? 37).
Proof.
  rewrite (sat_ok (Rfc3986.unreserved ++ Rfc3986.sub_delims ++ [64]) eq_refl c), br_segnc, br_pct.
  destruct (atom_of c); reflexivity.
Qed.
Lemma qf_pchar_or c : is_qf_char c = is_pchar c || mem c [47; 63].
Proof. unfold is_qf_char. cbn [mem]. rewrite orb_false_r, orb_assoc. reflexivity. Qed.
Lemma segnc_pchar c : is_segnc_char c = is_pchar c && negb (c =? 58).
Proof.
  rewrite br_segnc, br_pchar. unfold is_pchar.
  assert ((c =? 58) = a_is_colon (atom_of c)) as -> by (revert c; bridge).
  destruct (atom_of c); reflexivity.
Qed.

Lemma m_pct a b : is_hexdig a = true -> is_hexdig b = true -> matches Rfc3986.pct_encoded [37; a; b].
Proof.
  intros Ha Hb. unfold Rfc3986.pct_encoded. cbn [Rfc3986.seqs].
  change [37; a; b] with ([37] ++ [a] ++ [b]).
  apply MSeq; [apply m_ch|]. apply MSeq; constructor; apply mem_In; rewrite mem_hexdig; assumption.
Qed.

Lemma chr_or_pct l cls t :
  (forall c, cls c = true -> (c =? 37) = false -> mem c l = true) ->
  text_ok cls t -> matches (Star (Alt (Chr l) Rfc3986.pct_encoded)) t.
Proof.
  intros H. apply star_pct.
  - intros c Hc E. apply MAltL. constructor. apply mem_In. exact (H c Hc E).
  - intros a b Ha Hb. apply MAltR. apply m_pct; assumption.
Qed.

Lemma pchars_matches t : text_ok is_pchar t -> matches Rfc3986.segment t.
Proof.
  apply chr_or_pct. intros c Hc E. rewrite mem_pchar, Hc, E. reflexivity.
Qed.

Lemma segment_nz_matches t : text_ok is_pchar t -> t <> [] -> matches Rfc3986.segment_nz t.
Proof.
  intros H Hn. destruct (star_plus _ _ (pchars_matches t H)) as [E|M]; [contradiction|exact M].
Qed.

Lemma segment_nz_nc_matches t : text_ok is_pchar t -> ~ In 58 t -> t <> [] -> matches Rfc3986.segment_nz_nc t.
Proof.
  intros [Hf Hw] H58 Hn.
  assert (text_ok is_segnc_char t) as Hs.
  { split; [|exact Hw]. rewrite forallb_forall in *. intros c Hc. rewrite segnc_pchar, (Hf c Hc).
    destruct (c =? 58) eqn:E; [|reflexivity]. apply N.eqb_eq in E. subst c. contradiction. }
  assert (matches (Star (Alt (Chr (Rfc3986.unreserved ++ Rfc3986.sub_delims ++ [64])) Rfc3986.pct_encoded)) t) as M.
  { revert Hs. apply chr_or_pct. intros c Hc E. rewrite mem_segnc, Hc, E. reflexivity. }
  destruct (star_plus _ _ M) as [E|M']; [contradiction|exact M'].
Qed.

Lemma regname_matches t : text_ok is_regname_char t -> matches Rfc3986.reg_name t.
Proof. apply chr_or_pct. intros c Hc E. rewrite mem_regname, Hc, E. reflexivity. Qed.

Lemma userinfo_matches t : text_ok is_userinfo_char t -> matches Rfc3986.userinfo t.
Proof. apply chr_or_pct. intros c Hc E. rewrite mem_userinfo, Hc, E. reflexivity. Qed.

Lemma qf_matches t : text_ok is_qf_char t -> matches Rfc3986.query t.
Proof.
  apply star_pct.
  - intros c Hc E. rewrite qf_pchar_or in Hc. destruct (is_pchar c) eqn:Ep.
    + apply MAltL. apply MAltL. constructor. apply mem_In. rewrite mem_pchar, Ep, E. reflexivity.
    + apply MAltR. constructor. apply mem_In. exact Hc.
  - intros a b Ha Hb. apply MAltL. apply MAltR. apply m_pct; assumption.
Qed.

Lemma port_matches t : digits_ok t -> matches Rfc3986.port t.
Proof.
  intros H. apply star_chr. revert H. apply forallb_mono. intros c Hc. rewrite mem_digit. exact Hc.
Qed.

Lemma scheme_matches t : scheme_ok t -> matches Rfc3986.scheme t.
Proof. intros H. apply matchb_spec. exact (scheme_ok_matches t H). Qed.

(* *( "/" segment ) *)
Lemma abempty_matches ps : Forall (text_ok is_pchar) ps -> matches Rfc3986.path_abempty (slashed ps).
Proof.
  induction 1 as [|s r Hs _ IH]; [constructor|].
  unfold slashed. cbn [map concat]. fold (slashed r).
  change (47 :: s) with ([47] ++ s). apply MStarS; [|exact IH].
  apply MSeq; [apply m_ch|apply pchars_matches; exact Hs].
Qed.

(* ================================================================ 2. the canonical IPv6 text is an IPv6address *)
Lemma upto_hex n : forall g, (length g <= n)%nat -> forallb is_hexdig g = true ->
  matches (Rfc3986.upto n (Chr Rfc3986.HEXDIG)) g.
Proof.
  induction n as [|n IH]; intros g Hl Hh.
  - destruct g; [constructor|cbn [length] in Hl; lia].
  - cbn [Rfc3986.upto]. destruct g as [|c g]; [apply m_opt_none|]. apply m_opt_some.
    cbn [forallb] in Hh. apply andb_true_iff in Hh. destruct Hh as [Hc Hh].
    apply m_cons; [apply mem_In; rewrite mem_hexdig; exact Hc|].
    apply IH; [cbn [length] in Hl; lia|exact Hh].
Qed.

Lemma h16_matches g : is_h16 g -> matches Rfc3986.h16 g.
Proof.
  intros [Hh [H1 H4]]. destruct g as [|c g]; [cbn [length] in H1; lia|].
  cbn [forallb] in Hh. apply andb_true_iff in Hh. destruct Hh as [Hc Hh].
  unfold Rfc3986.h16. apply m_cons; [apply mem_In; rewrite mem_hexdig; exact Hc|].
  apply upto_hex; [cbn [length] in H4; lia|exact Hh].
Qed.

Lemma rep_h16c_matches G : Forall is_h16 G -> matches (Rfc3986.rep (length G) Rfc3986.h16c) (groupsc G).
Proof.
  induction 1 as [|g r Hg _ IH]; [constructor|].
  cbn [length Rfc3986.rep groupsc]. change (g ++ 58 :: groupsc r) with (g ++ [58] ++ groupsc r).
  rewrite app_assoc. apply MSeq; [|exact IH].
  unfold Rfc3986.h16c. apply MSeq; [apply h16_matches; exact Hg|apply m_ch].
Qed.

Lemma joinc_snoc2 G x y : joinc (G ++ [x; y]) = groupsc G ++ x ++ [58] ++ y.
Proof.
  replace (G ++ [x; y]) with ((G ++ [x]) ++ [y]) by (rewrite <- app_assoc; reflexivity).
  rewrite joinc_snoc, groupsc_app. cbn [groupsc]. rewrite <- !app_assoc. reflexivity.
Qed.

Theorem groups_text_ip6 b : length b = 16%nat -> Forall (fun x => x <= 255) b ->
  matches Rfc3986.IPv6address (groups_text b).
Proof.
  intros Hl Hb. rewrite (groups_text_joinc 8) by exact Hl.
  destruct (hexgroups_ok 8 b Hl Hb) as [HG [_ HL]].
  destruct (hexgroups b) as [|g1 [|g2 [|g3 [|g4 [|g5 [|g6 [|g7 [|g8 [|g9 G]]]]]]]]]; try discriminate HL.
  change [g1; g2; g3; g4; g5; g6; g7; g8] with ([g1; g2; g3; g4; g5; g6] ++ [g7; g8]) in *.
  apply Forall_app in HG. destruct HG as [H6 H2].
  inversion H2 as [|? ? Hg7 H2']; subst. inversion H2' as [|? ? Hg8 _]; subst.
  rewrite joinc_snoc2. unfold Rfc3986.IPv6address. cbn [Rfc3986.alts]. apply MAltL.
  cbn [Rfc3986.seqs]. apply MSeq.
  - exact (rep_h16c_matches _ H6).
  - unfold Rfc3986.ls32. apply MAltL. cbn [Rfc3986.seqs].
    apply MSeq; [apply h16_matches; exact Hg7|]. apply MSeq; [apply m_ch|apply h16_matches; exact Hg8].
Qed.

(* it does not begin with "v" *)
Lemma groups_text_not_v b : length b = 16%nat -> Forall (fun x => x <= 255) b ->
  head_is 118 (groups_text b) || head_is 86 (groups_text b) = false.
Proof.
  intros Hl Hb. destruct b as [|hi [|lo r]]; try discriminate Hl.
  inversion Hb as [|? ? Hhi _]; subst. cbn [groups_text]. unfold hex4. cbn [app head_is].
  unfold lower_hex. assert (hi / 16 <= 15) as H15 by dm_lia.
  destruct (hi / 16 <? 10) eqn:E; lia.
Qed.

(* every character of a text of r occurs in one of r's character sets *)
Fixpoint re_chars (r : re) : list N :=
  match r with
  | Emp | Eps => []
  | Chr l => l
  | Seq a b | Alt a b => re_chars a ++ re_chars b
  | Star a => re_chars a
  end.

Lemma mem_app c a b : mem c (a ++ b) = mem c a || mem c b.
Proof. induction a as [|x a IH]; cbn [app mem]; [reflexivity|]. rewrite IH, orb_assoc. reflexivity. Qed.

Lemma matches_chars r s : matches r s -> forallb (fun c => mem c (re_chars r)) s = true.
Proof.
  induction 1 as [|l c Hc|a b s t _ IHs _ IHt|a b s _ IH|a b s _ IH|a|a s t _ IHs _ IHt]; cbn [re_chars].
  - reflexivity.
  - cbn [forallb]. apply mem_In in Hc. rewrite Hc. reflexivity.
  - rewrite forallb_app. apply andb_true_iff. split.
    + revert IHs. apply forallb_mono. intros c Hc. rewrite mem_app, Hc. reflexivity.
    + revert IHt. apply forallb_mono. intros c Hc. rewrite mem_app, Hc. apply orb_true_r.
  - revert IH. apply forallb_mono. intros c Hc. rewrite mem_app, Hc. reflexivity.
  - revert IH. apply forallb_mono. intros c Hc. rewrite mem_app, Hc. apply orb_true_r.
  - reflexivity.
  - rewrite forallb_app, IHs. exact IHt.
Qed.

Lemma matches_avoid r stops s :
  forallb (fun k => negb (mem k (re_chars r))) stops = true -> matches r s -> avoid stops s.
Proof. intros Hs M. apply (class_avoid (fun c => mem c (re_chars r)) stops s Hs). apply matches_chars. exact M. Qed.
