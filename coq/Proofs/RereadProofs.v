(* Property C07, the operation-independent half: an object that satisfies [produced_wf]
   (Spec/Reread.v) recomposes ([to_text], Model/Recompose.v) to a text that
     A1  is a valid URI reference                     [produced_text_valid]
     A2  splits (Spec/Split.v) into the same meaning   [produced_text_splits]
     A3  is parsed into the same meaning               [produced_reread]
   and the two ambiguity clauses of [produced_wf] are needed ([dslash_necessary], [colon_necessary]).

   Route: under [host_ok] the text is  scheme ":" ++ "//" authority ++ path_text ++ "?" query ++ "#" fragment
   with the host written canonically ([to_text_parts]).  A1 assembles a derivation of the regular
   expression URI_reference from derivations for the components; A2 runs the stages of the splitter
   (Proofs/ParseSplit.v) on that concatenation; the path is treated as a text: whatever the fields
   are, splitting [path_text u] gives segments and a flag whose path text is [path_text u] again. *)
From Coq Require Import List NArith Bool Lia Arith ZifyBool ZifyN.
From UP Require Spec.Rfc3986.
From UP Require Import Base.Chars Base.Regex Base.Atoms Model.Uri Model.Ip4 Model.Parse Model.Recompose
  Spec.Split Spec.NormalWf Spec.Unparse Spec.Recompose Spec.Reread
  Proofs.ParseData Proofs.ParseWfStep Proofs.ParseWf Proofs.ParseSplit Proofs.ParseRecompose Proofs.ParseAccept
  Proofs.Ip4Proofs Proofs.Ip6Proofs.
Import ListNotations.
Local Open Scope N_scope.

(* ================================================================ 1. building derivations *)
Lemma m_app a b s t : matches a s -> matches b t -> matches (Seq a b) (s ++ t).
Proof. apply MSeq. Qed.

Lemma m_ch c : matches (Rfc3986.ch c) [c].
Proof. constructor. left. reflexivity. Qed.

Lemma m_opt_none r : matches (Rfc3986.opt r) [].
Proof. apply MAltL. constructor. Qed.
Lemma m_opt_some r s : matches r s -> matches (Rfc3986.opt r) s.
Proof. apply MAltR. Qed.

(* a non-empty text of r* is a text of r r* *)
Lemma star_plus r t : matches (Star r) t -> t = [] \/ matches (Rfc3986.plus r) t.
Proof.
  intros H. remember (Star r) as R eqn:ER.
  induction H as [| | | | | |a s t' Hs _ Ht IHt]; try discriminate ER.
  - left. reflexivity.
  - inversion ER; subst a. destruct s as [|c s].
    + cbn [app]. exact (IHt eq_refl).
    + right. unfold Rfc3986.plus. apply MSeq; assumption.
Qed.

(* texts over a character class with well-formed percent-encodings, as r* *)
Lemma star_pct_n (r : re) (cls : N -> bool) :
  (forall c, cls c = true -> (c =? 37) = false -> matches r [c]) ->
  (forall a b, is_hexdig a = true -> is_hexdig b = true -> matches r [37; a; b]) ->
  forall n t, (length t <= n)%nat -> text_ok cls t -> matches (Star r) t.
Proof.
  intros Hc Hp. induction n as [|n IH]; intros t Hl [Hf Hw].
  - destruct t; [constructor|cbn [length] in Hl; lia].
  - destruct t as [|c t]; [constructor|].
    cbn [forallb] in Hf. apply andb_true_iff in Hf. destruct Hf as [Hcc Hf].
    cbn [pct_wf] in Hw. destruct (c =? 37) eqn:E.
    + apply N.eqb_eq in E. subst c. destruct t as [|a [|b t2]]; try discriminate Hw.
      apply andb_true_iff in Hw. destruct Hw as [Hw Hw2]. apply andb_true_iff in Hw. destruct Hw as [Ha Hb].
      cbn [forallb] in Hf. apply andb_true_iff in Hf. destruct Hf as [_ Hf].
      apply andb_true_iff in Hf. destruct Hf as [_ Hf].
      change (37 :: a :: b :: t2) with ([37; a; b] ++ t2). apply MStarS; [apply Hp; assumption|].
      apply IH; [cbn [length] in Hl; lia|split; assumption].
    + change (c :: t) with ([c] ++ t). apply MStarS; [apply Hc; assumption|].
      apply IH; [cbn [length] in Hl; lia|split; assumption].
Qed.

Lemma star_pct (r : re) (cls : N -> bool) t :
  (forall c, cls c = true -> (c =? 37) = false -> matches r [c]) ->
  (forall a b, is_hexdig a = true -> is_hexdig b = true -> matches r [37; a; b]) ->
  text_ok cls t -> matches (Star r) t.
Proof. intros Hc Hp. apply (star_pct_n r cls Hc Hp (length t)). lia. Qed.

(* the character sets of the grammar against the classes of Spec/Unparse.v *)
Lemma mem_hexdig c : mem c Rfc3986.HEXDIG = is_hexdig c.
Proof. rewrite (sat_ok Rfc3986.HEXDIG eq_refl c), br_hexdig. destruct (atom_of c); reflexivity. Qed.
Lemma mem_digit c : mem c Rfc3986.DIGIT = is_digit c.
Proof. rewrite (sat_ok Rfc3986.DIGIT eq_refl c), br_digit. destruct (atom_of c); reflexivity. Qed.
Lemma mem_regname c :
  mem c (Rfc3986.unreserved ++ Rfc3986.sub_delims) = is_regname_char c && negb (c =? 37).
Proof.
  rewrite (sat_ok (Rfc3986.unreserved ++ Rfc3986.sub_delims) eq_refl c), br_regname, br_pct.
  destruct (atom_of c); reflexivity.
Qed.
Lemma mem_userinfo c :
  mem c (Rfc3986.unreserved ++ Rfc3986.sub_delims ++ [58]) = is_userinfo_char c && negb (c =? 37).
Proof.
  rewrite (sat_ok (Rfc3986.unreserved ++ Rfc3986.sub_delims ++ [58]) eq_refl c), br_userinfo, br_pct.
  destruct (atom_of c); reflexivity.
Qed.
Lemma mem_pchar c :
  mem c (Rfc3986.unreserved ++ Rfc3986.sub_delims ++ [58; 64]) = is_pchar c && negb (c =? 37).
Proof.
  rewrite (sat_ok (Rfc3986.unreserved ++ Rfc3986.sub_delims ++ [58; 64]) eq_refl c), br_pchar, br_pct.
  destruct (atom_of c); reflexivity.
Qed.
Lemma mem_segnc c :
  mem c (Rfc3986.unreserved ++ Rfc3986.sub_delims ++ [64]) = is_segnc_char c && negb (c =? 37).
Proof.
  rewrite (sat_ok (Rfc3986.unreserved ++ Rfc3986.sub_delims ++ [64]) eq_refl c), br_segnc, br_pct.
  destruct (atom_of c); reflexivity.
Qed.
Lemma qf_pchar_or c : is_qf_char c = is_pchar c || mem c [47; 63].
Proof. unfold is_qf_char. cbn [mem]. rewrite orb_false_r, orb_assoc. reflexivity. Qed.
Lemma segnc_pchar c : is_segnc_char c = is_pchar c && negb (c =? 58).
Proof.
  rewrite br_segnc, br_pchar. unfold is_pchar.
  assert ((c =? 58) = a_is_colon (atom_of c)) as -> by (revert c; bridge).
  destruct (atom_of c); reflexivity.
Qed.

Lemma m_pct a b : is_hexdig a = true -> is_hexdig b = true -> matches Rfc3986.pct_encoded [37; a; b].
Proof.
  intros Ha Hb. unfold Rfc3986.pct_encoded. cbn [Rfc3986.seqs].
  change [37; a; b] with ([37] ++ [a] ++ [b]).
  apply MSeq; [apply m_ch|]. apply MSeq; constructor; apply mem_In; rewrite mem_hexdig; assumption.
Qed.

Lemma chr_or_pct l cls t :
  (forall c, cls c = true -> (c =? 37) = false -> mem c l = true) ->
  text_ok cls t -> matches (Star (Alt (Chr l) Rfc3986.pct_encoded)) t.
Proof.
  intros H. apply star_pct.
  - intros c Hc E. apply MAltL. constructor. apply mem_In. exact (H c Hc E).
  - intros a b Ha Hb. apply MAltR. apply m_pct; assumption.
Qed.

Lemma pchars_matches t : text_ok is_pchar t -> matches Rfc3986.segment t.
Proof.
  apply chr_or_pct. intros c Hc E. rewrite mem_pchar, Hc, E. reflexivity.
Qed.

Lemma segment_nz_matches t : text_ok is_pchar t -> t <> [] -> matches Rfc3986.segment_nz t.
Proof.
  intros H Hn. destruct (star_plus _ _ (pchars_matches t H)) as [E|M]; [contradiction|exact M].
Qed.

Lemma segment_nz_nc_matches t : text_ok is_pchar t -> ~ In 58 t -> t <> [] -> matches Rfc3986.segment_nz_nc t.
Proof.
  intros [Hf Hw] H58 Hn.
  assert (text_ok is_segnc_char t) as Hs.
  { split; [|exact Hw]. rewrite forallb_forall in *. intros c Hc. rewrite segnc_pchar, (Hf c Hc).
    destruct (c =? 58) eqn:E; [|reflexivity]. apply N.eqb_eq in E. subst c. contradiction. }
  assert (matches (Star (Alt (Chr (Rfc3986.unreserved ++ Rfc3986.sub_delims ++ [64])) Rfc3986.pct_encoded)) t) as M.
  { revert Hs. apply chr_or_pct. intros c Hc E. rewrite mem_segnc, Hc, E. reflexivity. }
  destruct (star_plus _ _ M) as [E|M']; [contradiction|exact M'].
Qed.

Lemma regname_matches t : text_ok is_regname_char t -> matches Rfc3986.reg_name t.
Proof. apply chr_or_pct. intros c Hc E. rewrite mem_regname, Hc, E. reflexivity. Qed.

Lemma userinfo_matches t : text_ok is_userinfo_char t -> matches Rfc3986.userinfo t.
Proof. apply chr_or_pct. intros c Hc E. rewrite mem_userinfo, Hc, E. reflexivity. Qed.

Lemma qf_matches t : text_ok is_qf_char t -> matches Rfc3986.query t.
Proof.
  apply star_pct.
  - intros c Hc E. rewrite qf_pchar_or in Hc. destruct (is_pchar c) eqn:Ep.
    + apply MAltL. apply MAltL. constructor. apply mem_In. rewrite mem_pchar, Ep, E. reflexivity.
    + apply MAltR. constructor. apply mem_In. exact Hc.
  - intros a b Ha Hb. apply MAltL. apply MAltR. apply m_pct; assumption.
Qed.

Lemma port_matches t : digits_ok t -> matches Rfc3986.port t.
Proof.
  intros H. apply star_chr. revert H. apply forallb_mono. intros c Hc. rewrite mem_digit. exact Hc.
Qed.

Lemma scheme_matches t : scheme_ok t -> matches Rfc3986.scheme t.
Proof. intros H. apply matchb_spec. exact (scheme_ok_matches t H). Qed.

(* *( "/" segment ) *)
Lemma abempty_matches ps : Forall (text_ok is_pchar) ps -> matches Rfc3986.path_abempty (slashed ps).
Proof.
  induction 1 as [|s r Hs _ IH]; [constructor|].
  unfold slashed. cbn [map concat]. fold (slashed r).
  change (47 :: s) with ([47] ++ s). apply MStarS; [|exact IH].
  apply MSeq; [apply m_ch|apply pchars_matches; exact Hs].
Qed.

(* ================================================================ 2. the canonical IPv6 text is an IPv6address *)
Lemma upto_hex n : forall g, (length g <= n)%nat -> forallb is_hexdig g = true ->
  matches (Rfc3986.upto n (Chr Rfc3986.HEXDIG)) g.
Proof.
  induction n as [|n IH]; intros g Hl Hh.
  - destruct g; [constructor|cbn [length] in Hl; lia].
  - cbn [Rfc3986.upto]. destruct g as [|c g]; [apply m_opt_none|]. apply m_opt_some.
    cbn [forallb] in Hh. apply andb_true_iff in Hh. destruct Hh as [Hc Hh].
    apply m_cons; [apply mem_In; rewrite mem_hexdig; exact Hc|].
    apply IH; [cbn [length] in Hl; lia|exact Hh].
Qed.

Lemma h16_matches g : is_h16 g -> matches Rfc3986.h16 g.
Proof.
  intros [Hh [H1 H4]]. destruct g as [|c g]; [cbn [length] in H1; lia|].
  cbn [forallb] in Hh. apply andb_true_iff in Hh. destruct Hh as [Hc Hh].
  unfold Rfc3986.h16. apply m_cons; [apply mem_In; rewrite mem_hexdig; exact Hc|].
  apply upto_hex; [cbn [length] in H4; lia|exact Hh].
Qed.

Lemma rep_h16c_matches G : Forall is_h16 G -> matches (Rfc3986.rep (length G) Rfc3986.h16c) (groupsc G).
Proof.
  induction 1 as [|g r Hg _ IH]; [constructor|].
  cbn [length Rfc3986.rep groupsc]. change (g ++ 58 :: groupsc r) with (g ++ [58] ++ groupsc r).
  rewrite app_assoc. apply MSeq; [|exact IH].
  unfold Rfc3986.h16c. apply MSeq; [apply h16_matches; exact Hg|apply m_ch].
Qed.

Lemma joinc_snoc2 G x y : joinc (G ++ [x; y]) = groupsc G ++ x ++ [58] ++ y.
Proof.
  replace (G ++ [x; y]) with ((G ++ [x]) ++ [y]) by (rewrite <- app_assoc; reflexivity).
  rewrite joinc_snoc, groupsc_app. cbn [groupsc]. rewrite <- !app_assoc. reflexivity.
Qed.

Theorem groups_text_ip6 b : length b = 16%nat -> Forall (fun x => x <= 255) b ->
  matches Rfc3986.IPv6address (groups_text b).
Proof.
  intros Hl Hb. rewrite (groups_text_joinc 8) by exact Hl.
  destruct (hexgroups_ok 8 b Hl Hb) as [HG [_ HL]].
  destruct (hexgroups b) as [|g1 [|g2 [|g3 [|g4 [|g5 [|g6 [|g7 [|g8 [|g9 G]]]]]]]]]; try discriminate HL.
  change [g1; g2; g3; g4; g5; g6; g7; g8] with ([g1; g2; g3; g4; g5; g6] ++ [g7; g8]) in *.
  apply Forall_app in HG. destruct HG as [H6 H2].
  inversion H2 as [|? ? Hg7 H2']; subst. inversion H2' as [|? ? Hg8 _]; subst.
  rewrite joinc_snoc2. unfold Rfc3986.IPv6address. cbn [Rfc3986.alts]. apply MAltL.
  cbn [Rfc3986.seqs]. apply MSeq.
  - exact (rep_h16c_matches _ H6).
  - unfold Rfc3986.ls32. apply MAltL. cbn [Rfc3986.seqs].
    apply MSeq; [apply h16_matches; exact Hg7|]. apply MSeq; [apply m_ch|apply h16_matches; exact Hg8].
Qed.

(* it does not begin with "v" *)
Lemma groups_text_not_v b : length b = 16%nat -> Forall (fun x => x <= 255) b ->
  head_is 118 (groups_text b) || head_is 86 (groups_text b) = false.
Proof.
  intros Hl Hb. destruct b as [|hi [|lo r]]; try discriminate Hl.
  inversion Hb as [|? ? Hhi _]; subst. cbn [groups_text]. unfold hex4. cbn [app head_is].
  unfold lower_hex. assert (hi / 16 <= 15) as H15 by dm_lia.
  destruct (hi / 16 <? 10) eqn:E; lia.
Qed.

(* every character of a text of r occurs in one of r's character sets *)
Fixpoint re_chars (r : re) : list N :=
  match r with
  | Emp | Eps => []
  | Chr l => l
  | Seq a b | Alt a b => re_chars a ++ re_chars b
  | Star a => re_chars a
  end.

Lemma mem_app c a b : mem c (a ++ b) = mem c a || mem c b.
Proof. induction a as [|x a IH]; cbn [app mem]; [reflexivity|]. rewrite IH, orb_assoc. reflexivity. Qed.

Lemma matches_chars r s : matches r s -> forallb (fun c => mem c (re_chars r)) s = true.
Proof.
  induction 1 as [|l c Hc|a b s t _ IHs _ IHt|a b s _ IH|a b s _ IH|a|a s t _ IHs _ IHt]; cbn [re_chars].
  - reflexivity.
  - cbn [forallb]. apply mem_In in Hc. rewrite Hc. reflexivity.
  - rewrite forallb_app. apply andb_true_iff. split.
    + revert IHs. apply forallb_mono. intros c Hc. rewrite mem_app, Hc. reflexivity.
    + revert IHt. apply forallb_mono. intros c Hc. rewrite mem_app, Hc. apply orb_true_r.
  - revert IH. apply forallb_mono. intros c Hc. rewrite mem_app, Hc. reflexivity.
  - revert IH. apply forallb_mono. intros c Hc. rewrite mem_app, Hc. apply orb_true_r.
  - reflexivity.
  - rewrite forallb_app, IHs. exact IHt.
Qed.

Lemma matches_avoid r stops s :
  forallb (fun k => negb (mem k (re_chars r))) stops = true -> matches r s -> avoid stops s.
Proof. intros Hs M. apply (class_avoid (fun c => mem c (re_chars r)) stops s Hs). apply matches_chars. exact M. Qed.

(* ================================================================ 3. the text, in parts *)
(* the host text that is written: the canonical text of the bytes for an IPv6 host, the host text otherwise *)
Definition host_written (u : uri) (h : text) : text :=
  match ip6 u with Some b => groups_text b | None => h end.
Definition host_wr (u : uri) (h : text) : text :=
  if is_lit u then [91] ++ host_written u h ++ [93] else host_written u h.
Definition auth_text (u : uri) : text :=
  match hostText u with
  | Some h => [47; 47] ++ opt_post (userInfo u) [64] ++ host_wr u h ++ opt_pre [58] (portText u)
  | None => []
  end.

Lemma host_set_ok u : host_ok u -> is_host_set u = is_some (hostText u).
Proof.
  unfold host_ok, is_host_set. destruct (hostText u) as [h|]; [reflexivity|].
  intros (-> & -> & ->). reflexivity.
Qed.

Lemma ip4_text_render h : matchb Rfc3986.IPv4address h = true -> concat (ip4_pieces (ip4_value h) 0) = h.
Proof.
  intros H. apply matchb_spec in H. apply parse_ip4_grammar in H. destruct H as [o Ho].
  destruct (parse_ip4_value h o Ho) as [<- _]. exact (parse_ip4_render h o Ho).
Qed.

Lemma host_rendered_ok u h : host_ok u -> hostText u = Some h -> host_rendered u = host_wr u h.
Proof.
  unfold host_ok, host_rendered, host_wr, host_written, is_lit. intros H E. rewrite E in *.
  destruct H as [_ H].
  destruct (ip4 u) as [o|], (ip6 u) as [b|], (ipFuture u) as [f|]; try contradiction; cbn [is_some orb].
  - destruct H as [Hm ->]. exact (ip4_text_render h Hm).
  - destruct H as [Hl Hb]. rewrite !concat_app. rewrite (ip6_render b Hl Hb). reflexivity.
  - destruct H as [-> _]. reflexivity.
  - cbn [concat]. apply app_nil_r.
Qed.

Theorem to_text_parts u : host_ok u ->
  to_text u = opt_post (scheme u) [58] ++ auth_text u ++ path_text u ++ qf_part (query u) (fragment u).
Proof.
  intros Hh. pose proof (host_set_ok u Hh) as Hs.
  assert (forall h, hostText u = Some h -> host_rendered u = host_wr u h) as Hr
    by (intros h; apply host_rendered_ok; exact Hh).
  unfold to_text, pieces. rewrite Hs. unfold auth_text, path_text, qf_part. unfold host_rendered in Hr.
  rewrite !concat_app, !concat_opt_pieces, concat_path_pieces.
  destruct (hostText u) as [h|]; cbn [is_some].
  - rewrite !concat_app, !concat_opt_pieces. specialize (Hr h eq_refl). cbv beta iota in Hr |- *.
    match goal with |- context [?X ++ match portText u with Some t => _ | None => [] end] =>
      replace X with (host_wr u h) by (symmetry; exact Hr) end.
    rewrite andb_true_r. cbn [andb].
    destruct (scheme u), (userInfo u), (portText u), (query u), (fragment u),
      (absolutePath u || negb match pathSegs u with [] => true | _ :: _ => false end);
      cbn [concat app opt_post opt_pre]; rewrite <- ?app_assoc; cbn [app]; rewrite ?app_nil_r; reflexivity.
  - rewrite andb_false_r. cbn [andb].
    destruct (scheme u), (query u), (fragment u), (absolutePath u || false);
      cbn [concat app opt_post opt_pre]; rewrite <- ?app_assoc; cbn [app]; rewrite ?app_nil_r; reflexivity.
Qed.

(* the path text as a non-empty list of segments joined with "/" *)
Definition text_segs (u : uri) : list Chars.text :=
  (if absolutePath u || (is_some (hostText u) && negb (match pathSegs u with [] => true | _ => false end))
   then [[]] else [])
  ++ match pathSegs u with [] => [[]] | _ => pathSegs u end.

Lemma path_text_join u : path_text u = join_slash (text_segs u).
Proof.
  unfold path_text, text_segs.
  destruct (absolutePath u || _); destruct (pathSegs u) as [|s r]; reflexivity.
Qed.

Lemma text_segs_ok u : Forall (text_ok is_pchar) (pathSegs u) ->
  text_segs u <> [] /\ Forall (text_ok is_pchar) (text_segs u).
Proof.
  intros H. unfold text_segs. assert (text_ok is_pchar []) as H0 by (split; reflexivity).
  destruct (absolutePath u || _); destruct (pathSegs u) as [|s r]; cbn [app];
    (split; [discriminate|]); try exact H; repeat (apply Forall_cons; [exact H0|]); try exact H; constructor.
Qed.

(* with an authority the path text is "/" segment "/" segment ... *)
Lemma path_text_hosted u h : hostText u = Some h -> absolutePath u = false -> path_text u = slashed (pathSegs u).
Proof.
  intros E Ha. unfold path_text. rewrite E, Ha. cbn [is_some orb andb].
  destruct (pathSegs u) as [|s r]; [reflexivity|]. cbn [negb]. rewrite slashed_join by discriminate. reflexivity.
Qed.

(* ================================================================ 4. A1: the text is a URI reference *)
Lemma opt_post_matches r o c : opt_ok (matches r) o -> matches (Rfc3986.opt (Seq r (Rfc3986.ch c))) (opt_post o [c]).
Proof.
  destruct o as [t|]; cbn [opt_ok opt_post]; intros H; [|apply m_opt_none].
  apply m_opt_some. apply MSeq; [exact H|apply m_ch].
Qed.
Lemma opt_pre_matches r o c : opt_ok (matches r) o -> matches (Rfc3986.opt (Seq (Rfc3986.ch c) r)) (opt_pre [c] o).
Proof.
  destruct o as [t|]; cbn [opt_ok opt_pre]; intros H; [|apply m_opt_none].
  apply m_opt_some. apply MSeq; [apply m_ch|exact H].
Qed.

Lemma host_matches u h : host_ok u -> hostText u = Some h -> matches Rfc3986.host (host_wr u h).
Proof.
  unfold host_ok, host_wr, host_written, is_lit. intros H E. rewrite E in H. destruct H as [_ H].
  unfold Rfc3986.host. cbn [Rfc3986.alts].
  destruct (ip4 u) as [o|], (ip6 u) as [b|], (ipFuture u) as [f|]; try contradiction; cbn [is_some orb].
  - destruct H as [Hm _]. apply MAltR. apply MAltL. apply matchb_spec. exact Hm.
  - destruct H as [Hl Hb]. apply MAltL. unfold Rfc3986.IP_literal. cbn [Rfc3986.seqs].
    apply MSeq; [apply m_ch|]. apply MSeq; [|apply m_ch]. apply MAltL. exact (groups_text_ip6 b Hl Hb).
  - destruct H as [_ Hm]. apply MAltL. unfold Rfc3986.IP_literal. cbn [Rfc3986.seqs].
    apply MSeq; [apply m_ch|]. apply MSeq; [|apply m_ch]. apply MAltR. apply matchb_spec. exact Hm.
  - apply MAltR. apply MAltR. exact (regname_matches h H).
Qed.

Lemma authority_matches u h : produced_wf u -> hostText u = Some h ->
  matches Rfc3986.authority (opt_post (userInfo u) [64] ++ host_wr u h ++ opt_pre [58] (portText u)).
Proof.
  intros (_ & Hui & Hh & Hpo & _) E. unfold Rfc3986.authority. cbn [Rfc3986.seqs].
  apply MSeq; [|apply MSeq].
  - apply opt_post_matches. revert Hui. apply opt_ok_impl. exact userinfo_matches.
  - exact (host_matches u h Hh E).
  - apply opt_pre_matches. revert Hpo. apply opt_ok_impl. exact port_matches.
Qed.

Lemma pchar_no_slash s : text_ok is_pchar s -> avoid [47] s.
Proof. intros [Hc _]. revert Hc. apply class_avoid. reflexivity. Qed.

Lemma slashed_stops47 ps : stops_at [47] (slashed ps).
Proof. destruct ps; [exact I|reflexivity]. Qed.

(* the first segment of a joined path *)
Lemma first_segment s r : text_ok is_pchar s -> span_until [47] (join_slash (s :: r)) = (s, slashed r).
Proof.
  intros Hs. rewrite join_slash_cons. apply span_app; [exact (pchar_no_slash s Hs)|apply slashed_stops47].
Qed.

(* the path of a reference without authority: path-absolute / path-rootless or path-noscheme / path-empty *)
Lemma hostless_path_matches (L : list Chars.text) (sch : bool) :
  L <> [] -> Forall (text_ok is_pchar) L -> no_dslash_start (join_slash L) ->
  (sch = false -> ~ In 58 (fst (span_until [47] (join_slash L)))) ->
  matches (Alt Rfc3986.path_absolute
            (Alt (if sch then Rfc3986.path_rootless else Rfc3986.path_noscheme) Rfc3986.path_empty))
          (join_slash L).
Proof.
  intros Hn Hf Hd Hc. destruct L as [|s r]; [contradiction|].
  inversion Hf as [|? ? Hs Hr]; subst.
  rewrite (first_segment s r Hs) in Hc. cbn [fst] in Hc.
  rewrite join_slash_cons in *. destruct s as [|c s].
  - cbn [app] in *. destruct r as [|s2 r2].
    + apply MAltR. apply MAltR. constructor.
    + inversion Hr as [|? ? Hs2 Hr2]; subst.
      unfold slashed in *. cbn [map concat] in *. fold (slashed r2) in *.
      apply MAltL. unfold Rfc3986.path_absolute.
      change ((47 :: s2) ++ slashed r2) with ([47] ++ s2 ++ slashed r2). apply MSeq; [apply m_ch|].
      destruct s2 as [|c2 s2].
      * destruct r2 as [|s3 r3]; [apply m_opt_none|]. exfalso. unfold no_dslash_start in Hd. discriminate Hd.
      * apply m_opt_some. apply MSeq; [apply segment_nz_matches; [exact Hs2|discriminate]|exact (abempty_matches r2 Hr2)].
  - apply MAltR. apply MAltL. destruct sch.
    + unfold Rfc3986.path_rootless. apply MSeq; [apply segment_nz_matches; [exact Hs|discriminate]|exact (abempty_matches r Hr)].
    + unfold Rfc3986.path_noscheme.
      apply MSeq; [apply segment_nz_nc_matches; [exact Hs|exact (Hc eq_refl)|discriminate]|exact (abempty_matches r Hr)].
Qed.

Lemma hier_matches u : produced_wf u ->
  matches (Alt (Rfc3986.seqs [Rfc3986.ch 47; Rfc3986.ch 47; Rfc3986.authority; Rfc3986.path_abempty])
            (Alt Rfc3986.path_absolute
              (Alt (if is_some (scheme u) then Rfc3986.path_rootless else Rfc3986.path_noscheme) Rfc3986.path_empty)))
          (auth_text u ++ path_text u).
Proof.
  intros Hwf. pose proof Hwf as (_ & _ & Hh & _ & Hps & _ & _ & Hpu & _).
  unfold auth_text. destruct (hostText u) as [h|] eqn:E.
  - apply MAltL. cbn [Rfc3986.seqs].
    assert (absolutePath u = false) as Ha by (unfold host_ok in Hh; rewrite E in Hh; exact (proj1 Hh)).
    rewrite (path_text_hosted u h E Ha).
    change ([47; 47] ++ ?X) with ([47] ++ [47] ++ X). rewrite <- !app_assoc.
    apply MSeq; [apply m_ch|]. apply MSeq; [apply m_ch|].
    rewrite !app_assoc. apply MSeq; [|exact (abempty_matches _ Hps)].
    rewrite <- app_assoc. exact (authority_matches u h Hwf E).
  - apply MAltR. cbn [app]. unfold path_unambiguous in Hpu. rewrite E in Hpu. destruct Hpu as [Hd Hc].
    rewrite path_text_join in *. destruct (text_segs_ok u Hps) as [Hn Hf].
    apply hostless_path_matches; [exact Hn|exact Hf|exact Hd|].
    intros Hs. apply Hc. destruct (scheme u); [discriminate Hs|reflexivity].
Qed.

Theorem produced_text_valid u : produced_wf u -> matches Rfc3986.URI_reference (to_text u).
Proof.
  intros Hwf. pose proof Hwf as (Hsc & _ & Hh & _ & _ & Hqu & Hfr & _).
  rewrite (to_text_parts u Hh). pose proof (hier_matches u Hwf) as Hp.
  assert (matches (Rfc3986.opt (Seq (Rfc3986.ch 63) Rfc3986.query)) (opt_pre [63] (query u))) as Mq.
  { apply opt_pre_matches. revert Hqu. apply opt_ok_impl. exact qf_matches. }
  assert (matches (Rfc3986.opt (Seq (Rfc3986.ch 35) Rfc3986.fragment)) (opt_pre [35] (fragment u))) as Mf.
  { apply opt_pre_matches. revert Hfr. apply opt_ok_impl. exact qf_matches. }
  unfold qf_part. rewrite (app_assoc (auth_text u)).
  unfold Rfc3986.URI_reference. destruct (scheme u) as [sc|]; cbn [opt_post opt_ok is_some] in *.
  - apply MAltL. unfold Rfc3986.URI. cbn [Rfc3986.seqs]. rewrite <- app_assoc.
    apply MSeq; [exact (scheme_matches sc Hsc)|]. apply MSeq; [apply m_ch|].
    apply MSeq; [exact Hp|]. apply MSeq; assumption.
  - apply MAltR. unfold Rfc3986.relative_ref. cbn [Rfc3986.seqs app].
    apply MSeq; [exact Hp|]. apply MSeq; assumption.
Qed.

(* ================================================================ 5. A2: the splitter on the text *)
(* splitting at "/" and joining with "/" is the identity *)
Lemma join_split p : join_slash (split_on 47 p) = p.
Proof.
  induction p as [|c r IH]; [reflexivity|]. cbn [split_on]. destruct (c =? 47) eqn:E.
  - apply N.eqb_eq in E. subst c. rewrite join_slash_cons. cbn [app].
    rewrite slashed_join by apply split_on_nonnil. rewrite IH. reflexivity.
  - destruct (split_on 47 r) as [|x xs] eqn:Es; [exfalso; exact (split_on_nonnil 47 r Es)|].
    rewrite join_slash_cons in *. cbn [app]. rewrite IH. reflexivity.
Qed.

(* the path text of an object with the given flags *)
Definition pt (hosted abs : bool) (segs : list Chars.text) : Chars.text :=
  (if abs || (hosted && negb (match segs with [] => true | _ => false end)) then [47] else [])
  ++ join_slash segs.

Lemma path_text_pt u : path_text u = pt (is_some (hostText u)) (absolutePath u) (pathSegs u).
Proof. reflexivity. Qed.

(* whatever path text is split, the flag and segments obtained have that path text -- provided that
   after an authority the path is empty or begins with "/" *)
Lemma sp_path_text (auth : option Chars.text) (P : Chars.text) :
  (auth <> None -> P = [] \/ head_is 47 P = true) ->
  pt (is_some auth) (fst (sp_path auth P)) (snd (sp_path auth P)) = P.
Proof.
  intros H. destruct P as [|c p]; [destruct auth; reflexivity|].
  unfold sp_path. cbn [strip_char]. destruct (c =? 47) eqn:E.
  - apply N.eqb_eq in E. subst c. destruct auth as [a|]; cbn [fst snd is_some].
    + unfold pt. destruct (split_on 47 p) as [|x xs] eqn:Es; [exfalso; exact (split_on_nonnil 47 p Es)|].
      cbn [orb andb negb app]. rewrite <- Es, join_split. reflexivity.
    + unfold pt. cbn [orb app]. destruct p as [|d p]; [reflexivity|]. rewrite join_split. reflexivity.
  - destruct auth as [a|]; cbn [fst snd is_some].
    + exfalso. destruct H as [H|H]; [discriminate|discriminate H|]. cbn [head_is] in H. rewrite E in H. discriminate H.
    + unfold pt. cbn [orb andb app]. apply join_split.
Qed.

Lemma sp_path_some a a' P : sp_path (Some a) P = sp_path (Some a') P.
Proof. unfold sp_path. destruct P as [|c p]; [reflexivity|]. destruct (strip_char 47 (c :: p)); reflexivity. Qed.

(* what the splitter makes of the text: the object with the host text as written, the address fields
   as the splitter computes them from that text, and the path split at "/" *)
Definition reread_obj (u : uri) : uri :=
  let ps := sp_path (hostText u) (path_text u) in
  match hostText u with
  | None => mkUri (scheme u) None None None None None None (snd ps) (query u) (fragment u) (fst ps) false
  | Some h =>
    let h' := host_written u h in
    mkUri (scheme u) (userInfo u) (Some h')
      (if is_lit u then None else if matchb Rfc3986.IPv4address h' then Some (ip4_value h') else None)
      (ip6 u) (match ipFuture u with Some _ => Some h' | None => None end)
      (portText u) (snd ps) (query u) (fragment u) (fst ps) false
  end.

Lemma future_v_start h : matchb Rfc3986.IPvFuture h = true -> head_is 118 h || head_is 86 h = true.
Proof.
  intros H. apply matchb_spec in H. unfold Rfc3986.IPvFuture in H. cbn [Rfc3986.seqs] in H.
  apply seq_inv in H. destruct H as (a & b & -> & Ha & _). apply chr_inv in Ha. destruct Ha as (c & -> & Hc).
  cbn [app head_is]. destruct Hc as [<-|[<-|[]]]; reflexivity.
Qed.

Lemma avoid6 (t : Chars.text) stops : avoid [47; 63; 35; 64; 91; 93] t ->
  forallb (fun k => mem k [47; 63; 35; 64; 91; 93]) stops = true -> avoid stops t.
Proof.
  intros H Hs. revert H. apply avoid_sub. intros c Hc. apply mem_In in Hc.
  rewrite forallb_forall in Hs. exact (Hs c Hc).
Qed.

(* the written host text contains no delimiter of the authority, and no ":" unless bracketed *)
Lemma host_written_avoid u h : host_ok u -> hostText u = Some h ->
  avoid [47; 63; 35; 64; 91; 93] (host_written u h) /\ (is_lit u = false -> avoid [58] (host_written u h)).
Proof.
  unfold host_ok, host_written, is_lit. intros H E. rewrite E in H. destruct H as [_ H].
  destruct (ip4 u) as [o|], (ip6 u) as [b|], (ipFuture u) as [f|]; try contradiction; cbn [is_some orb].
  - destruct H as [Hm _]. apply matchb_spec in Hm.
    split; [|intros _]; revert Hm; apply matches_avoid; vm_compute; reflexivity.
  - destruct H as [Hl Hb]. pose proof (groups_text_ip6 b Hl Hb) as Hm.
    split; [|intros Hf; discriminate Hf]. revert Hm. apply matches_avoid. vm_compute. reflexivity.
  - destruct H as [_ Hm]. apply matchb_spec in Hm.
    split; [|intros Hf; discriminate Hf]. revert Hm. apply matches_avoid. vm_compute. reflexivity.
  - destruct H as [Hc _]. split; [|intros _]; revert Hc; apply class_avoid; reflexivity.
Qed.

Lemma qf_no_slash qu fr : head_is 47 (qf_part qu fr) = false.
Proof. destruct qu, fr; reflexivity. Qed.

Lemma no_dslash_app P R : no_dslash_start P -> head_is 47 R = false -> no_dslash_start (P ++ R).
Proof.
  unfold no_dslash_start. intros HP HR. destruct P as [|a [|b P]]; cbn [app head_is tl] in *.
  - rewrite HR. reflexivity.
  - rewrite HR. apply andb_false_r.
  - exact HP.
Qed.

Theorem split_to_text u : produced_wf u -> split_spec (to_text u) = reread_obj u.
Proof.
  intros (Hsc & Hui & Hh & Hpo & Hps & Hqu & Hfr & Hpu & Hau).
  rewrite (to_text_parts u Hh), split_spec_stages.
  destruct (text_segs_ok u Hps) as [Hn HL]. pose proof (path_text_join u) as EP.
  assert (avoid [63; 35] (path_text u)) as HP.
  { rewrite EP. apply avoid_join; [reflexivity|]. apply segs_avoid; [reflexivity|exact HL]. }
  assert (opt_ok (avoid [35]) (query u)) as Hq35.
  { revert Hqu. apply opt_ok_impl. intros t [Hc _]. revert Hc. apply class_avoid. reflexivity. }
  destruct (sp_query_qf (query u) (fragment u) Hq35) as [Eq Ef].
  unfold reread_obj, auth_text. destruct (hostText u) as [h|] eqn:E.
  - (* with an authority *)
    assert (absolutePath u = false) as Ha by (unfold host_ok in Hh; rewrite E in Hh; exact (proj1 Hh)).
    pose proof (path_text_hosted u h E Ha) as EPh.
    destruct (host_written_avoid u h Hh E) as [Hh6 Hh58].
    set (h' := host_written u h) in *.
    set (A := opt_post (userInfo u) [64] ++ host_wr u h ++ opt_pre [58] (portText u)).
    rewrite <- !app_assoc.
    rewrite sp_scheme_opt; [|exact Hsc|].
    2:{ intros _. exists [], ([47; 47] ++ A ++ path_text u ++ qf_part (query u) (fragment u)). repeat split; reflexivity. }
    cbv beta iota.
    assert (opt_ok (avoid [47; 63; 35; 64]) (userInfo u)) as Hui'.
    { revert Hui. apply opt_ok_impl. intros t [Hc _]. revert Hc. apply class_avoid. reflexivity. }
    assert (opt_ok (avoid [47; 63; 35; 64]) (portText u)) as Hpo'.
    { revert Hpo. apply opt_ok_impl. intros t Hc. revert Hc. apply class_avoid. reflexivity. }
    assert (forall t, avoid [47; 63; 35; 64] t -> avoid [47; 63; 35] t) as Hsub.
    { intros t. apply avoid_sub. intros c. cbn [mem]. intros H. rewrite !orb_true_iff in *. tauto. }
    assert (avoid [47; 63; 35] A) as HA.
    { unfold A. apply avoid_app; [apply avoid_opt_post; [revert Hui'; apply opt_ok_impl; exact Hsub|reflexivity]|].
      apply avoid_app; [|apply avoid_opt_pre; [revert Hpo'; apply opt_ok_impl; exact Hsub|reflexivity]].
      unfold host_wr. fold h'. pose proof (avoid6 h' [47; 63; 35] Hh6 eq_refl) as H3.
      destruct (is_lit u); [|exact H3]. apply avoid_app; [reflexivity|]. apply avoid_app; [exact H3|reflexivity]. }
    rewrite sp_auth_some; [|exact HA|rewrite EPh; apply slashed_stops; apply qf_stops3]. cbv beta iota.
    rewrite span_app; [|exact HP|apply qf_stops]. cbv beta iota.
    rewrite Eq. cbv beta iota zeta. rewrite Ef.
    rewrite (sp_path_some A h (path_text u)). unfold Chars.text in *.
    destruct (sp_path (Some h) (path_text u)) as [abs segs]. cbn [fst snd].
    unfold sp_build, A, host_wr. fold h'. rewrite split_authority_parts.
    + clear Hh6 Hh58 HA A. subst h'. unfold host_ok in Hh. rewrite E in Hh. destruct Hh as [_ Hh].
      unfold host_written, is_lit.
      destruct (ip4 u) as [o|], (ip6 u) as [b|], (ipFuture u) as [f|]; try contradiction; cbn [is_some orb].
      * reflexivity.
      * destruct Hh as [Hl Hb]. rewrite (groups_text_not_v b Hl Hb), (ip6_value_groups_text b Hl Hb). reflexivity.
      * destruct Hh as [_ Hm]. rewrite (future_v_start h Hm). reflexivity.
      * reflexivity.
    + revert Hui'. apply opt_ok_impl. intros t. apply avoid_sub. intros c. cbn [mem]. intros H. rewrite !orb_true_iff in *. tauto.
    + apply (avoid_notin _ _ 64 Hh6). reflexivity.
    + revert Hpo'. apply opt_ok_impl. intros t Ht. apply (avoid_notin _ _ 64 Ht). reflexivity.
    + destruct (is_lit u); [exact (avoid6 h' [93] Hh6 eq_refl)|]. split; [exact (Hh58 eq_refl)|exact (avoid6 h' [91] Hh6 eq_refl)].
  - (* without *)
    unfold path_unambiguous in Hpu. rewrite E in Hpu. destruct Hpu as [Hd Hc]. cbn [app].
    rewrite sp_scheme_opt; [|exact Hsc|].
    2:{ intros Hs. specialize (Hc Hs). rewrite EP in *.
        destruct (text_segs u) as [|s r]; [contradiction|]. inversion HL as [|? ? Hs1 Hr]; subst.
        rewrite (first_segment s r Hs1) in Hc. cbn [fst] in Hc. rewrite join_slash_cons.
        exists s, (slashed r ++ qf_part (query u) (fragment u)). rewrite <- app_assoc.
        split; [reflexivity|]. split; [|apply slashed_stops; apply qf_stops3].
        destruct Hs1 as [Hs1 _]. pose proof (class_avoid is_pchar [47; 63; 35] s eq_refl Hs1) as H3.
        unfold avoid in *. rewrite forallb_forall in *. intros c Hi. specialize (H3 c Hi). cbn [mem] in *.
        destruct (c =? 58) eqn:E58; [apply N.eqb_eq in E58; subst; contradiction|exact H3]. }
    cbv beta iota. rewrite sp_auth_none by (apply no_dslash_app; [exact Hd|apply qf_no_slash]). cbv beta iota.
    rewrite span_app; [|exact HP|apply qf_stops]. cbv beta iota.
    rewrite Eq. cbv beta iota zeta. rewrite Ef.
    unfold Chars.text in *. destruct (sp_path None (path_text u)) as [abs segs]. reflexivity.
Qed.

Lemma same_meaning_reread u : produced_wf u -> same_meaning u (reread_obj u).
Proof.
  intros (_ & _ & Hh & _ & _ & _ & _ & _ & Hau).
  assert (path_text (reread_obj u) = path_text u) as EP.
  { rewrite (path_text_pt (reread_obj u)). unfold reread_obj.
    destruct (hostText u) as [h|] eqn:E;
      cbn [hostText absolutePath pathSegs]; change (is_some (Some ?x)) with (is_some (Some h)).
    - apply sp_path_text. intros _.
      assert (absolutePath u = false) as Ha by (unfold host_ok in Hh; rewrite E in Hh; exact (proj1 Hh)).
      rewrite (path_text_hosted u h E Ha). destruct (pathSegs u); [left|right]; reflexivity.
    - apply sp_path_text. intros H. contradiction. }
  unfold same_meaning. rewrite EP. clear EP.
  unfold reread_obj, host_of, auth_ok, host_written in *. destruct (hostText u) as [h|];
    cbn [scheme userInfo hostText ip6 ipFuture portText query fragment].
  - repeat split. destruct (ip6 u); [reflexivity|]. destruct (ipFuture u); reflexivity.
  - destruct Hau as [-> ->]. repeat split.
Qed.

Theorem produced_text_splits u : produced_wf u -> same_meaning u (split_spec (to_text u)).
Proof. intros H. rewrite (split_to_text u H). exact (same_meaning_reread u H). Qed.

(* ================================================================ 6. A3: parsing the text *)
(* when the text read back has an IPv6 host, its host text is the canonical one: an IPv6address *)
Lemma reread_ip6_text u : produced_wf u ->
  forall h, hostText (reread_obj u) = Some h -> ip6 (reread_obj u) <> None -> matches Rfc3986.IPv6address h.
Proof.
  intros (_ & _ & Hh & _) h. unfold reread_obj, host_written, host_ok in *.
  destruct (hostText u) as [hu|]; cbn [hostText ip6]; [|discriminate].
  intros Eh H6. destruct Hh as [_ Hh]. destruct (ip6 u) as [b|]; [|contradiction].
  injection Eh as <-. destruct (ip4 u), (ipFuture u); try contradiction.
  destruct Hh as [Hl Hb]. exact (groups_text_ip6 b Hl Hb).
Qed.

Lemma path_text_spec_addr v : path_text (spec_addr v) = path_text v.
Proof. destruct v. reflexivity. Qed.

Theorem produced_reread u : produced_wf u -> exists v, parse (to_text u) = POk v /\ same_meaning u v.
Proof.
  intros Hwf. destruct (proj2 (parse_accepts_iff _) (produced_text_valid u Hwf)) as [v Hv].
  exists v. split; [exact Hv|].
  pose proof (parse_split _ _ Hv) as Hs. rewrite (split_to_text u Hwf) in Hs.
  pose proof (same_meaning_reread u Hwf) as Hm. pose proof (reread_ip6_text u Hwf) as H6.
  rewrite Hs in Hm, H6.
  assert (host_of (spec_addr v) = host_of v) as EH.
  { destruct (parse_wf _ _ Hv) as (_ & (_ & Hf) & _ & _).
    destruct v as [sc ui ht i4 i6 fu po ps qu fr ab ow]. unfold spec_addr, host_of, is_lit in *.
    cbn [scheme userInfo hostText ip4 ip6 ipFuture portText pathSegs query fragment absolutePath owner] in *.
    destruct ht as [h|]; [|reflexivity]. destruct i6 as [b|]; [|reflexivity].
    destruct Hf as [_ Hf]. destruct fu; [contradiction|]. destruct Hf as (_ & -> & _).
    assert (matches Rfc3986.IPv6address h) as M by (apply H6; [reflexivity|discriminate]).
    destruct (ip6_bytes_value h M) as [-> _]. reflexivity. }
  unfold same_meaning in *. rewrite <- EH, <- (path_text_spec_addr v).
  destruct v. exact Hm.
Qed.

(* ================================================================ 7. A4: the two ambiguity clauses are needed *)
Lemma not_host_set u : is_host_set u = false ->
  hostText u = None /\ ip4 u = None /\ ip6 u = None /\ ipFuture u = None.
Proof.
  unfold is_host_set. destruct (hostText u), (ip4 u), (ip6 u), (ipFuture u); cbn; intros H; try discriminate H.
  repeat split.
Qed.

Lemma hostless_text u : is_host_set u = false ->
  to_text u = opt_post (scheme u) [58] ++ path_text u ++ qf_part (query u) (fragment u).
Proof.
  intros H. destruct (not_host_set u H) as (E & E4 & E6 & Ef).
  assert (host_ok u) as Hh by (unfold host_ok; rewrite E; auto).
  rewrite (to_text_parts u Hh). unfold auth_text. rewrite E. reflexivity.
Qed.

Lemma sp_build_some sch a abs segs q f : hostText (sp_build sch (Some a) abs segs q f) <> None.
Proof.
  unfold sp_build. destruct (split_authority a) as [[[ui h] lit] port].
  destruct lit; [destruct (head_is 118 h || head_is 86 h)|]; discriminate.
Qed.

(* a path text "//..." without authority is read back as an authority *)
Lemma dslash_reads_authority u : opt_ok scheme_ok (scheme u) -> is_host_set u = false ->
  head_is 47 (path_text u) && head_is 47 (tl (path_text u)) = true ->
  hostText (split_spec (to_text u)) <> None.
Proof.
  intros Hsc Hn Hd. rewrite (hostless_text u Hn), split_spec_stages.
  destruct (path_text u) as [|c1 [|c2 P]]; cbn [head_is tl] in Hd; rewrite ?andb_false_r in Hd; try discriminate Hd.
  apply andb_true_iff in Hd. destruct Hd as [E1 E2].
  apply N.eqb_eq in E1. apply N.eqb_eq in E2. subst c1 c2.
  rewrite sp_scheme_opt; [|exact Hsc|].
  2:{ intros _. exists [], ((47 :: 47 :: P) ++ qf_part (query u) (fragment u)). repeat split; reflexivity. }
  cbv beta iota. unfold sp_auth. cbn [app]. rewrite !strip_char_cons.
  destruct (span_until [47; 63; 35] _) as [a r']. cbv beta iota.
  destruct (span_until [63; 35] r') as [path rest3]. destruct (sp_query rest3) as [qry rest4].
  cbv beta iota zeta. destruct (sp_path (Some a) path) as [abs segs]. apply sp_build_some.
Qed.

Theorem dslash_necessary u : opt_ok scheme_ok (scheme u) -> is_host_set u = false ->
  head_is 47 (path_text u) && head_is 47 (tl (path_text u)) = true ->
  ~ same_meaning u (split_spec (to_text u))
  /\ forall v, parse (to_text u) = POk v -> ~ same_meaning u v.
Proof.
  intros Hsc Hn Hd. pose proof (dslash_reads_authority u Hsc Hn Hd) as Hh.
  destruct (not_host_set u Hn) as (E & _).
  assert (forall w, hostText w <> None -> ~ same_meaning u w) as Hne.
  { intros w Hw (_ & _ & Hm & _). unfold host_of in Hm. rewrite E in Hm.
    destruct (hostText w); [|contradiction]. destruct (ip6 w); discriminate Hm. }
  split; [exact (Hne _ Hh)|].
  intros v Hv. apply Hne. rewrite (parse_split _ _ Hv) in Hh. destruct v. exact Hh.
Qed.

(* a first segment "a:b" in a reference without scheme and authority is read back as a scheme (if
   the text is accepted at all: "1:b" is no URI reference) *)
Lemma colon_reads_scheme u : scheme u = None -> is_host_set u = false ->
  Forall (text_ok is_pchar) (pathSegs u) ->
  In 58 (fst (span_until [47] (path_text u))) ->
  forall v, parse (to_text u) = POk v -> scheme v <> None.
Proof.
  intros Hsc Hn Hps Hc v Hv Hvs.
  pose proof (hostless_text u Hn) as Et. rewrite Hsc in Et. cbn [opt_post app] in Et.
  destruct (text_segs_ok u Hps) as [Hne HL]. rewrite path_text_join in *.
  destruct (text_segs u) as [|sg r]; [contradiction|]. inversion HL as [|? ? Hsg Hr]; subst.
  rewrite (first_segment sg r Hsg) in Hc. cbn [fst] in Hc. rewrite join_slash_cons, <- app_assoc in Et.
  (* the text as the splitter sees it from u's side *)
  assert (span_until [47; 63; 35] (to_text u) = (sg, slashed r ++ qf_part (query u) (fragment u))) as S1.
  { rewrite Et. apply span_app; [|apply slashed_stops; apply qf_stops3].
    destruct Hsg as [Hcl _]. revert Hcl. apply class_avoid. reflexivity. }
  (* and from v's side *)
  pose proof (parse_unparse _ _ Hv) as Eu.
  destruct (parse_wf _ _ Hv) as ((_ & _ & _ & _ & Hvps & _) & (_ & Hf) & Hpa & _).
  destruct sg as [|c0 sg']; [destruct Hc|].
  assert (is_pchar c0 = true) as Hc0.
  { destruct Hsg as [Hcl _]. cbn [forallb] in Hcl. apply andb_true_iff in Hcl. exact (proj1 Hcl). }
  unfold unparse, scheme_part, authority_part, path_part, path_ok in *. rewrite Hvs in *.
  cbn [opt_post app] in Eu. rewrite Et in Eu.
  destruct (hostText v) as [hv|].
  - cbn [app] in Eu. injection Eu as Eu _. subst c0. discriminate Hc0.
  - cbn [is_some app] in Eu. destruct (absolutePath v).
    + cbn [app] in Eu. injection Eu as Eu _. subst c0. discriminate Hc0.
    + cbn [app] in Eu. destruct (pathSegs v) as [|g rv].
      * cbn [join_slash app] in Eu. destruct (query v), (fragment v); cbn [opt_pre app] in Eu;
          try discriminate Eu; injection Eu as Eu _; subst c0; discriminate Hc0.
      * destruct Hpa as [_ Hg]. specialize (Hg eq_refl eq_refl).
        inversion Hvps as [|? ? Hg1 Hrv]; subst.
        rewrite join_slash_cons, <- app_assoc in Eu. fold (qf_part (query v) (fragment v)) in Eu.
        assert (span_until [47; 63; 35] (to_text u) = (g, slashed rv ++ qf_part (query v) (fragment v))) as S2.
        { rewrite Et. cbn [app] in Eu |- *. rewrite <- Eu. apply span_app; [|apply slashed_stops; apply qf_stops3].
          destruct Hg1 as [Hcl _]. revert Hcl. apply class_avoid. reflexivity. }
        rewrite S1 in S2. injection S2 as Eg _. apply Hg. rewrite <- Eg. exact Hc.
Qed.

Theorem colon_necessary u : scheme u = None -> is_host_set u = false ->
  Forall (text_ok is_pchar) (pathSegs u) ->
  In 58 (fst (span_until [47] (path_text u))) ->
  ~ (matches Rfc3986.URI_reference (to_text u) /\ same_meaning u (split_spec (to_text u)))
  /\ forall v, parse (to_text u) = POk v -> ~ same_meaning u v.
Proof.
  intros Hsc Hn Hps Hc. pose proof (colon_reads_scheme u Hsc Hn Hps Hc) as H. split.
  - intros [M (Es & _)]. apply parse_accepts_iff in M. destruct M as [v Hv].
    apply (H v Hv). rewrite (parse_split _ _ Hv) in Es. rewrite Hsc in Es. destruct v. symmetry. exact Es.
  - intros v Hv (Es & _). apply (H v Hv). rewrite <- Es. exact Hsc.
Qed.
