(* Every object the parser builds satisfies the condition [produced_wf] of Spec/Reread.v (property C07:
   the objects for which writing and reading back keeps the meaning).  From [parse_wf] (the
   characters of every component, the host flags, the path shape), the grammar of the bracketed literal
   (Proofs/ParseAssemble.v) and the address lemmas (Proofs/Ip4Proofs.v, Proofs/Ip6Proofs.v). *)
From Coq Require Import List NArith Bool Lia.
From UP Require Spec.Rfc3986.
From UP Require Import Base.Chars Base.Regex Model.Uri Model.Ip4 Model.Parse
  Spec.Split Spec.NormalWf Spec.Unparse Spec.Reread
  Proofs.ParseWfStep Proofs.ParseWf Proofs.ParseSplit Proofs.Ip4Proofs Proofs.Ip6Proofs Proofs.ParseAssemble.
Import ListNotations.
Local Open Scope N_scope.

Lemma span_until_stop stops c r : mem c stops = true -> span_until stops (c :: r) = ([], c :: r).
Proof. intros H. cbn [span_until]. rewrite H. reflexivity. Qed.

Lemma pchar_not_slash c : is_pchar c = true -> (c =? 47) = false.
Proof.
  intros H. destruct (c =? 47) eqn:E; [|reflexivity]. apply N.eqb_eq in E. subst c. vm_compute in H. discriminate H.
Qed.

(* one kind of host, described consistently: the classification and the address data of a parsed
   object are those of the grammar *)
Theorem parsed_host_ok s u : parse s = POk u -> host_ok u.
Proof.
  intros H. destruct (parse_wf s u H) as ((_ & _ & C3 & _) & (_ & Hf) & _ & _).
  unfold host_ok. destruct (hostText u) as [h|] eqn:Eh; [|exact Hf].
  destruct Hf as [Hab Hf]. split; [exact Hab|].
  destruct (ip6 u) as [b|] eqn:E6.
  - destruct (ipFuture u); [contradiction|]. destruct Hf as (E4 & Eb & _). rewrite E4.
    assert (Mh : matches Rfc3986.IPv6address h) by (apply (parsed_ip6_matches s u h H Eh); rewrite E6; discriminate).
    rewrite Eb. split; [exact (proj2 (ip6_bytes_value h Mh))|exact (ip6_bytes_octets h Mh)].
  - destruct (ipFuture u) as [f|] eqn:Efu.
    + destruct Hf as (E4 & Ef & _). rewrite E4. split; [exact Ef|]. apply matchb_spec.
      apply (parsed_future_matches s u h H Eh). rewrite Efu. discriminate.
    + rewrite Hf, parse_ip4_spec. cbn [is_some] in C3.
      destruct (matchb Rfc3986.IPv4address h) eqn:M; [split; reflexivity|exact C3].
Qed.

(* the path of a parsed object cannot be read back as an authority or as a scheme *)
Theorem parsed_path_unambiguous s u : parse s = POk u -> path_unambiguous u.
Proof.
  intros H. destruct (parse_wf s u H) as ((_ & _ & _ & _ & C5 & _) & _ & Hp & _).
  unfold path_unambiguous, path_text. unfold path_ok in Hp.
  destruct (hostText u) as [h|] eqn:Eh; [exact I|]. cbn [is_some andb]. rewrite orb_false_r.
  destruct (pathSegs u) as [|sg r] eqn:Eps.
  - cbn [join_slash]. rewrite app_nil_r. destruct (absolutePath u); (split; [reflexivity|intros _ []]).
  - destruct Hp as [Hne Hcol]. inversion C5 as [|? ? Hsg Hr]; subst. destruct Hsg as [Hcls _].
    rewrite join_slash_cons. destruct sg as [|c sg']; [contradiction|].
    assert (Hc : (c =? 47) = false).
    { cbn [forallb] in Hcls. apply andb_true_iff in Hcls. apply pchar_not_slash. apply Hcls. }
    split.
    + destruct (absolutePath u); cbn [app head_is tl]; rewrite Hc; [apply andb_false_r|reflexivity].
    + intros Hs. destruct (absolutePath u) eqn:Eab; cbn [app].
      * rewrite span_until_stop by reflexivity. intros [].
      * change (c :: sg' ++ slashed r) with ((c :: sg') ++ slashed r). rewrite (span_app [47] (c :: sg') (slashed r)).
        -- cbn [fst]. apply Hcol; [exact Hs|reflexivity].
        -- revert Hcls. apply class_avoid. reflexivity.
        -- destruct r; [exact I|reflexivity].
Qed.

Theorem parsed_produced_wf s u : parse s = POk u -> produced_wf u.
Proof.
  intros H. destruct (parse_wf s u H) as ((C1 & C2 & _ & C4 & C5 & C6 & C7) & _ & _ & Ha).
  unfold produced_wf.
  split; [exact C1|]. split; [exact C2|]. split; [exact (parsed_host_ok s u H)|]. split; [exact C4|].
  split; [exact C5|]. split; [exact C6|]. split; [exact C7|]. split; [exact (parsed_path_unambiguous s u H)|exact Ha].
Qed.
