(* Property C04 on top of C02: what uriToString (Model/Recompose.v to_text) writes for a parsed
   object.  The engine prints every component from its text, except the host of an IPv4 / IPv6 URI,
   which it renders from the stored address bytes.  So: [to_text u] is [unparse u] with the engine's
   rendering in place of the host as written -- for a registered name or an IPvFuture literal that
   is the input itself. *)
From Coq Require Import List NArith Bool Lia ZArith.
From UP Require Import Base.Chars Base.Regex Model.Uri Model.Ip4 Model.Parse Model.Recompose
  Spec.Split Spec.NormalWf Spec.Unparse Spec.Recompose
  Proofs.ParseData Proofs.ParseWfStep Proofs.ParseWf Proofs.ParseSplit.
Import ListNotations.
Local Open Scope N_scope.

(* the host as the engine writes it *)
Definition host_rendered (u : uri) : text :=
  concat (match ip4 u, ip6 u, ipFuture u, hostText u with
          | Some o, _, _, _ => ip4_pieces o 0
          | None, Some b, _, _ => [[91]] ++ ip6_byte_pieces b 0 ++ [[93]]
          | None, None, Some t, _ => [[91]; t; [93]]
          | None, None, None, Some t => [t]
          | None, None, None, None => []
          end).

(* [unparse] with another text for the host (brackets included) *)
Definition unparse_with (hw : text) (u : uri) : text :=
  scheme_part u
  ++ (match hostText u with
      | Some _ => [47; 47] ++ opt_post (userInfo u) [64] ++ hw ++ opt_pre [58] (portText u)
      | None => []
      end)
  ++ path_part u ++ opt_pre [63] (query u) ++ opt_pre [35] (fragment u).

Lemma unparse_as_with u : unparse u = unparse_with (match hostText u with Some h => host_part u h | None => [] end) u.
Proof. unfold unparse, unparse_with, authority_part. destruct (hostText u); reflexivity. Qed.

Lemma concat_path_pieces ps : concat (path_pieces ps) = join_slash ps.
Proof.
  induction ps as [|s r IH]; [reflexivity|]. destruct r as [|s2 r2].
  - cbn. apply app_nil_r.
  - change (path_pieces (s :: s2 :: r2)) with (s :: [47] :: path_pieces (s2 :: r2)).
    change (join_slash (s :: s2 :: r2)) with (s ++ [47] ++ join_slash (s2 :: r2)).
    cbn [concat]. rewrite IH. reflexivity.
Qed.

Lemma concat_opt_pieces pre o post :
  concat (opt_pieces pre o post) = match o with Some t => concat pre ++ t ++ concat post | None => [] end.
Proof. destruct o; [|reflexivity]. unfold opt_pieces. rewrite !concat_app. cbn [concat]. rewrite app_nil_r. reflexivity. Qed.

Theorem to_text_with u : flags_ok parse_ip4 ip6_bytes u -> to_text u = unparse_with (host_rendered u) u.
Proof.
  intros Hf. pose proof Hf as [_ Hf'].
  unfold to_text, pieces. rewrite (wf_is_host_set u Hf).
  unfold unparse_with, scheme_part, path_part, host_rendered.
  rewrite !concat_app, !concat_opt_pieces, concat_path_pieces.
  destruct u as [sc ui ht i4 i6 fu po ps qu fr ab ow].
  cbn [scheme userInfo hostText ip4 ip6 ipFuture portText pathSegs query fragment absolutePath owner] in *.
  set (HR := concat match i4 with Some o => ip4_pieces o 0 | None => _ end).
  destruct ht as [h|]; cbn [is_some].
  - destruct Hf' as [-> _]. rewrite !concat_app, !concat_opt_pieces. fold HR. cbn [orb andb].
    rewrite andb_true_r.
    assert (concat (if negb match ps with [] => true | _ :: _ => false end then [[47]] else []) ++ join_slash ps
            = concat (map (fun s : text => 47 :: s) ps)) as Ep.
    { destruct ps as [|s r]; [reflexivity|]. cbn [negb concat app].
      change (concat (map (fun s0 : text => 47 :: s0) (s :: r))) with (slashed (s :: r)).
      rewrite slashed_join by discriminate. reflexivity. }
    rewrite <- Ep.
    destruct sc, ui, po, qu, fr; cbn [concat app opt_post opt_pre]; rewrite <- ?app_assoc; cbn [app];
      rewrite ?app_nil_r; reflexivity.
  - rewrite andb_false_r, orb_false_r.
    destruct sc, qu, fr, ab; cbn [concat app opt_post opt_pre]; rewrite <- ?app_assoc; cbn [app];
      rewrite ?app_nil_r; reflexivity.
Qed.

(* registered names, IPvFuture literals, no host: the engine writes the host text itself *)
Theorem to_text_no_ip u : flags_ok parse_ip4 ip6_bytes u -> ip4 u = None -> ip6 u = None -> to_text u = unparse u.
Proof.
  intros Hf H4 H6. rewrite (to_text_with u Hf), unparse_as_with. f_equal.
  unfold host_rendered, host_part, is_lit. rewrite H4, H6. destruct Hf as [_ Hf].
  destruct (hostText u) as [h|].
  - rewrite H6 in Hf. destruct Hf as [_ Hf]. destruct (ipFuture u) as [f|]; cbn [is_some orb concat app].
    + destruct Hf as (_ & -> & _). rewrite ?app_nil_r. reflexivity.
    + rewrite ?app_nil_r. reflexivity.
  - destruct Hf as (_ & _ & ->). reflexivity.
Qed.

Theorem parse_to_text_no_ip s u : parse s = POk u -> ip4 u = None -> ip6 u = None -> to_text u = s.
Proof.
  intros H H4 H6. rewrite <- (parse_unparse s u H). apply to_text_no_ip; [|exact H4|exact H6].
  exact (proj1 (proj2 (parse_wf s u H))).
Qed.

(* ... consequently parsing that text again gives the same object *)
Corollary parse_reparse_no_ip s u : parse s = POk u -> ip4 u = None -> ip6 u = None -> parse (to_text u) = POk u.
Proof. intros H H4 H6. rewrite (parse_to_text_no_ip s u H H4 H6). exact H. Qed.

(* IPv4 hosts.  [Hrender] is a statement about Model/Ip4.v and the octet printer alone (a dotted
   quad accepted by parse_ip4 has no leading zeros, so printing the octets gives the text back); it
   is proved elsewhere and is a hypothesis here. *)
Theorem parse_to_text_ip4 s u :
  forall (Hrender : forall h o, parse_ip4 h = Some o -> concat (ip4_pieces o 0) = h),
  parse s = POk u -> ip4 u <> None -> to_text u = s.
Proof.
  intros Hrender H H4. rewrite <- (parse_unparse s u H).
  destruct (parse_wf s u H) as (_ & Hf & _ & _). rewrite (to_text_with u Hf), unparse_as_with. f_equal.
  unfold host_rendered, host_part, is_lit. destruct Hf as [_ Hf].
  destruct (hostText u) as [h|]; [|destruct Hf as (E & _); rewrite E in H4; contradiction].
  destruct Hf as [_ Hf]. destruct (ip4 u) as [o|] eqn:E4; [|contradiction].
  destruct (ip6 u), (ipFuture u); try contradiction; try (exfalso; destruct Hf as (Hf' & _); discriminate Hf').
  cbn [is_some orb]. apply Hrender. symmetry. exact Hf.
Qed.

(* IPv6 hosts: the text between the brackets is replaced by the engine's rendering of the 16 bytes;
   everything before "[" and after "]" is reproduced *)
Theorem parse_to_text_ip6 s u b :
  parse s = POk u -> ip6 u = Some b ->
  exists pre h post,
    hostText u = Some h /\ h <> [] /\ b = ip6_bytes h /\ v_start h = false
    /\ avoid [91] pre /\ avoid [93] h
    /\ s = pre ++ [91] ++ h ++ [93] ++ post
    /\ to_text u = pre ++ [91] ++ concat (ip6_byte_pieces b 0) ++ [93] ++ post.
Proof.
  intros H H6. pose proof (parse_unparse s u H) as Hs.
  destruct (parse_wf s u H) as ((Hsc & Hui & Hh & _) & Hf & _ & _).
  pose proof (to_text_with u Hf) as Ht. unfold host_rendered in Ht. rewrite unparse_as_with in Hs.
  unfold host_part, is_lit in Hs. destruct Hf as [_ Hf]. rewrite H6 in *.
  destruct (hostText u) as [h|] eqn:Eh; [|destruct Hf as (_ & Hf & _); discriminate Hf].
  destruct Hf as [_ Hf]. destruct (ipFuture u); [contradiction|]. destruct Hf as (E4 & -> & Hv & Hne).
  rewrite E4 in Ht. cbn [is_some orb] in *.
  unfold unparse_with in *. rewrite Eh in *.
  exists (scheme_part u ++ [47; 47] ++ opt_post (userInfo u) [64]), h,
         (opt_pre [58] (portText u) ++ path_part u ++ opt_pre [63] (query u) ++ opt_pre [35] (fragment u)).
  split; [reflexivity|]. split; [exact Hne|]. split; [reflexivity|]. split; [exact Hv|].
  split; [|split; [|split]].
  - apply avoid_app.
    + unfold scheme_part. destruct (scheme u) as [sc|]; [|reflexivity]. cbn [opt_post opt_ok] in *.
      apply avoid_app; [|reflexivity]. destruct (scheme_ok_class _ Hsc) as [_ Hc]. revert Hc. apply class_avoid. reflexivity.
    + apply avoid_app; [reflexivity|]. destruct (userInfo u) as [t|]; [|reflexivity]. cbn [opt_post opt_ok] in *.
      apply avoid_app; [|reflexivity]. destruct Hui as [Hc _]. revert Hc. apply class_avoid. reflexivity.
  - revert Hh. apply class_avoid. reflexivity.
  - rewrite <- Hs. rewrite <- !app_assoc. reflexivity.
  - rewrite Ht. rewrite !concat_app. cbn [concat]. rewrite <- !app_assoc. cbn [app]. rewrite ?app_nil_r. reflexivity.
Qed.

(* ... which is Spec/Recompose.v canon_ip6 of the input, given that the rendering of the bytes is the
   canonical text of the address value.  [Hcanon] is a statement about the IPv6 scanner
   (ip6_bytes = ip6_value on accepted literals) and the hex printer; it is a hypothesis here. *)
Theorem parse_to_text_ip6_canon s u :
  forall (Hcanon : forall h, hostText u = Some h -> concat (ip6_byte_pieces (ip6_bytes h) 0) = groups_text (ip6_value h)),
  parse s = POk u -> ip6 u <> None -> to_text u = canon_ip6 s.
Proof.
  intros Hcanon H H6. destruct (ip6 u) as [b|] eqn:E6; [|contradiction].
  destruct (parse_to_text_ip6 s u b H E6) as (pre & h & post & Eh & Hne & -> & Hv & Hpre & Hh & -> & Ht).
  rewrite Ht. unfold canon_ip6. rewrite span_app; [|exact Hpre|reflexivity].
  cbn [app]. rewrite strip_char_cons. rewrite span_app; [|exact Hh|reflexivity].
  destruct h as [|c r]; [contradiction|]. unfold v_start in Hv. rewrite Hv.
  rewrite (Hcanon _ Eh). reflexivity.
Qed.

Theorem parse_to_text_with s u : parse s = POk u ->
  to_text u = unparse_with (host_rendered u) u
  /\ s = unparse_with (match hostText u with Some h => host_part u h | None => [] end) u.
Proof.
  intros H. split.
  - apply to_text_with. exact (proj1 (proj2 (parse_wf s u H))).
  - rewrite <- unparse_as_with. symmetry. exact (parse_unparse s u H).
Qed.

(* ---------------------------------------------------------------- the statement of C04 from the two address facts *)
Lemma avoid_join stops ps : mem 47 stops = false -> Forall (avoid stops) ps -> avoid stops (join_slash ps).
Proof.
  intros H47 Hf. destruct ps as [|s r]; [reflexivity|]. rewrite join_slash_cons.
  inversion Hf; subst. apply avoid_app; [assumption|]. apply avoid_slashed; assumption.
Qed.

(* without a bracketed literal there is no "[" in the text at all *)
Lemma unparse_no_bracket u : chars_ok u -> is_lit u = false -> avoid [91] (unparse u).
Proof.
  intros (Hsc & Hui & Hh & Hpo & Hps & Hqu & Hfr) Hl.
  assert (Forall (avoid [91]) (pathSegs u)) as Hps' by (apply segs_avoid; [reflexivity|exact Hps]).
  unfold unparse. repeat apply avoid_app.
  - unfold scheme_part. destruct (scheme u) as [sc|]; [|reflexivity]. cbn [opt_post opt_ok] in *.
    apply avoid_app; [|reflexivity]. destruct (scheme_ok_class _ Hsc) as [_ Hc]. revert Hc. apply class_avoid. reflexivity.
  - unfold authority_part, host_part. rewrite Hl. unfold is_lit in Hl. apply orb_false_iff in Hl. destruct Hl as [H6 Hfu].
    rewrite H6, Hfu in Hh. destruct (hostText u) as [h|]; [|reflexivity].
    apply avoid_app; [reflexivity|]. apply avoid_app; [|apply avoid_app].
    + destruct (userInfo u) as [t|]; [|reflexivity]. cbn [opt_post opt_ok] in *.
      apply avoid_app; [|reflexivity]. destruct Hui as [Hc _]. revert Hc. apply class_avoid. reflexivity.
    + destruct Hh as [Hc _]. revert Hc. apply class_avoid. reflexivity.
    + destruct (portText u) as [t|]; [|reflexivity]. cbn [opt_pre opt_ok] in *.
      apply avoid_app; [reflexivity|]. revert Hpo. apply class_avoid. reflexivity.
  - unfold path_part. destruct (is_some (hostText u)).
    + apply (avoid_slashed [91] _ eq_refl Hps').
    + apply avoid_app; [destruct (absolutePath u); reflexivity|]. apply avoid_join; [reflexivity|exact Hps'].
  - destruct (query u) as [t|]; [|reflexivity]. cbn [opt_pre opt_ok] in *.
    apply avoid_app; [reflexivity|]. destruct Hqu as [Hc _]. revert Hc. apply class_avoid. reflexivity.
  - destruct (fragment u) as [t|]; [|reflexivity]. cbn [opt_pre opt_ok] in *.
    apply avoid_app; [reflexivity|]. destruct Hfr as [Hc _]. revert Hc. apply class_avoid. reflexivity.
Qed.

(* with one, the text is: no "[" ; "[" ; the literal, without "]" ; "]" ; the rest *)
Lemma parse_lit_shape s u h : parse s = POk u -> hostText u = Some h -> is_lit u = true ->
  exists pre post, avoid [91] pre /\ avoid [93] h /\ s = pre ++ [91] ++ h ++ [93] ++ post.
Proof.
  intros H Eh Hl. pose proof (parse_unparse s u H) as Hs.
  destruct (parse_wf s u H) as ((Hsc & Hui & Hh & _) & _ & _ & _).
  unfold unparse, authority_part, host_part in Hs. rewrite Eh, Hl in *.
  exists (scheme_part u ++ [47; 47] ++ opt_post (userInfo u) [64]),
         (opt_pre [58] (portText u) ++ path_part u ++ opt_pre [63] (query u) ++ opt_pre [35] (fragment u)).
  split; [|split].
  - apply avoid_app.
    + unfold scheme_part. destruct (scheme u) as [sc|]; [|reflexivity]. cbn [opt_post opt_ok] in *.
      apply avoid_app; [|reflexivity]. destruct (scheme_ok_class _ Hsc) as [_ Hc]. revert Hc. apply class_avoid. reflexivity.
    + apply avoid_app; [reflexivity|]. destruct (userInfo u) as [t|]; [|reflexivity]. cbn [opt_post opt_ok] in *.
      apply avoid_app; [|reflexivity]. destruct Hui as [Hc _]. revert Hc. apply class_avoid. reflexivity.
  - unfold is_lit in Hl. destruct (is_some (ip6 u)); [revert Hh; apply class_avoid; reflexivity|].
    cbn [orb] in Hl. rewrite Hl in Hh. revert Hh. apply class_avoid. reflexivity.
  - rewrite <- Hs. rewrite <- !app_assoc. reflexivity.
Qed.

(* when the host is not an IPv6 literal the canonical form of the text is the text *)
Lemma canon_ip6_id s u : parse s = POk u -> ip6 u = None -> canon_ip6 s = s.
Proof.
  intros H H6. destruct (parse_wf s u H) as (Hc & (_ & Hf) & _ & _).
  destruct (is_lit u) eqn:Hl.
  - destruct (hostText u) as [h|] eqn:Eh.
    + destruct (parse_lit_shape s u h H Eh Hl) as (pre & post & Hpre & Hh & ->).
      unfold canon_ip6. rewrite span_app; [|exact Hpre|reflexivity].
      cbn [app]. rewrite strip_char_cons. rewrite span_app; [|exact Hh|reflexivity].
      destruct h as [|c r]; [reflexivity|].
      unfold is_lit in Hl. rewrite H6 in Hl, Hf. destruct (ipFuture u); [|discriminate Hl].
      destruct Hf as (_ & _ & _ & Hv). unfold v_start in Hv. rewrite Hv. reflexivity.
    + unfold is_lit in Hl. destruct Hf as (_ & E6 & Efu). rewrite E6, Efu in Hl. discriminate Hl.
  - pose proof (unparse_no_bracket u Hc Hl) as Ha. rewrite (parse_unparse s u H) in Ha.
    unfold canon_ip6. rewrite (span_all [91] s Ha). reflexivity.
Qed.

(* Property C04 in full, from the two facts about the address code (hypotheses, proved elsewhere) *)
Theorem parse_to_text_canon :
  forall (Hrender : forall h o, parse_ip4 h = Some o -> concat (ip4_pieces o 0) = h)
         (Hcanon : forall s u h, parse s = POk u -> hostText u = Some h -> ip6 u <> None ->
                     concat (ip6_byte_pieces (ip6_bytes h) 0) = groups_text (ip6_value h)),
  forall s u, parse s = POk u -> to_text u = canon_ip6 s.
Proof.
  intros Hrender Hcanon s u H. destruct (ip6 u) as [b|] eqn:E6.
  - apply parse_to_text_ip6_canon; [|exact H|rewrite E6; discriminate].
    intros h Eh. apply (Hcanon s u h H Eh). rewrite E6. discriminate.
  - rewrite (canon_ip6_id s u H E6). destruct (ip4 u) as [o|] eqn:E4.
    + apply (parse_to_text_ip4 s u Hrender H). rewrite E4. discriminate.
    + exact (parse_to_text_no_ip s u H E4 E6).
Qed.
