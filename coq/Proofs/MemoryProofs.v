(* C15: the manager completed from a malloc/free backend (Model/Memory.v) refines the ideal
   allocator (Spec/AllocSpec.v), releases every backend block exactly once with the backend's
   own pointer, and never misuses the backend. *)
From UP Require Import Base.Bytes Spec.AllocSpec Model.Memory.
From Coq Require Import ZArith ZifyBool ZifyN ZifyNat Lia.
Local Open Scope N_scope.

(* ------------------------------------------------------------------------------------ *)
(* lists                                                                                *)
(* ------------------------------------------------------------------------------------ *)
Lemma list_eqb_refl : forall l, list_eqb l l = true.
Proof. induction l as [|x l IH]; cbn; [reflexivity|]. now rewrite N.eqb_refl, IH. Qed.

Lemma list_eqb_eq : forall a b, list_eqb a b = true -> a = b.
Proof.
  induction a as [|x a IH]; intros [|y b] H; cbn in H; try discriminate; [reflexivity|].
  apply andb_true_iff in H as [H1 H2]. apply N.eqb_eq in H1. subst. f_equal. now apply IH.
Qed.

Lemma len_app : forall a b, len (a ++ b) = len a + len b.
Proof. intros. unfold len. rewrite app_length. lia. Qed.

Lemma len_repeat : forall x n, len (repeat x n) = N.of_nat n.
Proof. intros. unfold len. now rewrite repeat_length. Qed.

Lemma length_le_bytes : forall k n, length (le_bytes k n) = k.
Proof. induction k as [|k IH]; intros n; cbn [le_bytes length]; [reflexivity|]. now rewrite IH. Qed.

Lemma decode_le_bytes : forall k n, decode_le (le_bytes k n) = n mod 256 ^ N.of_nat k.
Proof.
  induction k as [|k IH]; intros n.
  - cbn. now rewrite N.mod_1_r.
  - cbn [le_bytes decode_le]. rewrite IH, Nat2N.inj_succ, N.pow_succ_r'.
    rewrite N.mod_mul_r; [reflexivity|lia|]. apply N.pow_nonzero. lia.
Qed.

Lemma decode_size : forall n, n < 2 ^ 64 -> decode_le (le_bytes 8 n) = n.
Proof.
  intros n H. rewrite decode_le_bytes.
  replace (256 ^ N.of_nat 8) with (2 ^ 64) by reflexivity. now apply N.mod_small.
Qed.

Lemma skipn_repeat : forall (x : N) k n, skipn k (repeat x n) = repeat x (n - k).
Proof.
  intros x k. induction k as [|k IH]; intros n.
  - now rewrite Nat.sub_0_r.
  - destruct n as [|n]; [reflexivity|]. cbn. apply IH.
Qed.

Lemma firstn_repeat : forall (x : N) k n, (k <= n)%nat -> firstn k (repeat x n) = repeat x k.
Proof.
  intros x k. induction k as [|k IH]; intros n H; [reflexivity|].
  destruct n as [|n]; [lia|]. cbn. f_equal. apply IH. lia.
Qed.

(* splice / slice through an 8-byte (or any) prefix *)
Lemma splice_app : forall h k data rest,
  splice (length h + k) data (h ++ rest) = h ++ splice k data rest.
Proof.
  intros. unfold splice.
  rewrite firstn_app_2. rewrite <- app_assoc. do 2 f_equal.
  rewrite skipn_app.
  rewrite (skipn_all2 h) by lia. cbn [app]. do 2 f_equal. lia.
Qed.

Lemma slice_app : forall h k n rest, slice (length h + k) n (h ++ rest) = slice k n rest.
Proof.
  intros. unfold slice. rewrite skipn_app, (skipn_all2 h) by lia. cbn [app]. do 2 f_equal. lia.
Qed.

Lemma length_splice : forall k data d, (k + length data <= length d)%nat ->
  length (splice k data d) = length d.
Proof.
  intros. unfold splice. rewrite !app_length, firstn_length, skipn_length. lia.
Qed.

Lemma slice_all : forall d n, n = length d -> slice 0 n d = d.
Proof. intros. subst. unfold slice. cbn. apply firstn_all. Qed.

Lemma slice_prefix : forall h rest, slice 0 (length h) (h ++ rest) = h.
Proof.
  intros. unfold slice. cbn [skipn]. rewrite firstn_app, Nat.sub_diag, firstn_all. cbn. apply app_nil_r.
Qed.

(* ------------------------------------------------------------------------------------ *)
(* association lists                                                                    *)
(* ------------------------------------------------------------------------------------ *)
Definition amapf (f : list N -> list N) (m : amap) : amap := map (fun kv => (fst kv, f (snd kv))) m.

Lemma afind_amapf : forall f k m, afind k (amapf f m) = option_map f (afind k m).
Proof.
  intros f k. unfold amapf. induction m as [|[k' v] m IH]; [reflexivity|].
  cbn. destruct (k' =? k); [reflexivity|apply IH].
Qed.
Lemma amem_amapf : forall f k m, amem k (amapf f m) = amem k m.
Proof. intros. unfold amem. rewrite afind_amapf. now destruct (afind k m). Qed.
Lemma aremove_amapf : forall f k m, aremove k (amapf f m) = amapf f (aremove k m).
Proof.
  intros f k. unfold amapf. induction m as [|[k' v] m IH]; [reflexivity|].
  cbn. destruct (k' =? k); cbn; now rewrite IH.
Qed.
Lemma aupdate_amapf : forall f k v m, aupdate k (f v) (amapf f m) = amapf f (aupdate k v m).
Proof.
  intros f k v. unfold amapf. induction m as [|[k' v'] m IH]; [reflexivity|].
  cbn. destruct (k' =? k); cbn; [reflexivity|now rewrite IH].
Qed.

Lemma amem_kmem : forall k m, kmem k (map fst m) = amem k m.
Proof.
  intros k. unfold amem. induction m as [|[k' v] m IH]; [reflexivity|].
  cbn. destruct (k' =? k); [reflexivity|apply IH].
Qed.
Lemma keys_aremove : forall k m, map fst (aremove k m) = kremove k (map fst m).
Proof.
  intros k. induction m as [|[k' v] m IH]; [reflexivity|].
  cbn. destruct (k' =? k); cbn; now rewrite IH.
Qed.
Lemma keys_aupdate : forall k v m, map fst (aupdate k v m) = map fst m.
Proof.
  intros k v. induction m as [|[k' v'] m IH]; [reflexivity|].
  cbn. destruct (k' =? k); cbn; [reflexivity|now rewrite IH].
Qed.

Lemma afind_aremove : forall k k' m,
  afind k' (aremove k m) = if k =? k' then None else afind k' m.
Proof.
  intros k k'. induction m as [|[k0 v] m IH]; [now destruct (k =? k')|].
  cbn. destruct (k0 =? k) eqn:E0.
  - apply N.eqb_eq in E0. subst k0. rewrite IH. destruct (k =? k'); reflexivity.
  - cbn. destruct (k0 =? k') eqn:E1; [|apply IH].
    apply N.eqb_eq in E1. subst k0. rewrite N.eqb_sym, E0. reflexivity.
Qed.
Lemma afind_aupdate : forall k v k' m,
  afind k' (aupdate k v m) = if k =? k' then (if amem k m then Some v else None) else afind k' m.
Proof.
  intros k v k'. unfold amem. induction m as [|[k0 v0] m IH]; [now destruct (k =? k')|].
  cbn. destruct (k0 =? k) eqn:E0.
  - apply N.eqb_eq in E0. subst k0. cbn. destruct (k =? k'); reflexivity.
  - cbn. destruct (k0 =? k') eqn:E1; [|apply IH].
    apply N.eqb_eq in E1. subst k0. rewrite N.eqb_sym, E0. reflexivity.
Qed.
Lemma aupdate_notin : forall k v m, amem k m = false -> aupdate k v m = m.
Proof.
  intros k v. unfold amem. induction m as [|[k0 v0] m IH]; intros H; [reflexivity|].
  cbn in *. destruct (k0 =? k); [discriminate|]. now rewrite IH.
Qed.
Lemma amem_afind : forall k m, amem k m = true -> exists v, afind k m = Some v.
Proof. intros k m. unfold amem. destruct (afind k m) as [v|]; [eauto|discriminate]. Qed.
Lemma afind_amem : forall k m v, afind k m = Some v -> amem k m = true.
Proof. intros k m v H. unfold amem. now rewrite H. Qed.

(* ------------------------------------------------------------------------------------ *)
(* the overflow test of URI_CHECK_ALLOC_OVERFLOW                                        *)
(* ------------------------------------------------------------------------------------ *)
Lemma check_alloc_overflow_spec : forall nm sz, nm < 2 ^ 64 -> sz < 2 ^ 64 ->
  check_alloc_overflow (wrap (nm * sz)) nm sz = (SIZE_LIMIT <=? nm * sz).
Proof.
  intros nm sz Hn Hs. unfold check_alloc_overflow, wrap, SIZE_LIMIT.
  destruct (N.eqb_spec nm 0) as [->|Hnz]; cbn [negb andb].
  - symmetry. apply N.leb_gt. cbn. lia.
  - destruct (N.leb_spec (2 ^ 64) (nm * sz)) as [Hov|Hok].
    + assert (Hm : (nm * sz) mod 2 ^ 64 < 2 ^ 64) by (apply N.mod_lt; lia).
      assert (Hd : (nm * sz) mod 2 ^ 64 / nm < sz).
      { apply N.div_lt_upper_bound; [assumption|]. lia. }
      destruct (N.eqb_spec ((nm * sz) mod 2 ^ 64 / nm) sz); [lia|reflexivity].
    + rewrite N.mod_small by assumption.
      rewrite N.mul_comm, N.div_mul by assumption. now rewrite N.eqb_refl.
Qed.

(* ------------------------------------------------------------------------------------ *)
(* abstraction                                                                          *)
(* ------------------------------------------------------------------------------------ *)
(* the caller's pointer to block b is the backend's pointer to b plus sizeof(size_t) *)
Definition conc_ptr (p : sptr) : ptr :=
  match p with None => Null | Some b => Ptr b 8 end.

Definition conc_op (o : sop) : op :=
  match o with
  | SMalloc n => OMalloc n
  | SCalloc nm sz => OCalloc nm sz
  | SRealloc p n => ORealloc (conc_ptr p) n
  | SReallocarray p nm sz => OReallocarray (conc_ptr p) nm sz
  | SFree p => OFree (conc_ptr p)
  | SStore p off data => OStore (conc_ptr p) off data
  | SLoad p off n => OLoad (conc_ptr p) off n
  end.

(* the caller's view of the heap: every live backend block without its header *)
Definition abs (st : backend) : sstate := amapf (skipn 8) (be_live st).

Definition abs_ptr (p : ptr) : sptr := match p with Null => None | Ptr b _ => Some b end.
Definition abs_res (r : result) : sres := mkSres (abs_ptr (r_ptr r)) (r_errno r) (r_data r).

(* ------------------------------------------------------------------------------------ *)
(* invariant                                                                            *)
(* ------------------------------------------------------------------------------------ *)
(* a backend block as the decorated malloc leaves it: the size header, then that many bytes *)
Definition hdr_ok (d : list N) : Prop :=
  exists n rest, d = le_bytes 8 n ++ rest /\ len rest = n /\ n < 2 ^ 64.

Fixpoint n_malloc (b : N) (l : list bevent) : nat :=
  match l with
  | [] => 0
  | BMalloc _ (Ptr b' _) :: r => (if b' =? b then 1 else 0) + n_malloc b r
  | _ :: r => n_malloc b r
  end.
Fixpoint n_free (b : N) (l : list bevent) : nat :=
  match l with
  | [] => 0
  | BFree (Ptr b' _) :: r => (if b' =? b then 1 else 0) + n_free b r
  | _ :: r => n_free b r
  end.

Record inv (st : backend) : Prop := mkInv {
  inv_fault : be_fault st = false;
  inv_keys : forall b, amem b (be_live st) = true -> b < be_next st;
  inv_hdr : forall b d, afind b (be_live st) = Some d -> hdr_ok d;
  inv_log : log_live (be_log st) = Some (map fst (be_live st));
  inv_fresh : forall b, be_next st <= b -> n_malloc b (be_log st) = 0%nat;
  inv_once : forall b, (n_malloc b (be_log st) <= 1)%nat;
  inv_nofreenull : ~ In (BFree Null) (be_log st)
}.

Lemma inv_init : forall plan cap junk, inv (init plan cap junk).
Proof.
  intros. constructor; cbn; try reflexivity; try discriminate; intros; try lia; auto.
Qed.

(* ---- the states the manager's functions lead to -------------------------------------- *)
Definition refuses (st : backend) (n : N) : bool :=
  match be_plan st with f :: _ => f | [] => false end || (be_cap st <? n).

Definition st_fail (st : backend) (n : N) : backend :=
  mkBe (be_next st) (be_live st) (BMalloc n Null :: be_log st) (tl (be_plan st))
       (be_cap st) (be_junk st) (be_fault st).
Definition st_new (st : backend) (n : N) (d : list N) : backend :=
  mkBe (be_next st + 1) ((be_next st, d) :: be_live st) (BMalloc n (Ptr (be_next st) 0) :: be_log st)
       (tl (be_plan st)) (be_cap st) (be_junk st) (be_fault st).
Definition st_freed (st : backend) (b : N) : backend :=
  mkBe (be_next st) (aremove b (be_live st)) (BFree (Ptr b 0) :: be_log st) (be_plan st)
       (be_cap st) (be_junk st) (be_fault st).
Definition st_upd (st : backend) (b : N) (d : list N) : backend :=
  set_live st (aupdate b d (be_live st)).

Lemma inv_st_fail : forall st n, inv st -> inv (st_fail st n).
Proof.
  intros st n [F K H L Fr O Nf]. constructor; cbn; auto.
  - now rewrite L.
  - intros [E|E]; [discriminate|auto].
Qed.

Lemma inv_notin_next : forall st, inv st -> amem (be_next st) (be_live st) = false.
Proof.
  intros st I. destruct (amem (be_next st) (be_live st)) eqn:E; [|reflexivity].
  apply (inv_keys _ I) in E. lia.
Qed.

Lemma inv_st_new : forall st n d, inv st -> hdr_ok d -> inv (st_new st n d).
Proof.
  intros st n d I Hd. pose proof (inv_notin_next _ I) as Hn.
  destruct I as [F K H L Fr O Nf]. constructor; cbn.
  - assumption.
  - intros b. unfold amem. cbn. destruct (N.eqb_spec (be_next st) b) as [<-|Hne]; [lia|].
    intros Hb. apply K in Hb. lia.
  - intros b d'. destruct (be_next st =? b); [intros [= <-]; assumption|apply H].
  - rewrite L, amem_kmem, Hn. reflexivity.
  - intros b Hb. destruct (N.eqb_spec (be_next st) b); [lia|]. cbn. apply Fr. lia.
  - intros b. destruct (N.eqb_spec (be_next st) b) as [<-|Hne].
    + rewrite Fr by lia. lia.
    + cbn. apply O.
  - intros [E|E]; [discriminate|auto].
Qed.

Lemma inv_st_freed : forall st b, inv st -> amem b (be_live st) = true -> inv (st_freed st b).
Proof.
  intros st b [F K H L Fr O Nf] Hb. constructor; cbn; auto.
  - intros b'. unfold amem. rewrite afind_aremove. destruct (b =? b'); [discriminate|]. apply K.
  - intros b' d. rewrite afind_aremove. destruct (b =? b'); [discriminate|]. apply H.
  - rewrite L, amem_kmem, Hb, keys_aremove. reflexivity.
  - intros [E|E]; [discriminate|auto].
Qed.

Lemma inv_st_upd : forall st b d, inv st -> hdr_ok d -> inv (st_upd st b d).
Proof.
  intros st b d [F K H L Fr O Nf] Hd. constructor; cbn; auto.
  - intros b'. unfold amem. rewrite afind_aupdate. destruct (N.eqb_spec b b') as [<-|Hne].
    + destruct (amem b (be_live st)) eqn:E; [|discriminate]. intros _. now apply K.
    + apply K.
  - intros b' d'. rewrite afind_aupdate. destruct (b =? b').
    + destruct (amem b (be_live st)); [intros [= <-]; assumption|discriminate].
    + apply H.
  - now rewrite keys_aupdate.
Qed.

Lemma abs_st_fail : forall st n, abs (st_fail st n) = abs st.
Proof. reflexivity. Qed.
Lemma abs_st_new : forall st n d, abs (st_new st n d) = (be_next st, skipn 8 d) :: abs st.
Proof. reflexivity. Qed.
Lemma abs_st_freed : forall st b, abs (st_freed st b) = aremove b (abs st).
Proof. intros. unfold abs. cbn. now rewrite aremove_amapf. Qed.
Lemma abs_st_upd : forall st b d, abs (st_upd st b d) = aupdate b (skipn 8 d) (abs st).
Proof. intros. unfold abs, st_upd, set_live. cbn [be_live]. symmetry. apply aupdate_amapf. Qed.

Lemma afind_abs : forall st b, afind b (abs st) = option_map (skipn 8) (afind b (be_live st)).
Proof. intros. apply afind_amapf. Qed.
Lemma amem_abs : forall st b, amem b (abs st) = amem b (be_live st).
Proof. intros. apply amem_amapf. Qed.

Lemma skipn_hdr : forall n rest, skipn 8 (le_bytes 8 n ++ rest) = rest.
Proof.
  intros. rewrite skipn_app, skipn_all2 by (rewrite length_le_bytes; lia).
  rewrite length_le_bytes. reflexivity.
Qed.

(* a live block of the caller, seen from the backend *)
Lemma live_block : forall st b c, inv st -> afind b (abs st) = Some c ->
  afind b (be_live st) = Some (le_bytes 8 (len c) ++ c) /\ len c < 2 ^ 64.
Proof.
  intros st b c I Hc. rewrite afind_abs in Hc.
  destruct (afind b (be_live st)) as [d|] eqn:E; [|discriminate].
  destruct (inv_hdr _ I _ _ E) as (n & rest & -> & Hl & Hn).
  cbn [option_map] in Hc. rewrite skipn_hdr in Hc. injection Hc as <-. subst n. split; [reflexivity|assumption].
Qed.

Lemma aupdate_same : forall k v m, afind k m = Some v -> aupdate k v m = m.
Proof.
  intros k v. induction m as [|[k0 v0] m IH]; intros H; [reflexivity|].
  cbn in *. destruct (k0 =? k); [now injection H as ->|]. now rewrite IH.
Qed.

(* ------------------------------------------------------------------------------------ *)
(* what the manager's functions compute (under the invariant, for size_t arguments)      *)
(* ------------------------------------------------------------------------------------ *)
Local Arguments le_bytes : simpl never.
Local Arguments decode_le : simpl never.
Local Arguments splice : simpl never.
Local Arguments slice : simpl never.
Local Arguments N.to_nat : simpl never.
Local Arguments Z.to_nat : simpl never.
Local Arguments repeat : simpl never.
Local Arguments N.mul : simpl never.
Local Arguments N.add : simpl never.
Local Arguments N.sub : simpl never.
Local Arguments N.pow : simpl never.
Local Arguments Z.add : simpl never.
Local Arguments Z.sub : simpl never.
Local Arguments Z.of_N : simpl never.
Local Arguments Z.of_nat : simpl never.
Local Arguments N.ltb : simpl never.
Local Arguments N.leb : simpl never.
Local Arguments N.eqb : simpl never.
Local Arguments Z.eqb : simpl never.
Local Arguments Z.leb : simpl never.
Local Arguments skipn : simpl never.
Local Arguments firstn : simpl never.

Lemma size_max_val : SIZE_MAX = 2 ^ 64 - 1.
Proof. reflexivity. Qed.

Lemma be_store_new : forall st n d data k,
  inv st -> in_block k (len data) (length d) = true ->
  be_store (st_new st n d) (Ptr (be_next st) k) data = st_new st n (splice (Z.to_nat k) data d).
Proof.
  intros st n d data k I Hin. unfold be_store, st_new. cbn [be_live afind].
  rewrite N.eqb_refl, Hin. unfold set_live. cbn [be_next be_live be_log be_plan be_cap be_junk be_fault aupdate].
  rewrite N.eqb_refl. reflexivity.
Qed.

Lemma decorate_malloc_out : forall st size, inv st -> size < 2 ^ 64 ->
  decorate_malloc st size =
    if SIZE_MAX - 8 <? size then (st, (Null, Some Memory.ENOMEM))
    else if refuses st (8 + size) then (st_fail st (8 + size), (Null, None))
    else (st_new st (8 + size) (le_bytes 8 size ++ repeat (be_junk st) (N.to_nat size)),
          (Ptr (be_next st) 8, None)).
Proof.
  intros st size I Hs. unfold decorate_malloc, SIZEOF_SIZE_T.
  destruct (N.ltb_spec (SIZE_MAX - 8) size) as [Hbig|Hok]; [reflexivity|].
  rewrite size_max_val in Hok.
  assert (Hw : wrap (8 + size) = 8 + size) by (unfold wrap; apply N.mod_small; lia).
  rewrite Hw. unfold be_malloc. fold (refuses st (8 + size)).
  destruct (refuses st (8 + size)); [reflexivity|].
  change (mkBe (be_next st + 1) ((be_next st, repeat (be_junk st) (N.to_nat (8 + size))) :: be_live st)
               (BMalloc (8 + size) (Ptr (be_next st) 0) :: be_log st) (tl (be_plan st))
               (be_cap st) (be_junk st) (be_fault st))
    with (st_new st (8 + size) (repeat (be_junk st) (N.to_nat (8 + size)))).
  cbn [is_null ptr_add].
  rewrite be_store_new; [|assumption|].
  - do 2 f_equal. unfold splice. change (Z.to_nat 0) with 0%nat.
    rewrite firstn_O, length_le_bytes, skipn_repeat. cbn [app Nat.add].
    do 2 f_equal. lia.
  - unfold in_block, len. rewrite length_le_bytes, repeat_length. lia.
Qed.

Lemma decorate_free_out : forall st b, amem b (be_live st) = true ->
  decorate_free st (Ptr b 8) = st_freed st b.
Proof.
  intros st b Hb. unfold decorate_free, SIZEOF_SIZE_T. cbn [is_null ptr_sub].
  change (8 - Z.of_N 8)%Z with 0%Z. unfold be_free. rewrite Hb. reflexivity.
Qed.

Lemma decorate_free_null : forall st, decorate_free st Null = st.
Proof. reflexivity. Qed.

Lemma be_load_hdr : forall st b n rest, afind b (be_live st) = Some (le_bytes 8 n ++ rest) ->
  be_load st (Ptr b 0) 8 = (st, le_bytes 8 n).
Proof.
  intros st b n rest Hd. unfold be_load. rewrite Hd.
  replace (in_block 0 8 (length (le_bytes 8 n ++ rest))) with true
    by (unfold in_block; rewrite app_length, length_le_bytes; lia).
  f_equal.
  all: change (Z.to_nat 0) with 0%nat.
  all: replace (N.to_nat 8) with (length (le_bytes 8 n)) by (now rewrite length_le_bytes).
  all: apply slice_prefix.
Qed.

Lemma be_load_body : forall st b n rest off k,
  afind b (be_live st) = Some (le_bytes 8 n ++ rest) -> off + k <= len rest ->
  be_load st (Ptr b (8 + Z.of_N off)) k = (st, slice (N.to_nat off) (N.to_nat k) rest).
Proof.
  intros st b n rest off k Hd Hr. unfold be_load. rewrite Hd.
  replace (in_block (8 + Z.of_N off) k (length (le_bytes 8 n ++ rest))) with true
    by (unfold in_block; unfold len in Hr; rewrite app_length, length_le_bytes; lia).
  f_equal.
  replace (Z.to_nat (8 + Z.of_N off)) with (length (le_bytes 8 n) + N.to_nat off)%nat
    by (rewrite length_le_bytes; lia).
  apply slice_app.
Qed.

Lemma be_store_body : forall st b n rest off data,
  afind b (be_live st) = Some (le_bytes 8 n ++ rest) -> off + len data <= len rest ->
  be_store st (Ptr b (8 + Z.of_N off)) data
  = st_upd st b (le_bytes 8 n ++ splice (N.to_nat off) data rest).
Proof.
  intros st b n rest off data Hd Hr. unfold be_store. rewrite Hd.
  replace (in_block (8 + Z.of_N off) (len data) (length (le_bytes 8 n ++ rest))) with true
    by (unfold in_block; unfold len in *; rewrite app_length, length_le_bytes; lia).
  unfold st_upd. do 2 f_equal.
  replace (Z.to_nat (8 + Z.of_N off)) with (length (le_bytes 8 n) + N.to_nat off)%nat
    by (rewrite length_le_bytes; lia).
  apply splice_app.
Qed.

Lemma decorate_realloc_out : forall st b c size,
  inv st -> afind b (abs st) = Some c -> size < 2 ^ 64 -> size <> 0 ->
  decorate_realloc st (Ptr b 8) size =
    if size <=? len c then (st, (Ptr b 8, None))
    else if SIZE_MAX - 8 <? size then (st, (Null, Some Memory.ENOMEM))
    else if refuses st (8 + size) then (st_fail st (8 + size), (Null, None))
    else (st_freed (st_new st (8 + size)
                      (le_bytes 8 size ++ c ++ repeat (be_junk st) (N.to_nat (size - len c)))) b,
          (Ptr (be_next st) 8, None)).
Proof.
  intros st b c size I Hc Hs Hnz.
  destruct (live_block _ _ _ I Hc) as [Hd Hlc].
  unfold decorate_realloc. cbn [is_null].
  destruct (N.eqb_spec size 0) as [|_]; [contradiction|].
  unfold SIZEOF_SIZE_T. cbn [ptr_sub]. change (8 - Z.of_N 8)%Z with 0%Z.
  rewrite (be_load_hdr _ _ _ _ Hd), decode_size by assumption.
  destruct (N.leb_spec size (len c)) as [Hle|Hgt]; [reflexivity|].
  rewrite decorate_malloc_out by assumption.
  destruct (SIZE_MAX - 8 <? size); [reflexivity|].
  destruct (refuses st (8 + size)); [reflexivity|].
  cbn [is_null].
  assert (Hb : amem b (be_live st) = true) by (eapply afind_amem; eassumption).
  assert (Hne : be_next st =? b = false).
  { apply N.eqb_neq. apply (inv_keys _ I) in Hb. lia. }
  (* memcpy: the load *)
  set (nd := le_bytes 8 size ++ repeat (be_junk st) (N.to_nat size)).
  assert (Hd1 : afind b (be_live (st_new st (8 + size) nd)) = Some (le_bytes 8 (len c) ++ c)).
  { cbn [st_new be_live afind]. now rewrite Hne. }
  change 8%Z with (8 + Z.of_N 0)%Z at 1.
  rewrite (be_load_body _ _ _ _ 0 (len c) Hd1) by lia.
  change (N.to_nat 0) with 0%nat. rewrite slice_all by (unfold len; lia).
  (* memcpy: the store *)
  rewrite be_store_new; [|assumption|].
  2:{ unfold in_block, nd. rewrite app_length, length_le_bytes, repeat_length. lia. }
  (* free of the old block *)
  rewrite decorate_free_out.
  2:{ cbn [st_new be_live]. unfold amem. cbn [afind]. rewrite Hne. exact Hb. }
  do 3 f_equal. unfold nd.
  replace (Z.to_nat 8) with (length (le_bytes 8 size) + 0)%nat by (now rewrite length_le_bytes).
  rewrite splice_app. f_equal. unfold splice.
  rewrite firstn_O, skipn_repeat. cbn [app Nat.add]. do 2 f_equal. unfold len. lia.
Qed.

Lemma emulate_calloc_out : forall st nm sz, inv st -> nm < 2 ^ 64 -> sz < 2 ^ 64 ->
  emulate_calloc st nm sz =
    if SIZE_LIMIT <=? nm * sz then (st, (Null, Some Memory.ENOMEM))
    else if SIZE_MAX - 8 <? nm * sz then (st, (Null, Some Memory.ENOMEM))
    else if refuses st (8 + nm * sz) then (st_fail st (8 + nm * sz), (Null, None))
    else (st_new st (8 + nm * sz) (le_bytes 8 (nm * sz) ++ repeat 0 (N.to_nat (nm * sz))),
          (Ptr (be_next st) 8, None)).
Proof.
  intros st nm sz I Hn Hz. unfold emulate_calloc.
  rewrite check_alloc_overflow_spec by assumption.
  destruct (N.leb_spec SIZE_LIMIT (nm * sz)) as [|Hok]; [reflexivity|].
  unfold SIZE_LIMIT in Hok.
  replace (wrap (nm * sz)) with (nm * sz) by (unfold wrap; now rewrite N.mod_small).
  rewrite decorate_malloc_out by assumption.
  destruct (SIZE_MAX - 8 <? nm * sz); [reflexivity|].
  destruct (refuses st (8 + nm * sz)); [reflexivity|].
  cbn [is_null].
  rewrite be_store_new; [|assumption|].
  2:{ unfold in_block, len. rewrite app_length, length_le_bytes, !repeat_length. lia. }
  do 2 f_equal.
  replace (Z.to_nat 8) with (length (le_bytes 8 (nm * sz)) + 0)%nat by (now rewrite length_le_bytes).
  rewrite splice_app. f_equal. unfold splice.
  rewrite firstn_O, skipn_repeat, repeat_length. cbn [app Nat.add].
  rewrite Nat.sub_diag. apply app_nil_r.
Qed.

Lemma emulate_reallocarray_out : forall st p nm sz, nm < 2 ^ 64 -> sz < 2 ^ 64 ->
  emulate_reallocarray st p nm sz =
    if SIZE_LIMIT <=? nm * sz then (st, (Null, Some Memory.ENOMEM))
    else decorate_realloc st p (nm * sz).
Proof.
  intros st p nm sz Hn Hz. unfold emulate_reallocarray.
  rewrite check_alloc_overflow_spec by assumption.
  destruct (N.leb_spec SIZE_LIMIT (nm * sz)) as [|Hok]; [reflexivity|].
  unfold SIZE_LIMIT in Hok.
  replace (wrap (nm * sz)) with (nm * sz) by (unfold wrap; now rewrite N.mod_small).
  reflexivity.
Qed.

(* ------------------------------------------------------------------------------------ *)
(* one call                                                                             *)
(* ------------------------------------------------------------------------------------ *)
Lemma block_at_new : forall st n k body,
  block_at (st_new st n (le_bytes 8 k ++ body)) (Ptr (be_next st) 8) = body.
Proof.
  intros. unfold block_at. cbn [st_new be_live afind]. rewrite N.eqb_refl.
  change (Z.to_nat 8) with 8%nat. apply skipn_hdr.
Qed.

Lemma block_at_new_freed : forall st n k body b, be_next st =? b = false ->
  block_at (st_freed (st_new st n (le_bytes 8 k ++ body)) b) (Ptr (be_next st) 8) = body.
Proof.
  intros st n k body b Hne. unfold block_at. cbn [st_freed st_new be_live aremove].
  rewrite Hne. cbn [afind]. rewrite N.eqb_refl.
  change (Z.to_nat 8) with 8%nat. apply skipn_hdr.
Qed.

Lemma block_at_live : forall st b c, inv st -> afind b (abs st) = Some c ->
  block_at st (Ptr b 8) = c.
Proof.
  intros st b c I Hc. destruct (live_block _ _ _ I Hc) as [Hd _].
  unfold block_at. rewrite Hd. change (Z.to_nat 8) with 8%nat. apply skipn_hdr.
Qed.

Lemma hdr_ok_intro : forall body, len body < 2 ^ 64 -> hdr_ok (le_bytes 8 (len body) ++ body).
Proof. intros body H. exists (len body), body. auto. Qed.

Ltac split3 := split; [|split].

(* the three properties of one call: invariant, allowed by the specification, pointer shape *)
Definition call_ok (st : backend) (o : sop) (x : backend * result) : Prop :=
  inv (fst x)
  /\ sstep (abs st) o (abs_res (snd x)) = Some (abs (fst x))
  /\ r_ptr (snd x) = conc_ptr (sr_ptr (abs_res (snd x))).

Lemma alloc_new : forall st n z body, inv st -> n <= len body ->
  (z = true -> firstn (N.to_nat n) body = repeat 0 (N.to_nat n)) ->
  s_alloc (abs st) n z (mkSres (Some (be_next st)) None body) = Some ((be_next st, body) :: abs st).
Proof.
  intros st n z body I Hn Hz. unfold s_alloc. cbn [sr_ptr sr_data sr_errno].
  rewrite amem_abs, (inv_notin_next _ I). cbn [is_none negb].
  replace (n <=? len body) with true by (symmetry; now apply N.leb_le). cbn [negb].
  destruct z; cbn [andb]; [|reflexivity].
  rewrite Hz by reflexivity. rewrite list_eqb_refl. reflexivity.
Qed.

(* malloc(n), and calloc after its overflow test, in one statement: [z] asks for zeroed memory *)
Lemma alloc_refines : forall st n z fill, inv st -> n < 2 ^ 64 ->
  (z = true -> fill = 0) ->
  let x := alloc_result
    (if SIZE_MAX - 8 <? n then (st, (Null, Some Memory.ENOMEM))
     else if refuses st (8 + n) then (st_fail st (8 + n), (Null, None))
     else (st_new st (8 + n) (le_bytes 8 n ++ repeat fill (N.to_nat n)), (Ptr (be_next st) 8, None))) in
  inv (fst x)
  /\ s_alloc (abs st) n z (abs_res (snd x)) = Some (abs (fst x))
  /\ r_ptr (snd x) = conc_ptr (sr_ptr (abs_res (snd x))).
Proof.
  intros st n z fill I Hn Hz. cbv zeta.
  destruct (SIZE_MAX - 8 <? n).
  { cbn. split3; [assumption|reflexivity|reflexivity]. }
  destruct (refuses st (8 + n)).
  { cbn. split3; [now apply inv_st_fail|reflexivity|reflexivity]. }
  unfold alloc_result. rewrite block_at_new. unfold abs_res. cbn [fst snd r_ptr abs_res abs_ptr r_errno r_data sr_ptr conc_ptr].
  assert (Hl : len (repeat fill (N.to_nat n)) = n) by (rewrite len_repeat; lia).
  split3.
  - apply inv_st_new; [assumption|]. rewrite <- Hl at 1. apply hdr_ok_intro. now rewrite Hl.
  - rewrite alloc_new; [|assumption|lia|].
    + rewrite abs_st_new, skipn_hdr. reflexivity.
    + intros Hzt. rewrite (Hz Hzt). apply firstn_repeat. lia.
  - reflexivity.
Qed.

Lemma malloc_refines : forall st n, inv st -> n < 2 ^ 64 ->
  let x := alloc_result (decorate_malloc st n) in
  inv (fst x)
  /\ s_alloc (abs st) n false (abs_res (snd x)) = Some (abs (fst x))
  /\ r_ptr (snd x) = conc_ptr (sr_ptr (abs_res (snd x))).
Proof.
  intros st n I Hn. cbv zeta. rewrite decorate_malloc_out by assumption.
  apply alloc_refines; [assumption|assumption|discriminate].
Qed.

Lemma free_refines : forall st p, inv st -> ptr_ok (abs st) p = true ->
  let st' := decorate_free st (conc_ptr p) in
  inv st' /\ s_free (abs st) p (mkSres None None []) = Some (abs st').
Proof.
  intros st [b|] I Hp; cbv zeta; cbn [conc_ptr].
  - cbn [ptr_ok] in Hp. rewrite amem_abs in Hp. rewrite decorate_free_out by assumption.
    split; [now apply inv_st_freed|].
    unfold s_free. cbn [no_result sr_ptr sr_errno sr_data is_none is_nil andb negb].
    rewrite amem_abs, Hp, abs_st_freed. reflexivity.
  - rewrite decorate_free_null. split; [assumption|reflexivity].
Qed.

Lemma realloc_refines : forall st p n, inv st -> ptr_ok (abs st) p = true -> n < 2 ^ 64 ->
  let x := alloc_result (decorate_realloc st (conc_ptr p) n) in
  inv (fst x)
  /\ s_realloc (abs st) p n (abs_res (snd x)) = Some (abs (fst x))
  /\ r_ptr (snd x) = conc_ptr (sr_ptr (abs_res (snd x))).
Proof.
  intros st [b|] n I Hp Hn; cbv zeta; cbn [conc_ptr].
  2:{ change (decorate_realloc st Null n) with (decorate_malloc st n). now apply malloc_refines. }
  cbn [ptr_ok] in Hp. destruct (amem_afind _ _ Hp) as [c Hc].
  unfold s_realloc. rewrite Hc.
  destruct (N.eqb_spec n 0) as [->|Hnz].
  - (* realloc(p, 0) frees *)
    change (decorate_realloc st (Ptr b 8) 0) with (decorate_free st (Ptr b 8), (Null, @None N)).
    destruct (free_refines st (Some b) I Hp) as [I' Hf]. cbn [conc_ptr] in *.
    cbn. split3; [assumption|assumption|reflexivity].
  - rewrite (decorate_realloc_out _ _ _ _ I Hc Hn Hnz).
    destruct (live_block _ _ _ I Hc) as [Hd Hlc].
    destruct (N.leb_spec n (len c)) as [Hle|Hgt].
    { (* fits: same pointer *)
      unfold alloc_result. rewrite (block_at_live _ _ _ I Hc). unfold abs_res.
      cbn [fst snd r_ptr abs_res abs_ptr r_errno r_data sr_ptr sr_errno sr_data conc_ptr is_none negb].
      split3; [assumption| |reflexivity].
      replace (n <=? len c) with true by (symmetry; now apply N.leb_le). cbn [negb].
      rewrite list_eqb_refl, N.eqb_refl. cbn [negb]. now rewrite aupdate_same. }
    destruct (SIZE_MAX - 8 <? n).
    { cbn. split3; [assumption|reflexivity|reflexivity]. }
    destruct (refuses st (8 + n)).
    { cbn. split3; [now apply inv_st_fail|reflexivity|reflexivity]. }
    assert (Hb : amem b (be_live st) = true) by (now rewrite <- amem_abs).
    assert (Hne : be_next st =? b = false).
    { apply N.eqb_neq. apply (inv_keys _ I) in Hb. lia. }
    unfold alloc_result. rewrite block_at_new_freed by assumption. unfold abs_res.
    cbn [fst snd r_ptr abs_res abs_ptr r_errno r_data sr_ptr sr_errno sr_data conc_ptr is_none negb].
    set (body := c ++ repeat (be_junk st) (N.to_nat (n - len c))).
    assert (Hl : len body = n).
    { unfold body. rewrite len_app, len_repeat. lia. }
    split3; [| |reflexivity].
    + apply inv_st_freed.
      * apply inv_st_new; [assumption|]. rewrite <- Hl at 1. apply hdr_ok_intro. now rewrite Hl.
      * cbn [st_new be_live]. unfold amem. cbn [afind]. rewrite Hne. exact Hb.
    + replace (n <=? len body) with true by (symmetry; apply N.leb_le; lia). cbn [negb].
      replace (N.min (len c) n) with (len c) by lia.
      replace (firstn (N.to_nat (len c)) body) with (firstn (N.to_nat (len c)) c).
      2:{ unfold body. rewrite firstn_app.
          replace (N.to_nat (len c) - length c)%nat with 0%nat by (unfold len; lia).
          rewrite firstn_O. now rewrite app_nil_r. }
      rewrite list_eqb_refl. cbn [negb].
      rewrite amem_abs, (inv_notin_next _ I).
      rewrite abs_st_freed, abs_st_new, skipn_hdr. cbn [aremove]. rewrite Hne.
      reflexivity.
Qed.

Lemma size_limit_val : SIZE_LIMIT = 2 ^ 64.
Proof. reflexivity. Qed.
Lemma is_size_lt : forall n, is_size n = true -> n < 2 ^ 64.
Proof. intros n H. rewrite <- size_limit_val. apply N.ltb_lt. exact H. Qed.

Lemma range_ok_inv : forall s p off n, range_ok s p off n = true ->
  exists b c, p = Some b /\ afind b s = Some c /\ off + n <= len c.
Proof.
  intros s [b|] off n H; cbn in H; [|discriminate].
  destruct (afind b s) as [c|] eqn:E; [|discriminate].
  exists b, c. split; [reflexivity|]. split; [exact E|]. now apply N.leb_le.
Qed.

Theorem step_refines : forall st o, inv st -> svalid (abs st) o = true ->
  call_ok st o (step st (conc_op o)).
Proof.
  intros st o I V. unfold call_ok. destruct o as [n|nm sz|p n|p nm sz|p|p off data|p off n];
    cbn [svalid] in V; cbn [conc_op step sstep].
  - apply malloc_refines; [assumption|now apply is_size_lt].
  - apply andb_true_iff in V as [V1 V2]. apply is_size_lt in V1, V2.
    rewrite emulate_calloc_out by assumption.
    destruct (N.leb_spec SIZE_LIMIT (nm * sz)) as [Hov|Hok].
    + cbn. split3; [assumption|reflexivity|reflexivity].
    + unfold SIZE_LIMIT in Hok. apply (alloc_refines st (nm * sz) true 0); auto.
  - apply andb_true_iff in V as [V1 V2]. apply is_size_lt in V2.
    now apply realloc_refines.
  - apply andb_true_iff in V as [V V3]. apply andb_true_iff in V as [V1 V2].
    apply is_size_lt in V2, V3.
    rewrite emulate_reallocarray_out by assumption.
    destruct (N.leb_spec SIZE_LIMIT (nm * sz)) as [Hov|Hok].
    + cbn. split3; [assumption|reflexivity|reflexivity].
    + unfold SIZE_LIMIT in Hok. now apply realloc_refines.
  - destruct (free_refines st p I V) as [I' Hf]. cbn [fst snd]. split3; [assumption|exact Hf|reflexivity].
  - destruct (range_ok_inv _ _ _ _ V) as (b & c & -> & Hc & Hr).
    destruct (live_block _ _ _ I Hc) as [Hd Hlc].
    cbn [conc_ptr ptr_add]. rewrite (be_store_body _ _ _ _ _ _ Hd Hr). cbn [fst snd].
    assert (Hl : len (splice (N.to_nat off) data c) = len c).
    { unfold len in *. rewrite length_splice; lia. }
    split3.
    + apply inv_st_upd; [assumption|]. rewrite <- Hl. apply hdr_ok_intro. now rewrite Hl.
    + rewrite Hc. unfold abs_res, no_result.
      cbn [r_ptr r_errno r_data abs_ptr sr_ptr sr_errno sr_data is_none is_nil andb].
      rewrite abs_st_upd, skipn_hdr. reflexivity.
    + reflexivity.
  - destruct (range_ok_inv _ _ _ _ V) as (b & c & -> & Hc & Hr).
    destruct (live_block _ _ _ I Hc) as [Hd Hlc].
    cbn [conc_ptr ptr_add]. rewrite (be_load_body _ _ _ _ _ _ Hd Hr). cbn [fst snd].
    split3; [assumption| |reflexivity].
    rewrite Hc. unfold abs_res. cbn [r_ptr r_errno r_data abs_ptr sr_ptr sr_errno sr_data is_none andb].
    now rewrite list_eqb_refl.
Qed.

(* ------------------------------------------------------------------------------------ *)
(* histories                                                                            *)
(* ------------------------------------------------------------------------------------ *)
(* the caller only passes pointers it holds and stays inside its blocks, at every call *)
Fixpoint client_ok (st : backend) (ops : list sop) : Prop :=
  match ops with
  | [] => True
  | o :: rest => svalid (abs st) o = true /\ client_ok (fst (step st (conc_op o))) rest
  end.

Lemma run_fold : forall ops st,
  fst (run st ops) = fold_left (fun s o => fst (step s o)) ops st.
Proof.
  induction ops as [|o ops IH]; intros st; [reflexivity|].
  cbn [run fold_left]. destruct (step st o) as [st1 r] eqn:E. cbn [fst].
  rewrite <- IH. destruct (run st1 ops). reflexivity.
Qed.

Theorem run_refines : forall ops st, inv st -> client_ok st ops ->
  let x := run st (map conc_op ops) in
  inv (fst x)
  /\ accepts (abs st) (combine ops (map abs_res (snd x))) = Some (abs (fst x))
  /\ Forall (fun r => r_ptr r = conc_ptr (sr_ptr (abs_res r))) (snd x)
  /\ length (snd x) = length ops.
Proof.
  induction ops as [|o ops IH]; intros st I C; cbv zeta.
  - cbn. split; [assumption|]. split; [reflexivity|]. split; [constructor|reflexivity].
  - destruct C as [V C]. cbn [map run].
    pose proof (step_refines st o I V) as (I1 & S1 & P1).
    destruct (step st (conc_op o)) as [st1 r] eqn:E. cbn [fst snd] in *.
    specialize (IH st1 I1 C). cbv zeta in IH.
    destruct (run st1 (map conc_op ops)) as [st2 rs]. cbn [fst snd] in *.
    destruct IH as (I2 & A2 & F2 & L2).
    split; [assumption|]. split; [|split].
    + cbn [map combine accepts]. rewrite S1. exact A2.
    + constructor; assumption.
    + cbn. now rewrite L2.
Qed.

(* ------------------------------------------------------------------------------------ *)
(* what acceptance by the specification means, clause by clause                          *)
(* ------------------------------------------------------------------------------------ *)
Definition is_alloc_call (o : sop) : bool :=
  match o with SMalloc _ | SCalloc _ _ | SRealloc _ _ | SReallocarray _ _ _ => true | _ => false end.

(* realloc(p, 0) and reallocarray(p, n, s) with n*s = 0, p != NULL: "equivalent to free(p)" *)
Definition frees_by_convention (o : sop) : bool :=
  match o with
  | SRealloc (Some _) n => n =? 0
  | SReallocarray (Some _) nm sz => nm * sz =? 0
  | _ => false
  end.

Lemma s_alloc_null : forall s n z r s', s_alloc s n z r = Some s' -> sr_ptr r = None -> s' = s.
Proof.
  intros s n z r s' H Hp. unfold s_alloc in H. rewrite Hp in H.
  destruct (failure_ok r); now inversion H.
Qed.

Lemma s_alloc_some : forall s n z r s' id, s_alloc s n z r = Some s' -> sr_ptr r = Some id ->
  amem id s = false /\ s' = (id, sr_data r) :: s /\ n <= len (sr_data r) /\ sr_errno r = None
  /\ (z = true -> firstn (N.to_nat n) (sr_data r) = repeat 0 (N.to_nat n)).
Proof.
  intros s n z r s' id H Hp. unfold s_alloc in H. rewrite Hp in H.
  destruct (amem id s); [discriminate|].
  destruct (sr_errno r) as [e|]; cbn [is_none negb] in H; [discriminate|].
  destruct (N.leb_spec n (len (sr_data r))) as [Hle|]; cbn [negb] in H; [|discriminate].
  destruct z; cbn [andb] in H.
  - destruct (list_eqb (firstn (N.to_nat n) (sr_data r)) (repeat 0 (N.to_nat n))) eqn:E;
      cbn [negb] in H; [|discriminate].
    apply list_eqb_eq in E. inversion H. auto.
  - inversion H. repeat split; auto. discriminate.
Qed.

Lemma s_realloc_null : forall s id n r s', s_realloc s (Some id) n r = Some s' ->
  n <> 0 -> sr_ptr r = None -> s' = s.
Proof.
  intros s id n r s' H Hn Hp. unfold s_realloc in H.
  destruct (afind id s); [|discriminate].
  destruct (N.eqb_spec n 0); [contradiction|]. rewrite Hp in H.
  destruct (failure_ok r); now inversion H.
Qed.

(* a failed allocation call changes nothing *)
Theorem spec_failure_intact : forall s o r s', sstep s o r = Some s' ->
  is_alloc_call o = true -> frees_by_convention o = false -> sr_ptr r = None -> s' = s.
Proof.
  intros s o r s' H Ha Hf Hp. destruct o as [n|nm sz|p n|p nm sz|p|p off data|p off n];
    try discriminate; cbn [sstep] in H.
  - eapply s_alloc_null; eassumption.
  - destruct (SIZE_LIMIT <=? nm * sz).
    + destruct (enomem_failure r); now inversion H.
    + eapply s_alloc_null; eassumption.
  - destruct p as [id|].
    + cbn in Hf. eapply s_realloc_null; try eassumption. now apply N.eqb_neq.
    + eapply s_alloc_null; eassumption.
  - destruct (SIZE_LIMIT <=? nm * sz).
    + destruct (enomem_failure r); now inversion H.
    + destruct p as [id|].
      * cbn in Hf. eapply s_realloc_null; try eassumption. now apply N.eqb_neq.
      * eapply s_alloc_null; eassumption.
Qed.

(* element-count products that overflow: NULL, errno = ENOMEM, nothing changes *)
Theorem spec_overflow_enomem : forall s o r s' nm sz,
  (o = SCalloc nm sz \/ exists p, o = SReallocarray p nm sz) ->
  SIZE_LIMIT <= nm * sz -> sstep s o r = Some s' ->
  sr_ptr r = None /\ sr_errno r = Some AllocSpec.ENOMEM /\ s' = s.
Proof.
  intros s o r s' nm sz Ho Hov H.
  assert (E : SIZE_LIMIT <=? nm * sz = true) by now apply N.leb_le.
  assert (G : (if enomem_failure r then Some s else None) = Some s' ->
              sr_ptr r = None /\ sr_errno r = Some AllocSpec.ENOMEM /\ s' = s).
  { unfold enomem_failure. destruct (sr_ptr r); [discriminate|].
    destruct (sr_data r); [|discriminate]. destruct (sr_errno r) as [e|]; [|discriminate].
    cbn. destruct (N.eqb_spec e AllocSpec.ENOMEM) as [->|]; [|discriminate].
    intros [= <-]. auto. }
  destruct Ho as [->|[p ->]]; cbn [sstep] in H; rewrite E in H; auto.
Qed.

(* calloc hands out a fresh block of at least the product, zeroed *)
Theorem spec_calloc_zeroed : forall s nm sz r s' id,
  sstep s (SCalloc nm sz) r = Some s' -> sr_ptr r = Some id ->
  amem id s = false /\ s' = (id, sr_data r) :: s /\ nm * sz < SIZE_LIMIT
  /\ nm * sz <= len (sr_data r)
  /\ firstn (N.to_nat (nm * sz)) (sr_data r) = repeat 0 (N.to_nat (nm * sz)).
Proof.
  intros s nm sz r s' id H Hp. cbn [sstep] in H.
  destruct (N.leb_spec SIZE_LIMIT (nm * sz)) as [|Hok].
  - unfold enomem_failure in H. rewrite Hp in H. discriminate.
  - destruct (s_alloc_some _ _ _ _ _ _ H Hp) as (A & B & C & D & E).
    exact (conj A (conj B (conj Hok (conj C (E eq_refl))))).
Qed.

(* malloc hands out a fresh block of at least the requested size *)
Theorem spec_malloc_fresh : forall s n r s' id,
  sstep s (SMalloc n) r = Some s' -> sr_ptr r = Some id ->
  amem id s = false /\ s' = (id, sr_data r) :: s /\ n <= len (sr_data r).
Proof.
  intros s n r s' id H Hp. cbn [sstep] in H.
  destruct (s_alloc_some _ _ _ _ _ _ H Hp) as (A & B & C & D & E).
  exact (conj A (conj B C)).
Qed.

(* realloc of a live block to a non-zero size: the result is the old block or a fresh one, at
   least n bytes, the common prefix is preserved, the old block is gone if the result is new *)
Theorem spec_realloc_prefix : forall s id n r s' id' c,
  sstep s (SRealloc (Some id) n) r = Some s' -> n <> 0 -> afind id s = Some c ->
  sr_ptr r = Some id' ->
  let k := N.to_nat (N.min (len c) n) in
  n <= len (sr_data r) /\ firstn k (sr_data r) = firstn k c
  /\ ((id' = id /\ s' = aupdate id (sr_data r) s)
      \/ (id' <> id /\ amem id' s = false /\ s' = (id', sr_data r) :: aremove id s)).
Proof.
  intros s id n r s' id' c H Hn Hc Hp k. cbn [sstep] in H. unfold s_realloc in H.
  rewrite Hc in H. destruct (N.eqb_spec n 0); [contradiction|]. rewrite Hp in H.
  destruct (sr_errno r); cbn [is_none negb] in H; [discriminate|].
  destruct (N.leb_spec n (len (sr_data r))); cbn [negb] in H; [|discriminate].
  fold k in H.
  destruct (list_eqb (firstn k (sr_data r)) (firstn k c)) eqn:E; cbn [negb] in H; [|discriminate].
  apply list_eqb_eq in E. split; [assumption|]. split; [assumption|].
  destruct (N.eqb_spec id' id) as [->|Hne].
  - left. inversion H. auto.
  - right. destruct (amem id' s); [discriminate|]. inversion H. auto.
Qed.

(* realloc(NULL, n) is malloc(n); realloc(p, 0) and free(p) release p and return NULL *)
Theorem spec_null_zero_conventions : forall s r,
  (forall n, sstep s (SRealloc None n) r = sstep s (SMalloc n) r)
  /\ (forall id, amem id s = true ->
        sstep s (SRealloc (Some id) 0) r = sstep s (SFree (Some id)) r
        /\ (forall s', sstep s (SFree (Some id)) r = Some s' ->
              sr_ptr r = None /\ s' = aremove id s))
  /\ (forall s', sstep s (SFree None) r = Some s' -> s' = s).
Proof.
  intros s r. split; [reflexivity|]. split.
  - intros id Hid. split.
    + cbn [sstep s_realloc]. destruct (amem_afind _ _ Hid) as [c ->]. reflexivity.
    + intros s' H. cbn [sstep] in H. unfold s_free in H.
      destruct (no_result r) eqn:E; cbn [negb] in H; [|discriminate].
      rewrite Hid in H. inversion H. split; [|reflexivity].
      unfold no_result in E. destruct (sr_ptr r); [discriminate|reflexivity].
  - intros s' H. cbn [sstep] in H. unfold s_free in H.
    destruct (no_result r); cbn [negb] in H; [|discriminate]. now inversion H.
Qed.

(* ------------------------------------------------------------------------------------ *)
(* the backend's view                                                                   *)
(* ------------------------------------------------------------------------------------ *)
Lemma kmem_kremove : forall b b' l, kmem b (kremove b' l) = if b' =? b then false else kmem b l.
Proof.
  intros b b'. induction l as [|x l IH]; [now destruct (b' =? b)|].
  cbn. destruct (N.eqb_spec x b') as [->|Hx].
  - rewrite IH. destruct (N.eqb_spec b' b); reflexivity.
  - cbn. rewrite IH. destruct (N.eqb_spec b' b) as [->|]; [|reflexivity].
    destruct (N.eqb_spec x b); [contradiction|reflexivity].
Qed.

(* a legitimate log: every block is released as often as it was handed out, minus one if live *)
Lemma log_live_counts : forall l live, log_live l = Some live ->
  forall b, n_malloc b l = (n_free b l + (if kmem b live then 1 else 0))%nat.
Proof.
  induction l as [|e l IH]; intros live H b.
  - inversion H. reflexivity.
  - cbn [log_live] in H. destruct (log_live l) as [live0|]; [|discriminate].
    specialize (IH live0 eq_refl b).
    destruct e as [n [|b' o]|[|b' o]]; cbn [n_malloc n_free].
    + inversion H. subst. exact IH.
    + destruct (Z.eqb o 0); cbn [andb] in H; [|discriminate].
      destruct (kmem b' live0) eqn:E; cbn [negb] in H; [discriminate|]. inversion H. subst live.
      cbn [kmem]. destruct (N.eqb_spec b' b) as [->|]; cbn [orb].
      * rewrite E in IH. lia.
      * exact IH.
    + inversion H. subst. exact IH.
    + destruct (Z.eqb o 0); cbn [andb] in H; [|discriminate].
      destruct (kmem b' live0) eqn:E; [|discriminate]. inversion H. subst live.
      rewrite kmem_kremove. destruct (N.eqb_spec b' b) as [->|].
      * rewrite E in IH. lia.
      * exact IH.
Qed.

(* in a legitimate log every free names the start of a block (or is free(NULL)) *)
Lemma log_live_frees : forall l live, log_live l = Some live ->
  forall p, In (BFree p) l -> p = Null \/ exists b, p = Ptr b 0.
Proof.
  induction l as [|e l IH]; intros live H p Hin; [contradiction|].
  cbn [log_live] in H. destruct (log_live l) as [live0|] eqn:E0; [|discriminate].
  destruct Hin as [->|Hin]; [|eapply IH; [reflexivity|exact Hin]].
  destruct p as [|b o]; [now left|]. right. exists b.
  destruct (Z.eqb o 0) eqn:E; [apply Z.eqb_eq in E; now subst|cbn [andb] in H; discriminate].
Qed.

Theorem backend_discipline : forall st, inv st ->
  be_fault st = false
  /\ log_live (be_log st) = Some (map fst (be_live st))
  /\ (forall p, In (BFree p) (be_log st) -> exists b, p = Ptr b 0)
  /\ (forall b, (n_malloc b (be_log st) <= 1)%nat
                /\ n_malloc b (be_log st)
                   = (n_free b (be_log st) + (if amem b (be_live st) then 1 else 0))%nat).
Proof.
  intros st I. split; [apply (inv_fault _ I)|]. split; [apply (inv_log _ I)|]. split.
  - intros p Hin. destruct (log_live_frees _ _ (inv_log _ I) p Hin) as [->|H]; [|exact H].
    exfalso. exact (inv_nofreenull _ I Hin).
  - intros b. split; [apply (inv_once _ I)|].
    rewrite (log_live_counts _ _ (inv_log _ I) b), amem_kmem. reflexivity.
Qed.

(* ------------------------------------------------------------------------------------ *)
(* the theorems of C15                                                                  *)
(* ------------------------------------------------------------------------------------ *)
(* every history: the results are allowed by the ideal allocator, the caller's view of the final
   heap is the specification's final state, every returned pointer is NULL or backend pointer + 8 *)
Theorem history_refines : forall plan cap junk ops,
  client_ok (init plan cap junk) ops ->
  let x := run (init plan cap junk) (map conc_op ops) in
  accepts [] (combine ops (map abs_res (snd x))) = Some (abs (fst x))
  /\ Forall (fun r => r_ptr r = conc_ptr (sr_ptr (abs_res r))) (snd x)
  /\ length (snd x) = length ops
  /\ inv (fst x).
Proof.
  intros plan cap junk ops C. cbv zeta.
  destruct (run_refines ops _ (inv_init plan cap junk) C) as (I & A & F & L).
  auto.
Qed.

(* every history: the backend is used correctly; each block it handed out is released at most
   once, by the pointer the backend returned, and exactly once unless it is still live *)
Theorem history_backend : forall plan cap junk ops,
  client_ok (init plan cap junk) ops ->
  let st := fst (run (init plan cap junk) (map conc_op ops)) in
  be_fault st = false
  /\ log_live (be_log st) = Some (map fst (be_live st))
  /\ (forall p, In (BFree p) (be_log st) -> exists b, p = Ptr b 0)
  /\ (forall b, (n_malloc b (be_log st) <= 1)%nat
                /\ n_malloc b (be_log st)
                   = (n_free b (be_log st) + (if amem b (be_live st) then 1 else 0))%nat).
Proof.
  intros plan cap junk ops C. cbv zeta.
  destruct (run_refines ops _ (inv_init plan cap junk) C) as (I & _).
  now apply backend_discipline.
Qed.

(* once the caller has freed everything nothing is live at the backend, and every block the
   backend handed out has been released exactly once *)
Theorem nothing_left : forall plan cap junk ops,
  client_ok (init plan cap junk) ops ->
  let st := fst (run (init plan cap junk) (map conc_op ops)) in
  abs st = [] ->
  be_live st = [] /\ forall b, n_free b (be_log st) = n_malloc b (be_log st).
Proof.
  intros plan cap junk ops C. cbv zeta. intros Hab.
  destruct (run_refines ops _ (inv_init plan cap junk) C) as (I & _).
  set (st := fst (run (init plan cap junk) (map conc_op ops))) in *.
  assert (Hl : be_live st = []) by (unfold abs, amapf in Hab; now apply map_eq_nil in Hab).
  split; [assumption|]. intros b.
  destruct (backend_discipline _ I) as (_ & _ & _ & Hc). destruct (Hc b) as [_ E].
  rewrite Hl in E. cbn in E. lia.
Qed.

(* a call that returns NULL (other than the free-by-convention cases) leaves every block of the
   caller, the old block of a realloc included, exactly as it was *)
Theorem failure_intact : forall st o, inv st -> svalid (abs st) o = true ->
  is_alloc_call o = true -> frees_by_convention o = false ->
  r_ptr (snd (step st (conc_op o))) = Null ->
  abs (fst (step st (conc_op o))) = abs st.
Proof.
  intros st o I V Ha Hf Hn. destruct (step_refines st o I V) as (_ & S & _).
  eapply spec_failure_intact; try eassumption. unfold abs_res. cbn [sr_ptr]. now rewrite Hn.
Qed.

(* the manager adds no failures of its own beyond the header overflow test: when the request
   plus header fits in size_t and the backend serves it, the call succeeds *)
Definition request (o : sop) : option N :=
  match o with
  | SMalloc n => Some n
  | SCalloc nm sz => if nm * sz <? SIZE_LIMIT then Some (nm * sz) else None
  | SRealloc _ n => Some n
  | SReallocarray _ nm sz => if nm * sz <? SIZE_LIMIT then Some (nm * sz) else None
  | _ => None
  end.

Lemma alloc_served : forall st n (a b : backend * ret) s k,
  n <= SIZE_MAX - 8 -> refuses st (8 + n) = false ->
  r_ptr (snd (alloc_result
     (if SIZE_MAX - 8 <? n then a else if refuses st (8 + n) then b else (s, (Ptr k 8, None)))))
  <> Null.
Proof.
  intros st n a b s k Hn Hr. rewrite Hr.
  replace (SIZE_MAX - 8 <? n) with false by (symmetry; now apply N.ltb_ge).
  cbn. discriminate.
Qed.

Lemma realloc_served : forall st p t, inv st -> ptr_ok (abs st) p = true -> t < 2 ^ 64 ->
  (match p with Some _ => t =? 0 | None => false end) = false ->
  t <= SIZE_MAX - 8 -> refuses st (8 + t) = false ->
  r_ptr (snd (alloc_result (decorate_realloc st (conc_ptr p) t))) <> Null.
Proof.
  intros st [b|] t I Hp Ht Hz Hm Hr; cbn [conc_ptr].
  - cbn [ptr_ok] in Hp. destruct (amem_afind _ _ Hp) as [c Hc].
    apply N.eqb_neq in Hz.
    rewrite (decorate_realloc_out _ _ _ _ I Hc Ht Hz).
    destruct (t <=? len c); [cbn; discriminate|]. now apply alloc_served.
  - change (decorate_realloc st Null t) with (decorate_malloc st t).
    rewrite decorate_malloc_out by assumption. now apply alloc_served.
Qed.

Theorem served_when_backend_serves : forall st o t, inv st -> svalid (abs st) o = true ->
  request o = Some t -> frees_by_convention o = false ->
  t <= SIZE_MAX - 8 -> refuses st (8 + t) = false ->
  r_ptr (snd (step st (conc_op o))) <> Null.
Proof.
  intros st o t I V Hq Hf Hm Hr.
  destruct o as [n|nm sz|p n|p nm sz|p|p off data|p off n]; try discriminate;
    cbn [svalid] in V; cbn [request] in Hq; cbn [conc_op step].
  - injection Hq as ->. apply is_size_lt in V.
    rewrite decorate_malloc_out by assumption. now apply alloc_served.
  - apply andb_true_iff in V as [V1 V2]. apply is_size_lt in V1, V2.
    destruct (N.ltb_spec (nm * sz) SIZE_LIMIT) as [Hok|]; [|discriminate]. injection Hq as <-.
    rewrite emulate_calloc_out by assumption.
    replace (SIZE_LIMIT <=? nm * sz) with false by (symmetry; now apply N.leb_gt).
    now apply alloc_served.
  - injection Hq as ->. apply andb_true_iff in V as [V1 V2]. apply is_size_lt in V2.
    apply realloc_served; try assumption.
    all: try (destruct p; [exact Hf|reflexivity]).
  - apply andb_true_iff in V as [V V3]. apply andb_true_iff in V as [V1 V2].
    apply is_size_lt in V2, V3.
    destruct (N.ltb_spec (nm * sz) SIZE_LIMIT) as [Hok|]; [|discriminate]. injection Hq as <-.
    rewrite emulate_reallocarray_out by assumption.
    replace (SIZE_LIMIT <=? nm * sz) with false by (symmetry; now apply N.leb_gt).
    apply realloc_served; try assumption.
    all: try (now rewrite <- size_limit_val).
    all: try (destruct p; [exact Hf|reflexivity]).
Qed.

(* where a live block of the caller is: inside its own backend block, right after the size
   header, which still holds the block's size; distinct blocks are distinct backend blocks *)
Theorem client_block_layout : forall st b c, inv st -> afind b (abs st) = Some c ->
  afind b (be_live st) = Some (le_bytes 8 (len c) ++ c) /\ len c < 2 ^ 64.
Proof. exact live_block. Qed.
