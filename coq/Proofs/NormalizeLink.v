(* C08, link of the path of [normalize 63 u] to the text-level specification [Normal.path_normal], for
   URIs that are not relative-path references.  The one missing ingredient -- the walk of
   uriRemoveDotSegmentsEx without the relative rule computes RFC 3986 5.2.4 on the joined text -- belongs
   to C06 (Proofs/ResolveProofs.v); here it is the explicit hypothesis [rds_link] of [path_link]. *)
From Coq Require Import List NArith Bool Lia ZifyBool ZifyN Arith.
From UP Require Import Base.Chars Model.Uri Model.Common Model.Normalize Model.Recompose Spec.NormalWf
  Spec.Split Proofs.NormalizeProofs.
From UP Require Spec.Normal Spec.Resolve.
Import ListNotations.
Local Open Scope N_scope.

Definition no_slash (t : text) : Prop := Forall (fun c => c <> 47) t.

(* the equation proved for C06 (checked here on all lists of up to 5 segments over
   {"", ".", "..", "a", "...", "b:"} and the four host/abs combinations before use) *)
Definition rds_link : Prop :=
  forall host abs segs, segs <> [] -> Forall no_slash segs ->
    47 :: Normal.join_slash (rds_walk false host abs [] segs)
    = Resolve.remove_dot_segments (47 :: Normal.join_slash segs).

(* the path as uriToString writes it *)
Definition path_text (u : uri) : text :=
  (if absolutePath u || (negb (match pathSegs u with [] => true | _ => false end) && is_host_set u)
   then [47] else [])
  ++ Normal.join_slash (pathSegs u).

Lemma path_pieces_join segs : concat (path_pieces segs) = Normal.join_slash segs.
Proof.
  induction segs as [|s [|s2 r] IH]; [reflexivity|cbn; apply app_nil_r|].
  change (path_pieces (s :: s2 :: r)) with (s :: [47] :: path_pieces (s2 :: r)).
  change (Normal.join_slash (s :: s2 :: r)) with (s ++ 47 :: Normal.join_slash (s2 :: r)).
  cbn [concat]. rewrite IH. reflexivity.
Qed.

Lemma path_text_recomposed u :
  path_text u = concat ((if absolutePath u || (negb (match pathSegs u with [] => true | _ => false end) && is_host_set u)
                         then [[47]] else []) ++ path_pieces (pathSegs u)).
Proof.
  unfold path_text. rewrite concat_app, path_pieces_join. destruct (_ || _); reflexivity.
Qed.

(* ---- split / join ---- *)
Lemma split_on_no_sep s : no_slash s -> split_on 47 s = [s].
Proof.
  induction s as [|c r IH]; intros H; [reflexivity|].
  inversion H as [|? ? Hc Hr]; subst. cbn [split_on]. apply N.eqb_neq in Hc. rewrite Hc, (IH Hr). reflexivity.
Qed.

Lemma split_on_app s rest : no_slash s -> split_on 47 (s ++ 47 :: rest) = s :: split_on 47 rest.
Proof.
  induction s as [|c r IH]; intros H; [reflexivity|].
  inversion H as [|? ? Hc Hr]; subst. cbn [split_on app]. apply N.eqb_neq in Hc. rewrite Hc, (IH Hr). reflexivity.
Qed.

Lemma split_join segs : segs <> [] -> Forall no_slash segs -> split_on 47 (Normal.join_slash segs) = segs.
Proof.
  induction segs as [|s [|s2 r] IH]; intros Hne H; [contradiction| |].
  - inversion H; subst. apply split_on_no_sep; assumption.
  - inversion H as [|? ? Hs Hr]; subst.
    change (Normal.join_slash (s :: s2 :: r)) with (s ++ 47 :: Normal.join_slash (s2 :: r)).
    rewrite split_on_app by exact Hs. rewrite IH; [reflexivity|discriminate|exact Hr].
Qed.

Lemma join_cons_nil l : l <> [] -> Normal.join_slash ([] :: l) = 47 :: Normal.join_slash l.
Proof. destruct l; [contradiction|reflexivity]. Qed.

(* ---- the engine keeps a segment free of '/' and non-empty ---- *)
Lemma fix_pct_no_slash t : pct_wf t = true -> no_slash t -> no_slash (fix_pct t).
Proof.
  intros Hwf. unfold no_slash. wf_induction t Hwf; intros H.
  - constructor.
  - inversion H as [|? ? Hc' Hr']; subst. rewrite fix_pct_other by exact Hc. constructor; [exact Hc'|exact (IH Hr')].
  - inversion H as [|? ? _ H1]; subst. inversion H1 as [|? ? _ H2]; subst. inversion H2 as [|? ? _ H3]; subst.
    rewrite fix_pct_triplet. destruct (is_unreserved_code _) eqn:Eu.
    + constructor; [|exact (IH H3)]. clear - Eu. arith.
    + constructor; [discriminate|]. constructor; [clear; arith|]. constructor; [clear; arith|]. exact (IH H3).
Qed.

Lemma fix_pct_nil t : fix_pct t = [] -> t = [].
Proof.
  destruct t as [|c [|a [|b r]]]; try discriminate; [reflexivity|].
  cbn [fix_pct]. destruct (c =? 37); [|discriminate]. destruct (is_unreserved_code _); discriminate.
Qed.

(* ---- shape of the walk ---- *)
Lemma rds_walk_nonempty rest : forall kept, kept <> [] \/ rest <> [] -> rds_walk false true false kept rest <> [].
Proof.
  assert (forall (x : text) k, rev (x :: k) <> []) as Hrev.
  { intros x k E. apply (f_equal (@length _)) in E. rewrite rev_length in E. discriminate E. }
  induction rest as [|w nxt IH]; intros kept H.
  - cbn [rds_walk]. destruct H as [H|H]; [|contradiction]. destruct kept; [contradiction|apply Hrev].
  - cbn [rds_walk andb]. destruct (seg_dot w).
    + destruct nxt as [|n1 n2]; [|apply IH; right; discriminate].
      destruct kept as [|p k]; [discriminate|apply Hrev].
    + destruct (seg_dotdot w).
      * destruct kept as [|p [|pp kk]]; (destruct nxt as [|n1 n2]; [try discriminate; try apply Hrev|apply IH; right; discriminate]).
      * apply IH. left. discriminate.
Qed.

Lemma join_drop_lone (x : list text) : Normal.join_slash (match x with [[]] => [] | _ => x end) = Normal.join_slash x.
Proof. destruct x as [|[|? ?] [|? ?]]; reflexivity. Qed.

(* a rootless path (no host, not absolutePath) begins with a non-empty segment: RFC 3986 path-rootless *)
Definition rootless_ok (u : uri) : Prop :=
  absolutePath u = false -> is_host_set u = false -> match pathSegs u with [] :: _ => False | _ => True end.

(* ---- the link ---- *)
Definition is_nil (l : list text) : bool := match l with [] => true | _ => false end.

Lemma path_link_core (Hlink : rds_link) (has_scheme host abs : bool) (segs : list text) :
  forallb pct_wf segs = true -> Forall no_slash segs ->
  (abs = false -> host = false -> match segs with [] :: _ => False | _ => True end) ->
  negb has_scheme && negb abs && negb host = false ->
  (if abs || (negb (is_nil (norm_segs_of false host abs segs)) && host) then [47] else [])
    ++ Normal.join_slash (norm_segs_of false host abs segs)
  = Normal.path_normal has_scheme host
      ((if abs || (negb (is_nil segs) && host) then [47] else []) ++ Normal.join_slash segs).
Proof.
  intros Hwf Hns Hroot Hrel.
  unfold norm_segs_of. cbv zeta.
  remember (map fix_pct segs) as segs' eqn:Hsegs'.
  assert (map (Normal.pct_norm false) segs = segs') as Hmap.
  { subst segs'. apply map_ext_in. intros s Hs. symmetry. apply fix_pct_spec. rewrite forallb_forall in Hwf. auto. }
  assert (Forall no_slash segs') as Hns'.
  { subst segs'. apply Forall_forall. intros x Hx. apply in_map_iff in Hx. destruct Hx as [s [Hs Hin]]. subst x.
    rewrite Forall_forall in Hns. rewrite forallb_forall in Hwf. apply fix_pct_no_slash; auto. }
  (* the percent-normalized path text *)
  assert (Normal.join_slash (map (Normal.pct_norm false)
            (split_on 47 ((if abs || (negb (is_nil segs) && host) then [47] else []) ++ Normal.join_slash segs)))
          = (if abs || (negb (is_nil segs) && host) then [47] else []) ++ Normal.join_slash segs') as Hp.
  { assert (Normal.pct_norm false [] = []) as Hf0 by reflexivity.
    destruct segs as [|s0 sr].
    - subst segs'. cbn [map Normal.join_slash is_nil]. destruct (abs || _); reflexivity.
    - assert (s0 :: sr <> []) as Hne by discriminate.
      assert (segs' <> []) as Hne' by (subst segs'; discriminate).
      destruct (abs || _).
      + change ([47] ++ Normal.join_slash (s0 :: sr)) with (47 :: Normal.join_slash (s0 :: sr)).
        change (split_on 47 (47 :: Normal.join_slash (s0 :: sr)))
          with ([] :: split_on 47 (Normal.join_slash (s0 :: sr))).
        rewrite split_join by assumption. cbn [map]. rewrite Hf0.
        change (map (Normal.pct_norm false) sr) with (tl (map (Normal.pct_norm false) (s0 :: sr))).
        change (Normal.pct_norm false s0) with (hd [] (map (Normal.pct_norm false) (s0 :: sr))).
        rewrite Hmap. destruct segs' as [|x xs]; [contradiction|]. reflexivity.
      + cbn [app]. rewrite split_join by assumption. rewrite Hmap. reflexivity. }
  unfold Normal.path_normal. rewrite Hp. clear Hp.
  destruct segs as [|s0 sr].
  - (* no segments: nothing to normalize *)
    subst segs'. cbn [map is_nil negb andb Normal.join_slash]. rewrite orb_false_r, app_nil_r.
    assert ((if negb host then @nil text else []) = []) as E0 by (destruct host; reflexivity).
    rewrite E0. cbn [is_nil negb andb Normal.join_slash]. rewrite orb_false_r, app_nil_r.
    destruct abs; reflexivity.
  - assert (segs' <> []) as Hne' by (subst segs'; discriminate).
    assert (match segs' with [] => [] | _ :: _ => rds_walk false host abs [] segs' end
            = rds_walk false host abs [] segs') as Hm by (destruct segs'; [contradiction|reflexivity]).
    rewrite Hm.
    pose proof (Hlink host abs segs' Hne' Hns') as HL.
    remember (rds_walk false host abs [] segs') as w eqn:Hw.
    match goal with |- context [Normal.join_slash ?x] =>
      match x with context [negb host] =>
        assert (Normal.join_slash x = Normal.join_slash w) as Hj
          by (destruct (negb host); [apply join_drop_lone|reflexivity])
      end
    end.
    rewrite Hj. cbn [is_nil negb andb]. destruct (abs || host) eqn:Eah.
    + (* rooted *)
      change ([47] ++ Normal.join_slash segs') with (47 :: Normal.join_slash segs').
      cbn [head_is]. rewrite N.eqb_refl. rewrite <- HL.
      assert (abs || (negb (is_nil (if negb host then match w with [[]] => [] | _ => w end else w)) && host) = true) as Hpre.
      { destruct abs; [reflexivity|]. cbn [orb] in Eah |- *. subst host. cbn [negb]. rewrite andb_true_r.
        pose proof (rds_walk_nonempty segs' [] (or_intror Hne')) as Hwne. rewrite <- Hw in Hwne.
        destruct w; [contradiction|reflexivity]. }
      rewrite Hpre. reflexivity.
    + (* rootless: a scheme, no host *)
      apply orb_false_elim in Eah. destruct Eah as [Ea Eh]. subst abs host.
      rewrite andb_false_r. cbn [app orb negb andb].
      assert (has_scheme = true) as Hsch by (destruct has_scheme; [reflexivity|discriminate Hrel]).
      rewrite Hsch. cbn [orb].
      (* the text begins with a character other than '/' *)
      specialize (Hroot eq_refl eq_refl).
      destruct s0 as [|c0 cr]; [contradiction|].
      assert (exists d dr rest, segs' = (d :: dr) :: rest /\ d <> 47) as [d [dr [rest [Es' Hd]]]].
      { subst segs'. cbn [map].
        destruct (fix_pct (c0 :: cr)) as [|d dr] eqn:Ef; [apply fix_pct_nil in Ef; discriminate Ef|].
        exists d, dr, (map fix_pct sr). split; [reflexivity|].
        assert (no_slash (d :: dr)) as Hn.
        { rewrite <- Ef. rewrite Forall_forall in Hns. rewrite forallb_forall in Hwf.
          apply fix_pct_no_slash; [apply Hwf|apply Hns]; left; reflexivity. }
        inversion Hn; assumption. }
      assert (exists tl', Normal.join_slash segs' = d :: tl') as [tl' Ejoin].
      { rewrite Es'. destruct rest; [exists dr; reflexivity|]. eexists. cbn [Normal.join_slash app]. reflexivity. }
      rewrite Ejoin. cbn [head_is]. apply N.eqb_neq in Hd. rewrite Hd.
      unfold Resolve.rds_keep_kind. cbn [head_is]. rewrite Hd. rewrite <- Ejoin, <- HL. reflexivity.
Qed.

Lemma path_link (Hlink : rds_link) u :
  forallb pct_wf (pathSegs u) = true -> Forall no_slash (pathSegs u) -> rootless_ok u ->
  relative_ref u = false ->
  path_text (normalize 63 u) = Normal.path_normal (is_some (scheme u)) (is_host_set u) (path_text u).
Proof.
  intros Hwf Hns Hroot Hrel.
  assert (is_host_set (normalize 63 u) = is_host_set u) as Hhost.
  { rewrite (normalize_fields 63 u ltac:(discriminate)). unfold is_host_set at 1.
    cbn [hostText ip4 ip6 ipFuture]. change (bit 63 M_HOST) with true. cbv iota. apply norm_host_is_some. }
  unfold path_text. rewrite Hhost.
  rewrite (normalize_fields 63 u ltac:(discriminate)). cbn [pathSegs absolutePath].
  change (bit 63 M_PATH) with true. cbv iota.
  unfold norm_segs. rewrite Hrel.
  exact (path_link_core Hlink (is_some (scheme u)) (is_host_set u) (absolutePath u) (pathSegs u) Hwf Hns Hroot Hrel).
Qed.

Print Assumptions path_link.
