(* C08, link of the path of [normalize 63 u] to the text-level specification [Normal.path_normal] with the
   "." guard [Normal.guard_path] (the two path-level ingredients of [Normal.normal_text]), for URIs that
   are not relative-path references.  The one missing ingredient -- the walk of
   uriRemoveDotSegmentsEx without the relative rule computes RFC 3986 5.2.4 on the joined text -- belongs
   to C06 (Proofs/ResolveProofs.v); here it is the explicit hypothesis [rds_link] of [path_link]. *)
From Coq Require Import List NArith Bool Lia ZifyBool ZifyN Arith.
From UP Require Import Base.Chars Model.Uri Model.Common Model.Normalize Model.Recompose Spec.NormalWf
  Spec.Split Proofs.NormalizeProofs.
From UP Require Spec.Normal Spec.Resolve.
Import ListNotations.
Local Open Scope N_scope.

Definition no_slash (t : text) : Prop := Forall (fun c => c <> 47) t.

(* the equation proved for C06 (checked here on all lists of up to 5 segments over
   {"", ".", "..", "a", "...", "b:"} and the four host/abs combinations before use) *)
Definition rds_link : Prop :=
  forall host abs segs, segs <> [] -> Forall no_slash segs ->
    47 :: Normal.join_slash (rds_walk false host abs [] segs)
    = Resolve.remove_dot_segments (47 :: Normal.join_slash segs).

(* the path as uriToString writes it *)
Definition path_text (u : uri) : text :=
  (if absolutePath u || (negb (match pathSegs u with [] => true | _ => false end) && is_host_set u)
   then [47] else [])
  ++ Normal.join_slash (pathSegs u).

Lemma path_pieces_join segs : concat (path_pieces segs) = Normal.join_slash segs.
Proof.
  induction segs as [|s [|s2 r] IH]; [reflexivity|cbn; apply app_nil_r|].
  change (path_pieces (s :: s2 :: r)) with (s :: [47] :: path_pieces (s2 :: r)).
  change (Normal.join_slash (s :: s2 :: r)) with (s ++ 47 :: Normal.join_slash (s2 :: r)).
  cbn [concat]. rewrite IH. reflexivity.
Qed.

Lemma path_text_recomposed u :
  path_text u = concat ((if absolutePath u || (negb (match pathSegs u with [] => true | _ => false end) && is_host_set u)
                         then [[47]] else []) ++ path_pieces (pathSegs u)).
Proof.
  unfold path_text. rewrite concat_app, path_pieces_join. destruct (_ || _); reflexivity.
Qed.

(* ---- split / join ---- *)
Lemma split_on_no_sep s : no_slash s -> split_on 47 s = [s].
Proof.
  induction s as [|c r IH]; intros H; [reflexivity|].
  inversion H as [|? ? Hc Hr]; subst. cbn [split_on]. apply N.eqb_neq in Hc. rewrite Hc, (IH Hr). reflexivity.
Qed.

Lemma split_on_app s rest : no_slash s -> split_on 47 (s ++ 47 :: rest) = s :: split_on 47 rest.
Proof.
  induction s as [|c r IH]; intros H; [reflexivity|].
  inversion H as [|? ? Hc Hr]; subst. cbn [split_on app]. apply N.eqb_neq in Hc. rewrite Hc, (IH Hr). reflexivity.
Qed.

Lemma split_join segs : segs <> [] -> Forall no_slash segs -> split_on 47 (Normal.join_slash segs) = segs.
Proof.
  induction segs as [|s [|s2 r] IH]; intros Hne H; [contradiction| |].
  - inversion H; subst. apply split_on_no_sep; assumption.
  - inversion H as [|? ? Hs Hr]; subst.
    change (Normal.join_slash (s :: s2 :: r)) with (s ++ 47 :: Normal.join_slash (s2 :: r)).
    rewrite split_on_app by exact Hs. rewrite IH; [reflexivity|discriminate|exact Hr].
Qed.

Lemma join_cons_nil l : l <> [] -> Normal.join_slash ([] :: l) = 47 :: Normal.join_slash l.
Proof. destruct l; [contradiction|reflexivity]. Qed.

(* ---- the engine keeps a segment free of '/' and non-empty ---- *)
Lemma fix_pct_no_slash t : pct_wf t = true -> no_slash t -> no_slash (fix_pct t).
Proof.
  intros Hwf. unfold no_slash. wf_induction t Hwf; intros H.
  - constructor.
  - inversion H as [|? ? Hc' Hr']; subst. rewrite fix_pct_other by exact Hc. constructor; [exact Hc'|exact (IH Hr')].
  - inversion H as [|? ? _ H1]; subst. inversion H1 as [|? ? _ H2]; subst. inversion H2 as [|? ? _ H3]; subst.
    rewrite fix_pct_triplet. destruct (is_unreserved_code _) eqn:Eu.
    + constructor; [|exact (IH H3)]. clear - Eu. arith.
    + constructor; [discriminate|]. constructor; [clear; arith|]. constructor; [clear; arith|]. exact (IH H3).
Qed.

Lemma fix_pct_nil t : fix_pct t = [] -> t = [].
Proof.
  destruct t as [|c [|a [|b r]]]; try discriminate; [reflexivity|].
  cbn [fix_pct]. destruct (c =? 37); [|discriminate]. destruct (is_unreserved_code _); discriminate.
Qed.

(* ---- shape of the walk ---- *)
Lemma rds_walk_nonempty rest : forall kept, kept <> [] \/ rest <> [] -> rds_walk false true false kept rest <> [].
Proof.
  assert (forall (x : text) k, rev (x :: k) <> []) as Hrev.
  { intros x k E. apply (f_equal (@length _)) in E. rewrite rev_length in E. discriminate E. }
  induction rest as [|w nxt IH]; intros kept H.
  - cbn [rds_walk]. destruct H as [H|H]; [|contradiction]. destruct kept; [contradiction|apply Hrev].
  - cbn [rds_walk andb]. destruct (seg_dot w).
    + destruct nxt as [|n1 n2]; [|apply IH; right; discriminate].
      destruct kept as [|p k]; [discriminate|apply Hrev].
    + destruct (seg_dotdot w).
      * destruct kept as [|p [|pp kk]]; (destruct nxt as [|n1 n2]; [try discriminate; try apply Hrev|apply IH; right; discriminate]).
      * apply IH. left. discriminate.
Qed.

Lemma join_drop_lone (x : list text) : Normal.join_slash (match x with [[]] => [] | _ => x end) = Normal.join_slash x.
Proof. destruct x as [|[|? ?] [|? ?]]; reflexivity. Qed.

(* a rootless path (no host, not absolutePath) begins with a non-empty segment: RFC 3986 path-rootless *)
Definition rootless_ok (u : uri) : Prop :=
  absolutePath u = false -> is_host_set u = false -> match pathSegs u with [] :: _ => False | _ => True end.

(* ---- the guard ---- *)
Lemma rds_walk_Forall (P : text -> Prop) rel host abs : P [] -> forall rest kept,
  Forall P kept -> Forall P rest -> Forall P (rds_walk rel host abs kept rest).
Proof.
  intros HP0.
  assert (forall k, Forall P k -> Forall P (rev k)) as Hrev.
  { intros k Hk. apply Forall_forall. intros x Hx. apply in_rev in Hx. rewrite Forall_forall in Hk. auto. }
  induction rest as [|w nxt IH]; intros kept Hk Hr.
  - cbn [rds_walk]. auto.
  - inversion Hr as [|? ? Hw Hn]; subst. cbn [rds_walk].
    destruct (seg_dot w).
    + destruct (rel && _ && _); [apply IH; auto|].
      destruct nxt as [|n1 n2]; [|apply IH; assumption].
      destruct kept as [|p k]; [destruct host; repeat constructor; exact HP0|].
      apply Hrev. constructor; [exact HP0|assumption].
    + destruct (seg_dotdot w).
      * destruct (rel && _); [apply IH; auto|].
        destruct kept as [|p [|pp kk]].
        -- destruct nxt as [|n1 n2]; [destruct abs; repeat constructor; exact HP0|apply IH; auto].
        -- destruct nxt as [|n1 n2]; [destruct abs; repeat constructor; exact HP0|apply IH; auto].
        -- inversion Hk as [|? ? _ Hk']; subst.
           destruct nxt as [|n1 n2]; [apply Hrev; constructor; [exact HP0|assumption]|apply IH; assumption].
      * apply IH; auto.
Qed.

Lemma no_slash_head c s : no_slash (c :: s) -> (c =? 47) = false /\ (47 =? c) = false.
Proof. intros H. inversion H as [|? ? Hc _]. split; apply N.eqb_neq; congruence. Qed.

Lemma join_head (c : N) (s : text) (l : list text) : exists tl', Normal.join_slash (@cons text (c :: s) l) = c :: tl'.
Proof. destruct l; eexists; reflexivity. Qed.

(* behind the root: the text "/" ++ join w begins with "//" iff the first segment is empty and another follows *)
Lemma dslash_rooted w : Forall no_slash w ->
  Resolve.starts_with [47; 47] (47 :: Normal.join_slash w) = match w with [] :: _ :: _ => true | _ => false end.
Proof.
  intros H. destruct w as [|[|c s] l].
  - reflexivity.
  - destruct l; reflexivity.
  - inversion H as [|? ? Hc _]. destruct (no_slash_head _ _ Hc) as [Hc1 Hc2].
    destruct (join_head c s l) as [tl' E]. rewrite E. cbn [Resolve.starts_with]. rewrite Hc2.
    rewrite andb_false_r. reflexivity.
Qed.

(* rootless: the text join w begins with "//" or is "/" iff the first two segments are empty *)
Lemma dslash_rootless w : Forall no_slash w ->
  Resolve.starts_with [47; 47] (Normal.join_slash w) || Resolve.text_eqb (Normal.join_slash w) [47]
  = match w with [] :: [] :: _ => true | _ => false end.
Proof.
  intros H. destruct w as [|[|c s] l].
  - reflexivity.
  - destruct l as [|[|d t] r].
    + reflexivity.
    + destruct r; reflexivity.
    + inversion H as [|? ? _ H2]. inversion H2 as [|? ? Hd _]. destruct (no_slash_head _ _ Hd) as [Hd1 Hd2].
      change (Normal.join_slash ([] :: (d :: t) :: r)) with (47 :: Normal.join_slash (@cons text (d :: t) r)).
      destruct (join_head d t r) as [tl' E]. rewrite E. cbn [Resolve.starts_with Resolve.text_eqb].
      rewrite Hd2. rewrite !andb_false_r. reflexivity.
  - inversion H as [|? ? Hc _]. destruct (no_slash_head _ _ Hc) as [Hc1 Hc2].
    destruct (join_head c s l) as [tl' E]. rewrite E. cbn [Resolve.starts_with Resolve.text_eqb].
    rewrite Hc1, Hc2. reflexivity.
Qed.

Lemma guard_segs_host w : guard_segs true false w = w.
Proof. destruct w as [|[|? ?] [|[|? ?] ?]]; reflexivity. Qed.

(* ---- the link ---- *)
Definition is_nil (l : list text) : bool := match l with [] => true | _ => false end.

(* the engine's path equals the specification's normal form of the path text, including the "." segment in
   front of a host-less path that would be written with "//" in front (Normal.guard_path) *)
Lemma path_link_core (Hlink : rds_link) (has_scheme host abs : bool) (segs : list text) :
  forallb pct_wf segs = true -> Forall no_slash segs ->
  (abs = false -> host = false -> match segs with [] :: _ => False | _ => True end) ->
  (host = true -> abs = false) ->
  negb has_scheme && negb abs && negb host = false ->
  (if abs || (negb (is_nil (norm_segs_of false host abs segs)) && host) then [47] else [])
    ++ Normal.join_slash (norm_segs_of false host abs segs)
  = Normal.guard_path (negb abs && negb host && negb (is_nil segs)) host
      (Normal.path_normal has_scheme host
         ((if abs || (negb (is_nil segs) && host) then [47] else []) ++ Normal.join_slash segs)).
Proof.
  intros Hwf Hns Hroot Hha Hrel.
  unfold norm_segs_of. cbv zeta.
  remember (map fix_pct segs) as segs' eqn:Hsegs'.
  assert (map (Normal.pct_norm false) segs = segs') as Hmap.
  { subst segs'. apply map_ext_in. intros s Hs. symmetry. apply fix_pct_spec. rewrite forallb_forall in Hwf. auto. }
  assert (Forall no_slash segs') as Hns'.
  { subst segs'. apply Forall_forall. intros x Hx. apply in_map_iff in Hx. destruct Hx as [s [Hs Hin]]. subst x.
    rewrite Forall_forall in Hns. rewrite forallb_forall in Hwf. apply fix_pct_no_slash; auto. }
  (* the percent-normalized path text *)
  assert (Normal.join_slash (map (Normal.pct_norm false)
            (split_on 47 ((if abs || (negb (is_nil segs) && host) then [47] else []) ++ Normal.join_slash segs)))
          = (if abs || (negb (is_nil segs) && host) then [47] else []) ++ Normal.join_slash segs') as Hp.
  { assert (Normal.pct_norm false [] = []) as Hf0 by reflexivity.
    destruct segs as [|s0 sr].
    - subst segs'. cbn [map Normal.join_slash is_nil]. destruct (abs || _); reflexivity.
    - assert (s0 :: sr <> []) as Hne by discriminate.
      assert (segs' <> []) as Hne' by (subst segs'; discriminate).
      destruct (abs || _).
      + change ([47] ++ Normal.join_slash (s0 :: sr)) with (47 :: Normal.join_slash (s0 :: sr)).
        change (split_on 47 (47 :: Normal.join_slash (s0 :: sr)))
          with ([] :: split_on 47 (Normal.join_slash (s0 :: sr))).
        rewrite split_join by assumption. cbn [map]. rewrite Hf0.
        change (map (Normal.pct_norm false) sr) with (tl (map (Normal.pct_norm false) (s0 :: sr))).
        change (Normal.pct_norm false s0) with (hd [] (map (Normal.pct_norm false) (s0 :: sr))).
        rewrite Hmap. destruct segs' as [|x xs]; [contradiction|]. reflexivity.
      + cbn [app]. rewrite split_join by assumption. rewrite Hmap. reflexivity. }
  unfold Normal.path_normal. rewrite Hp. clear Hp.
  destruct segs as [|s0 sr].
  - (* no segments: nothing to normalize, nothing to guard *)
    subst segs'. cbn [map is_nil negb andb Normal.join_slash]. rewrite !andb_false_r, orb_false_r, app_nil_r.
    assert (guard_segs host abs [] = []) as Eg by (destruct abs; reflexivity). rewrite Eg.
    assert ((if negb host then @nil text else []) = []) as E0 by (destruct host; reflexivity).
    rewrite E0. cbn [is_nil negb andb Normal.join_slash]. rewrite orb_false_r, app_nil_r.
    destruct abs, host; reflexivity.
  - assert (segs' <> []) as Hne' by (subst segs'; discriminate).
    assert (match segs' with [] => [] | _ :: _ => rds_walk false host abs [] segs' end
            = rds_walk false host abs [] segs') as Hm by (destruct segs'; [contradiction|reflexivity]).
    rewrite Hm.
    pose proof (Hlink host abs segs' Hne' Hns') as HL.
    assert (Forall no_slash (rds_walk false host abs [] segs')) as Hnw
      by (apply rds_walk_Forall; [constructor|constructor|exact Hns']).
    remember (rds_walk false host abs [] segs') as w eqn:Hw.
    cbn [is_nil negb andb]. rewrite andb_true_r. destruct (abs || host) eqn:Eah.
    + (* rooted *)
      change ([47] ++ Normal.join_slash segs') with (47 :: Normal.join_slash segs').
      cbn [head_is]. rewrite N.eqb_refl. rewrite <- HL.
      assert (negb abs && negb host = false) as Erl by (destruct abs, host; try reflexivity; discriminate Eah).
      rewrite Erl. unfold Normal.guard_path.
      destruct host.
      * (* behind an authority: no guard on either side *)
        rewrite (Hha eq_refl) in *. rewrite guard_segs_host. cbn [negb orb andb].
        rewrite andb_true_r.
        pose proof (rds_walk_nonempty segs' [] (or_intror Hne')) as Hwne. rewrite <- Hw in Hwne.
        destruct w; [contradiction|reflexivity].
      * (* host-less absolute path *)
        rewrite orb_false_r in Eah. rewrite Eah in *. cbn [negb orb]. rewrite (dslash_rooted w Hnw).
        destruct w as [|[|c s] [|x r]]; reflexivity.
    + (* rootless: a scheme, no host *)
      apply orb_false_elim in Eah. destruct Eah as [Ea Eh]. subst abs host.
      cbn [app orb negb andb].
      assert (has_scheme = true) as Hsch by (destruct has_scheme; [reflexivity|discriminate Hrel]).
      rewrite Hsch. cbn [orb].
      (* the text begins with a character other than '/' *)
      specialize (Hroot eq_refl eq_refl).
      destruct s0 as [|c0 cr]; [contradiction|].
      assert (exists d dr rest, segs' = (d :: dr) :: rest /\ d <> 47) as [d [dr [rest [Es' Hd]]]].
      { subst segs'. cbn [map].
        destruct (fix_pct (c0 :: cr)) as [|d dr] eqn:Ef; [apply fix_pct_nil in Ef; discriminate Ef|].
        exists d, dr, (map fix_pct sr). split; [reflexivity|].
        assert (no_slash (d :: dr)) as Hn.
        { rewrite <- Ef. rewrite Forall_forall in Hns. rewrite forallb_forall in Hwf.
          apply fix_pct_no_slash; [apply Hwf|apply Hns]; left; reflexivity. }
        inversion Hn; assumption. }
      assert (exists tl', Normal.join_slash segs' = d :: tl') as [tl' Ejoin].
      { rewrite Es'. destruct rest; [exists dr; reflexivity|]. eexists. cbn [Normal.join_slash app]. reflexivity. }
      rewrite Ejoin. cbn [head_is]. apply N.eqb_neq in Hd. rewrite Hd.
      unfold Resolve.rds_keep_kind. cbn [head_is]. rewrite Hd. rewrite <- Ejoin, <- HL. cbn [tl].
      unfold Normal.guard_path. rewrite (dslash_rootless w Hnw).
      destruct w as [|[|c s] [|[|e t] r]]; reflexivity.
Qed.

Lemma path_link (Hlink : rds_link) u :
  forallb pct_wf (pathSegs u) = true -> Forall no_slash (pathSegs u) -> rootless_ok u ->
  (is_host_set u = true -> absolutePath u = false) ->
  relative_ref u = false ->
  path_text (normalize 63 u)
  = Normal.guard_path (Normal.is_rootless (path_text u)) (is_host_set u)
      (Normal.path_normal (is_some (scheme u)) (is_host_set u) (path_text u)).
Proof.
  intros Hwf Hns Hroot Hha Hrel.
  assert (is_host_set (normalize 63 u) = is_host_set u) as Hhost.
  { rewrite (normalize_fields 63 u ltac:(discriminate)). unfold is_host_set at 1.
    cbn [hostText ip4 ip6 ipFuture]. change (bit 63 M_HOST) with true. cbv iota. apply norm_host_is_some. }
  assert (Normal.is_rootless (path_text u)
          = negb (absolutePath u) && negb (is_host_set u) && negb (is_nil (pathSegs u))) as Hrl.
  { unfold path_text, Normal.is_rootless. specialize (Hroot).
    destruct (absolutePath u) eqn:Ea; [reflexivity|]. cbn [orb negb andb].
    destruct (pathSegs u) as [|s0 sr] eqn:Es; [cbn; rewrite andb_false_r; reflexivity|].
    cbn [negb andb is_nil]. destruct (is_host_set u) eqn:Eh; [reflexivity|]. cbn [app negb andb].
    specialize (Hroot Ea Eh). rewrite Es in Hroot. destruct s0 as [|c0 cr]; [contradiction|].
    inversion Hns as [|? ? Hc _]. 
    destruct (join_head c0 cr sr) as [tl' E].
    rewrite E. cbn [head_is]. destruct (no_slash_head _ _ Hc) as [Hc1 Hc2]; rewrite ?Hc1, ?Hc2; reflexivity. }
  rewrite Hrl.
  unfold path_text. rewrite Hhost.
  rewrite (normalize_fields 63 u ltac:(discriminate)). cbn [pathSegs absolutePath].
  change (bit 63 M_PATH) with true. cbv iota.
  unfold norm_segs. rewrite Hrel.
  exact (path_link_core Hlink (is_some (scheme u)) (is_host_set u) (absolutePath u) (pathSegs u) Hwf Hns Hroot Hha Hrel).
Qed.

Print Assumptions path_link.
