(* uriAddBaseUriExMm (Model/Resolve.v, add_base) against RFC 3986 section 5.2.2 (Spec/Resolve.v,
   transform): the five components of the result, as texts, are those of the RFC's target, except
   that a host-less path beginning with "//" gets "/." in front (guard_slashes). *)
From Coq Require Import List NArith ZArith Bool Lia String Ascii.
From UP Require Import Base.Chars Model.Uri Model.Common Model.Resolve Model.Recompose Model.Parse Spec.Resolve
  Proofs.DotSegments.
Import ListNotations.
Local Open Scope N_scope.

(* ---------------------------------------------------------------- a URI object as five texts *)
(* the host as written: hostText, in brackets when it is an IP literal *)
Definition host_written (u : uri) : text :=
  let t := match hostText u with Some t => t | None => [] end in
  match ip4 u, ip6 u, ipFuture u with
  | Some _, _, _ => t
  | None, Some _, _ => [91] ++ t ++ [93]
  | None, None, Some _ => [91] ++ t ++ [93]
  | None, None, None => t
  end.

(* [ userinfo "@" ] host [ ":" port ], defined when uriIsHostSet *)
Definition auth_text (u : uri) : option text :=
  if is_host_set u then
    Some ((match userInfo u with Some i => i ++ [64] | None => [] end) ++ host_written u
          ++ (match portText u with Some p => 58 :: p | None => [] end))
  else None.

(* the path as Model/Recompose.v (pieces) prints it *)
Definition path_text (u : uri) : text := path_text_of (absolutePath u) (is_host_set u) (pathSegs u).

Definition five_of_uri (u : uri) : five :=
  mkFive (scheme u) (auth_text u) (path_text u) (query u) (fragment u).

(* ---------------------------------------------------------------- well-formedness *)
Definition nonul (t : text) : bool := forallb (fun c => negb (c =? 0)) t.
Definition first_nonempty (segs : list text) : bool := negb (match segs with [] :: _ => true | _ => false end).
Definition no_dslash (segs : list text) : bool := negb (match segs with [] :: _ :: _ => true | _ => false end).

(* What the proofs need of a URI object; every clause holds of the parser's output:
   1. no segment contains "/";
   2. with a host the absolute-path flag is off (the parser sets it only for host-less paths);
   3. a host-less path with the flag on does not print as "//..." (that text parses as an authority);
   4. a host-less rootless path does not begin with an empty segment (path-rootless / path-noscheme
      begin with segment-nz; a lone empty segment is dropped by uriFixEmptyTrailSegment);
   5. the scheme has no NUL (uriCompareRange uses strncmp). *)
Definition wf (u : uri) : bool :=
  forallb noslash (pathSegs u)
  && (if is_host_set u then negb (absolutePath u)
      else if absolutePath u then no_dslash (pathSegs u) else first_nonempty (pathSegs u))
  && match scheme u with Some s => nonul s | None => true end.

(* the corner of Spec/Resolve.v on objects *)
Definition corner (compat : bool) (rel base : uri) : bool :=
  unspecified_corner (negb compat) (five_of_uri base) (five_of_uri rel).

Lemma wf_noslash u : wf u = true -> forallb noslash (pathSegs u) = true.
Proof. unfold wf. intros H. apply andb_true_iff in H. destruct H as [H _]. apply andb_true_iff in H. apply H. Qed.

Lemma wf_host_abs u : wf u = true -> is_host_set u = true -> absolutePath u = false.
Proof.
  unfold wf. intros H Hh. apply andb_true_iff in H. destruct H as [H _]. apply andb_true_iff in H.
  destruct H as [_ H]. rewrite Hh in H. apply negb_true_iff in H. exact H.
Qed.

Lemma wf_abs_nodslash u : wf u = true -> is_host_set u = false -> absolutePath u = true ->
  no_dslash (pathSegs u) = true.
Proof.
  unfold wf. intros H Hh Ha. apply andb_true_iff in H. destruct H as [H _]. apply andb_true_iff in H.
  destruct H as [_ H]. rewrite Hh, Ha in H. exact H.
Qed.

Lemma wf_rootless_first u : wf u = true -> is_host_set u = false -> absolutePath u = false ->
  first_nonempty (pathSegs u) = true.
Proof.
  unfold wf. intros H Hh Ha. apply andb_true_iff in H. destruct H as [H _]. apply andb_true_iff in H.
  destruct H as [_ H]. rewrite Hh, Ha in H. exact H.
Qed.

Lemma wf_scheme u s : wf u = true -> scheme u = Some s -> nonul s = true.
Proof. unfold wf. intros H Hs. apply andb_true_iff in H. destruct H as [_ H]. rewrite Hs in H. exact H. Qed.

(* ---------------------------------------------------------------- the path operations on (host, abs, segments) *)
Definition rds_p (h a : bool) (s : list text) : list text :=
  match s with [] => [] | _ => rds_walk false h a [] s end.
Definition fixamb_p (h a : bool) (s : list text) : list text :=
  match a, s with
  | true, [] :: _ :: _ => [46] :: s
  | false, [] :: [] :: _ => if h then s else [46] :: s
  | _, _ => s
  end.
Definition fixtrail_p (h : bool) (s : list text) : list text :=
  if negb h then match s with [[]] => [] | _ => s end else s.

Lemma rds_nf u : remove_dot_segments_absolute u
  = set_pathSegs (rds_p (is_host_set u) (absolutePath u) (pathSegs u)) u.
Proof.
  unfold remove_dot_segments_absolute, Common.remove_dot_segments, rds_p.
  destruct u as [sc ui ht i4 i6 ifu po ps qu fr ab ow]. cbn [pathSegs absolutePath].
  destruct ps; reflexivity.
Qed.

Lemma fixamb_nf u : fix_ambiguity u
  = set_pathSegs (fixamb_p (is_host_set u) (absolutePath u) (pathSegs u)) u.
Proof.
  unfold fix_ambiguity, fixamb_p.
  destruct u as [sc ui ht i4 i6 ifu po ps qu fr ab ow]. cbn [pathSegs absolutePath].
  destruct ab; destruct ps as [|[|c s] [|[|c2 s2] r]]; try reflexivity;
    destruct (is_host_set _); reflexivity.
Qed.

Lemma fixtrail_nf u : fix_empty_trail_segment u
  = set_pathSegs (fixtrail_p (is_host_set u) (pathSegs u)) u.
Proof.
  unfold fix_empty_trail_segment, fixtrail_p.
  destruct u as [sc ui ht i4 i6 ifu po ps qu fr ab ow]. cbn [pathSegs].
  destruct (negb (is_host_set _)); [|reflexivity].
  destruct ps as [|[|c s] [|s2 r]]; reflexivity.
Qed.

Lemma merge_nf work rel : merge_path work rel
  = set_pathSegs (match pathSegs rel with [] => pathSegs work | _ => removelast (pathSegs work) ++ pathSegs rel end) work.
Proof.
  unfold merge_path. destruct (pathSegs rel); [|reflexivity].
  destruct work; reflexivity.
Qed.

Lemma resabs_nf u : resolve_abs_flag u
  = if is_host_set u && absolutePath u
    then set_absolutePath false (set_pathSegs (match pathSegs u with [] => [[]] | _ => pathSegs u end) u)
    else u.
Proof.
  unfold resolve_abs_flag. destruct (is_host_set u && absolutePath u); [|reflexivity].
  destruct u as [sc ui ht i4 i6 ifu po ps qu fr ab ow]. cbn [pathSegs]. destruct ps; reflexivity.
Qed.

(* authority through the record operations *)
Lemma host_copy_authority d src : is_host_set (copy_authority d src) = is_host_set src.
Proof.
  destruct src as [sc ui ht i4 i6 ifu po ps qu fr ab ow]. unfold copy_authority, is_host_set.
  cbn [hostText ip4 ip6 ipFuture set_portText set_ipFuture set_ip6 set_ip4 set_hostText set_userInfo
       scheme userInfo portText pathSegs query fragment absolutePath owner].
  destruct ht, i4, i6, ifu; reflexivity.
Qed.

Lemma auth_copy_authority d src : auth_text (copy_authority d src) = auth_text src.
Proof.
  unfold auth_text. rewrite host_copy_authority.
  destruct src as [sc ui ht i4 i6 ifu po ps qu fr ab ow]. unfold copy_authority, host_written.
  cbn [hostText ip4 ip6 ipFuture set_portText set_ipFuture set_ip6 set_ip4 set_hostText set_userInfo
       scheme userInfo portText pathSegs query fragment absolutePath owner].
  destruct i4, i6, ifu; reflexivity.
Qed.

Lemma host_set_scheme v u : is_host_set (set_scheme v u) = is_host_set u. Proof. reflexivity. Qed.
Lemma host_set_query v u : is_host_set (set_query v u) = is_host_set u. Proof. reflexivity. Qed.
Lemma host_set_fragment v u : is_host_set (set_fragment v u) = is_host_set u. Proof. reflexivity. Qed.
Lemma host_set_pathSegs v u : is_host_set (set_pathSegs v u) = is_host_set u. Proof. reflexivity. Qed.
Lemma host_set_absolutePath v u : is_host_set (set_absolutePath v u) = is_host_set u. Proof. reflexivity. Qed.
Lemma host_copy_path d src : is_host_set (copy_path d src) = is_host_set d. Proof. reflexivity. Qed.
Lemma auth_set_scheme v u : auth_text (set_scheme v u) = auth_text u. Proof. reflexivity. Qed.
Lemma auth_set_query v u : auth_text (set_query v u) = auth_text u. Proof. reflexivity. Qed.
Lemma auth_set_fragment v u : auth_text (set_fragment v u) = auth_text u. Proof. reflexivity. Qed.
Lemma auth_set_pathSegs v u : auth_text (set_pathSegs v u) = auth_text u. Proof. reflexivity. Qed.
Lemma auth_set_absolutePath v u : auth_text (set_absolutePath v u) = auth_text u. Proof. reflexivity. Qed.
Lemma auth_copy_path d src : auth_text (copy_path d src) = auth_text d. Proof. reflexivity. Qed.

#[export] Hint Rewrite host_set_scheme host_set_query host_set_fragment host_set_pathSegs host_set_absolutePath
  host_copy_path host_copy_authority auth_set_scheme auth_set_query auth_set_fragment auth_set_pathSegs
  auth_set_absolutePath auth_copy_path auth_copy_authority : uri_db.

Ltac usimpl :=
  cbn [scheme userInfo hostText ip4 ip6 ipFuture portText pathSegs query fragment absolutePath owner
       set_scheme set_userInfo set_hostText set_ip4 set_ip6 set_ipFuture set_portText set_pathSegs
       set_query set_fragment set_absolutePath copy_authority copy_path empty_uri].

(* the scheme decision of uriAddBaseUriExMm *)
Definition keeps_scheme (compat : bool) (sb : option text) (rel : uri) : bool :=
  is_some (scheme rel) && negb (compat && is_some (scheme rel) && range_eqb sb (scheme rel)).

(* ---------------------------------------------------------------- the model, branch by branch *)
Section ModelBranches.
  Variables (compat : bool) (rel base : uri) (sb : text).
  Hypothesis Hsb : scheme base = Some sb.

  Lemma add_base_success : fst (add_base compat rel base) = URI_SUCCESS.
  Proof. unfold add_base, add_base_impl. rewrite Hsb. reflexivity. Qed.

  Let hr := is_host_set rel.
  Let ar := absolutePath rel.
  Let hb := is_host_set base.
  Let ab := absolutePath base.

  Lemma model_keeps : keeps_scheme compat (Some sb) rel = true ->
    five_of_uri (snd (add_base compat rel base))
    = mkFive (scheme rel) (auth_text rel)
             (path_text_of ar hr (fixtrail_p hr (fixamb_p hr ar (rds_p hr ar (pathSegs rel)))))
             (query rel) (fragment rel).
  Proof.
    intros Hk. unfold add_base, add_base_impl. rewrite Hsb. cbv zeta.
    unfold keeps_scheme in Hk. rewrite Hk. cbn [snd].
    rewrite rds_nf, fixamb_nf, fixtrail_nf. unfold five_of_uri, path_text.
    autorewrite with uri_db. usimpl. reflexivity.
  Qed.

  Lemma model_relhost : keeps_scheme compat (Some sb) rel = false -> hr = true ->
    five_of_uri (snd (add_base compat rel base))
    = mkFive (Some sb) (auth_text rel)
             (path_text_of ar hr (fixtrail_p hr (rds_p hr ar (pathSegs rel))))
             (query rel) (fragment rel).
  Proof.
    intros Hk Hh. unfold add_base, add_base_impl. rewrite Hsb. cbv zeta.
    unfold keeps_scheme in Hk. rewrite Hk. unfold hr in Hh. rewrite Hh. cbn [snd].
    rewrite rds_nf, fixtrail_nf. unfold five_of_uri, path_text.
    autorewrite with uri_db. usimpl. reflexivity.
  Qed.

  Lemma model_empty : keeps_scheme compat (Some sb) rel = false -> hr = false ->
    pathSegs rel = [] -> ar = false ->
    five_of_uri (snd (add_base compat rel base))
    = mkFive (Some sb) (auth_text base) (path_text_of ab hb (fixtrail_p hb (pathSegs base)))
             (match query rel with Some q => Some q | None => query base end) (fragment rel).
  Proof.
    intros Hk Hh Hp Ha. unfold add_base, add_base_impl. rewrite Hsb. cbv zeta.
    unfold keeps_scheme in Hk. rewrite Hk. unfold hr in Hh. rewrite Hh. unfold ar in Ha. rewrite Hp, Ha.
    cbn [snd]. rewrite fixtrail_nf. unfold five_of_uri, path_text.
    autorewrite with uri_db. usimpl. reflexivity.
  Qed.

  Lemma model_abs : keeps_scheme compat (Some sb) rel = false -> hr = false -> ar = true ->
    five_of_uri (snd (add_base compat rel base))
    = let a' := negb hb in
      let segs' := if hb then match pathSegs rel with [] => [[]] | _ => pathSegs rel end else pathSegs rel in
      mkFive (Some sb) (auth_text base)
             (path_text_of a' hb (fixtrail_p hb (fixamb_p hb a' (rds_p hb a' segs'))))
             (query rel) (fragment rel).
  Proof.
    intros Hk Hh Ha. unfold add_base, add_base_impl. rewrite Hsb. cbv zeta.
    unfold keeps_scheme in Hk. rewrite Hk. unfold hr in Hh. rewrite Hh. unfold ar in Ha. rewrite Ha.
    assert (forall (Y : uri), match pathSegs rel with [] => Y | _ :: _ => Y end = Y) as Em
      by (intros Y; destruct (pathSegs rel); reflexivity).
    rewrite Em. cbn [snd].
    rewrite resabs_nf. autorewrite with uri_db. usimpl. rewrite Ha. rewrite andb_true_r.
    subst hb. cbv zeta. destruct (is_host_set base) eqn:Ehb.
    - rewrite rds_nf, fixamb_nf, fixtrail_nf. unfold five_of_uri, path_text.
      autorewrite with uri_db. usimpl. rewrite Ehb. reflexivity.
    - rewrite rds_nf, fixamb_nf, fixtrail_nf. unfold five_of_uri, path_text.
      autorewrite with uri_db. usimpl. rewrite Ehb, Ha. reflexivity.
  Qed.

  Lemma model_merge : keeps_scheme compat (Some sb) rel = false -> hr = false -> ar = false ->
    pathSegs rel <> [] ->
    five_of_uri (snd (add_base compat rel base))
    = mkFive (Some sb) (auth_text base)
             (path_text_of ab hb (fixtrail_p hb (fixamb_p hb ab (rds_p hb ab
                (removelast (pathSegs base) ++ pathSegs rel)))))
             (query rel) (fragment rel).
  Proof.
    intros Hk Hh Ha Hp. unfold add_base, add_base_impl. rewrite Hsb. cbv zeta.
    unfold keeps_scheme in Hk. rewrite Hk. unfold hr in Hh. rewrite Hh. unfold ar in Ha. rewrite Ha.
    destruct (pathSegs rel) as [|r1 rs] eqn:Er; [congruence|]. cbn [snd].
    rewrite merge_nf. usimpl. rewrite Er.
    rewrite rds_nf, fixamb_nf, fixtrail_nf. unfold five_of_uri, path_text.
    autorewrite with uri_db. usimpl. reflexivity.
  Qed.
End ModelBranches.

(* ---------------------------------------------------------------- the scheme comparison *)
Lemma text_eqb_length a : forall b, text_eqb a b = true -> length a = length b.
Proof. intros b H. apply text_eqb_true in H. subst b. reflexivity. Qed.

Lemma strncmp_text b : forall a, length b = length a -> nonul b = true ->
  (strncmp b a =? 0)%Z = text_eqb a b.
Proof.
  induction b as [|x b IH]; intros a Hl Hn; destruct a as [|y a]; try discriminate Hl; [reflexivity|].
  cbn [strncmp text_eqb]. unfold nonul in Hn. cbn [forallb] in Hn. apply andb_true_iff in Hn.
  destruct Hn as [Hx Hn]. apply negb_true_iff in Hx.
  rewrite (N.eqb_sym y x). destruct (x =? y) eqn:E.
  - rewrite Hx. cbn [andb]. apply IH; [injection Hl; trivial|exact Hn].
  - cbn [andb]. destruct (x <? y); reflexivity.
Qed.

Lemma range_eqb_text b a : nonul b = true -> range_eqb (Some b) (Some a) = text_eqb a b.
Proof.
  intros Hn. unfold range_eqb, compare_range.
  destruct (Nat.eq_dec (length b) (length a)) as [E|E].
  - rewrite E. rewrite Z.sub_diag. cbn [Z.ltb Z.compare]. apply strncmp_text; assumption.
  - assert (text_eqb a b = false) as Ef.
    { apply not_true_is_false. intros H. apply text_eqb_length in H. congruence. }
    rewrite Ef.
    destruct (0 <? Z.of_nat (length b) - Z.of_nat (length a))%Z eqn:E1; [reflexivity|].
    destruct (Z.of_nat (length b) - Z.of_nat (length a) <? 0)%Z eqn:E2; [reflexivity|].
    apply Z.ltb_ge in E1. apply Z.ltb_ge in E2. lia.
Qed.

(* the RFC's "same scheme under the compatibility option" test in the model's terms *)
Lemma same_scheme_test compat rel sb : nonul sb = true ->
  (negb (negb compat) && match scheme rel with Some a => text_eqb a sb | None => false end)
  = compat && is_some (scheme rel) && range_eqb (Some sb) (scheme rel).
Proof.
  intros Hn. rewrite negb_involutive. destruct compat; [|reflexivity]. cbn [andb].
  destruct (scheme rel) as [a|]; [|reflexivity]. cbn [is_some andb].
  symmetry. apply range_eqb_text. exact Hn.
Qed.

(* ---------------------------------------------------------------- texts of well-formed paths *)
Definition guard_path (has_auth : bool) (p : text) : text :=
  if has_auth then p else if starts_with [47; 47] p then 47 :: 46 :: p else p.

Lemma guard_slashes_path t : guard_slashes t
  = mkFive (f_scheme t) (f_auth t) (guard_path (is_some_t (f_auth t)) (f_path t)) (f_query t) (f_frag t).
Proof.
  unfold guard_slashes, guard_path. destruct t as [s a p q f]. cbn [f_scheme f_auth f_path f_query f_frag].
  destruct a; cbn [is_some_t]; [reflexivity|]. destruct (starts_with [47; 47] p); reflexivity.
Qed.

Lemma auth_text_some u : is_some_t (auth_text u) = is_host_set u.
Proof. unfold auth_text. destruct (is_host_set u); reflexivity. Qed.

Lemma fixamb_host s : fixamb_p true false s = s.
Proof. destruct s as [|[|c s] [|[|c2 s2] r]]; reflexivity. Qed.

Lemma walk_forallb (P : text -> bool) host abs : P [] = true -> forall rest kept,
  forallb P kept = true -> forallb P rest = true -> forallb P (rds_walk false host abs kept rest) = true.
Proof.
  intros HP. induction rest as [|w nxt IH]; intros kept Hk Hr.
  - cbn [rds_walk]. rewrite forallb_rev. exact Hk.
  - cbn [forallb] in Hr. apply andb_true_iff in Hr. destruct Hr as [Hw Hn].
    rewrite walk_false_cons. destruct (seg_dot w).
    { destruct nxt as [|n1 nxt']; [|apply IH; assumption].
      destruct kept as [|p kk]; [destruct host; cbn [forallb]; rewrite ?HP; reflexivity|].
      rewrite forallb_rev. cbn [forallb] in Hk |- *. rewrite HP, Hk. reflexivity. }
    destruct (seg_dotdot w).
    { pose proof (forallb_tl _ _ Hk) as Ht.
      destruct nxt as [|n1 nxt']; [|apply IH; assumption].
      destruct (tl kept) as [|p kk]; [destruct abs; cbn [forallb]; rewrite ?HP; reflexivity|].
      rewrite forallb_rev. cbn [forallb] in Ht |- *. rewrite HP, Ht. reflexivity. }
    apply IH; [|exact Hn]. cbn [forallb]. rewrite Hw, Hk. reflexivity.
Qed.

Lemma path_text_of_rooted a h segs : segs <> [] -> a || h = true ->
  path_text_of a h segs = path_text_rooted segs.
Proof.
  intros Hne Hr. unfold path_text_of. destruct segs as [|s r]; [congruence|].
  cbn [negb andb]. rewrite Hr. cbn [app]. apply join_rooted. discriminate.
Qed.

(* THE PATH LEMMA: dot-segment removal, uriFixAmbiguity and uriFixEmptyTrailSegment on the segment list
   print as the RFC's cleaned text with the "/." guard, outside the corner *)
Lemma path_core h a segs :
  forallb noslash segs = true -> (h = true -> a = false) ->
  (h = false -> a = false -> first_nonempty segs = true) ->
  (h = false -> path_text_of a h segs <> [] -> head_is 47 (path_text_of a h segs) = false ->
   head_is 47 (rds_keep_kind (path_text_of a h segs)) = false) ->
  path_text_of a h (fixtrail_p h (fixamb_p h a (rds_p h a segs)))
  = guard_path h (rds_keep_kind (path_text_of a h segs)).
Proof.
  intros Hs Hha Hfirst Hcorner.
  destruct segs as [|s0 r0].
  { destruct h, a; reflexivity. }
  assert (s0 :: r0 <> []) as Hne by discriminate.
  unfold rds_p. set (R := rds_walk false h a [] (s0 :: r0)).
  assert (forallb noslash R = true) as HR by (apply walk_forallb; try reflexivity; exact Hs).
  destruct h, a.
  - discriminate (Hha eq_refl).
  - (* a host: rooted, never emptied *)
    assert (R <> []) as HRne by (apply walk_nonempty_host; exact Hne).
    rewrite fixamb_host. cbn [fixtrail_p negb guard_path].
    rewrite (path_text_of_rooted false true R HRne eq_refl).
    rewrite (path_text_of_rooted false true _ Hne eq_refl).
    rewrite <- (rds_walk_rfc_keep_kind true false _ Hne Hs). fold R.
    destruct R; [congruence|reflexivity].
  - (* host-less, absolute-path flag *)
    rewrite (path_text_of_rooted true false _ Hne eq_refl).
    rewrite <- (rds_walk_rfc_keep_kind false true _ Hne Hs). fold R.
    destruct R as [|[|c s] [|x r]]; try reflexivity.
    + (* leading empty segment followed by another: "/." in front on both sides *)
      cbn [fixamb_p fixtrail_p negb].
      rewrite path_text_of_rooted by (discriminate || reflexivity).
      reflexivity.
    + cbn [fixamb_p fixtrail_p negb].
      rewrite path_text_of_rooted by (discriminate || reflexivity).
      cbn [forallb] in HR. apply andb_true_iff in HR. destruct HR as [Hc _].
      apply noslash_cons in Hc. destruct Hc as [Hc _]. apply N.eqb_neq in Hc. rewrite N.eqb_sym in Hc.
      unfold rooted_text, guard_path. rewrite ptr_cons. cbn [app starts_with]. rewrite Hc.
      rewrite andb_false_r. reflexivity.
    + cbn [fixamb_p fixtrail_p negb].
      rewrite path_text_of_rooted by (discriminate || reflexivity).
      cbn [forallb] in HR. apply andb_true_iff in HR. destruct HR as [Hc _].
      apply noslash_cons in Hc. destruct Hc as [Hc _]. apply N.eqb_neq in Hc. rewrite N.eqb_sym in Hc.
      unfold rooted_text, guard_path. rewrite ptr_cons. cbn [app starts_with]. rewrite Hc.
      rewrite andb_false_r. reflexivity.
  - (* host-less, rootless *)
    specialize (Hfirst eq_refl eq_refl). specialize (Hcorner eq_refl).
    assert (exists c0 t, join_text (s0 :: r0) = c0 :: t /\ (c0 =? 47) = false) as (c0 & t & Et & Hc0).
    { cbn [forallb] in Hs. apply andb_true_iff in Hs. destruct Hs as [Hs0 _].
      destruct s0 as [|c0 s0']; [discriminate Hfirst|].
      apply noslash_cons in Hs0. destruct Hs0 as [Hc0 _]. apply N.eqb_neq in Hc0.
      exists c0. unfold join_text. destruct r0; cbn [path_pieces concat app]; eexists; (split; [reflexivity|exact Hc0]). }
    assert (head_is 47 (join_text (s0 :: r0)) = false) as Hh47 by (rewrite Et; exact Hc0).
    change (path_text_of false false (s0 :: r0)) with (join_text (s0 :: r0)) in Hcorner |- *.
    specialize (Hcorner ltac:(rewrite Et; discriminate) Hh47).
    rewrite <- (rds_walk_rfc_rootless false false _ Hne Hs Hh47) in Hcorner |- *. fold R in Hcorner |- *.
    destruct R as [|[|c s] [|x r]]; try reflexivity.
    + (* a leading empty segment after cleaning: the corner *)
      exfalso. unfold join_text in Hcorner. cbn [path_pieces concat app head_is] in Hcorner. discriminate Hcorner.
    + cbn [fixamb_p fixtrail_p negb]. unfold path_text_of. cbn [orb andb negb app].
      unfold guard_path. unfold join_text in Hcorner |- *. cbn [path_pieces concat app head_is starts_with] in Hcorner |- *.
      rewrite N.eqb_sym in Hcorner. rewrite Hcorner. reflexivity.
    + cbn [fixamb_p fixtrail_p negb]. unfold path_text_of. cbn [orb andb negb app].
      unfold guard_path. unfold join_text in Hcorner |- *. cbn [path_pieces concat app head_is starts_with] in Hcorner |- *.
      rewrite N.eqb_sym in Hcorner. rewrite Hcorner. reflexivity.
Qed.

(* ---------------------------------------------------------------- texts of well-formed host-less paths *)
Lemma rootless_text segs : forallb noslash segs = true -> first_nonempty segs = true -> segs <> [] ->
  exists c t, join_text segs = c :: t /\ (c =? 47) = false.
Proof.
  intros Hs Hf Hne. destruct segs as [|s0 r0]; [congruence|].
  cbn [forallb] in Hs. apply andb_true_iff in Hs. destruct Hs as [Hs0 _].
  destruct s0 as [|c0 s0']; [discriminate Hf|].
  apply noslash_cons in Hs0. destruct Hs0 as [Hc0 _]. apply N.eqb_neq in Hc0.
  exists c0. unfold join_text. destruct r0; cbn [path_pieces concat app]; eexists; (split; [reflexivity|exact Hc0]).
Qed.

Lemma forallb_removelast {A} (f : A -> bool) l : forallb f l = true -> forallb f (removelast l) = true.
Proof.
  induction l as [|x l IH]; intros H; [reflexivity|].
  cbn [forallb] in H. apply andb_true_iff in H. destruct H as [Hx Hl].
  destruct l as [|y l]; [reflexivity|].
  change (removelast (x :: y :: l)) with (x :: removelast (y :: l)). cbn [forallb].
  rewrite Hx. exact (IH Hl).
Qed.

(* the base's own path, kept when the reference has an empty path, needs no guard *)
Lemma path_empty_ref u : wf u = true ->
  path_text_of (absolutePath u) (is_host_set u) (fixtrail_p (is_host_set u) (pathSegs u))
  = guard_path (is_host_set u) (path_text u).
Proof.
  intros Hw. unfold path_text, guard_path, fixtrail_p.
  destruct (is_host_set u) eqn:Hh; [reflexivity|]. cbn [negb].
  pose proof (wf_noslash u Hw) as Hs.
  destruct (absolutePath u) eqn:Ha.
  - pose proof (wf_abs_nodslash u Hw Hh Ha) as Hd.
    destruct (pathSegs u) as [|[|c s] [|x r]]; try reflexivity; try discriminate Hd.
    + cbn [forallb] in Hs. apply andb_true_iff in Hs. destruct Hs as [Hc _].
      apply noslash_cons in Hc. destruct Hc as [Hc _]. apply N.eqb_neq in Hc. rewrite N.eqb_sym in Hc.
      unfold path_text_of, join_text. cbn [orb app path_pieces concat starts_with]. rewrite Hc.
      rewrite andb_false_r. reflexivity.
    + cbn [forallb] in Hs. apply andb_true_iff in Hs. destruct Hs as [Hc _].
      apply noslash_cons in Hc. destruct Hc as [Hc _]. apply N.eqb_neq in Hc. rewrite N.eqb_sym in Hc.
      unfold path_text_of, join_text. cbn [orb app path_pieces concat starts_with]. rewrite Hc.
      rewrite andb_false_r. reflexivity.
  - pose proof (wf_rootless_first u Hw Hh Ha) as Hf.
    destruct (pathSegs u) as [|s0 r0] eqn:Ep; [reflexivity|].
    destruct (rootless_text (s0 :: r0) Hs Hf ltac:(discriminate)) as (c & t & Et & Hc).
    assert (path_text_of false false (s0 :: r0) = c :: t) as Ept by (rewrite <- Et; reflexivity).
    rewrite Ept. cbn [starts_with]. rewrite N.eqb_sym in Hc. rewrite Hc. cbn [andb].
    rewrite <- Ept. destruct s0 as [|c0 s0']; [discriminate Hf|]. destruct r0; reflexivity.
Qed.

Lemma corner_use (raw cleaned : text) :
  match raw with [] => false | _ => negb (head_is 47 raw) && head_is 47 cleaned end = false ->
  raw <> [] -> head_is 47 raw = false -> head_is 47 cleaned = false.
Proof.
  intros H Hne Hh. destruct raw as [|c r]; [congruence|]. rewrite Hh in H. exact H.
Qed.

(* ---------------------------------------------------------------- 5.2.2 with the scheme decision taken *)
Definition transform_rs (rs : option text) (B R : five) : five :=
  match rs with
  | Some s => mkFive (Some s) (f_auth R) (rds_keep_kind (f_path R)) (f_query R) (f_frag R)
  | None =>
    match f_auth R with
    | Some a => mkFive (f_scheme B) (Some a) (rds_keep_kind (f_path R)) (f_query R) (f_frag R)
    | None =>
      match f_path R with
      | [] => mkFive (f_scheme B) (f_auth B) (f_path B)
                     (match f_query R with Some q => Some q | None => f_query B end) (f_frag R)
      | _ =>
        if head_is 47 (f_path R)
        then mkFive (f_scheme B) (f_auth B) (rds_keep_kind (f_path R)) (f_query R) (f_frag R)
        else mkFive (f_scheme B) (f_auth B)
                    (rds_keep_kind (merge (is_some_t (f_auth B)) (f_path B) (f_path R))) (f_query R) (f_frag R)
      end
    end
  end.

Definition corner_rs (keeps : bool) (t B R : five) : bool :=
  match f_auth t with
  | Some _ => false
  | None =>
    let raw :=
      if keeps || is_some_t (f_auth R) then f_path R
      else match f_path R with
           | [] => []
           | _ => if head_is 47 (f_path R) then f_path R
                  else merge (is_some_t (f_auth B)) (f_path B) (f_path R)
           end in
    match raw with
    | [] => false
    | _ => negb (head_is 47 raw) && head_is 47 (f_path t)
    end
  end.

Lemma transform_eq strict B R :
  transform strict B R
  = transform_rs (if negb strict && match f_scheme R, f_scheme B with
                                    | Some a, Some b => text_eqb a b | _, _ => false end
                  then None else f_scheme R) B R.
Proof. reflexivity. Qed.

Lemma corner_eq strict B R :
  unspecified_corner strict B R
  = corner_rs (is_some_t (f_scheme R)
               && negb (negb strict && match f_scheme R, f_scheme B with
                                       | Some a, Some b => text_eqb a b | _, _ => false end))
              (transform strict B R) B R.
Proof. reflexivity. Qed.

(* ---------------------------------------------------------------- the two halves of the theorem *)
Section Halves.
  Variables (compat : bool) (rel base : uri) (sb : text).
  Hypothesis (Hwr : wf rel = true) (Hwb : wf base = true) (Hsb : scheme base = Some sb).

  Lemma resolve_keeps sr : scheme rel = Some sr -> keeps_scheme compat (Some sb) rel = true ->
    corner_rs true (transform_rs (Some sr) (five_of_uri base) (five_of_uri rel))
              (five_of_uri base) (five_of_uri rel) = false ->
    five_of_uri (snd (add_base compat rel base))
    = guard_slashes (transform_rs (Some sr) (five_of_uri base) (five_of_uri rel)).
  Proof.
    intros Hsr Hk Hc. rewrite (model_keeps compat rel base sb Hsb Hk). rewrite guard_slashes_path.
    unfold transform_rs, corner_rs in *. cbn [five_of_uri f_scheme f_auth f_path f_query f_frag orb] in *.
    rewrite auth_text_some. rewrite Hsr. f_equal.
    apply path_core.
    - exact (wf_noslash rel Hwr).
    - exact (wf_host_abs rel Hwr).
    - exact (wf_rootless_first rel Hwr).
    - intros Hh Hne Hh47. fold (path_text rel) in *.
      assert (auth_text rel = None) as Ea by (unfold auth_text; rewrite Hh; reflexivity).
      rewrite Ea in Hc. exact (corner_use _ _ Hc Hne Hh47).
  Qed.

  Lemma resolve_nokeeps : keeps_scheme compat (Some sb) rel = false ->
    corner_rs false (transform_rs None (five_of_uri base) (five_of_uri rel))
              (five_of_uri base) (five_of_uri rel) = false ->
    five_of_uri (snd (add_base compat rel base))
    = guard_slashes (transform_rs None (five_of_uri base) (five_of_uri rel)).
  Proof.
    intros Hk Hc. rewrite guard_slashes_path.
    unfold transform_rs, corner_rs in *. cbn [five_of_uri f_scheme f_auth f_path f_query f_frag orb] in *.
    pose proof (wf_noslash rel Hwr) as Hsr. pose proof (wf_noslash base Hwb) as Hsbs.
    destruct (is_host_set rel) eqn:Hh.
    - (* the reference has an authority *)
      rewrite (model_relhost compat rel base sb Hsb Hk Hh).
      pose proof (auth_text_some rel) as Ea. rewrite Hh in Ea.
      destruct (auth_text rel) as [au|] eqn:Eau; [|discriminate Ea].
      cbn [f_scheme f_auth f_path f_query f_frag is_some_t]. rewrite Hsb. f_equal.
      pose proof (wf_host_abs rel Hwr Hh) as Ha. rewrite Hh, Ha.
      rewrite <- (fixamb_host (rds_p true false (pathSegs rel))).
      fold (path_text rel). unfold path_text. rewrite Hh, Ha.
      apply path_core; [exact Hsr|reflexivity|discriminate|discriminate].
    - assert (auth_text rel = None) as Ea by (unfold auth_text; rewrite Hh; reflexivity).
      rewrite Ea in *. cbn [is_some_t] in Hc.
      destruct (absolutePath rel) eqn:Ha.
      + (* absolute-path reference *)
        rewrite (model_abs compat rel base sb Hsb Hk Hh Ha). cbv zeta.
        assert (exists t, path_text rel = 47 :: t) as [t Et].
        { unfold path_text. rewrite Hh, Ha. unfold path_text_of. cbn [orb app]. eexists. reflexivity. }
        rewrite Et. cbn [head_is]. rewrite N.eqb_refl.
        cbn [f_scheme f_auth f_path f_query f_frag]. rewrite Hsb, auth_text_some. f_equal.
        rewrite <- Et.
        set (hb := is_host_set base).
        set (segs' := if hb then match pathSegs rel with [] => [[]] | _ :: _ => pathSegs rel end else pathSegs rel).
        assert (path_text rel = path_text_of (negb hb) hb segs') as Eraw.
        { unfold path_text. rewrite Hh, Ha. subst segs'. destruct hb; [|reflexivity].
          destruct (pathSegs rel); reflexivity. }
        rewrite Eraw. apply path_core.
        * subst segs'. destruct hb; [|exact Hsr]. destruct (pathSegs rel); [reflexivity|exact Hsr].
        * intros E. rewrite E. reflexivity.
        * intros E E2. rewrite E in E2. discriminate E2.
        * intros E _ Hh47. rewrite <- Eraw, Et in Hh47. cbn [head_is] in Hh47. rewrite N.eqb_refl in Hh47. discriminate Hh47.
      + destruct (pathSegs rel) as [|r1 rs] eqn:Ep.
        * (* empty path *)
          rewrite (model_empty compat rel base sb Hsb Hk Hh Ep Ha).
          assert (path_text rel = []) as Et by (unfold path_text; rewrite Hh, Ha, Ep; reflexivity).
          rewrite Et. cbn [f_scheme f_auth f_path f_query f_frag]. rewrite Hsb, auth_text_some. f_equal.
          apply path_empty_ref. exact Hwb.
        * (* merge *)
          assert (pathSegs rel <> []) as Hne by (rewrite Ep; discriminate). rewrite <- Ep in Hsr.
          rewrite (model_merge compat rel base sb Hsb Hk Hh Ha Hne).
          pose proof (wf_rootless_first rel Hwr Hh Ha) as Hf.
          destruct (rootless_text (pathSegs rel) Hsr Hf Hne) as (c & t & Et & Hc47).
          assert (path_text rel = join_text (pathSegs rel)) as Ept
            by (unfold path_text, path_text_of; rewrite Hh, Ha, andb_false_r; reflexivity).
          rewrite Ept in *. rewrite Et in Hc |- *. cbn [head_is] in Hc |- *. rewrite Hc47 in Hc |- *.
          rewrite <- Et in Hc |- *.
          cbn [f_scheme f_auth f_path f_query f_frag] in Hc |- *. rewrite Hsb, auth_text_some in *. f_equal.
          unfold path_text in Hc |- *.
          rewrite <- (merge_text (absolutePath base) (is_host_set base) (pathSegs base) (pathSegs rel) Hne Hsbs) in Hc |- *.
          apply path_core.
          -- rewrite forallb_app. rewrite (forallb_removelast _ _ Hsbs), Hsr. reflexivity.
          -- exact (wf_host_abs base Hwb).
          -- intros Hhb Hab. pose proof (wf_rootless_first base Hwb Hhb Hab) as Hfb.
             destruct (pathSegs base) as [|b1 [|b2 bs]]; [exact Hf|exact Hf|].
             destruct b1; [discriminate Hfb|reflexivity].
          -- intros Hhb Hrne Hh47.
             assert (auth_text base = None) as Eab by (unfold auth_text; rewrite Hhb; reflexivity).
             rewrite Eab in Hc. rewrite Hhb in *. exact (corner_use _ _ Hc Hrne Hh47).
  Qed.
End Halves.

(* ---------------------------------------------------------------- the resolution theorem *)
Theorem resolve_five compat rel base :
  wf rel = true -> wf base = true -> scheme base <> None -> corner compat rel base = false ->
  fst (add_base compat rel base) = URI_SUCCESS
  /\ five_of_uri (snd (add_base compat rel base))
     = guard_slashes (transform (negb compat) (five_of_uri base) (five_of_uri rel)).
Proof.
  intros Hwr Hwb Hsb Hc. destruct (scheme base) as [sb|] eqn:Esb; [|congruence]. clear Hsb.
  split; [exact (add_base_success compat rel base sb Esb)|].
  pose proof (wf_scheme base sb Hwb Esb) as Hnul.
  unfold corner in Hc. rewrite corner_eq in Hc. rewrite transform_eq in Hc |- *.
  cbn [five_of_uri f_scheme] in Hc |- *. rewrite Esb in Hc |- *.
  match goal with |- context [transform_rs (if ?c then None else scheme rel)] =>
    assert (c = compat && is_some (scheme rel) && range_eqb (Some sb) (scheme rel)) as Etest
      by exact (same_scheme_test compat rel sb Hnul);
    rewrite Etest in Hc |- * end.
  assert (keeps_scheme compat (Some sb) rel
          = is_some (scheme rel) && negb (compat && is_some (scheme rel) && range_eqb (Some sb) (scheme rel)))
    as Ek by reflexivity.
  destruct (compat && is_some (scheme rel) && range_eqb (Some sb) (scheme rel)) eqn:Esame.
  - rewrite andb_false_r in Ek, Hc.
    exact (resolve_nokeeps compat rel base sb Hwr Hwb Esb Ek Hc).
  - rewrite andb_true_r in Ek, Hc.
    destruct (scheme rel) as [sr|] eqn:Esr.
    + exact (resolve_keeps compat rel base sb Hwr Esb sr Esr Ek Hc).
    + exact (resolve_nokeeps compat rel base sb Hwr Hwb Esb Ek Hc).
Qed.

(* ---------------------------------------------------------------- relative base, compatibility option *)
Lemma add_base_rel_base compat rel base : scheme base = None ->
  add_base compat rel base = (URI_ERROR_ADDBASE_REL_BASE, empty_uri).
Proof. intros H. unfold add_base, add_base_impl. rewrite H. reflexivity. Qed.

Lemma strncmp_refl a : strncmp a a = 0%Z.
Proof. induction a as [|x a IH]; [reflexivity|]. cbn [strncmp]. rewrite N.eqb_refl. destruct (x =? 0); [reflexivity|exact IH]. Qed.

Lemma range_eqb_refl o : range_eqb o o = true.
Proof.
  unfold range_eqb, compare_range. destruct o as [a|]; [|reflexivity].
  rewrite Z.sub_diag. cbn [Z.ltb Z.compare]. rewrite strncmp_refl. reflexivity.
Qed.

(* with the option and identical schemes the reference is resolved as if it had no scheme *)
Lemma add_base_compat rel base : scheme base <> None -> scheme rel = scheme base ->
  add_base true rel base = add_base true (set_scheme None rel) base.
Proof.
  intros Hb He. unfold add_base, add_base_impl. destruct (scheme base) as [sb|] eqn:Esb; [|congruence].
  cbv zeta. rewrite He. cbn [scheme set_scheme is_some andb negb]. rewrite range_eqb_refl. reflexivity.
Qed.

(* the option changes nothing for a reference without scheme or with another scheme *)
Lemma add_base_compat_other rel base :
  is_some (scheme rel) && range_eqb (scheme base) (scheme rel) = false ->
  add_base true rel base = add_base false rel base.
Proof.
  intros H. unfold add_base, add_base_impl. destruct (scheme base) as [sb|] eqn:Esb; [|reflexivity].
  cbv zeta. cbn [andb negb]. rewrite H. reflexivity.
Qed.

(* ---------------------------------------------------------------- the authority, field by field *)
Definition auth_fields (u : uri) :=
  (userInfo u, hostText u, ip4 u, ip6 u, ipFuture u, portText u).

(* at most one of the three host-data members is set (so for parsed URIs) *)
Definition one_kind (u : uri) : bool :=
  match ip4 u, ip6 u, ipFuture u with
  | Some _, None, None | None, Some _, None | None, None, _ => true
  | _, _, _ => false
  end.

Lemma auth_fields_copy d src : one_kind src = true -> auth_fields (copy_authority d src) = auth_fields src.
Proof.
  destruct src as [sc ui ht i4 i6 ifu po ps qu fr ab ow]. unfold one_kind, auth_fields, copy_authority.
  usimpl. destruct i4, i6, ifu; intros H; try discriminate H; reflexivity.
Qed.

Lemma af_set_scheme v u : auth_fields (set_scheme v u) = auth_fields u. Proof. reflexivity. Qed.
Lemma af_set_query v u : auth_fields (set_query v u) = auth_fields u. Proof. reflexivity. Qed.
Lemma af_set_fragment v u : auth_fields (set_fragment v u) = auth_fields u. Proof. reflexivity. Qed.
Lemma af_set_pathSegs v u : auth_fields (set_pathSegs v u) = auth_fields u. Proof. reflexivity. Qed.
Lemma af_set_absolutePath v u : auth_fields (set_absolutePath v u) = auth_fields u. Proof. reflexivity. Qed.
Lemma af_copy_path d src : auth_fields (copy_path d src) = auth_fields d. Proof. reflexivity. Qed.
Lemma af_rds u : auth_fields (remove_dot_segments_absolute u) = auth_fields u. Proof. rewrite rds_nf. reflexivity. Qed.
Lemma af_fixamb u : auth_fields (fix_ambiguity u) = auth_fields u. Proof. rewrite fixamb_nf. reflexivity. Qed.
Lemma af_fixtrail u : auth_fields (fix_empty_trail_segment u) = auth_fields u. Proof. rewrite fixtrail_nf. reflexivity. Qed.
Lemma af_merge u r : auth_fields (merge_path u r) = auth_fields u. Proof. rewrite merge_nf. reflexivity. Qed.
Lemma af_resabs u : auth_fields (resolve_abs_flag u) = auth_fields u.
Proof. rewrite resabs_nf. destruct (is_host_set u && absolutePath u); reflexivity. Qed.

#[export] Hint Rewrite af_set_scheme af_set_query af_set_fragment af_set_pathSegs af_set_absolutePath
  af_copy_path af_rds af_fixamb af_fixtrail af_merge af_resabs : af_db.

(* user info, host text, host kind and data, port: those of the reference when it keeps its scheme or has
   an authority, else those of the base *)
Theorem resolve_authority compat rel base : one_kind rel = true -> one_kind base = true ->
  scheme base <> None ->
  auth_fields (snd (add_base compat rel base))
  = auth_fields (if keeps_scheme compat (scheme base) rel || is_host_set rel then rel else base).
Proof.
  intros Hr Hb Hs. unfold add_base, add_base_impl, keeps_scheme.
  destruct (scheme base) as [sb|] eqn:Esb; [|congruence]. cbv zeta.
  destruct (is_some (scheme rel) && negb (compat && is_some (scheme rel) && range_eqb (Some sb) (scheme rel))).
  - cbn [snd orb]. autorewrite with af_db. apply auth_fields_copy. exact Hr.
  - cbn [orb]. destruct (is_host_set rel).
    + cbn [snd]. autorewrite with af_db. apply auth_fields_copy. exact Hr.
    + destruct (pathSegs rel), (absolutePath rel); cbn [snd]; autorewrite with af_db;
        apply auth_fields_copy; exact Hb.
Qed.

(* ---------------------------------------------------------------- the recomposed text *)
Lemma concat_opt_pieces pre o post :
  concat (opt_pieces pre o post) = match o with Some t => concat pre ++ t ++ concat post | None => [] end.
Proof.
  unfold opt_pieces. destruct o as [t|]; [|reflexivity].
  rewrite !concat_app. cbn [concat]. rewrite app_nil_r. reflexivity.
Qed.

(* for a host that is printed as written (a registered name: no IP data) uriToString's text is the
   RFC 5.3 recomposition of the five components *)
Lemma to_text_recompose u : ip4 u = None -> ip6 u = None -> ipFuture u = None ->
  to_text u = recompose (five_of_uri u).
Proof.
  intros H4 H6 Hf. unfold to_text, pieces, recompose, five_of_uri, auth_text, host_written, path_text, path_text_of.
  cbn [f_scheme f_auth f_path f_query f_frag]. rewrite H4, H6, Hf.
  rewrite !concat_app. rewrite !concat_opt_pieces. cbn [concat app].
  f_equal.
  assert (forall (o : option text) c, match o with Some t => c :: t ++ [] | None => [] end
                                      = match o with Some t => c :: t | None => [] end) as Etail
    by (intros o c; destruct o; rewrite ?app_nil_r; reflexivity).
  rewrite !Etail. rewrite <- !app_assoc.
  f_equal.
  { destruct (is_host_set u); [|reflexivity]. cbn [concat]. f_equal.
    rewrite !concat_app. rewrite !concat_opt_pieces. cbn [concat app]. rewrite Etail.
    destruct (hostText u); [cbn [concat]; rewrite app_nil_r|]; reflexivity. }
  f_equal.
  destruct (absolutePath u || negb match pathSegs u with [] => true | _ :: _ => false end && is_host_set u); reflexivity.
Qed.

Definition no_ip (u : uri) : bool :=
  match ip4 u, ip6 u, ipFuture u with None, None, None => true | _, _, _ => false end.

(* the text uriToString gives for the result is the RFC's recomposed target, for hosts printed as written *)
Theorem resolve_text compat rel base :
  wf rel = true -> wf base = true -> scheme base <> None -> corner compat rel base = false ->
  no_ip rel = true -> no_ip base = true ->
  to_text (snd (add_base compat rel base))
  = recompose (guard_slashes (transform (negb compat) (five_of_uri base) (five_of_uri rel))).
Proof.
  intros Hwr Hwb Hsb Hc Hir Hib.
  destruct (resolve_five compat rel base Hwr Hwb Hsb Hc) as [_ E]. rewrite <- E.
  assert (forall u, no_ip u = true -> one_kind u = true) as Hone
    by (intros u; unfold no_ip, one_kind; destruct (ip4 u), (ip6 u), (ipFuture u); intros H; try discriminate H; reflexivity).
  pose proof (resolve_authority compat rel base (Hone _ Hir) (Hone _ Hib) Hsb) as Ea.
  assert (no_ip (if keeps_scheme compat (scheme base) rel || is_host_set rel then rel else base) = true) as Hn
    by (destruct (keeps_scheme compat (scheme base) rel || is_host_set rel); assumption).
  set (src := if keeps_scheme compat (scheme base) rel || is_host_set rel then rel else base) in *.
  set (d := snd (add_base compat rel base)) in *.
  unfold auth_fields in Ea. injection Ea as _ _ E4 E6 Ef _.
  unfold no_ip in Hn. rewrite <- E4, <- E6, <- Ef in Hn.
  destruct (ip4 d) eqn:D4; [discriminate Hn|]. destruct (ip6 d) eqn:D6; [discriminate Hn|].
  destruct (ipFuture d) eqn:Df; [discriminate Hn|].
  apply to_text_recompose; assumption.
Qed.

(* ---------------------------------------------------------------- the corner on objects *)
Definition leading_empty (segs : list text) : bool := match segs with [] :: _ :: _ => true | _ => false end.

(* host-less result, rootless path to clean (the reference's own, or the merge with a host-less rootless
   base), and a leading empty segment after cleaning *)
Definition corner_obj (compat : bool) (rel base : uri) : bool :=
  if is_host_set rel || absolutePath rel then false
  else if keeps_scheme compat (scheme base) rel then leading_empty (rds_p false false (pathSegs rel))
  else match pathSegs rel with
       | [] => false
       | _ => if is_host_set base || absolutePath base then false
              else leading_empty (rds_walk false false false [] (removelast (pathSegs base) ++ pathSegs rel))
       end.

Lemma head_join_leading R : forallb noslash R = true -> head_is 47 (join_text R) = leading_empty R.
Proof.
  intros H. destruct R as [|[|c s] [|x r]]; try reflexivity.
  - cbn [forallb] in H. apply andb_true_iff in H. destruct H as [Hc _].
    apply noslash_cons in Hc. destruct Hc as [Hc _]. apply N.eqb_neq in Hc. exact Hc.
  - cbn [forallb] in H. apply andb_true_iff in H. destruct H as [Hc _].
    apply noslash_cons in Hc. destruct Hc as [Hc _]. apply N.eqb_neq in Hc. exact Hc.
Qed.

Lemma corner_rootless segs : segs <> [] -> forallb noslash segs = true -> first_nonempty segs = true ->
  match join_text segs with
  | [] => false
  | _ => negb (head_is 47 (join_text segs)) && head_is 47 (rds_keep_kind (join_text segs))
  end = leading_empty (rds_walk false false false [] segs).
Proof.
  intros Hne Hs Hf. destruct (rootless_text segs Hs Hf Hne) as (c & t & Et & Hc).
  assert (head_is 47 (join_text segs) = false) as Hh by (rewrite Et; exact Hc).
  rewrite <- (rds_walk_rfc_rootless false false segs Hne Hs Hh).
  rewrite Hh. rewrite head_join_leading by (apply walk_forallb; try reflexivity; exact Hs).
  rewrite Et. reflexivity.
Qed.

Lemma corner_rooted (raw : text) x : head_is 47 raw = true ->
  match raw with [] => false | _ => negb (head_is 47 raw) && x end = false.
Proof. intros H. rewrite H. destruct raw; reflexivity. Qed.

Lemma path_text_rootless u : is_host_set u = false -> absolutePath u = false ->
  path_text u = join_text (pathSegs u).
Proof. intros Hh Ha. unfold path_text, path_text_of. rewrite Hh, Ha, andb_false_r. reflexivity. Qed.

Lemma path_text_abs u : is_host_set u = false -> absolutePath u = true -> head_is 47 (path_text u) = true.
Proof. intros Hh Ha. unfold path_text, path_text_of. rewrite Hh, Ha. reflexivity. Qed.

Theorem corner_obj_spec compat rel base :
  wf rel = true -> wf base = true -> scheme base <> None ->
  corner compat rel base = corner_obj compat rel base.
Proof.
  intros Hwr Hwb Hsb. destruct (scheme base) as [sb|] eqn:Esb; [|congruence]. clear Hsb.
  pose proof (wf_scheme base sb Hwb Esb) as Hnul.
  unfold corner. rewrite corner_eq, transform_eq. unfold corner_obj.
  cbn [five_of_uri f_scheme]. rewrite Esb.
  match goal with |- context [transform_rs (if ?c then None else scheme rel)] =>
    assert (c = compat && is_some (scheme rel) && range_eqb (Some sb) (scheme rel)) as Etest
      by exact (same_scheme_test compat rel sb Hnul);
    rewrite Etest end.
  assert (keeps_scheme compat (Some sb) rel
          = is_some (scheme rel) && negb (compat && is_some (scheme rel) && range_eqb (Some sb) (scheme rel)))
    as Ek by reflexivity.
  assert (is_some_t (scheme rel) = is_some (scheme rel)) as Eis by (destruct (scheme rel); reflexivity).
  rewrite Eis, <- Ek.
  pose proof (wf_noslash rel Hwr) as Hsr. pose proof (wf_noslash base Hwb) as Hsbs.
  assert (forall u, is_host_set u = false -> auth_text u = None) as Enone
    by (intros u Hh; unfold auth_text; rewrite Hh; reflexivity).
  assert (forall u, is_host_set u = true -> exists a, auth_text u = Some a) as Esome
    by (intros u Hh; unfold auth_text; rewrite Hh; eexists; reflexivity).
  destruct (keeps_scheme compat (Some sb) rel) eqn:Hk.
  - (* the reference keeps its scheme *)
    assert (exists sr, (if compat && is_some (scheme rel) && range_eqb (Some sb) (scheme rel)
                        then None else scheme rel) = Some sr) as [sr Esr].
    { symmetry in Ek. apply andb_true_iff in Ek. destruct Ek as [H1 H2]. apply negb_true_iff in H2.
      rewrite H2. destruct (scheme rel) as [sr|]; [exists sr; reflexivity|discriminate H1]. }
    rewrite Esr. unfold transform_rs, corner_rs. cbn [five_of_uri f_scheme f_auth f_path f_query f_frag orb].
    destruct (is_host_set rel) eqn:Hh.
    + destruct (Esome rel Hh) as [a Ea]. rewrite Ea. reflexivity.
    + rewrite (Enone rel Hh). cbn [orb]. destruct (absolutePath rel) eqn:Ha.
      * apply corner_rooted. exact (path_text_abs rel Hh Ha).
      * rewrite (path_text_rootless rel Hh Ha). unfold rds_p. destruct (pathSegs rel) as [|r1 rs] eqn:Ep; [reflexivity|].
        rewrite <- Ep in *. apply corner_rootless; [rewrite Ep; discriminate|exact Hsr|].
        exact (wf_rootless_first rel Hwr Hh Ha).
  - assert ((if compat && is_some (scheme rel) && range_eqb (Some sb) (scheme rel)
             then None else scheme rel) = None) as Ers.
    { destruct (compat && is_some (scheme rel) && range_eqb (Some sb) (scheme rel)); [reflexivity|].
      rewrite andb_true_r in Ek. destruct (scheme rel); [discriminate Ek|reflexivity]. }
    rewrite Ers. unfold transform_rs, corner_rs. cbn [five_of_uri f_scheme f_auth f_path f_query f_frag orb].
    destruct (is_host_set rel) eqn:Hh.
    + destruct (Esome rel Hh) as [a Ea]. rewrite Ea. reflexivity.
    + rewrite (Enone rel Hh). cbn [orb is_some_t]. destruct (absolutePath rel) eqn:Ha.
      * pose proof (path_text_abs rel Hh Ha) as H47. destruct (path_text rel) as [|c t] eqn:Ept; [discriminate H47|].
        rewrite H47. cbn [f_auth f_path]. destruct (auth_text base); [reflexivity|].
        rewrite H47. reflexivity.
      * rewrite (path_text_rootless rel Hh Ha). destruct (pathSegs rel) as [|r1 rs] eqn:Ep.
        { cbn [join_text path_pieces concat f_auth]. destruct (auth_text base); reflexivity. }
        rewrite <- Ep in *. assert (pathSegs rel <> []) as Hne by (rewrite Ep; discriminate).
        pose proof (wf_rootless_first rel Hwr Hh Ha) as Hf.
        destruct (rootless_text (pathSegs rel) Hsr Hf Hne) as (c & t & Et & Hc47).
        rewrite Et. cbn [head_is]. rewrite Hc47. rewrite <- Et. cbn [f_auth f_path].
        destruct (is_host_set base) eqn:Hhb.
        { destruct (Esome base Hhb) as [a Ea]. rewrite Ea. reflexivity. }
        rewrite (Enone base Hhb). cbn [orb is_some_t]. unfold path_text. rewrite Hhb.
        rewrite <- (merge_text (absolutePath base) false (pathSegs base) (pathSegs rel) Hne Hsbs).
        assert (removelast (pathSegs base) ++ pathSegs rel <> []) as Hm
          by (intros E; apply app_eq_nil in E; destruct E; congruence).
        destruct (absolutePath base) eqn:Hab.
        { apply corner_rooted. rewrite (path_text_of_rooted true false _ Hm eq_refl).
          destruct (removelast (pathSegs base) ++ pathSegs rel); [congruence|reflexivity]. }
        assert (path_text_of false false (removelast (pathSegs base) ++ pathSegs rel)
                = join_text (removelast (pathSegs base) ++ pathSegs rel)) as Ej
          by (unfold path_text_of; rewrite andb_false_r; reflexivity).
        rewrite Ej. apply corner_rootless; [exact Hm| |].
        { rewrite forallb_app. rewrite (forallb_removelast _ _ Hsbs), Hsr. reflexivity. }
        pose proof (wf_rootless_first base Hwb Hhb Hab) as Hfb.
        destruct (pathSegs base) as [|b1 [|b2 bs]]; [exact Hf|exact Hf|].
        destruct b1; [discriminate Hfb|reflexivity].
Qed.

(* the theorems with the corner stated on objects *)
Theorem resolve_five_obj compat rel base :
  wf rel = true -> wf base = true -> scheme base <> None -> corner_obj compat rel base = false ->
  fst (add_base compat rel base) = URI_SUCCESS
  /\ five_of_uri (snd (add_base compat rel base))
     = guard_slashes (transform (negb compat) (five_of_uri base) (five_of_uri rel)).
Proof.
  intros Hwr Hwb Hsb Hc. apply resolve_five; try assumption.
  rewrite (corner_obj_spec compat rel base Hwr Hwb Hsb). exact Hc.
Qed.

Theorem resolve_text_obj compat rel base :
  wf rel = true -> wf base = true -> scheme base <> None -> corner_obj compat rel base = false ->
  no_ip rel = true -> no_ip base = true ->
  to_text (snd (add_base compat rel base))
  = recompose (guard_slashes (transform (negb compat) (five_of_uri base) (five_of_uri rel))).
Proof.
  intros Hwr Hwb Hsb Hc. apply resolve_text; try assumption.
  rewrite (corner_obj_spec compat rel base Hwr Hwb Hsb). exact Hc.
Qed.

(* ---------------------------------------------------------------- examples: parsed texts *)
Fixpoint txt (s : string) : text :=
  match s with EmptyString => [] | String a r => N_of_ascii a :: txt r end.
Definition uri_of (s : string) : uri :=
  match parse (txt s) with POk u => u | PSyntax _ => empty_uri end.
Definition resolved_text (compat : bool) (b r : string) : text :=
  to_text (snd (add_base compat (uri_of r) (uri_of b))).

(* every text over an alphabet, up to a length (for small-scope Examples) *)
Fixpoint all_texts (alpha : text) (n : nat) : list text :=
  match n with
  | O => [[]]
  | S k => [] :: flat_map (fun l => map (fun a => a :: l) alpha) (all_texts alpha k)
  end.
Definition parsed_wf (s : text) : bool :=
  match parse s with POk u => wf u && one_kind u | PSyntax _ => true end.
