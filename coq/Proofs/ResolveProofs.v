(* uriAddBaseUriExMm (Model/Resolve.v, add_base) against RFC 3986 section 5.2.2 (Spec/Resolve.v,
   transform): the five components of the result, as texts, are those of the RFC's target, except
   that a host-less path beginning with "//" gets "/." in front (guard_slashes). *)
From Coq Require Import List NArith ZArith Bool Lia.
From UP Require Import Base.Chars Model.Uri Model.Common Model.Resolve Model.Recompose Spec.Resolve
  Proofs.DotSegments.
Import ListNotations.
Local Open Scope N_scope.

(* ---------------------------------------------------------------- a URI object as five texts *)
(* the host as written: hostText, in brackets when it is an IP literal *)
Definition host_written (u : uri) : text :=
  let t := match hostText u with Some t => t | None => [] end in
  match ip4 u, ip6 u, ipFuture u with
  | Some _, _, _ => t
  | None, Some _, _ => [91] ++ t ++ [93]
  | None, None, Some _ => [91] ++ t ++ [93]
  | None, None, None => t
  end.

(* [ userinfo "@" ] host [ ":" port ], defined when uriIsHostSet *)
Definition auth_text (u : uri) : option text :=
  if is_host_set u then
    Some ((match userInfo u with Some i => i ++ [64] | None => [] end) ++ host_written u
          ++ (match portText u with Some p => 58 :: p | None => [] end))
  else None.

(* the path as Model/Recompose.v (pieces) prints it *)
Definition path_text (u : uri) : text := path_text_of (absolutePath u) (is_host_set u) (pathSegs u).

Definition five_of_uri (u : uri) : five :=
  mkFive (scheme u) (auth_text u) (path_text u) (query u) (fragment u).

(* ---------------------------------------------------------------- well-formedness *)
Definition nonul (t : text) : bool := forallb (fun c => negb (c =? 0)) t.
Definition first_nonempty (segs : list text) : bool := negb (match segs with [] :: _ => true | _ => false end).
Definition no_dslash (segs : list text) : bool := negb (match segs with [] :: _ :: _ => true | _ => false end).

(* What the proofs need of a URI object; every clause holds of the parser's output:
   1. no segment contains "/";
   2. with a host the absolute-path flag is off (the parser sets it only for host-less paths);
   3. a host-less path with the flag on does not print as "//..." (that text parses as an authority);
   4. a host-less rootless path does not begin with an empty segment (path-rootless / path-noscheme
      begin with segment-nz; a lone empty segment is dropped by uriFixEmptyTrailSegment);
   5. the scheme has no NUL (uriCompareRange uses strncmp). *)
Definition wf (u : uri) : bool :=
  forallb noslash (pathSegs u)
  && (if is_host_set u then negb (absolutePath u)
      else if absolutePath u then no_dslash (pathSegs u) else first_nonempty (pathSegs u))
  && match scheme u with Some s => nonul s | None => true end.

(* the corner of Spec/Resolve.v on objects *)
Definition corner (compat : bool) (rel base : uri) : bool :=
  unspecified_corner (negb compat) (five_of_uri base) (five_of_uri rel).

Lemma wf_noslash u : wf u = true -> forallb noslash (pathSegs u) = true.
Proof. unfold wf. intros H. apply andb_true_iff in H. destruct H as [H _]. apply andb_true_iff in H. apply H. Qed.

Lemma wf_host_abs u : wf u = true -> is_host_set u = true -> absolutePath u = false.
Proof.
  unfold wf. intros H Hh. apply andb_true_iff in H. destruct H as [H _]. apply andb_true_iff in H.
  destruct H as [_ H]. rewrite Hh in H. apply negb_true_iff in H. exact H.
Qed.

Lemma wf_abs_nodslash u : wf u = true -> is_host_set u = false -> absolutePath u = true ->
  no_dslash (pathSegs u) = true.
Proof.
  unfold wf. intros H Hh Ha. apply andb_true_iff in H. destruct H as [H _]. apply andb_true_iff in H.
  destruct H as [_ H]. rewrite Hh, Ha in H. exact H.
Qed.

Lemma wf_rootless_first u : wf u = true -> is_host_set u = false -> absolutePath u = false ->
  first_nonempty (pathSegs u) = true.
Proof.
  unfold wf. intros H Hh Ha. apply andb_true_iff in H. destruct H as [H _]. apply andb_true_iff in H.
  destruct H as [_ H]. rewrite Hh, Ha in H. exact H.
Qed.

Lemma wf_scheme u s : wf u = true -> scheme u = Some s -> nonul s = true.
Proof. unfold wf. intros H Hs. apply andb_true_iff in H. destruct H as [_ H]. rewrite Hs in H. exact H. Qed.

(* ---------------------------------------------------------------- the path operations on (host, abs, segments) *)
Definition rds_p (h a : bool) (s : list text) : list text :=
  match s with [] => [] | _ => rds_walk false h a [] s end.
Definition fixamb_p (h a : bool) (s : list text) : list text :=
  match a, s with
  | true, [] :: _ :: _ => [46] :: s
  | false, [] :: [] :: _ => if h then s else [46] :: s
  | _, _ => s
  end.
Definition fixtrail_p (h : bool) (s : list text) : list text :=
  if negb h then match s with [[]] => [] | _ => s end else s.

Lemma rds_nf u : remove_dot_segments_absolute u
  = set_pathSegs (rds_p (is_host_set u) (absolutePath u) (pathSegs u)) u.
Proof.
  unfold remove_dot_segments_absolute, Common.remove_dot_segments, rds_p.
  destruct u as [sc ui ht i4 i6 ifu po ps qu fr ab ow]. cbn [pathSegs absolutePath].
  destruct ps; reflexivity.
Qed.

Lemma fixamb_nf u : fix_ambiguity u
  = set_pathSegs (fixamb_p (is_host_set u) (absolutePath u) (pathSegs u)) u.
Proof.
  unfold fix_ambiguity, fixamb_p.
  destruct u as [sc ui ht i4 i6 ifu po ps qu fr ab ow]. cbn [pathSegs absolutePath].
  destruct ab; destruct ps as [|[|c s] [|[|c2 s2] r]]; try reflexivity;
    destruct (is_host_set _); reflexivity.
Qed.

Lemma fixtrail_nf u : fix_empty_trail_segment u
  = set_pathSegs (fixtrail_p (is_host_set u) (pathSegs u)) u.
Proof.
  unfold fix_empty_trail_segment, fixtrail_p.
  destruct u as [sc ui ht i4 i6 ifu po ps qu fr ab ow]. cbn [pathSegs].
  destruct (negb (is_host_set _)); [|reflexivity].
  destruct ps as [|[|c s] [|s2 r]]; reflexivity.
Qed.

Lemma merge_nf work rel : merge_path work rel
  = set_pathSegs (match pathSegs rel with [] => pathSegs work | _ => removelast (pathSegs work) ++ pathSegs rel end) work.
Proof.
  unfold merge_path. destruct (pathSegs rel); [|reflexivity].
  destruct work; reflexivity.
Qed.

Lemma resabs_nf u : resolve_abs_flag u
  = if is_host_set u && absolutePath u
    then set_absolutePath false (set_pathSegs (match pathSegs u with [] => [[]] | _ => pathSegs u end) u)
    else u.
Proof.
  unfold resolve_abs_flag. destruct (is_host_set u && absolutePath u); [|reflexivity].
  destruct u as [sc ui ht i4 i6 ifu po ps qu fr ab ow]. cbn [pathSegs]. destruct ps; reflexivity.
Qed.

(* authority through the record operations *)
Lemma host_copy_authority d src : is_host_set (copy_authority d src) = is_host_set src.
Proof.
  destruct src as [sc ui ht i4 i6 ifu po ps qu fr ab ow]. unfold copy_authority, is_host_set.
  cbn [hostText ip4 ip6 ipFuture set_portText set_ipFuture set_ip6 set_ip4 set_hostText set_userInfo
       scheme userInfo portText pathSegs query fragment absolutePath owner].
  destruct ht, i4, i6, ifu; reflexivity.
Qed.

Lemma auth_copy_authority d src : auth_text (copy_authority d src) = auth_text src.
Proof.
  unfold auth_text. rewrite host_copy_authority.
  destruct src as [sc ui ht i4 i6 ifu po ps qu fr ab ow]. unfold copy_authority, host_written.
  cbn [hostText ip4 ip6 ipFuture set_portText set_ipFuture set_ip6 set_ip4 set_hostText set_userInfo
       scheme userInfo portText pathSegs query fragment absolutePath owner].
  destruct i4, i6, ifu; reflexivity.
Qed.

Lemma host_set_scheme v u : is_host_set (set_scheme v u) = is_host_set u. Proof. reflexivity. Qed.
Lemma host_set_query v u : is_host_set (set_query v u) = is_host_set u. Proof. reflexivity. Qed.
Lemma host_set_fragment v u : is_host_set (set_fragment v u) = is_host_set u. Proof. reflexivity. Qed.
Lemma host_set_pathSegs v u : is_host_set (set_pathSegs v u) = is_host_set u. Proof. reflexivity. Qed.
Lemma host_set_absolutePath v u : is_host_set (set_absolutePath v u) = is_host_set u. Proof. reflexivity. Qed.
Lemma host_copy_path d src : is_host_set (copy_path d src) = is_host_set d. Proof. reflexivity. Qed.
Lemma auth_set_scheme v u : auth_text (set_scheme v u) = auth_text u. Proof. reflexivity. Qed.
Lemma auth_set_query v u : auth_text (set_query v u) = auth_text u. Proof. reflexivity. Qed.
Lemma auth_set_fragment v u : auth_text (set_fragment v u) = auth_text u. Proof. reflexivity. Qed.
Lemma auth_set_pathSegs v u : auth_text (set_pathSegs v u) = auth_text u. Proof. reflexivity. Qed.
Lemma auth_set_absolutePath v u : auth_text (set_absolutePath v u) = auth_text u. Proof. reflexivity. Qed.
Lemma auth_copy_path d src : auth_text (copy_path d src) = auth_text d. Proof. reflexivity. Qed.

#[export] Hint Rewrite host_set_scheme host_set_query host_set_fragment host_set_pathSegs host_set_absolutePath
  host_copy_path host_copy_authority auth_set_scheme auth_set_query auth_set_fragment auth_set_pathSegs
  auth_set_absolutePath auth_copy_path auth_copy_authority : uri_db.

Ltac usimpl :=
  cbn [scheme userInfo hostText ip4 ip6 ipFuture portText pathSegs query fragment absolutePath owner
       set_scheme set_userInfo set_hostText set_ip4 set_ip6 set_ipFuture set_portText set_pathSegs
       set_query set_fragment set_absolutePath copy_authority copy_path empty_uri].

(* the scheme decision of uriAddBaseUriExMm *)
Definition keeps_scheme (compat : bool) (sb : option text) (rel : uri) : bool :=
  is_some (scheme rel) && negb (compat && is_some (scheme rel) && range_eqb sb (scheme rel)).

(* ---------------------------------------------------------------- the model, branch by branch *)
Section ModelBranches.
  Variables (compat : bool) (rel base : uri) (sb : text).
  Hypothesis Hsb : scheme base = Some sb.

  Lemma add_base_success : fst (add_base compat rel base) = URI_SUCCESS.
  Proof. unfold add_base, add_base_impl. rewrite Hsb. reflexivity. Qed.

  Let hr := is_host_set rel.
  Let ar := absolutePath rel.
  Let hb := is_host_set base.
  Let ab := absolutePath base.

  Lemma model_keeps : keeps_scheme compat (Some sb) rel = true ->
    five_of_uri (snd (add_base compat rel base))
    = mkFive (scheme rel) (auth_text rel)
             (path_text_of ar hr (fixtrail_p hr (fixamb_p hr ar (rds_p hr ar (pathSegs rel)))))
             (query rel) (fragment rel).
  Proof.
    intros Hk. unfold add_base, add_base_impl. rewrite Hsb. cbv zeta.
    unfold keeps_scheme in Hk. rewrite Hk. cbn [snd].
    rewrite rds_nf, fixamb_nf, fixtrail_nf. unfold five_of_uri, path_text.
    autorewrite with uri_db. usimpl. reflexivity.
  Qed.

  Lemma model_relhost : keeps_scheme compat (Some sb) rel = false -> hr = true ->
    five_of_uri (snd (add_base compat rel base))
    = mkFive (Some sb) (auth_text rel)
             (path_text_of ar hr (fixtrail_p hr (rds_p hr ar (pathSegs rel))))
             (query rel) (fragment rel).
  Proof.
    intros Hk Hh. unfold add_base, add_base_impl. rewrite Hsb. cbv zeta.
    unfold keeps_scheme in Hk. rewrite Hk. unfold hr in Hh. rewrite Hh. cbn [snd].
    rewrite rds_nf, fixtrail_nf. unfold five_of_uri, path_text.
    autorewrite with uri_db. usimpl. reflexivity.
  Qed.

  Lemma model_empty : keeps_scheme compat (Some sb) rel = false -> hr = false ->
    pathSegs rel = [] -> ar = false ->
    five_of_uri (snd (add_base compat rel base))
    = mkFive (Some sb) (auth_text base) (path_text_of ab hb (fixtrail_p hb (pathSegs base)))
             (match query rel with Some q => Some q | None => query base end) (fragment rel).
  Proof.
    intros Hk Hh Hp Ha. unfold add_base, add_base_impl. rewrite Hsb. cbv zeta.
    unfold keeps_scheme in Hk. rewrite Hk. unfold hr in Hh. rewrite Hh. unfold ar in Ha. rewrite Hp, Ha.
    cbn [snd]. rewrite fixtrail_nf. unfold five_of_uri, path_text.
    autorewrite with uri_db. usimpl. reflexivity.
  Qed.

  Lemma model_abs : keeps_scheme compat (Some sb) rel = false -> hr = false -> ar = true ->
    five_of_uri (snd (add_base compat rel base))
    = let a' := negb hb in
      let segs' := if hb then match pathSegs rel with [] => [[]] | _ => pathSegs rel end else pathSegs rel in
      mkFive (Some sb) (auth_text base)
             (path_text_of a' hb (fixtrail_p hb (fixamb_p hb a' (rds_p hb a' segs'))))
             (query rel) (fragment rel).
  Proof.
    intros Hk Hh Ha. unfold add_base, add_base_impl. rewrite Hsb. cbv zeta.
    unfold keeps_scheme in Hk. rewrite Hk. unfold hr in Hh. rewrite Hh. unfold ar in Ha. rewrite Ha.
    assert (forall (Y : uri), match pathSegs rel with [] => Y | _ :: _ => Y end = Y) as Em
      by (intros Y; destruct (pathSegs rel); reflexivity).
    rewrite Em. cbn [snd].
    rewrite resabs_nf. autorewrite with uri_db. usimpl. rewrite Ha. rewrite andb_true_r.
    subst hb. cbv zeta. destruct (is_host_set base) eqn:Ehb.
    - rewrite rds_nf, fixamb_nf, fixtrail_nf. unfold five_of_uri, path_text.
      autorewrite with uri_db. usimpl. rewrite Ehb. reflexivity.
    - rewrite rds_nf, fixamb_nf, fixtrail_nf. unfold five_of_uri, path_text.
      autorewrite with uri_db. usimpl. rewrite Ehb, Ha. reflexivity.
  Qed.

  Lemma model_merge : keeps_scheme compat (Some sb) rel = false -> hr = false -> ar = false ->
    pathSegs rel <> [] ->
    five_of_uri (snd (add_base compat rel base))
    = mkFive (Some sb) (auth_text base)
             (path_text_of ab hb (fixtrail_p hb (fixamb_p hb ab (rds_p hb ab
                (removelast (pathSegs base) ++ pathSegs rel)))))
             (query rel) (fragment rel).
  Proof.
    intros Hk Hh Ha Hp. unfold add_base, add_base_impl. rewrite Hsb. cbv zeta.
    unfold keeps_scheme in Hk. rewrite Hk. unfold hr in Hh. rewrite Hh. unfold ar in Ha. rewrite Ha.
    destruct (pathSegs rel) as [|r1 rs] eqn:Er; [congruence|]. cbn [snd].
    rewrite merge_nf. usimpl. rewrite Er.
    rewrite rds_nf, fixamb_nf, fixtrail_nf. unfold five_of_uri, path_text.
    autorewrite with uri_db. usimpl. reflexivity.
  Qed.
End ModelBranches.

(* ---------------------------------------------------------------- the scheme comparison *)
Lemma text_eqb_length a : forall b, text_eqb a b = true -> length a = length b.
Proof. intros b H. apply text_eqb_true in H. subst b. reflexivity. Qed.

Lemma strncmp_text b : forall a, length b = length a -> nonul b = true ->
  (strncmp b a =? 0)%Z = text_eqb a b.
Proof.
  induction b as [|x b IH]; intros a Hl Hn; destruct a as [|y a]; try discriminate Hl; [reflexivity|].
  cbn [strncmp text_eqb]. unfold nonul in Hn. cbn [forallb] in Hn. apply andb_true_iff in Hn.
  destruct Hn as [Hx Hn]. apply negb_true_iff in Hx.
  rewrite (N.eqb_sym y x). destruct (x =? y) eqn:E.
  - rewrite Hx. cbn [andb]. apply IH; [injection Hl; trivial|exact Hn].
  - cbn [andb]. destruct (x <? y); reflexivity.
Qed.

Lemma range_eqb_text b a : nonul b = true -> range_eqb (Some b) (Some a) = text_eqb a b.
Proof.
  intros Hn. unfold range_eqb, compare_range.
  destruct (Nat.eq_dec (length b) (length a)) as [E|E].
  - rewrite E. rewrite Z.sub_diag. cbn [Z.ltb Z.compare]. apply strncmp_text; assumption.
  - assert (text_eqb a b = false) as Ef.
    { apply not_true_is_false. intros H. apply text_eqb_length in H. congruence. }
    rewrite Ef.
    destruct (0 <? Z.of_nat (length b) - Z.of_nat (length a))%Z eqn:E1; [reflexivity|].
    destruct (Z.of_nat (length b) - Z.of_nat (length a) <? 0)%Z eqn:E2; [reflexivity|].
    apply Z.ltb_ge in E1. apply Z.ltb_ge in E2. lia.
Qed.

(* the RFC's "same scheme under the compatibility option" test in the model's terms *)
Lemma same_scheme_test compat rel sb : nonul sb = true ->
  (negb (negb compat) && match scheme rel, Some sb with
                         | Some a, Some b => text_eqb a b | _, _ => false end)
  = compat && is_some (scheme rel) && range_eqb (Some sb) (scheme rel).
Proof.
  intros Hn. rewrite negb_involutive. destruct compat; [|reflexivity]. cbn [andb].
  destruct (scheme rel) as [a|]; [|reflexivity]. cbn [is_some andb].
  symmetry. apply range_eqb_text. exact Hn.
Qed.

(* ---------------------------------------------------------------- texts of well-formed paths *)
Definition guard_path (has_auth : bool) (p : text) : text :=
  if has_auth then p else if starts_with [47; 47] p then 47 :: 46 :: p else p.

Lemma guard_slashes_path t : guard_slashes t
  = mkFive (f_scheme t) (f_auth t) (guard_path (is_some_t (f_auth t)) (f_path t)) (f_query t) (f_frag t).
Proof.
  unfold guard_slashes, guard_path. destruct t as [s a p q f]. cbn [f_scheme f_auth f_path f_query f_frag].
  destruct a; cbn [is_some_t]; [reflexivity|]. destruct (starts_with [47; 47] p); reflexivity.
Qed.

Lemma auth_text_some u : is_some_t (auth_text u) = is_host_set u.
Proof. unfold auth_text. destruct (is_host_set u); reflexivity. Qed.

Lemma fixamb_host s : fixamb_p true false s = s.
Proof. destruct s as [|[|c s] [|[|c2 s2] r]]; reflexivity. Qed.

Lemma walk_forallb (P : text -> bool) host abs : P [] = true -> forall rest kept,
  forallb P kept = true -> forallb P rest = true -> forallb P (rds_walk false host abs kept rest) = true.
Proof.
  intros HP. induction rest as [|w nxt IH]; intros kept Hk Hr.
  - cbn [rds_walk]. rewrite forallb_rev. exact Hk.
  - cbn [forallb] in Hr. apply andb_true_iff in Hr. destruct Hr as [Hw Hn].
    rewrite walk_false_cons. destruct (seg_dot w).
    { destruct nxt as [|n1 nxt']; [|apply IH; assumption].
      destruct kept as [|p kk]; [destruct host; cbn [forallb]; rewrite ?HP; reflexivity|].
      rewrite forallb_rev. cbn [forallb] in Hk |- *. rewrite HP, Hk. reflexivity. }
    destruct (seg_dotdot w).
    { pose proof (forallb_tl _ _ Hk) as Ht.
      destruct nxt as [|n1 nxt']; [|apply IH; assumption].
      destruct (tl kept) as [|p kk]; [destruct abs; cbn [forallb]; rewrite ?HP; reflexivity|].
      rewrite forallb_rev. cbn [forallb] in Ht |- *. rewrite HP, Ht. reflexivity. }
    apply IH; [|exact Hn]. cbn [forallb]. rewrite Hw, Hk. reflexivity.
Qed.

Lemma path_text_of_rooted a h segs : segs <> [] -> a || h = true ->
  path_text_of a h segs = path_text_rooted segs.
Proof.
  intros Hne Hr. unfold path_text_of. destruct segs as [|s r]; [congruence|].
  cbn [negb andb]. rewrite Hr. cbn [app]. apply join_rooted. discriminate.
Qed.

(* THE PATH LEMMA: dot-segment removal, uriFixAmbiguity and uriFixEmptyTrailSegment on the segment list
   print as the RFC's cleaned text with the "/." guard, outside the corner *)
Lemma path_core h a segs :
  forallb noslash segs = true -> (h = true -> a = false) ->
  (h = false -> a = false -> first_nonempty segs = true) ->
  (h = false -> path_text_of a h segs <> [] -> head_is 47 (path_text_of a h segs) = false ->
   head_is 47 (rds_keep_kind (path_text_of a h segs)) = false) ->
  path_text_of a h (fixtrail_p h (fixamb_p h a (rds_p h a segs)))
  = guard_path h (rds_keep_kind (path_text_of a h segs)).
Proof.
  intros Hs Hha Hfirst Hcorner.
  destruct segs as [|s0 r0].
  { destruct h, a; reflexivity. }
  assert (s0 :: r0 <> []) as Hne by discriminate.
  unfold rds_p. set (R := rds_walk false h a [] (s0 :: r0)).
  assert (forallb noslash R = true) as HR by (apply walk_forallb; try reflexivity; exact Hs).
  destruct h, a.
  - discriminate (Hha eq_refl).
  - (* a host: rooted, never emptied *)
    assert (R <> []) as HRne by (apply walk_nonempty_host; exact Hne).
    rewrite fixamb_host. cbn [fixtrail_p negb guard_path].
    rewrite (path_text_of_rooted false true R HRne eq_refl).
    rewrite (path_text_of_rooted false true _ Hne eq_refl).
    rewrite <- (rds_walk_rfc_keep_kind true false _ Hne Hs). fold R.
    destruct R; [congruence|reflexivity].
  - (* host-less, absolute-path flag *)
    rewrite (path_text_of_rooted true false _ Hne eq_refl).
    rewrite <- (rds_walk_rfc_keep_kind false true _ Hne Hs). fold R.
    destruct R as [|[|c s] [|x r]]; try reflexivity.
    + (* leading empty segment followed by another: "/." in front on both sides *)
      cbn [fixamb_p fixtrail_p negb].
      rewrite path_text_of_rooted by (discriminate || reflexivity).
      reflexivity.
    + cbn [fixamb_p fixtrail_p negb].
      rewrite path_text_of_rooted by (discriminate || reflexivity).
      cbn [forallb] in HR. apply andb_true_iff in HR. destruct HR as [Hc _].
      apply noslash_cons in Hc. destruct Hc as [Hc _]. apply N.eqb_neq in Hc. rewrite N.eqb_sym in Hc.
      unfold rooted_text, guard_path. rewrite ptr_cons. cbn [app starts_with]. rewrite Hc.
      rewrite andb_false_r. reflexivity.
    + cbn [fixamb_p fixtrail_p negb].
      rewrite path_text_of_rooted by (discriminate || reflexivity).
      cbn [forallb] in HR. apply andb_true_iff in HR. destruct HR as [Hc _].
      apply noslash_cons in Hc. destruct Hc as [Hc _]. apply N.eqb_neq in Hc. rewrite N.eqb_sym in Hc.
      unfold rooted_text, guard_path. rewrite ptr_cons. cbn [app starts_with]. rewrite Hc.
      rewrite andb_false_r. reflexivity.
  - (* host-less, rootless *)
    specialize (Hfirst eq_refl eq_refl). specialize (Hcorner eq_refl).
    assert (exists c0 t, join_text (s0 :: r0) = c0 :: t /\ (c0 =? 47) = false) as (c0 & t & Et & Hc0).
    { cbn [forallb] in Hs. apply andb_true_iff in Hs. destruct Hs as [Hs0 _].
      destruct s0 as [|c0 s0']; [discriminate Hfirst|].
      apply noslash_cons in Hs0. destruct Hs0 as [Hc0 _]. apply N.eqb_neq in Hc0.
      exists c0. unfold join_text. destruct r0; cbn [path_pieces concat app]; eexists; (split; [reflexivity|exact Hc0]). }
    assert (head_is 47 (join_text (s0 :: r0)) = false) as Hh47 by (rewrite Et; exact Hc0).
    change (path_text_of false false (s0 :: r0)) with (join_text (s0 :: r0)) in Hcorner |- *.
    specialize (Hcorner ltac:(rewrite Et; discriminate) Hh47).
    rewrite <- (rds_walk_rfc_rootless false false _ Hne Hs Hh47) in Hcorner |- *. fold R in Hcorner |- *.
    destruct R as [|[|c s] [|x r]]; try reflexivity.
    + (* a leading empty segment after cleaning: the corner *)
      exfalso. unfold join_text in Hcorner. cbn [path_pieces concat app head_is] in Hcorner. discriminate Hcorner.
    + cbn [fixamb_p fixtrail_p negb]. unfold path_text_of. cbn [orb andb negb app].
      unfold guard_path. unfold join_text in Hcorner |- *. cbn [path_pieces concat app head_is starts_with] in Hcorner |- *.
      rewrite N.eqb_sym in Hcorner. rewrite Hcorner. reflexivity.
    + cbn [fixamb_p fixtrail_p negb]. unfold path_text_of. cbn [orb andb negb app].
      unfold guard_path. unfold join_text in Hcorner |- *. cbn [path_pieces concat app head_is starts_with] in Hcorner |- *.
      rewrite N.eqb_sym in Hcorner. rewrite Hcorner. reflexivity.
Qed.
