(* The allocation ledger, continued: uriAddBaseUriExMm and uriRemoveBaseUriMm (Model/OpsM.v). *)
From Coq Require Import List NArith Bool Arith Lia Permutation.
From UP Require Import Base.Chars Model.Uri Model.Common Model.Compare
  Model.Resolve Model.Shorten Model.Normalize Model.Mem Model.ParseM Model.OpsM Proofs.LedgerProofs Proofs.LedgerOps.
Import ListNotations.

(* projections of nested field updates are reduced lazily (unfolding the updates first is exponential) *)
Ltac msimpl ::=
  cbn [m_scheme m_userInfo m_hostText m_ip4 m_ip6 m_ipFuture m_portText m_segs m_query m_fragment m_abs m_owner
       set_m_scheme set_m_userInfo set_m_hostText set_m_ip4 set_m_ip6 set_m_ipFuture set_m_portText
       set_m_segs set_m_query set_m_fragment set_m_abs set_m_owner] in *.

(* ---------------------------------------------------------------- uriCopyPath, uriCopyAuthority, uriMergePath ... *)
Lemma copy_segs_spec src : forall acc s0 s F, st s0 s (seg_blocks acc) F -> Forall (sfld false) acc ->
  match copy_segs acc src s with
  | (ok, segs, s') => st s0 s' (seg_blocks segs) F /\ Forall (sfld false) segs /\ (ok = false -> fails_between s0 s')
  end.
Proof.
  induction src as [|sg r IH]; intros acc s0 s F S Fa; cbn [copy_segs].
  - split; [|split; [apply Forall_rev; exact Fa|discriminate]]. eapply st_perm; [exact S|]. intros x. cn. lia.
  - pose proof (st_alloc false SEG_SIZE s0 s _ F S) as Al. destruct (alloc false SEG_SIZE s) as [[id|] s1].
    + apply IH; [|constructor; [apply eq_refl|exact Fa]].
      eapply st_perm; [exact Al|]. intros x. cn. cbn [sg_node sg_blk blk_list]. cn. lia.
    + destruct Al as (Al & Fl). split; [|split; [apply Forall_rev; exact Fa|intros _; exact Fl]].
      eapply st_perm; [exact Al|]. intros x. cn. lia.
Qed.

Lemma append_segs_spec texts : forall acc s0 s F, st s0 s (seg_blocks acc) F -> Forall (sfld false) acc ->
  match append_segs acc texts s with
  | (ok, segs, s') => st s0 s' (seg_blocks segs) F /\ Forall (sfld false) segs /\ (ok = false -> fails_between s0 s')
  end.
Proof.
  induction texts as [|t r IH]; intros acc s0 s F S Fa; cbn [append_segs].
  - split; [|split; [apply Forall_rev; exact Fa|discriminate]]. eapply st_perm; [exact S|]. intros x. cn. lia.
  - pose proof (st_alloc false SEG_SIZE s0 s _ F S) as Al. destruct (alloc false SEG_SIZE s) as [[id|] s1].
    + apply IH; [|constructor; [apply eq_refl|exact Fa]].
      eapply st_perm; [exact Al|]. intros x. cn. cbn [sg_node sg_blk blk_list]. cn. lia.
    + destruct Al as (Al & Fl). split; [|split; [apply Forall_rev; exact Fa|intros _; exact Fl]].
      eapply st_perm; [exact Al|]. intros x. cn. lia.
Qed.

Definition segframe (d : muri) (s0 : mstate) : nat -> nat :=
  fun x => cnt (muri_blocks d) x - cnt (seg_blocks (m_segs d)) x + L s0 x.

Lemma seg_le_blocks d x : cnt (seg_blocks (m_segs d)) x <= cnt (muri_blocks d) x.
Proof. rewrite muri_blocks_eq. cn. lia. Qed.

Lemma dst_to_segs s0 s d : dst s0 s d -> st s0 s (seg_blocks (m_segs d)) (segframe d s0).
Proof.
  intros ((W & E & O) & _). split; [exact W|]. split; [exact E|]. unfold over, segframe in *. intros x.
  pose proof (seg_le_blocks d x). specialize (O x). lia.
Qed.

Lemma segs_to_dst s0 s' d segs : inv false 0 d -> m_owner d = false ->
  st s0 s' (seg_blocks segs) (segframe d s0) -> Forall (sfld false) segs -> dst s0 s' (set_m_segs segs d).
Proof.
  intros I Ow (W & E & O) Fs. split; [|split; [|exact Ow]].
  - split; [exact W|]. split; [exact E|]. unfold over, segframe in *. intros x.
    pose proof (seg_le_blocks d x). pose proof (bl_segs segs d x). specialize (O x). lia.
  - apply (inv_set_segs false 0 0); auto. apply others_refl.
Qed.

Lemma dst_copy_path s0 s d src : dst s0 s d -> m_segs d = [] ->
  match copy_path_m d src s with
  | (ok, d', s') => dst s0 s' d' /\ (ok = false -> fails_between s0 s')
  end.
Proof.
  intros D Es. pose proof D as (_ & I & Ow). pose proof (dst_to_segs _ _ _ D) as S. rewrite Es in S.
  unfold copy_path_m. pose proof (copy_segs_spec (m_segs src) [] s0 s _ S (Forall_nil _)) as R.
  destruct (copy_segs [] (m_segs src) s) as [[ok segs] s']. destruct R as (S' & Fs & Fl).
  pose proof (segs_to_dst _ _ _ _ I Ow S' Fs) as D'.
  destruct ok.
  - split; [|discriminate]. apply dst_abs. exact D'.
  - split; [exact D'|exact Fl].
Qed.

Lemma dst_rds s0 s d relative : dst s0 s d ->
  match remove_dot_segments_m relative (m_owner d) d s with
  | (ok, d', s') => dst s0 s' d' /\ (ok = false -> fails_between s0 s')
  end.
Proof.
  intros D. pose proof D as (_ & I & Ow). pose proof (dst_to_segs _ _ _ D) as S. rewrite Ow.
  pose proof (inv_false_blk _ I) as (_ & _ & _ & _ & _ & _ & _ & Fs).
  pose proof (rds_m_spec relative false d s0 s _ S Fs) as R.
  destruct (remove_dot_segments_m relative false d s) as [[ok d'] s']. destruct R as (segs' & -> & S' & Fs' & Fl).
  split; [|exact Fl]. apply segs_to_dst; assumption.
Qed.

Lemma dst_fix_ambiguity s0 s d : dst s0 s d ->
  match fix_ambiguity_m d s with
  | (ok, d', s') => dst s0 s' d' /\ (ok = false -> fails_between s0 s')
  end.
Proof.
  intros D. pose proof D as (_ & I & Ow). pose proof (dst_to_segs _ _ _ D) as S.
  pose proof (inv_false_blk _ I) as (_ & _ & _ & _ & _ & _ & _ & Fs).
  unfold fix_ambiguity_m.
  destruct (match m_abs d with true => _ | false => _ end); [|split; [exact D|discriminate]].
  pose proof (st_alloc false SEG_SIZE s0 s _ _ S) as Al. destruct (alloc false SEG_SIZE s) as [[id|] s1].
  - split; [|discriminate]. apply segs_to_dst; [exact I|exact Ow| |].
    + eapply st_perm; [exact Al|]. intros x. cn. cbn [sg_node sg_blk blk_list]. cn. lia.
    + constructor; [reflexivity|exact Fs].
  - destruct Al as (Al & Fl). split; [|intros _; exact Fl]. rewrite <- (set_m_segs_self d). apply segs_to_dst; auto.
Qed.

Lemma dst_fix_empty_trail s0 s d : dst s0 s d ->
  match fix_empty_trail_m d s with (d', s') => dst s0 s' d' end.
Proof.
  intros D. pose proof D as (_ & I & Ow). pose proof (dst_to_segs _ _ _ D) as S.
  unfold fix_empty_trail_m. destruct (negb (m_host_set d)); [|exact D].
  destruct (m_segs d) as [|sg [|sg2 r]] eqn:Es; try exact D.
  destruct (sg_text sg) eqn:Et; [|exact D].
  apply segs_to_dst; [exact I|exact Ow| |constructor].
  assert (Hb : seg_blocks [sg] = [sg_node sg]).
  { pose proof (inv_false_blk _ I) as (_ & _ & _ & _ & _ & _ & _ & Fs). rewrite Es in Fs. inversion Fs as [|? ? F1 _]; subst.
    unfold sfld in F1. cbn in F1. cbn. destruct (sg_blk sg); [discriminate|reflexivity]. }
  rewrite Hb in S. eapply st_rel; [|apply rel_free].
  - eapply st_perm; [exact S|]. intros x. cn. lia.
  - apply S.
  - destruct S as (_ & _ & O). rewrite (O (sg_node sg)). rewrite cnt_self. lia.
Qed.

Lemma dst_resolve_abs_flag s0 s d : dst s0 s d ->
  match resolve_abs_flag_m d s with
  | (Some d', s') => dst s0 s' d'
  | (None, s') => dst s0 s' d /\ fails_between s0 s'
  end.
Proof.
  intros D. pose proof D as (_ & I & Ow). pose proof (dst_to_segs _ _ _ D) as S.
  unfold resolve_abs_flag_m. destruct (m_host_set d && m_abs d); [|exact D].
  destruct (m_segs d) as [|sg r] eqn:Es; [|apply dst_abs; exact D].
  pose proof (st_alloc false SEG_SIZE s0 s _ _ S) as Al. destruct (alloc false SEG_SIZE s) as [[id|] s1].
  - apply dst_abs. apply segs_to_dst; [exact I|exact Ow| |constructor; [reflexivity|constructor]].
    eapply st_perm; [exact Al|]. intros x. cn. cbn [sg_node sg_blk blk_list]. cn. lia.
  - destruct Al as (Al & Fl). split; [|exact Fl]. rewrite <- (set_m_segs_self d). apply segs_to_dst; [exact I|exact Ow|rewrite Es; exact Al|rewrite Es; constructor].
Qed.

Lemma st_frame s0 s B B' F : st s0 s (B ++ B') F -> st s0 s B (fun x => cnt B' x + F x).
Proof. intros (W & E & O). split; [exact W|]. split; [exact E|]. unfold over in *. intros x. specialize (O x). cn. lia. Qed.
Lemma st_unframe s0 s B B' F : st s0 s B (fun x => cnt B' x + F x) -> st s0 s (B ++ B') F.
Proof. intros (W & E & O). split; [exact W|]. split; [exact E|]. unfold over in *. intros x. specialize (O x). cn. lia. Qed.

Lemma dst_merge_path s0 s d rel : dst s0 s d ->
  match merge_path_m d rel s with
  | (ok, d', s') => dst s0 s' d' /\ (ok = false -> fails_between s0 s')
  end.
Proof.
  intros D. pose proof D as (_ & I & Ow). pose proof (dst_to_segs _ _ _ D) as S.
  pose proof (inv_false_blk _ I) as (_ & _ & _ & _ & _ & _ & _ & Fs).
  unfold merge_path_m. destruct (m_segs rel) as [|r1 rr]; [split; [exact D|discriminate]|].
  set (dflt := {| sg_text := []; sg_blk := None; sg_node := 0 |}).
  (* the list whose last node is reused *)
  assert (Pre : match (match m_segs d with
                       | [] => match alloc false SEG_SIZE s with
                               | (Some id, s') => (Some [{| sg_text := []; sg_blk := None; sg_node := id |}], s')
                               | (None, s') => (None, s')
                               end
                       | l => (Some l, s)
                       end) with
                | (Some l, s') => st s0 s' (seg_blocks l) (segframe d s0) /\ Forall (sfld false) l /\ l <> []
                | (None, s') => st s0 s' (seg_blocks (m_segs d)) (segframe d s0) /\ fails_between s0 s'
                end).
  { destruct (m_segs d) as [|g gr] eqn:Es.
    - pose proof (st_alloc false SEG_SIZE s0 s _ _ S) as Al. destruct (alloc false SEG_SIZE s) as [[id|] s1].
      + split; [|split; [constructor; [reflexivity|constructor]|discriminate]].
        eapply st_perm; [exact Al|]. intros x. cn. cbn [sg_node sg_blk blk_list]. cn. lia.
      + exact Al.
    - split; [exact S|]. split; [exact Fs|discriminate]. }
  destruct (match m_segs d with [] => _ | _ :: _ => _ end) as [[l|] s1].
  - destruct Pre as (S1 & Fl1 & Hne).
    assert (El : l = removelast l ++ [last l dflt]) by (apply app_removelast_last; exact Hne).
    assert (Fi : Forall (sfld false) (removelast l) /\ sfld false (last l dflt)).
    { rewrite El in Fl1. apply Forall_app in Fl1. destruct Fl1 as [a b]. split; [exact a|]. inversion b; assumption. }
    destruct Fi as [Fi Fla].
    assert (Hlast : seg_blocks [last l dflt] = [sg_node (last l dflt)]).
    { unfold sfld in Fla. cbn in Fla. cbn. destruct (sg_blk (last l dflt)); [discriminate|reflexivity]. }
    assert (S2 : st s0 s1 (seg_blocks [] ++ seg_blocks l) (segframe d s0)) by exact S1.
    apply st_frame in S2.
    pose proof (copy_segs_spec rr [] s0 s1 _ S2 (Forall_nil _)) as R.
    destruct (copy_segs [] rr s1) as [[ok more] s2]. destruct R as (S3 & Fm & Fl).
    split; [|exact Fl]. apply segs_to_dst; [exact I|exact Ow| |].
    + apply st_unframe in S3. eapply st_perm; [exact S3|]. intros x.
      rewrite El at 1. rewrite !seg_blocks_app, !cnt_app, Hlast. rewrite (seg_blocks_cons _ more). cbn [sg_node sg_blk blk_list]. cn. lia.
    + apply Forall_app. split; [exact Fi|]. constructor; [reflexivity|exact Fm].
  - destruct Pre as (S1 & Fl). split; [|intros _; exact Fl]. rewrite <- (set_m_segs_self d). apply segs_to_dst; auto.
Qed.

(* uriCopyAuthority: the address block of the source is duplicated, the texts are borrowed *)
Lemma dst_copy_authority s0 s d src : dst s0 s d -> m_ip4 d = None -> m_ip6 d = None ->
  match copy_authority_m d src s with
  | (ok, d', s') => dst s0 s' d' /\ m_segs d' = m_segs d /\ (ok = false -> fails_between s0 s')
  end.
Proof.
  intros (S & I & Ow) H4 H6. pose proof (inv_false_blk _ I) as (e1 & e2 & e3 & e4 & e5 & e6 & e7 & Fs).
  unfold copy_authority_m.
  set (d0 := set_m_hostText (borrow (m_hostText src)) (set_m_userInfo (borrow (m_userInfo src)) d)).
  assert (D0 : dst s0 s d0 /\ m_ip4 d0 = None /\ m_ip6 d0 = None).
  { split; [|split; assumption]. split; [|split; [apply inv_false_intro; subst d0; msimpl; auto|exact Ow]].
    eapply st_perm; [exact S|]. intros x. subst d0. rewrite !muri_blocks_eq. msimpl. unfold borrow. cbn [t_blk]. rewrite e2, e3. reflexivity. }
  destruct D0 as (D0 & H40 & H60).
  assert (Blk : forall v4 v6 tf tp x,
     cnt (muri_blocks (set_m_portText (borrow tp) (set_m_ipFuture {| t_val := tf; t_blk := None |} (set_m_ip6 v6 (set_m_ip4 v4 d0))))) x
     = cnt (ip_blk v4) x + cnt (ip_blk v6) x + cnt (muri_blocks d) x).
  { intros. subst d0. rewrite !muri_blocks_eq. msimpl. unfold borrow. cbn [t_blk blk_list]. rewrite e1, e2, e3, e4, e5, e6, e7, H4, H6. cbn [blk_list ip_blk]. rewrite !cnt_app, !cnt_nil. lia. }
  assert (Inv : forall v4 v6 tf tp, inv false 0 (set_m_portText (borrow tp) (set_m_ipFuture {| t_val := tf; t_blk := None |} (set_m_ip6 v6 (set_m_ip4 v4 d0))))).
  { intros. apply inv_false_intro; subst d0; msimpl; auto. }
  destruct (m_ip4 src) as [[v b]|].
  - destruct S as (W & E & O). pose proof (st_alloc false IP4_SIZE s0 s _ _ (conj W (conj E O))) as Al.
    destruct (alloc false IP4_SIZE s) as [[id|] s1].
    + split; [|split; [reflexivity|discriminate]]. split; [|split; [apply (Inv _ _ None)|exact Ow]].
      eapply st_perm; [exact Al|]. intros x. unfold mt_none. rewrite Blk. cbn [ip_blk]. cn. lia.
    + destruct Al as (Al & Fl). split; [|split; [reflexivity|intros _; exact Fl]].
      destruct D0 as (S0 & I0 & O0). split; [|split; assumption].
      eapply st_perm; [exact Al|]. destruct S0 as (_ & _ & OS0). intros x. specialize (O x). specialize (OS0 x). lia.
  - destruct (m_ip6 src) as [[v b]|].
    + destruct S as (W & E & O). pose proof (st_alloc false IP6_SIZE s0 s _ _ (conj W (conj E O))) as Al.
      destruct (alloc false IP6_SIZE s) as [[id|] s1].
      * split; [|split; [reflexivity|discriminate]]. split; [|split; [apply (Inv None _ None)|exact Ow]].
        eapply st_perm; [exact Al|]. intros x.
        change (set_m_ip6 (Some (v, id)) (set_m_ip4 None d0)) with (set_m_ip6 (Some (v, id)) (set_m_ip4 None d0)).
        unfold mt_none.
        replace (muri_blocks (set_m_portText (borrow (m_portText src)) (set_m_ipFuture {| t_val := None; t_blk := None |} (set_m_ip6 (Some (v, id)) (set_m_ip4 None d0)))))
          with (muri_blocks (set_m_portText (borrow (m_portText src)) (set_m_ipFuture {| t_val := None; t_blk := None |} (set_m_ip6 (Some (v, id)) (set_m_ip4 None d0))))) by reflexivity.
        rewrite Blk. cbn [ip_blk]. cn. lia.
      * destruct Al as (Al & Fl). split; [|split; [reflexivity|intros _; exact Fl]].
        destruct D0 as (S0 & I0 & O0). split; [|split; [|exact O0]].
        -- eapply st_perm; [exact Al|]. destruct S0 as (_ & _ & OS0). intros x. specialize (O x). specialize (OS0 x).
           assert (muri_blocks (set_m_ip4 None d0) = muri_blocks d0) as ->; [|lia].
           rewrite !muri_blocks_eq. msimpl. rewrite H40. reflexivity.
        -- destruct I0 as [c1 c2 c3 c4 c5 c6 c7 c8]. split; msimpl; auto.
    + split; [|split; [reflexivity|discriminate]]. split; [|split; [|exact Ow]].
      * eapply st_perm; [exact S|]. intros x. unfold borrow at 2. rewrite Blk. cbn [ip_blk]. cn. lia.
      * unfold borrow at 2. apply Inv.
Qed.

(* ---------------------------------------------------------------- uriAddBaseUriExMm *)
Definition rc_ok (rc : N) (s s' : mstate) (other : N) : Prop :=
  rc = URI_SUCCESS \/ rc = other \/ (rc = URI_ERROR_MALLOC /\ fails_between s s').

Ltac fail_exit D Fl := split; [exact D|right; right; split; [reflexivity|apply Fl; reflexivity]].

Ltac finish_step D :=
  let R := fresh "R" in
  match goal with
  | |- context [fix_empty_trail_m ?d ?s] =>
    pose proof (dst_fix_empty_trail _ _ _ D) as R;
    destruct (fix_empty_trail_m d s) as [? ?]; split; [apply dst_fragment; exact R|left; reflexivity]
  end.

Lemma add_base_impl_m_spec compat rel base s : wf s ->
  match add_base_impl_m compat rel base s with
  | (rc, d, s') => dst s s' d /\ rc_ok rc s s' URI_ERROR_ADDBASE_REL_BASE
  end.
Proof.
  intros W. pose proof (dst_empty s W) as D0. unfold add_base_impl_m, rc_ok. cbv zeta.
  destruct (t_val (m_scheme base)) as [tb|]; [|split; [exact D0|right; left; reflexivity]].
  destruct (is_some (t_val (m_scheme rel)) && negb (compat && range_eqb (Some tb) (t_val (m_scheme rel)))).
  - (* the reference has a scheme *)
    pose proof (dst_scheme _ _ _ (m_scheme rel) D0) as D.
    pose proof (dst_copy_authority _ _ _ rel D eq_refl eq_refl) as R1.
    destruct (copy_authority_m _ rel s) as [[ok1 d1] s1]. destruct R1 as (D1 & E1 & Fl1).
    destruct ok1; cbn [negb]; cbv beta iota; [|fail_exit D1 Fl1].
    pose proof (dst_copy_path _ _ _ rel D1 E1) as R2.
    destruct (copy_path_m d1 rel s1) as [[ok2 d2] s2]. destruct R2 as (D2 & Fl2).
    destruct ok2; cbn [negb]; cbv beta iota; [|fail_exit D2 Fl2].
    pose proof (dst_rds _ _ _ false D2) as R3.
    destruct (remove_dot_segments_m false (m_owner d2) d2 s2) as [[ok3 d3] s3]. destruct R3 as (D3 & Fl3).
    destruct ok3; cbn [negb]; cbv beta iota; [|fail_exit D3 Fl3].
    pose proof (dst_fix_ambiguity _ _ _ D3) as R4.
    destruct (fix_ambiguity_m d3 s3) as [[ok4 d4] s4]. destruct R4 as (D4 & Fl4).
    destruct ok4; cbn [negb]; cbv beta iota; [|fail_exit D4 Fl4].
    finish_step (dst_query _ _ _ (m_query rel) D4).
  - destruct (m_host_set rel).
    + (* the reference has an authority *)
      pose proof (dst_copy_authority _ _ _ rel D0 eq_refl eq_refl) as R1.
      destruct (copy_authority_m _ rel s) as [[ok1 d1] s1]. destruct R1 as (D1 & E1 & Fl1).
      destruct ok1; cbn [negb]; cbv beta iota; [|fail_exit D1 Fl1].
      pose proof (dst_copy_path _ _ _ rel D1 E1) as R2.
      destruct (copy_path_m d1 rel s1) as [[ok2 d2] s2]. destruct R2 as (D2 & Fl2).
      destruct ok2; cbn [negb]; cbv beta iota; [|fail_exit D2 Fl2].
      pose proof (dst_rds _ _ _ false D2) as R3.
      destruct (remove_dot_segments_m false (m_owner d2) d2 s2) as [[ok3 d3] s3]. destruct R3 as (D3 & Fl3).
      destruct ok3; cbn [negb]; cbv beta iota; [|fail_exit D3 Fl3].
      finish_step (dst_scheme _ _ _ (m_scheme base) (dst_query _ _ _ (m_query rel) D3)).
    + pose proof (dst_copy_authority _ _ _ base D0 eq_refl eq_refl) as R1.
      destruct (copy_authority_m _ base s) as [[ok1 d1] s1]. destruct R1 as (D1 & E1 & Fl1).
      destruct ok1; cbn [negb]; cbv beta iota; [|fail_exit D1 Fl1].
      assert (Merge : forall P : Prop, True -> True) by auto.
      assert (AbsCase : m_abs rel = true ->
        match (let '(ok, d, s) := copy_path_m d1 rel s1 in
               if negb ok then (URI_ERROR_MALLOC, d, s) else
               match resolve_abs_flag_m d s with
               | (None, s) => (URI_ERROR_MALLOC, d, s)
               | (Some d, s) =>
                 let '(ok, d, s) := remove_dot_segments_m false (m_owner d) d s in
                 if negb ok then (URI_ERROR_MALLOC, d, s) else
                 let '(ok, d, s) := fix_ambiguity_m d s in
                 if negb ok then (URI_ERROR_MALLOC, d, s)
                 else (let '(d, s) := fix_empty_trail_m (set_m_scheme (borrow (m_scheme base)) (set_m_query (borrow (m_query rel)) d)) s in
                       (URI_SUCCESS, set_m_fragment (borrow (m_fragment rel)) d, s))
               end) with
        | (rc, d, s') => dst s s' d /\ (rc = URI_SUCCESS \/ rc = URI_ERROR_ADDBASE_REL_BASE \/ rc = URI_ERROR_MALLOC /\ fails_between s s')
        end).
      { intros _.
        pose proof (dst_copy_path _ _ _ rel D1 E1) as R2.
        destruct (copy_path_m d1 rel s1) as [[ok2 d2] s2]. destruct R2 as (D2 & Fl2).
        destruct ok2; cbn [negb]; cbv beta iota; [|fail_exit D2 Fl2].
        pose proof (dst_resolve_abs_flag _ _ _ D2) as R2b.
        destruct (resolve_abs_flag_m d2 s2) as [[d2b|] s2b]; [|split; [apply R2b|right; right; split; [reflexivity|apply R2b]]].
        pose proof (dst_rds _ _ _ false R2b) as R3.
        destruct (remove_dot_segments_m false (m_owner d2b) d2b s2b) as [[ok3 d3] s3]. destruct R3 as (D3 & Fl3).
        destruct ok3; cbn [negb]; cbv beta iota; [|fail_exit D3 Fl3].
        pose proof (dst_fix_ambiguity _ _ _ D3) as R4.
        destruct (fix_ambiguity_m d3 s3) as [[ok4 d4] s4]. destruct R4 as (D4 & Fl4).
        destruct ok4; cbn [negb]; cbv beta iota; [|fail_exit D4 Fl4].
        finish_step (dst_scheme _ _ _ (m_scheme base) (dst_query _ _ _ (m_query rel) D4)). }
      assert (MergeCase :
        match (let '(ok, d, s) := copy_path_m d1 base s1 in
               if negb ok then (URI_ERROR_MALLOC, d, s) else
               let '(ok, d, s) := merge_path_m d rel s in
               if negb ok then (URI_ERROR_MALLOC, d, s) else
               let '(ok, d, s) := remove_dot_segments_m false (m_owner d) d s in
               if negb ok then (URI_ERROR_MALLOC, d, s) else
               let '(ok, d, s) := fix_ambiguity_m d s in
               if negb ok then (URI_ERROR_MALLOC, d, s)
               else (let '(d, s) := fix_empty_trail_m (set_m_scheme (borrow (m_scheme base)) (set_m_query (borrow (m_query rel)) d)) s in
                     (URI_SUCCESS, set_m_fragment (borrow (m_fragment rel)) d, s))) with
        | (rc, d, s') => dst s s' d /\ (rc = URI_SUCCESS \/ rc = URI_ERROR_ADDBASE_REL_BASE \/ rc = URI_ERROR_MALLOC /\ fails_between s s')
        end).
      { pose proof (dst_copy_path _ _ _ base D1 E1) as R2.
        destruct (copy_path_m d1 base s1) as [[ok2 d2] s2]. destruct R2 as (D2 & Fl2).
        destruct ok2; cbn [negb]; cbv beta iota; [|fail_exit D2 Fl2].
        pose proof (dst_merge_path _ _ _ rel D2) as R2b.
        destruct (merge_path_m d2 rel s2) as [[ok2b d2b] s2b]. destruct R2b as (D2b & Fl2b).
        destruct ok2b; cbn [negb]; cbv beta iota; [|fail_exit D2b Fl2b].
        pose proof (dst_rds _ _ _ false D2b) as R3.
        destruct (remove_dot_segments_m false (m_owner d2b) d2b s2b) as [[ok3 d3] s3]. destruct R3 as (D3 & Fl3).
        destruct ok3; cbn [negb]; cbv beta iota; [|fail_exit D3 Fl3].
        pose proof (dst_fix_ambiguity _ _ _ D3) as R4.
        destruct (fix_ambiguity_m d3 s3) as [[ok4 d4] s4]. destruct R4 as (D4 & Fl4).
        destruct ok4; cbn [negb]; cbv beta iota; [|fail_exit D4 Fl4].
        finish_step (dst_scheme _ _ _ (m_scheme base) (dst_query _ _ _ (m_query rel) D4)). }
      destruct (m_segs rel) as [|r1 rr]; destruct (m_abs rel) eqn:EA; try (apply AbsCase; reflexivity); try exact MergeCase.
      (* empty path: the base path is taken *)
      pose proof (dst_copy_path _ _ _ base D1 E1) as R2.
      destruct (copy_path_m d1 base s1) as [[ok2 d2] s2]. destruct R2 as (D2 & Fl2).
      destruct ok2; cbn [negb]; cbv beta iota; [|fail_exit D2 Fl2].
      finish_step (dst_scheme _ _ _ (m_scheme base) (dst_query _ _ _ (match t_val (m_query rel) with Some _ => m_query rel | None => m_query base end) D2)).
Qed.

Lemma dst_owns s0 s d : dst s0 s d -> owns d s.
Proof.
  intros ((W & E & O) & I & Ow). split; [unfold consistent; rewrite Ow; exact I|].
  intros x. rewrite (O x). lia.
Qed.

(* the public wrapper: on any error the destination's members are released *)
Lemma wrapper_spec rc d s0 s other : dst s0 s d -> rc_ok rc s0 s other ->
  match (if (rc =? 0)%N then (rc, d, s) else let '(d', s') := free_members d s in (rc, d', s')) with
  | (rc', d', s') =>
    rc' = rc /\ wf s' /\ ext s0 s' /\ consistent d' /\ m_owner d' = false /\ over s' (muri_blocks d') (L s0)
    /\ rc_ok rc s0 s' other
    /\ (rc <> URI_SUCCESS -> muri_blocks d' = [] /\ free_members d' s' = (d', s'))
  end.
Proof.
  intros D Rc. pose proof D as ((W & E & O) & I & Ow). destruct (N.eqb_spec rc 0) as [E0|E0].
  - split; [reflexivity|]. split; [exact W|]. split; [exact E|]. split; [unfold consistent; rewrite Ow; exact I|].
    split; [exact Ow|]. split; [exact O|]. split; [exact Rc|]. intros H. contradiction.
  - destruct (free_members d s) as [d' s'] eqn:EF.
    destruct (free_members_rel d s d' s' W (dst_owns _ _ _ D) EF) as (Rl & Eb & C' & Ow' & Idem).
    drel Rl W1 E1 Q1 N1 H1.
    split; [reflexivity|]. split; [exact W1|]. split; [eapply ext_trans; eauto|]. split; [exact C'|].
    split; [congruence|]. split; [rewrite Eb; unfold over in *; pwl|]. split; [|intros _; split; assumption].
    destruct Rc as [H|[H|[H Fl]]]; [left; exact H|right; left; exact H|right; right; split; [exact H|]].
    eapply fails_ext; eauto.
Qed.

Theorem add_base_m_spec compat rel base s : wf s ->
  match add_base_m compat rel base s with
  | (rc, d, s') =>
    wf s' /\ ext s s' /\ consistent d /\ m_owner d = false /\ over s' (muri_blocks d) (L s)
    /\ rc_ok rc s s' URI_ERROR_ADDBASE_REL_BASE
    /\ (rc <> URI_SUCCESS -> muri_blocks d = [] /\ free_members d s' = (d, s'))
  end.
Proof.
  intros W. unfold add_base_m. pose proof (add_base_impl_m_spec compat rel base s W) as R.
  destruct (add_base_impl_m compat rel base s) as [[rc d] s1]. destruct R as (D & Rc).
  pose proof (wrapper_spec rc d s s1 _ D Rc) as Wr.
  destruct (if (rc =? 0)%N then (rc, d, s1) else let '(d', s') := free_members d s1 in (rc, d', s')) as [[rc' d'] s'].
  destruct Wr as (-> & W' & E' & C' & Ow' & O' & Rc' & Cl).
  repeat (split; [assumption|]). exact Cl.
Qed.

(* ---------------------------------------------------------------- uriRemoveBaseUriMm *)
Definition rc_ok2 (rc : N) (s s' : mstate) : Prop :=
  rc = URI_SUCCESS \/ rc = URI_ERROR_REMOVEBASE_REL_BASE \/ rc = URI_ERROR_REMOVEBASE_REL_SOURCE
  \/ (rc = URI_ERROR_MALLOC /\ fails_between s s').

Ltac fail_exit2 D Fl := split; [exact D|right; right; right; split; [reflexivity|apply Fl; reflexivity]].

Lemma remove_base_impl_m_spec domain_root src base s : wf s ->
  match remove_base_impl_m domain_root src base s with
  | (rc, d, s') => dst s s' d /\ rc_ok2 rc s s'
  end.
Proof.
  intros W. pose proof (dst_empty s W) as D0. unfold remove_base_impl_m, rc_ok2. cbv zeta.
  destruct (t_val (m_scheme base)) as [tb|]; [|split; [exact D0|right; left; reflexivity]].
  destruct (t_val (m_scheme src)) as [ts|]; [|split; [exact D0|right; right; left; reflexivity]].
  assert (Copy : forall d, dst s s d -> m_ip4 d = None -> m_ip6 d = None -> m_segs d = [] ->
    match (let '(ok, d, s) := copy_authority_m d src s in
           if negb ok then (URI_ERROR_MALLOC, d, s) else
           let '(ok, d, s) := copy_path_m d src s in
           if negb ok then (URI_ERROR_MALLOC, d, s)
           else (URI_SUCCESS, set_m_fragment (borrow (m_fragment src)) (set_m_query (borrow (m_query src)) d), s)) with
    | (rc, d, s') => dst s s' d /\ (rc = URI_SUCCESS \/ rc = URI_ERROR_REMOVEBASE_REL_BASE \/ rc = URI_ERROR_REMOVEBASE_REL_SOURCE
                                    \/ rc = URI_ERROR_MALLOC /\ fails_between s s')
    end).
  { intros d D H4 H6 Hs.
    pose proof (dst_copy_authority _ _ _ src D H4 H6) as R1.
    destruct (copy_authority_m d src s) as [[ok1 d1] s1]. destruct R1 as (D1 & E1 & Fl1).
    destruct ok1; cbn [negb]; cbv beta iota; [|fail_exit2 D1 Fl1].
    rewrite Hs in E1.
    pose proof (dst_copy_path _ _ _ src D1 E1) as R2.
    destruct (copy_path_m d1 src s1) as [[ok2 d2] s2]. destruct R2 as (D2 & Fl2).
    destruct ok2; cbn [negb]; cbv beta iota; [|fail_exit2 D2 Fl2].
    split; [apply dst_fragment; apply dst_query; exact D2|left; reflexivity]. }
  destruct (negb (range_eqb (scheme (erase src)) (scheme (erase base)))).
  - apply Copy; try reflexivity. apply dst_scheme. exact D0.
  - destruct (negb (equals_authority (erase src) (erase base))).
    + destruct (negb (is_host_set (erase src)) && is_host_set (erase base)).
      * apply Copy; try reflexivity. apply dst_scheme. exact D0.
      * apply Copy; try reflexivity. exact D0.
    + destruct domain_root.
      * pose proof (dst_copy_path _ _ _ src D0 eq_refl) as R2.
        destruct (copy_path_m muri_empty src s) as [[ok2 d2] s2]. destruct R2 as (D2 & Fl2).
        destruct ok2; cbn [negb]; cbv beta iota; [|fail_exit2 D2 Fl2].
        pose proof (dst_fix_empty_trail _ _ _ (dst_abs _ _ _ true D2)) as R3.
        destruct (fix_empty_trail_m (set_m_abs true d2) s2) as [d3 s3].
        pose proof (dst_fix_ambiguity _ _ _ R3) as R4.
        destruct (fix_ambiguity_m d3 s3) as [[ok4 d4] s4]. destruct R4 as (D4 & Fl4).
        destruct ok4; cbn [negb]; cbv beta iota; [|fail_exit2 D4 Fl4].
        split; [apply dst_fragment; apply dst_query; exact D4|left; reflexivity].
      * destruct (skip_common (pathSegs (erase src)) (pathSegs (erase base))) as [s' b'].
        pose proof D0 as (_ & I0 & Ow0). pose proof (dst_to_segs _ _ _ D0) as S0.
        pose proof (append_segs_spec (parents b' ++ rest_segments match parents b' with [] => true | _ :: _ => false end s') [] s s _ S0 (Forall_nil _)) as R.
        destruct (append_segs [] _ s) as [[ok segs] s1]. destruct R as (S1 & Fs & Fl).
        pose proof (segs_to_dst _ _ _ _ I0 Ow0 S1 Fs) as D1.
        destruct ok.
        -- split; [apply dst_fragment; apply dst_query; exact D1|left; reflexivity].
        -- fail_exit2 D1 Fl.
Qed.

Theorem remove_base_m_spec domain_root src base s : wf s ->
  match remove_base_m domain_root src base s with
  | (rc, d, s') =>
    wf s' /\ ext s s' /\ consistent d /\ m_owner d = false /\ over s' (muri_blocks d) (L s)
    /\ rc_ok2 rc s s'
    /\ (rc <> URI_SUCCESS -> muri_blocks d = [] /\ free_members d s' = (d, s'))
  end.
Proof.
  intros W. unfold remove_base_m. pose proof (remove_base_impl_m_spec domain_root src base s W) as R.
  destruct (remove_base_impl_m domain_root src base s) as [[rc d] s1]. destruct R as (D & Rc).
  pose proof D as ((W1 & E1 & O1) & I & Ow). destruct (N.eqb_spec rc 0) as [E0|E0].
  - split; [exact W1|]. split; [exact E1|]. split; [unfold consistent; rewrite Ow; exact I|].
    split; [exact Ow|]. split; [exact O1|]. split; [exact Rc|]. intros H. contradiction.
  - destruct (free_members d s1) as [d' s'] eqn:EF.
    destruct (free_members_rel d s1 d' s' W1 (dst_owns _ _ _ D) EF) as (Rl & Eb & C' & Ow' & Idem).
    drel Rl W2 E2 Q2 N2 H2.
    split; [exact W2|]. split; [eapply ext_trans; eauto|]. split; [exact C'|].
    split; [congruence|]. split; [rewrite Eb; unfold over in *; pwl|]. split; [|intros _; split; assumption].
    destruct Rc as [H|[H|[H|[H Fl]]]]; [left; exact H|right; left; exact H|right; right; left; exact H|right; right; right; split; [exact H|]].
    eapply fails_ext; eauto.
Qed.
