(* Proofs about the filename <-> URI string model (C18). *)
From UP Require Import Base.Chars Model.Escape Model.File Spec.PctSpec Spec.FileSpec
  Proofs.EscapeProofs Proofs.EscapeExtra.
From Coq Require Import ZArith ZifyBool ZifyN Lia.
Local Open Scope N_scope.

Notation un := (unescape_loop false BrDontTouch false).

(* =========================================================================== *)
(* 1. the loop, segment by segment                                                *)
(* =========================================================================== *)
Definition sepconv (fu : bool) (c : N) : N := if is_sep fu c then 47 else c.
Definition no_sep (fu : bool) (l : text) : Prop := Forall (fun c => is_sep fu c = false) l.

Lemma map_sepconv_no_sep fu l : no_sep fu l -> map (sepconv fu) l = l.
Proof.
  induction 1 as [|c r Hc Hr IH]; [reflexivity|]. cbn [map]. unfold sepconv at 1. rewrite Hc, IH. reflexivity.
Qed.

(* unescaping what a flushed segment (not the verbatim one) contributes *)
Lemma un_flush fu abs seg rest : all_1_255 seg ->
  un (flush_seg fu abs false seg ++ rest) = seg ++ un rest.
Proof.
  intros H. unfold flush_seg. destruct seg as [|c s]; [reflexivity|].
  rewrite andb_false_r. apply (unescape_escape_app false false false); [discriminate|assumption].
Qed.

Lemma un_plain c r : c <> 0 -> c <> 37 -> c <> 43 -> un (c :: r) = c :: un r.
Proof. apply unescape_plain. Qed.

Lemma loop_unescape fu abs : forall l seg,
  all_1_255 (seg ++ l) -> no_sep fu seg ->
  un (f2u_loop fu abs false seg l) = map (sepconv fu) (seg ++ l).
Proof.
  induction l as [|c r IH]; intros seg Hall Hs.
  { cbn [f2u_loop]. rewrite app_nil_r in *. rewrite map_sepconv_no_sep by assumption.
    rewrite <- (app_nil_r (flush_seg fu abs false seg)). rewrite un_flush by assumption.
    cbn [unescape_loop]. apply app_nil_r. }
  pose proof Hall as Hall'. apply all_1_255_app in Hall'. destruct Hall' as [Hseg Hcr].
  inversion Hcr as [|? ? Hc Hr]; subst.
  cbn [f2u_loop]. destruct (c =? 0) eqn:E0; [lia|].
  destruct (is_sep fu c) eqn:Es.
  - rewrite un_flush by assumption.
    rewrite un_plain by lia. rewrite (IH []); [|exact Hr|constructor].
    change ([] ++ r) with r. rewrite map_app. rewrite (map_sepconv_no_sep fu seg) by assumption. cbn [map].
    unfold sepconv at 2. rewrite Es. reflexivity.
  - rewrite IH.
    + rewrite <- app_assoc. reflexivity.
    + rewrite <- app_assoc. exact Hall.
    + apply Forall_app. split; [assumption|]. constructor; [assumption|constructor].
Qed.

(* the first-segment flag matters only for absolute Windows names *)
Lemma loop_first_irrelevant fu abs : (negb fu && abs = false) ->
  forall l seg fs, f2u_loop fu abs fs seg l = f2u_loop fu abs false seg l.
Proof.
  intros H. assert (forall fs seg, flush_seg fu abs fs seg = flush_seg fu abs false seg) as F.
  { intros fs seg. unfold flush_seg. destruct seg; [reflexivity|]. rewrite H. rewrite andb_false_r. reflexivity. }
  induction l as [|c r IH]; intros seg fs; cbn [f2u_loop]; [apply F|].
  destruct (c =? 0); [apply F|]. destruct (is_sep fu c); [rewrite F; reflexivity|apply IH].
Qed.

(* =========================================================================== *)
(* 2. characters of the output                                                    *)
(* =========================================================================== *)
Definition path_char (c : N) : bool := is_pchar c || (c =? 47).

Lemma chars_pct_app ok a b : chars_pct ok a = true -> chars_pct ok b = true -> chars_pct ok (a ++ b) = true.
Proof.
  revert a. fix IH 1. intros a Ha Hb. destruct a as [|c r]; [exact Hb|].
  cbn [app chars_pct] in *.
  destruct (c =? 37).
  - destruct r as [|x [|y r2]]; try discriminate. cbn [app].
    apply andb_prop in Ha. destruct Ha as [Ha1 Ha2]. rewrite Ha1. cbn [andb]. apply IH; assumption.
  - apply andb_prop in Ha. destruct Ha as [Ha1 Ha2]. rewrite Ha1. cbn [andb]. apply IH; assumption.
Qed.

Lemma upper_hexdig_hexdig' c : is_upper_hexdig c = true -> is_hexdig c = true.
Proof. unfold is_upper_hexdig, is_hexdig. intros H. apply orb_true_iff in H. destruct H as [-> | ->]; [reflexivity|]. rewrite orb_true_r. reflexivity. Qed.

Lemma escaped_chars_pct ok : (forall c, is_unreserved c = true -> ok c = true) ->
  forall l, escaped_form false l = true -> chars_pct ok l = true.
Proof.
  intros Hok. fix IH 1. intros l H. destruct l as [|c r]; [reflexivity|].
  cbn [escaped_form chars_pct] in *.
  destruct (c =? 37) eqn:E.
  - destruct r as [|a [|b r2]]; try discriminate.
    apply andb_prop in H. destruct H as [H H3]. apply andb_prop in H. destruct H as [H1 H2].
    rewrite (upper_hexdig_hexdig' _ H1), (upper_hexdig_hexdig' _ H2). cbn [andb]. apply IH. exact H3.
  - apply andb_prop in H. destruct H as [H1 H2]. rewrite (IH _ H2). rewrite andb_true_r.
    cbn [andb] in H1. rewrite orb_false_r in H1. apply Hok. exact H1.
Qed.

Lemma escape_chars_pct ok s : (forall c, is_unreserved c = true -> ok c = true) ->
  chars_pct ok (escape false false s) = true.
Proof. intros H. apply escaped_chars_pct; [assumption|]. apply escape_charset. Qed.

Lemma unreserved_path_char c : is_unreserved c = true -> path_char c = true.
Proof. intros H. unfold path_char, is_pchar, is_pchar_nc. rewrite H. reflexivity. Qed.

Lemma flush_path_chars fu abs seg : chars_pct path_char (flush_seg fu abs false seg) = true.
Proof.
  unfold flush_seg. destruct seg; [reflexivity|]. rewrite andb_false_r.
  apply escape_chars_pct. exact unreserved_path_char.
Qed.

Lemma loop_path_chars fu abs : forall l seg, chars_pct path_char (f2u_loop fu abs false seg l) = true.
Proof.
  induction l as [|c r IH]; intros seg; cbn [f2u_loop]; [apply flush_path_chars|].
  destruct (c =? 0); [apply flush_path_chars|].
  destruct (is_sep fu c); [|apply IH].
  apply chars_pct_app; [apply flush_path_chars|]. cbn [chars_pct]. change (47 =? 37) with false. cbv iota.
  rewrite IH. reflexivity.
Qed.

(* no ':' and no NUL in the output when nothing is copied verbatim *)
Definition esc_or_slash (c : N) : bool := esc_char c || (c =? 47).

Lemma flush_esc_or_slash fu abs seg : forallb esc_or_slash (flush_seg fu abs false seg) = true.
Proof.
  unfold flush_seg. destruct seg; [reflexivity|]. rewrite andb_false_r.
  apply forallb_forall. intros c Hc. apply escape_char_in in Hc. unfold esc_or_slash. rewrite Hc. reflexivity.
Qed.

Lemma loop_esc_or_slash fu abs : forall l seg, forallb esc_or_slash (f2u_loop fu abs false seg l) = true.
Proof.
  induction l as [|c r IH]; intros seg; cbn [f2u_loop]; [apply flush_esc_or_slash|].
  destruct (c =? 0); [apply flush_esc_or_slash|].
  destruct (is_sep fu c); [|apply IH].
  rewrite forallb_app, flush_esc_or_slash. cbn [forallb andb]. rewrite IH. reflexivity.
Qed.

Lemma esc_or_slash_not_colon c : esc_or_slash c = true -> c <> 58 /\ c <> 0.
Proof.
  unfold esc_or_slash. intros H. apply orb_true_iff in H. destruct H as [H|H].
  - apply esc_char_not_special in H. tauto.
  - lia.
Qed.

Lemma starts_with_file_colon x : starts_with s_file x = true -> In 58 x.
Proof.
  unfold s_file. destruct x as [|a [|b [|c [|d [|e x]]]]]; cbn [starts_with]; try (rewrite ?andb_false_r; discriminate).
  intros H. repeat (apply andb_prop in H; destruct H as [? H]).
  assert (e = 58) by lia. subst. cbn. tauto.
Qed.

Lemma no_colon_not_file x : forallb esc_or_slash x = true -> starts_with s_file x = false.
Proof.
  intros H. destruct (starts_with s_file x) eqn:E; [|reflexivity].
  apply starts_with_file_colon in E. rewrite forallb_forall in H. apply H in E.
  apply esc_or_slash_not_colon in E. lia.
Qed.

Lemma relative_not_skipped tu x : forallb esc_or_slash x = true ->
  chars_to_skip tu x = 0%nat /\ is_network_with_authority tu x = false.
Proof.
  intros H. pose proof (no_colon_not_file x H) as E.
  assert (starts_with s_file2 x = false) as E2.
  { destruct (starts_with s_file2 x) eqn:E2; [|reflexivity]. exfalso.
    unfold s_file2, s_file in *. destruct x as [|a [|b [|c [|d [|e x]]]]]; cbn [starts_with app] in *;
      rewrite ?andb_false_r in *; try discriminate.
    repeat (apply andb_prop in E2; destruct E2 as [? E2]). rewrite andb_true_r in E. lia. }
  unfold chars_to_skip, is_network_with_authority. rewrite E, E2. cbn [andb]. destruct tu; split; reflexivity.
Qed.

Lemma esc_or_slash_nonzero x : forallb esc_or_slash x = true -> Forall (fun c => c <> 0) x.
Proof.
  intros H. apply Forall_forall. intros c Hc. rewrite forallb_forall in H. apply H in Hc.
  apply esc_or_slash_not_colon in Hc. tauto.
Qed.

(* =========================================================================== *)
(* 3. sizes                                                                       *)
(* =========================================================================== *)
Lemma flush_bound fu abs fs seg : (length (flush_seg fu abs fs seg) <= 3 * length seg)%nat.
Proof.
  unfold flush_seg. destruct seg as [|c s]; [cbn; lia|].
  destruct (negb fu && abs && fs); [lia|]. apply (escape_bound false false).
Qed.

Lemma loop_bound fu abs : forall l fs seg,
  (length (f2u_loop fu abs fs seg l) <= 3 * (length seg + length l))%nat.
Proof.
  induction l as [|c r IH]; intros fs seg; cbn [f2u_loop length].
  { pose proof (flush_bound fu abs fs seg). lia. }
  destruct (c =? 0). { pose proof (flush_bound fu abs fs seg). lia. }
  destruct (is_sep fu c).
  - rewrite app_length. cbn [length]. pose proof (flush_bound fu abs fs seg). specialize (IH false []). cbn [length] in IH. lia.
  - specialize (IH fs (seg ++ [c])). rewrite app_length in IH. cbn [length] in IH. lia.
Qed.

Lemma unix_absolute_model f : fn_absolute true f = unix_absolute f.
Proof. destruct f; reflexivity. Qed.

Theorem unix_uri_fits f : (f2u_extent true f <= unix_uri_size f)%nat.
Proof.
  unfold f2u_extent, filename_to_uri_string, unix_uri_size, fn_prefix. rewrite app_length.
  rewrite <- unix_absolute_model.
  pose proof (loop_bound true (fn_absolute true f) f true []) as B. cbn [length] in B.
  destruct (fn_absolute true f); cbn [length s_file2 s_file app]; lia.
Qed.

Theorem windows_uri_fits f : (f2u_extent false f <= win_uri_size (fn_absolute false f) f)%nat.
Proof.
  unfold f2u_extent, filename_to_uri_string, win_uri_size, fn_prefix. rewrite app_length.
  pose proof (loop_bound false (fn_absolute false f) f true []) as B. cbn [length] in B.
  destruct (fn_absolute false f); [|cbn [length]; lia].
  destruct (is_windows_network f); cbn [length s_file3 s_file app]; lia.
Qed.

Lemma starts_with_length p : forall s, starts_with p s = true -> (length p <= length s)%nat.
Proof.
  induction p as [|a p IH]; intros s H; [cbn; lia|]. destruct s as [|b s]; [discriminate|].
  cbn [starts_with] in H. apply andb_prop in H. destruct H as [_ H]. apply IH in H. cbn [length]. lia.
Qed.

Lemma starts_with_prefix p q : forall s, starts_with (p ++ q) s = true -> starts_with p s = true.
Proof.
  induction p as [|a p IH]; intros s H; [reflexivity|]. destruct s as [|b s]; [discriminate|].
  cbn [app starts_with] in *. apply andb_prop in H. destruct H as [H1 H2]. rewrite H1. cbn [andb]. apply IH. exact H2.
Qed.

Lemma prefix_chain s :
  (starts_with s_file1 s = true -> starts_with s_file s = true)
  /\ (starts_with s_file2 s = true -> starts_with s_file1 s = true)
  /\ (starts_with s_file3 s = true -> starts_with s_file2 s = true).
Proof.
  split; [|split].
  - apply (starts_with_prefix s_file [47]).
  - apply (starts_with_prefix s_file1 [47]).
  - apply (starts_with_prefix s_file2 [47]).
Qed.

(* every call: never more than len(uriString) + 1 characters are stored *)
Theorem filename_fits_always tu s : (u2f_extent tu s <= length s + 1)%nat.
Proof.
  unfold u2f_extent, u2f_buffer. rewrite app_length, skipn_length.
  unfold is_network_with_authority, chars_to_skip.
  destruct (prefix_chain s) as (I10 & I21 & I32).
  pose proof (starts_with_length s_file2 s) as L2. change (length s_file2) with 7%nat in L2.
  destruct (starts_with s_file s), (starts_with s_file1 s), (starts_with s_file2 s), (starts_with s_file3 s), tu;
    cbn [andb negb length app]; try lia;
    try (specialize (L2 eq_refl); lia);
    exfalso; try (specialize (I10 eq_refl)); try (specialize (I21 eq_refl)); try (specialize (I32 eq_refl)); discriminate.
Qed.

(* =========================================================================== *)
(* 4. prefix recognition on concrete prefixes                                     *)
(* =========================================================================== *)
Lemma skip_file3 tu x : chars_to_skip tu (s_file3 ++ x) = if tu then 7%nat else 8%nat.
Proof. destruct tu; reflexivity. Qed.

Lemma network_file3 tu x : is_network_with_authority tu (s_file3 ++ x) = false.
Proof. destruct tu; reflexivity. Qed.

Lemma starts3_file2 x : starts_with s_file3 (s_file2 ++ x) = starts_with [47] x.
Proof. reflexivity. Qed.

Lemma skip_file2 tu x : starts_with [47] x = false -> chars_to_skip tu (s_file2 ++ x) = 7%nat.
Proof.
  intros H. unfold chars_to_skip. rewrite starts3_file2, H.
  change (starts_with s_file (s_file2 ++ x)) with true.
  change (starts_with s_file1 (s_file2 ++ x)) with true.
  change (starts_with s_file2 (s_file2 ++ x)) with true. reflexivity.
Qed.

Lemma network_file2 tu x : starts_with [47] x = false ->
  is_network_with_authority tu (s_file2 ++ x) = negb tu.
Proof.
  intros H. unfold is_network_with_authority. rewrite starts3_file2, H.
  change (starts_with s_file2 (s_file2 ++ x)) with true. destruct tu; reflexivity.
Qed.

(* =========================================================================== *)
(* 5. round trips                                                                 *)
(* =========================================================================== *)
Lemma map_sepconv_unix l : map (sepconv true) l = l.
Proof.
  induction l as [|c r IH]; [reflexivity|]. cbn [map]. rewrite IH. unfold sepconv, is_sep.
  destruct (c =? 47) eqn:E; [|reflexivity]. f_equal. lia.
Qed.

Theorem unix_roundtrip f : all_1_255 f ->
  uri_string_to_filename true (filename_to_uri_string true f) = f.
Proof.
  intros Hall. destruct f as [|c r]; [reflexivity|].
  inversion Hall as [|? ? Hc Hr]; subst.
  unfold filename_to_uri_string, fn_prefix, fn_absolute. cbn [nth].
  destruct (c =? 47) eqn:E.
  - assert (c = 47) by lia. subst c.
    cbn [f2u_loop]. change (47 =? 0) with false. change (is_sep true 47) with true. cbv iota.
    cbn [flush_seg app].
    change (s_file2 ++ 47 :: ?x) with (s_file3 ++ x).
    unfold uri_string_to_filename, u2f_buffer. rewrite skip_file3, network_file3.
    change (skipn 7 (s_file3 ++ ?x)) with (47 :: x). cbn [app].
    unfold unescape. rewrite un_plain by lia.
    rewrite (loop_unescape true true r []); [|exact Hr|constructor].
    cbn [app]. rewrite map_sepconv_unix. apply until_nul_id. apply all_1_255_nonzero. exact Hall.
  - cbn [app]. rewrite loop_first_irrelevant by reflexivity.
    pose proof (loop_esc_or_slash true false (c :: r) []) as Hch.
    destruct (relative_not_skipped true _ Hch) as [Hs Hn].
    unfold uri_string_to_filename, u2f_buffer. rewrite Hs, Hn. cbn [skipn app].
    unfold unescape. rewrite (loop_unescape true false (c :: r) []); [|exact Hall|constructor].
    cbn [app]. rewrite map_sepconv_unix. apply until_nul_id. apply all_1_255_nonzero. exact Hall.
Qed.

Lemma no_slash_forall l : no_slash l = true -> Forall (fun c => c <> 47) l.
Proof.
  unfold no_slash. intros H. apply Forall_forall. intros c Hc. rewrite forallb_forall in H. apply H in Hc. lia.
Qed.

Lemma win_finish l : all_1_255 l -> no_slash l = true ->
  map slash_to_backslash (until_nul (map (sepconv false) l)) = l.
Proof.
  intros Hall Hns. apply no_slash_forall in Hns.
  rewrite until_nul_id.
  - rewrite map_map. induction l as [|c r IH]; [reflexivity|].
    inversion Hall; inversion Hns; subst. cbn [map]. rewrite IH by assumption. f_equal.
    unfold sepconv, is_sep, slash_to_backslash. destruct (c =? 92) eqn:E.
    + change (47 =? 47) with true. cbv iota. lia.
    + destruct (c =? 47) eqn:E'; [lia|reflexivity].
  - apply Forall_forall. intros c Hc. apply in_map_iff in Hc. destruct Hc as (x & <- & Hx).
    unfold all_1_255 in Hall. rewrite Forall_forall in Hall. apply Hall in Hx.
    unfold sepconv. destruct (is_sep false x); lia.
Qed.

Lemma win_relative_not_abs f : win_relative f = true -> fn_absolute false f = false.
Proof.
  unfold win_relative, fn_absolute, is_windows_network. intros H. apply andb_prop in H. destruct H as [_ H].
  destruct f as [|a [|b r]]; cbn [nth]; [reflexivity| |].
  - rewrite andb_true_r in H. change (0 =? 58) with false. change (0 =? 92) with false. rewrite !andb_false_r. reflexivity.
  - apply andb_prop in H. destruct H as [H1 H2]. apply negb_true_iff in H1. apply negb_true_iff in H2.
    rewrite H1, H2. rewrite andb_false_r. reflexivity.
Qed.

Theorem win_relative_roundtrip f : all_1_255 f -> win_relative f = true ->
  uri_string_to_filename false (filename_to_uri_string false f) = f.
Proof.
  intros Hall Hrel. pose proof (win_relative_not_abs f Hrel) as Habs.
  assert (no_slash f = true) as Hns by (unfold win_relative in Hrel; apply andb_prop in Hrel; tauto).
  unfold filename_to_uri_string, fn_prefix. rewrite Habs. cbn [app].
  rewrite loop_first_irrelevant by reflexivity.
  pose proof (loop_esc_or_slash false false f []) as Hch.
  destruct (relative_not_skipped false _ Hch) as [Hs Hn].
  unfold uri_string_to_filename, u2f_buffer. rewrite Hs, Hn. cbn [skipn app].
  unfold unescape. rewrite (loop_unescape false false f []); [|exact Hall|constructor].
  cbn [app]. apply win_finish; assumption.
Qed.

Lemma alpha_facts d : is_alpha d = true ->
  d <> 0 /\ d <> 37 /\ d <> 43 /\ d <> 47 /\ d <> 92 /\ d <> 58.
Proof. unfold is_alpha, is_upper, is_lower, in_range. lia. Qed.

Theorem win_drive_roundtrip f : all_1_255 f -> win_drive_absolute f = true ->
  uri_string_to_filename false (filename_to_uri_string false f) = f.
Proof.
  intros Hall Hd. unfold win_drive_absolute in Hd. apply andb_prop in Hd. destruct Hd as [Hns Hd].
  destruct f as [|d [|c rest]]; try discriminate.
  apply andb_prop in Hd. destruct Hd as [Hd Hrest]. apply andb_prop in Hd. destruct Hd as [Hal Hc].
  assert (c = 58) by lia. subst c. destruct (alpha_facts d Hal) as (D0 & D37 & D43 & D47 & D92 & D58).
  assert (un (f2u_loop false true true [] (d :: 58 :: rest)) = map (sepconv false) (d :: 58 :: rest)
          /\ exists y, f2u_loop false true true [] (d :: 58 :: rest) = d :: 58 :: y) as [Hun [y Hy]].
  { assert (is_sep false d = false) as Es by (unfold is_sep; lia).
    assert ((d =? 92) = false) as E92 by lia.
    cbn [f2u_loop]. destruct (d =? 0) eqn:E0; [lia|]. rewrite !Es.
    change (58 =? 0) with false. change (is_sep false 58) with false. cbv iota. cbn [app].
    assert (map (sepconv false) (d :: 58 :: rest) = d :: 58 :: map (sepconv false) rest) as ->.
    { cbn [map]. unfold sepconv at 1 2, is_sep. rewrite E92. reflexivity. }
    destruct rest as [|s r'].
    - cbn [f2u_loop flush_seg negb andb map]. split; [|eexists; reflexivity].
      rewrite un_plain by assumption. rewrite un_plain by lia. reflexivity.
    - assert (s = 92) by lia. subst s. cbn [f2u_loop]. change (92 =? 0) with false.
      change (is_sep false 92) with true. cbv iota. cbn [flush_seg negb andb app].
      split; [|eexists; reflexivity].
      rewrite un_plain by assumption. rewrite un_plain by lia. rewrite un_plain by lia.
      inversion Hall as [|? ? _ H1]; subst. inversion H1 as [|? ? _ H2]; subst. inversion H2 as [|? ? _ H3]; subst.
      rewrite (loop_unescape false true r' []); [|exact H3|constructor].
      cbn [app map]. reflexivity. }
  unfold filename_to_uri_string, fn_prefix, fn_absolute, is_windows_network. cbn [nth].
  destruct (d =? 0) eqn:E0; [lia|]. destruct (d =? 92) eqn:E92; [lia|].
  change (58 =? 58) with true. cbn [negb andb orb].
  unfold uri_string_to_filename, u2f_buffer. rewrite skip_file3, network_file3.
  change (skipn 8 (s_file3 ++ ?x)) with x. cbn [app].
  unfold unescape. rewrite Hun. apply win_finish; assumption.
Qed.

(* the first character of the output of a non-empty pending segment is no '/' *)
Lemma flush_head fu abs c s : c <> 0 ->
  exists h t, flush_seg fu abs false (c :: s) = h :: t /\ h <> 47.
Proof.
  intros Hc. unfold flush_seg. rewrite andb_false_r.
  destruct (escape false false (c :: s)) as [|h t] eqn:E.
  - exfalso. revert E. apply escape_loop_nonempty. assumption.
  - exists h, t. split; [reflexivity|].
    assert (In h (escape false false (c :: s))) as Hin by (rewrite E; left; reflexivity).
    apply escape_char_in in Hin. apply esc_char_not_special in Hin. tauto.
Qed.

Lemma loop_head fu abs : forall l c s, c <> 0 ->
  exists h t, f2u_loop fu abs false (c :: s) l = h :: t /\ h <> 47.
Proof.
  induction l as [|a r IH]; intros c s Hc; cbn [f2u_loop].
  { apply flush_head. assumption. }
  destruct (a =? 0); [apply flush_head; assumption|].
  destruct (is_sep fu a).
  - destruct (flush_head fu abs c s Hc) as (h & t & E & Hh). rewrite E. cbn [app]. eauto.
  - change ((c :: s) ++ [a]) with (c :: (s ++ [a])). apply IH. assumption.
Qed.

Theorem win_unc_roundtrip f : all_1_255 f -> win_unc f = true ->
  uri_string_to_filename false (filename_to_uri_string false f) = f.
Proof.
  intros Hall Hu. unfold win_unc in Hu. apply andb_prop in Hu. destruct Hu as [Hns Hu].
  destruct f as [|a [|b [|s r]]]; try discriminate.
  apply andb_prop in Hu. destruct Hu as [Hu Hs]. apply andb_prop in Hu. destruct Hu as [Ha Hb].
  assert (a = 92) by lia. assert (b = 92) by lia. subst a b. apply negb_true_iff in Hs.
  inversion Hall as [|? ? _ H1]; subst. inversion H1 as [|? ? _ H2]; subst. inversion H2 as [|? ? Hs1 H3]; subst.
  unfold filename_to_uri_string, fn_prefix, fn_absolute, is_windows_network. cbn [nth].
  change (92 =? 92) with true. change (92 =? 0) with false. change (92 =? 58) with false. cbn [negb andb orb].
  cbn [f2u_loop]. change (92 =? 0) with false. change (is_sep false 92) with true. cbv iota.
  cbn [flush_seg app].
  destruct (s =? 0) eqn:E0; [lia|]. unfold is_sep at 1. rewrite Hs. cbn [app].
  destruct (loop_head false true r s [] ltac:(lia)) as (h & t & Eh & Hh).
  change (s_file ++ 47 :: 47 :: ?x) with (s_file2 ++ x).
  assert (starts_with [47] (f2u_loop false true false [s] r) = false) as Hst.
  { rewrite Eh. cbn [starts_with]. rewrite andb_true_r. lia. }
  unfold uri_string_to_filename, u2f_buffer. rewrite skip_file2, network_file2 by assumption.
  cbn [negb]. change (skipn 7 (s_file2 ++ ?x)) with x.
  unfold unescape. cbn [app]. rewrite un_plain by lia. rewrite un_plain by lia.
  rewrite (loop_unescape false true r [s]).
  - cbn [until_nul]. change (92 =? 0) with false. cbv iota. cbn [map].
    change (slash_to_backslash 92) with 92. f_equal. f_equal.
    apply (win_finish (s :: r)); [exact H2|].
    unfold no_slash in *. cbn [forallb] in Hns. apply andb_prop in Hns. destruct Hns as [_ Hns].
    apply andb_prop in Hns. destruct Hns as [_ Hns]. exact Hns.
  - exact H2.
  - constructor; [|constructor]. unfold is_sep. exact Hs.
Qed.

(* =========================================================================== *)
(* 6. the produced string is a URI reference of the expected shape                *)
(* =========================================================================== *)
Fixpoint span_sep (fu : bool) (l : text) : text * text :=
  match l with
  | [] => ([], [])
  | c :: r => if is_sep fu c then ([], l) else let '(s, t) := span_sep fu r in (c :: s, t)
  end.

Definition loop_tail (fu abs : bool) (t : text) : text :=
  match t with [] => [] | _ :: r' => 47 :: f2u_loop fu abs false [] r' end.

Lemma loop_span fu abs : forall l seg fs, Forall (fun c => c <> 0) l ->
  f2u_loop fu abs fs seg l
  = flush_seg fu abs fs (seg ++ fst (span_sep fu l)) ++ loop_tail fu abs (snd (span_sep fu l)).
Proof.
  induction l as [|c r IH]; intros seg fs Hnz.
  { cbn [f2u_loop span_sep fst snd loop_tail]. rewrite !app_nil_r. reflexivity. }
  inversion Hnz as [|? ? Hc Hr]; subst. cbn [f2u_loop span_sep].
  destruct (c =? 0) eqn:E0; [lia|]. destruct (is_sep fu c).
  - cbn [fst snd loop_tail]. rewrite app_nil_r. reflexivity.
  - rewrite IH by assumption. destruct (span_sep fu r) as [s t]. cbn [fst snd].
    rewrite <- app_assoc. reflexivity.
Qed.

Lemma loop_tail_shape fu abs t :
  (loop_tail fu abs t = [] \/ exists x, loop_tail fu abs t = 47 :: x) /\ path_abempty (loop_tail fu abs t) = true.
Proof.
  destruct t as [|c r]; cbn [loop_tail].
  - split; [left; reflexivity|reflexivity].
  - split; [right; eexists; reflexivity|].
    unfold path_abempty. change (47 =? 47) with true. cbn [andb].
    change (chars_pct path_char (47 :: f2u_loop fu abs false [] r) = true).
    cbn [chars_pct]. change (47 =? 37) with false. cbv iota. rewrite loop_path_chars. reflexivity.
Qed.

Lemma span_seg_app a b : forallb (fun c => negb (c =? 47)) a = true ->
  (b = [] \/ exists x, b = 47 :: x) -> span_seg (a ++ b) = (a, b).
Proof.
  intros Ha Hb. induction a as [|c a IH]; cbn [app].
  - destruct Hb as [-> | [x ->]]; reflexivity.
  - cbn [forallb] in Ha. apply andb_prop in Ha. destruct Ha as [Hc Ha]. cbn [span_seg].
    destruct (c =? 47); [discriminate|]. rewrite IH by assumption. reflexivity.
Qed.

Lemma escape_no_slash s : forallb (fun c => negb (c =? 47)) (escape false false s) = true.
Proof.
  apply forallb_forall. intros c Hc. apply escape_char_in in Hc. apply esc_char_not_special in Hc. lia.
Qed.

Lemma unreserved_pchar_nc c : is_unreserved c = true -> is_pchar_nc c = true.
Proof. intros H. unfold is_pchar_nc. rewrite H. reflexivity. Qed.
Lemma unreserved_regname c : is_unreserved c = true -> is_regname_char c = true.
Proof. intros H. unfold is_regname_char. rewrite H. reflexivity. Qed.

(* a name that does not start with a separator and whose segments are all escaped *)
Lemma relative_output_shape fu abs f :
  (negb fu && abs = false) -> all_1_255 f ->
  match f with [] => True | c :: _ => is_sep fu c = false end ->
  relative_shape (f2u_loop fu abs true [] f) = true.
Proof.
  intros Hf Hall H1. rewrite loop_first_irrelevant by assumption.
  destruct f as [|c r]; [reflexivity|].
  rewrite loop_span by (apply all_1_255_nonzero; assumption).
  cbn [span_sep]. rewrite H1. destruct (span_sep fu r) as [s t]. cbn [fst snd app].
  destruct (loop_tail_shape fu abs t) as [Hsh Hpa].
  unfold flush_seg. rewrite andb_false_r.
  inversion Hall as [|? ? Hc Hr]; subst.
  unfold relative_shape.
  destruct (escape false false (c :: s) ++ loop_tail fu abs t) eqn:E; [reflexivity|]. rewrite <- E.
  rewrite span_seg_app; [|apply escape_no_slash|assumption].
  destruct (escape false false (c :: s)) eqn:Ee.
  { exfalso. revert Ee. apply escape_loop_nonempty. lia. }
  rewrite <- Ee. cbn [negb andb]. rewrite escape_chars_pct by exact unreserved_pchar_nc. rewrite Hpa. reflexivity.
Qed.

Theorem unix_uri_valid f : all_1_255 f ->
  uri_reference_shape (filename_to_uri_string true f) = true.
Proof.
  intros Hall. unfold uri_reference_shape, filename_to_uri_string, fn_prefix, fn_absolute.
  destruct f as [|c r]; [reflexivity|]. cbn [nth].
  destruct (c =? 47) eqn:E.
  - assert (c = 47) by lia. subst c. apply orb_true_iff. left.
    cbn [f2u_loop]. change (47 =? 0) with false. change (is_sep true 47) with true. cbv iota. cbn [flush_seg app].
    unfold file_uri_shape. change (strip_prefix _ (s_file2 ++ ?x)) with (Some x).
    cbn [span_seg]. change (47 =? 47) with true. cbv iota. cbn [chars_pct andb].
    unfold path_abempty. change (47 =? 47) with true. cbn [andb].
    change (chars_pct path_char (47 :: f2u_loop true true false [] r) = true).
    cbn [chars_pct]. change (47 =? 37) with false. cbv iota. rewrite loop_path_chars. reflexivity.
  - apply orb_true_iff. right. cbn [app]. apply relative_output_shape; [reflexivity|assumption|].
    unfold is_sep. exact E.
Qed.

Theorem win_relative_uri_valid f : all_1_255 f -> win_relative f = true ->
  uri_reference_shape (filename_to_uri_string false f) = true.
Proof.
  intros Hall Hrel. unfold uri_reference_shape, filename_to_uri_string, fn_prefix.
  rewrite (win_relative_not_abs f Hrel). cbn [app]. apply orb_true_iff. right.
  apply relative_output_shape; [reflexivity|assumption|].
  unfold win_relative in Hrel. apply andb_prop in Hrel. destruct Hrel as [_ H].
  destruct f as [|a r]; [trivial|]. apply andb_prop in H. destruct H as [H _]. apply negb_true_iff in H. exact H.
Qed.

Theorem win_drive_uri_valid f : all_1_255 f -> win_drive_absolute f = true ->
  uri_reference_shape (filename_to_uri_string false f) = true.
Proof.
  intros Hall Hd. unfold win_drive_absolute in Hd. apply andb_prop in Hd. destruct Hd as [Hns Hd].
  destruct f as [|d [|c rest]]; try discriminate.
  apply andb_prop in Hd. destruct Hd as [Hd Hrest]. apply andb_prop in Hd. destruct Hd as [Hal Hc].
  assert (c = 58) by lia. subst c. destruct (alpha_facts d Hal) as (D0 & D37 & D43 & D47 & D92 & D58).
  assert (is_sep false d = false) as Es by (unfold is_sep; lia).
  unfold uri_reference_shape. apply orb_true_iff. left.
  unfold filename_to_uri_string, fn_prefix, fn_absolute, is_windows_network. cbn [nth].
  destruct (d =? 0) eqn:E0; [lia|]. destruct (d =? 92) eqn:E92; [lia|].
  change (58 =? 58) with true. cbn [negb andb orb].
  assert (exists y, f2u_loop false true true [] (d :: 58 :: rest) = d :: 58 :: y
                    /\ (y = [] \/ exists x, y = 47 :: x) /\ chars_pct path_char y = true) as (y & Ey & Hy & Hp).
  { cbn [f2u_loop]. rewrite E0, !Es. change (58 =? 0) with false. change (is_sep false 58) with false. cbv iota. cbn [app].
    destruct rest as [|s r'].
    - exists []. cbn [f2u_loop flush_seg negb andb]. auto.
    - assert (s = 92) by lia. subst s. cbn [f2u_loop]. change (92 =? 0) with false.
      change (is_sep false 92) with true. cbv iota. cbn [flush_seg negb andb app].
      eexists. split; [reflexivity|]. split; [right; eexists; reflexivity|].
      cbn [chars_pct]. change (47 =? 37) with false. cbv iota. rewrite loop_path_chars. reflexivity. }
  rewrite Ey. unfold file_uri_shape.
  change (strip_prefix _ (s_file3 ++ ?x)) with (Some (47 :: x)).
  cbn [span_seg]. change (47 =? 47) with true. cbv iota. cbn [chars_pct andb].
  unfold path_abempty. change (47 =? 47) with true. cbn [andb].
  change (chars_pct path_char (47 :: d :: 58 :: y) = true).
  cbn [chars_pct]. change (47 =? 37) with false. change (58 =? 37) with false. destruct (d =? 37) eqn:E37; [lia|].
  rewrite Hp. unfold path_char, is_pchar, is_pchar_nc, is_unreserved. rewrite Hal. reflexivity.
Qed.

Theorem win_unc_uri_valid f : all_1_255 f -> win_unc f = true ->
  uri_reference_shape (filename_to_uri_string false f) = true.
Proof.
  intros Hall Hu. unfold win_unc in Hu. apply andb_prop in Hu. destruct Hu as [Hns Hu].
  destruct f as [|a [|b [|s r]]]; try discriminate.
  apply andb_prop in Hu. destruct Hu as [Hu Hs]. apply andb_prop in Hu. destruct Hu as [Ha Hb].
  assert (a = 92) by lia. assert (b = 92) by lia. subst a b. apply negb_true_iff in Hs.
  inversion Hall as [|? ? _ H1]; subst. inversion H1 as [|? ? _ H2]; subst. inversion H2 as [|? ? Hs1 H3]; subst.
  unfold uri_reference_shape. apply orb_true_iff. left.
  unfold filename_to_uri_string, fn_prefix, fn_absolute, is_windows_network. cbn [nth].
  change (92 =? 92) with true. change (92 =? 0) with false. change (92 =? 58) with false. cbn [negb andb orb].
  cbn [f2u_loop]. change (92 =? 0) with false. change (is_sep false 92) with true. cbv iota.
  cbn [flush_seg app].
  change (s_file ++ 47 :: 47 :: ?x) with (s_file2 ++ x).
  unfold file_uri_shape. change (strip_prefix _ (s_file2 ++ ?x)) with (Some x).
  destruct (s =? 0) eqn:E0; [lia|]. unfold is_sep at 1. rewrite Hs. cbn [app].
  rewrite loop_span by (apply all_1_255_nonzero; exact H3).
  destruct (span_sep false r) as [sg t]. cbn [fst snd app].
  destruct (loop_tail_shape false true t) as [Hsh Hpa].
  unfold flush_seg. rewrite andb_false_r.
  rewrite span_seg_app; [|apply escape_no_slash|assumption].
  rewrite escape_chars_pct by exact unreserved_regname. rewrite Hpa. reflexivity.
Qed.

(* =========================================================================== *)
(* 7. documented sizes, by class                                                   *)
(* =========================================================================== *)
Lemma win_absolute_model f : win_absolute f = true -> fn_absolute false f = true.
Proof.
  unfold win_absolute, win_drive_absolute, win_unc, fn_absolute, is_windows_network. intros H.
  apply orb_true_iff in H. destruct H as [H|H]; apply andb_prop in H; destruct H as [_ H].
  - destruct f as [|d [|c r]]; try discriminate. cbn [nth].
    apply andb_prop in H. destruct H as [H _]. apply andb_prop in H. destruct H as [Hd Hc].
    apply alpha_facts in Hd. rewrite Hc. destruct (d =? 0) eqn:E; [lia|]. reflexivity.
  - destruct f as [|a [|b [|s r]]]; try discriminate. cbn [nth].
    apply andb_prop in H. destruct H as [H _]. rewrite H. apply orb_true_r.
Qed.

Theorem windows_uri_fits_absolute f : win_absolute f = true ->
  (f2u_extent false f <= win_uri_size true f)%nat.
Proof. intros H. pose proof (windows_uri_fits f) as B. rewrite (win_absolute_model f H) in B. exact B. Qed.

Theorem windows_uri_fits_relative f : win_relative f = true ->
  (f2u_extent false f <= win_uri_size false f)%nat.
Proof. intros H. pose proof (windows_uri_fits f) as B. rewrite (win_relative_not_abs f H) in B. exact B. Qed.

(* the filename buffer: len + 1 - 5 for the strings made from absolute names, len + 1 otherwise *)
Theorem unix_filename_fits f :
  (u2f_extent true (filename_to_uri_string true f)
   <= filename_size (unix_absolute f) (filename_to_uri_string true f))%nat.
Proof.
  destruct (unix_absolute f) eqn:Ea; [|apply filename_fits_always].
  destruct f as [|c r]; [discriminate|]. cbn [unix_absolute] in Ea. assert (c = 47) by lia. subst c.
  unfold filename_to_uri_string, fn_prefix, fn_absolute. cbn [nth]. change (47 =? 47) with true. cbv iota.
  cbn [f2u_loop]. change (47 =? 0) with false. change (is_sep true 47) with true. cbv iota. cbn [flush_seg app].
  change (s_file2 ++ 47 :: ?x) with (s_file3 ++ x).
  unfold u2f_extent, u2f_buffer, filename_size. rewrite skip_file3, network_file3.
  change (skipn 7 (s_file3 ++ ?x)) with (47 :: x). rewrite app_length. cbn [app length s_file3 s_file]. lia.
Qed.

Theorem windows_filename_fits f : win_absolute f = true \/ win_relative f = true -> all_1_255 f ->
  (u2f_extent false (filename_to_uri_string false f)
   <= filename_size (win_absolute f) (filename_to_uri_string false f))%nat.
Proof.
  intros Hcls Hall. destruct (win_absolute f) eqn:Ea; [|apply filename_fits_always].
  unfold win_absolute in Ea. apply orb_true_iff in Ea. destruct Ea as [Hd|Hu].
  - unfold win_drive_absolute in Hd. apply andb_prop in Hd. destruct Hd as [_ Hd].
    destruct f as [|d [|c rest]]; try discriminate.
    apply andb_prop in Hd. destruct Hd as [Hd _]. apply andb_prop in Hd. destruct Hd as [Hal Hc].
    destruct (alpha_facts d Hal) as (D0 & _ & _ & _ & D92 & _).
    unfold filename_to_uri_string, fn_prefix, fn_absolute, is_windows_network. cbn [nth].
    destruct (d =? 0) eqn:E0; [lia|]. destruct (d =? 92) eqn:E92; [lia|]. rewrite Hc. cbn [negb andb orb].
    unfold u2f_extent, u2f_buffer, filename_size. rewrite skip_file3, network_file3.
    change (skipn 8 (s_file3 ++ ?x)) with x. rewrite app_length. cbn [app length s_file3 s_file]. lia.
  - unfold win_unc in Hu. apply andb_prop in Hu. destruct Hu as [_ Hu].
    destruct f as [|a [|b [|s r]]]; try discriminate.
    apply andb_prop in Hu. destruct Hu as [Hu Hs]. apply andb_prop in Hu. destruct Hu as [Ha Hb].
    assert (a = 92) by lia. assert (b = 92) by lia. subst a b. apply negb_true_iff in Hs.
    inversion Hall as [|? ? _ H1]; subst. inversion H1 as [|? ? _ H2]; subst. inversion H2 as [|? ? Hs1 H3]; subst.
    unfold filename_to_uri_string, fn_prefix, fn_absolute, is_windows_network. cbn [nth].
    change (92 =? 92) with true. change (92 =? 0) with false. change (92 =? 58) with false. cbn [negb andb orb].
    cbn [f2u_loop]. change (92 =? 0) with false. change (is_sep false 92) with true. cbv iota.
    cbn [flush_seg app].
    destruct (s =? 0) eqn:E0; [lia|]. assert (is_sep false s = false) as Es by exact Hs. rewrite !Es. cbn [app].
    destruct (loop_head false true r s [] ltac:(lia)) as (h & t & Eh & Hh).
    change (s_file ++ 47 :: 47 :: ?x) with (s_file2 ++ x).
    assert (starts_with [47] (f2u_loop false true false [s] r) = false) as Hst.
    { rewrite Eh. cbn [starts_with]. rewrite andb_true_r. lia. }
    unfold u2f_extent, u2f_buffer, filename_size. rewrite skip_file2, network_file2 by assumption.
    cbn [negb]. change (skipn 7 (s_file2 ++ ?x)) with x. rewrite !app_length. cbn [length s_file2 s_file app]. lia.
Qed.

(* =========================================================================== *)
(* 8. short forms on input                                                        *)
(* =========================================================================== *)
(* file:/x is read like file:///x (Unix), file:c:/x like file:///c:/x (Windows) *)
Theorem unix_short_form p : starts_with [47] p = false ->
  uri_string_to_filename true (s_file1 ++ p) = uri_string_to_filename true (s_file3 ++ p).
Proof.
  intros H. unfold uri_string_to_filename, u2f_buffer. rewrite skip_file3, network_file3.
  assert (chars_to_skip true (s_file1 ++ p) = 5%nat) as ->.
  { unfold chars_to_skip. change (starts_with s_file (s_file1 ++ p)) with true.
    change (starts_with s_file1 (s_file1 ++ p)) with true.
    change (starts_with s_file2 (s_file1 ++ p)) with (starts_with [47] p). rewrite H. reflexivity. }
  reflexivity.
Qed.

Theorem windows_short_form p : starts_with [47] p = false ->
  uri_string_to_filename false (s_file ++ p) = uri_string_to_filename false (s_file3 ++ p).
Proof.
  intros H. unfold uri_string_to_filename, u2f_buffer. rewrite skip_file3, network_file3.
  assert (starts_with s_file1 (s_file ++ p) = false) as E1 by exact H.
  assert (starts_with s_file2 (s_file ++ p) = false) as E2.
  { destruct (starts_with s_file2 (s_file ++ p)) eqn:E; [|reflexivity].
    apply (starts_with_prefix s_file1 [47]) in E. congruence. }
  assert (chars_to_skip false (s_file ++ p) = 5%nat) as ->.
  { unfold chars_to_skip. change (starts_with s_file (s_file ++ p)) with true. rewrite E1, E2. reflexivity. }
  unfold is_network_with_authority. rewrite E2. reflexivity.
Qed.

(* the filename itself (with its terminator) lies within what was stored *)
Theorem filename_within_extent tu s : (length (uri_string_to_filename tu s) + 1 <= u2f_extent tu s)%nat.
Proof.
  unfold uri_string_to_filename, u2f_extent.
  pose proof (unescape_length false BrDontTouch (u2f_buffer tu s)) as U.
  pose proof (until_nul_length (unescape false BrDontTouch (u2f_buffer tu s))) as V.
  destruct tu; [|rewrite map_length]; lia.
Qed.

(* =========================================================================== *)
(* 9. the documented forms                                                        *)
(* =========================================================================== *)
Lemma has_prefix_starts p : forall s, has_prefix p s = starts_with p s.
Proof.
  unfold has_prefix. induction p as [|a p IH]; intros s; [reflexivity|].
  destruct s as [|b s]; [reflexivity|]. cbn [strip_prefix starts_with].
  destruct (a =? b); [apply IH|reflexivity].
Qed.

Theorem unix_form f : all_1_255 f -> uri_form true f (filename_to_uri_string true f) = true.
Proof.
  intros Hall. unfold uri_form. rewrite !has_prefix_starts.
  unfold filename_to_uri_string, fn_prefix. rewrite unix_absolute_model.
  destruct f as [|c r]; [reflexivity|]. cbn [unix_absolute].
  destruct (c =? 47) eqn:E.
  - assert (c = 47) by lia. subst c. cbn [f2u_loop]. change (47 =? 0) with false.
    change (is_sep true 47) with true. cbv iota. cbn [flush_seg app]. reflexivity.
  - cbn [app]. rewrite loop_first_irrelevant by reflexivity.
    change file_colon with s_file. rewrite no_colon_not_file; [reflexivity|apply loop_esc_or_slash].
Qed.

Lemma drive_not_unc f : win_drive_absolute f = true -> win_unc f = false.
Proof.
  unfold win_drive_absolute, win_unc. intros H. apply andb_prop in H. destruct H as [_ H].
  destruct f as [|d [|c r]]; try discriminate. apply andb_prop in H. destruct H as [H _].
  apply andb_prop in H. destruct H as [Hd _]. apply alpha_facts in Hd.
  destruct r; rewrite ?andb_false_r; [reflexivity|]. destruct (d =? 92) eqn:E; [lia|]. rewrite !andb_false_r. reflexivity.
Qed.

Lemma relative_not_absolute f : win_relative f = true -> win_drive_absolute f = false /\ win_unc f = false.
Proof.
  unfold win_relative, win_drive_absolute, win_unc. intros H. apply andb_prop in H. destruct H as [_ H].
  destruct f as [|a [|b r]]; rewrite ?andb_false_r; auto.
  apply andb_prop in H. destruct H as [Ha Hb]. apply negb_true_iff in Ha. apply negb_true_iff in Hb.
  rewrite Ha, Hb. rewrite !andb_false_r. cbn [andb]. destruct r; rewrite ?andb_false_r; auto.
Qed.

Theorem windows_form f : all_1_255 f -> win_absolute f = true \/ win_relative f = true ->
  uri_form false f (filename_to_uri_string false f) = true.
Proof.
  intros Hall Hcls. unfold uri_form. rewrite !has_prefix_starts.
  destruct Hcls as [Habs|Hrel].
  - unfold win_absolute in Habs. apply orb_true_iff in Habs. destruct Habs as [Hd|Hu].
    + rewrite Hd. unfold win_drive_absolute in Hd. apply andb_prop in Hd. destruct Hd as [_ Hd].
      destruct f as [|d [|c rest]]; try discriminate.
      apply andb_prop in Hd. destruct Hd as [Hd Hrest]. apply andb_prop in Hd. destruct Hd as [Hal Hc].
      assert (c = 58) by lia. subst c. destruct (alpha_facts d Hal) as (D0 & _ & _ & _ & D92 & _).
      assert (is_sep false d = false) as Es by (unfold is_sep; lia).
      unfold filename_to_uri_string, fn_prefix, fn_absolute, is_windows_network. cbn [nth].
      destruct (d =? 0) eqn:E0; [lia|]. destruct (d =? 92) eqn:E92; [lia|].
      change (58 =? 58) with true. cbn [negb andb orb].
      assert (exists y, f2u_loop false true true [] (d :: 58 :: rest) = d :: 58 :: y) as [y ->].
      { cbn [f2u_loop]. rewrite E0, !Es. change (58 =? 0) with false. change (is_sep false 58) with false. cbv iota. cbn [app].
        destruct rest as [|s r'].
        - eexists. cbn [f2u_loop flush_seg negb andb]. reflexivity.
        - assert (s = 92) by lia. subst s. cbn [f2u_loop]. change (92 =? 0) with false.
          change (is_sep false 92) with true. cbv iota. cbn [flush_seg negb andb app]. eexists. reflexivity. }
      cbn [firstn]. change (starts_with (file_colon ++ [47; 47; 47] ++ [d; 58]) (s_file3 ++ d :: 58 :: y))
        with ((d =? d) && ((58 =? 58) && true)). rewrite N.eqb_refl. reflexivity.
    + pose proof Hu as Hu'. unfold win_unc in Hu. apply andb_prop in Hu. destruct Hu as [_ Hu].
      destruct f as [|a [|b [|s r]]]; try discriminate.
      apply andb_prop in Hu. destruct Hu as [Hu Hs]. apply andb_prop in Hu. destruct Hu as [Ha Hb].
      assert (a = 92) by lia. assert (b = 92) by lia. subst a b. apply negb_true_iff in Hs.
      rewrite Hu'. replace (win_drive_absolute (92 :: 92 :: s :: r)) with false
        by (unfold win_drive_absolute; change (is_alpha 92) with false; rewrite andb_false_r; reflexivity).
      inversion Hall as [|? ? _ H1]; subst. inversion H1 as [|? ? _ H2]; subst. inversion H2 as [|? ? Hs1 H3]; subst.
      unfold filename_to_uri_string, fn_prefix, fn_absolute, is_windows_network. cbn [nth].
      change (92 =? 92) with true. change (92 =? 0) with false. change (92 =? 58) with false. cbn [negb andb orb].
      cbn [f2u_loop]. change (92 =? 0) with false. change (is_sep false 92) with true. cbv iota.
      cbn [flush_seg app].
      destruct (s =? 0) eqn:E0; [lia|]. assert (is_sep false s = false) as Es by exact Hs. rewrite !Es. cbn [app].
      destruct (loop_head false true r s [] ltac:(lia)) as (h & t & Eh & Hh).
      change (s_file ++ 47 :: 47 :: ?x) with (s_file2 ++ x).
      change (file_colon ++ [47; 47; 47]) with s_file3. change (file_colon ++ [47; 47]) with s_file2.
      rewrite starts3_file2. rewrite Eh. cbn [starts_with]. rewrite andb_true_r.
      change (starts_with s_file2 (s_file2 ++ h :: t)) with true. cbn [andb]. apply negb_true_iff. lia.
  - destruct (relative_not_absolute f Hrel) as [-> ->].
    unfold filename_to_uri_string, fn_prefix. rewrite (win_relative_not_abs f Hrel). cbn [app].
    rewrite loop_first_irrelevant by reflexivity.
    change file_colon with s_file. rewrite no_colon_not_file; [reflexivity|apply loop_esc_or_slash].
Qed.
