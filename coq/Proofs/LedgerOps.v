(* The allocation ledger, continued: the transformations of Model/OpsM.v (uriMakeOwnerMm,
   uriNormalizeSyntaxExMm, uriAddBaseUriExMm, uriRemoveBaseUriMm) with every error exit. *)
From Coq Require Import List NArith Bool Arith Lia Permutation.
From UP Require Import Base.Chars Model.Uri Model.Common Model.Compare
  Model.Resolve Model.Shorten Model.Normalize Model.Mem Model.ParseM Model.OpsM Proofs.LedgerProofs.
Import ListNotations.

(* ================================================================ the transformations (Model/OpsM.v) *)
Lemma bitb_lor d b c : bitb (N.lor d b) c = bitb d c || bitb b c.
Proof.
  unfold bitb. rewrite N.land_lor_distr_l.
  destruct (N.eqb_spec (N.land d c) 0) as [E1|E1], (N.eqb_spec (N.land b c) 0) as [E2|E2].
  - rewrite E1, E2. reflexivity.
  - cbn. destruct (N.eqb_spec (N.lor (N.land d c) (N.land b c)) 0) as [E|E]; [|reflexivity].
    apply N.lor_eq_0_iff in E. tauto.
  - cbn. destruct (N.eqb_spec (N.lor (N.land d c) (N.land b c)) 0) as [E|E]; [|reflexivity].
    apply N.lor_eq_0_iff in E. tauto.
  - cbn. destruct (N.eqb_spec (N.lor (N.land d c) (N.land b c)) 0) as [E|E]; [|reflexivity].
    apply N.lor_eq_0_iff in E. tauto.
Qed.
Lemma bitb_0 c : bitb 0 c = false.
Proof. reflexivity. Qed.

(* the other bits of the done-mask did not move *)
Definition others (b done done' : N) : Prop := forall c, bitb b c = false -> bitb done' c = bitb done c.
Lemma others_refl b d : others b d d.
Proof. intros c _. reflexivity. Qed.
Lemma others_lor b d : others b d (N.lor d b).
Proof. intros c H. rewrite bitb_lor, H. apply orb_false_r. Qed.

Lemma nonempty_fix_pct x : nonempty_t (fix_pct x) = nonempty_t x.
Proof.
  destruct x as [|c r]; [reflexivity|]. cbn [fix_pct nonempty_t]. destruct r as [|a [|b r2]]; try reflexivity.
  destruct (c =? 37)%N; [|reflexivity]. destruct (is_unreserved_code _); reflexivity.
Qed.
Lemma nonempty_lowercase x : nonempty_t (lowercase x) = nonempty_t x.
Proof. destruct x; reflexivity. Qed.
Lemma nonempty_lep x : nonempty_t (lowercase_except_pct x) = nonempty_t x.
Proof.
  destruct x as [|c r]; [reflexivity|]. cbn [lowercase_except_pct]. destruct (in_range 65 90 c); [reflexivity|].
  destruct (c =? 37)%N; [|reflexivity]. destruct r as [|a [|b r2]]; reflexivity.
Qed.

(* ---- segments *)
Lemma drop_seg_eq owned sg s : drop_seg owned sg s = free_seg owned sg s.
Proof. reflexivity. Qed.
Lemma free_seg_owned_eq sg s : free_seg_owned sg s = free_seg true sg s.
Proof. reflexivity. Qed.

Lemma blank_seg_rel owned sg s : wf s -> sfld owned sg -> (forall x, cnt (blk_list (sg_blk sg)) x <= L s x) ->
  rel s (snd (blank_seg owned sg s)) (blk_list (sg_blk sg)) /\ sfld owned (fst (blank_seg owned sg s))
  /\ seg_blocks [fst (blank_seg owned sg s)] = [sg_node sg].
Proof.
  intros W F H. unfold blank_seg, sfld in *. cbn [fst snd sg_text sg_blk sg_node].
  split; [|split; [rewrite andb_false_r; reflexivity|reflexivity]].
  destruct sg as [v b n]; cbn [sg_text sg_blk sg_node] in *.
  destruct owned; cbn [andb] in F.
  - destruct v as [|c r]; cbn [nonempty_t] in F.
    + destruct b; [discriminate|]. apply rel_refl; exact W.
    + destruct b as [b|]; [|discriminate]. apply rel_free; [exact W|].
      specialize (H b). cbn [blk_list] in H. rewrite cnt_self in H. exact H.
  - destruct b; [discriminate|]. apply rel_refl; exact W.
Qed.

Lemma sfld_false_blocks segs : Forall (sfld false) segs -> seg_blocks segs = map sg_node segs.
Proof.
  induction 1 as [|sg r H _ IH]; [reflexivity|]. rewrite seg_blocks_cons, IH. cbn [map].
  unfold sfld in H. cbn in H. destruct (sg_blk sg); [discriminate|]. reflexivity.
Qed.

Lemma free_seg_nodes_rel segs : forall s, wf s -> (forall x, cnt (map sg_node segs) x <= L s x) ->
  rel s (fold_left (fun st x => free_blk (sg_node x) st) segs s) (map sg_node segs).
Proof.
  intros s W H.
  assert (E : forall l st, fold_left (fun st x => free_blk (sg_node x) st) l st = fold_left (fun st n => free_blk n st) (map sg_node l) st).
  { induction l as [|a l IH]; intros st; [reflexivity|]. cbn [fold_left map]. apply IH. }
  rewrite E. apply free_nodes_rel; assumption.
Qed.

(* ---- field updates: what they do to the block list and to the consistency invariant *)
Ltac msimpl :=
  unfold set_m_scheme, set_m_userInfo, set_m_hostText, set_m_ip4, set_m_ip6, set_m_ipFuture, set_m_portText,
         set_m_segs, set_m_query, set_m_fragment, set_m_abs, set_m_owner in *;
  cbn [m_scheme m_userInfo m_hostText m_ip4 m_ip6 m_ipFuture m_portText m_segs m_query m_fragment m_abs m_owner] in *.
Ltac bl := intros; rewrite !muri_blocks_eq; msimpl; rewrite !cnt_app; lia.

Lemma bl_scheme t m x : cnt (muri_blocks (set_m_scheme t m)) x + cnt (blk_list (t_blk (m_scheme m))) x
                        = cnt (muri_blocks m) x + cnt (blk_list (t_blk t)) x.
Proof. bl. Qed.
Lemma bl_user t m x : cnt (muri_blocks (set_m_userInfo t m)) x + cnt (blk_list (t_blk (m_userInfo m))) x
                      = cnt (muri_blocks m) x + cnt (blk_list (t_blk t)) x.
Proof. bl. Qed.
Lemma bl_host t m x : cnt (muri_blocks (set_m_hostText t m)) x + cnt (blk_list (t_blk (m_hostText m))) x
                      = cnt (muri_blocks m) x + cnt (blk_list (t_blk t)) x.
Proof. bl. Qed.
Lemma bl_fut t m x : cnt (muri_blocks (set_m_ipFuture t m)) x + cnt (blk_list (t_blk (m_ipFuture m))) x
                     = cnt (muri_blocks m) x + cnt (blk_list (t_blk t)) x.
Proof. bl. Qed.
Lemma bl_port t m x : cnt (muri_blocks (set_m_portText t m)) x + cnt (blk_list (t_blk (m_portText m))) x
                      = cnt (muri_blocks m) x + cnt (blk_list (t_blk t)) x.
Proof. bl. Qed.
Lemma bl_query t m x : cnt (muri_blocks (set_m_query t m)) x + cnt (blk_list (t_blk (m_query m))) x
                       = cnt (muri_blocks m) x + cnt (blk_list (t_blk t)) x.
Proof. bl. Qed.
Lemma bl_frag t m x : cnt (muri_blocks (set_m_fragment t m)) x + cnt (blk_list (t_blk (m_fragment m))) x
                      = cnt (muri_blocks m) x + cnt (blk_list (t_blk t)) x.
Proof. bl. Qed.
Lemma bl_segs l m x : cnt (muri_blocks (set_m_segs l m)) x + cnt (seg_blocks (m_segs m)) x
                      = cnt (muri_blocks m) x + cnt (seg_blocks l) x.
Proof. bl. Qed.
Lemma bl_ip4 v m x : cnt (muri_blocks (set_m_ip4 v m)) x + cnt (ip_blk (m_ip4 m)) x
                     = cnt (muri_blocks m) x + cnt (ip_blk v) x.
Proof. bl. Qed.
Lemma bl_ip6 v m x : cnt (muri_blocks (set_m_ip6 v m)) x + cnt (ip_blk (m_ip6 m)) x
                     = cnt (muri_blocks m) x + cnt (ip_blk v) x.
Proof. bl. Qed.
Lemma bl_abs v m : muri_blocks (set_m_abs v m) = muri_blocks m.
Proof. reflexivity. Qed.
Lemma bl_owner v m : muri_blocks (set_m_owner v m) = muri_blocks m.
Proof. reflexivity. Qed.

Lemma inv_set_scheme o d d' m t : inv o d m -> others B_SCHEME d d' -> fld (o || bitb d' B_SCHEME) t ->
  (o = false -> bitb d' B_SCHEME = true -> nonempty (t_val t) = true) -> inv o d' (set_m_scheme t m).
Proof.
  intros [c1 c2 c3 c4 c5 c6 c7 c8] Ho F Ne. split; msimpl; auto;
  rewrite ?(Ho B_USER eq_refl), ?(Ho B_HOST eq_refl), ?(Ho B_PATH eq_refl), ?(Ho B_QUERY eq_refl), ?(Ho B_FRAG eq_refl); auto.
Qed.
Lemma inv_set_user o d d' m t : inv o d m -> others B_USER d d' -> fld (o || bitb d' B_USER) t -> inv o d' (set_m_userInfo t m).
Proof.
  intros [c1 c2 c3 c4 c5 c6 c7 c8] Ho F. split; msimpl; auto;
  rewrite ?(Ho B_SCHEME eq_refl), ?(Ho B_HOST eq_refl), ?(Ho B_PATH eq_refl), ?(Ho B_QUERY eq_refl), ?(Ho B_FRAG eq_refl); auto.
Qed.
Lemma inv_set_query o d d' m t : inv o d m -> others B_QUERY d d' -> fld (o || bitb d' B_QUERY) t -> inv o d' (set_m_query t m).
Proof.
  intros [c1 c2 c3 c4 c5 c6 c7 c8] Ho F. split; msimpl; auto;
  rewrite ?(Ho B_SCHEME eq_refl), ?(Ho B_HOST eq_refl), ?(Ho B_PATH eq_refl), ?(Ho B_USER eq_refl), ?(Ho B_FRAG eq_refl); auto.
Qed.
Lemma inv_set_frag o d d' m t : inv o d m -> others B_FRAG d d' -> fld (o || bitb d' B_FRAG) t -> inv o d' (set_m_fragment t m).
Proof.
  intros [c1 c2 c3 c4 c5 c6 c7 c8] Ho F. split; msimpl; auto;
  rewrite ?(Ho B_SCHEME eq_refl), ?(Ho B_HOST eq_refl), ?(Ho B_PATH eq_refl), ?(Ho B_USER eq_refl), ?(Ho B_QUERY eq_refl); auto.
Qed.
Lemma inv_set_segs o d d' m l : inv o d m -> others B_PATH d d' -> Forall (sfld (o || bitb d' B_PATH)) l -> inv o d' (set_m_segs l m).
Proof.
  intros [c1 c2 c3 c4 c5 c6 c7 c8] Ho F. split; msimpl; auto;
  rewrite ?(Ho B_SCHEME eq_refl), ?(Ho B_HOST eq_refl), ?(Ho B_FRAG eq_refl), ?(Ho B_USER eq_refl), ?(Ho B_QUERY eq_refl); auto.
Qed.
Lemma inv_set_port o d m t : inv o d m -> fld o t -> inv o d (set_m_portText t m).
Proof. intros [c1 c2 c3 c4 c5 c6 c7 c8] F. split; msimpl; auto. Qed.
Lemma inv_set_host_reg o d d' m t : inv o d m -> others B_HOST d d' -> t_val (m_ipFuture m) = None ->
  fld (o || bitb d' B_HOST) t -> inv o d' (set_m_hostText t m).
Proof.
  intros [c1 c2 c3 c4 c5 c6 c7 c8] Ho Hn F. split; msimpl; auto;
  rewrite ?(Ho B_SCHEME eq_refl), ?(Ho B_PATH eq_refl), ?(Ho B_FRAG eq_refl), ?(Ho B_USER eq_refl), ?(Ho B_QUERY eq_refl); auto.
  rewrite Hn in *. split; [apply c4|exact F].
Qed.
Lemma inv_set_host_fut o d d' m t : inv o d m -> others B_HOST d d' -> is_some (t_val t) = true ->
  fld (o || bitb d' B_HOST) t -> (o = false -> bitb d' B_HOST = true -> nonempty (t_val t) = true) ->
  inv o d' (set_m_hostText {| t_val := t_val t; t_blk := None |} (set_m_ipFuture t m)).
Proof.
  intros [c1 c2 c3 c4 c5 c6 c7 c8] Ho Hs F Ne. split; msimpl; auto;
  rewrite ?(Ho B_SCHEME eq_refl), ?(Ho B_PATH eq_refl), ?(Ho B_FRAG eq_refl), ?(Ho B_USER eq_refl), ?(Ho B_QUERY eq_refl); auto.
  destruct (t_val t); [|discriminate]. cbn [t_blk]. auto.
Qed.

Ltac cn := repeat (progress (rewrite ?cnt_app, ?cnt_nil, ?cnt_rev, ?cnt_seg_blocks_rev, ?seg_blocks_cons, ?seg_blocks_app in *; cnt_norm)).
Ltac pwc := let x := fresh "x" in intros x; pw x; cn; lia.

Section WithCsize.
Variable csize : N.

(* the ledger of s' is that of s plus A minus R *)
Definition moved (s s' : mstate) (A R : list nat) : Prop := forall x, L s' x + cnt R x = cnt A x + L s x.

Lemma dup_text_spec t s : wf s -> fld false t ->
  match dup_text csize t s with
  | (Some t', s') => wf s' /\ ext s s' /\ fld true t' /\ t_val t' = t_val t /\ moved s s' (blk_list (t_blk t')) []
  | (None, s') => wf s' /\ ext s s' /\ moved s s' [] [] /\ fails_between s s'
  end.
Proof.
  intros W F. unfold dup_text, fld, moved in *. cbn [andb] in F.
  destruct t as [[[|c r]|] b]; cbn [t_val t_blk] in *.
  - destruct b; [discriminate|]. split; [exact W|]. split; [apply ext_refl|]. repeat split. intros x. cbn. lia.
  - destruct (alloc false (tlen (c :: r) * csize) s) as [[id|] s'] eqn:EA.
    + destruct (alloc_some _ _ _ _ _ W EA) as (W' & E' & HL & _).
      split; [exact W'|]. split; [exact E'|]. repeat split. cbn [t_blk blk_list]. pwl.
    + destruct (alloc_none _ _ _ _ W EA) as (W' & E' & HL & _).
      split; [exact W'|]. split; [exact E'|]. split; [pwl|]. eapply alloc_none_fails; eauto.
  - destruct b; [discriminate|]. split; [exact W|]. split; [apply ext_refl|]. repeat split. intros x. cbn. lia.
Qed.

Lemma fld_empty own own' t : nonempty (t_val t) = false -> fld own t -> fld own' t.
Proof. unfold fld. intros ->. rewrite !andb_false_r. auto. Qed.

Lemma range_owner_spec done bitv t s : wf s -> bitb bitv bitv = true -> fld (bitb done bitv) t ->
  (bitb done bitv = true -> nonempty (t_val t) = true) ->
  match range_owner csize done bitv t s with
  | (Some (t', done'), s') =>
      wf s' /\ ext s s' /\ fld true t' /\ fld (bitb done' bitv) t' /\ (bitb done' bitv = true -> nonempty (t_val t') = true)
      /\ t_val t' = t_val t /\ others bitv done done' /\ moved s s' (blk_list (t_blk t')) (blk_list (t_blk t))
  | (None, s') => wf s' /\ ext s s' /\ moved s s' [] [] /\ fails_between s s'
  end.
Proof.
  intros W Hb F Ne. unfold range_owner. change (negb (N.land done bitv =? 0)%N) with (bitb done bitv).
  destruct (bitb done bitv) eqn:EB.
  - split; [exact W|]. split; [apply ext_refl|]. split; [exact F|]. rewrite EB. split; [exact F|]. split; [exact Ne|].
    split; [reflexivity|]. split; [apply others_refl|]. intros x. lia.
  - assert (Emp : nonempty (t_val t) = false -> wf s /\ ext s s /\ fld true t /\ fld (bitb done bitv) t /\
                  (bitb done bitv = true -> nonempty (t_val t) = true) /\ t_val t = t_val t /\ others bitv done done
                  /\ moved s s (blk_list (t_blk t)) (blk_list (t_blk t))).
    { intros Hn. split; [exact W|]. split; [apply ext_refl|]. split; [eapply fld_empty; eauto|].
      rewrite EB. split; [exact F|]. split; [discriminate|]. split; [reflexivity|]. split; [apply others_refl|]. intros x. lia. }
    pose proof (dup_text_spec t s W F) as D.
    destruct t as [v b]. cbn [t_val t_blk] in *.
    destruct v as [[|c r]|]; try (apply Emp; reflexivity).
    revert D. match goal with |- context [dup_text csize ?tt s] => destruct (dup_text csize tt s) as [[t'|] s'] end; intros D.
    + destruct D as (W' & E' & F' & V' & M'). split; [exact W'|]. split; [exact E'|]. split; [exact F'|].
      rewrite bitb_lor, Hb, orb_true_r. split; [exact F'|]. split; [intros _; rewrite V'; reflexivity|].
      split; [exact V'|]. split; [apply others_lor|].
      unfold fld in F. cbn [andb t_blk] in F. destruct b; [discriminate|]. exact M'.
    + exact D.
Qed.

(* the path loop of uriMakeOwnerEngine *)
Lemma own_segs_spec rest : forall acc s F, wf s -> Forall (sfld true) acc -> Forall (sfld false) rest ->
  over s (seg_blocks acc ++ seg_blocks rest) F ->
  match own_segs csize acc rest s with
  | (Some segs, s') => wf s' /\ ext s s' /\ Forall (sfld true) segs /\ over s' (seg_blocks segs) F
  | (None, s') => wf s' /\ ext s s' /\ over s' [] F /\ fails_between s s'
  end.
Proof.
  induction rest as [|sg r IH]; intros acc s F W Fa Fr O; cbn [own_segs].
  - split; [exact W|]. split; [apply ext_refl|]. split; [apply Forall_rev; exact Fa|].
    intros x. rewrite cnt_seg_blocks_rev. specialize (O x). rewrite cnt_app, cnt_nil in O. lia.
  - inversion Fr as [|? ? Fr1 Fr2]; subst.
    assert (Hb : sg_blk sg = None) by (unfold sfld in Fr1; cbn in Fr1; destruct (sg_blk sg); [discriminate|reflexivity]).
    unfold over in O. rewrite seg_blocks_cons, Hb in O. cbn [blk_list app] in O.
    destruct (sg_text sg) as [|c t] eqn:ET.
    + apply IH; auto.
      * constructor; [|exact Fa]. unfold sfld. rewrite ET, Hb. reflexivity.
      * intros x. rewrite seg_blocks_cons, Hb. cbn [blk_list app]. specialize (O x). cn. lia.
    + destruct (alloc false (tlen (c :: t) * csize) s) as [[id|] s'] eqn:EA.
      * destruct (alloc_some _ _ _ _ _ W EA) as (W' & E' & HL & _).
        specialize (IH ({| sg_text := c :: t; sg_blk := Some id; sg_node := sg_node sg |} :: acc) s' F W').
        assert (Pre : over s' (seg_blocks ({| sg_text := c :: t; sg_blk := Some id; sg_node := sg_node sg |} :: acc) ++ seg_blocks r) F).
        { intros x. rewrite seg_blocks_cons. cbn [sg_node sg_blk blk_list app]. specialize (O x). specialize (HL x). cn. lia. }
        specialize (IH (Forall_cons _ (eq_refl : sfld true {| sg_text := c :: t; sg_blk := Some id; sg_node := sg_node sg |}) Fa) Fr2 Pre).
        destruct (own_segs csize _ r s') as [[segs|] s2].
        -- destruct IH as (a & b & IH). split; [exact a|]. split; [eapply ext_trans; eauto|]. exact IH.
        -- destruct IH as (a & b & c' & Fl). split; [exact a|]. split; [eapply ext_trans; eauto|]. split; [exact c'|].
           eapply fails_right; eauto.
      * destruct (alloc_none _ _ _ _ W EA) as (W' & E' & HL & _).
        assert (R1 : rel s' (fold_left (fun st x => free_seg_owned x st) (rev acc) s') (seg_blocks (rev acc))).
        { apply (free_segs_rel true); [exact W'|apply Forall_rev; exact Fa|].
          intros x. rewrite cnt_seg_blocks_rev. specialize (O x). specialize (HL x). rewrite !cnt_app in O. lia. }
        set (s1 := fold_left (fun st x => free_seg_owned x st) (rev acc) s') in *.
        assert (Hn : seg_blocks (sg :: r) = map sg_node (sg :: r)) by (apply sfld_false_blocks; exact Fr).
        assert (R2 : rel s1 (fold_left (fun st x => free_blk (sg_node x) st) (sg :: r) s1) (map sg_node (sg :: r))).
        { drel R1 W1 E1 Q1 N1 H1. apply free_seg_nodes_rel; [exact W1|]. rewrite <- Hn. rewrite seg_blocks_cons, Hb. cbn [blk_list app].
          intros x. specialize (O x). specialize (HL x). specialize (H1 x). rewrite cnt_seg_blocks_rev in H1. rewrite !cnt_app in O. lia. }
        pose proof (rel_trans _ _ _ _ _ R1 R2) as R. rewrite <- Hn in R. rewrite seg_blocks_cons, Hb in R. cbn [blk_list app] in R.
        drel R W3 E3 Q3 N3 H3. split; [exact W3|]. split; [eapply ext_trans; eauto|]. split.
        -- intros x. specialize (O x). specialize (HL x). specialize (H3 x). rewrite !cnt_app, cnt_seg_blocks_rev in *. rewrite cnt_nil. lia.
        -- apply (fails_left s s' _ E' E3). eapply alloc_none_fails; eauto.
Qed.

(* ---------------------------------------------------------------- uriPreventLeakage *)
Lemma free_nonempty_eq t s : free_nonempty t s = free_text true t s.
Proof. reflexivity. Qed.

(* the object m in state s, reached from m0 in s0 by allocating and releasing blocks of the object only *)
Definition acct (m0 : muri) (s0 : mstate) (m : muri) (s : mstate) : Prop :=
  forall x, L s x + cnt (muri_blocks m0) x = cnt (muri_blocks m) x + L s0 x.

Definition good (bs bu bh bp bq bf : bool) (m0 : muri) (s0 : mstate) (ms : muri * mstate) : Prop :=
  wf (snd ms) /\ ext s0 (snd ms) /\ ms_requests (snd ms) = ms_requests s0
  /\ inv6 false bs bu bh bp bq bf (fst ms) /\ acct m0 s0 (fst ms) (snd ms).

Definition pl_scheme (b : bool) (ms : muri * mstate) : muri * mstate :=
  let (m, s) := ms in
  if b then (set_m_scheme mt_none m, match t_blk (m_scheme m) with Some b => free_blk b s | None => bad_free s end) else (m, s).
Definition pl_user (b : bool) (ms : muri * mstate) : muri * mstate :=
  let (m, s) := ms in if b then (set_m_userInfo mt_none m, free_nonempty (m_userInfo m) s) else (m, s).
Definition pl_host (b : bool) (ms : muri * mstate) : muri * mstate :=
  let (m, s) := ms in
  if b then
    match t_val (m_ipFuture m) with
    | Some _ => (set_m_hostText mt_none (set_m_ipFuture mt_none m),
                 match t_blk (m_ipFuture m) with Some b => free_blk b s | None => bad_free s end)
    | None => match t_val (m_hostText m) with
              | Some _ => (set_m_hostText mt_none m, free_nonempty (m_hostText m) s)
              | None => (m, s)
              end
    end
  else (m, s).
Definition pl_path (b : bool) (ms : muri * mstate) : muri * mstate :=
  let (m, s) := ms in
  if b then (set_m_segs [] m, fold_left (fun st sg => free_seg_owned sg st) (m_segs m) s) else (m, s).
Definition pl_query (b : bool) (ms : muri * mstate) : muri * mstate :=
  let (m, s) := ms in if b then (set_m_query mt_none m, free_nonempty (m_query m) s) else (m, s).
Definition pl_frag (b : bool) (ms : muri * mstate) : muri * mstate :=
  let (m, s) := ms in if b then (set_m_fragment mt_none m, free_nonempty (m_fragment m) s) else (m, s).

Lemma prevent_leakage_stages m revert s :
  prevent_leakage m revert s =
  pl_frag (bitb revert B_FRAG) (pl_query (bitb revert B_QUERY) (pl_path (bitb revert B_PATH)
    (pl_host (bitb revert B_HOST) (pl_user (bitb revert B_USER) (pl_scheme (bitb revert B_SCHEME) (m, s)))))).
Proof.
  unfold prevent_leakage.
  change (negb (N.land revert B_SCHEME =? 0)%N) with (bitb revert B_SCHEME).
  change (negb (N.land revert B_USER =? 0)%N) with (bitb revert B_USER).
  change (negb (N.land revert B_HOST =? 0)%N) with (bitb revert B_HOST).
  change (negb (N.land revert B_PATH =? 0)%N) with (bitb revert B_PATH).
  change (negb (N.land revert B_QUERY =? 0)%N) with (bitb revert B_QUERY).
  change (negb (N.land revert B_FRAG =? 0)%N) with (bitb revert B_FRAG).
  unfold pl_scheme at 1. destruct (if bitb revert B_SCHEME then _ else _) as [m1 s1].
  unfold pl_user at 1. destruct (if bitb revert B_USER then _ else _) as [m2 s2].
  unfold pl_host at 1. destruct (if bitb revert B_HOST then _ else _) as [m3 s3].
  unfold pl_path at 1. destruct (if bitb revert B_PATH then _ else _) as [m4 s4].
  unfold pl_query at 1. destruct (if bitb revert B_QUERY then _ else _) as [m5 s5].
  reflexivity.
Qed.

Lemma acct_holds m0 s0 m s : holds m0 s0 -> acct m0 s0 m s -> holds m s.
Proof. unfold holds, acct. intros H A. pwl. Qed.

Lemma good_step bs bu bh bp bq bf bs' bu' bh' bp' bq' bf' m0 s0 m s m' s' R :
  good bs bu bh bp bq bf m0 s0 (m, s) -> rel s s' R ->
  (forall x, cnt (muri_blocks m') x + cnt R x = cnt (muri_blocks m) x) ->
  inv6 false bs' bu' bh' bp' bq' bf' m' -> good bs' bu' bh' bp' bq' bf' m0 s0 (m', s').
Proof.
  unfold good. cbn [fst snd]. intros (W & E & Q & I & A) Rl HB I'. drel Rl W1 E1 Q1 N1 H1.
  split; [exact W1|]. split; [eapply ext_trans; eauto|]. split; [congruence|]. split; [exact I'|].
  unfold acct in *. pwl.
Qed.

Lemma fld_true_blk t (x : nat) : fld true t -> nonempty (t_val t) = true -> exists b, t_blk t = Some b.
Proof. unfold fld. intros F N. rewrite N in F. destruct (t_blk t) as [b|]; [eauto|discriminate]. Qed.

Lemma in_blocks_live m s b : holds m s -> 1 <= cnt (muri_blocks m) b -> 1 <= L s b.
Proof. intros H. specialize (H b). lia. Qed.

Lemma pl_scheme_good bs bu bh bp bq bf m0 s0 ms : holds m0 s0 ->
  good bs bu bh bp bq bf m0 s0 ms -> good false bu bh bp bq bf m0 s0 (pl_scheme bs ms).
Proof.
  intros Hh G. destruct ms as [m s]. unfold pl_scheme. destruct bs; [|exact G].
  pose proof G as (W & E & Q & I & A). cbn [fst snd] in *. pose proof (acct_holds _ _ _ _ Hh A) as Hm.
  destruct I as [c1 c2 c3 c4 c5 c6 c7 c8]. cbn [orb] in c1.
  destruct (fld_true_blk _ 0 c1 (c2 eq_refl eq_refl)) as [b Eb]. rewrite Eb.
  eapply good_step; [exact G|apply rel_free; [exact W|]| |].
  - apply (in_blocks_live _ _ _ Hm). rewrite muri_blocks_eq, Eb. cbn [blk_list]. cn. rewrite ?cnt_self. lia.
  - intros x. pose proof (bl_scheme mt_none m x) as B. rewrite Eb in B. cbn [mt_none t_blk blk_list] in B. rewrite cnt_nil in B. lia.
  - split; msimpl; auto; try reflexivity.
Qed.

Lemma free_text_rel' t s m : wf s -> fld true t -> holds m s -> (forall x, cnt (blk_list (t_blk t)) x <= cnt (muri_blocks m) x) ->
  rel s (free_nonempty t s) (blk_list (t_blk t)).
Proof.
  intros W F H Hs. rewrite free_nonempty_eq. apply free_text_rel; [exact W|exact F|]. unfold holds in H. pwl.
Qed.

Lemma pl_user_good bs bu bh bp bq bf m0 s0 ms : holds m0 s0 ->
  good bs bu bh bp bq bf m0 s0 ms -> good bs false bh bp bq bf m0 s0 (pl_user bu ms).
Proof.
  intros Hh G. destruct ms as [m s]. unfold pl_user. destruct bu; [|exact G].
  pose proof G as (W & E & Q & I & A). cbn [fst snd] in *. pose proof (acct_holds _ _ _ _ Hh A) as Hm.
  destruct I as [c1 c2 c3 c4 c5 c6 c7 c8]. cbn [orb] in c3.
  eapply good_step; [exact G|apply (free_text_rel' _ _ m); [exact W|exact c3|exact Hm|]| |].
  - intros x. rewrite muri_blocks_eq. cn. lia.
  - intros x. pose proof (bl_user mt_none m x) as B. cbn [mt_none t_blk blk_list] in B. rewrite cnt_nil in B. lia.
  - split; msimpl; auto; try reflexivity.
Qed.
Lemma pl_query_good bs bu bh bp bq bf m0 s0 ms : holds m0 s0 ->
  good bs bu bh bp bq bf m0 s0 ms -> good bs bu bh bp false bf m0 s0 (pl_query bq ms).
Proof.
  intros Hh G. destruct ms as [m s]. unfold pl_query. destruct bq; [|exact G].
  pose proof G as (W & E & Q & I & A). cbn [fst snd] in *. pose proof (acct_holds _ _ _ _ Hh A) as Hm.
  destruct I as [c1 c2 c3 c4 c5 c6 c7 c8]. cbn [orb] in c7.
  eapply good_step; [exact G|apply (free_text_rel' _ _ m); [exact W|exact c7|exact Hm|]| |].
  - intros x. rewrite muri_blocks_eq. cn. lia.
  - intros x. pose proof (bl_query mt_none m x) as B. cbn [mt_none t_blk blk_list] in B. rewrite cnt_nil in B. lia.
  - split; msimpl; auto; try reflexivity.
Qed.
Lemma pl_frag_good bs bu bh bp bq bf m0 s0 ms : holds m0 s0 ->
  good bs bu bh bp bq bf m0 s0 ms -> good bs bu bh bp bq false m0 s0 (pl_frag bf ms).
Proof.
  intros Hh G. destruct ms as [m s]. unfold pl_frag. destruct bf; [|exact G].
  pose proof G as (W & E & Q & I & A). cbn [fst snd] in *. pose proof (acct_holds _ _ _ _ Hh A) as Hm.
  destruct I as [c1 c2 c3 c4 c5 c6 c7 c8]. cbn [orb] in c8.
  eapply good_step; [exact G|apply (free_text_rel' _ _ m); [exact W|exact c8|exact Hm|]| |].
  - intros x. rewrite muri_blocks_eq. cn. lia.
  - intros x. pose proof (bl_frag mt_none m x) as B. cbn [mt_none t_blk blk_list] in B. rewrite cnt_nil in B. lia.
  - split; msimpl; auto; try reflexivity.
Qed.
Lemma pl_path_good bs bu bh bp bq bf m0 s0 ms : holds m0 s0 ->
  good bs bu bh bp bq bf m0 s0 ms -> good bs bu bh false bq bf m0 s0 (pl_path bp ms).
Proof.
  intros Hh G. destruct ms as [m s]. unfold pl_path. destruct bp; [|exact G].
  pose proof G as (W & E & Q & I & A). cbn [fst snd] in *. pose proof (acct_holds _ _ _ _ Hh A) as Hm.
  destruct I as [c1 c2 c3 c4 c5 c6 c7 c8]. cbn [orb] in c6.
  eapply good_step; [exact G|apply (free_segs_rel true); [exact W|exact c6|]| |].
  - unfold holds in Hm. rewrite muri_blocks_eq in Hm. pwc.
  - intros x. pose proof (bl_segs [] m x) as B. cbn [seg_blocks flat_map] in B. rewrite cnt_nil in B. lia.
  - split; msimpl; auto; try reflexivity.
Qed.
Lemma pl_host_good bs bu bh bp bq bf m0 s0 ms : holds m0 s0 ->
  good bs bu bh bp bq bf m0 s0 ms -> good bs bu false bp bq bf m0 s0 (pl_host bh ms).
Proof.
  intros Hh G. destruct ms as [m s]. unfold pl_host. destruct bh; [|exact G].
  pose proof G as (W & E & Q & I & A). cbn [fst snd] in *. pose proof (acct_holds _ _ _ _ Hh A) as Hm.
  destruct I as [c1 c2 c3 c4 c5 c6 c7 c8]. cbn [orb] in c4.
  destruct (t_val (m_ipFuture m)) eqn:EF.
  - destruct c4 as (Hn & Ff & Ne). rewrite <- EF in Ne. destruct (fld_true_blk _ 0 Ff (Ne eq_refl eq_refl)) as [b Eb]. rewrite Eb.
    eapply good_step; [exact G|apply rel_free; [exact W|]| |].
    + apply (in_blocks_live _ _ _ Hm). rewrite muri_blocks_eq, Eb. cbn [blk_list]. cn. rewrite ?cnt_self. lia.
    + intros x. pose proof (bl_host mt_none (set_m_ipFuture mt_none m) x) as B1. pose proof (bl_fut mt_none m x) as B2.
      msimpl. rewrite Hn, Eb in *. cbn [mt_none t_blk blk_list] in *. rewrite ?cnt_nil in *. lia.
    + split; msimpl; auto; try reflexivity. cbn. split; reflexivity.
  - destruct c4 as (Hn & Fh). destruct (t_val (m_hostText m)) eqn:EH.
    + eapply good_step; [exact G|apply (free_text_rel' _ _ m); [exact W|exact Fh|exact Hm|]| |].
      * intros x. rewrite muri_blocks_eq. cn. lia.
      * intros x. pose proof (bl_host mt_none m x) as B. cbn [mt_none t_blk blk_list] in B. rewrite cnt_nil in B. lia.
      * split; msimpl; auto; try reflexivity. rewrite EF. split; [exact Hn|reflexivity].
    + destruct G as (a & b & c & d & e). split; [exact a|]. split; [exact b|]. split; [exact c|]. split; [|exact e].
      cbn [fst] in *. destruct d as [d1 d2 d3 d4 d5 d6 d7 d8]. split; auto. rewrite EF in *. split; [exact Hn|].
      eapply fld_empty; [|exact Fh]. rewrite EH. reflexivity.
Qed.

Theorem prevent_leakage_spec m done s : wf s -> inv false done m -> holds m s ->
  let ms := prevent_leakage m done s in
  wf (snd ms) /\ ext s (snd ms) /\ ms_requests (snd ms) = ms_requests s /\ inv false 0 (fst ms) /\ acct m s (fst ms) (snd ms).
Proof.
  intros W I H. cbv zeta. rewrite prevent_leakage_stages.
  assert (G0 : good (bitb done B_SCHEME) (bitb done B_USER) (bitb done B_HOST) (bitb done B_PATH) (bitb done B_QUERY) (bitb done B_FRAG) m s (m, s)).
  { split; [exact W|]. split; [apply ext_refl|]. split; [reflexivity|]. split; [exact I|]. intros x. cbn [fst snd]. lia. }
  apply (pl_scheme_good _ _ _ _ _ _ _ _ _ H) in G0. apply (pl_user_good _ _ _ _ _ _ _ _ _ H) in G0.
  apply (pl_host_good _ _ _ _ _ _ _ _ _ H) in G0. apply (pl_path_good _ _ _ _ _ _ _ _ _ H) in G0.
  apply (pl_query_good _ _ _ _ _ _ _ _ _ H) in G0. apply (pl_frag_good _ _ _ _ _ _ _ _ _ H) in G0.
  exact G0.
Qed.
