(* The allocation ledger, continued: the transformations of Model/OpsM.v (uriMakeOwnerMm,
   uriNormalizeSyntaxExMm, uriAddBaseUriExMm, uriRemoveBaseUriMm) with every error exit. *)
From Coq Require Import List NArith Bool Arith Lia Permutation.
From UP Require Import Base.Chars Model.Uri Model.Common Model.Compare
  Model.Resolve Model.Shorten Model.Normalize Model.Mem Model.ParseM Model.OpsM Proofs.LedgerProofs.
Import ListNotations.

(* ================================================================ the transformations (Model/OpsM.v) *)
Lemma bitb_lor d b c : bitb (N.lor d b) c = bitb d c || bitb b c.
Proof.
  unfold bitb. rewrite N.land_lor_distr_l.
  destruct (N.eqb_spec (N.land d c) 0) as [E1|E1], (N.eqb_spec (N.land b c) 0) as [E2|E2].
  - rewrite E1, E2. reflexivity.
  - cbn. destruct (N.eqb_spec (N.lor (N.land d c) (N.land b c)) 0) as [E|E]; [|reflexivity].
    apply N.lor_eq_0_iff in E. tauto.
  - cbn. destruct (N.eqb_spec (N.lor (N.land d c) (N.land b c)) 0) as [E|E]; [|reflexivity].
    apply N.lor_eq_0_iff in E. tauto.
  - cbn. destruct (N.eqb_spec (N.lor (N.land d c) (N.land b c)) 0) as [E|E]; [|reflexivity].
    apply N.lor_eq_0_iff in E. tauto.
Qed.
Lemma bitb_0 c : bitb 0 c = false.
Proof. reflexivity. Qed.

(* the other bits of the done-mask did not move *)
Definition others (b done done' : N) : Prop := forall c, bitb b c = false -> bitb done' c = bitb done c.
Lemma others_refl b d : others b d d.
Proof. intros c _. reflexivity. Qed.
Lemma others_lor b d : others b d (N.lor d b).
Proof. intros c H. rewrite bitb_lor, H. apply orb_false_r. Qed.

Lemma nonempty_fix_pct x : nonempty_t (fix_pct x) = nonempty_t x.
Proof.
  destruct x as [|c r]; [reflexivity|]. cbn [fix_pct nonempty_t]. destruct r as [|a [|b r2]]; try reflexivity.
  destruct (c =? 37)%N; [|reflexivity]. destruct (is_unreserved_code _); reflexivity.
Qed.
Lemma nonempty_lowercase x : nonempty_t (lowercase x) = nonempty_t x.
Proof. destruct x; reflexivity. Qed.
Lemma nonempty_lep x : nonempty_t (lowercase_except_pct x) = nonempty_t x.
Proof.
  destruct x as [|c r]; [reflexivity|]. cbn [lowercase_except_pct]. destruct (in_range 65 90 c); [reflexivity|].
  destruct (c =? 37)%N; [|reflexivity]. destruct r as [|a [|b r2]]; reflexivity.
Qed.

(* ---- segments *)
Lemma drop_seg_eq owned sg s : drop_seg owned sg s = free_seg owned sg s.
Proof. reflexivity. Qed.
Lemma free_seg_owned_eq sg s : free_seg_owned sg s = free_seg true sg s.
Proof. reflexivity. Qed.

Lemma blank_seg_rel owned sg s : wf s -> sfld owned sg -> (forall x, cnt (blk_list (sg_blk sg)) x <= L s x) ->
  rel s (snd (blank_seg owned sg s)) (blk_list (sg_blk sg)) /\ sfld owned (fst (blank_seg owned sg s))
  /\ seg_blocks [fst (blank_seg owned sg s)] = [sg_node sg].
Proof.
  intros W F H. unfold blank_seg, sfld in *. cbn [fst snd sg_text sg_blk sg_node].
  split; [|split; [rewrite andb_false_r; reflexivity|reflexivity]].
  destruct sg as [v b n]; cbn [sg_text sg_blk sg_node] in *.
  destruct owned; cbn [andb] in F.
  - destruct v as [|c r]; cbn [nonempty_t] in F.
    + destruct b; [discriminate|]. apply rel_refl; exact W.
    + destruct b as [b|]; [|discriminate]. apply rel_free; [exact W|].
      specialize (H b). cbn [blk_list] in H. rewrite cnt_self in H. exact H.
  - destruct b; [discriminate|]. apply rel_refl; exact W.
Qed.

Lemma sfld_false_blocks segs : Forall (sfld false) segs -> seg_blocks segs = map sg_node segs.
Proof.
  induction 1 as [|sg r H _ IH]; [reflexivity|]. rewrite seg_blocks_cons, IH. cbn [map].
  unfold sfld in H. cbn in H. destruct (sg_blk sg); [discriminate|]. reflexivity.
Qed.

Lemma free_seg_nodes_rel segs : forall s, wf s -> (forall x, cnt (map sg_node segs) x <= L s x) ->
  rel s (fold_left (fun st x => free_blk (sg_node x) st) segs s) (map sg_node segs).
Proof.
  intros s W H.
  assert (E : forall l st, fold_left (fun st x => free_blk (sg_node x) st) l st = fold_left (fun st n => free_blk n st) (map sg_node l) st).
  { induction l as [|a l IH]; intros st; [reflexivity|]. cbn [fold_left map]. apply IH. }
  rewrite E. apply free_nodes_rel; assumption.
Qed.

(* ---- field updates: what they do to the block list and to the consistency invariant *)
Ltac msimpl :=
  unfold set_m_scheme, set_m_userInfo, set_m_hostText, set_m_ip4, set_m_ip6, set_m_ipFuture, set_m_portText,
         set_m_segs, set_m_query, set_m_fragment, set_m_abs, set_m_owner in *;
  cbn [m_scheme m_userInfo m_hostText m_ip4 m_ip6 m_ipFuture m_portText m_segs m_query m_fragment m_abs m_owner] in *.
Ltac bl := intros; rewrite !muri_blocks_eq; msimpl; rewrite !cnt_app; lia.

Lemma bl_scheme t m x : cnt (muri_blocks (set_m_scheme t m)) x + cnt (blk_list (t_blk (m_scheme m))) x
                        = cnt (muri_blocks m) x + cnt (blk_list (t_blk t)) x.
Proof. bl. Qed.
Lemma bl_user t m x : cnt (muri_blocks (set_m_userInfo t m)) x + cnt (blk_list (t_blk (m_userInfo m))) x
                      = cnt (muri_blocks m) x + cnt (blk_list (t_blk t)) x.
Proof. bl. Qed.
Lemma bl_host t m x : cnt (muri_blocks (set_m_hostText t m)) x + cnt (blk_list (t_blk (m_hostText m))) x
                      = cnt (muri_blocks m) x + cnt (blk_list (t_blk t)) x.
Proof. bl. Qed.
Lemma bl_fut t m x : cnt (muri_blocks (set_m_ipFuture t m)) x + cnt (blk_list (t_blk (m_ipFuture m))) x
                     = cnt (muri_blocks m) x + cnt (blk_list (t_blk t)) x.
Proof. bl. Qed.
Lemma bl_port t m x : cnt (muri_blocks (set_m_portText t m)) x + cnt (blk_list (t_blk (m_portText m))) x
                      = cnt (muri_blocks m) x + cnt (blk_list (t_blk t)) x.
Proof. bl. Qed.
Lemma bl_query t m x : cnt (muri_blocks (set_m_query t m)) x + cnt (blk_list (t_blk (m_query m))) x
                       = cnt (muri_blocks m) x + cnt (blk_list (t_blk t)) x.
Proof. bl. Qed.
Lemma bl_frag t m x : cnt (muri_blocks (set_m_fragment t m)) x + cnt (blk_list (t_blk (m_fragment m))) x
                      = cnt (muri_blocks m) x + cnt (blk_list (t_blk t)) x.
Proof. bl. Qed.
Lemma bl_segs l m x : cnt (muri_blocks (set_m_segs l m)) x + cnt (seg_blocks (m_segs m)) x
                      = cnt (muri_blocks m) x + cnt (seg_blocks l) x.
Proof. bl. Qed.
Lemma bl_ip4 v m x : cnt (muri_blocks (set_m_ip4 v m)) x + cnt (ip_blk (m_ip4 m)) x
                     = cnt (muri_blocks m) x + cnt (ip_blk v) x.
Proof. bl. Qed.
Lemma bl_ip6 v m x : cnt (muri_blocks (set_m_ip6 v m)) x + cnt (ip_blk (m_ip6 m)) x
                     = cnt (muri_blocks m) x + cnt (ip_blk v) x.
Proof. bl. Qed.
Lemma bl_abs v m : muri_blocks (set_m_abs v m) = muri_blocks m.
Proof. reflexivity. Qed.
Lemma bl_owner v m : muri_blocks (set_m_owner v m) = muri_blocks m.
Proof. reflexivity. Qed.

Lemma inv_set_scheme o d d' m t : inv o d m -> others B_SCHEME d d' -> fld (o || bitb d' B_SCHEME) t ->
  (o = false -> bitb d' B_SCHEME = true -> nonempty (t_val t) = true) -> inv o d' (set_m_scheme t m).
Proof.
  intros [c1 c2 c3 c4 c5 c6 c7 c8] Ho F Ne. split; msimpl; auto;
  rewrite ?(Ho B_USER eq_refl), ?(Ho B_HOST eq_refl), ?(Ho B_PATH eq_refl), ?(Ho B_QUERY eq_refl), ?(Ho B_FRAG eq_refl); auto.
Qed.
Lemma inv_set_user o d d' m t : inv o d m -> others B_USER d d' -> fld (o || bitb d' B_USER) t -> inv o d' (set_m_userInfo t m).
Proof.
  intros [c1 c2 c3 c4 c5 c6 c7 c8] Ho F. split; msimpl; auto;
  rewrite ?(Ho B_SCHEME eq_refl), ?(Ho B_HOST eq_refl), ?(Ho B_PATH eq_refl), ?(Ho B_QUERY eq_refl), ?(Ho B_FRAG eq_refl); auto.
Qed.
Lemma inv_set_query o d d' m t : inv o d m -> others B_QUERY d d' -> fld (o || bitb d' B_QUERY) t -> inv o d' (set_m_query t m).
Proof.
  intros [c1 c2 c3 c4 c5 c6 c7 c8] Ho F. split; msimpl; auto;
  rewrite ?(Ho B_SCHEME eq_refl), ?(Ho B_HOST eq_refl), ?(Ho B_PATH eq_refl), ?(Ho B_USER eq_refl), ?(Ho B_FRAG eq_refl); auto.
Qed.
Lemma inv_set_frag o d d' m t : inv o d m -> others B_FRAG d d' -> fld (o || bitb d' B_FRAG) t -> inv o d' (set_m_fragment t m).
Proof.
  intros [c1 c2 c3 c4 c5 c6 c7 c8] Ho F. split; msimpl; auto;
  rewrite ?(Ho B_SCHEME eq_refl), ?(Ho B_HOST eq_refl), ?(Ho B_PATH eq_refl), ?(Ho B_USER eq_refl), ?(Ho B_QUERY eq_refl); auto.
Qed.
Lemma inv_set_segs o d d' m l : inv o d m -> others B_PATH d d' -> Forall (sfld (o || bitb d' B_PATH)) l -> inv o d' (set_m_segs l m).
Proof.
  intros [c1 c2 c3 c4 c5 c6 c7 c8] Ho F. split; msimpl; auto;
  rewrite ?(Ho B_SCHEME eq_refl), ?(Ho B_HOST eq_refl), ?(Ho B_FRAG eq_refl), ?(Ho B_USER eq_refl), ?(Ho B_QUERY eq_refl); auto.
Qed.
Lemma inv_set_port o d m t : inv o d m -> fld o t -> inv o d (set_m_portText t m).
Proof. intros [c1 c2 c3 c4 c5 c6 c7 c8] F. split; msimpl; auto. Qed.
Lemma inv_set_host_reg o d d' m t : inv o d m -> others B_HOST d d' -> t_val (m_ipFuture m) = None ->
  fld (o || bitb d' B_HOST) t -> inv o d' (set_m_hostText t m).
Proof.
  intros [c1 c2 c3 c4 c5 c6 c7 c8] Ho Hn F. split; msimpl; auto;
  rewrite ?(Ho B_SCHEME eq_refl), ?(Ho B_PATH eq_refl), ?(Ho B_FRAG eq_refl), ?(Ho B_USER eq_refl), ?(Ho B_QUERY eq_refl); auto.
  rewrite Hn in *. split; [apply c4|exact F].
Qed.
Lemma inv_set_host_fut o d d' m t : inv o d m -> others B_HOST d d' -> is_some (t_val t) = true ->
  fld (o || bitb d' B_HOST) t -> (o = false -> bitb d' B_HOST = true -> nonempty (t_val t) = true) ->
  inv o d' (set_m_hostText {| t_val := t_val t; t_blk := None |} (set_m_ipFuture t m)).
Proof.
  intros [c1 c2 c3 c4 c5 c6 c7 c8] Ho Hs F Ne. split; msimpl; auto;
  rewrite ?(Ho B_SCHEME eq_refl), ?(Ho B_PATH eq_refl), ?(Ho B_FRAG eq_refl), ?(Ho B_USER eq_refl), ?(Ho B_QUERY eq_refl); auto.
  destruct (t_val t); [|discriminate]. cbn [t_blk]. auto.
Qed.

Ltac cn := repeat (progress (rewrite ?cnt_app, ?cnt_nil, ?cnt_rev, ?cnt_seg_blocks_rev, ?seg_blocks_cons, ?seg_blocks_app in *; cnt_norm)).
Ltac pwc := let x := fresh "x" in intros x; pw x; cn; lia.

Section WithCsize.
Variable csize : N.

(* the ledger of s' is that of s plus A minus R *)
Definition moved (s s' : mstate) (A R : list nat) : Prop := forall x, L s' x + cnt R x = cnt A x + L s x.

Lemma dup_text_spec t s : wf s -> fld false t ->
  match dup_text csize t s with
  | (Some t', s') => wf s' /\ ext s s' /\ fld true t' /\ t_val t' = t_val t /\ moved s s' (blk_list (t_blk t')) []
  | (None, s') => wf s' /\ ext s s' /\ moved s s' [] [] /\ fails_between s s'
  end.
Proof.
  intros W F. unfold dup_text, fld, moved in *. cbn [andb] in F.
  destruct t as [[[|c r]|] b]; cbn [t_val t_blk] in *.
  - destruct b; [discriminate|]. split; [exact W|]. split; [apply ext_refl|]. repeat split. intros x. cbn. lia.
  - destruct (alloc false (tlen (c :: r) * csize) s) as [[id|] s'] eqn:EA.
    + destruct (alloc_some _ _ _ _ _ W EA) as (W' & E' & HL & _).
      split; [exact W'|]. split; [exact E'|]. repeat split. cbn [t_blk blk_list]. pwl.
    + destruct (alloc_none _ _ _ _ W EA) as (W' & E' & HL & _).
      split; [exact W'|]. split; [exact E'|]. split; [pwl|]. eapply alloc_none_fails; eauto.
  - destruct b; [discriminate|]. split; [exact W|]. split; [apply ext_refl|]. repeat split. intros x. cbn. lia.
Qed.

Lemma fld_empty own own' t : nonempty (t_val t) = false -> fld own t -> fld own' t.
Proof. unfold fld. intros ->. rewrite !andb_false_r. auto. Qed.

Lemma range_owner_spec done bitv t s : wf s -> bitb bitv bitv = true -> fld (bitb done bitv) t ->
  match range_owner csize done bitv t s with
  | (Some (t', done'), s') =>
      wf s' /\ ext s s' /\ fld true t' /\ fld (bitb done' bitv) t'
      /\ ((bitb done bitv = true -> nonempty (t_val t) = true) -> bitb done' bitv = true -> nonempty (t_val t') = true)
      /\ t_val t' = t_val t /\ others bitv done done' /\ moved s s' (blk_list (t_blk t')) (blk_list (t_blk t))
  | (None, s') => wf s' /\ ext s s' /\ moved s s' [] [] /\ fails_between s s'
  end.
Proof.
  intros W Hb F. unfold range_owner. change (negb (N.land done bitv =? 0)%N) with (bitb done bitv).
  destruct (bitb done bitv) eqn:EB.
  - split; [exact W|]. split; [apply ext_refl|]. split; [exact F|]. rewrite EB. split; [exact F|]. split; [auto|].
    split; [reflexivity|]. split; [apply others_refl|]. intros x. lia.
  - assert (Emp : nonempty (t_val t) = false -> wf s /\ ext s s /\ fld true t /\ fld (bitb done bitv) t /\
                  ((false = true -> nonempty (t_val t) = true) -> bitb done bitv = true -> nonempty (t_val t) = true) /\ t_val t = t_val t /\ others bitv done done
                  /\ moved s s (blk_list (t_blk t)) (blk_list (t_blk t))).
    { intros Hn. split; [exact W|]. split; [apply ext_refl|]. split; [eapply fld_empty; eauto|].
      rewrite EB. split; [exact F|]. split; [intros _; discriminate|]. split; [reflexivity|]. split; [apply others_refl|]. intros x. lia. }
    pose proof (dup_text_spec t s W F) as D.
    destruct t as [v b]. cbn [t_val t_blk] in *.
    destruct v as [[|c r]|]; try (apply Emp; reflexivity).
    revert D. match goal with |- context [dup_text csize ?tt s] => destruct (dup_text csize tt s) as [[t'|] s'] end; intros D.
    + destruct D as (W' & E' & F' & V' & M'). split; [exact W'|]. split; [exact E'|]. split; [exact F'|].
      rewrite bitb_lor, Hb, orb_true_r. split; [exact F'|]. split; [intros _ _; rewrite V'; reflexivity|].
      split; [exact V'|]. split; [apply others_lor|].
      unfold fld in F. cbn [andb t_blk] in F. destruct b; [discriminate|]. exact M'.
    + exact D.
Qed.

(* the path loop of uriMakeOwnerEngine *)
Lemma own_segs_spec rest : forall acc s F, wf s -> Forall (sfld true) acc -> Forall (sfld false) rest ->
  over s (seg_blocks acc ++ seg_blocks rest) F ->
  match own_segs csize acc rest s with
  | (Some segs, s') => wf s' /\ ext s s' /\ Forall (sfld true) segs /\ over s' (seg_blocks segs) F
  | (None, s') => wf s' /\ ext s s' /\ over s' [] F /\ fails_between s s'
  end.
Proof.
  induction rest as [|sg r IH]; intros acc s F W Fa Fr O; cbn [own_segs].
  - split; [exact W|]. split; [apply ext_refl|]. split; [apply Forall_rev; exact Fa|].
    intros x. rewrite cnt_seg_blocks_rev. specialize (O x). rewrite cnt_app, cnt_nil in O. lia.
  - inversion Fr as [|? ? Fr1 Fr2]; subst.
    assert (Hb : sg_blk sg = None) by (unfold sfld in Fr1; cbn in Fr1; destruct (sg_blk sg); [discriminate|reflexivity]).
    unfold over in O. rewrite seg_blocks_cons, Hb in O. cbn [blk_list app] in O.
    destruct (sg_text sg) as [|c t] eqn:ET.
    + apply IH; auto.
      * constructor; [|exact Fa]. unfold sfld. rewrite ET, Hb. reflexivity.
      * intros x. rewrite seg_blocks_cons, Hb. cbn [blk_list app]. specialize (O x). cn. lia.
    + destruct (alloc false (tlen (c :: t) * csize) s) as [[id|] s'] eqn:EA.
      * destruct (alloc_some _ _ _ _ _ W EA) as (W' & E' & HL & _).
        specialize (IH ({| sg_text := c :: t; sg_blk := Some id; sg_node := sg_node sg |} :: acc) s' F W').
        assert (Pre : over s' (seg_blocks ({| sg_text := c :: t; sg_blk := Some id; sg_node := sg_node sg |} :: acc) ++ seg_blocks r) F).
        { intros x. rewrite seg_blocks_cons. cbn [sg_node sg_blk blk_list app]. specialize (O x). specialize (HL x). cn. lia. }
        specialize (IH (Forall_cons _ (eq_refl : sfld true {| sg_text := c :: t; sg_blk := Some id; sg_node := sg_node sg |}) Fa) Fr2 Pre).
        destruct (own_segs csize _ r s') as [[segs|] s2].
        -- destruct IH as (a & b & IH). split; [exact a|]. split; [eapply ext_trans; eauto|]. exact IH.
        -- destruct IH as (a & b & c' & Fl). split; [exact a|]. split; [eapply ext_trans; eauto|]. split; [exact c'|].
           eapply fails_right; eauto.
      * destruct (alloc_none _ _ _ _ W EA) as (W' & E' & HL & _).
        assert (R1 : rel s' (fold_left (fun st x => free_seg_owned x st) (rev acc) s') (seg_blocks (rev acc))).
        { apply (free_segs_rel true); [exact W'|apply Forall_rev; exact Fa|].
          intros x. rewrite cnt_seg_blocks_rev. specialize (O x). specialize (HL x). rewrite !cnt_app in O. lia. }
        set (s1 := fold_left (fun st x => free_seg_owned x st) (rev acc) s') in *.
        assert (Hn : seg_blocks (sg :: r) = map sg_node (sg :: r)) by (apply sfld_false_blocks; exact Fr).
        assert (R2 : rel s1 (fold_left (fun st x => free_blk (sg_node x) st) (sg :: r) s1) (map sg_node (sg :: r))).
        { drel R1 W1 E1 Q1 N1 H1. apply free_seg_nodes_rel; [exact W1|]. rewrite <- Hn. rewrite seg_blocks_cons, Hb. cbn [blk_list app].
          intros x. specialize (O x). specialize (HL x). specialize (H1 x). rewrite cnt_seg_blocks_rev in H1. rewrite !cnt_app in O. lia. }
        pose proof (rel_trans _ _ _ _ _ R1 R2) as R. rewrite <- Hn in R. rewrite seg_blocks_cons, Hb in R. cbn [blk_list app] in R.
        drel R W3 E3 Q3 N3 H3. split; [exact W3|]. split; [eapply ext_trans; eauto|]. split.
        -- intros x. specialize (O x). specialize (HL x). specialize (H3 x). rewrite !cnt_app, cnt_seg_blocks_rev in *. rewrite cnt_nil. lia.
        -- apply (fails_left s s' _ E' E3). eapply alloc_none_fails; eauto.
Qed.

(* ---------------------------------------------------------------- uriPreventLeakage *)
Lemma free_nonempty_eq t s : free_nonempty t s = free_text true t s.
Proof. reflexivity. Qed.

(* the object m in state s, reached from m0 in s0 by allocating and releasing blocks of the object only *)
Definition acct (m0 : muri) (s0 : mstate) (m : muri) (s : mstate) : Prop :=
  forall x, L s x + cnt (muri_blocks m0) x = cnt (muri_blocks m) x + L s0 x.

Definition good (bs bu bh bp bq bf : bool) (m0 : muri) (s0 : mstate) (ms : muri * mstate) : Prop :=
  wf (snd ms) /\ ext s0 (snd ms) /\ ms_requests (snd ms) = ms_requests s0
  /\ inv6 false bs bu bh bp bq bf (fst ms) /\ acct m0 s0 (fst ms) (snd ms).

Definition pl_scheme (b : bool) (ms : muri * mstate) : muri * mstate :=
  let (m, s) := ms in
  if b then (set_m_scheme mt_none m, match t_blk (m_scheme m) with Some b => free_blk b s | None => bad_free s end) else (m, s).
Definition pl_user (b : bool) (ms : muri * mstate) : muri * mstate :=
  let (m, s) := ms in if b then (set_m_userInfo mt_none m, free_nonempty (m_userInfo m) s) else (m, s).
Definition pl_host (b : bool) (ms : muri * mstate) : muri * mstate :=
  let (m, s) := ms in
  if b then
    match t_val (m_ipFuture m) with
    | Some _ => (set_m_hostText mt_none (set_m_ipFuture mt_none m),
                 match t_blk (m_ipFuture m) with Some b => free_blk b s | None => bad_free s end)
    | None => match t_val (m_hostText m) with
              | Some _ => (set_m_hostText mt_none m, free_nonempty (m_hostText m) s)
              | None => (m, s)
              end
    end
  else (m, s).
Definition pl_path (b : bool) (ms : muri * mstate) : muri * mstate :=
  let (m, s) := ms in
  if b then (set_m_segs [] m, fold_left (fun st sg => free_seg_owned sg st) (m_segs m) s) else (m, s).
Definition pl_query (b : bool) (ms : muri * mstate) : muri * mstate :=
  let (m, s) := ms in if b then (set_m_query mt_none m, free_nonempty (m_query m) s) else (m, s).
Definition pl_frag (b : bool) (ms : muri * mstate) : muri * mstate :=
  let (m, s) := ms in if b then (set_m_fragment mt_none m, free_nonempty (m_fragment m) s) else (m, s).

Lemma prevent_leakage_stages m revert s :
  prevent_leakage m revert s =
  pl_frag (bitb revert B_FRAG) (pl_query (bitb revert B_QUERY) (pl_path (bitb revert B_PATH)
    (pl_host (bitb revert B_HOST) (pl_user (bitb revert B_USER) (pl_scheme (bitb revert B_SCHEME) (m, s)))))).
Proof.
  unfold prevent_leakage.
  change (negb (N.land revert B_SCHEME =? 0)%N) with (bitb revert B_SCHEME).
  change (negb (N.land revert B_USER =? 0)%N) with (bitb revert B_USER).
  change (negb (N.land revert B_HOST =? 0)%N) with (bitb revert B_HOST).
  change (negb (N.land revert B_PATH =? 0)%N) with (bitb revert B_PATH).
  change (negb (N.land revert B_QUERY =? 0)%N) with (bitb revert B_QUERY).
  change (negb (N.land revert B_FRAG =? 0)%N) with (bitb revert B_FRAG).
  unfold pl_scheme at 1. destruct (if bitb revert B_SCHEME then _ else _) as [m1 s1].
  unfold pl_user at 1. destruct (if bitb revert B_USER then _ else _) as [m2 s2].
  unfold pl_host at 1. destruct (if bitb revert B_HOST then _ else _) as [m3 s3].
  unfold pl_path at 1. destruct (if bitb revert B_PATH then _ else _) as [m4 s4].
  unfold pl_query at 1. destruct (if bitb revert B_QUERY then _ else _) as [m5 s5].
  reflexivity.
Qed.

Lemma acct_holds m0 s0 m s : holds m0 s0 -> acct m0 s0 m s -> holds m s.
Proof. unfold holds, acct. intros H A. pwl. Qed.

Lemma good_step bs bu bh bp bq bf bs' bu' bh' bp' bq' bf' m0 s0 m s m' s' R :
  good bs bu bh bp bq bf m0 s0 (m, s) -> rel s s' R ->
  (forall x, cnt (muri_blocks m') x + cnt R x = cnt (muri_blocks m) x) ->
  inv6 false bs' bu' bh' bp' bq' bf' m' -> good bs' bu' bh' bp' bq' bf' m0 s0 (m', s').
Proof.
  unfold good. cbn [fst snd]. intros (W & E & Q & I & A) Rl HB I'. drel Rl W1 E1 Q1 N1 H1.
  split; [exact W1|]. split; [eapply ext_trans; eauto|]. split; [congruence|]. split; [exact I'|].
  unfold acct in *. pwl.
Qed.

Lemma fld_true_blk t (x : nat) : fld true t -> nonempty (t_val t) = true -> exists b, t_blk t = Some b.
Proof. unfold fld. intros F N. rewrite N in F. destruct (t_blk t) as [b|]; [eauto|discriminate]. Qed.

Lemma in_blocks_live m s b : holds m s -> 1 <= cnt (muri_blocks m) b -> 1 <= L s b.
Proof. intros H. specialize (H b). lia. Qed.

Lemma pl_scheme_good bs bu bh bp bq bf m0 s0 ms : holds m0 s0 ->
  good bs bu bh bp bq bf m0 s0 ms -> good false bu bh bp bq bf m0 s0 (pl_scheme bs ms).
Proof.
  intros Hh G. destruct ms as [m s]. unfold pl_scheme. destruct bs; [|exact G].
  pose proof G as (W & E & Q & I & A). cbn [fst snd] in *. pose proof (acct_holds _ _ _ _ Hh A) as Hm.
  destruct I as [c1 c2 c3 c4 c5 c6 c7 c8]. cbn [orb] in c1.
  destruct (fld_true_blk _ 0 c1 (c2 eq_refl eq_refl)) as [b Eb]. rewrite Eb.
  eapply good_step; [exact G|apply rel_free; [exact W|]| |].
  - apply (in_blocks_live _ _ _ Hm). rewrite muri_blocks_eq, Eb. cbn [blk_list]. cn. rewrite ?cnt_self. lia.
  - intros x. pose proof (bl_scheme mt_none m x) as B. rewrite Eb in B. cbn [mt_none t_blk blk_list] in B. rewrite cnt_nil in B. lia.
  - split; msimpl; auto; try reflexivity.
Qed.

Lemma free_text_rel' t s m : wf s -> fld true t -> holds m s -> (forall x, cnt (blk_list (t_blk t)) x <= cnt (muri_blocks m) x) ->
  rel s (free_nonempty t s) (blk_list (t_blk t)).
Proof.
  intros W F H Hs. rewrite free_nonempty_eq. apply free_text_rel; [exact W|exact F|]. unfold holds in H. pwl.
Qed.

Lemma pl_user_good bs bu bh bp bq bf m0 s0 ms : holds m0 s0 ->
  good bs bu bh bp bq bf m0 s0 ms -> good bs false bh bp bq bf m0 s0 (pl_user bu ms).
Proof.
  intros Hh G. destruct ms as [m s]. unfold pl_user. destruct bu; [|exact G].
  pose proof G as (W & E & Q & I & A). cbn [fst snd] in *. pose proof (acct_holds _ _ _ _ Hh A) as Hm.
  destruct I as [c1 c2 c3 c4 c5 c6 c7 c8]. cbn [orb] in c3.
  eapply good_step; [exact G|apply (free_text_rel' _ _ m); [exact W|exact c3|exact Hm|]| |].
  - intros x. rewrite muri_blocks_eq. cn. lia.
  - intros x. pose proof (bl_user mt_none m x) as B. cbn [mt_none t_blk blk_list] in B. rewrite cnt_nil in B. lia.
  - split; msimpl; auto; try reflexivity.
Qed.
Lemma pl_query_good bs bu bh bp bq bf m0 s0 ms : holds m0 s0 ->
  good bs bu bh bp bq bf m0 s0 ms -> good bs bu bh bp false bf m0 s0 (pl_query bq ms).
Proof.
  intros Hh G. destruct ms as [m s]. unfold pl_query. destruct bq; [|exact G].
  pose proof G as (W & E & Q & I & A). cbn [fst snd] in *. pose proof (acct_holds _ _ _ _ Hh A) as Hm.
  destruct I as [c1 c2 c3 c4 c5 c6 c7 c8]. cbn [orb] in c7.
  eapply good_step; [exact G|apply (free_text_rel' _ _ m); [exact W|exact c7|exact Hm|]| |].
  - intros x. rewrite muri_blocks_eq. cn. lia.
  - intros x. pose proof (bl_query mt_none m x) as B. cbn [mt_none t_blk blk_list] in B. rewrite cnt_nil in B. lia.
  - split; msimpl; auto; try reflexivity.
Qed.
Lemma pl_frag_good bs bu bh bp bq bf m0 s0 ms : holds m0 s0 ->
  good bs bu bh bp bq bf m0 s0 ms -> good bs bu bh bp bq false m0 s0 (pl_frag bf ms).
Proof.
  intros Hh G. destruct ms as [m s]. unfold pl_frag. destruct bf; [|exact G].
  pose proof G as (W & E & Q & I & A). cbn [fst snd] in *. pose proof (acct_holds _ _ _ _ Hh A) as Hm.
  destruct I as [c1 c2 c3 c4 c5 c6 c7 c8]. cbn [orb] in c8.
  eapply good_step; [exact G|apply (free_text_rel' _ _ m); [exact W|exact c8|exact Hm|]| |].
  - intros x. rewrite muri_blocks_eq. cn. lia.
  - intros x. pose proof (bl_frag mt_none m x) as B. cbn [mt_none t_blk blk_list] in B. rewrite cnt_nil in B. lia.
  - split; msimpl; auto; try reflexivity.
Qed.
Lemma pl_path_good bs bu bh bp bq bf m0 s0 ms : holds m0 s0 ->
  good bs bu bh bp bq bf m0 s0 ms -> good bs bu bh false bq bf m0 s0 (pl_path bp ms).
Proof.
  intros Hh G. destruct ms as [m s]. unfold pl_path. destruct bp; [|exact G].
  pose proof G as (W & E & Q & I & A). cbn [fst snd] in *. pose proof (acct_holds _ _ _ _ Hh A) as Hm.
  destruct I as [c1 c2 c3 c4 c5 c6 c7 c8]. cbn [orb] in c6.
  eapply good_step; [exact G|apply (free_segs_rel true); [exact W|exact c6|]| |].
  - unfold holds in Hm. rewrite muri_blocks_eq in Hm. pwc.
  - intros x. pose proof (bl_segs [] m x) as B. cbn [seg_blocks flat_map] in B. rewrite cnt_nil in B. lia.
  - split; msimpl; auto; try reflexivity.
Qed.
Lemma pl_host_good bs bu bh bp bq bf m0 s0 ms : holds m0 s0 ->
  good bs bu bh bp bq bf m0 s0 ms -> good bs bu false bp bq bf m0 s0 (pl_host bh ms).
Proof.
  intros Hh G. destruct ms as [m s]. unfold pl_host. destruct bh; [|exact G].
  pose proof G as (W & E & Q & I & A). cbn [fst snd] in *. pose proof (acct_holds _ _ _ _ Hh A) as Hm.
  destruct I as [c1 c2 c3 c4 c5 c6 c7 c8]. cbn [orb] in c4.
  destruct (t_val (m_ipFuture m)) eqn:EF.
  - destruct c4 as (Hn & Ff & Ne). rewrite <- EF in Ne. destruct (fld_true_blk _ 0 Ff (Ne eq_refl eq_refl)) as [b Eb]. rewrite Eb.
    eapply good_step; [exact G|apply rel_free; [exact W|]| |].
    + apply (in_blocks_live _ _ _ Hm). rewrite muri_blocks_eq, Eb. cbn [blk_list]. cn. rewrite ?cnt_self. lia.
    + intros x. pose proof (bl_host mt_none (set_m_ipFuture mt_none m) x) as B1. pose proof (bl_fut mt_none m x) as B2.
      msimpl. rewrite Hn, Eb in *. cbn [mt_none t_blk blk_list] in *. rewrite ?cnt_nil in *. lia.
    + split; msimpl; auto; try reflexivity. cbn. split; reflexivity.
  - destruct c4 as (Hn & Fh). destruct (t_val (m_hostText m)) eqn:EH.
    + eapply good_step; [exact G|apply (free_text_rel' _ _ m); [exact W|exact Fh|exact Hm|]| |].
      * intros x. rewrite muri_blocks_eq. cn. lia.
      * intros x. pose proof (bl_host mt_none m x) as B. cbn [mt_none t_blk blk_list] in B. rewrite cnt_nil in B. lia.
      * split; msimpl; auto; try reflexivity. rewrite EF. split; [exact Hn|reflexivity].
    + destruct G as (a & b & c & d & e). split; [exact a|]. split; [exact b|]. split; [exact c|]. split; [|exact e].
      cbn [fst] in *. destruct d as [d1 d2 d3 d4 d5 d6 d7 d8]. split; auto. rewrite EF in *. split; [exact Hn|].
      eapply fld_empty; [|exact Fh]. rewrite EH. reflexivity.
Qed.

Theorem prevent_leakage_spec m done s : wf s -> inv false done m -> holds m s ->
  let ms := prevent_leakage m done s in
  wf (snd ms) /\ ext s (snd ms) /\ ms_requests (snd ms) = ms_requests s /\ inv false 0 (fst ms) /\ acct m s (fst ms) (snd ms).
Proof.
  intros W I H. cbv zeta. rewrite prevent_leakage_stages.
  assert (G0 : good (bitb done B_SCHEME) (bitb done B_USER) (bitb done B_HOST) (bitb done B_PATH) (bitb done B_QUERY) (bitb done B_FRAG) m s (m, s)).
  { split; [exact W|]. split; [apply ext_refl|]. split; [reflexivity|]. split; [exact I|]. intros x. cbn [fst snd]. lia. }
  apply (pl_scheme_good _ _ _ _ _ _ _ _ _ H) in G0. apply (pl_user_good _ _ _ _ _ _ _ _ _ H) in G0.
  apply (pl_host_good _ _ _ _ _ _ _ _ _ H) in G0. apply (pl_path_good _ _ _ _ _ _ _ _ _ H) in G0.
  apply (pl_query_good _ _ _ _ _ _ _ _ _ H) in G0. apply (pl_frag_good _ _ _ _ _ _ _ _ _ H) in G0.
  exact G0.
Qed.

(* ---------------------------------------------------------------- uriMakeOwnerEngine *)
Definition eng (m0 : muri) (s0 : mstate) (m : muri) (s : mstate) (done : N) : Prop :=
  wf s /\ ext s0 s /\ inv false done m /\ acct m0 s0 m s.

Lemma eng_fail m0 s0 m s s' done : eng m0 s0 m s done -> wf s' -> ext s s' -> moved s s' [] [] -> fails_between s s' ->
  wf s' /\ ext s0 s' /\ inv false done m /\ acct m0 s0 m s' /\ fails_between s0 s'.
Proof.
  intros (W & E & I & A) W' E' M Fl. split; [exact W'|]. split; [eapply ext_trans; eauto|]. split; [exact I|].
  split; [unfold acct, moved in *; pwl|]. eapply fails_right; eauto.
Qed.

Lemma bitb_self_consts : bitb B_SCHEME B_SCHEME = true /\ bitb B_USER B_USER = true /\ bitb B_HOST B_HOST = true
  /\ bitb B_PATH B_PATH = true /\ bitb B_QUERY B_QUERY = true /\ bitb B_FRAG B_FRAG = true.
Proof. repeat split. Qed.

Lemma eng_scheme m0 s0 m s done : eng m0 s0 m s done ->
  match range_owner csize done B_SCHEME (m_scheme m) s with
  | (Some (t, done'), s') => eng m0 s0 (set_m_scheme t m) s' done' /\ fld true t
  | (None, s') => wf s' /\ ext s0 s' /\ inv false done m /\ acct m0 s0 m s' /\ fails_between s0 s'
  end.
Proof.
  intros G. pose proof G as (W & E & I & A).
  pose proof (range_owner_spec done B_SCHEME (m_scheme m) s W eq_refl (i_scheme _ _ _ _ _ _ _ _ I)) as R.
  destruct (range_owner csize done B_SCHEME (m_scheme m) s) as [[[t d']|] s'].
  - destruct R as (W' & E' & F1 & F2 & Ne & V & Ho & M). split; [|exact F1].
    split; [exact W'|]. split; [eapply ext_trans; eauto|]. split.
    + apply (inv_set_scheme false done d'); auto. intros _. apply Ne. exact (i_scheme_ne _ _ _ _ _ _ _ _ I eq_refl).
    + unfold acct, moved in *. intros x. pose proof (bl_scheme t m x). pw x. lia.
  - destruct R as (W' & E' & M & Fl). eapply eng_fail; eauto.
Qed.
Lemma eng_user m0 s0 m s done : eng m0 s0 m s done ->
  match range_owner csize done B_USER (m_userInfo m) s with
  | (Some (t, done'), s') => eng m0 s0 (set_m_userInfo t m) s' done' /\ fld true t
  | (None, s') => wf s' /\ ext s0 s' /\ inv false done m /\ acct m0 s0 m s' /\ fails_between s0 s'
  end.
Proof.
  intros G. pose proof G as (W & E & I & A).
  pose proof (range_owner_spec done B_USER (m_userInfo m) s W eq_refl (i_user _ _ _ _ _ _ _ _ I)) as R.
  destruct (range_owner csize done B_USER (m_userInfo m) s) as [[[t d']|] s'].
  - destruct R as (W' & E' & F1 & F2 & Ne & V & Ho & M). split; [|exact F1].
    split; [exact W'|]. split; [eapply ext_trans; eauto|]. split.
    + apply (inv_set_user false done d'); auto.
    + unfold acct, moved in *. intros x. pose proof (bl_user t m x). pw x. lia.
  - destruct R as (W' & E' & M & Fl). eapply eng_fail; eauto.
Qed.
Lemma eng_query m0 s0 m s done : eng m0 s0 m s done ->
  match range_owner csize done B_QUERY (m_query m) s with
  | (Some (t, done'), s') => eng m0 s0 (set_m_query t m) s' done' /\ fld true t
  | (None, s') => wf s' /\ ext s0 s' /\ inv false done m /\ acct m0 s0 m s' /\ fails_between s0 s'
  end.
Proof.
  intros G. pose proof G as (W & E & I & A).
  pose proof (range_owner_spec done B_QUERY (m_query m) s W eq_refl (i_query _ _ _ _ _ _ _ _ I)) as R.
  destruct (range_owner csize done B_QUERY (m_query m) s) as [[[t d']|] s'].
  - destruct R as (W' & E' & F1 & F2 & Ne & V & Ho & M). split; [|exact F1].
    split; [exact W'|]. split; [eapply ext_trans; eauto|]. split.
    + apply (inv_set_query false done d'); auto.
    + unfold acct, moved in *. intros x. pose proof (bl_query t m x). pw x. lia.
  - destruct R as (W' & E' & M & Fl). eapply eng_fail; eauto.
Qed.
Lemma eng_frag m0 s0 m s done : eng m0 s0 m s done ->
  match range_owner csize done B_FRAG (m_fragment m) s with
  | (Some (t, done'), s') => eng m0 s0 (set_m_fragment t m) s' done' /\ fld true t
  | (None, s') => wf s' /\ ext s0 s' /\ inv false done m /\ acct m0 s0 m s' /\ fails_between s0 s'
  end.
Proof.
  intros G. pose proof G as (W & E & I & A).
  pose proof (range_owner_spec done B_FRAG (m_fragment m) s W eq_refl (i_frag _ _ _ _ _ _ _ _ I)) as R.
  destruct (range_owner csize done B_FRAG (m_fragment m) s) as [[[t d']|] s'].
  - destruct R as (W' & E' & F1 & F2 & Ne & V & Ho & M). split; [|exact F1].
    split; [exact W'|]. split; [eapply ext_trans; eauto|]. split.
    + apply (inv_set_frag false done d'); auto.
    + unfold acct, moved in *. intros x. pose proof (bl_frag t m x). pw x. lia.
  - destruct R as (W' & E' & M & Fl). eapply eng_fail; eauto.
Qed.

Definition host_step_of (m : muri) (done : N) (s : mstate) : option (muri * N) * mstate :=
  if bitb done B_HOST then (Some (m, done), s)
  else match t_val (m_ipFuture m) with
       | Some _ =>
         match range_owner csize done B_HOST (m_ipFuture m) s with
         | (None, s) => (None, s)
         | (Some (t, done), s) =>
           (Some (set_m_hostText {| t_val := t_val t; t_blk := None |} (set_m_ipFuture t m), done), s)
         end
       | None =>
         match t_val (m_hostText m) with
         | Some _ =>
           match range_owner csize done B_HOST (m_hostText m) s with
           | (None, s) => (None, s)
           | (Some (t, done), s) => (Some (set_m_hostText t m, done), s)
           end
         | None => (Some (m, done), s)
         end
       end.
Definition path_step_of (m : muri) (done : N) (s : mstate) : option (muri * N) * mstate :=
  if bitb done B_PATH then (Some (m, done), s)
  else match own_segs csize [] (m_segs m) s with
       | (Some segs, s) => (Some (set_m_segs segs m, N.lor done B_PATH), s)
       | (None, s) => (None, s)
       end.

Lemma make_owner_engine_eq m done s :
  make_owner_engine csize m done s =
  match range_owner csize done B_SCHEME (m_scheme m) s with
  | (None, s) => (false, m, done, s)
  | (Some (t, done), s) =>
    let m := set_m_scheme t m in
    match range_owner csize done B_USER (m_userInfo m) s with
    | (None, s) => (false, m, done, s)
    | (Some (t, done), s) =>
      let m := set_m_userInfo t m in
      match range_owner csize done B_QUERY (m_query m) s with
      | (None, s) => (false, m, done, s)
      | (Some (t, done), s) =>
        let m := set_m_query t m in
        match range_owner csize done B_FRAG (m_fragment m) s with
        | (None, s) => (false, m, done, s)
        | (Some (t, done), s) =>
          let m := set_m_fragment t m in
          match host_step_of m done s with
          | (None, s) => (false, m, done, s)
          | (Some (m, done), s) =>
            match path_step_of m done s with
            | (None, s) => (false, set_m_segs [] m, done, s)
            | (Some (m, done), s) =>
              match dup_text csize (m_portText m) s with
              | (None, s) => (false, m, done, s)
              | (Some t, s) => (true, set_m_portText t m, done, s)
              end
            end
          end
        end
      end
    end
  end.
Proof. reflexivity. Qed.

(* the host is held: whichever of ipFuture / hostText carries the block satisfies the owner rule *)
Definition host_full (m : muri) : Prop :=
  match t_val (m_ipFuture m) with Some _ => fld true (m_ipFuture m) | None => fld true (m_hostText m) end.

Lemma host_step_spec m0 s0 m s done : eng m0 s0 m s done ->
  match host_step_of m done s with
  | (Some (m', done'), s') => eng m0 s0 m' s' done' /\ host_full m'
      /\ m_scheme m' = m_scheme m /\ m_userInfo m' = m_userInfo m /\ m_query m' = m_query m /\ m_fragment m' = m_fragment m
      /\ m_portText m' = m_portText m /\ m_segs m' = m_segs m /\ bitb done' B_PATH = bitb done B_PATH
  | (None, s') => wf s' /\ ext s0 s' /\ inv false done m /\ acct m0 s0 m s' /\ fails_between s0 s'
  end.
Proof.
  intros G. pose proof G as (W & E & I & A). unfold host_step_of. pose proof (i_host _ _ _ _ _ _ _ _ I) as Ih. cbn [orb] in Ih.
  destruct (bitb done B_HOST) eqn:EB.
  - split; [exact G|]. split; [|repeat split]. unfold host_full. destruct (t_val (m_ipFuture m)); tauto.
  - destruct (t_val (m_ipFuture m)) eqn:EF.
    + destruct Ih as (Hn & Ff & _).
      assert (Ff' : fld (bitb done B_HOST) (m_ipFuture m)) by (rewrite EB; exact Ff).
      pose proof (range_owner_spec done B_HOST (m_ipFuture m) s W eq_refl Ff') as R.
      destruct (range_owner csize done B_HOST (m_ipFuture m) s) as [[[t' d']|] s'].
      * destruct R as (W' & E' & F1 & F2 & Ne & V & Ho & M).
        split; [|split; [|repeat split; apply (Ho B_PATH eq_refl)]].
        -- split; [exact W'|]. split; [eapply ext_trans; eauto|]. split.
           ++ apply (inv_set_host_fut false done d'); auto. rewrite V, EF. reflexivity.
              intros _. apply Ne. rewrite EB. discriminate.
           ++ unfold acct, moved in *. intros x.
              pose proof (bl_host {| t_val := t_val t'; t_blk := None |} (set_m_ipFuture t' m) x) as B1. pose proof (bl_fut t' m x) as B2.
              msimpl. rewrite Hn in B1. cbn [blk_list t_blk] in *. rewrite ?cnt_nil in *. pw x. lia.
        -- unfold host_full. msimpl. rewrite V, EF. exact F1.
      * destruct R as (W' & E' & M & Fl). eapply eng_fail; eauto.
    + destruct Ih as (Hn & Fh). destruct (t_val (m_hostText m)) eqn:EH.
      * assert (Fh' : fld (bitb done B_HOST) (m_hostText m)) by (rewrite EB; exact Fh).
        pose proof (range_owner_spec done B_HOST (m_hostText m) s W eq_refl Fh') as R.
        destruct (range_owner csize done B_HOST (m_hostText m) s) as [[[t' d']|] s'].
        -- destruct R as (W' & E' & F1 & F2 & Ne & V & Ho & M).
           split; [|split; [|repeat split; apply (Ho B_PATH eq_refl)]].
           ++ split; [exact W'|]. split; [eapply ext_trans; eauto|]. split.
              ** apply (inv_set_host_reg false done d'); auto.
              ** unfold acct, moved in *. intros x. pose proof (bl_host t' m x). pw x. lia.
           ++ unfold host_full. msimpl. rewrite EF. exact F1.
        -- destruct R as (W' & E' & M & Fl). eapply eng_fail; eauto.
      * split; [exact G|]. split; [|repeat split]. unfold host_full. rewrite EF. eapply fld_empty; [|exact Fh]. rewrite EH. reflexivity.
Qed.

Lemma path_step_spec m0 s0 m s done : eng m0 s0 m s done -> holds m0 s0 ->
  match path_step_of m done s with
  | (Some (m', done'), s') => eng m0 s0 m' s' done' /\ Forall (sfld true) (m_segs m')
      /\ m_scheme m' = m_scheme m /\ m_userInfo m' = m_userInfo m /\ m_query m' = m_query m /\ m_fragment m' = m_fragment m
      /\ m_portText m' = m_portText m /\ m_hostText m' = m_hostText m /\ m_ipFuture m' = m_ipFuture m
  | (None, s') => wf s' /\ ext s0 s' /\ inv false done (set_m_segs [] m) /\ acct m0 s0 (set_m_segs [] m) s' /\ fails_between s0 s'
  end.
Proof.
  intros G Hh. pose proof G as (W & E & I & A). unfold path_step_of. pose proof (i_segs _ _ _ _ _ _ _ _ I) as Is. cbn [orb] in Is.
  destruct (bitb done B_PATH) eqn:EB.
  - split; [exact G|]. split; [exact Is|repeat split].
  - pose proof (acct_holds _ _ _ _ Hh A) as Hm.
    set (F := fun x => L s x - cnt (seg_blocks (m_segs m)) x).
    assert (O : over s (seg_blocks [] ++ seg_blocks (m_segs m)) F).
    { intros x. subst F. cbn [seg_blocks flat_map app]. specialize (Hm x). rewrite muri_blocks_eq in Hm. cn. lia. }
    pose proof (own_segs_spec (m_segs m) [] s F W (Forall_nil _) Is O) as R.
    destruct (own_segs csize [] (m_segs m) s) as [[segs|] s'].
    + destruct R as (W' & E' & Fs & O').
      split; [|split; [exact Fs|repeat split]].
      split; [exact W'|]. split; [eapply ext_trans; eauto|]. split.
      * apply (inv_set_segs false done (N.lor done B_PATH)); auto. apply others_lor. rewrite bitb_lor. cbn [orb]. rewrite orb_true_r. exact Fs.
      * unfold acct, over in *. intros x. pose proof (bl_segs segs m x). subst F. cbn [seg_blocks flat_map app] in O. pw x. lia.
    + destruct R as (W' & E' & O' & Fl).
      split; [exact W'|]. split; [eapply ext_trans; eauto|]. split.
      * apply (inv_set_segs false done done); auto. apply others_refl.
      * split; [|eapply fails_right; eauto].
        unfold acct, over in *. intros x. pose proof (bl_segs [] m x). subst F. cbn [seg_blocks flat_map app] in *. pw x. lia.
Qed.

Lemma make_owner_engine_spec m done s : wf s -> inv false done m -> holds m s ->
  match make_owner_engine csize m done s with
  | (true, m', done', s') => wf s' /\ ext s s' /\ inv true 0 m' /\ acct m s m' s'
  | (false, m', done', s') => wf s' /\ ext s s' /\ inv false done' m' /\ acct m s m' s' /\ fails_between s s'
  end.
Proof.
  intros W I Hh. rewrite make_owner_engine_eq.
  assert (G0 : eng m s m s done).
  { split; [exact W|]. split; [apply ext_refl|]. split; [exact I|]. intros x. lia. }
  pose proof (eng_scheme _ _ _ _ _ G0) as R1.
  destruct (range_owner csize done B_SCHEME (m_scheme m) s) as [[[t1 d1]|] s1]; [|exact R1].
  destruct R1 as (G1 & F1). cbv zeta.
  pose proof (eng_user _ _ _ _ _ G1) as R2.
  destruct (range_owner csize d1 B_USER (m_userInfo (set_m_scheme t1 m)) s1) as [[[t2 d2]|] s2]; [|exact R2].
  destruct R2 as (G2 & F2).
  pose proof (eng_query _ _ _ _ _ G2) as R3.
  destruct (range_owner csize d2 B_QUERY _ s2) as [[[t3 d3]|] s3]; [|exact R3].
  destruct R3 as (G3 & F3).
  pose proof (eng_frag _ _ _ _ _ G3) as R4.
  destruct (range_owner csize d3 B_FRAG _ s3) as [[[t4 d4]|] s4]; [|exact R4].
  destruct R4 as (G4 & F4).
  pose proof (host_step_spec _ _ _ _ _ G4) as R5.
  destruct (host_step_of _ d4 s4) as [[[m5 d5]|] s5]; [|exact R5].
  destruct R5 as (G5 & F5 & e1 & e2 & e3 & e4 & e5 & e6 & e7).
  pose proof (path_step_spec _ _ _ _ _ G5 Hh) as R6.
  destruct (path_step_of m5 d5 s5) as [[[m6 d6]|] s6]; [|exact R6].
  destruct R6 as (G6 & F6 & g1 & g2 & g3 & g4 & g5 & g6 & g7).
  destruct G6 as (W6 & E6 & I6 & A6).
  assert (Fp : fld false (m_portText m6)) by (exact (i_port _ _ _ _ _ _ _ _ I6)).
  pose proof (dup_text_spec (m_portText m6) s6 W6 Fp) as R7.
  destruct (dup_text csize (m_portText m6) s6) as [[t7|] s7].
  - destruct R7 as (W7 & E7 & F7 & V7 & M7).
    split; [exact W7|]. split; [eapply ext_trans; eauto|]. split.
    + pose proof (i_host _ _ _ _ _ _ _ _ I6) as Ih.
      split; msimpl; cbn [orb]; auto; try (intros; discriminate).
      * rewrite g1, e1. exact F1.
      * rewrite g2, e2. exact F2.
      * unfold host_full in F5. rewrite g7, g6 in *. destruct (t_val (m_ipFuture m5)).
        -- destruct Ih as (a & _ & _). split; [exact a|]. split; [exact F5|]. intros; discriminate.
        -- destruct Ih as (a & _). split; [exact a|exact F5].
      * rewrite g3, e3. exact F3.
      * rewrite g4, e4. exact F4.
    + unfold acct, moved in *. intros x. pose proof (bl_port t7 m6 x) as B.
      unfold fld in Fp. cbn in Fp. destruct (t_blk (m_portText m6)); [discriminate|]. cbn [blk_list] in *. pw x. lia.
  - destruct R7 as (W7 & E7 & M7 & Fl). eapply eng_fail; eauto. split; [exact W6|]. split; [exact E6|]. split; assumption.
Qed.

Ltac dmatch := repeat match goal with
  | |- context [match ?e with _ => _ end] => destruct e
  | |- context [if ?e then _ else _] => destruct e
  end.

Lemma host_step_owner m done s :
  match host_step_of m done s with (Some (m', _), _) => m_owner m' = m_owner m | (None, _) => True end.
Proof.
  unfold host_step_of. destruct (bitb done B_HOST); [reflexivity|].
  destruct (t_val (m_ipFuture m)).
  - destruct (range_owner csize done B_HOST (m_ipFuture m) s) as [[[t' d]|] s']; [reflexivity|exact I].
  - destruct (t_val (m_hostText m)); [|reflexivity].
    destruct (range_owner csize done B_HOST (m_hostText m) s) as [[[t' d]|] s']; [reflexivity|exact I].
Qed.
Lemma path_step_owner m done s :
  match path_step_of m done s with (Some (m', _), _) => m_owner m' = m_owner m | (None, _) => True end.
Proof.
  unfold path_step_of. destruct (bitb done B_PATH); [reflexivity|].
  destruct (own_segs csize [] (m_segs m) s) as [[segs|] s']; [reflexivity|exact I].
Qed.

Lemma make_owner_engine_owner m done s : m_owner (snd (fst (fst (make_owner_engine csize m done s)))) = m_owner m.
Proof.
  rewrite make_owner_engine_eq.
  destruct (range_owner csize done B_SCHEME (m_scheme m) s) as [[[t1 d1]|] s1]; [|reflexivity]. cbv zeta.
  destruct (range_owner csize d1 B_USER _ s1) as [[[t2 d2]|] s2]; [|reflexivity].
  destruct (range_owner csize d2 B_QUERY _ s2) as [[[t3 d3]|] s3]; [|reflexivity].
  destruct (range_owner csize d3 B_FRAG _ s3) as [[[t4 d4]|] s4]; [|reflexivity].
  match goal with |- context [host_step_of ?mm d4 s4] => pose proof (host_step_owner mm d4 s4) as H5; destruct (host_step_of mm d4 s4) as [[[m5 d5]|] s5] end; [|reflexivity].
  pose proof (path_step_owner m5 d5 s5) as H6. destruct (path_step_of m5 d5 s5) as [[[m6 d6]|] s6].
  - destruct (dup_text csize (m_portText m6) s6) as [[t7|] s7]; cbn [fst snd]; msimpl; congruence.
  - cbn [fst snd]. msimpl. exact H5.
Qed.

Lemma prevent_leakage_owner m done s : m_owner (fst (prevent_leakage m done s)) = m_owner m.
Proof.
  rewrite prevent_leakage_stages.
  assert (H1 : forall b ms, m_owner (fst (pl_scheme b ms)) = m_owner (fst ms)) by (intros [|] [m' s']; reflexivity).
  assert (H2 : forall b ms, m_owner (fst (pl_user b ms)) = m_owner (fst ms)) by (intros [|] [m' s']; reflexivity).
  assert (H3 : forall b ms, m_owner (fst (pl_host b ms)) = m_owner (fst ms)).
  { intros [|] [m' s']; [|reflexivity]. unfold pl_host. destruct (t_val (m_ipFuture m')); [reflexivity|]. destruct (t_val (m_hostText m')); reflexivity. }
  assert (H4 : forall b ms, m_owner (fst (pl_path b ms)) = m_owner (fst ms)) by (intros [|] [m' s']; reflexivity).
  assert (H5 : forall b ms, m_owner (fst (pl_query b ms)) = m_owner (fst ms)) by (intros [|] [m' s']; reflexivity).
  assert (H6 : forall b ms, m_owner (fst (pl_frag b ms)) = m_owner (fst ms)) by (intros [|] [m' s']; reflexivity).
  rewrite H6, H5, H4, H3, H2, H1. reflexivity.
Qed.

Lemma inv_set_owner o d m v : inv o d m -> inv o d (set_m_owner v m).
Proof. intros [c1 c2 c3 c4 c5 c6 c7 c8]. split; msimpl; auto. Qed.

(* uriMakeOwnerMm *)
Theorem make_owner_m_spec m s : wf s -> owns m s ->
  match make_owner_m csize m s with
  | (rc, m', s') => wf s' /\ ext s s' /\ consistent m' /\ acct m s m' s'
                    /\ ((rc = URI_SUCCESS /\ m_owner m' = true) \/ (rc = URI_ERROR_MALLOC /\ m_owner m' = false /\ fails_between s s'))
  end.
Proof.
  intros W [C Hh]. unfold make_owner_m. unfold consistent in C. destruct (m_owner m) eqn:EO.
  - split; [exact W|]. split; [apply ext_refl|]. split; [unfold consistent; rewrite EO; exact C|]. split; [intros x; lia|]. left. auto.
  - pose proof (make_owner_engine_spec m 0 s W C Hh) as R.
    destruct (make_owner_engine csize m 0 s) as [[[[|] m'] d'] s'] eqn:ER.
    + destruct R as (W' & E' & I' & A'). split; [exact W'|]. split; [exact E'|].
      split; [apply (inv_set_owner true 0 m' true); exact I'|]. split; [exact A'|]. left. auto.
    + pose proof (make_owner_engine_owner m 0 s) as EO1. rewrite ER in EO1. cbn [fst snd] in EO1.
      destruct R as (W' & E' & I' & A' & Fl).
      pose proof (prevent_leakage_spec m' d' s' W' I' (acct_holds _ _ _ _ Hh A')) as P. cbv zeta in P.
      pose proof (prevent_leakage_owner m' d' s') as EO2.
      destruct (prevent_leakage m' d' s') as [m'' s'']. cbn [fst snd] in P, EO2.
      destruct P as (W2 & E2 & Q2 & I2 & A2).
      assert (EO' : m_owner m'' = false) by congruence.
      split; [exact W2|]. split; [eapply ext_trans; eauto|]. split; [unfold consistent; rewrite EO'; exact I2|].
      split; [unfold acct in *; pwl|]. right. split; [reflexivity|]. split; [exact EO'|]. eapply fails_left; eauto.
Qed.

(* ---------------------------------------------------------------- building blocks of the path operations *)
(* state s, reached from s0, holds the blocks B on top of the frame F *)
Definition st (s0 s : mstate) (B : list nat) (F : nat -> nat) : Prop := wf s /\ ext s0 s /\ over s B F.

Lemma st_perm s0 s B B' F : st s0 s B F -> (forall x, cnt B x = cnt B' x) -> st s0 s B' F.
Proof. intros (W & E & O) H. split; [exact W|]. split; [exact E|]. unfold over in *. pwl. Qed.

Lemma st_rel s0 s s' R B F : st s0 s (R ++ B) F -> rel s s' R -> st s0 s' B F.
Proof.
  intros (W & E & O) Rl. drel Rl W1 E1 Q1 N1 H1. split; [exact W1|]. split; [eapply ext_trans; eauto|]. unfold over in *. pwl.
Qed.

Lemma seg_blocks_nil : seg_blocks [] = [].
Proof. reflexivity. Qed.

Lemma st_drop owned w s0 s B F : st s0 s (seg_blocks [w] ++ B) F -> sfld owned w -> st s0 (drop_seg owned w s) B F.
Proof.
  intros S Fw. eapply st_rel; [exact S|]. rewrite drop_seg_eq. destruct S as (W & E & O).
  apply free_seg_rel; [exact W|exact Fw|]. unfold over in O. pwl.
Qed.

Lemma st_blank owned w s0 s B F : st s0 s (seg_blocks [w] ++ B) F -> sfld owned w ->
  st s0 (snd (blank_seg owned w s)) (seg_blocks [fst (blank_seg owned w s)] ++ B) F /\ sfld owned (fst (blank_seg owned w s)).
Proof.
  intros S Fw. pose proof S as (W & E & O).
  assert (Hl : forall x, cnt (blk_list (sg_blk w)) x <= L s x).
  { unfold over in O. intros x. specialize (O x). rewrite seg_blocks_cons in O. cn. lia. }
  destruct (blank_seg_rel owned w s W Fw Hl) as (Rl & Fw' & Eb). split; [|exact Fw'].
  rewrite Eb. eapply st_rel; [|exact Rl]. eapply st_perm; [exact S|]. intros x. rewrite seg_blocks_cons, seg_blocks_nil. cn. lia.
Qed.

Lemma st_alloc c sz s0 s B F : st s0 s B F ->
  match alloc c sz s with
  | (Some id, s') => st s0 s' (id :: B) F
  | (None, s') => st s0 s' B F /\ fails_between s0 s'
  end.
Proof.
  intros (W & E & O). destruct (alloc c sz s) as [[id|] s'] eqn:EA.
  - destruct (alloc_some _ _ _ _ _ W EA) as (W' & E' & HL & _). split; [exact W'|]. split; [eapply ext_trans; eauto|].
    unfold over in *. intros x. pw x. cn. lia.
  - destruct (alloc_none _ _ _ _ W EA) as (W' & E' & HL & _). split.
    + split; [exact W'|]. split; [eapply ext_trans; eauto|]. unfold over in *. pwl.
    + eapply fails_right; eauto. eapply alloc_none_fails; eauto.
Qed.

Lemma st_refl s B F : wf s -> over s B F -> st s s B F.
Proof. intros W O. split; [exact W|]. split; [apply ext_refl|exact O]. Qed.

Lemma st_trans s0 s1 s B F : ext s0 s1 -> st s1 s B F -> st s0 s B F.
Proof. intros E (W & E' & O). split; [exact W|]. split; [eapply ext_trans; eauto|exact O]. Qed.
Lemma st_restart s0 s B F : st s0 s B F -> st s s B F.
Proof. intros (W & _ & O). apply st_refl; assumption. Qed.
Lemma fails_ext s0 s1 s2 : fails_between s0 s1 -> ext s1 s2 -> fails_between s0 s2.
Proof. intros (n & Hn & Hf) E. exists n. split; [|exact Hf]. pose proof (ext_req _ _ E). lia. Qed.

Definition blank (sg : mseg) : mseg := {| sg_text := []; sg_blk := None; sg_node := sg_node sg |}.
Lemma blank_seg_fst owned sg s : fst (blank_seg owned sg s) = blank sg.
Proof. reflexivity. Qed.
Lemma sfld_new owned n : sfld owned {| sg_text := []; sg_blk := None; sg_node := n |}.
Proof. unfold sfld. cbn. rewrite andb_false_r. reflexivity. Qed.

(* uriRemoveDotSegmentsEx: the walk releases what it drops and allocates at most the trailing
   empty segment; when that allocation fails the list left behind still holds exactly its blocks *)
Lemma rds_walk_spec relative host abs owned rest : forall kept s0 s F,
  st s0 s (seg_blocks kept ++ seg_blocks rest) F -> Forall (sfld owned) kept -> Forall (sfld owned) rest ->
  match rds_walk_m relative host abs owned kept rest s with
  | (ok, segs, s') => st s0 s' (seg_blocks segs) F /\ Forall (sfld owned) segs /\ (ok = false -> fails_between s0 s')
  end.
Proof.
  induction rest as [|w nxt IH]; intros kept s0 s F S Fk Fr; cbn [rds_walk_m].
  - split; [|split; [apply Forall_rev; exact Fk|discriminate]].
    eapply st_perm; [exact S|]. intros x. cn. lia.
  - inversion Fr as [|? ? Fw Fn]; subst.
    assert (Keep : match rds_walk_m relative host abs owned (w :: kept) nxt s with
                   | (ok, segs, s') => st s0 s' (seg_blocks segs) F /\ Forall (sfld owned) segs /\ (ok = false -> fails_between s0 s') end).
    { apply IH; [|constructor; assumption|exact Fn]. eapply st_perm; [exact S|]. intros x. cn. lia. }
    assert (Sw : st s0 s (seg_blocks [w] ++ seg_blocks kept ++ seg_blocks nxt) F).
    { eapply st_perm; [exact S|]. intros x. cn. lia. }
    destruct (seg_dot (sg_text w)).
    + (* "." *)
      destruct (relative && match kept with [] => true | _ :: _ => false end
                && match nxt with [] => false | n1 :: _ => has_colon (sg_text n1) end); [exact Keep|].
      destruct nxt as [|n1 nr].
      * destruct kept as [|k1 kr].
        -- destruct host.
           ++ destruct (st_blank owned w s0 s _ F Sw Fw) as (Sb & Fb).
              destruct (blank_seg owned w s) as [w' s'] eqn:EB. cbn [fst snd] in *.
              split; [|split; [constructor; [exact Fb|constructor]|discriminate]].
              eapply st_perm; [exact Sb|]. intros x. cn. lia.
           ++ split; [|split; [constructor|discriminate]].
              eapply st_perm; [apply (st_drop owned w s0 s _ F Sw Fw)|]. intros x. cn. lia.
        -- destruct (st_blank owned w s0 s _ F Sw Fw) as (Sb & Fb).
           destruct (blank_seg owned w s) as [w' s'] eqn:EB. cbn [fst snd] in *.
           split; [|split; [apply Forall_rev; constructor; assumption|discriminate]].
           eapply st_perm; [exact Sb|]. intros x. cn. lia.
      * apply IH; [|exact Fk|exact Fn]. apply (st_drop owned w s0 s _ F Sw Fw).
    + destruct (seg_dotdot (sg_text w)); [|exact Keep].
      (* ".." *)
      destruct (relative && match kept with [] => true | p :: _ => seg_dotdot (sg_text p) end); [exact Keep|].
      destruct kept as [|p [|pp kk]].
      * (* nothing kept *)
        destruct nxt as [|n1 nr].
        -- destruct abs.
           ++ split; [|split; [constructor|discriminate]].
              eapply st_perm; [apply (st_drop owned w s0 s _ F Sw Fw)|]. intros x. cn. lia.
           ++ destruct (st_blank owned w s0 s _ F Sw Fw) as (Sb & Fb).
              destruct (blank_seg owned w s) as [w' s'] eqn:EB. cbn [fst snd] in *.
              split; [|split; [constructor; [exact Fb|constructor]|discriminate]].
              eapply st_perm; [exact Sb|]. intros x. cn. lia.
        -- apply IH; [|constructor|exact Fn]. apply (st_drop owned w s0 s _ F Sw Fw).
      * (* one kept *)
        inversion Fk as [|? ? Fp _]; subst.
        destruct nxt as [|n1 nr].
        -- destruct abs.
           ++ split; [|split; [constructor|discriminate]].
              apply (st_drop owned p s0 _ [] F); [|exact Fp].
              eapply st_perm; [apply (st_drop owned w s0 s _ F Sw Fw)|]. intros x. cn. lia.
           ++ destruct (st_blank owned w s0 s _ F Sw Fw) as (Sb & Fb).
              destruct (blank_seg owned w s) as [w' s'] eqn:EB. cbn [fst snd] in *.
              split; [|split; [constructor; [exact Fb|constructor]|discriminate]].
              apply (st_drop owned p s0 _ _ F); [|exact Fp].
              eapply st_perm; [exact Sb|]. intros x. cn. lia.
        -- apply IH; [|constructor|exact Fn].
           apply (st_drop owned p s0 _ _ F); [|exact Fp].
           eapply st_perm; [apply (st_drop owned w s0 s _ F Sw Fw)|]. intros x. cn. lia.
      * (* two or more kept *)
        inversion Fk as [|? ? Fp Fk']; subst.
        destruct nxt as [|n1 nr].
        -- pose proof (st_alloc true SEG_SIZE s0 s _ F Sw) as Al.
           destruct (alloc true SEG_SIZE s) as [[id|] s1].
           ++ split; [|split; [apply Forall_rev; constructor; [apply sfld_new|exact Fk']|discriminate]].
              apply (st_drop owned p s0 _ _ F); [|exact Fp].
              eapply st_perm; [apply (st_drop owned w s0 s1 (seg_blocks [p] ++ id :: seg_blocks (pp :: kk)) F); [|exact Fw]|].
              ** eapply st_perm; [exact Al|]. intros x. cn. lia.
              ** intros x. cn. cbn [sg_node sg_blk blk_list]. cn. lia.
           ++ destruct Al as (Al & Fl).
              assert (S2 : st s1 (drop_seg owned p (drop_seg owned w s1)) (seg_blocks (pp :: kk)) F).
              { apply (st_drop owned p s1 _ _ F); [|exact Fp].
                eapply st_perm; [apply (st_drop owned w s1 s1 (seg_blocks [p] ++ seg_blocks (pp :: kk)) F); [|exact Fw]|].
                - eapply st_perm; [exact (st_restart _ _ _ _ Al)|]. intros x. cn. lia.
                - intros x. cn. lia. }
              split; [|split; [apply Forall_rev; exact Fk'|intros _]].
              ** eapply st_perm; [apply (st_trans s0 s1); [apply Al|exact S2]|]. intros x. cn. lia.
              ** eapply fails_ext; [exact Fl|apply S2].
        -- apply IH; [|exact Fk'|exact Fn].
           apply (st_drop owned p s0 _ _ F); [|exact Fp].
           eapply st_perm; [apply (st_drop owned w s0 s _ F Sw Fw)|]. intros x. cn. lia.
Qed.

Lemma set_m_segs_self m : set_m_segs (m_segs m) m = m.
Proof. destruct m; reflexivity. Qed.

Lemma rds_m_spec relative owned m s0 s F :
  st s0 s (seg_blocks (m_segs m)) F -> Forall (sfld owned) (m_segs m) ->
  match remove_dot_segments_m relative owned m s with
  | (ok, m', s') => exists segs', m' = set_m_segs segs' m /\ st s0 s' (seg_blocks segs') F /\ Forall (sfld owned) segs'
                                  /\ (ok = false -> fails_between s0 s')
  end.
Proof.
  intros S Fs. unfold remove_dot_segments_m. destruct (m_segs m) as [|sg r] eqn:ES.
  - exists []. rewrite <- ES, set_m_segs_self. split; [reflexivity|]. rewrite ES. split; [exact S|]. split; [constructor|discriminate].
  - pose proof (rds_walk_spec relative (m_host_set m) (m_abs m) owned (sg :: r) [] s0 s F) as R.
    destruct (rds_walk_m relative (m_host_set m) (m_abs m) owned [] (sg :: r) s) as [[ok segs'] s'].
    exists segs'. split; [reflexivity|]. apply R; [exact S|constructor|exact Fs].
Qed.

(* ---------------------------------------------------------------- the destination of uriAddBaseUri / uriRemoveBaseUri *)
(* a borrowed object under construction: it holds node and address blocks only, on top of the ledger s0 *)
Definition dst (s0 s : mstate) (d : muri) : Prop :=
  st s0 s (muri_blocks d) (L s0) /\ inv false 0 d /\ m_owner d = false.

Lemma inv_false_blk d : inv false 0 d ->
  t_blk (m_scheme d) = None /\ t_blk (m_userInfo d) = None /\ t_blk (m_hostText d) = None /\ t_blk (m_ipFuture d) = None
  /\ t_blk (m_portText d) = None /\ t_blk (m_query d) = None /\ t_blk (m_fragment d) = None /\ Forall (sfld false) (m_segs d).
Proof.
  intros [c1 c2 c3 c4 c5 c6 c7 c8]. unfold fld in *. cbn [orb andb] in *.
  assert (X : forall o : option nat, is_some o = false -> o = None) by (intros [?|]; [discriminate|reflexivity]).
  repeat split; auto.
  - destruct (t_val (m_ipFuture d)); [tauto|]. apply X. tauto.
  - destruct (t_val (m_ipFuture d)); [|tauto]. apply X. tauto.
Qed.

Lemma inv_false_intro d :
  t_blk (m_scheme d) = None -> t_blk (m_userInfo d) = None -> t_blk (m_hostText d) = None -> t_blk (m_ipFuture d) = None ->
  t_blk (m_portText d) = None -> t_blk (m_query d) = None -> t_blk (m_fragment d) = None -> Forall (sfld false) (m_segs d) ->
  inv false 0 d.
Proof.
  intros e1 e2 e3 e4 e5 e6 e7 Fs. split; unfold fld; cbn [orb andb]; rewrite ?e1, ?e2, ?e3, ?e4, ?e5, ?e6, ?e7; auto; try (intros; discriminate).
  destruct (t_val (m_ipFuture d)); repeat split; auto; intros; discriminate.
Qed.

Lemma dst_empty s : wf s -> dst s s muri_empty.
Proof.
  intros W. split; [|split; [|reflexivity]].
  - apply st_refl; [exact W|]. intros x. reflexivity.
  - apply inv_false_intro; try reflexivity. constructor.
Qed.

(* replacing texts by borrowed ones moves no block *)
Ltac dst_borrow :=
  let S := fresh "S" in let I := fresh "I" in let O := fresh "O" in
  intros (S & I & O);
  pose proof (inv_false_blk _ I) as (e1 & e2 & e3 & e4 & e5 & e6 & e7 & Fs);
  split; [|split; [apply inv_false_intro; msimpl; auto|exact O]];
  eapply st_perm; [exact S|]; intros x; rewrite !muri_blocks_eq; msimpl; unfold borrow; cbn [t_blk];
  rewrite ?e1, ?e2, ?e3, ?e4, ?e5, ?e6, ?e7; reflexivity.

Lemma dst_scheme s0 s d t : dst s0 s d -> dst s0 s (set_m_scheme (borrow t) d).
Proof. dst_borrow. Qed.
Lemma dst_query s0 s d t : dst s0 s d -> dst s0 s (set_m_query (borrow t) d).
Proof. dst_borrow. Qed.
Lemma dst_fragment s0 s d t : dst s0 s d -> dst s0 s (set_m_fragment (borrow t) d).
Proof. dst_borrow. Qed.
Lemma dst_abs s0 s d v : dst s0 s d -> dst s0 s (set_m_abs v d).
Proof. dst_borrow. Qed.

End WithCsize.
