(* The switch tables translated from the C sources (Generated/SwitchTables.v, regenerated from the tree
   on every check) against the character classes of the model.

   The conformance suite of C01 is derived from the control automaton with ONE representative per atom
   (Base/Atoms.v).  That is complete only if the C code never tells two characters of one atom apart.
   For every `switch` on a character this is checked here: the partition of the code points induced by
   the case groups is refined by the partition into atoms.  Code points above 255 (wide build) carry no
   label (checked: every label is below 256) and are all in the atom A_other; 256 stands for them in the
   finite sweep.

   Hand-written and proved once; only the two closing computations depend on the generated data. *)
From Coq Require Import List NArith PeanoNat Bool Lia String ZifyBool ZifyN.
From UP Require Import Base.Chars Base.Regex Base.Atoms Base.SuiteChars Generated.SwitchTables.
Import ListNotations.
Local Open Scope N_scope.

(* ---- the group of a code point --------------------------------------------------------------- *)
(* index of the listed group that contains c; None: the remaining (default) group *)
Fixpoint group_of (g : list (list N)) (c : N) : option nat :=
  match g with
  | [] => None
  | l :: r => if mem c l then Some O else option_map S (group_of r c)
  end.

Definition og_eqb (a b : option nat) : bool :=
  match a, b with
  | None, None => true
  | Some x, Some y => Nat.eqb x y
  | _, _ => false
  end.

Lemma og_eqb_eq a b : og_eqb a b = true <-> a = b.
Proof.
  destruct a as [x|], b as [y|]; cbn [og_eqb]; split; intros H; try discriminate; auto.
  - apply Nat.eqb_eq in H. subst. reflexivity.
  - inversion H. apply Nat.eqb_refl.
Qed.

Definition labels_small (g : list (list N)) : bool := forallb (forallb (fun c => c <? 256)) g.

Lemma mem_small l c : forallb (fun c => c <? 256) l = true -> 256 <= c -> mem c l = false.
Proof.
  induction l as [|x r IH]; intros H Hc; [reflexivity|].
  cbn [forallb] in H. apply andb_true_iff in H. destruct H as [Hx Hr].
  cbn [mem]. rewrite (IH Hr Hc). destruct (c =? x) eqn:E; [lia|reflexivity].
Qed.

Lemma group_of_big g c : labels_small g = true -> 256 <= c -> group_of g c = None.
Proof.
  induction g as [|l r IH]; intros H Hc; [reflexivity|].
  unfold labels_small in H. cbn [forallb] in H. apply andb_true_iff in H. destruct H as [Hl Hr].
  cbn [group_of]. rewrite (mem_small _ _ Hl Hc). rewrite (IH Hr Hc). reflexivity.
Qed.

(* the sweep: 0..255 and 256 for everything above *)
Definition sweep : list N := nrange 0 257.

Lemma In_sweep c : c <= 256 -> In c sweep.
Proof. intros H. apply In_nrange; lia. Qed.

(* ---- refinement by atoms ---------------------------------------------------------------------- *)
(* every code point is in the group of the representative of its atom (linear in the alphabet) *)
Definition refines (g : list (list N)) : bool :=
  labels_small g
  && forallb (fun c => og_eqb (group_of g c) (group_of g (atom_rep (atom_of c)))) sweep.

Lemma refines_rep g : refines g = true -> forall c, group_of g c = group_of g (atom_rep (atom_of c)).
Proof.
  unfold refines. intros H c. apply andb_true_iff in H. destruct H as [Hs Hf].
  rewrite forallb_forall in Hf.
  destruct (N.le_gt_cases c 256) as [Hc|Hc].
  - apply og_eqb_eq. apply Hf. apply In_sweep. exact Hc.
  - rewrite (group_of_big g c Hs) by lia.
    rewrite (atom_of_big c) by lia.
    specialize (Hf 256 (In_sweep 256 (N.le_refl _))). apply og_eqb_eq in Hf.
    rewrite (group_of_big g 256 Hs) in Hf by lia.
    rewrite (atom_of_big 256) in Hf by lia. exact Hf.
Qed.

(* what the boolean means: for ALL code points (not only those below 256), two characters of one atom
   are in the same case group, i.e. reach the same statements of the switch *)
Lemma refines_sound g : refines g = true ->
  forall c d : N, atom_of c = atom_of d -> group_of g c = group_of g d.
Proof.
  intros H c d E. rewrite (refines_rep g H c), (refines_rep g H d), E. reflexivity.
Qed.

(* and conversely: the boolean fails only if some pair of one atom is split, or a label is above 255 *)
Lemma refines_complete g : labels_small g = true ->
  (forall c d : N, atom_of c = atom_of d -> group_of g c = group_of g d) -> refines g = true.
Proof.
  intros Hs H. unfold refines. rewrite Hs. cbn [andb]. apply forallb_forall. intros c _.
  apply og_eqb_eq. apply H. rewrite atom_of_rep. reflexivity.
Qed.

(* ---- coverage by the suite alphabet ------------------------------------------------------------- *)
(* every code point has a suite character (Base/SuiteChars.v) of the same atom (the model treats the two
   alike) in the same case group (the switch treats the two alike).  Weaker than [refines]: an atom may
   be split by a switch provided the suite alphabet has a character in each part. *)
Definition atom_eqb (a b : atom) : bool := atom_rep a =? atom_rep b.

Lemma atom_eqb_eq a b : atom_eqb a b = true <-> a = b.
Proof.
  unfold atom_eqb. split; intros H; [|subst; apply N.eqb_refl].
  apply N.eqb_eq in H. rewrite <- (atom_of_rep a), <- (atom_of_rep b), H. reflexivity.
Qed.

Definition covered (chars : list N) (g : list (list N)) : bool :=
  let rs := map (fun r => (atom_of r, group_of g r)) chars in     (* once per table *)
  labels_small g
  && forallb (fun c =>
       let a := atom_of c in let gc := group_of g c in
       existsb (fun p => atom_eqb (fst p) a && og_eqb (snd p) gc) rs) sweep.

Lemma covered_sound chars g : covered chars g = true ->
  forall c : N, exists r, In r chars /\ atom_of r = atom_of c /\ group_of g r = group_of g c.
Proof.
  unfold covered. intros H c. apply andb_true_iff in H. destruct H as [Hs Hf].
  rewrite forallb_forall in Hf.
  assert (Hlow : forall c', c' <= 256 ->
            exists r, In r chars /\ atom_of r = atom_of c' /\ group_of g r = group_of g c').
  { intros c' Hc'. specialize (Hf c' (In_sweep c' Hc')). cbv zeta in Hf. apply existsb_exists in Hf.
    destruct Hf as [p [Hin Hp]]. apply in_map_iff in Hin. destruct Hin as [r [Er Hin]]. subst p.
    cbn [fst snd] in Hp. apply andb_true_iff in Hp. destruct Hp as [Ha Hg].
    exists r. split; [exact Hin|]. split; [apply atom_eqb_eq; exact Ha|apply og_eqb_eq; exact Hg]. }
  destruct (N.le_gt_cases c 256) as [Hc|Hc]; [apply Hlow; exact Hc|].
  destruct (Hlow 256 (N.le_refl _)) as [r [Hin [Ha Hg]]].
  exists r. split; [exact Hin|]. split.
  - rewrite Ha. rewrite (atom_of_big 256), (atom_of_big c) by lia. reflexivity.
  - rewrite Hg. rewrite (group_of_big g 256 Hs), (group_of_big g c Hs) by lia. reflexivity.
Qed.

(* a switch refined by the atoms is covered by any alphabet that has one character per atom *)
Lemma refines_covered g : refines g = true -> covered suite_chars g = true.
Proof.
  intros H. unfold covered. pose proof H as H0. unfold refines in H0.
  apply andb_true_iff in H0. destruct H0 as [Hs _]. cbv zeta. rewrite Hs. cbn [andb].
  apply forallb_forall. intros c _. apply existsb_exists.
  exists (atom_of (atom_rep (atom_of c)), group_of g (atom_rep (atom_of c))). split.
  - apply in_map_iff. exists (atom_rep (atom_of c)). split; [reflexivity|].
    unfold suite_chars. apply in_or_app. left. apply in_map. apply all_atoms_complete.
  - cbn [fst snd]. rewrite atom_of_rep. apply andb_true_iff. split; [apply atom_eqb_eq; reflexivity|].
    apply og_eqb_eq. symmetry. apply refines_rep. exact H.
Qed.

(* ---- looking a table up by name --------------------------------------------------------------- *)
Definition table (name : string) : list (list N) :=
  match find (fun t => String.eqb (fst t) name) switch_tables with
  | Some t => snd t
  | None => []
  end.
Definition has_table (name : string) : bool := existsb (fun t => String.eqb (fst t) name) switch_tables.

(* ---- the parser's tables ---------------------------------------------------------------------- *)
(* UriParse.c and UriIp4.c (the dec-octet functions are called from the parser's host rules) *)
Definition is_parser_table (t : string * list (list N)) : bool :=
  String.prefix "UriParse.c:" (fst t) || String.prefix "UriIp4.c:" (fst t).
Definition parser_tables : list (string * list (list N)) := filter is_parser_table switch_tables.

(* The h16 scanner of the IPv6 literal: `case URI_SET_HEX_LETTER_LOWER:` and `case URI_SET_HEX_LETTER_UPPER:`
   have separate bodies (they differ in the digit value only), so this switch is NOT refined by the atoms. *)
Definition hex_case_switch : string := "UriParse.c:uriParseIPv6address2#2".
Definition splits_hex_case (t : string * list (list N)) : bool := String.eqb (fst t) hex_case_switch.

(* every switch of the parser but that one is refined by the atoms ... *)
Theorem all_switches_refined :
  forallb (fun t => refines (snd t) || splits_hex_case t) parser_tables = true.
Proof. vm_compute. reflexivity. Qed.

(* ... that one is not (a and A) ... *)
Theorem hex_case_switch_refuted :
  existsb splits_hex_case parser_tables = true
  /\ exists c d, atom_of c = atom_of d /\ group_of (table hex_case_switch) c <> group_of (table hex_case_switch) d.
Proof.
  split; [vm_compute; reflexivity|]. exists 97, 65. vm_compute. split; [reflexivity|discriminate].
Qed.

(* ... and every switch, that one included, is covered by the suite alphabet *)
Theorem all_switches_covered : forallb (fun t => covered suite_chars (snd t)) parser_tables = true.
Proof. vm_compute. reflexivity. Qed.

(* not vacuous: the translator found the parser's switches *)
Lemma parser_tables_found : (30 <=? length parser_tables)%nat = true
  /\ existsb (fun t => String.eqb (fst t) "UriParse.c:uriParseOwnHost2#1") parser_tables = true.
Proof. vm_compute. auto. Qed.

(* the two booleans spelled out, for ALL code points (wide ones included) *)
Theorem parser_switches_meaning : forall name g, In (name, g) parser_tables ->
  (name <> hex_case_switch ->
     forall c d : N, atom_of c = atom_of d -> group_of g c = group_of g d)
  /\ (forall c : N, exists r, In r suite_chars /\ atom_of r = atom_of c /\ group_of g r = group_of g c).
Proof.
  intros name g Hin. split.
  - intros Hne. apply refines_sound.
    pose proof all_switches_refined as H. rewrite forallb_forall in H. specialize (H (name, g) Hin).
    apply orb_true_iff in H. destruct H as [H|H]; [exact H|].
    unfold splits_hex_case in H. cbn [fst] in H. apply String.eqb_eq in H. contradiction.
  - apply covered_sound.
    pose proof all_switches_covered as H. rewrite forallb_forall in H. exact (H (name, g) Hin).
Qed.

(* ---- a list of code points against a predicate of Base/Chars.v -------------------------------- *)
Definition set_is (l : list N) (p : N -> bool) : bool :=
  forallb (fun c => c <? 256) l && forallb (fun c => Bool.eqb (mem c l) (p c)) sweep.

Lemma set_is_sound l p : (forall c, 256 <= c -> p c = false) -> set_is l p = true ->
  forall c, In c l <-> p c = true.
Proof.
  intros Hp H c. unfold set_is in H. apply andb_true_iff in H. destruct H as [Hs Hf].
  rewrite <- mem_In. rewrite forallb_forall in Hf.
  destruct (N.le_gt_cases c 256) as [Hc|Hc].
  - specialize (Hf c (In_sweep c Hc)). apply Bool.eqb_prop in Hf. rewrite Hf. tauto.
  - rewrite (mem_small l c Hs) by lia. rewrite (Hp c) by lia. tauto.
Qed.

(* the range tests of Chars.v are false above 255 (indeed above 126) *)
Lemma is_digit_big c : 256 <= c -> is_digit c = false.
Proof. unfold is_digit, in_range. lia. Qed.
Lemma is_alpha_big c : 256 <= c -> is_alpha c = false.
Proof. unfold is_alpha, is_upper, is_lower, in_range. lia. Qed.
Lemma is_hex_upper_big c : 256 <= c -> is_hex_upper c = false.
Proof. unfold is_hex_upper, in_range. lia. Qed.
Lemma is_hex_lower_big c : 256 <= c -> is_hex_lower c = false.
Proof. unfold is_hex_lower, in_range. lia. Qed.
Lemma is_hexdig_big c : 256 <= c -> is_hexdig c = false.
Proof. unfold is_hexdig, is_digit, is_hex_upper, is_hex_lower, in_range. lia. Qed.
Lemma is_unreserved_big c : 256 <= c -> is_unreserved c = false.
Proof. unfold is_unreserved, is_unres_mark, is_alpha, is_upper, is_lower, is_digit, in_range. lia. Qed.

(* the URI_SET_* macros of UriParse.c, expanded from their #define text, are the model's classes *)
Theorem macro_sets :
  (forall c, In c set_URI_SET_DIGIT <-> is_digit c = true)
  /\ (forall c, In c set_URI_SET_ALPHA <-> is_alpha c = true)
  /\ (forall c, In c set_URI_SET_HEXDIG <-> is_hexdig c = true)
  /\ (forall c, In c set_URI_SET_HEX_LETTER_LOWER <-> is_hex_lower c = true)
  /\ (forall c, In c set_URI_SET_HEX_LETTER_UPPER <-> is_hex_upper c = true).
Proof.
  repeat split.
  1,2: revert c; apply (set_is_sound _ _ is_digit_big); vm_compute; reflexivity.
  1,2: revert c; apply (set_is_sound _ _ is_alpha_big); vm_compute; reflexivity.
  1,2: revert c; apply (set_is_sound _ _ is_hexdig_big); vm_compute; reflexivity.
  1,2: revert c; apply (set_is_sound _ _ is_hex_lower_big); vm_compute; reflexivity.
  1,2: revert c; apply (set_is_sound _ _ is_hex_upper_big); vm_compute; reflexivity.
Qed.

(* ---- refinement by an arbitrary class function (for the files that do not use the atoms) ------- *)
(* characters of one class are in one group (quadratic sweep; used for a few small tables) *)
Definition refines_cls (cls : N -> N) (g : list (list N)) : bool :=
  let ps := map (fun c => (cls c, group_of g c)) sweep in          (* once per table *)
  labels_small g
  && forallb (fun p => forallb (fun q => implb (fst p =? fst q) (og_eqb (snd p) (snd q))) ps) ps.

Lemma refines_cls_sound cls g : (forall c, 256 <= c -> cls c = cls 256) -> refines_cls cls g = true ->
  forall c d : N, cls c = cls d -> group_of g c = group_of g d.
Proof.
  intros Hbig H. unfold refines_cls in H. cbv zeta in H. apply andb_true_iff in H. destruct H as [Hs Hf].
  rewrite forallb_forall in Hf.
  assert (Hclip : forall c, exists c', c' <= 256 /\ cls c' = cls c /\ group_of g c' = group_of g c).
  { intros c. destruct (N.le_gt_cases c 256) as [Hc|Hc].
    - exists c. auto.
    - exists 256. split; [lia|]. split; [symmetry; apply Hbig; lia|].
      rewrite (group_of_big g c Hs) by lia. apply group_of_big; [exact Hs|lia]. }
  assert (Hin : forall c', c' <= 256 -> In (cls c', group_of g c') (map (fun c => (cls c, group_of g c)) sweep)).
  { intros c' Hc'. apply in_map_iff. exists c'. split; [reflexivity|apply In_sweep; exact Hc']. }
  intros c d E.
  destruct (Hclip c) as [c' [Hc' [Ec Gc]]]. destruct (Hclip d) as [d' [Hd' [Ed Gd]]].
  rewrite <- Gc, <- Gd.
  specialize (Hf _ (Hin c' Hc')). rewrite forallb_forall in Hf.
  specialize (Hf _ (Hin d' Hd')). cbn [fst snd] in Hf.
  assert (Ecd : (cls c' =? cls d') = true) by (apply N.eqb_eq; congruence).
  rewrite Ecd in Hf. cbn [implb] in Hf. apply og_eqb_eq. exact Hf.
Qed.

(* the listed group that contains a given character *)
Definition group_with (g : list (list N)) (c : N) : list N :=
  match find (mem c) g with Some l => l | None => [] end.
