(* The character switches of the parser (UriParse.c, UriIp4.c), translated from the C source on every
   check (Generated/SwitchTables.v), against the atoms of the model; the URI_SET_* macros against the
   classes of Base/Chars.v.

   The conformance suite of C01 is derived from the control automaton with one representative character
   per atom (Base/Atoms.v).  That is complete only if the C code never tells two characters of one atom
   apart.  For every `switch` on a character this is checked here:
     refines g  -- the partition induced by the case groups is refined by the partition into atoms;
     covered suite_chars g  -- every code point has a suite character of its atom in its case group.
   [refines] holds for every switch but one: the h16 scanner of uriParseIPv6address2 has one case body for
   a-f and one for A-F (atom A_hex); [covered] holds for all, because Base/SuiteChars.v adds 'A' to the
   suite alphabet.  Code points above 255 (wide build) carry no label (checked: every label is below 256)
   and are all in the atom A_other; 256 stands for them in the finite sweep (SwitchBase.v).

   Hand-written and proved once; only the closing computations depend on the generated data. *)
From Coq Require Import List NArith PeanoNat Bool Lia String ZifyBool ZifyN.
From UP Require Import Base.Chars Base.Regex Base.Atoms Base.SuiteChars Generated.SwitchTables Proofs.SwitchBase.
Import ListNotations.
Local Open Scope N_scope.

(* ---- refinement by atoms ---------------------------------------------------------------------- *)
(* every code point is in the group of the representative of its atom (linear in the alphabet) *)
Definition refines (g : list (list N)) : bool :=
  labels_small g
  && forallb (fun c => og_eqb (group_of g c) (group_of g (atom_rep (atom_of c)))) sweep.

Lemma refines_rep g : refines g = true -> forall c, group_of g c = group_of g (atom_rep (atom_of c)).
Proof.
  unfold refines. intros H c. apply andb_true_iff in H. destruct H as [Hs Hf].
  rewrite forallb_forall in Hf.
  destruct (N.le_gt_cases c 256) as [Hc|Hc].
  - apply og_eqb_eq. apply Hf. apply In_sweep. exact Hc.
  - rewrite (group_of_big g c Hs) by lia.
    rewrite (atom_of_big c) by lia.
    specialize (Hf 256 (In_sweep 256 (N.le_refl _))). apply og_eqb_eq in Hf.
    rewrite (group_of_big g 256 Hs) in Hf by lia.
    rewrite (atom_of_big 256) in Hf by lia. exact Hf.
Qed.

(* what the boolean means: for ALL code points (not only those below 256), two characters of one atom
   are in the same case group, i.e. reach the same statements of the switch *)
Lemma refines_sound g : refines g = true ->
  forall c d : N, atom_of c = atom_of d -> group_of g c = group_of g d.
Proof.
  intros H c d E. rewrite (refines_rep g H c), (refines_rep g H d), E. reflexivity.
Qed.

(* and conversely: the boolean fails only if some pair of one atom is split, or a label is above 255 *)
Lemma refines_complete g : labels_small g = true ->
  (forall c d : N, atom_of c = atom_of d -> group_of g c = group_of g d) -> refines g = true.
Proof.
  intros Hs H. unfold refines. rewrite Hs. cbn [andb]. apply forallb_forall. intros c _.
  apply og_eqb_eq. apply H. rewrite atom_of_rep. reflexivity.
Qed.

(* ---- coverage by the suite alphabet ------------------------------------------------------------- *)
(* every code point has a suite character (Base/SuiteChars.v) of the same atom (the model treats the two
   alike) in the same case group (the switch treats the two alike).  Weaker than [refines]: an atom may
   be split by a switch provided the suite alphabet has a character in each part. *)
Definition atom_eqb (a b : atom) : bool := atom_rep a =? atom_rep b.

Lemma atom_eqb_eq a b : atom_eqb a b = true <-> a = b.
Proof.
  unfold atom_eqb. split; intros H; [|subst; apply N.eqb_refl].
  apply N.eqb_eq in H. rewrite <- (atom_of_rep a), <- (atom_of_rep b), H. reflexivity.
Qed.

Definition covered (chars : list N) (g : list (list N)) : bool :=
  let rs := map (fun r => (atom_of r, group_of g r)) chars in     (* once per table *)
  labels_small g
  && forallb (fun c =>
       let a := atom_of c in let gc := group_of g c in
       existsb (fun p => atom_eqb (fst p) a && og_eqb (snd p) gc) rs) sweep.

Lemma covered_sound chars g : covered chars g = true ->
  forall c : N, exists r, In r chars /\ atom_of r = atom_of c /\ group_of g r = group_of g c.
Proof.
  unfold covered. intros H c. apply andb_true_iff in H. destruct H as [Hs Hf].
  rewrite forallb_forall in Hf.
  assert (Hlow : forall c', c' <= 256 ->
            exists r, In r chars /\ atom_of r = atom_of c' /\ group_of g r = group_of g c').
  { intros c' Hc'. specialize (Hf c' (In_sweep c' Hc')). cbv zeta in Hf. apply existsb_exists in Hf.
    destruct Hf as [p [Hin Hp]]. apply in_map_iff in Hin. destruct Hin as [r [Er Hin]]. subst p.
    cbn [fst snd] in Hp. apply andb_true_iff in Hp. destruct Hp as [Ha Hg].
    exists r. split; [exact Hin|]. split; [apply atom_eqb_eq; exact Ha|apply og_eqb_eq; exact Hg]. }
  destruct (N.le_gt_cases c 256) as [Hc|Hc]; [apply Hlow; exact Hc|].
  destruct (Hlow 256 (N.le_refl _)) as [r [Hin [Ha Hg]]].
  exists r. split; [exact Hin|]. split.
  - rewrite Ha. rewrite (atom_of_big 256), (atom_of_big c) by lia. reflexivity.
  - rewrite Hg. rewrite (group_of_big g 256 Hs), (group_of_big g c Hs) by lia. reflexivity.
Qed.

(* a switch refined by the atoms is covered by any alphabet that has one character per atom *)
Lemma refines_covered g : refines g = true -> covered suite_chars g = true.
Proof.
  intros H. unfold covered. pose proof H as H0. unfold refines in H0.
  apply andb_true_iff in H0. destruct H0 as [Hs _]. cbv zeta. rewrite Hs. cbn [andb].
  apply forallb_forall. intros c _. apply existsb_exists.
  exists (atom_of (atom_rep (atom_of c)), group_of g (atom_rep (atom_of c))). split.
  - apply in_map_iff. exists (atom_rep (atom_of c)). split; [reflexivity|].
    unfold suite_chars. apply in_or_app. left. apply in_map. apply all_atoms_complete.
  - cbn [fst snd]. rewrite atom_of_rep. apply andb_true_iff. split; [apply atom_eqb_eq; reflexivity|].
    apply og_eqb_eq. symmetry. apply refines_rep. exact H.
Qed.


(* ---- the parser's tables ---------------------------------------------------------------------- *)
(* UriParse.c and UriIp4.c (the dec-octet functions are called from the parser's host rules) *)
Definition is_parser_table (t : string * list (list N)) : bool :=
  String.prefix "UriParse.c:" (fst t) || String.prefix "UriIp4.c:" (fst t).
Definition parser_tables : list (string * list (list N)) := filter is_parser_table switch_tables.

(* The h16 scanner of the IPv6 literal: `case URI_SET_HEX_LETTER_LOWER:` and `case URI_SET_HEX_LETTER_UPPER:`
   have separate bodies (they differ in the digit value only), so this switch is NOT refined by the atoms. *)
Definition hex_case_switch : string := "UriParse.c:uriParseIPv6address2#2".
Definition splits_hex_case (t : string * list (list N)) : bool := String.eqb (fst t) hex_case_switch.

(* diagnostics: when a theorem below fails on a changed tree, these two fail first and the error message of
   `reflexivity` shows the switches and the code points concerned *)
Definition split_points (g : list (list N)) : list N :=
  filter (fun c => negb (og_eqb (group_of g c) (group_of g (atom_rep (atom_of c))))) sweep.
Definition uncovered_points (g : list (list N)) : list N :=
  filter (fun c => negb (existsb (fun r =>
     atom_eqb (atom_of r) (atom_of c) && og_eqb (group_of g r) (group_of g c)) suite_chars)) sweep.
Definition offending (bad : string * list (list N) -> bool) (pts : list (list N) -> list N) :=
  map (fun t => (fst t, pts (snd t))) (filter bad parser_tables).

Lemma switches_splitting_an_atom :
  offending (fun t => negb (refines (snd t) || splits_hex_case t)) split_points = [].
Proof. vm_compute. reflexivity. Qed.
Lemma switches_with_a_group_no_suite_character_enters :
  offending (fun t => negb (covered suite_chars (snd t))) uncovered_points = [].
Proof. vm_compute. reflexivity. Qed.

(* every switch of the parser but that one is refined by the atoms ... *)
Theorem all_switches_refined :
  forallb (fun t => refines (snd t) || splits_hex_case t) parser_tables = true.
Proof. vm_compute. reflexivity. Qed.

(* ... that one is not (a and A) ... *)
Theorem hex_case_switch_refuted :
  existsb splits_hex_case parser_tables = true
  /\ exists c d, atom_of c = atom_of d /\ group_of (table hex_case_switch) c <> group_of (table hex_case_switch) d.
Proof.
  split; [vm_compute; reflexivity|]. exists 97, 65. vm_compute. split; [reflexivity|discriminate].
Qed.

(* ... and every switch, that one included, is covered by the suite alphabet *)
Theorem all_switches_covered : forallb (fun t => covered suite_chars (snd t)) parser_tables = true.
Proof. vm_compute. reflexivity. Qed.

(* not vacuous: the translator found the parser's switches *)
Lemma parser_tables_found : (30 <=? length parser_tables)%nat = true
  /\ existsb (fun t => String.eqb (fst t) "UriParse.c:uriParseOwnHost2#1") parser_tables = true.
Proof. vm_compute. auto. Qed.

(* the two booleans spelled out, for ALL code points (wide ones included) *)
Theorem parser_switches_meaning : forall name g, In (name, g) parser_tables ->
  (name <> hex_case_switch ->
     forall c d : N, atom_of c = atom_of d -> group_of g c = group_of g d)
  /\ (forall c : N, exists r, In r suite_chars /\ atom_of r = atom_of c /\ group_of g r = group_of g c).
Proof.
  intros name g Hin. split.
  - intros Hne. apply refines_sound.
    pose proof all_switches_refined as H. rewrite forallb_forall in H. specialize (H (name, g) Hin).
    apply orb_true_iff in H. destruct H as [H|H]; [exact H|].
    unfold splits_hex_case in H. cbn [fst] in H. apply String.eqb_eq in H. contradiction.
  - apply covered_sound.
    pose proof all_switches_covered as H. rewrite forallb_forall in H. exact (H (name, g) Hin).
Qed.


Theorem macro_sets :
  (forall c, In c set_URI_SET_DIGIT <-> is_digit c = true)
  /\ (forall c, In c set_URI_SET_ALPHA <-> is_alpha c = true)
  /\ (forall c, In c set_URI_SET_HEXDIG <-> is_hexdig c = true)
  /\ (forall c, In c set_URI_SET_HEX_LETTER_LOWER <-> is_hex_lower c = true)
  /\ (forall c, In c set_URI_SET_HEX_LETTER_UPPER <-> is_hex_upper c = true).
Proof.
  repeat split.
  1,2: revert c; apply (set_is_sound _ _ is_digit_big); vm_compute; reflexivity.
  1,2: revert c; apply (set_is_sound _ _ is_alpha_big); vm_compute; reflexivity.
  1,2: revert c; apply (set_is_sound _ _ is_hexdig_big); vm_compute; reflexivity.
  1,2: revert c; apply (set_is_sound _ _ is_hex_lower_big); vm_compute; reflexivity.
  1,2: revert c; apply (set_is_sound _ _ is_hex_upper_big); vm_compute; reflexivity.
Qed.

