(* The character switches of UriEscape.c (uriEscapeEx, uriUnescapeInPlaceEx) and of uriHexdigToInt
   (UriCommon.c), translated from the source (Generated/SwitchTables.v), against the case split of
   Model/Escape.v and Base/Chars.v.  These files do not use the parser's atoms; the model branches on
   NUL, space, is_unreserved, LF, CR (escape), on NUL, '%', '+' and is_hexdig (unescape), and on
   is_digit / is_hex_lower / is_hex_upper (hexdig_to_int). *)
From Coq Require Import List NArith Bool Lia String ZifyBool ZifyN.
From UP Require Import Base.Chars Base.Regex Base.Atoms Generated.SwitchTables Proofs.SwitchBase Model.Escape.
Import ListNotations.
Local Open Scope N_scope.

(* the branches of escape_loop, in its order *)
Definition escape_class (c : N) : N :=
  if c =? 0 then 0 else if c =? 32 then 1 else if is_unreserved c then 2
  else if c =? 10 then 3 else if c =? 13 then 4 else 5.
(* the branches of unescape_loop on read[0] *)
Definition unescape_class (c : N) : N :=
  if c =? 0 then 0 else if c =? 37 then 1 else if c =? 43 then 2 else 3.
(* the branches of hexdig_to_int *)
Definition hexval_class (c : N) : N :=
  if is_digit c then 1 else if is_hex_lower c then 2 else if is_hex_upper c then 3 else 0.

Lemma escape_class_big c : 256 <= c -> escape_class c = escape_class 256.
Proof.
  intros H. unfold escape_class. rewrite (is_unreserved_big c H), (is_unreserved_big 256) by lia.
  repeat match goal with |- context [if ?b then _ else _] =>
    let E := fresh "E" in destruct b eqn:E; try (exfalso; lia) end; reflexivity.
Qed.
Lemma unescape_class_big c : 256 <= c -> unescape_class c = unescape_class 256.
Proof.
  intros H. unfold unescape_class.
  repeat match goal with |- context [if ?b then _ else _] =>
    let E := fresh "E" in destruct b eqn:E; try (exfalso; lia) end; reflexivity.
Qed.
Lemma hexval_class_big c : 256 <= c -> hexval_class c = hexval_class 256.
Proof.
  intros H. unfold hexval_class.
  rewrite (is_digit_big c H), (is_hex_lower_big c H), (is_hex_upper_big c H).
  rewrite (is_digit_big 256), (is_hex_lower_big 256), (is_hex_upper_big 256) by lia. reflexivity.
Qed.

Definition t_escape := table "UriEscape.c:uriEscapeEx#1".
Definition t_unescape0 := table "UriEscape.c:uriUnescapeInPlaceEx#1".
Definition t_unescape1 := table "UriEscape.c:uriUnescapeInPlaceEx#2".
Definition t_unescape2 := table "UriEscape.c:uriUnescapeInPlaceEx#3".
Definition t_hexval := table "UriCommon.c:uriHexdigToInt#1".

(* uriEscapeEx: the case group that copies a character unchanged (the one with 'a') is exactly the
   unreserved set; characters the model does not tell apart are not told apart by the switch *)
Theorem escape_switch :
  (forall c, In c (group_with t_escape 97) <-> is_unreserved c = true)
  /\ (forall c d, escape_class c = escape_class d -> group_of t_escape c = group_of t_escape d).
Proof.
  split.
  - apply (set_is_sound _ _ is_unreserved_big). vm_compute. reflexivity.
  - apply (refines_cls_sound _ _ escape_class_big). vm_compute. reflexivity.
Qed.

(* uriUnescapeInPlaceEx: read[0] is dispatched on NUL, '%', '+'; read[1] and read[2] have one case
   group each, exactly the hex digits *)
Theorem unescape_switches :
  (forall c d, unescape_class c = unescape_class d -> group_of t_unescape0 c = group_of t_unescape0 d)
  /\ (length t_unescape1 = 1%nat /\ forall c, In c (concat t_unescape1) <-> is_hexdig c = true)
  /\ (length t_unescape2 = 1%nat /\ forall c, In c (concat t_unescape2) <-> is_hexdig c = true).
Proof.
  split; [|split; split].
  - apply (refines_cls_sound _ _ unescape_class_big). vm_compute. reflexivity.
  - vm_compute. reflexivity.
  - apply (set_is_sound _ _ is_hexdig_big). vm_compute. reflexivity.
  - vm_compute. reflexivity.
  - apply (set_is_sound _ _ is_hexdig_big). vm_compute. reflexivity.
Qed.

(* uriHexdigToInt: the labelled characters are exactly the hex digits, grouped no finer than the
   branches of hexdig_to_int *)
Theorem hexval_switch :
  (forall c, In c (concat t_hexval) <-> is_hexdig c = true)
  /\ (forall c d, hexval_class c = hexval_class d -> group_of t_hexval c = group_of t_hexval d).
Proof.
  split.
  - apply (set_is_sound _ _ is_hexdig_big). vm_compute. reflexivity.
  - apply (refines_cls_sound _ _ hexval_class_big). vm_compute. reflexivity.
Qed.
