(* What the data actions of Model/Parse.v build (property C02), part 2 (the step): every parsed object is
   well formed (Spec/Unparse.v parsed_wf).  A second invariant [W c d] over the run, proved with the
   shapes given by the first one (Proofs/ParseData.v InvU). *)
From Coq Require Import List NArith Bool Lia Arith ZArith ZifyBool ZifyN.
From UP Require Import Base.Chars Base.Atoms Model.Uri Model.Ip4 Model.Parse Spec.NormalWf Spec.Unparse
  Proofs.ParseData.
Import ListNotations.
Local Open Scope N_scope.

(* ---------------------------------------------------------------- character classes on atoms *)
Definition is_segnc_char (c : N) : bool := is_regname_char c || (c =? 64).    (* pchar without ":" *)

Definition a_is_pct (a : atom) : bool := match a with A_pct => true | _ => false end.
Definition a_is_v (a : atom) : bool := match a with A_v => true | _ => false end.
Definition a_is_colon (a : atom) : bool := match a with A_colon => true | _ => false end.
Definition a_is_at (a : atom) : bool := match a with A_at => true | _ => false end.
Definition a_scheme (a : atom) : bool :=
  a_alpha a || a_digit a || match a with A_plus | A_minus | A_dot => true | _ => false end.
Definition a_regname (a : atom) : bool := a_sub_unres a || a_is_pct a.
Definition a_userinfo (a : atom) : bool := a_regname a || a_is_colon a.
Definition a_pchar (a : atom) : bool := a_userinfo a || a_is_at a.
Definition a_qf (a : atom) : bool := a_pchar a || match a with A_slash | A_qm => true | _ => false end.
Definition a_ip6 (a : atom) : bool := a_hexdig a || match a with A_colon | A_dot => true | _ => false end.
Definition a_segnc (a : atom) : bool := a_regname a || a_is_at a.

Lemma class_bridge (f : atom -> bool) (g : N -> bool) :
  forallb (fun c => Bool.eqb (f (atom_of c)) (g c)) (nrange 0 128) = true ->
  f A_other = false -> (forall c, 128 <= c -> g c = false) -> forall c, g c = f (atom_of c).
Proof.
  intros H1 H2 H3 c. destruct (N.lt_ge_cases c 128) as [Hc|Hc].
  - rewrite forallb_forall in H1. symmetry. apply Bool.eqb_prop. apply H1. apply In_nrange; lia.
  - rewrite (H3 c Hc), (atom_of_big c Hc), H2. reflexivity.
Qed.

Ltac bridge :=
  apply class_bridge; [vm_compute; reflexivity | reflexivity |];
  intros c Hc;
  unfold is_segnc_char, is_qf_char, is_pchar, is_userinfo_char, is_regname_char, is_scheme_char, is_lit_char,
    is_ip6_char, is_hexdig, is_unreserved, is_subdelim, is_unres_mark, is_alpha, is_hex_upper, is_hex_lower,
    is_upper, is_lower, is_digit, in_range; lia.

Lemma br_alpha c : is_alpha c = a_alpha (atom_of c). Proof. revert c. bridge. Qed.
Lemma br_digit c : is_digit c = a_digit (atom_of c). Proof. revert c. bridge. Qed.
Lemma br_hexdig c : is_hexdig c = a_hexdig (atom_of c). Proof. revert c. bridge. Qed.
Lemma br_scheme c : is_scheme_char c = a_scheme (atom_of c). Proof. revert c. bridge. Qed.
Lemma br_regname c : is_regname_char c = a_regname (atom_of c). Proof. revert c. bridge. Qed.
Lemma br_userinfo c : is_userinfo_char c = a_userinfo (atom_of c). Proof. revert c. bridge. Qed.
Lemma br_pchar c : is_pchar c = a_pchar (atom_of c). Proof. revert c. bridge. Qed.
Lemma br_qf c : is_qf_char c = a_qf (atom_of c). Proof. revert c. bridge. Qed.
Lemma br_lit c : is_lit_char c = a_fut (atom_of c). Proof. revert c. bridge. Qed.
Lemma br_ip6 c : is_ip6_char c = a_ip6 (atom_of c). Proof. revert c. bridge. Qed.
Lemma br_segnc c : is_segnc_char c = a_segnc (atom_of c). Proof. revert c. bridge. Qed.
Lemma br_pct c : (c =? 37) = a_is_pct (atom_of c). Proof. revert c. bridge. Qed.
Lemma br_v c : ((c =? 118) || (c =? 86)) = a_is_v (atom_of c). Proof. revert c. bridge. Qed.

(* every fact about one character that the proofs use, in terms of its atom *)
Definition char_facts (ch : N) (a : atom) : Prop :=
  is_alpha ch = a_alpha a /\ is_digit ch = a_digit a /\ is_hexdig ch = a_hexdig a /\
  is_scheme_char ch = a_scheme a /\ is_regname_char ch = a_regname a /\ is_userinfo_char ch = a_userinfo a /\
  is_pchar ch = a_pchar a /\ is_qf_char ch = a_qf a /\ is_lit_char ch = a_fut a /\ is_ip6_char ch = a_ip6 a /\
  is_segnc_char ch = a_segnc a /\ (ch =? 37) = a_is_pct a /\ v_start [ch] = a_is_v a.

Lemma char_facts_of ch : char_facts ch (atom_of ch).
Proof.
  unfold char_facts.
  rewrite <- br_alpha, <- br_digit, <- br_hexdig, <- br_scheme, <- br_regname, <- br_userinfo, <- br_pchar,
    <- br_qf, <- br_lit, <- br_ip6, <- br_segnc, <- br_pct, <- br_v.
  unfold v_start, head_is. repeat split; reflexivity.
Qed.

(* ---------------------------------------------------------------- percent-encodings, left to right *)
(* state: the number of hex digits still owed *)
Definition pct_step (st : nat) (c : N) : option nat :=
  match st with
  | O => Some (if c =? 37 then 2%nat else 0%nat)
  | S k => if is_hexdig c then Some k else None
  end.
Fixpoint pct_scan (st : nat) (t : text) : option nat :=
  match t with
  | [] => Some st
  | c :: r => match pct_step st c with Some st' => pct_scan st' r | None => None end
  end.

Lemma pct_scan_app a : forall st b,
  pct_scan st (a ++ b) = match pct_scan st a with Some st' => pct_scan st' b | None => None end.
Proof.
  induction a as [|c a IH]; intros st b; [reflexivity|].
  cbn [app pct_scan]. destruct (pct_step st c); [apply IH|reflexivity].
Qed.

Lemma pct_scan_wf_n n : forall t, (length t <= n)%nat -> pct_scan 0 t = Some 0%nat -> pct_wf t = true.
Proof.
  induction n as [|n IH]; intros t Hl H.
  - destruct t; [reflexivity|cbn in Hl; lia].
  - destruct t as [|c r]; [reflexivity|]. cbn [pct_scan pct_step] in H. cbn [pct_wf].
    destruct (c =? 37).
    + destruct r as [|a [|b r2]]; cbn [pct_scan pct_step] in H.
      * discriminate H.
      * destruct (is_hexdig a); cbn [pct_scan] in H; discriminate H.
      * destruct (is_hexdig a); cbn [pct_scan pct_step] in H; [|discriminate H].
        destruct (is_hexdig b); cbn [pct_scan pct_step] in H; [|discriminate H].
        cbn [andb]. apply IH; [cbn [length] in Hl; lia|exact H].
    + apply IH; [cbn [length] in Hl; lia|exact H].
Qed.

Lemma pct_scan_wf t : pct_scan 0 t = Some 0%nat -> pct_wf t = true.
Proof. apply (pct_scan_wf_n (length t)). lia. Qed.

Lemma pct_scan_nopct t : forallb (fun c => negb (c =? 37)) t = true -> pct_scan 0 t = Some 0%nat.
Proof.
  induction t as [|c r IH]; intros H; [reflexivity|].
  cbn [forallb] in H. apply andb_true_iff in H. destruct H as [H1 H2].
  cbn [pct_scan pct_step]. apply negb_true_iff in H1. rewrite H1. exact (IH H2).
Qed.

Lemma forallb_mono (f g : N -> bool) t : (forall c, f c = true -> g c = true) ->
  forallb f t = true -> forallb g t = true.
Proof.
  intros M H. rewrite forallb_forall in *. intros c Hc. apply M. apply H. exact Hc.
Qed.

(* class inclusions *)
Ltac aclass H :=
  cbv [a_alpha a_digit a_hexdig a_scheme a_regname a_userinfo a_pchar a_qf a_fut a_ip6 a_segnc a_is_pct a_is_v
       a_is_colon a_is_at a_sub_unres a_unreserved a_subdelim orb] in H.

(* pose the facts about a character and split on its atom *)
Ltac facts c Ea :=
  let HB := fresh "HB" in
  pose proof (char_facts_of c) as HB; unfold char_facts in HB;
  destruct (atom_of c) eqn:Ea; aclass HB;
  destruct HB as (Balpha & Bdigit & Bhex & Bscheme & Bregname & Buserinfo & Bpchar & Bqf & Blit & Bip6 & Bsegnc & Bpct & Bv).

Ltac incl f g :=
  match goal with |- _ ?c = true -> _ =>
    let Ea := fresh "Ea" in
    intros H; facts c Ea;
    try assumption; try (match goal with B : _ = false |- _ => rewrite B in H; discriminate H end);
    try (match goal with B : (c =? 37) = _ |- _ => rewrite B end; reflexivity)
  end.

Lemma in_digit_nopct c : is_digit c = true -> negb (c =? 37) = true.
Proof. unfold is_digit, in_range. lia. Qed.
Lemma in_digit_userinfo c : is_digit c = true -> is_userinfo_char c = true.
Proof. incl is_digit is_userinfo_char. Qed.
Lemma in_regname_userinfo c : is_regname_char c = true -> is_userinfo_char c = true.
Proof. unfold is_userinfo_char. intros ->. reflexivity. Qed.
Lemma in_segnc_pchar c : is_segnc_char c = true -> is_pchar c = true.
Proof. incl is_segnc_char is_pchar. Qed.
Lemma in_scheme_segnc c : is_scheme_char c = true -> is_segnc_char c = true.
Proof. incl is_scheme_char is_segnc_char. Qed.
Lemma in_alpha_scheme c : is_alpha c = true -> is_scheme_char c = true.
Proof. unfold is_scheme_char. intros ->. reflexivity. Qed.
Lemma in_scheme_nopct c : is_scheme_char c = true -> negb (c =? 37) = true.
Proof. incl is_scheme_char is_segnc_char. Qed.

Lemma segnc_nocolon t : forallb is_segnc_char t = true -> ~ In 58 t.
Proof.
  intros H Hi. rewrite forallb_forall in H. specialize (H 58 Hi). vm_compute in H. discriminate H.
Qed.

Lemma ip6_not_v h : forallb is_ip6_char h = true -> v_start h = false.
Proof.
  destruct h as [|c r]; [reflexivity|]. cbn [forallb]. intros H. apply andb_true_iff in H. destruct H as [H _].
  unfold v_start, head_is. pose proof (char_facts_of c) as HB. unfold char_facts in HB.
  destruct HB as (_ & _ & _ & _ & _ & _ & _ & _ & _ & B1 & _ & _ & B2). unfold v_start, head_is in B2.
  rewrite B2. rewrite B1 in H. destruct (atom_of c); try discriminate H; reflexivity.
Qed.

Lemma snoc_nonnil {A} (l : list A) x : l ++ [x] <> [].
Proof. destruct l; discriminate. Qed.

Lemma scheme_ok_snoc s c : scheme_ok s -> is_scheme_char c = true -> scheme_ok (s ++ [c]).
Proof.
  destruct s as [|a r]; [intros []|]. cbn [scheme_ok app]. intros [H1 H2] Hc. split; [exact H1|].
  rewrite forallb_app, H2. cbn [forallb]. rewrite Hc. reflexivity.
Qed.

(* ---------------------------------------------------------------- the second invariant *)
(* what is true of the URI under construction at every moment *)
Definition Wu (u : uri) : Prop := chars_ok u /\ flags_ok parse_ip4 ip6_bytes u /\ path_ok u.

(* states in which a user info may be stored while the host is still to come *)
Definition pre_host (c : ctrl) : bool :=
  match c with
  | COwnHost | CHost2 => true
  | _ => lit_state c
  end.

(* the pending texts; [k] = hex digits owed by an unfinished percent-encoding *)
Definition Wp0 (c : ctrl) (k : nat) (d : pdata) : Prop :=
  let u := p_uri d in
  let pend := p_pend d in
  match c with
  | CSchemeOrSeg => scheme_ok pend /\ pend <> [] /\ forallb is_segnc_char pend = true /\ pct_scan 0 pend = Some k
  | CMustBeSeg => pend <> [] /\ forallb is_segnc_char pend = true /\ pct_scan 0 pend = Some k
  | CUH | CHost2 => forallb is_regname_char pend = true /\ pct_scan 0 pend = Some k
  | CPortOrUser => forallb is_regname_char pend = true /\ pct_scan 0 pend = Some k /\
                   forallb is_digit (p_pend2 d) = true
  | CUser => forallb is_userinfo_char pend = true /\ pct_scan 0 pend = Some k
  | CPort => forallb is_digit pend = true
  | CIpLit => pend = []
  | CFutV | CFutHex | CFutLoop1 | CFutLoop => forallb is_lit_char pend = true /\ v_start pend = true
  | CV6 _ _ _ _ _ | CV6Colon _ _ | CV6CC _ => forallb is_ip6_char pend = true /\ pend <> []
  | CSeg sk =>
    forallb is_pchar pend = true /\ pct_scan 0 pend = Some k /\
    match sk with
    | KAuth => True
    | KPlain => pathSegs u = [] -> pend <> [] /\ (scheme u = None -> absolutePath u = true)
    | KDefer => p_saved d <> [] /\ forallb is_segnc_char (p_saved d) = true /\
                pct_scan 0 (p_saved d) = Some 0%nat
    end
  | CQF _ => forallb is_qf_char pend = true /\ pct_scan 0 pend = Some k
  | _ => True
  end.

Definition W0 (c : ctrl) (k : nat) (d : pdata) : Prop :=
  Wu (p_uri d) /\ (pre_host c = false -> auth_ok (p_uri d)) /\ Wp0 c k d.

Definition W (c : ctrl) (d : pdata) : Prop :=
  match c with
  | CPct1 r => W0 (ctrl_of_pret r) 2 d
  | CPct2 r => W0 (ctrl_of_pret r) 1 d
  | _ => W0 c 0 d
  end.

Ltac wunfold :=
  cbv [W W0 Wu Wp0 chars_ok flags_ok path_ok auth_ok pre_host lit_state ctrl_of_pret opt_ok].
Ltac wunfold_in H :=
  cbv [W W0 Wu Wp0 chars_ok flags_ok path_ok auth_ok pre_host lit_state ctrl_of_pret opt_ok] in H.

Ltac wfields :=
  cbv [exec_all fold_left exec PD with_uri U0 empty_uri pdata_init
       set_scheme set_userInfo set_hostText set_ip4 set_ip6 set_ipFuture set_portText set_pathSegs
       set_query set_fragment set_absolutePath fix_empty_trail is_host_set
       p_uri p_pend p_pend2 p_saved is_some orb negb
       scheme userInfo hostText ip4 ip6 ipFuture portText pathSegs query fragment absolutePath owner].
Ltac wfields_in H :=
  cbv [PD U0 empty_uri pdata_init
       p_uri p_pend p_pend2 p_saved is_some orb negb
       scheme userInfo hostText ip4 ip6 ipFuture portText pathSegs query fragment absolutePath owner] in H.

Lemma v_start_app x y : v_start x = true -> v_start (x ++ y) = true.
Proof. destruct x; [discriminate|]. intros H; exact H. Qed.

Lemma digits_pct t : forallb is_digit t = true -> pct_scan 0 t = Some 0%nat.
Proof. intros H. apply pct_scan_nopct. revert H. apply forallb_mono. exact in_digit_nopct. Qed.

Lemma scheme_ok_one c : is_alpha c = true -> scheme_ok [c].
Proof. intros H. split; [exact H|reflexivity]. Qed.

(* ---- solving the atomic goals *)
Ltac split_hyps :=
  repeat match goal with
         | H : _ /\ _ |- _ => let H1 := fresh "H" in destruct H as [H1 H]
         | H : True |- _ => clear H
         | H : ?x = ?x |- _ => clear H
         end.

Ltac add_digit_pct :=
  repeat match goal with
         | H : forallb is_digit ?t = true |- _ =>
           lazymatch goal with
           | _ : pct_scan 0 t = Some 0%nat |- _ => fail
           | _ => pose proof (digits_pct t H)
           end
         end.

Ltac use_char :=
  repeat match goal with B : ?f ?ch = ?b |- context [?f ?ch] => rewrite B end.

Ltac incl_lemma :=
  first [ exact in_digit_userinfo | exact in_regname_userinfo | exact in_segnc_pchar | exact in_scheme_segnc
        | exact in_alpha_scheme ].

Ltac wcls :=
  cbn [app];
  lazymatch goal with
  | |- true = true => reflexivity
  | |- forallb _ [] = true => reflexivity
  | |- forallb _ (_ ++ _) = true => rewrite forallb_app; apply andb_true_intro; split; wcls
  | |- forallb _ (_ :: _) = true =>
    cbn [forallb]; apply andb_true_intro; split; [first [use_char; reflexivity | vm_compute; reflexivity] | wcls]
  | |- forallb _ _ = true =>
    first [ assumption | eapply forallb_mono; [|eassumption]; incl_lemma ]
  end.

Ltac wpct :=
  cbn [app]; rewrite ?pct_scan_app;
  repeat match goal with H : pct_scan 0 ?t = Some _ |- context [pct_scan 0 ?t] => rewrite H end;
  cbn [pct_scan pct_step]; use_char;
  repeat (change (58 =? 37) with false; cbn [pct_scan pct_step];
          repeat match goal with H : pct_scan 0 ?t = Some _ |- context [pct_scan 0 ?t] => rewrite H end);
  cbn [pct_scan pct_step]; use_char; reflexivity.

Ltac wtext :=
  lazymatch goal with
  | |- text_ok _ _ => split; [wcls | apply pct_scan_wf; wpct]
  end.

Ltac wforall :=
  cbn [app];
  lazymatch goal with
  | |- Forall _ [] => apply Forall_nil
  | |- Forall _ (_ :: _) => apply Forall_cons; [wtext | wforall]
  | |- Forall _ (_ ++ _) => apply Forall_app; split; wforall
  | |- Forall _ _ => assumption
  end.

(* the clauses about the shape of the path *)
Ltac wpath_first :=
  split; [assumption | intros; apply segnc_nocolon; assumption].

Ltac wpath :=
  cbn [app];
  lazymatch goal with
  | |- match ?l ++ [_] with [] => True | _ :: _ => _ end =>
    destruct l; cbn [app] in *;
    [ let Hne := fresh "Hne" in let Habs := fresh "Habs" in
      let E1 := fresh "E" in let E2 := fresh "E" in
      match goal with H : [] = [] -> _ |- _ => destruct (H eq_refl) as [Hne Habs] end;
      split; [assumption | intros E1 E2; rewrite (Habs E1) in E2; discriminate E2]
    | assumption ]
  | |- match _ :: _ with [] => True | _ :: _ => _ end => wpath_first
  | |- _ <> [] /\ (_ -> _ -> ~ In 58 _) => wpath_first
  | |- ?l ++ [_] = [] -> _ => let E := fresh in intros E; destruct (snoc_nonnil _ _ E)
  | |- _ :: _ = [] -> _ => let E := fresh in intros E; discriminate E
  | |- ?l = [] -> _ <> [] /\ _ =>
    let E := fresh in intros E; split; [first [apply snoc_nonnil | discriminate]|];
    first [ intros; reflexivity | intros; discriminate
          | match goal with H : l = [] -> _ |- _ => apply (H E) end ]
  end.

Ltac watom :=
  first
  [ exact I
  | reflexivity
  | assumption
  | apply snoc_nonnil
  | wtext
  | wcls
  | wpct
  | (apply scheme_ok_snoc; [assumption | use_char; reflexivity])
  | (apply scheme_ok_one; assumption)
  | (apply v_start_app; assumption)
  | wforall
  | wpath
  | (intros; discriminate)
  | (intros; split; reflexivity) ].

Ltac wsplit := repeat match goal with |- _ /\ _ => split end.

Lemma stepW0 c d p ch acts c' :
  lit_state c = false ->
  InvU0 c d p -> W0 c 0 d -> ptrans c (atom_of ch) = (acts, Go c') -> W c' (exec_all ch d acts).
Proof.
  intros HL HI HW HT.
  destruct c as [ | | | | | | | | | | | | | | | | | | | | | | k | | | k | |]; try discriminate HL; clear HL; try destruct k;
    cbn [InvU0] in HI; try contradiction; open_inv HI; subst; open_uri.
  all: wunfold_in HW; wfields_in HW; split_hyps; add_digit_pct.
  all: facts ch Ea; cbv in HT; try discriminate HT; injection HT as <- <-.
  all: wunfold; wfields; wsplit.
  all: solve [watom].
Qed.

(* a hex digit of a percent-encoding *)
Lemma app_pendW r k d p ch :
  InvU0 (ctrl_of_pret r) d p -> W0 (ctrl_of_pret r) (S k) d -> a_hexdig (atom_of ch) = true ->
  W0 (ctrl_of_pret r) k (exec_all ch d [AApp]).
Proof.
  intros HI HW Hh.
  destruct r as [|sk| | | |qk]; try destruct sk; try destruct qk; cbn [ctrl_of_pret InvU0] in *; open_inv HI; subst; open_uri.
  all: wunfold_in HW; wfields_in HW; split_hyps; add_digit_pct.
  all: facts ch Ea; try discriminate Hh; clear Hh.
  all: wunfold; wfields; wsplit.
  all: solve [watom].
Qed.

(* ---------------------------------------------------------------- inside a literal *)
Definition fut_state (c : ctrl) : bool :=
  match c with CFutV | CFutHex | CFutLoop1 | CFutLoop => true | _ => false end.
Definition v6_state (c : ctrl) : bool :=
  match c with CV6 _ _ _ _ _ | CV6Colon _ _ | CV6CC _ => true | _ => false end.

Lemma lit_step2 c a acts c' : lit_state c = true -> ptrans c a = (acts, Go c') ->
  (c = CIpLit /\ a = A_v /\ c' = CFutV /\ acts = [AApp])
  \/ (c = CIpLit /\ v6_state c' = true /\ acts = [AAllocIp6; AApp] /\ a_ip6 a = true)
  \/ (fut_state c = true /\ fut_state c' = true /\ acts = [AApp] /\ a_fut a = true)
  \/ (v6_state c = true /\ v6_state c' = true /\ acts = [AApp] /\ a_ip6 a = true)
  \/ (fut_state c = true /\ a = A_rb /\ c' = CAuth2 /\ acts = [AHostFuture])
  \/ (v6_state c = true /\ a = A_rb /\ c' = CAuth2 /\ acts = [AHostIp6]).
Proof.
  intros HL HT.
  destruct c; try discriminate HL; clear HL.
  1-5: destruct a; cbv in HT; try discriminate HT; inversion HT; subst; cbn [fut_state v6_state];
       try (left; repeat split; reflexivity);
       try (right; left; repeat split; reflexivity);
       try (right; right; left; repeat split; reflexivity);
       try (right; right; right; right; left; repeat split; reflexivity).
  all: cbn [ptrans] in HT;
    unfold t_v6, t_v6colon, t_v6cc, t_v6ip4, t_v6hex, pre in HT;
    destruct a; cbn [a_hexdig a_digit orb negb fst snd app] in HT;
    repeat match type of HT with
           | context [if ?b then _ else _] => destruct b
           | context [match oct_over ?o with _ => _ end] => destruct (oct_over o)
           end;
    try discriminate HT; inversion HT; subst; cbn [fut_state v6_state];
    try (right; right; right; left; repeat split; reflexivity);
    try (right; right; right; right; right; repeat split; reflexivity).
Qed.

Lemma Wp0_fut c k d : fut_state c = true ->
  (Wp0 c k d <-> forallb is_lit_char (p_pend d) = true /\ v_start (p_pend d) = true).
Proof. destruct c; try discriminate; intros _; reflexivity. Qed.
Lemma Wp0_v6 c k d : v6_state c = true ->
  (Wp0 c k d <-> forallb is_ip6_char (p_pend d) = true /\ p_pend d <> []).
Proof. destruct c; try discriminate; intros _; reflexivity. Qed.
Lemma lit_pre_host c : lit_state c = true -> pre_host c = true.
Proof. destruct c; try discriminate; reflexivity. Qed.
Lemma fut_lit c : fut_state c = true -> lit_state c = true.
Proof. destruct c; try discriminate; reflexivity. Qed.
Lemma v6_lit c : v6_state c = true -> lit_state c = true.
Proof. destruct c; try discriminate; reflexivity. Qed.
Lemma lit_InvU0 c d p : lit_state c = true -> InvU0 c d p -> InvU0 CIpLit d p.
Proof. destruct c; try discriminate; intros _ H; exact H. Qed.
Lemma lit_W c d : lit_state c = true -> W c d = W0 c 0 d.
Proof. destruct c; try discriminate; reflexivity. Qed.

Lemma stepW_lit c d p ch acts c' :
  lit_state c = true ->
  InvU0 c d p -> W0 c 0 d -> ptrans c (atom_of ch) = (acts, Go c') -> W c' (exec_all ch d acts).
Proof.
  intros HL HI [HWu [_ HWp]] HT. apply (lit_InvU0 _ _ _ HL) in HI. cbn [InvU0] in HI. open_inv HI. subst.
  destruct (lit_step2 _ _ _ _ HL HT) as
    [(-> & Ea & -> & ->)|[(-> & Hc' & -> & Ha)|[(Hc & Hc' & -> & Ha)|[(Hc & Hc' & -> & Ha)|[(Hc & Ea & -> & ->)|(Hc & Ea & -> & ->)]]]]].
  - cbn [Wp0 p_pend PD] in HWp. subst. facts ch Eb; try discriminate Ea.
    wunfold_in HWu; wfields_in HWu; wunfold; wfields; split_hyps; wsplit; solve [watom].
  - cbn [Wp0 p_pend PD] in HWp. subst. rewrite (lit_W _ _ (v6_lit _ Hc')).
    split; [exact HWu|]. split; [rewrite (lit_pre_host _ (v6_lit _ Hc')); discriminate|].
    apply (Wp0_v6 _ _ _ Hc'). facts ch Eb; try discriminate Ha. all: wfields; wsplit; solve [watom].
  - apply (Wp0_fut _ _ _ Hc) in HWp. rewrite (lit_W _ _ (fut_lit _ Hc')).
    split; [exact HWu|]. split; [rewrite (lit_pre_host _ (fut_lit _ Hc')); discriminate|].
    apply (Wp0_fut _ _ _ Hc'). wfields_in HWp. facts ch Eb; try discriminate Ha. all: wfields; split_hyps; wsplit; solve [watom].
  - apply (Wp0_v6 _ _ _ Hc) in HWp. rewrite (lit_W _ _ (v6_lit _ Hc')).
    split; [exact HWu|]. split; [rewrite (lit_pre_host _ (v6_lit _ Hc')); discriminate|].
    apply (Wp0_v6 _ _ _ Hc'). wfields_in HWp. destruct HWp as [HWp HWne]. facts ch Eb; try discriminate Ha. all: wfields; wsplit; solve [watom].
  - apply (Wp0_fut _ _ _ Hc) in HWp. wfields_in HWp.
    wunfold_in HWu; wfields_in HWu; wunfold; wfields; split_hyps; wsplit; solve [watom].
  - apply (Wp0_v6 _ _ _ Hc) in HWp. wfields_in HWp. destruct HWp as [HWp HWne]. pose proof (ip6_not_v _ HWp).
    wunfold_in HWu; wfields_in HWu; wunfold; wfields; split_hyps; wsplit; solve [watom].
Qed.
