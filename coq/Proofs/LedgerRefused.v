(* A refused request is always reported: if a call of the memory tier does not return the out-of-memory
   code, the fault plan failed none of the requests the call made. *)
From Coq Require Import List NArith Bool Arith Lia.
From UP Require Import Base.Chars Base.Atoms Model.Uri Model.Ip4 Model.Parse Model.Common Model.Compare
  Model.Resolve Model.Shorten Model.Normalize Model.Mem Model.ParseM Model.OpsM
  Proofs.LedgerProofs Proofs.LedgerOps Proofs.LedgerNormalize Proofs.LedgerTransparent.
Import ListNotations.

(* [OKP good f]: when the result of f is good, every request f made was granted *)
Definition OKP {A} (good : A -> bool) (f : mstate -> A * mstate) : Prop :=
  forall s, good (fst (f s)) = true -> clean s (snd (f s)).

Lemma clean_refl s : clean s s.
Proof. intros n Hn. lia. Qed.
Lemma clean_trans s1 s2 s3 : mono s1 s2 -> clean s1 s2 -> clean s2 s3 -> clean s1 s3.
Proof.
  intros [P R] C1 C2 n Hn. destruct (Nat.le_gt_cases n (ms_requests s2)) as [H|H].
  - apply C1. lia.
  - rewrite <- P. apply C2. lia.
Qed.
Lemma clean_ro_after g s0 s : releases_only g -> clean s0 s -> clean s0 (g s).
Proof. intros G C n Hn. destruct (G s) as (_ & _ & c). apply C. lia. Qed.
Lemma clean_of_ro g s : releases_only g -> clean s (g s).
Proof. intros G. apply (clean_ro_after g s s G). apply clean_refl. Qed.

(* chain the facts [clean s_i s_(i+1)] / [mono s_i s_(i+1)] of the context *)
Ltac spec_ok := repeat match goal with K : ?x = ?x -> _ |- _ => specialize (K eq_refl) end.
Ltac chain :=
  first [ assumption | apply clean_refl
        | match goal with
          | M : mono ?a ?b, C : clean ?a ?b |- clean ?a ?c => apply (clean_trans a b c M C); chain
          end ].
Ltac okleaf := cbn [fst snd is_some negb] in *; let G := fresh "G" in intros G; try discriminate G; spec_ok; chain.

Lemma alloc_OK c sz : OKP (fun o => is_some o) (alloc c sz).
Proof.
  intros s. unfold alloc. destruct (plan_fails (ms_plan s) (S (ms_requests s))) eqn:E; cbn [fst snd is_some]; [discriminate|].
  intros _ n Hn. cbn [ms_requests] in Hn. assert (n = S (ms_requests s)) by lia. subst n. exact E.
Qed.

Lemma exec_m_OK ch d b a : OKP (fun o => is_some o) (exec_m ch d b a).
Proof.
  intros s. destruct a; cbn [exec_m]; try (intros _; apply clean_refl).
  - pose proof (alloc_OK true SEG_SIZE s) as K. destruct (alloc true SEG_SIZE s) as [[id|] s1]; okleaf.
  - pose proof (alloc_OK true SEG_SIZE s) as K. destruct (alloc true SEG_SIZE s) as [[id|] s1]; okleaf.
  - pose proof (alloc_OK false IP4_SIZE s) as K. destruct (alloc false IP4_SIZE s) as [[id|] s1]; [|okleaf].
    destruct (ip4 (p_uri (exec ch d AHostReg))); [okleaf|]. cbn [fst snd] in *. intros _. apply (clean_ro_after _ _ _ (ro_free_blk id)). apply K. reflexivity.
  - pose proof (alloc_OK false IP4_SIZE s) as K. destruct (alloc false IP4_SIZE s) as [[id|] s1]; [|okleaf].
    destruct (ip4 (p_uri (exec ch d AHostPort))); [okleaf|]. cbn [fst snd] in *. intros _. apply (clean_ro_after _ _ _ (ro_free_blk id)). apply K. reflexivity.
  - pose proof (alloc_OK false IP6_SIZE s) as K. destruct (alloc false IP6_SIZE s) as [[id|] s1]; okleaf.
  - destruct (pathSegs (p_uri d)); [intros _; apply clean_refl|]. destruct (pathSegs (p_uri (exec ch d AFixEmptyTrail))); [|intros _; apply clean_refl].
    destruct (pb_nodes b); [intros _; apply clean_refl|]. intros _. apply (clean_of_ro _ _ (ro_free_blk n)).
Qed.

Lemma exec_all_m_OK ch acts : forall d b, OKP (fun r => is_some (fst r)) (exec_all_m ch d b acts).
Proof.
  induction acts as [|a r IH]; intros d b s; cbn [exec_all_m]; [intros _; apply clean_refl|].
  pose proof (exec_m_OK ch d b a s) as K. destruct (exec_m_TR ch d b a s) as [M _].
  destruct (exec_m ch d b a s) as [[[d1 b1]|] s1]; [|okleaf].
  pose proof (IH d1 b1 s1) as K2. cbn [fst snd is_some] in *. intros G. spec_ok. apply (clean_trans s s1 _ M K). apply K2. exact G.
Qed.

Definition not_oom (r : mresult) : bool := match r with MMalloc => false | _ => true end.

Lemma prun_m_OK t : forall c d b i, OKP not_oom (prun_m c d b i t).
Proof.
  induction t as [|ch r IH]; intros c d b i s; cbn [prun_m].
  - destruct (pfinish c) as [acts [|]].
    + pose proof (exec_all_m_OK 0%N acts d b s) as K. destruct (exec_all_m 0%N d b acts s) as [[[[d1 b1]|] bh] s1]; okleaf.
    + intros _. apply (clean_of_ro _ _ (ro_free_partial b)).
  - destruct (ptrans c (atom_of ch)) as [acts nx].
    pose proof (exec_all_m_OK ch acts d b s) as K. destruct (exec_all_m_TR ch acts d b s) as [M _].
    destruct (exec_all_m ch d b acts s) as [[[[d1 b1]|] bh] s1]; [|okleaf].
    destruct nx as [c'|off].
    + pose proof (IH c' d1 b1 (S i) s1) as K2. cbn [fst snd is_some] in *. intros G. spec_ok. apply (clean_trans s s1 _ M K). apply K2. exact G.
    + cbn [fst snd is_some] in *. intros _. spec_ok. apply (clean_ro_after _ _ _ (ro_free_partial b1)). exact K.
Qed.

Theorem parse_m_refused_is_oom t s : fails_between s (snd (parse_m t s)) -> fst (parse_m t s) = MMalloc.
Proof.
  intros F. destruct (fst (parse_m t s)) eqn:E; try reflexivity; exfalso;
  apply (proj1 (clean_iff_no_fail s (snd (parse_m t s)))); try exact F; apply (prun_m_OK t CStart pdata_init pb_init 0 s);
  unfold parse_m in E; rewrite E; reflexivity.
Qed.

(* ---------------------------------------------------------------- Model/OpsM.v *)
Definition ok3 {A B} (r : bool * A * B) : bool := fst (fst r).
Definition rc_not_oom {A} (r : N * A) : bool := negb (fst r =? URI_ERROR_MALLOC)%N.

Section WithCsize.
Variable csize : N.

Lemma dup_text_OK t : OKP (fun o => is_some o) (dup_text csize t).
Proof.
  intros s. unfold dup_text. destruct (t_val t) as [[|c r]|]; try (intros _; apply clean_refl).
  pose proof (alloc_OK false (tlen (c :: r) * csize) s) as K. destruct (alloc false (tlen (c :: r) * csize) s) as [[id|] s1]; okleaf.
Qed.

Lemma range_owner_OK done bitv t : OKP (fun o => is_some o) (range_owner csize done bitv t).
Proof.
  intros s. unfold range_owner. destruct (negb (N.land done bitv =? 0)%N); [intros _; apply clean_refl|].
  destruct (t_val t) as [[|c r]|] eqn:EV; try (intros _; apply clean_refl).
  pose proof (dup_text_OK t s) as K. destruct (dup_text csize t s) as [[t'|] s1]; okleaf.
Qed.

Lemma own_segs_OK rest : forall acc, OKP (fun o => is_some o) (own_segs csize acc rest).
Proof.
  induction rest as [|sg r IH]; intros acc s; cbn [own_segs]; [intros _; apply clean_refl|].
  destruct (sg_text sg) as [|c t] eqn:ET; [apply IH|].
  pose proof (alloc_OK false (tlen (c :: t) * csize) s) as K. destruct (TR_alloc false (tlen (c :: t) * csize) s) as [M _].
  destruct (alloc false (tlen (c :: t) * csize) s) as [[id|] s1]; [|okleaf].
  pose proof (IH ({| sg_text := c :: t; sg_blk := Some id; sg_node := sg_node sg |} :: acc) s1) as K2.
  cbn [fst snd is_some] in *. intros G. spec_ok. apply (clean_trans s s1 _ M K). apply K2. exact G.
Qed.

Lemma host_step_OK m done : OKP (fun o => is_some o) (host_step_of csize m done).
Proof.
  intros s. unfold host_step_of. destruct (bitb done B_HOST); [intros _; apply clean_refl|].
  destruct (t_val (m_ipFuture m)).
  - pose proof (range_owner_OK done B_HOST (m_ipFuture m) s) as K.
    destruct (range_owner csize done B_HOST (m_ipFuture m) s) as [[[t' d']|] s1]; okleaf.
  - destruct (t_val (m_hostText m)); [|intros _; apply clean_refl].
    pose proof (range_owner_OK done B_HOST (m_hostText m) s) as K.
    destruct (range_owner csize done B_HOST (m_hostText m) s) as [[[t' d']|] s1]; okleaf.
Qed.

Lemma path_step_OK m done : OKP (fun o => is_some o) (path_step_of csize m done).
Proof.
  intros s. unfold path_step_of. destruct (bitb done B_PATH); [intros _; apply clean_refl|].
  pose proof (own_segs_OK (m_segs m) [] s) as K. destruct (own_segs csize [] (m_segs m) s) as [[segs|] s1]; okleaf.
Qed.

Lemma make_owner_engine_OK m done : OKP (fun r => fst (fst r)) (make_owner_engine csize m done).
Proof.
  intros s. rewrite !make_owner_engine_eq.
  pose proof (range_owner_OK done B_SCHEME (m_scheme m) s) as K1. destruct (range_owner_TR csize done B_SCHEME (m_scheme m) s) as [M1 _].
  destruct (range_owner csize done B_SCHEME (m_scheme m) s) as [[[t1 d1]|] s1]; [|okleaf]. cbv zeta.
  match goal with |- context [range_owner csize d1 B_USER ?tt s1] => pose proof (range_owner_OK d1 B_USER tt s1) as K2;
    destruct (range_owner_TR csize d1 B_USER tt s1) as [M2 _]; destruct (range_owner csize d1 B_USER tt s1) as [[[t2 d2]|] s2]; [|okleaf] end.
  match goal with |- context [range_owner csize d2 B_QUERY ?tt s2] => pose proof (range_owner_OK d2 B_QUERY tt s2) as K3;
    destruct (range_owner_TR csize d2 B_QUERY tt s2) as [M3 _]; destruct (range_owner csize d2 B_QUERY tt s2) as [[[t3 d3]|] s3]; [|okleaf] end.
  match goal with |- context [range_owner csize d3 B_FRAG ?tt s3] => pose proof (range_owner_OK d3 B_FRAG tt s3) as K4;
    destruct (range_owner_TR csize d3 B_FRAG tt s3) as [M4 _]; destruct (range_owner csize d3 B_FRAG tt s3) as [[[t4 d4]|] s4]; [|okleaf] end.
  match goal with |- context [host_step_of csize ?mm d4 s4] => pose proof (host_step_OK mm d4 s4) as K5;
    destruct (host_step_TR csize mm d4 s4) as [M5 _]; destruct (host_step_of csize mm d4 s4) as [[[m5 d5]|] s5]; [|okleaf] end.
  pose proof (path_step_OK m5 d5 s5) as K6. destruct (path_step_TR csize m5 d5 s5) as [M6 _].
  destruct (path_step_of csize m5 d5 s5) as [[[m6 d6]|] s6]; [|okleaf].
  pose proof (dup_text_OK (m_portText m6) s6) as K7. destruct (dup_text csize (m_portText m6) s6) as [[t7|] s7]; okleaf.
Qed.

Theorem make_owner_m_OK m : OKP rc_not_oom (fun s => make_owner_m csize m s).
Proof.
  intros s. unfold make_owner_m. destruct (m_owner m); [intros _; apply clean_refl|].
  pose proof (make_owner_engine_OK m 0%N s) as K. destruct (make_owner_engine csize m 0 s) as [[[[|] m'] d'] s1]; [okleaf|].
  destruct (prevent_leakage m' d' s1) as [m'' s2]. intros G. discriminate G.
Qed.

(* ---------------------------------------------------------------- dot segments *)
Lemma OK_ro {A} (good : A -> bool) (a : A) g : releases_only g -> OKP good (fun s => (a, g s)).
Proof. intros G s _. apply (clean_of_ro g s G). Qed.
Lemma OK_pre {A} (good : A -> bool) (f : mstate -> A * mstate) g : OKP good f -> releases_only g -> OKP good (fun s => f (g s)).
Proof.
  intros F G s H. specialize (F (g s) H). destruct (G s) as (_ & b & c). intros n Hn. rewrite <- b. apply F. lia.
Qed.

Lemma rds_walk_m_OK relative host abs owned rest : forall kept,
  OKP (fun r : bool * list mseg => fst r) (rds_walk_m relative host abs owned kept rest).
Proof.
  induction rest as [|w nxt IH]; intros kept s; cbn [rds_walk_m]; [intros _; apply clean_refl|].
  destruct (seg_dot (sg_text w)).
  - destruct (relative && match kept with [] => true | _ :: _ => false end
              && match nxt with [] => false | n1 :: _ => has_colon (sg_text n1) end); [apply IH|].
    destruct nxt as [|n1 nr].
    + destruct kept as [|k1 kr].
      * destruct host.
        -- rewrite !blank_seg_eta. apply (OK_ro _ (true, [blank w]) _ (ro_bsnd owned w)).
        -- apply (OK_ro _ (true, []) _ (ro_drop_seg owned w)).
      * rewrite !blank_seg_eta. apply (OK_ro _ (true, rev (blank w :: k1 :: kr)) _ (ro_bsnd owned w)).
    + apply (OK_pre _ _ _ (IH kept) (ro_drop_seg owned w)).
  - destruct (seg_dotdot (sg_text w)); [|apply IH].
    destruct (relative && match kept with [] => true | p :: _ => seg_dotdot (sg_text p) end); [apply IH|].
    destruct kept as [|p [|pp kk]].
    + destruct nxt as [|n1 nr].
      * destruct abs.
        -- apply (OK_ro _ (true, []) _ (ro_drop_seg owned w)).
        -- rewrite !blank_seg_eta. apply (OK_ro _ (true, [blank w]) _ (ro_bsnd owned w)).
      * apply (OK_pre _ _ _ (IH []) (ro_drop_seg owned w)).
    + destruct nxt as [|n1 nr].
      * destruct abs.
        -- apply (OK_ro _ (true, []) _ (ro_comp _ _ (ro_drop_seg owned w) (ro_drop_seg owned p))).
        -- rewrite !blank_seg_eta. apply (OK_ro _ (true, [blank w]) _ (ro_comp _ _ (ro_bsnd owned w) (ro_drop_seg owned p))).
      * apply (OK_pre _ _ _ (IH []) (ro_comp _ _ (ro_drop_seg owned w) (ro_drop_seg owned p))).
    + destruct nxt as [|n1 nr].
      * pose proof (ro_comp _ _ (ro_drop_seg owned w) (ro_drop_seg owned p)) as G. cbv beta in G.
        pose proof (alloc_OK true SEG_SIZE s) as K. destruct (alloc true SEG_SIZE s) as [[id|] s1]; cbn [fst snd is_some] in *.
        -- intros _. apply (clean_ro_after _ _ _ G). apply K. reflexivity.
        -- intros H. discriminate H.
      * apply (OK_pre _ _ _ (IH (pp :: kk)) (ro_comp _ _ (ro_drop_seg owned w) (ro_drop_seg owned p))).
Qed.

Lemma remove_dot_segments_m_OK relative owned m : OKP (fun r : bool * muri => fst r) (remove_dot_segments_m relative owned m).
Proof.
  intros s. unfold remove_dot_segments_m. destruct (m_segs m) as [|sg r]; [intros _; apply clean_refl|].
  pose proof (rds_walk_m_OK relative (m_host_set m) (m_abs m) owned (sg :: r) [] s) as K.
  destruct (rds_walk_m relative (m_host_set m) (m_abs m) owned [] (sg :: r) s) as [[ok segs] s1]. exact K.
Qed.

Lemma fix_ambiguity_m_OK m : OKP (fun r : bool * muri => fst r) (fix_ambiguity_m m).
Proof.
  intros s. unfold fix_ambiguity_m. destruct (match m_abs m with true => _ | false => _ end); [|intros _; apply clean_refl].
  pose proof (alloc_OK false SEG_SIZE s) as K. destruct (alloc false SEG_SIZE s) as [[id|] s1]; okleaf.
Qed.

Lemma fix_ambiguity_owned_m_OK m : OKP (fun r : bool * muri => fst r) (fix_ambiguity_owned_m csize m).
Proof.
  intros s. unfold fix_ambiguity_owned_m. destruct (match m_abs m with true => _ | false => _ end); [|intros _; apply clean_refl].
  pose proof (alloc_OK false SEG_SIZE s) as K. destruct (TR_alloc false SEG_SIZE s) as [M _].
  destruct (alloc false SEG_SIZE s) as [[id|] s1]; [|okleaf].
  pose proof (alloc_OK false (tlen [46%N] * csize)%N s1) as K2.
  destruct (alloc false (tlen [46%N] * csize)%N s1) as [[b|] s2]; okleaf.
Qed.

Lemma fix_empty_trail_m_clean m s : clean s (snd (fix_empty_trail_m m s)) /\ mono s (snd (fix_empty_trail_m m s)).
Proof.
  destruct (fix_empty_trail_m_TR m s) as [M _]. split; [|exact M]. unfold fix_empty_trail_m.
  destruct (negb (m_host_set m)); [|apply clean_refl]. destruct (m_segs m) as [|sg [|sg2 r]]; try apply clean_refl.
  destruct (sg_text sg); [|apply clean_refl]. apply (clean_of_ro _ _ (ro_free_blk (sg_node sg))).
Qed.

(* ---------------------------------------------------------------- normalization *)
Lemma norm_text_OK o f t : OKP (fun o => is_some o) (norm_text csize o f t).
Proof.
  intros s. unfold norm_text. destruct (t_val t) as [x|]; [|intros _; apply clean_refl].
  destruct o; [intros _; apply clean_refl|]. destruct x as [|c r]; [intros _; apply clean_refl|].
  pose proof (alloc_OK false (tlen (c :: r) * csize) s) as K. destruct (alloc false (tlen (c :: r) * csize) s) as [[id|] s1]; okleaf.
Qed.

Lemma norm_segs_malloc_OK rest : forall acc, OKP (fun r : bool * list mseg => fst r) (norm_segs_malloc csize acc rest).
Proof.
  induction rest as [|sg r IH]; intros acc s; cbn [norm_segs_malloc]; [intros _; apply clean_refl|].
  destruct (sg_text sg) as [|c t] eqn:ET; [apply IH|].
  pose proof (alloc_OK false (tlen (c :: t) * csize) s) as K. destruct (TR_alloc false (tlen (c :: t) * csize) s) as [M _].
  destruct (alloc false (tlen (c :: t) * csize) s) as [[id|] s1]; [|okleaf].
  pose proof (IH ({| sg_text := fix_pct (c :: t); sg_blk := Some id; sg_node := sg_node sg |} :: acc) s1) as K2.
  cbn [fst snd is_some] in *. intros G. spec_ok. apply (clean_trans s s1 _ M K). apply K2. exact G.
Qed.

Lemma n_scheme_OK mask o m done : OKP (fun o => is_some o) (n_scheme csize mask o m done).
Proof.
  intros s. unfold n_scheme. destruct (bit mask M_SCHEME && is_some (t_val (m_scheme m))); [|intros _; apply clean_refl].
  pose proof (norm_text_OK o lowercase (m_scheme m) s) as K. destruct (norm_text csize o lowercase (m_scheme m) s) as [[t'|] s1]; okleaf.
Qed.
Lemma n_user_OK mask o m done : OKP (fun o => is_some o) (n_user csize mask o m done).
Proof.
  intros s. unfold n_user. destruct (bit mask M_USER_INFO && is_some (t_val (m_userInfo m))); [|intros _; apply clean_refl].
  pose proof (norm_text_OK o fix_pct (m_userInfo m) s) as K. destruct (norm_text csize o fix_pct (m_userInfo m) s) as [[t'|] s1]; okleaf.
Qed.
Lemma n_query_OK mask o m done : OKP (fun o => is_some o) (n_query csize mask o m done).
Proof.
  intros s. unfold n_query. destruct (bit mask M_QUERY && is_some (t_val (m_query m))); [|intros _; apply clean_refl].
  pose proof (norm_text_OK o fix_pct (m_query m) s) as K. destruct (norm_text csize o fix_pct (m_query m) s) as [[t'|] s1]; okleaf.
Qed.
Lemma n_frag_OK mask o m done : OKP (fun o => is_some o) (n_frag csize mask o m done).
Proof.
  intros s. unfold n_frag. destruct (bit mask M_FRAGMENT && is_some (t_val (m_fragment m))); [|intros _; apply clean_refl].
  pose proof (norm_text_OK o fix_pct (m_fragment m) s) as K. destruct (norm_text csize o fix_pct (m_fragment m) s) as [[t'|] s1]; okleaf.
Qed.
Lemma n_host_OK mask o m done : OKP (fun o => is_some o) (n_host csize mask o m done).
Proof.
  intros s. unfold n_host. destruct (bit mask M_HOST); [|intros _; apply clean_refl].
  destruct (t_val (m_ipFuture m)).
  - pose proof (norm_text_OK o lowercase (m_ipFuture m) s) as K. destruct (norm_text csize o lowercase (m_ipFuture m) s) as [[t'|] s1]; okleaf.
  - destruct (t_val (m_hostText m)); [|intros _; apply clean_refl].
    destruct (m_ip4 m); [intros _; apply clean_refl|]. destruct (m_ip6 m); [intros _; apply clean_refl|].
    pose proof (norm_text_OK o (fun x => lowercase_except_pct (fix_pct x)) (m_hostText m) s) as K.
    destruct (norm_text csize o (fun x => lowercase_except_pct (fix_pct x)) (m_hostText m) s) as [[t'|] s1]; okleaf.
Qed.

Lemma n_path_OK mask o m done : OKP (fun r : option (muri * N) * muri * N => is_some (fst (fst r))) (n_path csize mask o m done).
Proof.
  intros s. unfold n_path. destruct (bit mask M_PATH); [|intros _; apply clean_refl]. cbv zeta.
  set (relative := negb (is_some (t_val (m_scheme m))) && negb (m_abs m) && negb (m_host_set m)). clearbody relative.
  assert (Tail : forall m1 done1 owned, OKP (fun r : option (muri * N) * muri * N => is_some (fst (fst r))) (fun s1 =>
            let '(ok, m2, s2) := remove_dot_segments_m relative owned m1 s1 in
            if ok then
              let '(ok', m2', s2') := fix_ambiguity_owned_m csize m2 s2 in
              if ok' then let '(m3, s3) := fix_empty_trail_m m2' s2' in (Some (m3, done1), m3, done1, s3)
              else (@None (muri * N), m2', done1, s2')
            else (@None (muri * N), m2, done1, s2))).
  { intros m1 done1 owned s1. pose proof (remove_dot_segments_m_OK relative owned m1 s1) as K.
    destruct (remove_dot_segments_m_TR relative owned m1 s1) as [M _].
    destruct (remove_dot_segments_m relative owned m1 s1) as [[[|] m2] s2]; [|okleaf].
    pose proof (fix_ambiguity_owned_m_OK m2 s2) as Ka. destruct (fix_ambiguity_owned_m_TR csize m2 s2) as [Ma _].
    destruct (fix_ambiguity_owned_m csize m2 s2) as [[[|] m2'] s2']; [|okleaf].
    destruct (fix_empty_trail_m_clean m2' s2') as [K2 M2]. destruct (fix_empty_trail_m m2' s2') as [m3 s3]. okleaf. }
  destruct o; [apply Tail|].
  pose proof (norm_segs_malloc_OK (m_segs m) [] s) as K. destruct (norm_segs_malloc_TR csize (m_segs m) [] s) as [M _].
  destruct (norm_segs_malloc csize [] (m_segs m) s) as [[[|] segs] s1]; [|okleaf].
  pose proof (Tail (set_m_segs segs m) (N.lor done B_PATH) (false || negb (N.land (N.lor done B_PATH) B_PATH =? 0)%N) s1) as K2.
  cbn [fst snd] in *. intros G. spec_ok. apply (clean_trans s s1 _ M K). apply K2. exact G.
Qed.

Lemma n_fail_never_good m done s : rc_not_oom (fst (n_fail m done s)) = false.
Proof. unfold n_fail. destruct (prevent_leakage m done s). reflexivity. Qed.

Theorem normalize_m_OK mask m : OKP rc_not_oom (fun s => normalize_m csize mask m s).
Proof.
  intros s. rewrite !normalize_m_eq. destruct (mask =? 0)%N; [intros _; apply clean_refl|]. cbv zeta.
  set (o := m_owner m). clearbody o.
  assert (F : forall mf df sf (P : Prop), rc_not_oom (fst (n_fail mf df sf)) = true -> P).
  { intros mf df sf P H. rewrite n_fail_never_good in H. discriminate. }
  pose proof (n_scheme_OK mask o m 0%N s) as K1. destruct (n_scheme_TR csize mask o m 0%N s) as [M1 _].
  destruct (n_scheme csize mask o m 0 s) as [[[m1 d1]|] s1]; [|apply F].
  pose proof (n_host_OK mask o m1 d1 s1) as K2. destruct (n_host_TR csize mask o m1 d1 s1) as [M2 _].
  destruct (n_host csize mask o m1 d1 s1) as [[[m2 d2]|] s2]; [|apply F].
  pose proof (n_user_OK mask o m2 d2 s2) as K3. destruct (n_user_TR csize mask o m2 d2 s2) as [M3 _].
  destruct (n_user csize mask o m2 d2 s2) as [[[m3 d3]|] s3]; [|apply F].
  pose proof (n_path_OK mask o m3 d3 s3) as K4. destruct (n_path_TR csize mask o m3 d3 s3) as [M4 _].
  destruct (n_path csize mask o m3 d3 s3) as [[[[[m4 d4]|] mf4] df4] s4]; [|apply F].
  pose proof (n_query_OK mask o m4 d4 s4) as K5. destruct (n_query_TR csize mask o m4 d4 s4) as [M5 _].
  destruct (n_query csize mask o m4 d4 s4) as [[[m5 d5]|] s5]; [|apply F].
  pose proof (n_frag_OK mask o m5 d5 s5) as K6. destruct (n_frag_TR csize mask o m5 d5 s5) as [M6 _].
  destruct (n_frag csize mask o m5 d5 s5) as [[[m6 d6]|] s6]; [|apply F].
  destruct o; [okleaf|].
  pose proof (make_owner_engine_OK m6 d6 s6) as K7. destruct (make_owner_engine csize m6 d6 s6) as [[[[|] m7] d7] s7]; [okleaf|apply F].
Qed.

End WithCsize.

(* ---------------------------------------------------------------- resolution and reference creation *)
Lemma copy_segs_OK src : forall acc, OKP (fun r : bool * list mseg => fst r) (copy_segs acc src).
Proof.
  induction src as [|sg r IH]; intros acc s; cbn [copy_segs]; [intros _; apply clean_refl|].
  pose proof (alloc_OK false SEG_SIZE s) as K. destruct (TR_alloc false SEG_SIZE s) as [M _].
  destruct (alloc false SEG_SIZE s) as [[id|] s1]; [|okleaf].
  pose proof (IH ({| sg_text := sg_text sg; sg_blk := None; sg_node := id |} :: acc) s1) as K2.
  cbn [fst snd is_some] in *. intros G. spec_ok. apply (clean_trans s s1 _ M K). apply K2. exact G.
Qed.
Lemma append_segs_OK texts : forall acc, OKP (fun r : bool * list mseg => fst r) (append_segs acc texts).
Proof.
  induction texts as [|t r IH]; intros acc s; cbn [append_segs]; [intros _; apply clean_refl|].
  pose proof (alloc_OK false SEG_SIZE s) as K. destruct (TR_alloc false SEG_SIZE s) as [M _].
  destruct (alloc false SEG_SIZE s) as [[id|] s1]; [|okleaf].
  pose proof (IH ({| sg_text := t; sg_blk := None; sg_node := id |} :: acc) s1) as K2.
  cbn [fst snd is_some] in *. intros G. spec_ok. apply (clean_trans s s1 _ M K). apply K2. exact G.
Qed.
Lemma copy_path_m_OK dest src : OKP (fun r : bool * muri => fst r) (copy_path_m dest src).
Proof.
  intros s. unfold copy_path_m. pose proof (copy_segs_OK (m_segs src) [] s) as K.
  destruct (copy_segs [] (m_segs src) s) as [[[|] segs] s1]; okleaf.
Qed.
Lemma copy_authority_m_OK dest src : OKP (fun r : bool * muri => fst r) (copy_authority_m dest src).
Proof.
  intros s. unfold copy_authority_m. destruct (m_ip4 src) as [[v b]|].
  - pose proof (alloc_OK false IP4_SIZE s) as K. destruct (alloc false IP4_SIZE s) as [[id|] s1]; okleaf.
  - destruct (m_ip6 src) as [[v b]|].
    + pose proof (alloc_OK false IP6_SIZE s) as K. destruct (alloc false IP6_SIZE s) as [[id|] s1]; okleaf.
    + intros _. apply clean_refl.
Qed.
Lemma merge_path_m_OK work rel : OKP (fun r : bool * muri => fst r) (merge_path_m work rel).
Proof.
  intros s. unfold merge_path_m. destruct (m_segs rel) as [|r1 rr]; [intros _; apply clean_refl|].
  destruct (m_segs work) as [|g gr].
  - pose proof (alloc_OK false SEG_SIZE s) as K. destruct (TR_alloc false SEG_SIZE s) as [M _].
    destruct (alloc false SEG_SIZE s) as [[id|] s1]; [|okleaf].
    pose proof (copy_segs_OK rr [] s1) as K2. destruct (copy_segs [] rr s1) as [[[|] more] s2]; okleaf.
  - pose proof (copy_segs_OK rr [] s) as K2. destruct (copy_segs [] rr s) as [[[|] more] s2]; okleaf.
Qed.
Lemma resolve_abs_flag_m_OK m : OKP (fun o => is_some o) (resolve_abs_flag_m m).
Proof.
  intros s. unfold resolve_abs_flag_m. destruct (m_host_set m && m_abs m); [|intros _; apply clean_refl].
  destruct (m_segs m); [|intros _; apply clean_refl].
  pose proof (alloc_OK false SEG_SIZE s) as K. destruct (alloc false SEG_SIZE s) as [[id|] s1]; okleaf.
Qed.

Lemma ab_finish_OK rel d s : clean s (snd (ab_finish rel d s)) /\ mono s (snd (ab_finish rel d s)).
Proof.
  unfold ab_finish. destruct (fix_empty_trail_m_clean d s) as [K M]. destruct (fix_empty_trail_m d s) as [d1 s1]. auto.
Qed.

Ltac okfin rel :=
  match goal with |- context [ab_finish rel ?dd ?ss] =>
    let K := fresh "K" in let M := fresh "M" in
    destruct (ab_finish_OK rel dd ss) as [K M]; destruct (ab_finish rel dd ss) as [[? ?] ?]; okleaf end.

Lemma ab_tail_OK rel base d : OKP rc_not_oom (ab_tail rel base d).
Proof.
  intros s. unfold ab_tail.
  pose proof (remove_dot_segments_m_OK false (m_owner d) d s) as K3. destruct (remove_dot_segments_m_TR false (m_owner d) d s) as [M3 _].
  destruct (remove_dot_segments_m false (m_owner d) d s) as [[[|] d3] s3]; cbn [negb]; cbv beta iota; [|okleaf].
  pose proof (fix_ambiguity_m_OK d3 s3) as K4. destruct (fix_ambiguity_m_TR d3 s3) as [M4 _].
  destruct (fix_ambiguity_m d3 s3) as [[[|] d4] s4]; cbn [negb]; cbv beta iota; [|okleaf].
  okfin rel.
Qed.
Lemma ab_abs_OK rel base d : OKP rc_not_oom (ab_abs rel base d).
Proof.
  intros s. unfold ab_abs.
  pose proof (copy_path_m_OK d rel s) as K2. destruct (copy_path_m_TR d rel s) as [M2 _].
  destruct (copy_path_m d rel s) as [[[|] d2] s2]; cbn [negb]; cbv beta iota; [|okleaf].
  pose proof (resolve_abs_flag_m_OK d2 s2) as K2b. destruct (resolve_abs_flag_m_TR d2 s2) as [M2b _].
  destruct (resolve_abs_flag_m d2 s2) as [[d2b|] s2b]; [|okleaf].
  pose proof (ab_tail_OK rel base d2b s2b) as K5. destruct (ab_tail rel base d2b s2b) as [[rc d5] s5].
  cbn [fst snd is_some] in *. intros G. spec_ok. apply (clean_trans _ _ _ M2 K2). apply (clean_trans _ _ _ M2b K2b). apply K5. exact G.
Qed.
Lemma ab_merge_OK rel base d : OKP rc_not_oom (ab_merge rel base d).
Proof.
  intros s. unfold ab_merge.
  pose proof (copy_path_m_OK d base s) as K2. destruct (copy_path_m_TR d base s) as [M2 _].
  destruct (copy_path_m d base s) as [[[|] d2] s2]; cbn [negb]; cbv beta iota; [|okleaf].
  pose proof (merge_path_m_OK d2 rel s2) as K2b. destruct (merge_path_m_TR d2 rel s2) as [M2b _].
  destruct (merge_path_m d2 rel s2) as [[[|] d2b] s2b]; cbn [negb]; cbv beta iota; [|okleaf].
  pose proof (ab_tail_OK rel base d2b s2b) as K5. destruct (ab_tail rel base d2b s2b) as [[rc d5] s5].
  cbn [fst snd is_some] in *. intros G. spec_ok. apply (clean_trans _ _ _ M2 K2). apply (clean_trans _ _ _ M2b K2b). apply K5. exact G.
Qed.
Lemma ab_take_OK rel src d : OKP rc_not_oom (ab_take rel src d).
Proof.
  intros s. unfold ab_take.
  pose proof (copy_authority_m_OK d src s) as K1. destruct (copy_authority_m_TR d src s) as [M1 _].
  destruct (copy_authority_m d src s) as [[[|] d1] s1]; cbn [negb]; cbv beta iota; [|okleaf].
  pose proof (copy_path_m_OK d1 src s1) as K2. destruct (copy_path_m_TR d1 src s1) as [M2 _].
  destruct (copy_path_m d1 src s1) as [[[|] d2] s2]; cbn [negb]; cbv beta iota; [|okleaf].
  pose proof (remove_dot_segments_m_OK false (m_owner d2) d2 s2) as K3. destruct (remove_dot_segments_m_TR false (m_owner d2) d2 s2) as [M3 _].
  destruct (remove_dot_segments_m false (m_owner d2) d2 s2) as [[[|] d3] s3]; cbn [negb]; cbv beta iota; [|okleaf].
  pose proof (fix_ambiguity_m_OK d3 s3) as K4. destruct (fix_ambiguity_m_TR d3 s3) as [M4 _].
  destruct (fix_ambiguity_m d3 s3) as [[[|] d4] s4]; cbn [negb]; cbv beta iota; [|okleaf].
  okfin rel.
Qed.

Lemma add_base_impl_m_OK compat rel base : OKP rc_not_oom (add_base_impl_m compat rel base).
Proof.
  intros s. rewrite !add_base_impl_m_eq.
  destruct (t_val (m_scheme base)) as [tb|]; [|intros _; apply clean_refl].
  destruct (is_some (t_val (m_scheme rel)) && negb (compat && range_eqb (Some tb) (t_val (m_scheme rel)))).
  - match goal with |- context [ab_take rel rel ?d s] => pose proof (ab_take_OK rel rel d s) as K; destruct (ab_take rel rel d s) as [[? ?] ?]; exact K end.
  - destruct (m_host_set rel).
    + pose proof (copy_authority_m_OK muri_empty rel s) as K1. destruct (copy_authority_m_TR muri_empty rel s) as [M1 _].
      destruct (copy_authority_m muri_empty rel s) as [[[|] d1] s1]; cbn [negb]; cbv beta iota; [|okleaf].
      pose proof (copy_path_m_OK d1 rel s1) as K2. destruct (copy_path_m_TR d1 rel s1) as [M2 _].
      destruct (copy_path_m d1 rel s1) as [[[|] d2] s2]; cbn [negb]; cbv beta iota; [|okleaf].
      pose proof (remove_dot_segments_m_OK false (m_owner d2) d2 s2) as K3. destruct (remove_dot_segments_m_TR false (m_owner d2) d2 s2) as [M3 _].
      destruct (remove_dot_segments_m false (m_owner d2) d2 s2) as [[[|] d3] s3]; cbn [negb]; cbv beta iota; [|okleaf].
      okfin rel.
    + pose proof (copy_authority_m_OK muri_empty base s) as K1. destruct (copy_authority_m_TR muri_empty base s) as [M1 _].
      destruct (copy_authority_m muri_empty base s) as [[[|] d1] s1]; cbn [negb]; cbv beta iota; [|okleaf].
      assert (Sub : forall f : mstate -> N * muri * mstate, OKP rc_not_oom f -> rc_not_oom (fst (f s1)) = true -> clean s (snd (f s1))).
      { intros f Hf G. cbn [fst snd is_some] in *. spec_ok. apply (clean_trans _ _ _ M1 K1). apply Hf. exact G. }
      destruct (m_segs rel) as [|r1 rr]; destruct (m_abs rel).
      * apply (Sub _ (ab_abs_OK rel base d1)).
      * pose proof (copy_path_m_OK d1 base s1) as K2. destruct (copy_path_m_TR d1 base s1) as [M2 _].
        destruct (copy_path_m d1 base s1) as [[[|] d2] s2]; cbn [negb]; cbv beta iota; [|okleaf].
        okfin rel.
      * apply (Sub _ (ab_abs_OK rel base d1)).
      * apply (Sub _ (ab_merge_OK rel base d1)).
Qed.

Lemma free_members_clean m s : clean s (snd (free_members m s)).
Proof. destruct (free_members_np m s) as (_ & _ & c). intros n Hn. lia. Qed.

Theorem add_base_m_OK compat rel base : OKP rc_not_oom (add_base_m compat rel base).
Proof.
  intros s. unfold add_base_m. pose proof (add_base_impl_m_OK compat rel base s) as K.
  destruct (add_base_impl_m_TR compat rel base s) as [M _].
  destruct (add_base_impl_m compat rel base s) as [[rc d] s1]. destruct (rc =? 0)%N eqn:E0; [exact K|].
  pose proof (free_members_clean d s1) as K2. destruct (free_members d s1) as [d' s2].
  cbn [fst snd] in *. intros G. apply (clean_trans _ _ _ M (K G) K2).
Qed.

Lemma remove_base_impl_m_OK domain_root src base : OKP rc_not_oom (remove_base_impl_m domain_root src base).
Proof.
  intros s. unfold remove_base_impl_m. cbv zeta.
  destruct (t_val (m_scheme base)) as [tb|]; [|intros _; apply clean_refl].
  destruct (t_val (m_scheme src)) as [ts|]; [|intros _; apply clean_refl].
  assert (Copy : forall d, OKP rc_not_oom (fun s =>
           let '(ok, d, s) := copy_authority_m d src s in
           if negb ok then (URI_ERROR_MALLOC, d, s) else
           let '(ok, d, s) := copy_path_m d src s in
           if negb ok then (URI_ERROR_MALLOC, d, s)
           else (URI_SUCCESS, set_m_fragment (borrow (m_fragment src)) (set_m_query (borrow (m_query src)) d), s))).
  { intros d s0. pose proof (copy_authority_m_OK d src s0) as K1. destruct (copy_authority_m_TR d src s0) as [M1 _].
    destruct (copy_authority_m d src s0) as [[[|] d1] s1]; cbn [negb]; cbv beta iota; [|okleaf].
    pose proof (copy_path_m_OK d1 src s1) as K2. destruct (copy_path_m d1 src s1) as [[[|] d2] s2]; cbn [negb]; cbv beta iota; okleaf. }
  destruct (negb (range_eqb (scheme (erase src)) (scheme (erase base)))); [apply Copy|].
  destruct (negb (equals_authority (erase src) (erase base))).
  { destruct (negb (is_host_set (erase src)) && is_host_set (erase base)); apply Copy. }
  destruct domain_root.
  - pose proof (copy_path_m_OK muri_empty src s) as K2. destruct (copy_path_m_TR muri_empty src s) as [M2 _].
    destruct (copy_path_m muri_empty src s) as [[[|] d2] s2]; cbn [negb]; cbv beta iota; [|okleaf].
    destruct (fix_empty_trail_m_clean (set_m_abs true d2) s2) as [K3 M3].
    destruct (fix_empty_trail_m (set_m_abs true d2) s2) as [d3 s3].
    pose proof (fix_ambiguity_m_OK d3 s3) as K4.
    destruct (fix_ambiguity_m d3 s3) as [[[|] d4] s4]; cbn [negb]; cbv beta iota; okleaf.
  - destruct (skip_common (pathSegs (erase src)) (pathSegs (erase base))) as [s' b'].
    match goal with |- context [append_segs [] ?tt s] => pose proof (append_segs_OK tt [] s) as K; destruct (append_segs [] tt s) as [[[|] segs] s1] end; okleaf.
Qed.

Theorem remove_base_m_OK domain_root src base : OKP rc_not_oom (remove_base_m domain_root src base).
Proof.
  intros s. unfold remove_base_m. pose proof (remove_base_impl_m_OK domain_root src base s) as K.
  destruct (remove_base_impl_m_TR domain_root src base s) as [M _].
  destruct (remove_base_impl_m domain_root src base s) as [[rc d] s1]. destruct (rc =? 0)%N eqn:E0; [exact K|].
  pose proof (free_members_clean d s1) as K2. destruct (free_members d s1) as [d' s2].
  cbn [fst snd] in *. intros G. apply (clean_trans _ _ _ M (K G) K2).
Qed.

(* ---------------------------------------------------------------- the public form *)
Lemma OKP_public {A} (f : mstate -> N * A * mstate) : OKP rc_not_oom f ->
  forall s, fails_between s (snd (f s)) -> fst (fst (f s)) = URI_ERROR_MALLOC.
Proof.
  intros F s Fl. specialize (F s). unfold rc_not_oom in F.
  destruct (N.eqb_spec (fst (fst (f s))) URI_ERROR_MALLOC) as [E|E]; [exact E|].
  exfalso. apply (proj1 (clean_iff_no_fail s (snd (f s)))); [|exact Fl]. apply F. reflexivity.
Qed.

Theorem make_owner_m_refused_is_oom csize m s :
  fails_between s (snd (make_owner_m csize m s)) -> fst (fst (make_owner_m csize m s)) = URI_ERROR_MALLOC.
Proof. apply (OKP_public (fun s => make_owner_m csize m s)). apply make_owner_m_OK. Qed.
Theorem normalize_m_refused_is_oom csize mask m s :
  fails_between s (snd (normalize_m csize mask m s)) -> fst (fst (normalize_m csize mask m s)) = URI_ERROR_MALLOC.
Proof. apply (OKP_public (fun s => normalize_m csize mask m s)). apply normalize_m_OK. Qed.
Theorem add_base_m_refused_is_oom compat rel base s :
  fails_between s (snd (add_base_m compat rel base s)) -> fst (fst (add_base_m compat rel base s)) = URI_ERROR_MALLOC.
Proof. apply (OKP_public (add_base_m compat rel base)). apply add_base_m_OK. Qed.
Theorem remove_base_m_refused_is_oom domain_root src base s :
  fails_between s (snd (remove_base_m domain_root src base s)) -> fst (fst (remove_base_m domain_root src base s)) = URI_ERROR_MALLOC.
Proof. apply (OKP_public (remove_base_m domain_root src base)). apply remove_base_m_OK. Qed.
