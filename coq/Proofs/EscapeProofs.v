From UP Require Import Base.Chars Model.Escape Spec.PctSpec.
From Coq Require Import ZArith ZifyBool ZifyN Lia.
Local Open Scope N_scope.

(* ---------- small facts about the hex helpers (finite sweeps) ---------------- *)
Definition nibbles : list N := [0;1;2;3;4;5;6;7;8;9;10;11;12;13;14;15].

Lemma nibbles_complete v : v < 16 -> In v nibbles.
Proof.
  intros H. unfold nibbles.
  assert (v = 0 \/ v = 1 \/ v = 2 \/ v = 3 \/ v = 4 \/ v = 5 \/ v = 6 \/ v = 7 \/ v = 8 \/ v = 9
          \/ v = 10 \/ v = 11 \/ v = 12 \/ v = 13 \/ v = 14 \/ v = 15) as E by lia.
  simpl. intuition.
Qed.

Lemma hex_letter_facts v : v < 16 ->
  is_upper_hexdig (hex_to_letter v) = true /\ is_hexdig (hex_to_letter v) = true
  /\ hexdig_to_int (hex_to_letter v) = v.
Proof.
  intros H. apply nibbles_complete in H.
  assert (forallb (fun v => is_upper_hexdig (hex_to_letter v) && is_hexdig (hex_to_letter v)
                            && (hexdig_to_int (hex_to_letter v) =? v)) nibbles = true) as S
      by (vm_compute; reflexivity).
  rewrite forallb_forall in S. specialize (S _ H).
  apply andb_prop in S; destruct S as [S S3]. apply andb_prop in S; destruct S as [S1 S2].
  apply N.eqb_eq in S3. auto.
Qed.

Lemma unreserved_not_special c : is_unreserved c = true ->
  c <> 0 /\ c <> 37 /\ c <> 43 /\ c <> 32 /\ c <> 10 /\ c <> 13.
Proof.
  unfold is_unreserved, is_alpha, is_upper, is_lower, is_digit, is_unres_mark, in_range.
  intros H. lia.
Qed.

(* ---------- 1. escape output alphabet ------------------------------------- *)
Lemma escaped_form_app pa a b : escaped_form pa a = true -> escaped_form pa b = true ->
  escaped_form pa (a ++ b) = true.
Proof.
  revert a. fix IH 1. intros a Ha Hb. destruct a as [|c r]; [exact Hb|].
  cbn [app escaped_form] in *.
  destruct (c =? 37).
  - destruct r as [|x [|y r2]]; try discriminate. cbn [app].
    apply andb_prop in Ha. destruct Ha as [Ha1 Ha2]. rewrite Ha1. cbn [andb]. apply IH; assumption.
  - apply andb_prop in Ha. destruct Ha as [Ha1 Ha2]. rewrite Ha1. cbn [andb]. apply IH; assumption.
Qed.

Lemma escape_loop_form stp nb : forall l pc, escaped_form stp (escape_loop stp nb pc l) = true.
Proof.
  induction l as [|c r IH]; intros pc; [reflexivity|].
  cbn [escape_loop].
  destruct (c =? 0) eqn:E0; [reflexivity|].
  destruct (c =? 32) eqn:E32.
  { apply escaped_form_app; [|apply IH]. destruct stp; reflexivity. }
  destruct (is_unreserved c) eqn:EU.
  { cbn [escaped_form]. destruct (c =? 37) eqn:E37.
    - apply unreserved_not_special in EU. lia.
    - rewrite EU. cbn [orb andb]. apply IH. }
  destruct (c =? 10) eqn:E10.
  { apply escaped_form_app; [|apply IH]. destruct nb; [destruct pc|]; destruct stp; reflexivity. }
  destruct (c =? 13) eqn:E13.
  { apply escaped_form_app; [|apply IH]. destruct nb; destruct stp; reflexivity. }
  cbv zeta. apply escaped_form_app; [|apply IH].
  assert (c mod 256 / 16 < 16) as H1 by (apply N.div_lt_upper_bound; [lia|]; pose proof (N.mod_upper_bound c 256); lia).
  assert (c mod 256 mod 16 < 16) as H2 by (apply N.mod_upper_bound; lia).
  destruct (hex_letter_facts _ H1) as [A1 _]. destruct (hex_letter_facts _ H2) as [A2 _].
  cbn [escaped_form]. change (37 =? 37) with true. cbv iota. rewrite A1, A2. reflexivity.
Qed.

Lemma escape_charset stp nb l : escaped_form stp (escape stp nb l) = true.
Proof. apply escape_loop_form. Qed.

(* ---------- 2. size bound ------------------------------------------------- *)
Lemma escape_loop_bound stp nb : forall l pc,
  (length (escape_loop stp nb pc l) <= (if nb then 6 else 3) * length l)%nat.
Proof.
  induction l as [|c r IH]; intros pc; [cbn; lia|].
  cbn [escape_loop length].
  destruct (c =? 0); [cbn; lia|].
  destruct (c =? 32). { rewrite app_length. specialize (IH false). destruct stp, nb; cbn [length] in *; lia. }
  destruct (is_unreserved c). { cbn [length]. specialize (IH false). destruct nb; lia. }
  destruct (c =? 10). { rewrite app_length. specialize (IH false). destruct nb; [destruct pc|]; cbn [length] in *; lia. }
  destruct (c =? 13). { rewrite app_length. specialize (IH true). destruct nb; cbn [length] in *; lia. }
  cbv zeta. rewrite app_length. specialize (IH false). destruct nb; cbn [length] in *; lia.
Qed.

Lemma escape_bound stp nb l :
  (length (escape stp nb l) <= (if nb then 6 else 3) * length l)%nat.
Proof. apply escape_loop_bound. Qed.

(* ---------- 3. round trip --------------------------------------------------- *)
Definition all_1_255 (l : text) : Prop := Forall (fun c => 1 <= c <= 255) l.

Lemma unescape_triplet pts bc pc a b r :
  is_hexdig a = true -> is_hexdig b = true ->
  unescape_loop pts bc pc (37 :: a :: b :: r) =
  let code := 16 * hexdig_to_int a + hexdig_to_int b in
  if code =? 10 then out_lf bc pc ++ unescape_loop pts bc false r
  else if code =? 13 then out_cr bc ++ unescape_loop pts bc true r
  else code :: unescape_loop pts bc false r.
Proof. intros Ha Hb. cbn [unescape_loop]. change (37 =? 0) with false. change (37 =? 37) with true.
  cbv iota. rewrite Ha, Hb. reflexivity. Qed.

Lemma unescape_plain pts bc pc c r : c <> 0 -> c <> 37 -> c <> 43 ->
  unescape_loop pts bc pc (c :: r) = c :: unescape_loop pts bc false r.
Proof. intros H0 H37 H43. cbn [unescape_loop].
  destruct (c =? 0) eqn:E0; [lia|]. destruct (c =? 37) eqn:E1; [lia|]. destruct (c =? 43) eqn:E2; [lia|].
  reflexivity. Qed.

Lemma unescape_plus bc pc r :
  unescape_loop true bc pc (43 :: r) = 32 :: unescape_loop true bc false r.
Proof. reflexivity. Qed.

Lemma unescape_dt_cr pts pc l : unescape_loop pts BrDontTouch pc l = unescape_loop pts BrDontTouch false l.
Proof.
  destruct l as [|c r]; [reflexivity|]. cbn [unescape_loop].
  destruct (c =? 0); [reflexivity|]. destruct (c =? 37); [|reflexivity].
  destruct r as [|a r1]; [reflexivity|]. destruct (is_hexdig a); [|reflexivity].
  destruct r1 as [|b r2]; [reflexivity|]. destruct (is_hexdig b); reflexivity.
Qed.

Lemma unescape_enc_byte pts pc c r : 1 <= c <= 255 ->
  unescape_loop pts BrDontTouch pc (37 :: hex_to_letter (c / 16) :: hex_to_letter (c mod 16) :: r)
  = c :: unescape_loop pts BrDontTouch false r.
Proof.
  intros Hc.
  assert (c / 16 < 16) as H1 by (apply N.div_lt_upper_bound; lia).
  assert (c mod 16 < 16) as H2 by (apply N.mod_upper_bound; lia).
  destruct (hex_letter_facts _ H1) as [_ [A1 B1]]. destruct (hex_letter_facts _ H2) as [_ [A2 B2]].
  rewrite unescape_triplet by assumption. cbv zeta. rewrite B1, B2.
  assert (16 * (c / 16) + c mod 16 = c) as E by (pose proof (N.div_mod c 16); lia). rewrite E.
  destruct (c =? 10) eqn:E10.
  { apply N.eqb_eq in E10. subst c. reflexivity. }
  destruct (c =? 13) eqn:E13.
  { apply N.eqb_eq in E13. subst c. cbn [out_cr app]. f_equal. apply unescape_dt_cr. }
  reflexivity.
Qed.

Lemma roundtrip_loop stp nb pts : (stp = true -> pts = true) ->
  forall l pc pc', all_1_255 l ->
  unescape_loop pts BrDontTouch pc' (escape_loop stp nb pc l) = if nb then crlf_from pc l else l.
Proof.
  intros Hm. induction l as [|c r IH]; intros pc pc' Hall.
  { destruct nb; reflexivity. }
  inversion Hall as [|? ? Hc Hr]; subst.
  cbn [escape_loop crlf_from].
  destruct (c =? 0) eqn:E0; [lia|].
  destruct (c =? 32) eqn:E32.
  { apply N.eqb_eq in E32. subst c. change (32 =? 13) with false. change (32 =? 10) with false. cbv iota.
    destruct stp.
    - assert (pts = true) as Ep by auto. rewrite Ep in *. cbn [app]. rewrite unescape_plus. rewrite IH by assumption. destruct nb; reflexivity.
    - cbn [app]. change [37;50;48] with [37; hex_to_letter (32 / 16); hex_to_letter (32 mod 16)].
      change (37 :: 50 :: 48 :: ?x) with (37 :: hex_to_letter (32 / 16) :: hex_to_letter (32 mod 16) :: x).
      rewrite unescape_enc_byte by lia. rewrite IH by assumption. destruct nb; reflexivity. }
  destruct (is_unreserved c) eqn:EU.
  { pose proof (unreserved_not_special _ EU) as U.
    rewrite unescape_plain by tauto. rewrite IH by assumption.
    destruct (c =? 13) eqn:E13; [lia|]. destruct (c =? 10) eqn:E10; [lia|]. destruct nb; reflexivity. }
  destruct (c =? 10) eqn:E10.
  { apply N.eqb_eq in E10. subst c. change (10 =? 13) with false. cbv iota.
    destruct nb.
    - destruct pc; cbn [app].
      + apply IH; assumption.
      + change (37 :: 48 :: 68 :: 37 :: 48 :: 65 :: ?x)
          with (37 :: hex_to_letter (13 / 16) :: hex_to_letter (13 mod 16) ::
                37 :: hex_to_letter (10 / 16) :: hex_to_letter (10 mod 16) :: x).
        rewrite unescape_enc_byte by lia. rewrite unescape_enc_byte by lia. rewrite IH by assumption. reflexivity.
    - cbn [app]. change (37 :: 48 :: 65 :: ?x) with (37 :: hex_to_letter (10 / 16) :: hex_to_letter (10 mod 16) :: x).
      rewrite unescape_enc_byte by lia. rewrite IH by assumption. reflexivity. }
  destruct (c =? 13) eqn:E13.
  { apply N.eqb_eq in E13. subst c. destruct nb; cbn [app].
    - change (37 :: 48 :: 68 :: 37 :: 48 :: 65 :: ?x)
          with (37 :: hex_to_letter (13 / 16) :: hex_to_letter (13 mod 16) ::
                37 :: hex_to_letter (10 / 16) :: hex_to_letter (10 mod 16) :: x).
      rewrite unescape_enc_byte by lia. rewrite unescape_enc_byte by lia. rewrite IH by assumption. reflexivity.
    - change (37 :: 48 :: 68 :: ?x) with (37 :: hex_to_letter (13 / 16) :: hex_to_letter (13 mod 16) :: x).
      rewrite unescape_enc_byte by lia. rewrite IH by assumption. reflexivity. }
  cbv zeta. rewrite N.mod_small by lia. cbn [app].
  rewrite unescape_enc_byte by lia. rewrite IH by assumption. destruct nb; reflexivity.
Qed.

Lemma unescape_escape stp nb pts l : (stp = true -> pts = true) -> all_1_255 l ->
  unescape pts BrDontTouch (escape stp nb l) = if nb then crlf l else l.
Proof. intros Hm Hall. apply roundtrip_loop; assumption. Qed.
